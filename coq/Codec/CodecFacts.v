(* Round trips with encoder/decoder state lockstep for the primitive column codecs. *)
From Coq Require Import List NArith ZArith Lia Bool ZifyN ZifyNat ZifyBool.
From Stef Require Import Bits BitsFacts BitIO BitIOFacts Varint VarintFacts Codecs.
Import ListNotations.
Open Scope N_scope.
Ltac Zify.zify_post_hook ::= Z.div_mod_to_equations.

(* ---------- uint64 / int64 ---------- *)
Definition u64_wf (s : u64st) : Prop := u_last s < two64 /\ u_delta s < two64.

Lemma sub64_lt : forall a b, sub64 a b < two64.
Proof. intros. unfold sub64, two64. apply N.mod_lt. lia. Qed.

Lemma add64_sub64 : forall a b, a < two64 -> b < two64 -> add64 a (sub64 b a) = b.
Proof.
  unfold add64, sub64, two64. intros a b Ha Hb.
  rewrite (N.mod_small a) by lia.
  destruct (N.le_gt_cases a b).
  - replace (b + 18446744073709551616 - a) with ((b - a) + 1 * 18446744073709551616) by lia.
    rewrite N.mod_add by lia. rewrite (N.mod_small (b - a)) by lia.
    replace (a + (b - a)) with b by lia. apply N.mod_small. lia.
  - rewrite (N.mod_small (b + 18446744073709551616 - a)) by lia.
    replace (a + (b + 18446744073709551616 - a)) with (b + 1 * 18446744073709551616) by lia.
    rewrite N.mod_add by lia. apply N.mod_small. lia.
Qed.

Theorem u64_roundtrip : forall s v rest,
  u64_wf s -> v < two64 ->
  let '(s', b) := u64_encode s v in
  u64_decode s (b ++ rest) = Some (s', v, rest) /\ u64_wf s'.
Proof.
  intros s v rest [Hl Hd] Hv. unfold u64_encode, u64_decode.
  rewrite varint_roundtrip by apply to_i64_in.
  rewrite to_u64_to_i64 by apply sub64_lt.
  rewrite add64_sub64 by (assumption || apply sub64_lt).
  rewrite add64_sub64 by assumption.
  split; [reflexivity|]. split; cbn; [assumption|apply sub64_lt].
Qed.

Theorem i64_roundtrip : forall s v rest,
  u64_wf s -> in_i64 v ->
  let '(s', b) := i64_encode s v in
  i64_decode s (b ++ rest) = Some (s', v, rest) /\ u64_wf s'.
Proof.
  intros s v rest Hs Hv. unfold i64_encode, i64_decode.
  pose proof (u64_roundtrip s (to_u64 v) rest Hs (to_u64_lt v)) as H.
  destruct (u64_encode s (to_u64 v)) as [s' b]. destruct H as [H1 H2].
  rewrite H1. rewrite to_i64_to_u64 by assumption. split; [reflexivity|assumption].
Qed.

(* sequences: the decoder reproduces every value of a column, for any shared start state *)
Fixpoint u64_encode_seq (s : u64st) (vs : list N) : u64st * bytes :=
  match vs with
  | [] => (s, [])
  | v :: r => let '(s1, b) := u64_encode s v in
              let '(s2, bs) := u64_encode_seq s1 r in (s2, b ++ bs)
  end.
Fixpoint u64_decode_seq (n : nat) (s : u64st) (buf : bytes) : option (u64st * list N * bytes) :=
  match n with
  | O => Some (s, [], buf)
  | S m => match u64_decode s buf with
           | None => None
           | Some (s1, v, rest) =>
             match u64_decode_seq m s1 rest with
             | None => None
             | Some (s2, vs, rest') => Some (s2, v :: vs, rest')
             end
           end
  end.

Theorem u64_seq_roundtrip : forall vs s rest,
  u64_wf s -> Forall (fun v => v < two64) vs ->
  let '(s', b) := u64_encode_seq s vs in
  u64_decode_seq (length vs) s (b ++ rest) = Some (s', vs, rest) /\ u64_wf s'.
Proof.
  induction vs as [|v r IH]; intros s rest Hs Hvs; cbn [u64_encode_seq u64_decode_seq length].
  - split; [reflexivity|assumption].
  - inversion Hvs as [|? ? Hv Hr]; subst.
    pose proof (u64_roundtrip s v) as H1.
    destruct (u64_encode s v) as [s1 b].
    specialize (IH s1 rest).
    destruct (u64_encode_seq s1 r) as [s2 bs].
    destruct (H1 (bs ++ rest) Hs Hv) as [Hd Hwf1].
    rewrite <- app_assoc, Hd.
    destruct (IH Hwf1 Hr) as [Hd2 Hwf2]. rewrite Hd2. split; [reflexivity|assumption].
Qed.

(* ---------- float64 ---------- *)
Definition f64_wf (s : f64st) : Prop :=
  f_last s < two64 /\ f_lead s <= 31 /\ f_lead s + f_trail s <= 63.

Lemma testbit_top : forall (b : bool) t n, t < 2 ^ n ->
  N.testbit ((if b then 1 else 0) * 2 ^ n + t) n = b.
Proof.
  intros b t n Ht. rewrite N.testbit_eqb.
  rewrite N.div_add_l by (apply N.pow_nonzero; lia). rewrite (N.div_small t) by assumption.
  destruct b; reflexivity.
Qed.

Lemma testbit_hd : forall n b l,
  N.testbit (N_of_bits (take_ext (S n) (b :: l))) (N.of_nat n) = b.
Proof.
  intros. rewrite take_ext_cons, N_of_bits_cons, take_ext_length.
  apply testbit_top. pose proof (N_of_bits_lt (take_ext n l)) as H. rewrite take_ext_length in H. exact H.
Qed.

Lemma testbit_snd : forall n a b l,
  N.testbit (N_of_bits (take_ext (S (S n)) (a :: b :: l))) (N.of_nat n) = b.
Proof.
  intros. rewrite take_ext_cons, N_of_bits_cons.
  rewrite take_ext_cons, N_of_bits_cons, !take_ext_length. cbn [length].
  rewrite take_ext_length.
  pose proof (N_of_bits_lt (take_ext n l)) as H. rewrite take_ext_length in H.
  set (t := N_of_bits (take_ext n l)) in *.
  rewrite N.testbit_eqb.
  rewrite Nat2N.inj_succ, N.pow_succ_r'.
  replace ((if a then 1 else 0) * (2 * 2 ^ N.of_nat n) + ((if b then 1 else 0) * 2 ^ N.of_nat n + t))
    with ((2 * (if a then 1 else 0) + (if b then 1 else 0)) * 2 ^ N.of_nat n + t) by lia.
  rewrite N.div_add_l by (apply N.pow_nonzero; lia). rewrite (N.div_small t) by assumption.
  destruct a, b; reflexivity.
Qed.

Lemma testbit13_hd : forall b l, N.testbit (N_of_bits (take_ext 13 (b :: l))) 12 = b.
Proof. intros. exact (testbit_hd 12 b l). Qed.
Lemma testbit13_snd : forall a b l, N.testbit (N_of_bits (take_ext 13 (a :: b :: l))) 11 = b.
Proof. intros. exact (testbit_snd 11 a b l). Qed.

Lemma sub64_small : forall a b, b <= a -> a < two64 -> sub64 a b = a - b.
Proof.
  intros a b Hb Ha. unfold sub64, two64 in *. rewrite (N.mod_small b) by lia.
  replace (a + 18446744073709551616 - b) with ((a - b) + 1 * 18446744073709551616) by lia.
  rewrite N.mod_add by lia. apply N.mod_small. lia.
Qed.

Lemma shl64_shr_exact : forall x t k, x = k * 2 ^ t -> x < two64 -> t < 64 ->
  shl64 (N.shiftr x t) t = x.
Proof.
  intros x t k Hk Hx Ht. unfold shl64. destruct (N.leb_spec 64 t); [lia|].
  rewrite (shl_shr_exact x t k Hk). apply N.mod_small. assumption.
Qed.

Lemma lxor_lt_two64 : forall a b, a < two64 -> b < two64 -> N.lxor a b < two64.
Proof.
  intros a b Ha Hb. unfold two64 in *. change 18446744073709551616 with (2 ^ 64) in *.
  destruct (N.eq_dec (N.lxor a b) 0) as [->|Hn]; [lia|].
  apply N.log2_lt_pow2; [lia|].
  eapply N.le_lt_trans; [apply N.log2_lxor|].
  apply N.max_lub_lt.
  - destruct (N.eq_dec a 0) as [->|]; [cbn; lia|]. apply N.log2_lt_pow2; lia.
  - destruct (N.eq_dec b 0) as [->|]; [cbn; lia|]. apply N.log2_lt_pow2; lia.
Qed.

Lemma lxor_cancel : forall v l, N.lxor (N.lxor v l) l = v.
Proof. intros. rewrite N.lxor_assoc, N.lxor_nilpotent, N.lxor_0_r. reflexivity. Qed.

Theorem f64_roundtrip : forall s v r rest,
  f64_wf s -> v < two64 -> br_wf r ->
  let '(s', b) := f64_encode s v in
  br_rem r = b ++ rest ->
  exists r', f64_decode s r = (s', v, r') /\ br_wf r' /\ br_rem r' = rest /\ f64_wf s'.
Proof.
  intros s v r rest [Hl [Hld Hlt]] Hv Hwf. unfold f64_encode.
  set (x := N.lxor v (f_last s)).
  assert (Hx : x < two64) by (apply lxor_lt_two64; assumption).
  destruct (N.eqb_spec x 0) as [Hx0|Hx0].
  { (* identical *)
    intros Hrem. unfold f64_decode.
    assert (Hne : br_rem r <> []) by (rewrite Hrem; discriminate).
    rewrite (br_peek_ext r 13 Hwf Hne ltac:(lia)). rewrite Hrem. cbn [app].
    rewrite testbit13_hd.
    destruct (br_consume_wf r [false] rest Hwf Hrem) as [Hw' Hr'].
    assert (Hvl : v = f_last s).
    { unfold x in Hx0. apply N.lxor_eq in Hx0. exact Hx0. }
    exists (br_consume r 1). rewrite <- Hvl. destruct s as [l ld lt].
    cbn [f_last f_lead f_trail] in *. subst l.
    split; [reflexivity|]. split; [assumption|]. split; [assumption|].
    unfold f64_wf; cbn [f_last f_lead f_trail]; lia. }
  assert (Hxpos : 0 < x) by lia.
  destruct (clz64_spec x Hx) as [Hup Hc64].
  pose proof (clz_ctz_bound x Hxpos Hx) as Hcc.
  destruct (ctz64_div x Hxpos) as [kk Hkk].
  set (leading := if 32 <=? clz64 x then 31 else clz64 x).
  assert (Hlead : leading <= 31 /\ leading <= clz64 x).
  { unfold leading. destruct (N.leb_spec 32 (clz64 x)); lia. }
  assert (Hupl : x < 2 ^ (64 - leading)).
  { eapply N.lt_le_trans; [exact Hup|]. apply N.pow_le_mono_r; lia. }
  set (trailing := ctz64 x) in *.
  set (sig := 64 - leading - trailing).
  destruct ((f_lead s <=? leading) && (f_trail s <=? trailing) &&
            (Z.of_N 53 - Z.of_N (f_lead s) - Z.of_N (f_trail s) <=? Z.of_N sig)%Z) eqn:Hcase.
  { (* scheme 10: reuse previous window *)
    apply andb_true_iff in Hcase. destruct Hcase as [Hcase _].
    apply andb_true_iff in Hcase. destruct Hcase as [Hpl Hpt].
    apply N.leb_le in Hpl. apply N.leb_le in Hpt.
    intros Hrem. unfold f64_decode.
    assert (Hne : br_rem r <> []) by (rewrite Hrem; discriminate).
    rewrite (br_peek_ext r 13 Hwf Hne ltac:(lia)). rewrite Hrem.
    cbn [app]. rewrite testbit13_hd, testbit13_snd.
    set (n := N.to_nat (64 - f_lead s - f_trail s)) in *.
    set (payload := bits_of_N n (N.shiftr x (f_trail s))) in *.
    assert (Hrem2 : br_rem r = [true; false] ++ (payload ++ rest)) by (rewrite Hrem; reflexivity).
    destruct (br_consume_wf r [true; false] _ Hwf Hrem2) as [Hw1 Hr1]. cbn [length] in Hw1, Hr1.
    rewrite (sub64_small 64 (f_lead s)) by (unfold two64; lia).
    rewrite (sub64_small (64 - f_lead s) (f_trail s)) by (unfold two64; lia).
    fold n.
    assert (Hpl_len : length payload = n) by (unfold payload; apply length_bits_of_N).
    destruct (br_read_bits_app _ payload rest Hw1 Hr1 ltac:(lia)) as [r2 [Hrd [Hw2 Hr2]]].
    rewrite Hpl_len in Hrd. rewrite Hrd.
    assert (Hpv : N_of_bits payload = N.shiftr x (f_trail s)).
    { unfold payload. apply N_of_bits_of_N_small. apply shiftr_lt.
      replace (f_trail s + N.of_nat n) with (64 - f_lead s) by lia.
      eapply N.lt_le_trans; [exact Hupl|]. apply N.pow_le_mono_r; lia. }
    rewrite Hpv.
    assert (Hdiv : exists k2, x = k2 * 2 ^ f_trail s).
    { exists (kk * 2 ^ (trailing - f_trail s)). rewrite <- N.mul_assoc, <- N.pow_add_r.
      replace (trailing - f_trail s + f_trail s) with trailing by lia. exact Hkk. }
    destruct Hdiv as [k2 Hk2].
    rewrite (shl64_shr_exact x (f_trail s) k2 Hk2 Hx ltac:(lia)).
    unfold x. rewrite lxor_cancel.
    exists r2. split; [reflexivity|]. split; [assumption|]. split; [assumption|].
    unfold f64_wf; cbn [f_last f_lead f_trail]; lia. }
  { (* scheme 11: new window *)
    clear Hcase. intros Hrem. unfold f64_decode.
    assert (Hne : br_rem r <> []) by (rewrite Hrem; discriminate).
    rewrite (br_peek_ext r 13 Hwf Hne ltac:(lia)).
    assert (Hsig : 1 <= sig <= 64) by (unfold sig; lia).
    set (n := N.to_nat sig) in *.
    set (payload := bits_of_N n (N.shiftr x trailing)) in *.
    set (hdrbits := [true; true] ++ bits_of_N 5 leading ++ bits_of_N 6 (sig - 1)).
    assert (Hhl : length hdrbits = 13%nat) by (unfold hdrbits; rewrite !app_length, !length_bits_of_N; reflexivity).
    assert (Hrem2 : br_rem r = hdrbits ++ (payload ++ rest)).
    { rewrite Hrem. unfold hdrbits. cbn [app]. rewrite <- !app_assoc. reflexivity. }
    rewrite Hrem2.
    rewrite <- Hhl. rewrite take_ext_app. rewrite Hhl.
    assert (Hhv : N_of_bits hdrbits = 3 * 2 ^ 11 + leading * 2 ^ 6 + (sig - 1)).
    { unfold hdrbits. rewrite !N_of_bits_app, !N_of_bits_of_N_small, !app_length, !length_bits_of_N.
      - change (N_of_bits [true; true]) with 3. change (N.of_nat (5 + 6)) with 11.
        change (N.of_nat 6) with 6. change (2 ^ 6) with 64. change (2 ^ 11) with 2048. lia.
      - change (2 ^ N.of_nat 6) with 64. lia.
      - change (2 ^ N.of_nat 5) with 32. lia. }
    rewrite Hhv.
    set (h := 3 * 2 ^ 11 + leading * 2 ^ 6 + (sig - 1)).
    assert (Hb12 : N.testbit h 12 = true).
    { rewrite N.testbit_eqb. apply N.eqb_eq. unfold h.
      change (2 ^ 6) with 64. change (2 ^ 11) with 2048. change (2 ^ 12) with 4096. lia. }
    assert (Hb11 : N.testbit h 11 = true).
    { rewrite N.testbit_eqb. apply N.eqb_eq. unfold h.
      change (2 ^ 6) with 64. change (2 ^ 11) with 2048. lia. }
    rewrite Hb12, Hb11.
    assert (Hle : N.land (N.shiftr h 6) 31 = leading).
    { rewrite N.shiftr_div_pow2. change 31 with (N.ones 5). rewrite N.land_ones. unfold h.
      change (2 ^ 6) with 64. change (2 ^ 11) with 2048. change (2 ^ 5) with 32. lia. }
    assert (Hsg : N.land h 63 + 1 = sig).
    { change 63 with (N.ones 6). rewrite N.land_ones. unfold h.
      change (2 ^ 6) with 64. change (2 ^ 11) with 2048. lia. }
    rewrite Hle, Hsg.
    destruct (br_consume_wf r hdrbits _ Hwf Hrem2) as [Hw1 Hr1]. rewrite Hhl in Hw1, Hr1.
    rewrite (sub64_small 64 leading) by (unfold two64; lia).
    rewrite (sub64_small (64 - leading) sig) by (unfold two64; lia).
    replace (64 - leading - sig) with trailing by lia.
    fold n.
    assert (Hpl_len : length payload = n) by (unfold payload; apply length_bits_of_N).
    destruct (br_read_bits_app _ payload rest Hw1 Hr1 ltac:(lia)) as [r2 [Hrd [Hw2 Hr2]]].
    rewrite Hpl_len in Hrd. rewrite Hrd.
    assert (Hpv : N_of_bits payload = N.shiftr x trailing).
    { unfold payload. apply N_of_bits_of_N_small. apply shiftr_lt.
      replace (trailing + N.of_nat n) with (64 - leading) by lia. exact Hupl. }
    rewrite Hpv.
    rewrite (shl64_shr_exact x trailing kk Hkk Hx ltac:(lia)).
    unfold x. rewrite lxor_cancel.
    exists r2. split; [reflexivity|]. split; [assumption|]. split; [assumption|].
    unfold f64_wf; cbn [f_last f_lead f_trail]; lia. }
Qed.

(* ---------- strings ---------- *)
Theorem str_roundtrip : forall (v rest : bytes), (Z.of_nat (length v) < two63)%Z ->
  str_decode (str_encode v ++ rest) = inr (v, rest).
Proof.
  intros v rest Hlen. unfold str_encode, str_decode.
  rewrite <- app_assoc. rewrite varint_roundtrip by (unfold in_i64, two63 in *; lia).
  destruct (Z.leb_spec 0 (Z.of_nat (length v))); [|lia].
  rewrite app_length.
  destruct (Z.leb_spec (Z.of_nat (length v)) (Z.of_nat (length v + length rest))); [|lia].
  rewrite Nat2Z.id, firstn_app_exact, skipn_app_exact. reflexivity.
Qed.

Lemma bytes_eqb_eq : forall a b, bytes_eqb a b = true <-> a = b.
Proof.
  induction a as [|x a IH]; destruct b as [|y b]; cbn; split; intros H; try reflexivity; try discriminate.
  - apply andb_true_iff in H. destruct H as [H1 H2]. apply N.eqb_eq in H1. apply IH in H2. subst. reflexivity.
  - inversion H; subst. rewrite N.eqb_refl. cbn. apply IH. reflexivity.
Qed.

Lemma dict_find_some : forall d v i ref, dict_find d v i = Some ref ->
  i <= ref /\ nth_error d (N.to_nat (ref - i)) = Some v /\ ref - i < N.of_nat (length d).
Proof.
  induction d as [|e r IH]; intros v i ref H; cbn [dict_find] in H; [discriminate|].
  destruct (bytes_eqb e v) eqn:He.
  - inversion H; subst. apply bytes_eqb_eq in He. subst. rewrite N.sub_diag. cbn. split; [lia|split; [reflexivity|lia]].
  - apply IH in H. destruct H as [H1 [H2 H3]]. split; [lia|].
    replace (N.to_nat (ref - i)) with (S (N.to_nat (ref - (i + 1)))) by lia.
    cbn [nth_error length]. split; [assumption|lia].
Qed.

(* dictionary codec: encoder list and decoder list stay equal; a value present in the
   dictionary is always written as a reference *)
Theorem strdict_roundtrip : forall (d : sdict) (v rest : bytes),
  (Z.of_nat (length v) < two63)%Z -> (Z.of_nat (length d) < two63)%Z ->
  let '(d', b) := strdict_encode d v in
  strdict_decode d (b ++ rest) = inr (d', v, rest).
Proof.
  intros d v rest Hlen Hd. unfold strdict_encode.
  destruct (dict_find d v 0) as [ref|] eqn:Hf.
  - apply dict_find_some in Hf. destruct Hf as [_ [Hn Hlt]]. rewrite N.sub_0_r in Hn, Hlt.
    unfold strdict_decode. rewrite varint_roundtrip by (unfold in_i64, two63 in *; lia).
    destruct (Z.leb_spec 0 (- Z.of_N ref - 1)); [lia|].
    destruct (Z.ltb_spec (- (- Z.of_N ref - 1) - 1) (Z.of_nat (length d))); [|lia].
    replace (Z.to_nat (- (- Z.of_N ref - 1) - 1)) with (N.to_nat ref) by lia.
    rewrite Hn. reflexivity.
  - unfold strdict_decode, str_encode. rewrite <- app_assoc.
    rewrite varint_roundtrip by (unfold in_i64, two63 in *; lia).
    destruct (Z.leb_spec 0 (Z.of_nat (length v))); [|lia].
    rewrite app_length.
    destruct (Z.leb_spec (Z.of_nat (length v)) (Z.of_nat (length v + length rest))); [|lia].
    rewrite Nat2Z.id, firstn_app_exact, skipn_app_exact. reflexivity.
Qed.

Theorem strdict_ref_when_present : forall d v, In v d ->
  exists ref, strdict_encode d v = (d, varint_enc (- Z.of_N ref - 1)).
Proof.
  intros d v Hin. unfold strdict_encode.
  assert (H : forall i, exists ref, dict_find d v i = Some ref).
  { induction d as [|e r IH]; [contradiction|]. intros i. cbn [dict_find].
    destruct (bytes_eqb e v) eqn:He; [eexists; reflexivity|].
    destruct Hin as [->|Hin]; [|apply IH; assumption].
    assert (bytes_eqb v v = true) by (apply bytes_eqb_eq; reflexivity). congruence. }
  destruct (H 0) as [ref Hr]. rewrite Hr. exists ref. reflexivity.
Qed.

(* ---------- over-read ---------- *)
Lemma overread_bytes : leb_dec [] = None /\ (forall s, u64_decode s [] = None) /\
  str_decode [] = inl EEof /\ (forall d, strdict_decode d [] = inl EEof).
Proof. repeat split. Qed.

Lemma overread_string_body : forall n (body : bytes), (length body < n)%nat -> (Z.of_nat n < two63)%Z ->
  str_decode (varint_enc (Z.of_nat n) ++ body) = inl EEof.
Proof.
  intros n body Hlen Hn. unfold str_decode.
  rewrite varint_roundtrip by (unfold in_i64, two63 in *; lia).
  destruct (Z.leb_spec 0 (Z.of_nat n)); [|lia].
  destruct (Z.leb_spec (Z.of_nat n) (Z.of_nat (length body))); [lia|reflexivity].
Qed.

Lemma overread_bits : forall r n, (0 < n)%nat ->
  br_threshold r < br_pos r + N.of_nat n -> br_err (snd (br_peek r n)) = true.
Proof.
  intros r n Hn H. unfold br_peek. cbn [snd br_err].
  destruct (N.ltb_spec 0 (N.of_nat n)); [|lia].
  destruct (N.ltb_spec (br_threshold r) (br_pos r + N.of_nat n)); [|lia].
  apply orb_true_r.
Qed.

Lemma error_sticky : forall r n m, br_err r = true ->
  br_err (snd (br_peek r n)) = true /\ br_err (br_consume r m) = true.
Proof. intros r n m H. unfold br_peek, br_consume. cbn. rewrite H. split; reflexivity. Qed.
