(* Primitive column codecs of go/pkg/codecs: uint64/int64 delta-of-delta, float64
   (Gorilla-style, three schemes), bool, string/bytes and dictionary string/bytes.
   Values: uint64 as N < 2^64, int64 as Z, float64 as its 64-bit pattern (N < 2^64),
   strings/bytes as list of bytes (N < 256). *)
From Coq Require Import List NArith ZArith Lia Bool.
From Stef Require Import Bits BitIO Varint.
Import ListNotations.
Open Scope N_scope.

Definition bytes := list N.

(* ---------- uint64 / int64: go/pkg/codecs/uint64.go, int64.go ---------- *)
Record u64st := mkU64 { u_last : N; u_delta : N }.
Definition u64_init : u64st := mkU64 0 0.

Definition sub64 (a b : N) : N := (a + two64 - b mod two64) mod two64.
Definition add64 (a b : N) : N := (a + b) mod two64.
(* x << n on uint64 (Go: a shift count >= 64 gives 0) *)
Definition shl64 (x n : N) : N := if 64 <=? n then 0 else N.shiftl x n mod two64.

Definition u64_encode (s : u64st) (v : N) : u64st * bytes :=
  let delta := sub64 v (u_last s) in
  let dod := to_i64 (sub64 delta (u_delta s)) in
  (mkU64 v delta, varint_enc dod).

Definition u64_decode (s : u64st) (buf : bytes) : option (u64st * N * bytes) :=
  match varint_dec buf with
  | None => None
  | Some (x, rest) =>
    let delta := add64 (u_delta s) (to_u64 x) in
    let v := add64 (u_last s) delta in
    Some (mkU64 v delta, v, rest)
  end.

Definition i64_encode (s : u64st) (v : Z) : u64st * bytes := u64_encode s (to_u64 v).
Definition i64_decode (s : u64st) (buf : bytes) : option (u64st * Z * bytes) :=
  match u64_decode s buf with
  | None => None
  | Some (s', v, rest) => Some (s', to_i64 v, rest)
  end.

(* ---------- float64: go/pkg/codecs/float64.go ---------- *)
Record f64st := mkF64 { f_last : N; f_lead : N; f_trail : N }.
Definition f64_init : f64st := mkF64 0 0 0.

Definition f64_encode (s : f64st) (v : N) : f64st * bits :=
  let x := N.lxor v (f_last s) in
  if x =? 0 then (mkF64 v (f_lead s) (f_trail s), [false])
  else
    let leading0 := clz64 x in
    let leading := if 32 <=? leading0 then 31 else leading0 in
    let trailing := ctz64 x in
    let pl := f_lead s in
    let pt := f_trail s in
    let sig := 64 - leading - trailing in
    if ((pl <=? leading) && (pt <=? trailing) &&
        (Z.of_N 53 - Z.of_N pl - Z.of_N pt <=? Z.of_N sig)%Z)%bool then
      (mkF64 v pl pt,
       [true; false] ++ bits_of_N (N.to_nat (64 - pl - pt)) (N.shiftr x pt))
    else
      (mkF64 v leading trailing,
       [true; true] ++ bits_of_N 5 leading ++ bits_of_N 6 (sig - 1)
         ++ bits_of_N (N.to_nat sig) (N.shiftr x trailing)).

Definition f64_decode (s : f64st) (r : br) : f64st * N * br :=
  let '(hdr, r0) := br_peek r 13 in
  if N.testbit hdr 12 then
    if N.testbit hdr 11 then
      let r1 := br_consume r0 13 in
      let leading := N.land (N.shiftr hdr 6) 31 in
      let sig := N.land hdr 63 + 1 in
      (* trailing := 64 - leading - sigbits in uint64 arithmetic *)
      let trailing := sub64 (sub64 64 leading) sig in
      let '(xv, r2) := br_read_bits r1 (N.to_nat sig) in
      let x := shl64 xv trailing in
      let v := N.lxor x (f_last s) in
      (mkF64 v leading trailing, v, r2)
    else
      let r1 := br_consume r0 2 in
      let sig := sub64 (sub64 64 (f_lead s)) (f_trail s) in
      let '(xv, r2) := br_read_bits r1 (N.to_nat sig) in
      let x := shl64 xv (f_trail s) in
      let v := N.lxor x (f_last s) in
      (mkF64 v (f_lead s) (f_trail s), v, r2)
  else
    (s, f_last s, br_consume r0 1).

(* ---------- bool ---------- *)
Definition bool_encode (b : bool) : bits := [b].
Definition bool_decode (r : br) : bool * br := br_read_bit r.

(* ---------- string / bytes: go/pkg/codecs/string.go, bytes.go ---------- *)
Definition str_encode (v : bytes) : bytes :=
  varint_enc (Z.of_nat (length v)) ++ v.

Inductive derr := EEof | ERefNum | ELimit | EInvalid | EOther.

Definition str_decode (buf : bytes) : derr + (bytes * bytes) :=
  match varint_dec buf with
  | None => inl EEof
  | Some (x, rest) =>
    if (0 <=? x)%Z then
      if (x <=? Z.of_nat (length rest))%Z then
        let n := Z.to_nat x in inr (firstn n rest, skipn n rest)
      else inl EEof
    else inl ERefNum
  end.

(* ---------- dictionary string / bytes: stringdict.go, bytesdict.go ---------- *)
(* the encoder's map is modelled by the list of admitted values in RefNum order *)
Definition sdict := list bytes.

Fixpoint bytes_eqb (a b : bytes) : bool :=
  match a, b with
  | [], [] => true
  | x :: a', y :: b' => (x =? y) && bytes_eqb a' b'
  | _, _ => false
  end.

Fixpoint dict_find (d : sdict) (v : bytes) (i : N) : option N :=
  match d with
  | [] => None
  | e :: r => if bytes_eqb e v then Some i else dict_find r v (i + 1)
  end.

Definition strdict_encode (d : sdict) (v : bytes) : sdict * bytes :=
  match dict_find d v 0 with
  | Some ref => (d, varint_enc (- Z.of_N ref - 1))
  | None =>
    let d' := if (1 <? length v)%nat then d ++ [v] else d in
    (d', str_encode v)
  end.

Definition strdict_decode (d : sdict) (buf : bytes) : derr + (sdict * bytes * bytes) :=
  match varint_dec buf with
  | None => inl EEof
  | Some (x, rest) =>
    if (0 <=? x)%Z then
      if (x <=? Z.of_nat (length rest))%Z then
        let n := Z.to_nat x in
        let v := firstn n rest in
        inr (if (1 <? n)%nat then d ++ [v] else d, v, skipn n rest)
      else inl EEof
    else
      if (- x - 1 <? Z.of_nat (length d))%Z then
        match nth_error d (Z.to_nat (- x - 1)) with
        | Some v => inr (d, v, rest)
        | None => inl ERefNum
        end
      else inl ERefNum
  end.
