(* Extraction of the executable model for the correspondence check.
   ExtrOcamlBasic only (bool, option, list, prod, unit, sumbool map to OCaml's);
   nat, positive, N, Z stay Coq datatypes. No Extract Constant / Extract Inductive here. *)
From Coq Require Extraction.
From Coq Require Import ExtrOcamlBasic.
From Stef Require Import Bits BitIO Varint Codecs Schema Wire Apply Frame Reader Writer Source Cmp WireOk StreamFactsBase.
Extraction Language OCaml.
Extraction "model.ml"
  column_bytes bits_of_bytes N_of_bits bits_of_N
  bw_write_bits bw_write_bit bw_write_uvc uvc_spec_bits
  br_init br_peek br_consume br_read_bits br_read_bit br_read_uvc
  leb_enc leb_dec varint_enc varint_dec zigzag_enc zigzag_dec
  u64_init u64_encode u64_decode i64_encode i64_decode
  f64_init f64_encode f64_decode bool_encode bool_decode
  str_encode str_decode strdict_encode strdict_decode
  build_root all_fetched own_counts compatible
  parse_fixed_header parse_frame parse_data_frame parse_var_header parse_wire_schema
  emit_fixed_header emit_frame emit_var_header emit_wire_schema
  reader_open reader_read reader_next_frame frame_encode frame_encode_trace frame_check w_clear wst0 enc dec apply
  read_once read_full cmp data stream_ok.
