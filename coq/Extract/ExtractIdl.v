(* Extraction of the IDL model (C12, C13) for the correspondence check.
   ExtrOcamlBasic only; nat, positive, N, Z, ascii stay Coq datatypes. *)
From Coq Require Extraction.
From Coq Require Import ExtrOcamlBasic.
From Stef Require Import Varint Schema Frame Reader.
From Stef.Idl Require Import Unicode Lexer Ast Parser Resolve Printer WireSchema.
Extraction Language OCaml.
Extraction "model.ml"
  zigzag_enc
  utf8_decode utf8_encode tokenize tkind_code is_letter is_udigit is_space
  parse_gen parse parse_legacy print_gen print print_legacy
  sorted_structs sorted_mmaps sorted_enums
  wire_counts index_schema new_wire_schema own_counts serialize deserialize.
