(* Extraction of the transport / responder models for the correspondence checks of C15 and C16.
   ExtrOcamlBasic only; nat, positive, N stay Coq datatypes. *)
From Coq Require Extraction.
From Coq Require Import ExtrOcamlBasic.
From Coq Require Import ZArith.
From Stef Require Import Chunk Responder.
Extraction Language OCaml.
(* Z.of_N is listed only because ocaml/conv.ml mentions the extracted type z *)
Extraction "model.ml" Z.of_N
  write_chunk split_chunk asm_init asm_read run_reads chunks_of
  cfg_pinned cfg_current bad_data_max_batch_size st_init steps run visible
  mono_ok sound_ok ranges_ok exact_ranges code_ranges reported ok_acks.
