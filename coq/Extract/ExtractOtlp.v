(* Extraction of the OTLP <-> STEF converter model (C17, C18) for the correspondence check.
   ExtrOcamlBasic only; nat, positive, N, Z stay Coq datatypes. *)
From Coq Require Extraction.
From Coq Require Import ExtrOcamlBasic.
From Stef Require Import OtlpBase PData Record Image ToStef FromStef Traces.
Extraction Language OCaml.
Extraction "model.ml"
  mkCfg cfg_pinned cfg_repaired
  datapoint_count flatten mbatch_wf
  to_stef_unsorted to_stef_sorted from_stef from_stef_flags exact_flags from_stef_sorted
  span_count flatten_spans span_image traces_to_stef.
