(* go/pkg/schema/schema.go data types as the IDL parser builds them.

   FieldType in Go is a struct of six fields (Primitive, Array, Struct, MultiMap, Enum, DictName
   plus the resolved pointers).  The combinations reachable through idl.Parse are exactly:
     INone   d      all zero (parseFieldType returned without a type), DictName = d
     IPrim   p d    Primitive = p
     IRef    n d    Struct = n, StructDef = nil            (before ResolveRefs)
     IStruct n d    Struct = n, StructDef = Structs[n]
     IMap    n d    MultiMap = n, MultimapDef = Multimaps[n], Struct = ""
     IEnum   n d    Enum = n, Primitive = uint64, Struct = ""
     IArray  e d r  Array = &ArrayType{ElemType: e, recursive: r}
   (harness/idl reports any other combination as "weird").  Struct/Multimap `recursive` flags
   live in the definitions.  The Go maps Structs/Multimaps/Enums are association lists in
   declaration order here; every observable is taken after sorting by name. *)
From Coq Require Import List NArith Bool.
From Stef.Idl Require Import Lexer.
Import ListNotations.
Open Scope N_scope.

Inductive iprim := IInt64 | IUint64 | IFloat64 | IBool | IString | IBytes.

Inductive itype :=
| INone (d : str)
| IPrim (p : iprim) (d : str)
| IRef (n : str) (d : str)
| IStruct (n : str) (d : str)
| IMap (n : str) (d : str)
| IEnum (n : str) (d : str)
| IArray (e : itype) (d : str) (r : bool).

Definition it_dict (t : itype) : str :=
  match t with
  | INone d | IPrim _ d | IRef _ d | IStruct _ d | IMap _ d | IEnum _ d | IArray _ d _ => d
  end.

Definition set_dict (t : itype) (d : str) : itype :=
  match t with
  | INone _ => INone d
  | IPrim p _ => IPrim p d
  | IRef n _ => IRef n d
  | IStruct n _ => IStruct n d
  | IMap n _ => IMap n d
  | IEnum n _ => IEnum n d
  | IArray e _ r => IArray e d r
  end.

Record isfield := mkISField { if_name : str; if_type : itype; if_opt : bool }.
Record isdef := mkISDef { is_name : str; is_oneof : bool; is_dict : str; is_root : bool;
                          is_fields : list isfield; is_rec : bool }.
Record imdef := mkIMDef { im_name : str; im_key : itype; im_val : itype; im_rec : bool }.
Record iedef := mkIEDef { ie_name : str; ie_fields : list (str * N) }.
Record ischema := mkISchema { i_pkg : list str; i_structs : list isdef; i_mmaps : list imdef;
                              i_enums : list iedef }.

Fixpoint find_struct (l : list isdef) (n : str) : option isdef :=
  match l with
  | [] => None
  | s :: t => if str_eqb (is_name s) n then Some s else find_struct t n
  end.
Fixpoint find_mmap (l : list imdef) (n : str) : option imdef :=
  match l with
  | [] => None
  | s :: t => if str_eqb (im_name s) n then Some s else find_mmap t n
  end.
Fixpoint find_enum (l : list iedef) (n : str) : option iedef :=
  match l with
  | [] => None
  | s :: t => if str_eqb (ie_name s) n then Some s else find_enum t n
  end.

Definition has_struct (sch : ischema) (n : str) : bool :=
  match find_struct (i_structs sch) n with Some _ => true | None => false end.
Definition has_mmap (sch : ischema) (n : str) : bool :=
  match find_mmap (i_mmaps sch) n with Some _ => true | None => false end.
Definition has_enum (sch : ischema) (n : str) : bool :=
  match find_enum (i_enums sch) n with Some _ => true | None => false end.

(* Parser.isTopLevelNameUsed *)
Definition top_level_used (sch : ischema) (n : str) : bool :=
  has_struct sch n || has_mmap sch n || has_enum sch n.

Fixpoint mem_str (n : str) (l : list str) : bool :=
  match l with [] => false | x :: t => str_eqb x n || mem_str n t end.
