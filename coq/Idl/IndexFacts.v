(* C13, parser half: every schema the (repaired) parser returns can be numbered (index_schema),
   the numbered schema is well formed in the sense of WireOrderFacts, and therefore NewWireSchema
   (wire_counts) lists the field counts exactly in the order the generated Init consumes them.

   sch_resolved does not say that arrays are not nested; `sch_flat` is carried through the
   pipeline of `parse` separately here. *)
From Coq Require Import List NArith Bool Lia ZifyN ZifyNat ZifyBool Arith.
From Stef Require Import Varint Codecs Frame Reader.
From Stef.Schema Require Import Schema.
From Stef.Idl Require Import Lexer Ast Parser Resolve WireSchema TokSpec SchemaSpec
     LexerFacts ParserFacts ResolveFacts RecFacts PruneFacts ParseFacts WireOrderFacts.
Import ListNotations.
Open Scope N_scope.

(* ---------- no nested arrays ---------- *)
Definition nonarr (t : itype) : Prop := match t with IArray _ _ _ => False | _ => True end.
Definition flat (t : itype) : Prop := match t with IArray (IArray _ _ _) _ _ => False | _ => True end.

Definition sch_flat (s : ischema) : Prop :=
  (forall sd, In sd (i_structs s) -> forall f, In f (is_fields sd) -> flat (if_type f)) /\
  (forall md, In md (i_mmaps s) -> flat (im_key md) /\ flat (im_val md)).

Lemma nonarr_flat : forall t, nonarr t -> flat t.
Proof. intros t H. destruct t; try exact I. contradiction. Qed.

Lemma nonarr_arr_flat : forall e d r, nonarr e -> flat (IArray e d r).
Proof. intros e d r H. destruct e; try exact I. contradiction. Qed.

Lemma flat_cases : forall t, flat t -> nonarr t \/ exists e d r, t = IArray e d r /\ nonarr e.
Proof.
  intros t H. destruct t as [d|p d|n d|n d|n d|n d|e d r]; try (left; exact I).
  right. exists e, d, r. split; [reflexivity|]. destruct e; try exact I. contradiction.
Qed.

(* resolveFieldType on a type of the parser's shape *)
Lemma resolve_flat : forall sch t t', shape t -> resolve_type sch t = inr t' -> flat t'.
Proof.
  intros sch t t' Hs H. destruct t as [d|p d|n d|n d|n d|n d|e d r]; cbn [shape] in Hs; try contradiction.
  - apply nonarr_flat. exact (proj2 (resolve_base sch (IPrim p d) t' I H)).
  - apply nonarr_flat. exact (proj2 (resolve_base sch (IRef n d) t' I H)).
  - cbn [resolve_type] in H. destruct (resolve_type sch e) as [x|e'] eqn:E; [discriminate|].
    inversion H; subst. apply nonarr_arr_flat. exact (proj2 (resolve_base sch e e' Hs E)).
Qed.

Lemma resolve_fields_flat : forall sch fs fs', resolve_fields sch fs = inr fs' ->
  Forall (fun f => shape (if_type f)) fs -> forall f, In f fs' -> flat (if_type f).
Proof.
  intros sch. induction fs as [|f fs IH]; intros fs' H Hall g Hg; cbn [resolve_fields] in H.
  - inversion H; subst. destruct Hg.
  - destruct (resolve_type sch (if_type f)) as [x|t] eqn:Et; [discriminate|].
    destruct (resolve_fields sch fs) as [x|r'] eqn:Er; [discriminate|].
    inversion H; subst. inversion Hall; subst. destruct Hg as [Eg|Hg].
    + subst g. cbn [if_type]. eapply resolve_flat; eassumption.
    + eapply IH; [reflexivity|assumption|exact Hg].
Qed.

Lemma resolve_structs_flat : forall sch l l', Forall (struct_ok true) l -> resolve_structs sch l = inr l' ->
  forall sd, In sd l' -> forall f, In f (is_fields sd) -> flat (if_type f).
Proof.
  intros sch. induction l as [|s l IH]; intros l' Hall H sd Hsd f Hf; cbn [resolve_structs] in H.
  - inversion H; subst. destruct Hsd.
  - destruct (resolve_fields sch (is_fields s)) as [x|fs] eqn:Ef; [discriminate|].
    destruct (resolve_structs sch l) as [x|r'] eqn:Er; [discriminate|].
    inversion H; subst. inversion Hall as [|? ? Hs Hl]; subst. destruct Hsd as [E|Hsd].
    + subst sd. cbn [is_fields] in Hf. destruct Hs as [[_ Hsh] _].
      eapply resolve_fields_flat; [exact Ef|apply Hsh; reflexivity|exact Hf].
    + eapply IH; [exact Hl|reflexivity|exact Hsd|exact Hf].
Qed.

Lemma resolve_mmaps_flat : forall sch l l', Forall (mmap_ok true) l -> resolve_mmaps sch l = inr l' ->
  forall md, In md l' -> flat (im_key md) /\ flat (im_val md).
Proof.
  intros sch. induction l as [|m l IH]; intros l' Hall H md Hmd; cbn [resolve_mmaps] in H.
  - inversion H; subst. destruct Hmd.
  - destruct (resolve_type sch (im_key m)) as [x|k] eqn:Ek; [discriminate|].
    destruct (resolve_type sch (im_val m)) as [x|v] eqn:Ev; [discriminate|].
    destruct (resolve_mmaps sch l) as [x|r'] eqn:Er; [discriminate|].
    inversion H; subst. inversion Hall as [|? ? Hm Hl]; subst. destruct Hmd as [E|Hmd].
    + subst md. cbn [im_key im_val]. destruct Hm as [Hsh _]. destruct (Hsh eq_refl) as [Hk Hv].
      split; [exact (resolve_flat _ _ _ Hk Ek)|exact (resolve_flat _ _ _ Hv Ev)].
    + eapply IH; [exact Hl|reflexivity|exact Hmd].
Qed.

Lemma resolve_refs_flat : forall sch sch1, sch_ok true sch -> resolve_refs sch = inr sch1 -> sch_flat sch1.
Proof.
  intros sch sch1 [_ [Hs Hm]] H. unfold resolve_refs in H.
  destruct (resolve_structs sch (i_structs sch)) as [x|ss] eqn:Es; [discriminate|].
  destruct (resolve_mmaps sch (i_mmaps sch)) as [x|ms] eqn:Em; [discriminate|].
  inversion H; subst sch1. split; cbn [i_structs i_mmaps].
  - eapply resolve_structs_flat; eassumption.
  - eapply resolve_mmaps_flat; eassumption.
Qed.

Lemma mark_type_flat : forall marks l t, flat t -> flat (mark_type marks l t).
Proof. intros marks l t H. destruct t; cbn [mark_type]; try exact I. exact H. Qed.

Lemma apply_marks_flat : forall sch marks, sch_flat sch -> sch_flat (apply_marks sch marks).
Proof.
  intros sch marks [Hfs Hfm]. split.
  - intros sd Hsd f Hf. unfold apply_marks in Hsd. cbn [i_structs] in Hsd.
    apply in_map_iff in Hsd. destruct Hsd as [sd0 [E Hin0]]. subst sd. cbn [is_fields] in Hf.
    apply in_map_iff in Hf. destruct Hf as [ix [E Hix]]. subst f. cbn [if_type].
    apply mark_type_flat. eapply Hfs; [exact Hin0|]. eapply indexed_in. exact Hix.
  - intros md Hmd. unfold apply_marks in Hmd. cbn [i_mmaps] in Hmd.
    apply in_map_iff in Hmd. destruct Hmd as [md0 [E Hin0]]. subst md. cbn [im_key im_val].
    destruct (Hfm md0 Hin0). split; apply mark_type_flat; assumption.
Qed.

Lemma sublist_flat : forall a b, sch_flat a ->
  (forall sd, In sd (i_structs b) -> In sd (i_structs a)) ->
  (forall md, In md (i_mmaps b) -> In md (i_mmaps a)) -> sch_flat b.
Proof. intros a b [Hs Hm] H1 H2. split; [intros sd Hsd; apply Hs; auto|intros md Hmd; apply Hm; auto]. Qed.

Lemma finish_flat : forall ts sch s w, sch_ok true sch -> finish ts sch = OOk s w -> sch_flat s.
Proof.
  intros ts sch s w Hok H. unfold finish in H.
  destruct (resolve_refs sch) as [[|]|sch1] eqn:Er; try discriminate.
  destruct (resolve_refs_ok sch sch1 Hok Er) as [Hres [Hnd [Hwf _]]].
  pose proof (resolve_refs_flat sch sch1 Hok Er) as Hfl.
  destruct (compute_recursive sch1) as [marks|ps|] eqn:Em; try discriminate.
  destruct (apply_marks_ok sch1 marks Hres Hnd Hwf) as [Hres2 _].
  destruct (prune_unused (apply_marks sch1 marks)) as [[s' w']|] eqn:Ep; try discriminate.
  inversion H; subst s' w'.
  destruct (prune_unused_ok _ _ _ Hres2 Ep) as [_ [_ [Hin [Hinm _]]]].
  apply (sublist_flat (apply_marks sch1 marks)); [apply apply_marks_flat; exact Hfl|exact Hin|exact Hinm].
Qed.

Theorem parse_flat : forall input s w, parse input = OOk s w -> sch_flat s.
Proof.
  intros input s w H. unfold parse, parse_gen in H. pose proof (tokenize_wf input) as Hwf.
  destruct (parse_tokens true (tokenize input)) as [[ts' sch]|p m|] eqn:E; try discriminate.
  destruct (parse_tokens_ok true _ _ _ Hwf E) as [_ Hok]. eapply finish_flat; eassumption.
Qed.

(* ---------- numbering ---------- *)
Lemma index_in_bound : forall A (f : A -> str) l n k i,
  index_in f l n k = Some i -> k <= i < k + N.of_nat (length l).
Proof.
  intros A f. induction l as [|x l IH]; intros n k i H; cbn [index_in length] in *; [discriminate|].
  destruct (str_eqb (f x) n).
  - inversion H; subst. lia.
  - apply IH in H. lia.
Qed.

Lemma index_in_some : forall A (f : A -> str) l n k, In n (map f l) -> exists i, index_in f l n k = Some i.
Proof.
  intros A f. induction l as [|x l IH]; intros n k H; cbn [index_in map In] in *; [contradiction|].
  destruct (str_eqb (f x) n) eqn:E; [eexists; reflexivity|].
  destruct H as [H|H]; [subst; rewrite str_eqb_refl in E; discriminate|]. apply IH. exact H.
Qed.

Lemma index_in_ok : forall A (f : A -> str) l n, In n (map f l) ->
  exists i, index_in f l n 0 = Some i /\ i < N.of_nat (length l).
Proof.
  intros A f l n H. destruct (index_in_some A f l n 0 H) as [i E]. exists i. split; [exact E|].
  apply index_in_bound in E. lia.
Qed.

(* WireOrderFacts.wf_elem / wf_type with the two bounds made explicit *)
Definition wfe (a b : N) (t : ftype) : Prop :=
  match t with
  | TPrim _ _ => True
  | TStruct s => s < a
  | TMultimap m => m < b
  | TArray _ => False
  end.
Definition wft (a b : N) (t : ftype) : Prop := match t with TArray e => wfe a b e | _ => wfe a b t end.

Lemma wfe_wft : forall a b t, wfe a b t -> wft a b t.
Proof. intros a b t H. destruct t; cbn [wft wfe] in *; auto; contradiction. Qed.

Lemma wft_wf_type : forall sc t, wft (ns sc) (nm sc) t -> wf_type sc t.
Proof. intros sc t H. exact H. Qed.

Lemma index_elem_ok : forall s dicts t, rtype s t -> nonarr t ->
  exists t', index_type s dicts t = Some t' /\
             wfe (N.of_nat (length (i_structs s))) (N.of_nat (length (i_mmaps s))) t'.
Proof.
  intros s dicts t Hr Hn. destruct t as [d|p d|n d|n d|n d|n d|e d r]; cbn [rtype nonarr index_type] in *; try contradiction.
  - eexists; split; [reflexivity|exact I].
  - apply has_struct_in in Hr. destruct (index_in_ok _ is_name _ _ Hr) as [i [E Hi]].
    rewrite E. cbn [option_map]. eexists; split; [reflexivity|exact Hi].
  - apply has_mmap_in in Hr. destruct (index_in_ok _ im_name _ _ Hr) as [i [E Hi]].
    rewrite E. cbn [option_map]. eexists; split; [reflexivity|exact Hi].
  - eexists; split; [reflexivity|exact I].
Qed.

Lemma index_type_ok : forall s dicts t, rtype s t -> flat t ->
  exists t', index_type s dicts t = Some t' /\
             wft (N.of_nat (length (i_structs s))) (N.of_nat (length (i_mmaps s))) t'.
Proof.
  intros s dicts t Hr Hf. destruct (flat_cases t Hf) as [Hn|[e [d [r [E Hn]]]]].
  - destruct (index_elem_ok s dicts t Hr Hn) as [t' [E Hw]]. exists t'. split; [exact E|apply wfe_wft; exact Hw].
  - subst t. cbn [rtype] in Hr. destruct (index_elem_ok s dicts e Hr Hn) as [e' [E Hw]].
    cbn [index_type]. rewrite E. cbn [option_map]. exists (TArray e'). split; [reflexivity|exact Hw].
Qed.

Lemma all_some_map : forall A B (g : A -> option B) (P : A -> B -> Prop) l,
  (forall a, In a l -> exists b, g a = Some b /\ P a b) ->
  exists l', all_some (map g l) = Some l' /\ Forall2 P l l'.
Proof.
  intros A B g P. induction l as [|a l IH]; intros H; cbn [map all_some].
  - exists []. split; [reflexivity|constructor].
  - destruct (H a (or_introl eq_refl)) as [b [Eb Pb]]. rewrite Eb.
    destruct IH as [l' [El Hl]]; [intros a' Ha'; apply H; right; exact Ha'|].
    rewrite El. cbn [option_map]. exists (b :: l'). split; [reflexivity|constructor; assumption].
Qed.

Lemma Forall2_len : forall A B (R : A -> B -> Prop) l l', Forall2 R l l' -> length l' = length l.
Proof. induction 1; cbn [length]; [reflexivity|now f_equal]. Qed.

Theorem index_schema_ok : forall s, sch_resolved s -> sch_flat s ->
  exists sc, index_schema s = Some sc /\ wf_schema sc /\
             length (structs sc) = length (i_structs s) /\ length (multimaps sc) = length (i_mmaps s).
Proof.
  intros s [Hrs Hrm] [Hfs Hfm]. unfold index_schema.
  set (dicts := collect_dicts s).
  set (a := N.of_nat (length (i_structs s))). set (b := N.of_nat (length (i_mmaps s))).
  match goal with |- context [all_some (map ?g (i_structs s))] =>
    destruct (all_some_map _ _ g (fun (_ : isdef) sd' => forall fl, In fl (s_fields sd') -> wft a b (f_type fl))
                           (i_structs s)) as [ss [Ess Hss]] end.
  { intros sd Hsd.
    match goal with |- context [all_some (map ?g (is_fields sd))] =>
      destruct (all_some_map _ _ g (fun (_ : isfield) fl => wft a b (f_type fl)) (is_fields sd)) as [fs [Efs Hfs2]] end.
    { intros f Hf. destruct (index_type_ok s dicts (if_type f) (Hrs sd Hsd f Hf) (Hfs sd Hsd f Hf)) as [t' [Et Hw]].
      rewrite Et. cbn [option_map]. eexists; split; [reflexivity|]. cbn [f_type]. exact Hw. }
    rewrite Efs. cbn [option_map]. eexists; split; [reflexivity|]. cbn [s_fields].
    intros fl Hfl. destruct (Forall2_in_r _ _ _ _ _ _ Hfs2 Hfl) as [f0 [_ Hw]]. exact Hw. }
  match goal with |- context [all_some (map ?g (i_mmaps s))] =>
    destruct (all_some_map _ _ g (fun (_ : imdef) md' => wft a b (m_key md') /\ wft a b (m_val md'))
                           (i_mmaps s)) as [ms [Ems Hms]] end.
  { intros md Hmd. destruct (Hrm md Hmd) as [Hrk Hrv]. destruct (Hfm md Hmd) as [Hfk Hfv].
    destruct (index_type_ok s dicts (im_key md) Hrk Hfk) as [k [Ek Hk]].
    destruct (index_type_ok s dicts (im_val md) Hrv Hfv) as [v [Ev Hv]].
    rewrite Ek, Ev. eexists; split; [reflexivity|]. cbn [m_key m_val]. auto. }
  rewrite Ess, Ems. exists (mkSchema ss ms).
  pose proof (Forall2_len _ _ _ _ _ Hss) as Hl1. pose proof (Forall2_len _ _ _ _ _ Hms) as Hl2.
  split; [reflexivity|]. split; [|cbn [structs multimaps]; auto].
  assert (Ea : ns (mkSchema ss ms) = a) by (unfold ns, a; cbn [structs]; now rewrite Hl1).
  assert (Eb : nm (mkSchema ss ms) = b) by (unfold nm, b; cbn [multimaps]; now rewrite Hl2).
  split; cbn [structs multimaps].
  - intros sd' Hsd' fl Hfl. apply wft_wf_type. rewrite Ea, Eb.
    destruct (Forall2_in_r _ _ _ _ _ _ Hss Hsd') as [sd0 [_ Hw]]. apply Hw. exact Hfl.
  - intros md' Hmd'. destruct (Forall2_in_r _ _ _ _ _ _ Hms Hmd') as [md0 [_ [Hk Hv]]].
    split; apply wft_wf_type; rewrite Ea, Eb; assumption.
Qed.

(* ---------- C13 on parsed schemas ---------- *)
Theorem parse_wire_order : forall input s w root,
  parse input = OOk s w -> In root (map is_name (i_structs s)) ->
  exists sc r, index_schema s = Some sc /\ index_in is_name (i_structs s) root 0 = Some r /\
               wire_counts s root = POk (own_counts sc r).
Proof.
  intros input s w root Hp Hroot.
  destruct (parse_ok_resolved input s w Hp) as [Hres _].
  pose proof (parse_flat input s w Hp) as Hfl.
  destruct (index_schema_ok s Hres Hfl) as [sc [Esc [Hwf [Hl _]]]].
  destruct (index_in_ok _ is_name _ _ Hroot) as [r [Er Hr]].
  exists sc, r. split; [exact Esc|]. split; [exact Er|].
  unfold wire_counts. rewrite Er, Esc.
  rewrite (wire_schema_order sc Hwf r); [reflexivity|]. unfold ns. rewrite Hl. exact Hr.
Qed.
