(* go/pkg/idl/lexer.go as an executable model.

   Input: the BYTES of the file (list N, each < 256).  The Go lexer reads runes with
   bufio.Reader.ReadRune, i.e. utf8.DecodeRune on the remaining input: an invalid or truncated
   sequence yields U+FFFD with size 1 and NO error, so with an in-memory source `isError` is
   never set; the model therefore decodes the bytes into (code point, size) pairs first
   (utf8_decode, transcribed from unicode/utf8 `first`/`acceptRanges`) and has no error state.
   Code points rather than bytes are needed because line/column count runes, identifiers use
   unicode.IsLetter/IsDigit and white space is unicode.IsSpace (tables in Unicode.v).

   Quirks kept on purpose:
   * curPos is the position AFTER the look-ahead rune has been read (column 2 after the first
     rune) and a token's start position is curPos at the moment Next() is entered, i.e. before
     white space and comments are skipped (TestParserErrors pins "1:2: expected package ...").
   * CR, LF and CRLF each count as one new line; the column is reset to 1.
   * a single '/' that does not start a comment is swallowed silently (skipComment sets tError
     but Next() overwrites the token).
   * numbers: a digit followed by any of [0-9_bxoBXO], then strconv.ParseUint(s, 0, 64); so
     0x1f is the number 0x1 followed by the identifier f.
   The lexer does not depend on the parser, so the model tokenizes the whole input eagerly;
   tokens after the one at which the parser stops are never observed. *)
From Coq Require Import List NArith Bool String Ascii.
From Stef.Idl Require Import Unicode.
Import ListNotations.
Open Scope N_scope.

Definition str := list N.              (* a Go string holding identifier runes: its code points *)

Fixpoint str_eqb (a b : str) : bool :=
  match a, b with
  | [], [] => true
  | x :: a', y :: b' => (x =? y) && str_eqb a' b'
  | _, _ => false
  end.

(* byte-wise order of the UTF-8 encodings = lexicographic order of the code points *)
Fixpoint str_ltb (a b : str) : bool :=
  match a, b with
  | _, [] => false
  | [], _ :: _ => true
  | x :: a', y :: b' => if x <? y then true else if y <? x then false else str_ltb a' b'
  end.

Definition lit (s : string) : str := map N_of_ascii (list_ascii_of_string s).

(* every text literal of the model, evaluated here so that extraction never sees Coq strings *)
Definition S_package : str := Eval vm_compute in lit "package".
Definition S_struct : str := Eval vm_compute in lit "struct".
Definition S_oneof : str := Eval vm_compute in lit "oneof".
Definition S_multimap : str := Eval vm_compute in lit "multimap".
Definition S_enum : str := Eval vm_compute in lit "enum".
Definition S_optional : str := Eval vm_compute in lit "optional".
Definition S_root : str := Eval vm_compute in lit "root".
Definition S_dict : str := Eval vm_compute in lit "dict".
Definition S_key : str := Eval vm_compute in lit "key".
Definition S_value : str := Eval vm_compute in lit "value".
Definition S_bool : str := Eval vm_compute in lit "bool".
Definition S_int64 : str := Eval vm_compute in lit "int64".
Definition S_uint64 : str := Eval vm_compute in lit "uint64".
Definition S_float64 : str := Eval vm_compute in lit "float64".
Definition S_string : str := Eval vm_compute in lit "string".
Definition S_bytes : str := Eval vm_compute in lit "bytes".
Definition S_Wdict_LP : str := Eval vm_compute in lit " dict(".
Definition S_RP : str := Eval vm_compute in lit ")".
Definition S_LKRK : str := Eval vm_compute in lit "[]".
Definition S_unknown : str := Eval vm_compute in lit "unknown".
Definition S_W : str := Eval vm_compute in lit " ".
Definition S_Woptional : str := Eval vm_compute in lit " optional".
Definition S_oneofW : str := Eval vm_compute in lit "oneof ".
Definition S_WLB : str := Eval vm_compute in lit " {".
Definition S_structW : str := Eval vm_compute in lit "struct ".
Definition S_Wroot : str := Eval vm_compute in lit " root".
Definition S_WW : str := Eval vm_compute in lit "  ".
Definition S_RB : str := Eval vm_compute in lit "}".
Definition S_multimapW : str := Eval vm_compute in lit "multimap ".
Definition S_WWkeyW : str := Eval vm_compute in lit "  key ".
Definition S_WWvalueW : str := Eval vm_compute in lit "  value ".
Definition S_enumW : str := Eval vm_compute in lit "enum ".
Definition S_WEQW : str := Eval vm_compute in lit " = ".
Definition S_packageW : str := Eval vm_compute in lit "package ".
Definition S_DOT : str := Eval vm_compute in lit ".".

(* ---------- runes ---------- *)
Record rune := mkRune { r_cp : N; r_size : N }.
Definition rune_error : N := 65533.
Definition in_range (b lo hi : N) : bool := (lo <=? b) && (b <=? hi).

Fixpoint utf8_decode (bs : list N) : list rune :=
  match bs with
  | [] => []
  | b0 :: r =>
    (* a thunk: evaluated only in the branches that use it (call-by-value extraction) *)
    let bad := fun _ : unit => mkRune rune_error 1 :: utf8_decode r in
    if b0 <? 128 then mkRune b0 1 :: utf8_decode r
    else if b0 <? 194 then bad tt
    else if b0 <? 224 then
      match r with
      | b1 :: r1 =>
        if in_range b1 128 191 then mkRune ((b0 mod 32) * 64 + b1 mod 64) 2 :: utf8_decode r1 else bad tt
      | [] => bad tt
      end
    else if b0 <? 240 then
      match r with
      | b1 :: (b2 :: r2) =>
        if in_range b1 (if b0 =? 224 then 160 else 128) (if b0 =? 237 then 159 else 191) && in_range b2 128 191
        then mkRune ((b0 mod 16) * 4096 + (b1 mod 64) * 64 + b2 mod 64) 3 :: utf8_decode r2 else bad tt
      | _ => bad tt
      end
    else if b0 <? 245 then
      match r with
      | b1 :: (b2 :: (b3 :: r3)) =>
        if in_range b1 (if b0 =? 240 then 144 else 128) (if b0 =? 244 then 143 else 191)
           && in_range b2 128 191 && in_range b3 128 191
        then mkRune ((b0 mod 8) * 262144 + (b1 mod 64) * 4096 + (b2 mod 64) * 64 + b3 mod 64) 4 :: utf8_decode r3
        else bad tt
      | _ => bad tt
      end
    else bad tt
  end.

Fixpoint in_ranges (c : N) (l : list (N * N)) : bool :=
  match l with
  | [] => false
  | (lo, hi) :: t => if c <? lo then false else if c <=? hi then true else in_ranges c t
  end.

Definition is_letter (c : N) : bool := in_ranges c letter_ranges.
Definition is_udigit (c : N) : bool := in_ranges c digit_ranges.
Definition is_space (c : N) : bool := in_ranges c space_ranges.
Definition is_digit (c : N) : bool := in_range c 48 57.
Definition ident_char (c : N) : bool := is_letter c || is_udigit c || (c =? 95).
Definition is_number_continuation (c : N) : bool :=
  is_digit c || (c =? 95) || (c =? 98) || (c =? 120) || (c =? 111) || (c =? 66) || (c =? 88) || (c =? 79).

(* ---------- positions ---------- *)
Record pos := mkPos { p_ofs : N; p_line : N; p_col : N }.
Definition pos0 : pos := mkPos 0 1 1.

(* readNextRune on a rune that exists *)
Definition upd_pos (p : pos) (prevcr : bool) (r : rune) : pos * bool :=
  let ofs := p_ofs p + r_size r in
  let col := p_col p + 1 in
  if r_cp r =? 13 then (mkPos ofs (p_line p + 1) 1, true)
  else if r_cp r =? 10 then
    ((if prevcr then mkPos ofs (p_line p) col else mkPos ofs (p_line p + 1) 1), false)
  else (mkPos ofs (p_line p) col, false).

(* readNextRune when the runes after the current one are tl: at EOF nothing changes *)
Definition adv_pos (p : pos) (cr : bool) (tl : list rune) : pos * bool :=
  match tl with [] => (p, cr) | r :: _ => upd_pos p cr r end.

(* ---------- tokens ---------- *)
Inductive tkind :=
| TkError | TkEOF | TkPackage | TkIdent | TkStruct | TkOneof | TkMultimap | TkEnum
| TkOptional | TkRoot | TkDict | TkKey | TkValue
| TkBool | TkInt64 | TkUint64 | TkFloat64 | TkString | TkBytes | TkIntNumber
| TkDot | TkAssign | TkLBracket | TkRBracket | TkLParen | TkRParen | TkLBrace | TkRBrace.

(* numeric value of the Go constant *)
Definition tkind_code (k : tkind) : N :=
  match k with
  | TkError => 0 | TkEOF => 1 | TkPackage => 2 | TkIdent => 3 | TkStruct => 4 | TkOneof => 5
  | TkMultimap => 6 | TkEnum => 7 | TkOptional => 8 | TkRoot => 9 | TkDict => 10 | TkKey => 11
  | TkValue => 12 | TkBool => 13 | TkInt64 => 14 | TkUint64 => 15 | TkFloat64 => 16
  | TkString => 17 | TkBytes => 18 | TkIntNumber => 19
  | TkDot => 46 | TkAssign => 61 | TkLBracket => 91 | TkRBracket => 93 | TkLParen => 40
  | TkRParen => 41 | TkLBrace => 123 | TkRBrace => 125
  end.

Definition tkind_eqb (a b : tkind) : bool := tkind_code a =? tkind_code b.

Definition punct (c : N) : option tkind :=
  if c =? 46 then Some TkDot else if c =? 61 then Some TkAssign
  else if c =? 40 then Some TkLParen else if c =? 41 then Some TkRParen
  else if c =? 91 then Some TkLBracket else if c =? 93 then Some TkRBracket
  else if c =? 125 then Some TkRBrace else if c =? 123 then Some TkLBrace
  else None.

Definition keywords : list (str * tkind) :=
  [(S_package, TkPackage); (S_struct, TkStruct); (S_oneof, TkOneof);
   (S_multimap, TkMultimap); (S_enum, TkEnum); (S_optional, TkOptional);
   (S_root, TkRoot); (S_dict, TkDict); (S_key, TkKey); (S_value, TkValue);
   (S_bool, TkBool); (S_int64, TkInt64); (S_uint64, TkUint64);
   (S_float64, TkFloat64); (S_string, TkString); (S_bytes, TkBytes)].

Fixpoint assoc_str {A} (l : list (str * A)) (s : str) : option A :=
  match l with
  | [] => None
  | (k, v) :: t => if str_eqb k s then Some v else assoc_str t s
  end.

Definition keyword (s : str) : option tkind := assoc_str keywords s.

Inductive lexerr := LexNone | LexChar | LexNumber.

Record token := mkTok { t_kind : tkind; t_pos : pos; t_ident : str; t_num : N; t_err : lexerr }.

(* ---------- strconv.ParseUint(s, 0, 64) and underscoreOK ---------- *)
Definition max_u64 : N := 18446744073709551615.
Definition lower (c : N) : N := N.lor c 32.      (* c | ('x' - 'X') *)

Definition digit_val (c : N) : option N :=
  if in_range c 48 57 then Some (c - 48)
  else if in_range (lower c) 97 122 then Some (lower c - 97 + 10)
  else None.

(* the digit loop with base0 = true; None = syntax or range error *)
Fixpoint pu_loop (base : N) (s : str) (n : N) (us : bool) : option (N * bool) :=
  match s with
  | [] => Some (n, us)
  | c :: r =>
    if c =? 95 then pu_loop base r n true
    else match digit_val c with
         | None => None
         | Some d =>
           if base <=? d then None
           else let n1 := n * base + d in
                if max_u64 <? n1 then None else pu_loop base r n1 us
         end
  end.

Inductive saw := SawStart | SawDigit | SawUnder | SawOther.

Fixpoint uok_loop (hex : bool) (s : str) (sw : saw) : bool :=
  match s with
  | [] => match sw with SawUnder => false | _ => true end
  | c :: r =>
    if in_range c 48 57 || (hex && in_range (lower c) 97 102) then uok_loop hex r SawDigit
    else if c =? 95 then
      match sw with SawDigit => uok_loop hex r SawUnder | _ => false end
    else match sw with SawUnder => false | _ => uok_loop hex r SawOther end
  end.

Definition is_base_letter (c : N) : bool := (lower c =? 98) || (lower c =? 111) || (lower c =? 120).

Definition underscore_ok (s : str) : bool :=
  let s := match s with c :: r => if (c =? 45) || (c =? 43) then r else s | [] => s end in
  match s with
  | c0 :: (c1 :: r) =>
    if (c0 =? 48) && is_base_letter c1 then uok_loop (lower c1 =? 120) r SawDigit
    else uok_loop false s SawStart
  | _ => uok_loop false s SawStart
  end.

Definition parse_uint0 (s : str) : option N :=
  match s with
  | [] => None
  | c0 :: r0 =>
    let '(base, body) :=
      if c0 =? 48 then
        match r0 with
        | c1 :: r1 =>
          if Nat.leb 3 (List.length s) && (lower c1 =? 98) then (2, r1)
          else if Nat.leb 3 (List.length s) && (lower c1 =? 111) then (8, r1)
          else if Nat.leb 3 (List.length s) && (lower c1 =? 120) then (16, r1)
          else (8, r0)
        | [] => (8, r0)
        end
      else (10, s) in
    match pu_loop base body 0 false with
    | None => None
    | Some (n, us) => if us && negb (underscore_ok s) then None else Some n
    end
  end.

(* ---------- the lexer ---------- *)
(* rs: the runes from nextRune on ([] = isEOF); pos/cr: curPos and prevWasCR *)
Record lst := mkLst { l_rs : list rune; l_pos : pos; l_cr : bool }.

Definition lex_init (input : list N) : lst :=
  let rs := utf8_decode input in
  let '(p, cr) := adv_pos pos0 false rs in mkLst rs p cr.

(* skipWhiteSpaceOrComment + skipComment as one scan; incomment = inside "// ..." *)
Fixpoint skip_ws (incomment : bool) (rs : list rune) (p : pos) (cr : bool) : list rune * pos * bool :=
  match rs with
  | [] => ([], p, cr)
  | r :: tl =>
    let c := r_cp r in
    let '(p', cr') := adv_pos p cr tl in
    if incomment then
      (* the comment loop stops in front of CR/LF; the outer loop then consumes it as white space *)
      if (c =? 13) || (c =? 10) then skip_ws false tl p' cr' else skip_ws true tl p' cr'
    else if is_space c then skip_ws false tl p' cr'
    else if c =? 47 then
      match tl with
      | [] => ([], p', cr')
      | r2 :: _ => if r_cp r2 =? 47 then skip_ws true tl p' cr' else skip_ws false tl p' cr'
      end
    else (rs, p, cr)
  end.

Fixpoint read_ident (rs : list rune) (p : pos) (cr : bool) (acc : str) : str * (list rune * pos * bool) :=
  match rs with
  | [] => (acc, ([], p, cr))
  | r :: tl =>
    if ident_char (r_cp r) then
      let '(p', cr') := adv_pos p cr tl in read_ident tl p' cr' (acc ++ [r_cp r])
    else (acc, (rs, p, cr))
  end.

Fixpoint read_numcont (rs : list rune) (p : pos) (cr : bool) (acc : str) : str * (list rune * pos * bool) :=
  match rs with
  | [] => (acc, ([], p, cr))
  | r :: tl =>
    if is_number_continuation (r_cp r) then
      let '(p', cr') := adv_pos p cr tl in read_numcont tl p' cr' (acc ++ [r_cp r])
    else (acc, (rs, p, cr))
  end.

(* Lexer.Next *)
Definition next_token (st : lst) : token * lst :=
  let prev := l_pos st in
  let '(rs, p, cr) := skip_ws false (l_rs st) (l_pos st) (l_cr st) in
  match rs with
  | [] => (mkTok TkEOF prev [] 0 LexNone, mkLst [] p cr)
  | r :: tl =>
    let c := r_cp r in
    match punct c with
    | Some k => let '(p', cr') := adv_pos p cr tl in (mkTok k prev [] 0 LexNone, mkLst tl p' cr')
    | None =>
      if is_letter c then
        let '(id, (rs', p', cr')) := read_ident rs p cr [] in
        (mkTok (match keyword id with Some k => k | None => TkIdent end) prev id 0 LexNone, mkLst rs' p' cr')
      else if is_digit c then
        let '(p1, cr1) := adv_pos p cr tl in
        let '(ds, (rs', p', cr')) := read_numcont tl p1 cr1 [c] in
        match parse_uint0 ds with
        | Some v => (mkTok TkIntNumber prev [] v LexNone, mkLst rs' p' cr')
        | None => (mkTok TkError prev [] 0 LexNumber, mkLst rs' p' cr')
        end
      else
        let '(p', cr') := adv_pos p cr tl in (mkTok TkError prev [] 0 LexChar, mkLst tl p' cr')
    end
  end.

Definition is_eof (t : token) : bool := tkind_eqb (t_kind t) TkEOF.

(* all tokens up to and including the first EOF; fuel = number of runes + 1 (every other token
   consumes at least one rune: LexerFacts.tokenize_ends_with_eof) *)
Fixpoint lex_all (fuel : nat) (st : lst) : list token :=
  match fuel with
  | O => []
  | S f => let '(t, st') := next_token st in
           if is_eof t then [t] else t :: lex_all f st'
  end.

Definition tokenize (input : list N) : list token :=
  let st := lex_init input in lex_all (S (List.length (l_rs st))) st.
