(* Facts about the lexer model (Lexer.v): the UTF-8 decoder accounts for every input byte,
   tokenize always ends with exactly one EOF token, and every token position lies inside the input. *)
From Coq Require Import List NArith Bool Lia ZifyN ZifyNat ZifyBool Arith.
From Stef.Idl Require Import Unicode Lexer TokSpec.
Import ListNotations. Open Scope N_scope.

(* ---------- 1. utf8_decode ---------- *)
Definition size_sum (rs : list rune) : N := fold_right (fun r a => r_size r + a) 0 rs.

Lemma size_sum_nil : size_sum [] = 0.
Proof. reflexivity. Qed.

Lemma size_sum_cons : forall r rs, size_sum (r :: rs) = r_size r + size_sum rs.
Proof. reflexivity. Qed.

Lemma utf8_decode_sizes_aux : forall n bs, (length bs <= n)%nat ->
  size_sum (utf8_decode bs) = N.of_nat (length bs).
Proof.
  induction n as [|n IH]; intros bs H.
  - destruct bs; [reflexivity | cbn [length] in H; lia].
  - destruct bs as [|b0 r]; [reflexivity|].
    cbn [length] in H.
    assert (IH' : forall bs', (length bs' <= length r)%nat ->
                   size_sum (utf8_decode bs') = N.of_nat (length bs')) by (intros; apply IH; lia).
    clear IH H.
    cbn [utf8_decode].
    destruct (b0 <? 128);
      [rewrite size_sum_cons, IH' by lia; cbn [r_size length]; lia|].
    destruct (b0 <? 194);
      [rewrite size_sum_cons, IH' by lia; cbn [r_size length]; lia|].
    destruct (b0 <? 224).
    { destruct r as [|b1 r1];
        [rewrite size_sum_cons, IH' by lia; cbn [r_size length]; lia|].
      destruct (in_range b1 128 191);
        rewrite size_sum_cons, IH' by (cbn [length]; lia); cbn [r_size length]; lia. }
    destruct (b0 <? 240).
    { destruct r as [|b1 [|b2 r2]];
        try (rewrite size_sum_cons, IH' by lia; cbn [r_size length]; lia).
      match goal with |- context [if ?c then _ else _] => destruct c end;
        rewrite size_sum_cons, IH' by (cbn [length]; lia); cbn [r_size length]; lia. }
    destruct (b0 <? 245).
    { destruct r as [|b1 [|b2 [|b3 r3]]];
        try (rewrite size_sum_cons, IH' by lia; cbn [r_size length]; lia).
      match goal with |- context [if ?c then _ else _] => destruct c end;
        rewrite size_sum_cons, IH' by (cbn [length]; lia); cbn [r_size length]; lia. }
    rewrite size_sum_cons, IH' by lia; cbn [r_size length]; lia.
Qed.

Lemma utf8_decode_sizes : forall bs, size_sum (utf8_decode bs) = N.of_nat (length bs).
Proof. intros bs; apply (utf8_decode_sizes_aux (length bs)); lia. Qed.

Lemma utf8_decode_size_pos_aux : forall n bs, (length bs <= n)%nat ->
  Forall (fun r => 1 <= r_size r) (utf8_decode bs).
Proof.
  induction n as [|n IH]; intros bs H.
  - destruct bs; [constructor | cbn [length] in H; lia].
  - destruct bs as [|b0 r]; [constructor|].
    cbn [length] in H.
    assert (IH' : forall bs', (length bs' <= length r)%nat ->
                   Forall (fun r => 1 <= r_size r) (utf8_decode bs')) by (intros; apply IH; lia).
    clear IH H.
    cbn [utf8_decode].
    destruct (b0 <? 128);
      [constructor; [cbn [r_size]; lia | apply IH'; lia]|].
    destruct (b0 <? 194);
      [constructor; [cbn [r_size]; lia | apply IH'; lia]|].
    destruct (b0 <? 224).
    { destruct r as [|b1 r1];
        [constructor; [cbn [r_size]; lia | apply IH'; lia]|].
      destruct (in_range b1 128 191);
        (constructor; [cbn [r_size]; lia | apply IH'; cbn [length]; lia]). }
    destruct (b0 <? 240).
    { destruct r as [|b1 [|b2 r2]];
        try (constructor; [cbn [r_size]; lia | apply IH'; lia]).
      match goal with |- context [if ?c then _ else _] => destruct c end;
        (constructor; [cbn [r_size]; lia | apply IH'; cbn [length]; lia]). }
    destruct (b0 <? 245).
    { destruct r as [|b1 [|b2 [|b3 r3]]];
        try (constructor; [cbn [r_size]; lia | apply IH'; lia]).
      match goal with |- context [if ?c then _ else _] => destruct c end;
        (constructor; [cbn [r_size]; lia | apply IH'; cbn [length]; lia]). }
    constructor; [cbn [r_size]; lia | apply IH'; lia].
Qed.

Lemma utf8_decode_size_pos : forall bs, Forall (fun r => 1 <= r_size r) (utf8_decode bs).
Proof. intros bs; apply (utf8_decode_size_pos_aux (length bs)); lia. Qed.

(* ---------- lexer states reachable by reading runes ---------- *)
(* (rs', p', cr') is obtained from (rs, p, cr) by zero or more readNextRune calls *)
Inductive reach : list rune -> pos -> bool -> list rune -> pos -> bool -> Prop :=
| reach_refl : forall rs p cr, reach rs p cr rs p cr
| reach_step : forall r rest p cr p1 cr1 rs' p' cr',
    adv_pos p cr rest = (p1, cr1) -> reach rest p1 cr1 rs' p' cr' ->
    reach (r :: rest) p cr rs' p' cr'.

Lemma reach_trans : forall rs p cr rs1 p1 cr1 rs2 p2 cr2,
  reach rs p cr rs1 p1 cr1 -> reach rs1 p1 cr1 rs2 p2 cr2 -> reach rs p cr rs2 p2 cr2.
Proof.
  intros rs p cr rs1 p1 cr1 rs2 p2 cr2 H; induction H; intros H2.
  - exact H2.
  - eapply reach_step; [eassumption | auto].
Qed.

Lemma reach_len : forall rs p cr rs' p' cr',
  reach rs p cr rs' p' cr' -> (length rs' <= length rs)%nat.
Proof.
  intros rs p cr rs' p' cr' H; induction H.
  - lia.
  - cbn [length]; lia.
Qed.

Lemma skip_ws_reach : forall rs ic p cr rs' p' cr',
  skip_ws ic rs p cr = (rs', p', cr') -> reach rs p cr rs' p' cr'.
Proof.
  induction rs as [|r rest IH]; intros ic p cr rs' p' cr' H.
  - cbn [skip_ws] in H. inversion H; subst; apply reach_refl.
  - cbn [skip_ws] in H.
    destruct (adv_pos p cr rest) as [p1 cr1] eqn:A.
    destruct ic.
    + destruct ((r_cp r =? 13) || (r_cp r =? 10)); apply IH in H;
        eapply reach_step; eassumption.
    + destruct (is_space (r_cp r)).
      * apply IH in H; eapply reach_step; eassumption.
      * destruct (r_cp r =? 47).
        -- destruct rest as [|r2 rest2].
           ++ inversion H; subst. eapply reach_step; [exact A | apply reach_refl].
           ++ destruct (r_cp r2 =? 47); apply IH in H; eapply reach_step; eassumption.
        -- inversion H; subst; apply reach_refl.
Qed.

Lemma read_ident_reach : forall rs p cr acc id rs' p' cr',
  read_ident rs p cr acc = (id, (rs', p', cr')) -> reach rs p cr rs' p' cr'.
Proof.
  induction rs as [|r rest IH]; intros p cr acc id rs' p' cr' H.
  - cbn [read_ident] in H. inversion H; subst; apply reach_refl.
  - cbn [read_ident] in H.
    destruct (ident_char (r_cp r)).
    + destruct (adv_pos p cr rest) as [p1 cr1] eqn:A.
      apply IH in H. eapply reach_step; eassumption.
    + inversion H; subst; apply reach_refl.
Qed.

Lemma read_numcont_reach : forall rs p cr acc id rs' p' cr',
  read_numcont rs p cr acc = (id, (rs', p', cr')) -> reach rs p cr rs' p' cr'.
Proof.
  induction rs as [|r rest IH]; intros p cr acc id rs' p' cr' H.
  - cbn [read_numcont] in H. inversion H; subst; apply reach_refl.
  - cbn [read_numcont] in H.
    destruct (is_number_continuation (r_cp r)).
    + destruct (adv_pos p cr rest) as [p1 cr1] eqn:A.
      apply IH in H. eapply reach_step; eassumption.
    + inversion H; subst; apply reach_refl.
Qed.

(* ---------- Lexer.Next ---------- *)
Lemma is_eof_iff : forall t, is_eof t = true <-> t_kind t = TkEOF.
Proof.
  intros t; unfold is_eof, tkind_eqb.
  destruct (t_kind t); cbv; split; intros H; try reflexivity; discriminate H.
Qed.

Lemma next_token_spec : forall st t st', next_token st = (t, st') ->
  t_pos t = l_pos st /\
  reach (l_rs st) (l_pos st) (l_cr st) (l_rs st') (l_pos st') (l_cr st') /\
  (is_eof t = false -> (length (l_rs st') < length (l_rs st))%nat).
Proof.
  intros [rs0 p0 cr0] t st'. unfold next_token. cbn [l_rs l_pos l_cr].
  destruct (skip_ws false rs0 p0 cr0) as [[rs p] cr] eqn:E.
  apply skip_ws_reach in E.
  pose proof (reach_len _ _ _ _ _ _ E) as L.
  destruct rs as [|r rest].
  - intros H; inversion H; subst; clear H. cbn [t_pos l_rs l_pos l_cr].
    split; [reflexivity|]. split; [exact E|].
    intros H; vm_compute in H; discriminate H.
  - cbv zeta.
    destruct (punct (r_cp r)) as [k|].
    { destruct (adv_pos p cr rest) as [p1 cr1] eqn:A.
      intros H; inversion H; subst; clear H. cbn [t_pos l_rs l_pos l_cr].
      split; [reflexivity|]. split.
      - eapply reach_trans; [exact E|]. eapply reach_step; [exact A | apply reach_refl].
      - intros _. cbn [length] in L. lia. }
    destruct (is_letter (r_cp r)) eqn:IL.
    { destruct (read_ident (r :: rest) p cr []) as [id [[rs' p'] cr']] eqn:R.
      cbn [read_ident] in R. unfold ident_char in R. rewrite IL in R. cbn [orb] in R.
      destruct (adv_pos p cr rest) as [p1 cr1] eqn:A.
      apply read_ident_reach in R.
      pose proof (reach_len _ _ _ _ _ _ R) as L2.
      intros H; inversion H; subst; clear H. cbn [t_pos l_rs l_pos l_cr].
      split; [reflexivity|]. split.
      - eapply reach_trans; [exact E|]. eapply reach_step; [exact A | exact R].
      - intros _. cbn [length] in L. lia. }
    destruct (is_digit (r_cp r)).
    { destruct (adv_pos p cr rest) as [p1 cr1] eqn:A.
      destruct (read_numcont rest p1 cr1 [r_cp r]) as [ds [[rs' p'] cr']] eqn:R.
      apply read_numcont_reach in R.
      pose proof (reach_len _ _ _ _ _ _ R) as L2.
      destruct (parse_uint0 ds);
        (intros H; inversion H; subst; clear H; cbn [t_pos l_rs l_pos l_cr];
         split; [reflexivity|]; split;
         [ eapply reach_trans; [exact E|]; eapply reach_step; [exact A | exact R]
         | intros _; cbn [length] in L; lia ]). }
    destruct (adv_pos p cr rest) as [p1 cr1] eqn:A.
    intros H; inversion H; subst; clear H. cbn [t_pos l_rs l_pos l_cr].
    split; [reflexivity|]. split.
    + eapply reach_trans; [exact E|]. eapply reach_step; [exact A | apply reach_refl].
    + intros _. cbn [length] in L. lia.
Qed.

(* ---------- 2. exactly one EOF, at the end ---------- *)
Lemma lex_all_wf : forall fuel st, (length (l_rs st) < fuel)%nat -> wfts (lex_all fuel st).
Proof.
  induction fuel as [|f IH]; intros st H; [lia|].
  cbn [lex_all].
  destruct (next_token st) as [t st'] eqn:NT.
  apply next_token_spec in NT. destruct NT as (_ & _ & D).
  destruct (is_eof t) eqn:E.
  - exists [], t. split; [reflexivity|]. split; [exact E | constructor].
  - specialize (D eq_refl).
    destruct (IH st') as (pre & e & Hp & He & Hf); [lia|].
    exists (t :: pre), e. split; [rewrite Hp; reflexivity|].
    split; [exact He|]. constructor; assumption.
Qed.

Theorem tokenize_wf : forall input, wfts (tokenize input).
Proof. intros input; unfold tokenize; cbv zeta; apply lex_all_wf; lia. Qed.

(* the name announced in Lexer.v *)
Theorem tokenize_ends_with_eof : forall input,
  exists pre e, tokenize input = pre ++ [e] /\ t_kind e = TkEOF /\
                Forall (fun t => t_kind t <> TkEOF) pre.
Proof.
  intros input. destruct (tokenize_wf input) as (pre & e & Hp & He & Hf).
  exists pre, e. split; [exact Hp|]. split; [apply is_eof_iff; exact He|].
  eapply Forall_impl; [|exact Hf]. cbv beta. intros t Ht Hk.
  apply is_eof_iff in Hk. congruence.
Qed.

(* ---------- 3. positions ---------- *)
(* p is the position after the head rune of rs has been read *)
Definition st_inv (total : N) (rs : list rune) (p : pos) : Prop :=
  Forall (fun r => 1 <= r_size r) rs /\ p_ofs p + size_sum (tl rs) = total /\
  1 <= p_line p /\ 1 <= p_col p /\ p_line p <= 1 + p_ofs p /\ p_col p <= 1 + p_ofs p.

Lemma st_inv_pos_ok : forall total rs p, st_inv total rs p -> pos_ok total p.
Proof. unfold st_inv, pos_ok; intros total rs p (_ & O & L1 & C1 & L2 & C2). lia. Qed.

Lemma st_inv_step : forall total r rest p cr p1 cr1,
  adv_pos p cr rest = (p1, cr1) -> st_inv total (r :: rest) p -> st_inv total rest p1.
Proof.
  unfold st_inv; intros total r rest p cr p1 cr1 A (F & O & L1 & C1 & L2 & C2).
  pose proof (Forall_inv_tail F) as Frest. cbn [tl] in O.
  destruct rest as [|r2 rest2].
  - cbn [adv_pos] in A. inversion A; subst. cbn [tl].
    rewrite size_sum_nil in *. repeat split; try assumption; lia.
  - unfold adv_pos, upd_pos in A. pose proof (Forall_inv Frest) as Fr2. cbv beta in Fr2.
    rewrite size_sum_cons in O. cbn [tl].
    destruct (r_cp r2 =? 13); [| destruct (r_cp r2 =? 10); [destruct cr|]];
      inversion A; subst; cbn [p_ofs p_line p_col];
      repeat split; try assumption; lia.
Qed.

Lemma reach_inv : forall total rs p cr rs' p' cr',
  reach rs p cr rs' p' cr' -> st_inv total rs p -> st_inv total rs' p'.
Proof.
  intros total rs p cr rs' p' cr' H; induction H; intros I.
  - exact I.
  - apply IHreach. eapply st_inv_step; eassumption.
Qed.

Lemma lex_init_inv : forall input,
  st_inv (size_sum (utf8_decode input)) (l_rs (lex_init input)) (l_pos (lex_init input)).
Proof.
  intros input. unfold lex_init. cbv zeta.
  destruct (adv_pos pos0 false (utf8_decode input)) as [p cr] eqn:A.
  cbn [l_rs l_pos].
  eapply (st_inv_step _ (mkRune 0 1)); [exact A|].
  unfold st_inv. split.
  - constructor; [cbn [r_size]; lia | apply utf8_decode_size_pos].
  - cbn [tl pos0 p_ofs p_line p_col]. lia.
Qed.

Lemma lex_all_pos_ok : forall total fuel st t,
  st_inv total (l_rs st) (l_pos st) -> In t (lex_all fuel st) -> pos_ok total (t_pos t).
Proof.
  intros total; induction fuel as [|f IH]; intros st t I H.
  - cbn [lex_all In] in H. contradiction.
  - cbn [lex_all] in H.
    destruct (next_token st) as [t0 st'] eqn:NT.
    apply next_token_spec in NT. destruct NT as (P & R & _).
    assert (P0 : pos_ok total (t_pos t0))
      by (rewrite P; eapply st_inv_pos_ok; exact I).
    destruct (is_eof t0).
    + destruct H as [<-|[]]. exact P0.
    + destruct H as [<-|H]; [exact P0|].
      eapply IH; [|exact H]. eapply reach_inv; eassumption.
Qed.

Theorem tokenize_pos_ok : forall input t,
  In t (tokenize input) -> pos_ok (N.of_nat (length input)) (t_pos t).
Proof.
  intros input t H. unfold tokenize in H. cbv zeta in H.
  rewrite <- utf8_decode_sizes.
  eapply lex_all_pos_ok; [apply lex_init_inv | exact H].
Qed.
