(* C12 assembled: facts about idl.Parse as a whole (Resolve.parse / parse_gen). *)
From Coq Require Import List NArith Bool Lia.
From Stef.Idl Require Import Lexer Ast Parser Resolve TokSpec SchemaSpec
     LexerFacts ParserFacts ResolveFacts RecFacts PruneFacts.
Import ListNotations.
Open Scope N_scope.

(* every error, of the old and of the repaired parser, carries the start position of a token of
   the input, and that position lies inside the input *)
Theorem parse_gen_err_pos : forall b input p m, parse_gen b input = OErr p m ->
  (exists t, In t (tokenize input) /\ p = t_pos t) /\ pos_ok (N.of_nat (length input)) p.
Proof.
  intros b input p m H.
  assert (Ht : exists t, In t (tokenize input) /\ p = t_pos t).
  { unfold parse_gen in H. pose proof (tokenize_wf input) as Hwf.
    destruct (parse_tokens b (tokenize input)) as [[ts' sch]|p' m'|] eqn:E.
    - destruct (parse_tokens_ok b _ _ _ Hwf E) as [Hin _]. unfold finish in H.
      destruct (resolve_refs sch) as [[|]|sch1].
      + inversion H; subst. eauto.
      + inversion H; subst. eauto.
      + destruct (compute_recursive sch1); try discriminate.
        destruct (prune_unused (apply_marks sch1 a)) as [[? ?]|]; discriminate.
    - inversion H; subst. eapply parse_tokens_err_pos; eassumption.
    - discriminate. }
  split; [exact Ht|]. destruct Ht as [t [Hin ->]]. apply tokenize_pos_ok. exact Hin.
Qed.

(* after a successful token-level parse of the repaired parser, the rest of Parse cannot panic or
   run out of fuel, and what it returns is resolved *)
Lemma finish_ok : forall ts sch, sch_ok true sch ->
  (exists p m, finish ts sch = OErr p m) \/
  (exists s w, finish ts sch = OOk s w /\ sch_resolved s /\ NoDup (top_names s) /\ Forall struct_wf (i_structs s)).
Proof.
  intros ts sch Hok. unfold finish.
  destruct (resolve_refs sch) as [[|]|sch1] eqn:Er; [left; eauto|left; eauto|].
  destruct (resolve_refs_ok sch sch1 Hok Er) as [Hres [Hnd [Hwf _]]].
  destruct (compute_recursive_ok sch1 Hres) as [marks Em]. rewrite Em.
  destruct (apply_marks_ok sch1 marks Hres Hnd Hwf) as [Hres2 [Hnd2 [Hwf2 _]]].
  destruct (reachable_some (apply_marks sch1 marks) Hres2) as [r Ereach].
  destruct (prune_unused (apply_marks sch1 marks)) as [[s w]|] eqn:Ep.
  - right. exists s, w. split; [reflexivity|].
    destruct (prune_unused_ok _ _ _ Hres2 Ep) as [Hr3 [_ [Hin [_ [_ Hnd3]]]]].
    split; [auto|split; [auto|]].
    apply Forall_forall. intros sd Hsd. rewrite Forall_forall in Hwf2. auto.
  - unfold prune_unused in Ep. rewrite Ereach in Ep. discriminate.
Qed.

Lemma parse_cases : forall input,
  (exists p m, parse input = OErr p m) \/
  (exists s w, parse input = OOk s w /\ sch_resolved s /\ NoDup (top_names s) /\ Forall struct_wf (i_structs s)).
Proof.
  intros input. unfold parse, parse_gen. pose proof (tokenize_wf input) as Hwf.
  pose proof (parse_tokens_no_fuel true _ Hwf) as Hnf.
  destruct (parse_tokens true (tokenize input)) as [[ts' sch]|p m|] eqn:E; [|left; eauto|congruence].
  destruct (parse_tokens_ok true _ _ _ Hwf E) as [_ Hok]. apply finish_ok. exact Hok.
Qed.

(* idl.Parse (after the D7 fix) never panics ... *)
Theorem parse_no_panic : forall input s, parse input <> OPanic s.
Proof.
  intros input s H. destruct (parse_cases input) as [[p [m E]]|[s' [w [E _]]]]; rewrite E in H; discriminate.
Qed.

(* ... every loop of the model terminates within its fuel ... *)
Theorem parse_no_fuel : forall input, parse input <> OFuel.
Proof.
  intros input H. destruct (parse_cases input) as [[p [m E]]|[s' [w [E _]]]]; rewrite E in H; discriminate.
Qed.

(* ... and a returned schema has every reference resolved, unique top-level names, unique field
   names and at least one field in every root struct *)
Theorem parse_ok_resolved : forall input s w, parse input = OOk s w ->
  sch_resolved s /\ NoDup (top_names s) /\ Forall struct_wf (i_structs s).
Proof.
  intros input s w H. destruct (parse_cases input) as [[p [m E]]|[s' [w' [E Hs]]]]; rewrite E in H; [discriminate|].
  inversion H; subst. exact Hs.
Qed.

(* the token-level part of the old parser terminated as well: only its reference resolution could panic *)
Theorem parse_tokens_total : forall b input, parse_tokens b (tokenize input) <> Fuel.
Proof. intros b input. apply parse_tokens_no_fuel. apply tokenize_wf. Qed.
