(* go/pkg/idl/parser.go: the recursive-descent parser, function by function, over the token list
   produced by Lexer.tokenize (head = lexer.Token(); `advance` = lexer.Next(), which the Go parser
   only ever calls while the current token is not EOF).

   Every Go loop has explicit fuel (the number of tokens + 1: each iteration consumes a token,
   ParserFacts.parse_tokens_no_fuel) and `Fuel` is a separate outcome.

   `strict` selects the behaviour of parseFieldType when no type specifier follows a field name,
   `key` or `value`:  false = the code as it was (silently returns nil, leaving a zero FieldType,
   defect D7), true = the code after the fix (error "type specifier expected").

   Quirks kept: parseStructModifier always reports ok=false, so at most ONE modifier (dict(..) or
   root) is parsed; oneof shares parseStruct (its name error says "struct name expected");
   enum field names are not checked for duplicates; a multimap key/value may carry two dict
   modifiers, the second one wins; the file must contain at least one definition. *)
From Coq Require Import List NArith Bool.
From Stef.Idl Require Import Lexer Ast.
Import ListNotations.
Open Scope N_scope.

Inductive msg :=
| MTopLevel                       (* expected struct, oneof or multimap *)
| MEat (want got : tkind)         (* expected %s but got %s *)
| MPkgIdent                       (* identifier expected *)
| MStructName | MMultimapName | MEnumName | MDictName
| MDupTop | MDupField
| MArrType                        (* type specifier expected after [] *)
| MNoType                         (* type specifier expected   (after the D7 fix) *)
| MDictPrim | MOneofDict | MOneofRoot | MRootEmpty
| MEnumValue (e : lexerr)
| MUnknownType | MAmbiguous.

Inductive res (A : Type) :=
| Ok (a : A)
| Err (p : pos) (m : msg)
| Fuel.
Arguments Ok {A} a.
Arguments Err {A} p m.
Arguments Fuel {A}.

Definition bind {A B} (r : res A) (f : A -> res B) : res B :=
  match r with Ok a => f a | Err p m => Err p m | Fuel => Fuel end.
Notation "'do' x <- e ; f" := (bind e (fun x => f)) (at level 200, x pattern, e at level 100, f at level 200).

Definition eof0 : token := mkTok TkEOF pos0 [] 0 LexNone.
Definition cur (ts : list token) : token := hd eof0 ts.
Definition kind (ts : list token) : tkind := t_kind (cur ts).
Definition is (ts : list token) (k : tkind) : bool := tkind_eqb (kind ts) k.
Definition advance (ts : list token) : list token :=
  match ts with _ :: ((_ :: _) as tl) => tl | _ => ts end.
Definition perr {A} (ts : list token) (m : msg) : res A := Err (t_pos (cur ts)) m.

(* Parser.eat *)
Definition eat (k : tkind) (ts : list token) : res (list token) :=
  if is ts k then Ok (advance ts) else perr ts (MEat k (kind ts)).

(* parsePackage *)
Fixpoint parse_pkg_loop (fuel : nat) (ts : list token) (acc : list str) : res (list token * list str) :=
  match fuel with
  | O => Fuel
  | S f =>
    if negb (is ts TkIdent) then perr ts MPkgIdent
    else
      let acc := acc ++ [t_ident (cur ts)] in
      let ts := advance ts in
      if negb (is ts TkDot) then Ok (ts, acc) else parse_pkg_loop f (advance ts) acc
  end.

Definition parse_package (fuel : nat) (ts : list token) : res (list token * list str) :=
  do ts <- eat TkPackage ts; parse_pkg_loop fuel ts [].

(* parseDictModifier; current token is "dict" *)
Definition parse_dict_modifier (ts : list token) : res (list token * str) :=
  let ts := advance ts in
  do ts <- eat TkLParen ts;
  if negb (is ts TkIdent) then perr ts MDictName
  else
    let name := t_ident (cur ts) in
    let ts := advance ts in
    do ts <- eat TkRParen ts;
    Ok (ts, name).

Definition base_type (t : token) : option itype :=
  match t_kind t with
  | TkIdent => Some (IRef (t_ident t) [])
  | TkBool => Some (IPrim IBool [])
  | TkInt64 => Some (IPrim IInt64 [])
  | TkUint64 => Some (IPrim IUint64 [])
  | TkFloat64 => Some (IPrim IFloat64 [])
  | TkString => Some (IPrim IString [])
  | TkBytes => Some (IPrim IBytes [])
  | _ => None
  end.

Definition dict_forbidden (t : itype) : bool :=
  match t with
  | IPrim IString _ | IPrim IBytes _ => false
  | IPrim _ _ => true
  | _ => false
  end.

(* parseFieldType(field): returns the new value of *field *)
Definition parse_field_type (strict : bool) (ts : list token) (field : itype) : res (list token * itype) :=
  do (ts, isarr) <- (if is ts TkLBracket then (do ts <- eat TkRBracket (advance ts); Ok (ts, true))
                      else Ok (ts, false));
  match base_type (cur ts) with
  | None =>
    if isarr then perr ts MArrType
    else if strict then perr ts MNoType
    else Ok (ts, field)
  | Some ft =>
    let ts := advance ts in
    do (ts, ft) <- (if is ts TkDict then
                       if dict_forbidden ft then perr ts MDictPrim
                       else (do (ts, d) <- parse_dict_modifier ts; Ok (ts, set_dict ft d))
                     else Ok (ts, ft));
    Ok (ts, if isarr then IArray ft (it_dict field) false else ft)
  end.

(* parseStructFieldModifiers *)
Fixpoint parse_field_modifiers (fuel : nat) (ts : list token) (opt : bool) : res (list token * bool) :=
  match fuel with
  | O => Fuel
  | S f => if is ts TkOptional then parse_field_modifiers f (advance ts) true else Ok (ts, opt)
  end.

Fixpoint has_field (fields : list isfield) (n : str) : bool :=
  match fields with [] => false | f :: t => str_eqb (if_name f) n || has_field t n end.

(* parseStructField: (fields', ok) *)
Definition parse_struct_field (strict : bool) (fuel : nat) (ts : list token) (fields : list isfield)
  : res (list token * list isfield * bool) :=
  if negb (is ts TkIdent) then Ok (ts, fields, false)
  else
    let name := t_ident (cur ts) in
    if has_field fields name then perr ts MDupField
    else
      let ts := advance ts in
      do (ts, ft) <- parse_field_type strict ts (INone []);
      do (ts, opt) <- parse_field_modifiers fuel ts false;
      Ok (ts, fields ++ [mkISField name ft opt], true).

(* parseStructFields *)
Fixpoint parse_struct_fields (strict : bool) (fuel0 fuel : nat) (ts : list token) (fields : list isfield)
  : res (list token * list isfield) :=
  match fuel with
  | O => Fuel
  | S f =>
    do (ts, fields, ok) <- parse_struct_field strict fuel0 ts fields;
    if ok then parse_struct_fields strict fuel0 f ts fields else Ok (ts, fields)
  end.

(* parseStructModifiers: the loop body runs once because parseStructModifier returns ok=false *)
Definition parse_struct_modifiers (ts : list token) (oneof : bool) : res (list token * str * bool) :=
  match kind ts with
  | TkDict =>
    if oneof then perr ts MOneofDict
    else (do (ts, d) <- parse_dict_modifier ts; Ok (ts, d, false))
  | TkRoot =>
    if oneof then perr ts MOneofRoot else Ok (advance ts, [], true)
  | _ => Ok (ts, [], false)
  end.

(* parseStruct(isOneOf); current token is "struct" or "oneof" *)
Definition parse_struct (strict : bool) (fuel : nat) (ts : list token) (sch : ischema) (oneof : bool)
  : res (list token * isdef) :=
  let ts := advance ts in
  if negb (is ts TkIdent) then perr ts MStructName
  else
    let name := t_ident (cur ts) in
    if top_level_used sch name then perr ts MDupTop
    else
      let ts := advance ts in
      do (ts, dict, root) <- parse_struct_modifiers ts oneof;
      do ts <- eat TkLBrace ts;
      do (ts, fields) <- parse_struct_fields strict fuel fuel ts [];
      if root && (match fields with [] => true | _ => false end) then perr ts MRootEmpty
      else
        do ts <- eat TkRBrace ts;
        Ok (ts, mkISDef name oneof dict root fields false).

(* parseMultimapField *)
Definition parse_multimap_field (strict : bool) (ts : list token) : res (list token * itype) :=
  do (ts, ft) <- parse_field_type strict ts (INone []);
  if is ts TkDict then (do (ts, d) <- parse_dict_modifier ts; Ok (ts, set_dict ft d))
  else Ok (ts, ft).

(* parseMultimap *)
Definition parse_multimap (strict : bool) (ts : list token) (sch : ischema) : res (list token * imdef) :=
  let ts := advance ts in
  if negb (is ts TkIdent) then perr ts MMultimapName
  else
    let name := t_ident (cur ts) in
    if top_level_used sch name then perr ts MDupTop
    else
      let ts := advance ts in
      do ts <- eat TkLBrace ts;
      do ts <- eat TkKey ts;
      do (ts, k) <- parse_multimap_field strict ts;
      do ts <- eat TkValue ts;
      do (ts, v) <- parse_multimap_field strict ts;
      do ts <- eat TkRBrace ts;
      Ok (ts, mkIMDef name k v false).

(* parseEnumField *)
Definition parse_enum_field (ts : list token) (fields : list (str * N))
  : res (list token * list (str * N) * bool) :=
  if negb (is ts TkIdent) then Ok (ts, fields, false)
  else
    let name := t_ident (cur ts) in
    let ts := advance ts in
    do ts <- eat TkAssign ts;
    if negb (is ts TkIntNumber) then
      perr ts (MEnumValue (if is ts TkError then t_err (cur ts) else LexNone))
    else
      let v := t_num (cur ts) in
      Ok (advance ts, fields ++ [(name, v)], true).

Fixpoint parse_enum_fields (fuel : nat) (ts : list token) (fields : list (str * N))
  : res (list token * list (str * N)) :=
  match fuel with
  | O => Fuel
  | S f =>
    do (ts, fields, ok) <- parse_enum_field ts fields;
    if ok then parse_enum_fields f ts fields else Ok (ts, fields)
  end.

(* parseEnum *)
Definition parse_enum (fuel : nat) (ts : list token) (sch : ischema) : res (list token * iedef) :=
  let ts := advance ts in
  if negb (is ts TkIdent) then perr ts MEnumName
  else
    let name := t_ident (cur ts) in
    if top_level_used sch name then perr ts MDupTop
    else
      let ts := advance ts in
      do ts <- eat TkLBrace ts;
      do (ts, fields) <- parse_enum_fields fuel ts [];
      do ts <- eat TkRBrace ts;
      Ok (ts, mkIEDef name fields).

Definition add_struct (sch : ischema) (s : isdef) : ischema :=
  mkISchema (i_pkg sch) (i_structs sch ++ [s]) (i_mmaps sch) (i_enums sch).
Definition add_mmap (sch : ischema) (m : imdef) : ischema :=
  mkISchema (i_pkg sch) (i_structs sch) (i_mmaps sch ++ [m]) (i_enums sch).
Definition add_enum (sch : ischema) (e : iedef) : ischema :=
  mkISchema (i_pkg sch) (i_structs sch) (i_mmaps sch) (i_enums sch ++ [e]).

(* one top-level definition *)
Definition parse_def (strict : bool) (fuel0 : nat) (ts : list token) (sch : ischema)
  : res (list token * ischema) :=
  match kind ts with
  | TkStruct => do (ts, s) <- parse_struct strict fuel0 ts sch false; Ok (ts, add_struct sch s)
  | TkOneof => do (ts, s) <- parse_struct strict fuel0 ts sch true; Ok (ts, add_struct sch s)
  | TkMultimap => do (ts, m) <- parse_multimap strict ts sch; Ok (ts, add_mmap sch m)
  | TkEnum => do (ts, e) <- parse_enum fuel0 ts sch; Ok (ts, add_enum sch e)
  | _ => perr ts MTopLevel
  end.

(* the loop of Parser.Parse *)
Fixpoint parse_defs (strict : bool) (fuel0 fuel : nat) (ts : list token) (sch : ischema)
  : res (list token * ischema) :=
  match fuel with
  | O => Fuel
  | S f =>
    do (ts, sch) <- parse_def strict fuel0 ts sch;
    if is ts TkEOF then Ok (ts, sch) else parse_defs strict fuel0 f ts sch
  end.

(* Parser.Parse up to (excluding) ResolveRefs: the remaining tokens (for the error position of
   ResolveRefs, which is reported at the current token) and the unresolved schema *)
Definition parse_tokens (strict : bool) (ts : list token) : res (list token * ischema) :=
  let fuel := S (length ts) in
  do (ts, pkg) <- parse_package fuel ts;
  parse_defs strict fuel fuel ts (mkISchema pkg [] [] []).
