(* Facts about Parser.v (C12): the parser consumes tokens (so its loops never run out of fuel),
   reports errors at the position of a token of the input, and the schema it builds has unique
   names, non-empty roots and (strict mode) a type for every field. *)
From Coq Require Import List NArith Bool Lia ZifyN ZifyNat ZifyBool Arith.
From Stef.Idl Require Import Lexer Ast Parser TokSpec SchemaSpec.
Import ListNotations.
Open Scope N_scope.

(* ---------- strings and token kinds ---------- *)
Lemma str_eqb_eq : forall a b, str_eqb a b = true <-> a = b.
Proof.
  induction a as [|x a IH]; destruct b as [|y b]; cbn [str_eqb]; split; intros H; try discriminate; try reflexivity.
  - apply andb_true_iff in H. destruct H as [H1 H2]. apply N.eqb_eq in H1. apply IH in H2. now subst.
  - inversion H; subst. apply andb_true_iff. split; [apply N.eqb_refl|now apply IH].
Qed.

Lemma str_eqb_refl : forall a, str_eqb a a = true.
Proof. intros. now apply str_eqb_eq. Qed.

Lemma tkind_eqb_eq : forall a b, tkind_eqb a b = true -> a = b.
Proof. destruct a, b; intros H; try reflexivity; discriminate H. Qed.

Lemma is_kind : forall ts k, is ts k = true -> kind ts = k.
Proof. intros ts k H. now apply tkind_eqb_eq. Qed.

Lemma is_not_eof : forall ts k, is ts k = true -> k <> TkEOF -> is_eof (cur ts) = false.
Proof.
  intros ts k H Hk. apply is_kind in H. unfold is_eof, kind in *. rewrite H.
  destruct k; try reflexivity. contradiction.
Qed.

(* ---------- suffixes and well-formed token lists ---------- *)
Lemma sfx_refl : forall A (l : list A), sfx l l.
Proof. intros. exists []. reflexivity. Qed.

Lemma sfx_trans : forall A (a b c : list A), sfx a b -> sfx b c -> sfx a c.
Proof. intros A a b c [p1 E1] [p2 E2]. exists (p2 ++ p1). subst. now rewrite app_assoc. Qed.

Lemma sfx_in : forall A (a b : list A) x, sfx a b -> In x a -> In x b.
Proof. intros A a b x [p E] H. subst. apply in_or_app. now right. Qed.

Lemma wfts_nonempty : forall ts, wfts ts -> ts <> [].
Proof. intros ts [pre [e [E _]]] H. subst. destruct pre; discriminate. Qed.

Lemma cur_in : forall ts, ts <> [] -> In (cur ts) ts.
Proof. intros [|t ts] H; [congruence|]. left. reflexivity. Qed.

Lemma advance_spec : forall ts, wfts ts -> is_eof (cur ts) = false ->
  wfts (advance ts) /\ sfx (advance ts) ts /\ (length (advance ts) + 1 <= length ts)%nat.
Proof.
  intros ts [pre [e [E [He Hpre]]]] Hc. subst ts.
  destruct pre as [|t pre]; [cbn in Hc; congruence|].
  assert (Ea : advance ((t :: pre) ++ [e]) = pre ++ [e]).
  { cbn [app advance]. destruct (pre ++ [e]) eqn:E; [destruct pre; discriminate|reflexivity]. }
  rewrite Ea. split; [|split].
  - exists pre, e. inversion Hpre; subst. auto.
  - exists [t]. reflexivity.
  - cbn [app length]. lia.
Qed.

(* ---------- the specification carried through the parser ---------- *)
Definition okst (ts0 ts : list token) : Prop := wfts ts /\ sfx ts ts0.

Definition errpos (ts0 : list token) (p : pos) : Prop := exists t, In t ts0 /\ p = t_pos t.

(* r was computed from state ts: on success the new state (pj a) is still a well-formed suffix,
   at least (k a) tokens shorter, and the value satisfies Q; an error carries the position of a
   token of the input; fuel never runs out *)
Definition rspec {A} (pj : A -> list token) (k : A -> nat) (Q : A -> Prop) (ts0 ts : list token) (r : res A) : Prop :=
  match r with
  | Ok a => okst ts0 (pj a) /\ (length (pj a) + k a <= length ts)%nat /\ Q a
  | Err p _ => errpos ts0 p
  | Fuel => False
  end.

Lemma rspec_bind : forall A B (pjA : A -> list token) (pjB : B -> list token) (kA : nat) kB QA QB ts0 ts (r : res A) (f : A -> res B),
  rspec pjA (fun _ => kA) QA ts0 ts r ->
  (forall a, okst ts0 (pjA a) -> (length (pjA a) + kA <= length ts)%nat -> QA a ->
             rspec pjB kB QB ts0 (pjA a) (f a)) ->
  rspec pjB (fun b => (kA + kB b)%nat) QB ts0 ts (bind r f).
Proof.
  intros A B pjA pjB kA kB QA QB ts0 ts r f Hr Hf. destruct r as [a|p m|]; cbn [bind rspec] in *.
  - destruct Hr as [Hok [Hlen HQ]]. specialize (Hf a Hok Hlen HQ).
    destruct (f a) as [b|p m|]; cbn [rspec] in *; auto. destruct Hf as [H1 [H2 H3]].
    split; [exact H1|split; [lia|exact H3]].
  - exact Hr.
  - contradiction.
Qed.

Lemma rspec_weaken : forall A (pj : A -> list token) (k k' : A -> nat) (Q Q' : A -> Prop) ts0 ts (r : res A),
  rspec pj k Q ts0 ts r -> (forall a, (k' a <= k a)%nat) -> (forall a, Q a -> Q' a) -> rspec pj k' Q' ts0 ts r.
Proof.
  intros A pj k k' Q Q' ts0 ts r H Hk HQ. destruct r as [a|p m|]; cbn [rspec] in *; auto.
  destruct H as [H1 [H2 H3]]. split; [exact H1|split; [specialize (Hk a); lia|auto]].
Qed.

Lemma perr_spec : forall A (pj : A -> list token) k Q ts0 ts ts1 m, okst ts0 ts1 -> rspec pj k Q ts0 ts (perr ts1 m).
Proof.
  intros A pj k Q ts0 ts ts1 m [Hwf Hs]. cbn [perr rspec]. exists (cur ts1). split; [|reflexivity].
  eapply sfx_in; [exact Hs|]. apply cur_in. now apply wfts_nonempty.
Qed.

Lemma adv_ok : forall ts0 ts k, okst ts0 ts -> is ts k = true -> k <> TkEOF ->
  okst ts0 (advance ts) /\ (length (advance ts) + 1 <= length ts)%nat.
Proof.
  intros ts0 ts k [Hwf Hs] Hk Hne. destruct (advance_spec ts Hwf (is_not_eof ts k Hk Hne)) as [H1 [H2 H3]].
  split; [split; [exact H1|eapply sfx_trans; eassumption]|exact H3].
Qed.

Lemma eat_spec : forall ts0 ts k, okst ts0 ts -> k <> TkEOF ->
  rspec (fun x => x) (fun _ => 1%nat) (fun _ => True) ts0 ts (eat k ts).
Proof.
  intros ts0 ts k Hok Hk. unfold eat. destruct (is ts k) eqn:E.
  - destruct (adv_ok ts0 ts k Hok E Hk) as [H1 H2]. cbn [rspec]. auto.
  - apply perr_spec. exact Hok.
Qed.

Lemma rspec_from : forall A (pj : A -> list token) k Q ts0 ts1 ts (d : nat) (r : res A),
  rspec pj k Q ts0 ts1 r -> (length ts1 + d <= length ts)%nat ->
  rspec pj (fun a => (k a + d)%nat) Q ts0 ts r.
Proof.
  intros A pj k Q ts0 ts1 ts d r H Hd. destruct r as [a|p m|]; cbn [rspec] in *; auto.
  destruct H as [H1 [H2 H3]]. split; [exact H1|split; [lia|exact H3]].
Qed.

Lemma rspec_ok : forall A (pj : A -> list token) (k : A -> nat) (Q : A -> Prop) ts0 ts a,
  okst ts0 (pj a) -> (length (pj a) + k a <= length ts)%nat -> Q a -> rspec pj k Q ts0 ts (Ok a).
Proof. intros. cbn [rspec]. auto. Qed.

(* ---------- parsePackage ---------- *)
Lemma pkg_loop_spec : forall ts0 fuel ts acc, okst ts0 ts -> (length ts < fuel)%nat ->
  rspec fst (fun _ => 1%nat) (fun _ => True) ts0 ts (parse_pkg_loop fuel ts acc).
Proof.
  intros ts0. induction fuel as [|fuel IH]; intros ts acc Hok Hf; [lia|]. cbn [parse_pkg_loop].
  destruct (is ts TkIdent) eqn:E1; cbn [negb]; [|apply perr_spec; exact Hok].
  destruct (adv_ok ts0 ts TkIdent Hok E1) as [Hok1 Hl1]; [discriminate|].
  destruct (is (advance ts) TkDot) eqn:E2; cbn [negb].
  - destruct (adv_ok ts0 _ TkDot Hok1 E2) as [Hok2 Hl2]; [discriminate|].
    eapply rspec_weaken; [eapply rspec_from; [apply IH; [exact Hok2|lia]|]| |].
    + instantiate (1 := 2%nat). lia.
    + intros a. cbn beta. lia.
    + auto.
  - apply rspec_ok; cbn [fst]; auto.
Qed.

Lemma parse_package_spec : forall ts0 fuel ts, okst ts0 ts -> (length ts < fuel)%nat ->
  rspec fst (fun _ => 1%nat) (fun _ => True) ts0 ts (parse_package fuel ts).
Proof.
  intros ts0 fuel ts Hok Hf. unfold parse_package.
  eapply rspec_weaken; [eapply rspec_bind; [apply eat_spec; [exact Hok|discriminate]|]| |].
  - intros ts1 Hok1 Hl1 _. apply pkg_loop_spec; [exact Hok1|cbn beta in Hl1; lia].
  - intros a. cbn beta. lia.
  - auto.
Qed.

Lemma adv_ok' : forall ts0 ts, okst ts0 ts -> is_eof (cur ts) = false ->
  okst ts0 (advance ts) /\ (length (advance ts) + 1 <= length ts)%nat.
Proof.
  intros ts0 ts [Hwf Hs] Hc. destruct (advance_spec ts Hwf Hc) as [H1 [H2 H3]].
  split; [split; [exact H1|eapply sfx_trans; eassumption]|exact H3].
Qed.

(* ---------- parseDictModifier ---------- *)
Notation K0 := (fun _ => 0%nat).
Notation K1 := (fun _ => 1%nat).
Notation QT := (fun _ => True).
Notation idts := (fun x : list token => x).

Lemma dict_modifier_spec : forall ts0 ts, okst ts0 ts -> is ts TkDict = true ->
  rspec fst K1 QT ts0 ts (parse_dict_modifier ts).
Proof.
  intros ts0 ts Hok Hd. unfold parse_dict_modifier.
  destruct (adv_ok ts0 ts TkDict Hok Hd) as [Hok1 Hl1]; [discriminate|].
  eapply rspec_weaken;
    [eapply rspec_from; [eapply (rspec_bind _ _ idts fst 1 K0 QT QT); [apply eat_spec; [exact Hok1|discriminate]|]|exact Hl1]| |].
  - intros ts2 Hok2 Hl2 _. cbn beta in *.
    destruct (is ts2 TkIdent) eqn:E; cbn [negb]; [|apply perr_spec; exact Hok2].
    destruct (adv_ok ts0 ts2 TkIdent Hok2 E) as [Hok3 Hl3]; [discriminate|].
    eapply rspec_weaken;
      [eapply rspec_from; [eapply (rspec_bind _ _ idts fst 1 K0 QT QT); [apply eat_spec; [exact Hok3|discriminate]|]|exact Hl3]| |].
    + intros ts4 Hok4 Hl4 _. apply rspec_ok; cbn [fst]; [exact Hok4|cbn beta; lia|exact I].
    + intros a. cbn beta. lia.
    + auto.
  - intros a. cbn beta. lia.
  - auto.
Qed.

(* ---------- parseFieldType ---------- *)
Definition base_shape (t : itype) : Prop := match t with IPrim _ _ | IRef _ _ => True | _ => False end.
Definition shape (t : itype) : Prop :=
  match t with IPrim _ _ | IRef _ _ => True | IArray e _ _ => base_shape e | _ => False end.

Lemma set_dict_base_shape : forall t d, base_shape t -> base_shape (set_dict t d).
Proof. destruct t; cbn; auto. Qed.
Lemma set_dict_shape : forall t d, shape t -> shape (set_dict t d).
Proof. destruct t; cbn; auto. Qed.

Lemma base_type_some : forall t ft, base_type t = Some ft -> base_shape ft /\ is_eof t = false.
Proof.
  intros t ft H. unfold base_type, is_eof in *. destruct (t_kind t); inversion H; subst; cbn; auto.
Qed.

Lemma field_type_spec : forall b ts0 ts field, okst ts0 ts ->
  rspec fst K0 (fun r => b = true -> shape (snd r)) ts0 ts (parse_field_type b ts field).
Proof.
  intros b ts0 ts field Hok. unfold parse_field_type.
  eapply rspec_weaken;
    [eapply (rspec_bind _ _ fst fst 0 K0 QT (fun r => b = true -> shape (snd r)));
     [|intros [ts1 isarr] Hok1 Hl1 _; cbn [fst snd] in *]| |].
  - (* optional [] *)
    destruct (is ts TkLBracket) eqn:E.
    + destruct (adv_ok ts0 ts TkLBracket Hok E) as [Hoka Hla]; [discriminate|].
      eapply rspec_weaken;
        [eapply rspec_from; [eapply (rspec_bind _ _ idts fst 1 K0 QT QT); [apply eat_spec; [exact Hoka|discriminate]|]|exact Hla]| |].
      * intros ts2 Hok2 Hl2 _. apply rspec_ok; cbn [fst]; [exact Hok2|cbn beta; lia|exact I].
      * intros a. cbn beta. lia.
      * auto.
    + apply rspec_ok; cbn [fst]; [exact Hok|cbn beta; lia|exact I].
  - destruct (base_type (cur ts1)) as [ft|] eqn:Eb.
    + destruct (base_type_some _ _ Eb) as [Hsh Hne].
      destruct (adv_ok' ts0 ts1 Hok1 Hne) as [Hok2 Hl2].
      eapply rspec_weaken;
        [eapply rspec_from;
         [eapply (rspec_bind _ _ fst fst 0 K0 (fun r => base_shape (snd r)) (fun r => b = true -> shape (snd r)));
          [|intros [ts3 ft'] Hok3 Hl3 Hq; cbn [fst snd] in *]|exact Hl2]| |].
      * destruct (is (advance ts1) TkDict) eqn:Ed.
        -- destruct (dict_forbidden ft); [apply perr_spec; exact Hok2|].
           eapply rspec_weaken;
             [eapply (rspec_bind _ _ fst fst 1 K0 QT (fun r => base_shape (snd r))); [apply dict_modifier_spec; [exact Hok2|exact Ed]|]| |].
           ++ intros [ts4 d] Hok4 Hl4 _. cbn [fst] in *. apply rspec_ok; cbn [fst snd]; [exact Hok4|cbn beta; lia|].
              apply set_dict_base_shape. exact Hsh.
           ++ intros a. cbn beta. lia.
           ++ auto.
        -- apply rspec_ok; cbn [fst snd]; [exact Hok2|cbn beta; lia|exact Hsh].
      * apply rspec_ok; cbn [fst snd]; [exact Hok3|cbn beta; lia|]. intros _.
        destruct isarr; [exact Hq|destruct ft'; cbn in *; tauto].
      * intros a. cbn beta. lia.
      * auto.
    + destruct isarr; [apply perr_spec; exact Hok1|].
      destruct b; [apply perr_spec; exact Hok1|].
      apply rspec_ok; cbn [fst snd]; [exact Hok1|cbn beta; lia|discriminate].
  - intros a. cbn beta. lia.
  - auto.
Qed.

(* ---------- struct fields ---------- *)
Lemma field_modifiers_spec : forall ts0 fuel ts opt, okst ts0 ts -> (length ts < fuel)%nat ->
  rspec fst K0 QT ts0 ts (parse_field_modifiers fuel ts opt).
Proof.
  intros ts0. induction fuel as [|fuel IH]; intros ts opt Hok Hf; [lia|]. cbn [parse_field_modifiers].
  destruct (is ts TkOptional) eqn:E.
  - destruct (adv_ok ts0 ts TkOptional Hok E) as [Hok1 Hl1]; [discriminate|].
    eapply rspec_weaken; [eapply rspec_from; [apply IH; [exact Hok1|lia]|exact Hl1]| |].
    + intros a. cbn beta. lia.
    + auto.
  - apply rspec_ok; cbn [fst]; [exact Hok|cbn beta; lia|exact I].
Qed.

Definition fields_ok (b : bool) (fs : list isfield) : Prop :=
  NoDup (map if_name fs) /\ (b = true -> Forall (fun f => shape (if_type f)) fs).

Lemma has_field_false : forall fs n, has_field fs n = false -> ~ In n (map if_name fs).
Proof.
  induction fs as [|f fs IH]; intros n H; cbn [has_field map In] in *; [tauto|].
  apply orb_false_iff in H. destruct H as [H1 H2]. intros [E|Hin]; [|exact (IH n H2 Hin)].
  subst. now rewrite str_eqb_refl in H1.
Qed.

Lemma NoDup_snoc : forall A (l : list A) a, NoDup l -> ~ In a l -> NoDup (l ++ [a]).
Proof.
  induction l as [|x l IH]; intros a Hnd Hn; cbn [app]; [constructor; [tauto|constructor]|].
  inversion Hnd; subst. constructor.
  - intros Hin. apply in_app_or in Hin. destruct Hin as [Hin|[E|[]]]; [contradiction|subst; apply Hn; left; reflexivity].
  - apply IH; [assumption|intros Hin; apply Hn; right; exact Hin].
Qed.

Lemma fields_ok_snoc : forall b fs n t o, fields_ok b fs -> has_field fs n = false -> (b = true -> shape t) ->
  fields_ok b (fs ++ [mkISField n t o]).
Proof.
  intros b fs n t o [Hnd Hsh] Hn Ht. split.
  - rewrite map_app. cbn [map if_name]. apply NoDup_snoc; [exact Hnd|apply has_field_false; exact Hn].
  - intros Hb. apply Forall_app. split; [auto|]. constructor; [cbn; auto|constructor].
Qed.

Notation pj3 := (fun r : list token * list isfield * bool => fst (fst r)).

Lemma struct_field_spec : forall b ts0 fuel ts fields, okst ts0 ts -> (length ts < fuel)%nat -> fields_ok b fields ->
  rspec pj3 (fun r => if snd r then 1%nat else 0%nat) (fun r => fields_ok b (snd (fst r))) ts0 ts
        (parse_struct_field b fuel ts fields).
Proof.
  intros b ts0 fuel ts fields Hok Hf Hfo. unfold parse_struct_field.
  destruct (is ts TkIdent) eqn:E; cbn [negb].
  2:{ apply rspec_ok; cbn [fst snd]; [exact Hok|lia|exact Hfo]. }
  destruct (has_field fields (t_ident (cur ts))) eqn:Eh; [apply perr_spec; exact Hok|].
  destruct (adv_ok ts0 ts TkIdent Hok E) as [Hok1 Hl1]; [discriminate|].
  eapply rspec_weaken;
    [eapply rspec_from;
     [eapply (rspec_bind _ _ fst pj3 0 K0 (fun r => b = true -> shape (snd r)) (fun r => fields_ok b (snd (fst r)) /\ snd r = true));
      [apply field_type_spec; exact Hok1|]|exact Hl1]| |].
  - intros [ts2 ft] Hok2 Hl2 Hsh. cbn [fst snd] in *.
    eapply rspec_weaken;
      [eapply (rspec_bind _ _ fst pj3 0 K0 QT (fun r => fields_ok b (snd (fst r)) /\ snd r = true));
       [apply field_modifiers_spec; [exact Hok2|lia]|]| |].
    + intros [ts3 opt] Hok3 Hl3 _. cbn [fst snd] in *.
      apply rspec_ok; cbn [fst snd]; [exact Hok3|lia|].
      split; [apply fields_ok_snoc; assumption|reflexivity].
    + intros a. cbn beta. lia.
    + auto.
  - intros [[ts' fs'] ok]. cbn [snd]. destruct ok; lia.
  - intros a [H _]. exact H.
Qed.

Lemma struct_fields_spec : forall b ts0 fuel0 fuel ts fields, okst ts0 ts -> (length ts < fuel0)%nat ->
  (length ts < fuel)%nat -> fields_ok b fields ->
  rspec fst K0 (fun r => fields_ok b (snd r)) ts0 ts (parse_struct_fields b fuel0 fuel ts fields).
Proof.
  intros b ts0 fuel0. induction fuel as [|fuel IH]; intros ts fields Hok Hf0 Hf Hfo; [lia|].
  cbn [parse_struct_fields].
  pose proof (struct_field_spec b ts0 fuel0 ts fields Hok Hf0 Hfo) as H.
  destruct (parse_struct_field b fuel0 ts fields) as [[[ts1 fs1] ok]|p m|]; cbn [bind rspec] in *; auto.
  cbn [fst snd] in H. destruct H as [Hok1 [Hl1 Hfo1]].
  destruct ok.
  - eapply rspec_weaken; [eapply rspec_from; [apply IH; [exact Hok1|lia|lia|exact Hfo1]|exact Hl1]| |].
    + intros a. cbn beta. lia.
    + auto.
  - apply rspec_ok; cbn [fst snd]; [exact Hok1|lia|exact Hfo1].
Qed.

Notation pjm := (fun r : list token * str * bool => fst (fst r)).

Lemma struct_modifiers_spec : forall ts0 ts oneof, okst ts0 ts ->
  rspec pjm K0 QT ts0 ts (parse_struct_modifiers ts oneof).
Proof.
  intros ts0 ts oneof Hok. unfold parse_struct_modifiers.
  destruct (kind ts) eqn:Ek; try (apply rspec_ok; cbn [fst]; [exact Hok|lia|exact I]).
  - (* root *)
    destruct oneof; [apply perr_spec; exact Hok|].
    assert (E : is ts TkRoot = true) by (unfold is; rewrite Ek; reflexivity).
    destruct (adv_ok ts0 ts TkRoot Hok E) as [Hok1 Hl1]; [discriminate|].
    apply rspec_ok; cbn [fst]; [exact Hok1|lia|exact I].
  - (* dict *)
    destruct oneof; [apply perr_spec; exact Hok|].
    assert (E : is ts TkDict = true) by (unfold is; rewrite Ek; reflexivity).
    eapply rspec_weaken; [eapply (rspec_bind _ _ fst pjm 1 K0 QT QT); [apply dict_modifier_spec; assumption|]| |].
    + intros [ts1 d] Hok1 Hl1 _. cbn [fst] in *. apply rspec_ok; cbn [fst]; [exact Hok1|lia|exact I].
    + intros a. cbn beta. lia.
    + auto.
Qed.

Definition sd_ok (b : bool) (sch : ischema) (sd : isdef) : Prop :=
  top_level_used sch (is_name sd) = false /\ fields_ok b (is_fields sd) /\
  (is_root sd = true -> is_fields sd <> []) /\ is_rec sd = false.

Lemma parse_struct_spec : forall b ts0 fuel ts sch oneof, okst ts0 ts -> is_eof (cur ts) = false ->
  (length ts < fuel)%nat ->
  rspec fst K1 (fun r => sd_ok b sch (snd r)) ts0 ts (parse_struct b fuel ts sch oneof).
Proof.
  intros b ts0 fuel ts sch oneof Hok Hne Hf. unfold parse_struct.
  destruct (adv_ok' ts0 ts Hok Hne) as [Hok1 Hl1].
  destruct (is (advance ts) TkIdent) eqn:E; cbn [negb]; [|apply perr_spec; exact Hok1].
  destruct (top_level_used sch (t_ident (cur (advance ts)))) eqn:Eu; [apply perr_spec; exact Hok1|].
  destruct (adv_ok ts0 _ TkIdent Hok1 E) as [Hok2 Hl2]; [discriminate|].
  eapply rspec_weaken;
    [eapply rspec_from;
     [eapply (rspec_bind _ _ pjm fst 0 K0 QT (fun r => sd_ok b sch (snd r)));
      [apply struct_modifiers_spec; exact Hok2|]|]| |].
  - intros [[ts3 dict] root] Hok3 Hl3 _. cbn [fst snd] in *.
    eapply rspec_weaken;
      [eapply (rspec_bind _ _ idts fst 1 K0 QT (fun r => sd_ok b sch (snd r))); [apply eat_spec; [exact Hok3|discriminate]|]| |].
    + intros ts4 Hok4 Hl4 _. cbn beta in *.
      eapply rspec_weaken;
        [eapply (rspec_bind _ _ fst fst 0 K0 (fun r => fields_ok b (snd r)) (fun r => sd_ok b sch (snd r)));
         [apply struct_fields_spec; [exact Hok4|lia|lia|split; [constructor|intros; constructor]]|]| |].
      * intros [ts5 fields] Hok5 Hl5 Hfo. cbn [fst snd] in *.
        destruct (root && match fields with [] => true | _ :: _ => false end) eqn:Er; [apply perr_spec; exact Hok5|].
        eapply rspec_weaken;
          [eapply (rspec_bind _ _ idts fst 1 K0 QT (fun r => sd_ok b sch (snd r))); [apply eat_spec; [exact Hok5|discriminate]|]| |].
        -- intros ts6 Hok6 Hl6 _. apply rspec_ok; cbn [fst snd]; [exact Hok6|lia|].
           unfold sd_ok. cbn [is_name is_fields is_root is_rec].
           split; [exact Eu|split; [exact Hfo|split; [|reflexivity]]].
           intros Hr Hnil. subst. discriminate Er.
        -- intros a. cbn beta. lia.
        -- auto.
      * intros a. cbn beta. lia.
      * auto.
    + intros a. cbn beta. lia.
    + auto.
  - instantiate (1 := 2%nat). lia.
  - intros a. cbn beta. lia.
  - auto.
Qed.

(* ---------- multimaps ---------- *)
Lemma multimap_field_spec : forall b ts0 ts, okst ts0 ts ->
  rspec fst K0 (fun r => b = true -> shape (snd r)) ts0 ts (parse_multimap_field b ts).
Proof.
  intros b ts0 ts Hok. unfold parse_multimap_field.
  eapply rspec_weaken;
    [eapply (rspec_bind _ _ fst fst 0 K0 (fun r => b = true -> shape (snd r)) (fun r => b = true -> shape (snd r)));
     [apply field_type_spec; exact Hok|]| |].
  - intros [ts1 ft] Hok1 Hl1 Hsh. cbn [fst snd] in *.
    destruct (is ts1 TkDict) eqn:E.
    + eapply rspec_weaken;
        [eapply (rspec_bind _ _ fst fst 1 K0 QT (fun r => b = true -> shape (snd r))); [apply dict_modifier_spec; assumption|]| |].
      * intros [ts2 d] Hok2 Hl2 _. cbn [fst] in *. apply rspec_ok; cbn [fst snd]; [exact Hok2|lia|].
        intros Hb. apply set_dict_shape. auto.
      * intros a. cbn beta. lia.
      * auto.
    + apply rspec_ok; cbn [fst snd]; [exact Hok1|lia|exact Hsh].
  - intros a. cbn beta. lia.
  - auto.
Qed.

Definition md_ok (b : bool) (sch : ischema) (md : imdef) : Prop :=
  top_level_used sch (im_name md) = false /\ (b = true -> shape (im_key md) /\ shape (im_val md)) /\ im_rec md = false.

Lemma parse_multimap_spec : forall b ts0 ts sch, okst ts0 ts -> is_eof (cur ts) = false ->
  rspec fst K1 (fun r => md_ok b sch (snd r)) ts0 ts (parse_multimap b ts sch).
Proof.
  intros b ts0 ts sch Hok Hne. unfold parse_multimap.
  destruct (adv_ok' ts0 ts Hok Hne) as [Hok1 Hl1].
  destruct (is (advance ts) TkIdent) eqn:E; cbn [negb]; [|apply perr_spec; exact Hok1].
  destruct (top_level_used sch (t_ident (cur (advance ts)))) eqn:Eu; [apply perr_spec; exact Hok1|].
  destruct (adv_ok ts0 _ TkIdent Hok1 E) as [Hok2 Hl2]; [discriminate|].
  eapply rspec_weaken;
    [eapply rspec_from;
     [eapply (rspec_bind _ _ idts fst 1 K0 QT (fun r => md_ok b sch (snd r))); [apply eat_spec; [exact Hok2|discriminate]|]|]| |].
  - intros ts3 Hok3 Hl3 _. cbn beta in *.
    eapply rspec_weaken;
      [eapply (rspec_bind _ _ idts fst 1 K0 QT (fun r => md_ok b sch (snd r))); [apply eat_spec; [exact Hok3|discriminate]|]| |].
    + intros ts4 Hok4 Hl4 _. cbn beta in *.
      eapply rspec_weaken;
        [eapply (rspec_bind _ _ fst fst 0 K0 (fun r => b = true -> shape (snd r)) (fun r => md_ok b sch (snd r)));
         [apply multimap_field_spec; exact Hok4|]| |].
      * intros [ts5 k] Hok5 Hl5 Hk. cbn [fst snd] in *.
        eapply rspec_weaken;
          [eapply (rspec_bind _ _ idts fst 1 K0 QT (fun r => md_ok b sch (snd r))); [apply eat_spec; [exact Hok5|discriminate]|]| |].
        -- intros ts6 Hok6 Hl6 _. cbn beta in *.
           eapply rspec_weaken;
             [eapply (rspec_bind _ _ fst fst 0 K0 (fun r => b = true -> shape (snd r)) (fun r => md_ok b sch (snd r)));
              [apply multimap_field_spec; exact Hok6|]| |].
           ++ intros [ts7 v] Hok7 Hl7 Hv. cbn [fst snd] in *.
              eapply rspec_weaken;
                [eapply (rspec_bind _ _ idts fst 1 K0 QT (fun r => md_ok b sch (snd r))); [apply eat_spec; [exact Hok7|discriminate]|]| |].
              ** intros ts8 Hok8 Hl8 _. apply rspec_ok; cbn [fst snd]; [exact Hok8|lia|].
                 unfold md_ok. cbn [im_name im_key im_val im_rec]. split; [exact Eu|split; [auto|reflexivity]].
              ** intros a. cbn beta. lia.
              ** auto.
           ++ intros a. cbn beta. lia.
           ++ auto.
        -- intros a. cbn beta. lia.
        -- auto.
      * intros a. cbn beta. lia.
      * auto.
    + intros a. cbn beta. lia.
    + auto.
  - instantiate (1 := 2%nat). lia.
  - intros a. cbn beta. lia.
  - auto.
Qed.

(* ---------- enums ---------- *)
Notation pje := (fun r : list token * list (str * N) * bool => fst (fst r)).

Lemma enum_field_spec : forall ts0 ts fields, okst ts0 ts ->
  rspec pje (fun r => if snd r then 1%nat else 0%nat) QT ts0 ts (parse_enum_field ts fields).
Proof.
  intros ts0 ts fields Hok. unfold parse_enum_field.
  destruct (is ts TkIdent) eqn:E; cbn [negb].
  2:{ apply rspec_ok; cbn [fst snd]; [exact Hok|lia|exact I]. }
  destruct (adv_ok ts0 ts TkIdent Hok E) as [Hok1 Hl1]; [discriminate|].
  eapply rspec_weaken;
    [eapply rspec_from;
     [eapply (rspec_bind _ _ idts pje 1 K0 QT (fun r => snd r = true)); [apply eat_spec; [exact Hok1|discriminate]|]|exact Hl1]| |].
  - intros ts2 Hok2 Hl2 _. cbn beta in *.
    destruct (is ts2 TkIntNumber) eqn:En; cbn [negb]; [|apply perr_spec; exact Hok2].
    destruct (adv_ok ts0 ts2 TkIntNumber Hok2 En) as [Hok3 Hl3]; [discriminate|].
    apply rspec_ok; cbn [fst snd]; [exact Hok3|lia|reflexivity].
  - intros [[ts' fs'] ok]. cbn [snd]. destruct ok; lia.
  - auto.
Qed.

Lemma enum_fields_spec : forall ts0 fuel ts fields, okst ts0 ts -> (length ts < fuel)%nat ->
  rspec fst K0 QT ts0 ts (parse_enum_fields fuel ts fields).
Proof.
  intros ts0. induction fuel as [|fuel IH]; intros ts fields Hok Hf; [lia|].
  cbn [parse_enum_fields].
  pose proof (enum_field_spec ts0 ts fields Hok) as H.
  destruct (parse_enum_field ts fields) as [[[ts1 fs1] ok]|p m|]; cbn [bind rspec] in *; auto.
  cbn [fst snd] in H. destruct H as [Hok1 [Hl1 _]].
  destruct ok.
  - eapply rspec_weaken; [eapply rspec_from; [apply IH; [exact Hok1|lia]|exact Hl1]| |].
    + intros a. cbn beta. lia.
    + auto.
  - apply rspec_ok; cbn [fst snd]; [exact Hok1|lia|exact I].
Qed.

Lemma parse_enum_spec : forall ts0 fuel ts sch, okst ts0 ts -> is_eof (cur ts) = false -> (length ts < fuel)%nat ->
  rspec fst K1 (fun r => top_level_used sch (ie_name (snd r)) = false) ts0 ts (parse_enum fuel ts sch).
Proof.
  intros ts0 fuel ts sch Hok Hne Hf. unfold parse_enum.
  destruct (adv_ok' ts0 ts Hok Hne) as [Hok1 Hl1].
  destruct (is (advance ts) TkIdent) eqn:E; cbn [negb]; [|apply perr_spec; exact Hok1].
  destruct (top_level_used sch (t_ident (cur (advance ts)))) eqn:Eu; [apply perr_spec; exact Hok1|].
  destruct (adv_ok ts0 _ TkIdent Hok1 E) as [Hok2 Hl2]; [discriminate|].
  eapply rspec_weaken;
    [eapply rspec_from;
     [eapply (rspec_bind _ _ idts fst 1 K0 QT (fun r => top_level_used sch (ie_name (snd r)) = false));
      [apply eat_spec; [exact Hok2|discriminate]|]|]| |].
  - intros ts3 Hok3 Hl3 _. cbn beta in *.
    eapply rspec_weaken;
      [eapply (rspec_bind _ _ fst fst 0 K0 QT (fun r => top_level_used sch (ie_name (snd r)) = false));
       [apply enum_fields_spec; [exact Hok3|lia]|]| |].
    + intros [ts4 fs] Hok4 Hl4 _. cbn [fst] in *.
      eapply rspec_weaken;
        [eapply (rspec_bind _ _ idts fst 1 K0 QT (fun r => top_level_used sch (ie_name (snd r)) = false));
         [apply eat_spec; [exact Hok4|discriminate]|]| |].
      * intros ts5 Hok5 Hl5 _. apply rspec_ok; cbn [fst snd ie_name]; [exact Hok5|lia|exact Eu].
      * intros a. cbn beta. lia.
      * auto.
    + intros a. cbn beta. lia.
    + auto.
  - instantiate (1 := 2%nat). lia.
  - intros a. cbn beta. lia.
  - auto.
Qed.

(* ---------- the schema under construction ---------- *)
From Coq Require Import Permutation.

Definition struct_ok (b : bool) (sd : isdef) : Prop :=
  fields_ok b (is_fields sd) /\ (is_root sd = true -> is_fields sd <> []) /\ is_rec sd = false.
Definition mmap_ok (b : bool) (md : imdef) : Prop :=
  (b = true -> shape (im_key md) /\ shape (im_val md)) /\ im_rec md = false.

Definition sch_ok (b : bool) (sch : ischema) : Prop :=
  NoDup (top_names sch) /\ Forall (struct_ok b) (i_structs sch) /\ Forall (mmap_ok b) (i_mmaps sch).

Lemma find_struct_none : forall l n, find_struct l n = None -> ~ In n (map is_name l).
Proof.
  induction l as [|s l IH]; intros n H; cbn [find_struct map In] in *; [tauto|].
  destruct (str_eqb (is_name s) n) eqn:E; [discriminate|].
  intros [Ex|Hin]; [subst; now rewrite str_eqb_refl in E|exact (IH n H Hin)].
Qed.
Lemma find_mmap_none : forall l n, find_mmap l n = None -> ~ In n (map im_name l).
Proof.
  induction l as [|s l IH]; intros n H; cbn [find_mmap map In] in *; [tauto|].
  destruct (str_eqb (im_name s) n) eqn:E; [discriminate|].
  intros [Ex|Hin]; [subst; now rewrite str_eqb_refl in E|exact (IH n H Hin)].
Qed.
Lemma find_enum_none : forall l n, find_enum l n = None -> ~ In n (map ie_name l).
Proof.
  induction l as [|s l IH]; intros n H; cbn [find_enum map In] in *; [tauto|].
  destruct (str_eqb (ie_name s) n) eqn:E; [discriminate|].
  intros [Ex|Hin]; [subst; now rewrite str_eqb_refl in E|exact (IH n H Hin)].
Qed.

Lemma top_level_unused : forall sch n, top_level_used sch n = false -> ~ In n (top_names sch).
Proof.
  intros sch n H. unfold top_level_used, has_struct, has_mmap, has_enum in H.
  destruct (find_struct (i_structs sch) n) eqn:E1; [discriminate|].
  destruct (find_mmap (i_mmaps sch) n) eqn:E2; [discriminate|].
  destruct (find_enum (i_enums sch) n) eqn:E3; [discriminate|].
  unfold top_names. intros Hin. apply in_app_or in Hin. destruct Hin as [Hin|Hin]; [exact (find_struct_none _ _ E1 Hin)|].
  apply in_app_or in Hin. destruct Hin as [Hin|Hin]; [exact (find_mmap_none _ _ E2 Hin)|exact (find_enum_none _ _ E3 Hin)].
Qed.

Lemma NoDup_insert : forall (l1 l2 : list str) n, NoDup (l1 ++ l2) -> ~ In n (l1 ++ l2) -> NoDup (l1 ++ n :: l2).
Proof.
  intros l1 l2 n Hnd Hn. eapply Permutation_NoDup; [apply Permutation_middle|]. constructor; assumption.
Qed.

Lemma sch_ok_add_struct : forall b sch s, sch_ok b sch -> sd_ok b sch s -> sch_ok b (add_struct sch s).
Proof.
  intros b sch s [Hnd [Hs Hm]] [Hu [Hf [Hr Hrec]]]. unfold sch_ok, add_struct, top_names in *. cbn [i_structs i_mmaps i_enums].
  split; [|split; [|exact Hm]].
  - rewrite map_app. cbn [map]. rewrite <- app_assoc. cbn [app]. apply NoDup_insert; [exact Hnd|].
    apply top_level_unused. exact Hu.
  - apply Forall_app. split; [exact Hs|]. constructor; [|constructor]. split; [exact Hf|split; assumption].
Qed.

Lemma sch_ok_add_mmap : forall b sch m, sch_ok b sch -> md_ok b sch m -> sch_ok b (add_mmap sch m).
Proof.
  intros b sch m [Hnd [Hs Hm]] [Hu [Hsh Hrec]]. unfold sch_ok, add_mmap, top_names in *. cbn [i_structs i_mmaps i_enums].
  split; [|split; [exact Hs|]].
  - rewrite map_app. cbn [map]. rewrite <- (app_assoc (map im_name (i_mmaps sch))). cbn [app].
    rewrite app_assoc. apply NoDup_insert; [rewrite <- app_assoc; exact Hnd|].
    rewrite <- app_assoc. apply (top_level_unused sch). exact Hu.
  - apply Forall_app. split; [exact Hm|]. constructor; [|constructor]. split; assumption.
Qed.

Lemma sch_ok_add_enum : forall b sch e, sch_ok b sch -> top_level_used sch (ie_name e) = false -> sch_ok b (add_enum sch e).
Proof.
  intros b sch e [Hnd [Hs Hm]] Hu. unfold sch_ok, add_enum, top_names in *. cbn [i_structs i_mmaps i_enums].
  split; [|split; assumption].
  rewrite map_app. cbn [map]. rewrite !app_assoc. apply NoDup_snoc; [rewrite <- !app_assoc; exact Hnd|].
  rewrite <- !app_assoc. apply (top_level_unused sch). exact Hu.
Qed.

Lemma kind_not_eof : forall ts k, kind ts = k -> k <> TkEOF -> is_eof (cur ts) = false.
Proof. intros ts k E Hk. apply (is_not_eof ts k); [unfold is; rewrite E; destruct k; reflexivity|exact Hk]. Qed.

Lemma parse_def_spec : forall b ts0 fuel0 ts sch, okst ts0 ts -> (length ts < fuel0)%nat -> sch_ok b sch ->
  rspec fst K1 (fun r => sch_ok b (snd r)) ts0 ts (parse_def b fuel0 ts sch).
Proof.
  intros b ts0 fuel0 ts sch Hok Hf Hso. unfold parse_def.
  destruct (kind ts) eqn:Ek; try (apply perr_spec; exact Hok).
  - eapply rspec_weaken;
      [eapply (rspec_bind _ _ fst fst 1 K0 (fun r => sd_ok b sch (snd r)) (fun r => sch_ok b (snd r)));
       [apply parse_struct_spec; [exact Hok|apply (kind_not_eof ts _ Ek); discriminate|exact Hf]|]| |].
    + intros [ts1 s] Hok1 Hl1 Hq. cbn [fst snd] in *. apply rspec_ok; cbn [fst snd]; [exact Hok1|lia|].
      apply sch_ok_add_struct; assumption.
    + intros a. cbn beta. lia.
    + auto.
  - eapply rspec_weaken;
      [eapply (rspec_bind _ _ fst fst 1 K0 (fun r => sd_ok b sch (snd r)) (fun r => sch_ok b (snd r)));
       [apply parse_struct_spec; [exact Hok|apply (kind_not_eof ts _ Ek); discriminate|exact Hf]|]| |].
    + intros [ts1 s] Hok1 Hl1 Hq. cbn [fst snd] in *. apply rspec_ok; cbn [fst snd]; [exact Hok1|lia|].
      apply sch_ok_add_struct; assumption.
    + intros a. cbn beta. lia.
    + auto.
  - eapply rspec_weaken;
      [eapply (rspec_bind _ _ fst fst 1 K0 (fun r => md_ok b sch (snd r)) (fun r => sch_ok b (snd r)));
       [apply parse_multimap_spec; [exact Hok|apply (kind_not_eof ts _ Ek); discriminate]|]| |].
    + intros [ts1 m] Hok1 Hl1 Hq. cbn [fst snd] in *. apply rspec_ok; cbn [fst snd]; [exact Hok1|lia|].
      apply sch_ok_add_mmap; assumption.
    + intros a. cbn beta. lia.
    + auto.
  - eapply rspec_weaken;
      [eapply (rspec_bind _ _ fst fst 1 K0 (fun r => top_level_used sch (ie_name (snd r)) = false) (fun r => sch_ok b (snd r)));
       [apply parse_enum_spec; [exact Hok|apply (kind_not_eof ts _ Ek); discriminate|exact Hf]|]| |].
    + intros [ts1 e] Hok1 Hl1 Hq. cbn [fst snd] in *. apply rspec_ok; cbn [fst snd]; [exact Hok1|lia|].
      apply sch_ok_add_enum; assumption.
    + intros a. cbn beta. lia.
    + auto.
Qed.

Lemma parse_defs_spec : forall b ts0 fuel0 fuel ts sch, okst ts0 ts -> (length ts < fuel0)%nat -> (length ts < fuel)%nat ->
  sch_ok b sch -> rspec fst K1 (fun r => sch_ok b (snd r)) ts0 ts (parse_defs b fuel0 fuel ts sch).
Proof.
  intros b ts0 fuel0. induction fuel as [|fuel IH]; intros ts sch Hok Hf0 Hf Hso; [lia|].
  cbn [parse_defs].
  pose proof (parse_def_spec b ts0 fuel0 ts sch Hok Hf0 Hso) as H.
  destruct (parse_def b fuel0 ts sch) as [[ts1 sch1]|p m|]; cbn [bind rspec] in *; auto.
  cbn [fst snd] in H. destruct H as [Hok1 [Hl1 Hso1]].
  destruct (is ts1 TkEOF).
  - apply rspec_ok; cbn [fst snd]; [exact Hok1|lia|exact Hso1].
  - eapply rspec_weaken; [eapply rspec_from; [apply IH; [exact Hok1|lia|lia|exact Hso1]|exact Hl1]| |].
    + intros a. cbn beta. lia.
    + auto.
Qed.

(* Parser.Parse before ResolveRefs *)
Theorem parse_tokens_spec : forall b ts, wfts ts ->
  rspec fst K1 (fun r => sch_ok b (snd r)) ts ts (parse_tokens b ts).
Proof.
  intros b ts Hwf. unfold parse_tokens.
  assert (Hok : okst ts ts) by (split; [exact Hwf|apply sfx_refl]).
  eapply rspec_weaken;
    [eapply (rspec_bind _ _ fst fst 1 K1 QT (fun r => sch_ok b (snd r))); [apply parse_package_spec; [exact Hok|lia]|]| |].
  - intros [ts1 pkg] Hok1 Hl1 _. cbn [fst] in *. apply parse_defs_spec; [exact Hok1|lia|lia|].
    split; [constructor|split; constructor].
  - intros a. cbn beta. lia.
  - auto.
Qed.

(* consequences in plain words *)
Corollary parse_tokens_no_fuel : forall b ts, wfts ts -> parse_tokens b ts <> Fuel.
Proof. intros b ts Hwf H. pose proof (parse_tokens_spec b ts Hwf) as S. rewrite H in S. exact S. Qed.

Corollary parse_tokens_err_pos : forall b ts p m, wfts ts -> parse_tokens b ts = Err p m ->
  exists t, In t ts /\ p = t_pos t.
Proof. intros b ts p m Hwf H. pose proof (parse_tokens_spec b ts Hwf) as S. rewrite H in S. exact S. Qed.

Corollary parse_tokens_ok : forall b ts ts' sch, wfts ts -> parse_tokens b ts = Ok (ts', sch) ->
  In (cur ts') ts /\ sch_ok b sch.
Proof.
  intros b ts ts' sch Hwf H. pose proof (parse_tokens_spec b ts Hwf) as S. rewrite H in S.
  cbn [rspec fst snd] in S. destruct S as [[Hw Hs] [_ Hq]]. split; [|exact Hq].
  eapply sfx_in; [exact Hs|]. apply cur_in. now apply wfts_nonempty.
Qed.
