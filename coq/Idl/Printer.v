(* go/pkg/schema/schema.go PrettyPrint and helpers; the output is the list of code points of the
   printed text (utf8_encode below turns it into the bytes idl.Parse reads).

   `fixed` selects prettyPrintFieldType: false = as it was (defect D8: an enum-typed field is
   printed by its Primitive, i.e. "uint64", because the Primitive case comes first; the dictionary
   of an array's element type is never printed), true = after the fix (Enum case first; "[]T"
   followed by " dict(D)" when the element type carries a dictionary).
   Quirks kept: an oneof prints neither dict nor root; a struct carrying both dict and root prints
   both although the parser only accepts one modifier; a zero FieldType prints "unknown". *)
From Coq Require Import List NArith Bool String.
From Stef.Idl Require Import Lexer Ast Resolve.
Import ListNotations.
Open Scope N_scope.

Fixpoint join (sep : str) (l : list str) : str :=
  match l with
  | [] => []
  | [x] => x
  | x :: r => x ++ sep ++ join sep r
  end.

(* %d *)
Fixpoint dec_digits (fuel : nat) (n : N) (acc : str) : str :=
  match fuel with
  | O => acc
  | S f => let acc' := (48 + n mod 10) :: acc in
           if n <? 10 then acc' else dec_digits f (n / 10) acc'
  end.
Definition decimal (n : N) : str := dec_digits (S (N.size_nat n)) n [].

Definition prim_name (p : iprim) : str :=
  match p with
  | IInt64 => S_int64 | IUint64 => S_uint64 | IFloat64 => S_float64
  | IBool => S_bool | IString => S_string | IBytes => S_bytes
  end.

Definition dict_suffix (d : str) : str :=
  match d with [] => [] | _ => S_Wdict_LP ++ d ++ S_RP end.

(* prettyPrintFieldType *)
Fixpoint print_type (fixed : bool) (t : itype) : str :=
  match t with
  | IPrim p _ => prim_name p
  | IEnum n _ => if fixed then n else S_uint64
  | IArray e _ _ => S_LKRK ++ print_type fixed e ++ (if fixed then dict_suffix (it_dict e) else [])
  | IStruct n _ | IRef n _ => n
  | IMap n _ => n
  | INone _ => S_unknown
  end.

(* prettyPrintStructField *)
Definition print_field (fixed : bool) (f : isfield) : str :=
  if_name f ++ S_W ++ print_type fixed (if_type f) ++ dict_suffix (it_dict (if_type f))
  ++ (if if_opt f then S_Woptional else []).

Definition nl : str := [10].

(* prettyPrintStruct *)
Definition print_struct (fixed : bool) (s : isdef) : str :=
  (if is_oneof s then S_oneofW ++ is_name s ++ S_WLB
   else S_structW ++ is_name s ++ dict_suffix (is_dict s)
        ++ (if is_root s then S_Wroot else []) ++ S_WLB)
  ++ flat_map (fun f => nl ++ S_WW ++ print_field fixed f) (is_fields s)
  ++ nl ++ S_RB.

(* prettyPrintMultimap *)
Definition print_multimap (fixed : bool) (m : imdef) : str :=
  S_multimapW ++ im_name m ++ S_WLB ++ nl
  ++ S_WWkeyW ++ print_type fixed (im_key m) ++ dict_suffix (it_dict (im_key m)) ++ nl
  ++ S_WWvalueW ++ print_type fixed (im_val m) ++ dict_suffix (it_dict (im_val m)) ++ nl ++ S_RB.

(* prettyPrintEnum *)
Definition print_enum (e : iedef) : str :=
  S_enumW ++ ie_name e ++ S_WLB
  ++ flat_map (fun f : str * N => nl ++ S_WW ++ fst f ++ S_WEQW ++ decimal (snd f)) (ie_fields e)
  ++ nl ++ S_RB.

(* sortedList: definitions by ascending name *)
Definition sorted_structs (sch : ischema) : list isdef :=
  flat_map (fun n => match find_struct (i_structs sch) n with Some s => [s] | None => [] end)
           (sort_str (map is_name (i_structs sch))).
Definition sorted_mmaps (sch : ischema) : list imdef :=
  flat_map (fun n => match find_mmap (i_mmaps sch) n with Some s => [s] | None => [] end)
           (sort_str (map im_name (i_mmaps sch))).
Definition sorted_enums (sch : ischema) : list iedef :=
  flat_map (fun n => match find_enum (i_enums sch) n with Some s => [s] | None => [] end)
           (sort_str (map ie_name (i_enums sch))).

(* Schema.PrettyPrint *)
Definition print_gen (fixed : bool) (sch : ischema) : str :=
  join (nl ++ nl)
       ((S_packageW ++ join (S_DOT) (i_pkg sch))
        :: map print_enum (sorted_enums sch)
        ++ map (print_multimap fixed) (sorted_mmaps sch)
        ++ map (print_struct fixed) (sorted_structs sch)).

Definition print (sch : ischema) : str := print_gen true sch.
Definition print_legacy (sch : ischema) : str := print_gen false sch.

(* string(runes) -> bytes: utf8.AppendRune for valid scalar values (the only ones identifiers
   and the printer's literals contain) *)
Definition utf8_encode1 (c : N) : list N :=
  if c <? 128 then [c]
  else if c <? 2048 then [192 + c / 64; 128 + c mod 64]
  else if c <? 65536 then [224 + c / 4096; 128 + (c / 64) mod 64; 128 + c mod 64]
  else [240 + c / 262144; 128 + (c / 4096) mod 64; 128 + (c / 64) mod 64; 128 + c mod 64].
Definition utf8_encode (s : str) : list N := flat_map utf8_encode1 s.
