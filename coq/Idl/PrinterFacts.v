(* Facts about Printer.v (C13): what the printer lost before the D8 fix, what still does not
   round-trip (root-less schemas), and the repaired witnesses.  All by evaluation in the kernel. *)
From Coq Require Import List NArith Bool.
From Stef.Idl Require Import Lexer Ast Parser Resolve Printer.
Import ListNotations.
Open Scope N_scope.

(* 'package a\nstruct R root { x []string dict(D) }' *)
Definition d8_array_dict : list N := [112; 97; 99; 107; 97; 103; 101; 32; 97; 10; 115; 116; 114; 117; 99; 116; 32; 82; 32; 114; 111; 111; 116; 32; 123; 32; 120; 32; 91; 93; 115; 116; 114; 105; 110; 103; 32; 100; 105; 99; 116; 40; 68; 41; 32; 125].
(* 'package a\nenum E { v = 1 }\nstruct R root { e E }' *)
Definition d8_enum_field : list N := [112; 97; 99; 107; 97; 103; 101; 32; 97; 10; 101; 110; 117; 109; 32; 69; 32; 123; 32; 118; 32; 61; 32; 49; 32; 125; 10; 115; 116; 114; 117; 99; 116; 32; 82; 32; 114; 111; 111; 116; 32; 123; 32; 101; 32; 69; 32; 125].
(* 'package a\nenum E { v = 1 }\nstruct R root { e E dict(D) }' *)
Definition d8_enum_dict : list N := [112; 97; 99; 107; 97; 103; 101; 32; 97; 10; 101; 110; 117; 109; 32; 69; 32; 123; 32; 118; 32; 61; 32; 49; 32; 125; 10; 115; 116; 114; 117; 99; 116; 32; 82; 32; 114; 111; 111; 116; 32; 123; 32; 101; 32; 69; 32; 100; 105; 99; 116; 40; 68; 41; 32; 125].
(* 'package a struct A { x int64 }' *)
Definition rootless : list N := [112; 97; 99; 107; 97; 103; 101; 32; 97; 32; 115; 116; 114; 117; 99; 116; 32; 65; 32; 123; 32; 120; 32; 105; 110; 116; 54; 52; 32; 125].

Definition reparse (fixed : bool) (input : list N) : option outcome :=
  match parse input with
  | OOk s _ => Some (parse (utf8_encode (print_gen fixed s)))
  | _ => None
  end.

Definition same_schema (input : list N) (o : option outcome) : Prop :=
  match parse input, o with
  | OOk s _, Some (OOk s' _) => s' = s
  | _, _ => False
  end.

Definition empty_schema : ischema := mkISchema [] [] [] [].
Definition parsed (input : list N) : ischema := match parse input with OOk s _ => s | _ => empty_schema end.
Definition reparsed (fixed : bool) (input : list N) : ischema :=
  match reparse fixed input with Some (OOk s _) => s | _ => empty_schema end.

Definition s_array_dict : ischema := Eval vm_compute in parsed d8_array_dict.
Definition s_array_dict_legacy : ischema := Eval vm_compute in reparsed false d8_array_dict.
Definition s_enum_field : ischema := Eval vm_compute in parsed d8_enum_field.
Definition s_enum_field_legacy : ischema := Eval vm_compute in reparsed false d8_enum_field.
Definition s_enum_dict : ischema := Eval vm_compute in parsed d8_enum_dict.

(* D8 before the fix: the dictionary of an array element type is dropped ... *)
Lemma print_legacy_drops_array_dict :
  parse d8_array_dict = OOk s_array_dict [] /\
  parse (utf8_encode (print_legacy s_array_dict)) = OOk s_array_dict_legacy [] /\
  i_structs s_array_dict_legacy <> i_structs s_array_dict.
Proof. split; [vm_compute; reflexivity|]. split; [vm_compute; reflexivity|]. discriminate. Qed.

(* ... an enum-typed field comes back as uint64 (and the enum, now unused, is pruned) ... *)
Lemma print_legacy_loses_enum :
  parse d8_enum_field = OOk s_enum_field [] /\
  (exists w, parse (utf8_encode (print_legacy s_enum_field)) = OOk s_enum_field_legacy w) /\
  i_structs s_enum_field_legacy <> i_structs s_enum_field.
Proof. split; [vm_compute; reflexivity|]. split; [eexists; vm_compute; reflexivity|]. discriminate. Qed.

(* ... and with a dict modifier the printed text is not even accepted *)
Lemma print_legacy_enum_dict_rejected :
  parse d8_enum_dict = OOk s_enum_dict [] /\
  exists p, parse (utf8_encode (print_legacy s_enum_dict)) = OErr p MDictPrim.
Proof. split; [vm_compute; reflexivity|]. eexists. vm_compute. reflexivity. Qed.

(* after the fix the three witnesses round-trip exactly *)
Lemma print_fixed_witnesses :
  parse (utf8_encode (print s_array_dict)) = OOk s_array_dict [] /\
  parse (utf8_encode (print s_enum_field)) = OOk s_enum_field [] /\
  parse (utf8_encode (print s_enum_dict)) = OOk s_enum_dict [].
Proof. repeat split; vm_compute; reflexivity. Qed.

(* still open (known finding C13-empty-schema): a schema without a root struct parses to the empty
   schema (with a warning), whose printed form "package a" the parser rejects *)
Lemma print_parse_rootless_refuted :
  (exists w, parse rootless = OOk (mkISchema [[97]] [] [] []) w) /\
  exists p, parse (utf8_encode (print (mkISchema [[97]] [] [] []))) = OErr p MTopLevel.
Proof. split; eexists; vm_compute; reflexivity. Qed.
