(* Facts about the model of Schema.PruneUnused (Idl/Resolve.v: reach_type, reachable, prune_unused):
   the reachability marking never runs out of fuel, the reachable set is closed under the
   references of the definitions it names, and pruning keeps a resolved schema resolved. *)
From Coq Require Import List NArith Bool Lia ZifyN ZifyNat ZifyBool Arith.
From Stef.Idl Require Import Lexer Ast Parser Resolve SchemaSpec ParserFacts.
Import ListNotations. Open Scope N_scope.

(* ---------- small list / lookup facts ---------- *)
Lemma mem_str_In : forall n l, mem_str n l = true <-> In n l.
Proof.
  induction l as [|x l IH]; cbn [mem_str In].
  - split; [discriminate | tauto].
  - rewrite orb_true_iff, IH, str_eqb_eq. tauto.
Qed.

Lemma mem_str_not_In : forall n l, mem_str n l = false -> ~ In n l.
Proof. intros n l H Hin. apply mem_str_In in Hin. congruence. Qed.

Lemma find_struct_some : forall l n sd, find_struct l n = Some sd -> In sd l /\ is_name sd = n.
Proof.
  induction l as [|s l IH]; cbn [find_struct]; intros n sd H; [discriminate|].
  destruct (str_eqb (is_name s) n) eqn:E.
  - inversion H; subst. apply str_eqb_eq in E. split; [left; reflexivity | exact E].
  - destruct (IH _ _ H). split; [right|]; assumption.
Qed.

Lemma find_mmap_some : forall l n md, find_mmap l n = Some md -> In md l /\ im_name md = n.
Proof.
  induction l as [|s l IH]; cbn [find_mmap]; intros n md H; [discriminate|].
  destruct (str_eqb (im_name s) n) eqn:E.
  - inversion H; subst. apply str_eqb_eq in E. split; [left; reflexivity | exact E].
  - destruct (IH _ _ H). split; [right|]; assumption.
Qed.

Lemma find_enum_some : forall l n ed, find_enum l n = Some ed -> In ed l /\ ie_name ed = n.
Proof.
  induction l as [|s l IH]; cbn [find_enum]; intros n ed H; [discriminate|].
  destruct (str_eqb (ie_name s) n) eqn:E.
  - inversion H; subst. apply str_eqb_eq in E. split; [left; reflexivity | exact E].
  - destruct (IH _ _ H). split; [right|]; assumption.
Qed.

Lemma find_struct_in : forall l s, In s l -> exists sd, find_struct l (is_name s) = Some sd.
Proof.
  intros l s H. destruct (find_struct l (is_name s)) eqn:E; [eauto|].
  apply find_struct_none in E. exfalso. apply E. apply in_map. exact H.
Qed.

Lemma find_mmap_in : forall l s, In s l -> exists md, find_mmap l (im_name s) = Some md.
Proof.
  intros l s H. destruct (find_mmap l (im_name s)) eqn:E; [eauto|].
  apply find_mmap_none in E. exfalso. apply E. apply in_map. exact H.
Qed.

(* with distinct names, lookup returns the very element *)
Lemma find_struct_nodup : forall l s, NoDup (map is_name l) -> In s l -> find_struct l (is_name s) = Some s.
Proof.
  induction l as [|x l IH]; cbn [map find_struct In]; intros s Hnd Hin; [tauto|].
  inversion Hnd as [|? ? Hx Hl]; subst.
  destruct Hin as [->|Hin]; [rewrite str_eqb_refl; reflexivity|].
  destruct (str_eqb (is_name x) (is_name s)) eqn:E.
  - apply str_eqb_eq in E. exfalso. apply Hx. rewrite E. apply in_map. exact Hin.
  - apply IH; assumption.
Qed.

Lemma find_mmap_nodup : forall l s, NoDup (map im_name l) -> In s l -> find_mmap l (im_name s) = Some s.
Proof.
  induction l as [|x l IH]; cbn [map find_mmap In]; intros s Hnd Hin; [tauto|].
  inversion Hnd as [|? ? Hx Hl]; subst.
  destruct Hin as [->|Hin]; [rewrite str_eqb_refl; reflexivity|].
  destruct (str_eqb (im_name x) (im_name s)) eqn:E.
  - apply str_eqb_eq in E. exfalso. apply Hx. rewrite E. apply in_map. exact Hin.
  - apply IH; assumption.
Qed.

(* lookup in a list filtered by name *)
Lemma find_struct_filter : forall keep l n sd, find_struct l n = Some sd -> In n keep ->
  find_struct (filter (fun s => mem_str (is_name s) keep) l) n = Some sd.
Proof.
  induction l as [|x l IH]; cbn [find_struct filter]; intros n sd H Hk; [discriminate|].
  destruct (str_eqb (is_name x) n) eqn:E.
  - inversion H; subst. pose proof E as E'. apply str_eqb_eq in E'.
    replace (mem_str (is_name sd) keep) with true by (symmetry; apply mem_str_In; rewrite E'; exact Hk).
    cbn [find_struct]. rewrite E. reflexivity.
  - destruct (mem_str (is_name x) keep); cbn [find_struct]; [rewrite E|]; apply IH; assumption.
Qed.

Lemma find_mmap_filter : forall keep l n md, find_mmap l n = Some md -> In n keep ->
  find_mmap (filter (fun s => mem_str (im_name s) keep) l) n = Some md.
Proof.
  induction l as [|x l IH]; cbn [find_mmap filter]; intros n md H Hk; [discriminate|].
  destruct (str_eqb (im_name x) n) eqn:E.
  - inversion H; subst. pose proof E as E'. apply str_eqb_eq in E'.
    replace (mem_str (im_name md) keep) with true by (symmetry; apply mem_str_In; rewrite E'; exact Hk).
    cbn [find_mmap]. rewrite E. reflexivity.
  - destruct (mem_str (im_name x) keep); cbn [find_mmap]; [rewrite E|]; apply IH; assumption.
Qed.

Lemma find_enum_filter : forall keep l n ed, find_enum l n = Some ed -> In n keep ->
  find_enum (filter (fun s => mem_str (ie_name s) keep) l) n = Some ed.
Proof.
  induction l as [|x l IH]; cbn [find_enum filter]; intros n ed H Hk; [discriminate|].
  destruct (str_eqb (ie_name x) n) eqn:E.
  - inversion H; subst. pose proof E as E'. apply str_eqb_eq in E'.
    replace (mem_str (ie_name ed) keep) with true by (symmetry; apply mem_str_In; rewrite E'; exact Hk).
    cbn [find_enum]. rewrite E. reflexivity.
  - destruct (mem_str (ie_name x) keep); cbn [find_enum]; [rewrite E|]; apply IH; assumption.
Qed.

(* ---------- NoDup under filtering ---------- *)
(* sub a b: a is obtained from b by deleting elements *)
Inductive sub {A} : list A -> list A -> Prop :=
| sub_nil : sub [] []
| sub_keep : forall x a b, sub a b -> sub (x :: a) (x :: b)
| sub_drop : forall x a b, sub a b -> sub a (x :: b).

Lemma sub_in : forall A (a b : list A) x, sub a b -> In x a -> In x b.
Proof. induction 1; cbn [In]; intros; tauto. Qed.

Lemma sub_nodup : forall A (a b : list A), sub a b -> NoDup b -> NoDup a.
Proof.
  induction 1; intros Hnd; [constructor| |].
  - inversion Hnd; subst. constructor; [|auto]. intro Hin. eapply sub_in in Hin; eauto.
  - inversion Hnd; subst. auto.
Qed.

Lemma sub_app : forall A (a b c d : list A), sub a b -> sub c d -> sub (a ++ c) (b ++ d).
Proof. induction 1; cbn [app]; intros; [assumption | constructor; auto | constructor; auto]. Qed.

Lemma sub_map_filter : forall A B (f : A -> B) p l, sub (map f (filter p l)) (map f l).
Proof.
  induction l as [|x l IH]; cbn [filter map]; [constructor|].
  destruct (p x); cbn [map]; constructor; exact IH.
Qed.

Lemma NoDup_map_filter : forall A B (f : A -> B) p l, NoDup (map f l) -> NoDup (map f (filter p l)).
Proof. intros. eapply sub_nodup; [apply sub_map_filter | assumption]. Qed.

Lemma NoDup_map_filter3 : forall A1 A2 A3 B (f1 : A1 -> B) (f2 : A2 -> B) (f3 : A3 -> B) p1 p2 p3 l1 l2 l3,
  NoDup (map f1 l1 ++ map f2 l2 ++ map f3 l3) ->
  NoDup (map f1 (filter p1 l1) ++ map f2 (filter p2 l2) ++ map f3 (filter p3 l3)).
Proof.
  intros. eapply sub_nodup; [|eassumption].
  apply sub_app; [|apply sub_app]; apply sub_map_filter.
Qed.

(* ---------- reach_type: unfolding ---------- *)
Definition rstep (sch : ischema) (f : nat) : option rset -> isfield -> option rset :=
  fun a fl => match a with None => None | Some a => reach_type sch f (if_type fl) a end.

Definition add_s (n : str) (r : rset) : rset := mkRset (n :: rs_structs r) (rs_mmaps r) (rs_enums r).
Definition add_m (n : str) (r : rset) : rset := mkRset (rs_structs r) (n :: rs_mmaps r) (rs_enums r).
Definition add_e (n : str) (r : rset) : rset := mkRset (rs_structs r) (rs_mmaps r) (n :: rs_enums r).

Definition reach_name (sch : ischema) (f : nat) (n : str) (acc : rset) : option rset :=
  if mem_str n (rs_structs acc) then Some acc
  else match find_struct (i_structs sch) n with
       | None => Some acc
       | Some sd => fold_left (rstep sch f) (is_fields sd) (Some (add_s n acc))
       end.

Definition reach_map (sch : ischema) (f : nat) (n : str) (acc : rset) : option rset :=
  if mem_str n (rs_mmaps acc) then Some acc
  else match find_mmap (i_mmaps sch) n with
       | None => Some acc
       | Some md => match reach_type sch f (im_key md) (add_m n acc) with
                    | None => None
                    | Some a => reach_type sch f (im_val md) a
                    end
       end.

Lemma reach_type_S : forall sch f t acc,
  reach_type sch (S f) t acc =
  match t with
  | IStruct n _ | IRef n _ => reach_name sch f n acc
  | IMap n _ => reach_map sch f n acc
  | IEnum n _ => Some (add_e n acc)
  | IArray e _ _ => reach_type sch (S f) e acc
  | INone _ | IPrim _ _ => Some acc
  end.
Proof. intros sch f t acc. destruct t; reflexivity. Qed.

Lemma fold_rstep_none : forall sch f l, fold_left (rstep sch f) l None = None.
Proof. induction l; cbn [fold_left rstep]; auto. Qed.

Lemma fold_rstep_cons : forall sch f fl l a,
  fold_left (rstep sch f) (fl :: l) (Some a) = fold_left (rstep sch f) l (reach_type sch f (if_type fl) a).
Proof. reflexivity. Qed.

(* ---------- the accumulator only grows ---------- *)
Definition mono (a b : rset) : Prop :=
  incl (rs_structs a) (rs_structs b) /\ incl (rs_mmaps a) (rs_mmaps b) /\ incl (rs_enums a) (rs_enums b).

Lemma mono_refl : forall a, mono a a.
Proof. intros a. repeat split; apply incl_refl. Qed.

Lemma mono_trans : forall a b c, mono a b -> mono b c -> mono a c.
Proof. intros a b c (H1 & H2 & H3) (G1 & G2 & G3). repeat split; eapply incl_tran; eauto. Qed.

Lemma mono_add_s : forall n a, mono a (add_s n a).
Proof. intros. repeat split; cbn [add_s rs_structs rs_mmaps rs_enums]; auto using incl_refl, incl_tl. Qed.
Lemma mono_add_m : forall n a, mono a (add_m n a).
Proof. intros. repeat split; cbn [add_m rs_structs rs_mmaps rs_enums]; auto using incl_refl, incl_tl. Qed.
Lemma mono_add_e : forall n a, mono a (add_e n a).
Proof. intros. repeat split; cbn [add_e rs_structs rs_mmaps rs_enums]; auto using incl_refl, incl_tl. Qed.

Section Reach.
  Variable sch : ischema.

  Lemma fold_mono : forall f,
    (forall t acc acc', reach_type sch f t acc = Some acc' -> mono acc acc') ->
    forall l a a', fold_left (rstep sch f) l (Some a) = Some a' -> mono a a'.
  Proof.
    intros f IH. induction l as [|fl l IHl]; intros a a' H.
    - cbn [fold_left] in H. inversion H. apply mono_refl.
    - rewrite fold_rstep_cons in H.
      destruct (reach_type sch f (if_type fl) a) as [a1|] eqn:E.
      + eapply mono_trans; [eapply IH; exact E | apply IHl; exact H].
      + rewrite fold_rstep_none in H. discriminate.
  Qed.

  Lemma reach_mono : forall f t acc acc', reach_type sch f t acc = Some acc' -> mono acc acc'.
  Proof.
    induction f as [|f IHf]; [discriminate|].
    induction t; intros acc acc'; rewrite reach_type_S; intros H.
    - inversion H. apply mono_refl.
    - inversion H. apply mono_refl.
    - unfold reach_name in H. destruct (mem_str n (rs_structs acc)); [inversion H; apply mono_refl|].
      destruct (find_struct (i_structs sch) n); [|inversion H; apply mono_refl].
      eapply mono_trans; [apply (mono_add_s n) | eapply fold_mono; eauto].
    - unfold reach_name in H. destruct (mem_str n (rs_structs acc)); [inversion H; apply mono_refl|].
      destruct (find_struct (i_structs sch) n); [|inversion H; apply mono_refl].
      eapply mono_trans; [apply (mono_add_s n) | eapply fold_mono; eauto].
    - unfold reach_map in H. destruct (mem_str n (rs_mmaps acc)); [inversion H; apply mono_refl|].
      destruct (find_mmap (i_mmaps sch) n) as [md|]; [|inversion H; apply mono_refl].
      destruct (reach_type sch f (im_key md) (add_m n acc)) as [a1|] eqn:E; [|discriminate].
      eapply mono_trans; [apply (mono_add_m n)|]. eapply mono_trans; eapply IHf; eauto.
    - inversion H. apply mono_add_e.
    - apply IHt. exact H.
  Qed.

  (* ---------- the fuel suffices ---------- *)
  (* ps / pm: names added to the accumulator by the enclosing calls *)
  Definition G (f : nat) (ps pm : list str) (acc : rset) : Prop :=
    NoDup ps /\ NoDup pm /\
    incl ps (map is_name (i_structs sch)) /\ incl pm (map im_name (i_mmaps sch)) /\
    incl ps (rs_structs acc) /\ incl pm (rs_mmaps acc) /\
    (length (i_structs sch) + length (i_mmaps sch) + 1 <= f + length ps + length pm)%nat.

  Lemma G_mono : forall f ps pm a a', G f ps pm a -> mono a a' -> G f ps pm a'.
  Proof.
    intros f ps pm a a' (H1 & H2 & H3 & H4 & H5 & H6 & H7) (M1 & M2 & _).
    repeat split; auto; eapply incl_tran; eauto.
  Qed.

  Lemma G_fuel : forall f ps pm a, G f ps pm a -> f <> O.
  Proof.
    intros f ps pm a (H1 & H2 & H3 & H4 & _ & _ & H7).
    apply NoDup_incl_length in H3; [|assumption]. apply NoDup_incl_length in H4; [|assumption].
    rewrite map_length in H3, H4. lia.
  Qed.

  Lemma G_add_s : forall f ps pm a n sd, G (S f) ps pm a -> mem_str n (rs_structs a) = false ->
    find_struct (i_structs sch) n = Some sd -> G f (n :: ps) pm (add_s n a).
  Proof.
    intros f ps pm a n sd (H1 & H2 & H3 & H4 & H5 & H6 & H7) Hm Hf.
    apply mem_str_not_In in Hm. apply find_struct_some in Hf. destruct Hf as [Hin Hn].
    unfold G. cbn [add_s rs_structs rs_mmaps length]. repeat split; auto.
    - constructor; auto.
    - apply incl_cons; [|assumption]. rewrite <- Hn. apply in_map. exact Hin.
    - apply incl_cons; [left; reflexivity | apply incl_tl; assumption].
    - lia.
  Qed.

  Lemma G_add_m : forall f ps pm a n md, G (S f) ps pm a -> mem_str n (rs_mmaps a) = false ->
    find_mmap (i_mmaps sch) n = Some md -> G f ps (n :: pm) (add_m n a).
  Proof.
    intros f ps pm a n md (H1 & H2 & H3 & H4 & H5 & H6 & H7) Hm Hf.
    apply mem_str_not_In in Hm. apply find_mmap_some in Hf. destruct Hf as [Hin Hn].
    unfold G. cbn [add_m rs_structs rs_mmaps length]. repeat split; auto.
    - constructor; auto.
    - apply incl_cons; [|assumption]. rewrite <- Hn. apply in_map. exact Hin.
    - apply incl_cons; [left; reflexivity | apply incl_tl; assumption].
    - lia.
  Qed.

  Lemma fold_some : forall f ps pm,
    (forall t acc, G f ps pm acc -> exists acc', reach_type sch f t acc = Some acc') ->
    forall l a, G f ps pm a -> exists a', fold_left (rstep sch f) l (Some a) = Some a'.
  Proof.
    intros f ps pm IH. induction l as [|fl l IHl]; intros a HG.
    - cbn [fold_left]. eauto.
    - rewrite fold_rstep_cons. destruct (IH (if_type fl) a HG) as [a1 E]. rewrite E.
      apply IHl. eapply G_mono; [exact HG | eapply reach_mono; exact E].
  Qed.

  Lemma reach_some : forall f t ps pm acc, G f ps pm acc -> exists acc', reach_type sch f t acc = Some acc'.
  Proof.
    induction f as [|f IHf]; intros t ps pm acc HG; [exfalso; eapply G_fuel; eauto|].
    revert acc HG. induction t; intros acc HG; rewrite reach_type_S; eauto.
    - unfold reach_name. destruct (mem_str n (rs_structs acc)) eqn:Em; [eauto|].
      destruct (find_struct (i_structs sch) n) as [sd|] eqn:Ef; [|eauto].
      eapply fold_some; [intros; eapply IHf; eassumption | eapply G_add_s; eauto].
    - unfold reach_name. destruct (mem_str n (rs_structs acc)) eqn:Em; [eauto|].
      destruct (find_struct (i_structs sch) n) as [sd|] eqn:Ef; [|eauto].
      eapply fold_some; [intros; eapply IHf; eassumption | eapply G_add_s; eauto].
    - unfold reach_map. destruct (mem_str n (rs_mmaps acc)) eqn:Em; [eauto|].
      destruct (find_mmap (i_mmaps sch) n) as [md|] eqn:Ef; [|eauto].
      pose proof (G_add_m _ _ _ _ _ _ HG Em Ef) as HG'.
      destruct (IHf (im_key md) _ _ _ HG') as [a1 E]. rewrite E.
      eapply IHf. eapply G_mono; [exact HG' | eapply reach_mono; exact E].
  Qed.

  Lemma G_init : forall acc, G (reach_fuel sch) [] [] acc.
  Proof.
    intros acc. unfold G, reach_fuel. cbn [length].
    split; [constructor|]. split; [constructor|].
    repeat (split; [apply incl_nil_l|]). lia.
  Qed.

  Definition root_step (a : option rset) (s : isdef) : option rset :=
    match a with
    | None => None
    | Some a => if is_root s then reach_type sch (reach_fuel sch) (IStruct (is_name s) []) a else Some a
    end.

  Lemma reachable_eq : reachable sch = fold_left root_step (i_structs sch) (Some (mkRset [] [] [])).
  Proof. reflexivity. Qed.

  Lemma roots_some : forall l a, exists r, fold_left root_step l (Some a) = Some r.
  Proof.
    induction l as [|s l IH]; intros a; cbn [fold_left root_step]; [eauto|].
    destruct (is_root s); [|apply IH].
    destruct (reach_some (reach_fuel sch) (IStruct (is_name s) []) [] [] a (G_init a)) as [a1 E].
    rewrite E. apply IH.
  Qed.

  (* ---------- the reachable set is closed ---------- *)
  Fixpoint names_in (t : itype) (r : rset) : Prop :=
    match t with
    | IStruct n _ => In n (rs_structs r)
    | IMap n _ => In n (rs_mmaps r)
    | IEnum n _ => In n (rs_enums r)
    | IArray e _ _ => names_in e r
    | INone _ | IPrim _ _ | IRef _ _ => True
    end.

  Lemma names_in_mono : forall t a b, names_in t a -> mono a b -> names_in t b.
  Proof. induction t; cbn [names_in]; intros a b H (M1 & M2 & M3); auto. eapply IHt; eauto. repeat split; auto. Qed.

  Definition sclosed (r : rset) (sd : isdef) : Prop := forall fl, In fl (is_fields sd) -> names_in (if_type fl) r.
  Definition mclosed (r : rset) (md : imdef) : Prop := names_in (im_key md) r /\ names_in (im_val md) r.

  (* closed except for the names whose definitions are being traversed *)
  Definition closedP (Ps Pm : list str) (r : rset) : Prop :=
    (forall n sd, In n (rs_structs r) -> find_struct (i_structs sch) n = Some sd -> In n Ps \/ sclosed r sd) /\
    (forall n md, In n (rs_mmaps r) -> find_mmap (i_mmaps sch) n = Some md -> In n Pm \/ mclosed r md).

  Lemma sclosed_mono : forall a b sd, sclosed a sd -> mono a b -> sclosed b sd.
  Proof. unfold sclosed. intros. eapply names_in_mono; eauto. Qed.
  Lemma mclosed_mono : forall a b md, mclosed a md -> mono a b -> mclosed b md.
  Proof. unfold mclosed. intros a b md [H1 H2] M. split; eapply names_in_mono; eauto. Qed.

  Lemma closedP_add_s : forall Ps Pm n r, closedP Ps Pm r -> closedP (n :: Ps) Pm (add_s n r).
  Proof.
    intros Ps Pm n r [Hs Hm]. split; cbn [add_s rs_structs rs_mmaps].
    - intros n' sd [->|Hin] Hf; [left; left; reflexivity|].
      destruct (Hs _ _ Hin Hf); [left; right; assumption | right; eapply sclosed_mono; eauto using mono_add_s].
    - intros n' md Hin Hf. destruct (Hm _ _ Hin Hf); [left; assumption | right; eapply mclosed_mono; eauto using mono_add_s].
  Qed.

  Lemma closedP_add_m : forall Ps Pm n r, closedP Ps Pm r -> closedP Ps (n :: Pm) (add_m n r).
  Proof.
    intros Ps Pm n r [Hs Hm]. split; cbn [add_m rs_structs rs_mmaps].
    - intros n' sd Hin Hf. destruct (Hs _ _ Hin Hf); [left; assumption | right; eapply sclosed_mono; eauto using mono_add_m].
    - intros n' md [->|Hin] Hf; [left; left; reflexivity|].
      destruct (Hm _ _ Hin Hf); [left; right; assumption | right; eapply mclosed_mono; eauto using mono_add_m].
  Qed.

  Lemma closedP_add_e : forall Ps Pm n r, closedP Ps Pm r -> closedP Ps Pm (add_e n r).
  Proof.
    intros Ps Pm n r [Hs Hm]. split; cbn [add_e rs_structs rs_mmaps].
    - intros n' sd Hin Hf. destruct (Hs _ _ Hin Hf); [left; assumption | right; eapply sclosed_mono; eauto using mono_add_e].
    - intros n' md Hin Hf. destruct (Hm _ _ Hin Hf); [left; assumption | right; eapply mclosed_mono; eauto using mono_add_e].
  Qed.

  (* leaving the traversal of struct n, all of whose fields are now covered *)
  Lemma closedP_done_s : forall Ps Pm n sd r, closedP (n :: Ps) Pm r ->
    find_struct (i_structs sch) n = Some sd -> sclosed r sd -> closedP Ps Pm r.
  Proof.
    intros Ps Pm n sd r [Hs Hm] Hf Hc. split; [|exact Hm].
    intros n' sd' Hin Hf'. destruct (Hs _ _ Hin Hf') as [[<-|H]|H]; auto.
    right. rewrite Hf in Hf'. inversion Hf'; subst. exact Hc.
  Qed.

  Lemma closedP_done_m : forall Ps Pm n md r, closedP Ps (n :: Pm) r ->
    find_mmap (i_mmaps sch) n = Some md -> mclosed r md -> closedP Ps Pm r.
  Proof.
    intros Ps Pm n md r [Hs Hm] Hf Hc. split; [exact Hs|].
    intros n' md' Hin Hf'. destruct (Hm _ _ Hin Hf') as [[<-|H]|H]; auto.
    right. rewrite Hf in Hf'. inversion Hf'; subst. exact Hc.
  Qed.

  Hypothesis Hres : sch_resolved sch.

  Lemma fold_closed : forall f Ps Pm,
    (forall t acc acc', reach_type sch f t acc = Some acc' -> closedP Ps Pm acc -> rtype sch t ->
                        closedP Ps Pm acc' /\ names_in t acc') ->
    forall l a a', fold_left (rstep sch f) l (Some a) = Some a' -> closedP Ps Pm a ->
      (forall fl, In fl l -> rtype sch (if_type fl)) ->
      closedP Ps Pm a' /\ forall fl, In fl l -> names_in (if_type fl) a'.
  Proof.
    intros f Ps Pm IH. induction l as [|fl l IHl]; intros a a' H Hc Hr.
    - cbn [fold_left] in H. inversion H; subst. split; [assumption|]. intros ? [].
    - rewrite fold_rstep_cons in H.
      destruct (reach_type sch f (if_type fl) a) as [a1|] eqn:E; [|rewrite fold_rstep_none in H; discriminate].
      destruct (IH _ _ _ E Hc (Hr _ (or_introl eq_refl))) as [Hc1 Hn1].
      destruct (IHl _ _ H Hc1 (fun x Hx => Hr x (or_intror Hx))) as [Hc2 Hn2].
      split; [assumption|]. intros x [<-|Hx]; [|auto].
      eapply names_in_mono; [exact Hn1 | eapply fold_mono; [apply reach_mono | exact H]].
  Qed.

  Lemma reach_name_closed : forall f,
    (forall t acc acc' Ps Pm, reach_type sch f t acc = Some acc' -> closedP Ps Pm acc -> rtype sch t ->
                              closedP Ps Pm acc' /\ names_in t acc') ->
    forall n acc acc' Ps Pm, reach_name sch f n acc = Some acc' -> closedP Ps Pm acc -> has_struct sch n = true ->
      closedP Ps Pm acc' /\ In n (rs_structs acc').
  Proof.
    intros f IH n acc acc' Ps Pm H Hc Hr. unfold reach_name in H.
    destruct (mem_str n (rs_structs acc)) eqn:Em.
    { inversion H; subst. split; [assumption | apply mem_str_In; assumption]. }
    unfold has_struct in Hr. destruct (find_struct (i_structs sch) n) as [sd|] eqn:Ef; [|discriminate].
    destruct (find_struct_some _ _ _ Ef) as [Hin _].
    destruct (fold_closed f (n :: Ps) Pm (fun t a a' => IH t a a' _ _) _ _ _ H (closedP_add_s _ _ _ _ Hc)
                (proj1 Hres _ Hin)) as [Hc' Hn'].
    split; [eapply closedP_done_s; eauto|].
    apply (fold_mono f (reach_mono f)) in H. destruct H as (M & _). apply M. left. reflexivity.
  Qed.

  Lemma reach_closed : forall f t acc acc' Ps Pm, reach_type sch f t acc = Some acc' -> closedP Ps Pm acc ->
    rtype sch t -> closedP Ps Pm acc' /\ names_in t acc'.
  Proof.
    induction f as [|f IHf]; [discriminate|].
    induction t; intros acc acc' Ps Pm; rewrite reach_type_S; cbn [rtype names_in]; intros H Hc Hr; try tauto.
    - inversion H; subst. auto.
    - eapply reach_name_closed; eauto.
    - unfold reach_map in H. destruct (mem_str n (rs_mmaps acc)) eqn:Em.
      { inversion H; subst. split; [assumption | apply mem_str_In; assumption]. }
      unfold has_mmap in Hr. destruct (find_mmap (i_mmaps sch) n) as [md|] eqn:Ef; [|discriminate].
      destruct (find_mmap_some _ _ _ Ef) as [Hin _]. destruct (proj2 Hres _ Hin) as [Hrk Hrv].
      destruct (reach_type sch f (im_key md) (add_m n acc)) as [a1|] eqn:E; [|discriminate].
      destruct (IHf _ _ _ _ _ E (closedP_add_m _ _ n _ Hc) Hrk) as [Hc1 Hn1].
      destruct (IHf _ _ _ _ _ H Hc1 Hrv) as [Hc2 Hn2].
      pose proof (reach_mono _ _ _ _ E) as M1. pose proof (reach_mono _ _ _ _ H) as M2.
      split.
      + eapply closedP_done_m; eauto. split; [eapply names_in_mono; eauto | assumption].
      + apply M2, M1. left. reflexivity.
    - inversion H; subst. split; [apply closedP_add_e; assumption | left; reflexivity].
    - eapply IHt; eauto.
  Qed.

  Lemma roots_closed : forall l a r, fold_left root_step l (Some a) = Some r -> incl l (i_structs sch) ->
    closedP [] [] a -> closedP [] [] r.
  Proof.
    induction l as [|s l IH]; intros a r H Hi Hc; cbn [fold_left root_step] in H.
    - inversion H; subst. assumption.
    - assert (Hi' : incl l (i_structs sch)) by (intros x Hx; apply Hi; right; exact Hx).
      destruct (is_root s); [|eapply IH; eauto].
      destruct (reach_type sch (reach_fuel sch) (IStruct (is_name s) []) a) as [a1|] eqn:E.
      + eapply IH; [exact H | exact Hi' |]. eapply reach_closed; [exact E | exact Hc |].
        cbn [rtype]. unfold has_struct. destruct (find_struct_in (i_structs sch) s) as [sd ->]; [|reflexivity].
        apply Hi. left. reflexivity.
      + clear -H. exfalso. induction l; cbn [fold_left root_step] in H; [discriminate | auto].
  Qed.

  Definition closed (r : rset) : Prop :=
    (forall n sd, In n (rs_structs r) -> find_struct (i_structs sch) n = Some sd -> sclosed r sd) /\
    (forall n md, In n (rs_mmaps r) -> find_mmap (i_mmaps sch) n = Some md -> mclosed r md).

  Lemma reachable_closed : forall r, reachable sch = Some r -> closed r.
  Proof.
    intros r H. rewrite reachable_eq in H.
    apply roots_closed in H; [|apply incl_refl|].
    - destruct H as [Hs Hm]. split; intros n d Hin Hf.
      + destruct (Hs _ _ Hin Hf) as [[]|]; assumption.
      + destruct (Hm _ _ Hin Hf) as [[]|]; assumption.
    - split; cbn [rs_structs rs_mmaps]; intros ? ? [].
  Qed.
End Reach.

Theorem reachable_some : forall sch, sch_resolved sch -> exists r, reachable sch = Some r.
Proof. intros sch _. rewrite reachable_eq. apply roots_some. Qed.

(* ---------- prune_unused ---------- *)
Definition pruned (sch : ischema) (r : rset) : ischema :=
  mkISchema (i_pkg sch)
    (filter (fun s => mem_str (is_name s) (rs_structs r)) (i_structs sch))
    (filter (fun m => mem_str (im_name m) (rs_mmaps r)) (i_mmaps sch))
    (filter (fun e => mem_str (ie_name e) (rs_enums r)) (i_enums sch)).

Lemma prune_unused_pruned : forall sch sch' w, prune_unused sch = Some (sch', w) ->
  exists r, reachable sch = Some r /\ sch' = pruned sch r.
Proof.
  unfold prune_unused. intros sch sch' w H. destruct (reachable sch) as [r|]; [|discriminate].
  exists r. split; [reflexivity|]. inversion H. reflexivity.
Qed.

Lemma rtype_pruned : forall sch r t, rtype sch t -> names_in t r -> rtype (pruned sch r) t.
Proof.
  induction t; cbn [rtype names_in]; auto; intros Hr Hn.
  - unfold has_struct in *. destruct (find_struct (i_structs sch) n) as [sd|] eqn:E; [|discriminate].
    cbn [pruned i_structs]. rewrite (find_struct_filter _ _ _ _ E Hn). reflexivity.
  - unfold has_mmap in *. destruct (find_mmap (i_mmaps sch) n) as [md|] eqn:E; [|discriminate].
    cbn [pruned i_mmaps]. rewrite (find_mmap_filter _ _ _ _ E Hn). reflexivity.
  - unfold has_enum in *. destruct (find_enum (i_enums sch) n) as [ed|] eqn:E; [|discriminate].
    cbn [pruned i_enums]. rewrite (find_enum_filter _ _ _ _ E Hn). reflexivity.
Qed.

(* With duplicate struct (or multimap) names pruning can break resolution: PruneUnused looks at the
   first definition of a name only but keeps every definition carrying a reachable name. *)
Lemma pruned_resolved : forall sch r, sch_resolved sch -> closed sch r ->
  NoDup (map is_name (i_structs sch)) -> NoDup (map im_name (i_mmaps sch)) ->
  sch_resolved (pruned sch r).
Proof.
  intros sch r [Rs Rm] [Cs Cm] Ns Nm. split; cbn [pruned i_structs i_mmaps].
  - intros sd Hin fl Hfl. apply filter_In in Hin. destruct Hin as [Hin Hk]. apply mem_str_In in Hk.
    apply rtype_pruned; [eapply Rs; eauto|].
    exact (Cs _ _ Hk (find_struct_nodup _ _ Ns Hin) _ Hfl).
  - intros md Hin. apply filter_In in Hin. destruct Hin as [Hin Hk]. apply mem_str_In in Hk.
    destruct (Cm _ _ Hk (find_mmap_nodup _ _ Nm Hin)) as [Ck Cv]. destruct (Rm _ Hin).
    split; apply rtype_pruned; assumption.
Qed.

Lemma NoDup_app_l : forall A (a b : list A), NoDup (a ++ b) -> NoDup a.
Proof. intros A a b H. eapply sub_nodup; [|exact H]. rewrite <- (app_nil_r a) at 1. apply sub_app.
  - clear. induction a; constructor; assumption.
  - clear. induction b; constructor; assumption.
Qed.

Lemma NoDup_app_r : forall A (a b : list A), NoDup (a ++ b) -> NoDup b.
Proof. intros A a b H. eapply sub_nodup; [|exact H]. change b with ([] ++ b) at 1. apply sub_app.
  - clear. induction a; constructor; assumption.
  - clear. induction b; constructor; assumption.
Qed.

Theorem prune_unused_resolved : forall sch sch' w, sch_resolved sch -> prune_unused sch = Some (sch', w) ->
  NoDup (map is_name (i_structs sch)) -> NoDup (map im_name (i_mmaps sch)) -> sch_resolved sch'.
Proof.
  intros sch sch' w Hres H Ns Nm. apply prune_unused_pruned in H. destruct H as (r & Hr & ->).
  apply pruned_resolved; auto. apply reachable_closed; assumption.
Qed.

(* The unconditional statement
     sch_resolved sch -> prune_unused sch = Some (sch', w) -> sch_resolved sch'
   is REFUTED by prune_dup_counterexample below (two structs with the same name): sch_resolved sch'
   needs distinct struct names and distinct multimap names.  The parser guarantees
   NoDup (top_names sch), hence the guard on the first conjunct. *)
Theorem prune_unused_ok : forall sch sch' w, sch_resolved sch -> prune_unused sch = Some (sch', w) ->
  (NoDup (top_names sch) -> sch_resolved sch') /\
  i_pkg sch' = i_pkg sch /\
  (forall sd, In sd (i_structs sch') -> In sd (i_structs sch)) /\
  (forall md, In md (i_mmaps sch') -> In md (i_mmaps sch)) /\
  (forall ed, In ed (i_enums sch') -> In ed (i_enums sch)) /\
  (NoDup (top_names sch) -> NoDup (top_names sch')).
Proof.
  intros sch sch' w Hres H. split.
  { intros Hnd. unfold top_names in Hnd. eapply prune_unused_resolved; eauto.
    - eapply NoDup_app_l; eauto.
    - apply NoDup_app_r in Hnd. eapply NoDup_app_l; eauto. }
  apply prune_unused_pruned in H. destruct H as (r & Hr & ->). cbn [pruned i_pkg i_structs i_mmaps i_enums].
  split; [reflexivity|].
  split; [intros x Hx; apply filter_In in Hx; tauto|].
  split; [intros x Hx; apply filter_In in Hx; tauto|].
  split; [intros x Hx; apply filter_In in Hx; tauto|].
  unfold top_names. cbn [pruned i_structs i_mmaps i_enums]. apply NoDup_map_filter3.
Qed.

(* two structs named A: the first (root) has no fields, the second refers to B *)
Definition dup_example : ischema :=
  mkISchema []
    [mkISDef [65] false [] true [] false;
     mkISDef [65] false [] false [mkISField [102] (IStruct [66] []) false] false;
     mkISDef [66] false [] false [] false] [] [].

Example prune_dup_counterexample :
  sch_resolved dup_example /\
  exists sch' w, prune_unused dup_example = Some (sch', w) /\ ~ sch_resolved sch'.
Proof.
  split.
  - split; [|intros ? []]. intros sd Hin fl Hfl. cbn in Hin.
    destruct Hin as [<-|[<-|[<-|[]]]]; cbn in Hfl; try tauto.
    destruct Hfl as [<-|[]]. reflexivity.
  - eexists. eexists. split; [vm_compute; reflexivity|].
    intros [Hs _].
    specialize (Hs _ (or_intror (or_introl eq_refl)) _ (or_introl eq_refl)).
    vm_compute in Hs. discriminate.
Qed.
