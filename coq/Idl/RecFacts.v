(* Facts about Resolve.compute_recursive (the model of Go's computeRecursive with its panic
   sites): on a schema whose every type reference resolves, the recursion marking neither panics
   nor runs out of fuel. *)
From Coq Require Import List NArith Bool Lia ZifyN ZifyNat ZifyBool Arith.
From Stef.Idl Require Import Lexer Ast Parser Resolve SchemaSpec ParserFacts.
Import ListNotations. Open Scope N_scope.

(* ---------- mem_str / find_last ---------- *)
Lemma mem_str_In : forall n l, mem_str n l = true <-> In n l.
Proof.
  intros n l. induction l as [|x l IH]; cbn [mem_str In].
  - split; [discriminate | tauto].
  - rewrite orb_true_iff, IH, str_eqb_eq. tauto.
Qed.

Lemma mem_str_false_not_In : forall n l, mem_str n l = false -> ~ In n l.
Proof.
  intros n l H HI. apply mem_str_In in HI. rewrite HI in H. discriminate.
Qed.

Lemma find_last_mem : forall names n, mem_str n names = true -> exists i, find_last names n = Some i.
Proof.
  induction names as [|x r IH]; intros n H; cbn [mem_str find_last] in *.
  - discriminate.
  - destruct (find_last r n) as [i|] eqn:E.
    + eexists; reflexivity.
    + destruct (str_eqb x n) eqn:Ex.
      * eexists; reflexivity.
      * cbn [orb] in H. apply IH in H. destruct H as [i Hi]. rewrite Hi in E. discriminate.
Qed.

(* ---------- find_struct / find_mmap ---------- *)
Lemma find_struct_Some : forall l n sd, find_struct l n = Some sd -> In sd l /\ is_name sd = n.
Proof.
  induction l as [|s t IH]; intros n sd H; cbn [find_struct] in H.
  - discriminate.
  - destruct (str_eqb (is_name s) n) eqn:E.
    + inversion H; subst. apply str_eqb_eq in E. split; [now left | assumption].
    + apply IH in H. destruct H. split; [now right | assumption].
Qed.

Lemma find_mmap_Some : forall l n md, find_mmap l n = Some md -> In md l /\ im_name md = n.
Proof.
  induction l as [|s t IH]; intros n md H; cbn [find_mmap] in H.
  - discriminate.
  - destruct (str_eqb (im_name s) n) eqn:E.
    + inversion H; subst. apply str_eqb_eq in E. split; [now left | assumption].
    + apply IH in H. destruct H. split; [now right | assumption].
Qed.

Lemma find_struct_In : forall l sd, In sd l -> exists sd', find_struct l (is_name sd) = Some sd'.
Proof.
  induction l as [|s t IH]; intros sd H; cbn [find_struct In] in *.
  - contradiction.
  - destruct (str_eqb (is_name s) (is_name sd)) eqn:E.
    + eexists; reflexivity.
    + destruct H as [H|H].
      * subst. rewrite str_eqb_refl in E. discriminate.
      * now apply IH.
Qed.

Lemma has_struct_find : forall sch n, has_struct sch n = true ->
  exists sd, find_struct (i_structs sch) n = Some sd /\ In sd (i_structs sch) /\ is_name sd = n.
Proof.
  intros sch n H. unfold has_struct in H.
  destruct (find_struct (i_structs sch) n) as [sd|] eqn:E; [|discriminate].
  exists sd. split; [reflexivity|]. now apply find_struct_Some.
Qed.

Lemma has_mmap_find : forall sch n, has_mmap sch n = true ->
  exists md, find_mmap (i_mmaps sch) n = Some md /\ In md (i_mmaps sch) /\ im_name md = n.
Proof.
  intros sch n H. unfold has_mmap in H.
  destruct (find_mmap (i_mmaps sch) n) as [md|] eqn:E; [|discriminate].
  exists md. split; [reflexivity|]. now apply find_mmap_Some.
Qed.

Lemma In_has_struct : forall sch sd, In sd (i_structs sch) -> has_struct sch (is_name sd) = true.
Proof.
  intros sch sd H. unfold has_struct. apply find_struct_In in H. destruct H as [sd' H].
  now rewrite H.
Qed.

(* ---------- set_recursive / map_pr / concat_pr ---------- *)
(* a composite type: the only ones SetRecursive accepts *)
Definition comp (t : itype) : Prop :=
  match t with IStruct _ _ | IMap _ _ | IArray _ _ _ => True | _ => False end.
Definition recable (lt : floc * itype) : Prop := comp (snd lt).

Lemma set_recursive_ok : forall lt, recable lt -> exists m, set_recursive lt = POk m.
Proof.
  intros [l t] H. unfold recable, set_recursive in *. cbn [snd fst] in *.
  destruct t; cbn [comp] in H; try contradiction; eexists; reflexivity.
Qed.

Lemma map_pr_ok : forall A B (g : A -> pr B) l,
  Forall (fun x => exists b, g x = POk b) l -> exists bs, map_pr g l = POk bs.
Proof.
  intros A B g l H. induction H as [|x r [b Hb] _ [bs Hbs]]; cbn [map_pr].
  - eexists; reflexivity.
  - rewrite Hb, Hbs. eexists; reflexivity.
Qed.

Lemma concat_pr_ok : forall A B (g : A -> pr (list B)) l,
  (forall x, In x l -> exists b, g x = POk b) -> exists bs, concat_pr g l = POk bs.
Proof.
  intros A B g l. induction l as [|x r IH]; intros H; cbn [concat_pr].
  - eexists; reflexivity.
  - destruct (H x (or_introl eq_refl)) as [b Hb].
    destruct IH as [bs Hbs]. { intros y Hy. apply H. now right. }
    rewrite Hb, Hbs. eexists; reflexivity.
Qed.

Lemma Forall_skipn' : forall A (P : A -> Prop) i l, Forall P l -> Forall P (skipn i l).
Proof.
  intros A P. induction i as [|i IH]; intros l H; cbn [skipn].
  - assumption.
  - destruct H; [constructor | now apply IH].
Qed.

Lemma mark_recursive_ok : forall n names fields,
  mem_str n names = true -> Forall recable fields ->
  exists marks, mark_recursive n names fields = POk marks.
Proof.
  intros n names fields Hm Hf. unfold mark_recursive.
  destruct (find_last_mem names n Hm) as [i Hi]. rewrite Hi.
  apply map_pr_ok. apply Forall_skipn' with (i := i) in Hf.
  eapply Forall_impl; [|exact Hf]. intros lt Hlt. now apply set_recursive_ok.
Qed.

Lemma In_indexed : forall A (l : list A) i ix, In ix (indexed i l) -> In (snd ix) l.
Proof.
  intros A. induction l as [|x r IH]; intros i ix H; cbn [indexed In] in *.
  - contradiction.
  - destruct H as [H|H]; [subst; now left | right; eapply IH; eassumption].
Qed.

(* ---------- crec_type ---------- *)
Lemma crec_type_S : forall sch f names fields t,
  crec_type sch (S f) names fields t =
  match t with
  | IPrim _ _ | IEnum _ _ => POk []
  | IStruct n _ =>
    if mem_str n names then mark_recursive n names fields
    else match find_struct (i_structs sch) n with
         | None => PPanic PNilDef
         | Some sd =>
           concat_pr (fun ix : nat * isfield =>
                        crec_type sch f (names ++ [n]) (fields ++ [(LField n (fst ix), if_type (snd ix))])
                                  (if_type (snd ix)))
                     (indexed O (is_fields sd))
         end
  | IRef n _ =>
    if mem_str n names then mark_recursive n names fields else PPanic PNilDef
  | IMap n _ =>
    if mem_str n names then mark_recursive n names fields
    else match find_mmap (i_mmaps sch) n with
         | None => PPanic PNilDef
         | Some md =>
           match crec_type sch f (names ++ [n]) (fields ++ [(LKey n, im_key md)]) (im_key md) with
           | POk a =>
             match crec_type sch f (names ++ [n]) (fields ++ [(LVal n, im_val md)]) (im_val md) with
             | POk b => POk (a ++ b)
             | PPanic s => PPanic s
             | PFuel => PFuel
             end
           | PPanic s => PPanic s
           | PFuel => PFuel
           end
         end
  | IArray e _ _ => crec_type sch (S f) names fields e
  | INone _ => PPanic PUnknownType
  end.
Proof. intros. destruct t; reflexivity. Qed.

Definition def_names (sch : ischema) : list str :=
  map is_name (i_structs sch) ++ map im_name (i_mmaps sch).

Lemma def_names_length : forall sch,
  length (def_names sch) = (length (i_structs sch) + length (i_mmaps sch))%nat.
Proof. intros. unfold def_names. now rewrite app_length, !map_length. Qed.

Lemma names_bound : forall sch names,
  NoDup names -> incl names (def_names sch) ->
  (length names <= length (i_structs sch) + length (i_mmaps sch))%nat.
Proof.
  intros sch names Hn Hi. rewrite <- def_names_length. now apply NoDup_incl_length.
Qed.

Lemma NoDup_snoc : forall (names : list str) n, NoDup names -> ~ In n names -> NoDup (names ++ [n]).
Proof.
  intros names n Hn Hi.
  induction Hn as [|x l Hx Hl IH]; cbn [app].
  - constructor; [intros []| constructor].
  - constructor.
    + rewrite in_app_iff. cbn [In]. intros [H|[H|[]]]; [now apply Hx|].
      subst. apply Hi. now left.
    + apply IH. intros H. apply Hi. now right.
Qed.

Lemma incl_snoc : forall (names l : list str) n, incl names l -> In n l -> incl (names ++ [n]) l.
Proof.
  intros names l n Hi Hn x Hx. apply in_app_iff in Hx. destruct Hx as [Hx|[Hx|[]]].
  - now apply Hi.
  - now subst.
Qed.

Lemma comp_recable_snoc : forall sch fields loc t,
  Forall recable fields -> rtype sch t -> comp t -> Forall recable (fields ++ [(loc, t)]).
Proof.
  intros sch fields loc t Hf _ Hc. apply Forall_app. split; [assumption|].
  constructor; [exact Hc | constructor].
Qed.

Lemma crec_type_ok : forall sch, sch_resolved sch ->
  forall fuel names fields t,
    rtype sch t ->
    NoDup names -> incl names (def_names sch) ->
    (length (i_structs sch) + length (i_mmaps sch) + 1 <= fuel + length names)%nat ->
    (comp t -> Forall recable fields) ->
    exists marks, crec_type sch fuel names fields t = POk marks.
Proof.
  intros sch [HS HM]. induction fuel as [|f IHf]; intros names fields t Ht Hnd Hincl Hfuel Hfl.
  - pose proof (names_bound sch names Hnd Hincl). lia.
  - induction t as [d|p d|n d|n d|n d|n d|e IHe d r]; rewrite crec_type_S; cbn [rtype] in Ht.
    + contradiction.
    + eexists; reflexivity.
    + contradiction.
    + (* IStruct *)
      destruct (mem_str n names) eqn:Em.
      * apply mark_recursive_ok; [assumption | now apply Hfl].
      * destruct (has_struct_find sch n Ht) as [sd [Hfs [Hin Hname]]]. rewrite Hfs.
        apply concat_pr_ok. intros ix Hix. apply In_indexed in Hix.
        apply IHf.
        -- now apply (HS sd Hin).
        -- apply NoDup_snoc; [assumption | now apply mem_str_false_not_In].
        -- apply incl_snoc; [assumption|]. unfold def_names. apply in_app_iff. left.
           rewrite <- Hname. now apply in_map.
        -- rewrite app_length. cbn [length]. lia.
        -- intros Hc. eapply comp_recable_snoc; [now apply Hfl | now apply (HS sd Hin) | exact Hc].
    + (* IMap *)
      destruct (mem_str n names) eqn:Em.
      * apply mark_recursive_ok; [assumption | now apply Hfl].
      * destruct (has_mmap_find sch n Ht) as [md [Hfm [Hin Hname]]]. rewrite Hfm.
        destruct (HM md Hin) as [Hk Hv].
        assert (Hnd' : NoDup (names ++ [n])).
        { apply NoDup_snoc; [assumption | now apply mem_str_false_not_In]. }
        assert (Hincl' : incl (names ++ [n]) (def_names sch)).
        { apply incl_snoc; [assumption|]. unfold def_names. apply in_app_iff. right.
          rewrite <- Hname. now apply in_map. }
        assert (Hfuel' : (length (i_structs sch) + length (i_mmaps sch) + 1 <= f + length (names ++ [n]))%nat).
        { rewrite app_length. cbn [length]. lia. }
        destruct (IHf (names ++ [n]) (fields ++ [(LKey n, im_key md)]) (im_key md) Hk Hnd' Hincl' Hfuel')
          as [a Ha].
        { intros Hc. eapply comp_recable_snoc; [now apply Hfl | exact Hk | exact Hc]. }
        destruct (IHf (names ++ [n]) (fields ++ [(LVal n, im_val md)]) (im_val md) Hv Hnd' Hincl' Hfuel')
          as [b Hb].
        { intros Hc. eapply comp_recable_snoc; [now apply Hfl | exact Hv | exact Hc]. }
        rewrite Ha, Hb. eexists; reflexivity.
    + eexists; reflexivity.
    + (* IArray *)
      apply IHe; [assumption|]. intros _. now apply Hfl.
Qed.

(* ---------- compute_recursive ---------- *)
Theorem compute_recursive_ok : forall sch, sch_resolved sch -> exists marks, compute_recursive sch = POk marks.
Proof.
  intros sch Hres. unfold compute_recursive. apply concat_pr_ok. intros s Hs.
  destruct (is_root s); [|eexists; reflexivity].
  apply crec_type_ok.
  - assumption.
  - cbn [rtype]. now apply In_has_struct.
  - constructor.
  - intros x [].
  - unfold rec_fuel. cbn [length]. lia.
  - intros _. constructor.
Qed.
