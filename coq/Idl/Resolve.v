(* go/pkg/schema/schema.go: ResolveRefs (resolveFieldType, computeRecursive with its panic
   sites), PruneUnused, and the tail of idl.Parser.Parse that calls them.

   Go iterates its maps in random order.  Nothing observable depends on that order except WHICH
   unknown type name is reported first (only the message class is compared): recursion marks are
   only ever set, reachability is a set, every panic aborts the whole call.  The model iterates in
   declaration order.

   computeRecursive keeps only the current PATH in its stack (no global visited set), so it walks
   every acyclic path from every root: exponential in the worst case, in Go and in the model. *)
From Coq Require Import List NArith Bool.
From Stef.Idl Require Import Lexer Ast Parser.
Import ListNotations.
Open Scope N_scope.

Inductive rerr := RUnknown | RAmbiguous.

Definition resolve_name (sch : ischema) (n d : str) : rerr + itype :=
  let s := has_struct sch n in
  let m := has_mmap sch n in
  let e := has_enum sch n in
  match s, m, e with
  | false, false, false => inl RUnknown
  | true, false, false => inr (IStruct n d)
  | false, true, false => inr (IMap n d)
  | false, false, true => inr (IEnum n d)
  | _, _, _ => inl RAmbiguous
  end.

(* resolveFieldType *)
Fixpoint resolve_type (sch : ischema) (t : itype) : rerr + itype :=
  match t with
  | IRef n d | IStruct n d | IMap n d | IEnum n d => resolve_name sch n d
  | IArray e d r =>
    match resolve_type sch e with inl x => inl x | inr e' => inr (IArray e' d r) end
  | INone _ | IPrim _ _ => inr t
  end.

Fixpoint resolve_fields (sch : ischema) (fs : list isfield) : rerr + list isfield :=
  match fs with
  | [] => inr []
  | f :: r =>
    match resolve_type sch (if_type f) with
    | inl x => inl x
    | inr t => match resolve_fields sch r with
               | inl x => inl x
               | inr r' => inr (mkISField (if_name f) t (if_opt f) :: r')
               end
    end
  end.

Fixpoint resolve_structs (sch : ischema) (l : list isdef) : rerr + list isdef :=
  match l with
  | [] => inr []
  | s :: r =>
    match resolve_fields sch (is_fields s) with
    | inl x => inl x
    | inr fs => match resolve_structs sch r with
                | inl x => inl x
                | inr r' => inr (mkISDef (is_name s) (is_oneof s) (is_dict s) (is_root s) fs (is_rec s) :: r')
                end
    end
  end.

Fixpoint resolve_mmaps (sch : ischema) (l : list imdef) : rerr + list imdef :=
  match l with
  | [] => inr []
  | m :: r =>
    match resolve_type sch (im_key m) with
    | inl x => inl x
    | inr k =>
      match resolve_type sch (im_val m) with
      | inl x => inl x
      | inr v => match resolve_mmaps sch r with
                 | inl x => inl x
                 | inr r' => inr (mkIMDef (im_name m) k v (im_rec m) :: r')
                 end
      end
    end
  end.

(* the name-resolution half of ResolveRefs *)
Definition resolve_refs (sch : ischema) : rerr + ischema :=
  match resolve_structs sch (i_structs sch) with
  | inl x => inl x
  | inr ss => match resolve_mmaps sch (i_mmaps sch) with
              | inl x => inl x
              | inr ms => inr (mkISchema (i_pkg sch) ss ms (i_enums sch))
              end
  end.

(* ---------- computeRecursive ---------- *)
Inductive panic_site :=
| PUnknownType            (* computeRecursiveType: panic("unknown type") *)
| PInvalidState           (* markRecursive: panic("invalid state") *)
| PSetRecPrimitive        (* SetRecursive: panic("cannot set recursive on Primitive") *)
| PInvalidFieldType       (* SetRecursive: panic("invalid FieldType") *)
| PNilDef                 (* nil StructDef / MultimapDef dereference *)
| PUnknownFieldType.      (* schemaToStructCountTree: panic("unknown FieldType") *)

Inductive pr (A : Type) := POk (a : A) | PPanic (s : panic_site) | PFuel.
Arguments POk {A} a.
Arguments PPanic {A} s.
Arguments PFuel {A}.

(* where a recursable field lives: struct field i, multimap key, multimap value *)
Inductive floc := LField (owner : str) (idx : nat) | LKey (owner : str) | LVal (owner : str).
Definition floc_eqb (a b : floc) : bool :=
  match a, b with
  | LField o i, LField o' i' => str_eqb o o' && Nat.eqb i i'
  | LKey o, LKey o' => str_eqb o o'
  | LVal o, LVal o' => str_eqb o o'
  | _, _ => false
  end.

Inductive mark := MkStruct (n : str) | MkMap (n : str) | MkArr (l : floc).

(* FieldType.SetRecursive on the field at loc *)
Definition set_recursive (lt : floc * itype) : pr mark :=
  match snd lt with
  | IPrim _ _ | IEnum _ _ => PPanic PSetRecPrimitive
  | IArray _ _ _ => POk (MkArr (fst lt))
  | IStruct n _ => POk (MkStruct n)
  | IMap n _ => POk (MkMap n)
  | INone _ | IRef _ _ => PPanic PInvalidFieldType
  end.

Fixpoint map_pr {A B} (g : A -> pr B) (l : list A) : pr (list B) :=
  match l with
  | [] => POk []
  | x :: r => match g x with
              | POk b => match map_pr g r with POk bs => POk (b :: bs) | PPanic s => PPanic s | PFuel => PFuel end
              | PPanic s => PPanic s
              | PFuel => PFuel
              end
  end.

Fixpoint concat_pr {A B} (g : A -> pr (list B)) (l : list A) : pr (list B) :=
  match l with
  | [] => POk []
  | x :: r => match g x with
              | POk b => match concat_pr g r with POk bs => POk (b ++ bs) | PPanic s => PPanic s | PFuel => PFuel end
              | PPanic s => PPanic s
              | PFuel => PFuel
              end
  end.

(* findLast *)
Fixpoint find_last (names : list str) (n : str) : option nat :=
  match names with
  | [] => None
  | x :: r => match find_last r n with
              | Some i => Some (S i)
              | None => if str_eqb x n then Some O else None
              end
  end.

(* markRecursive *)
Definition mark_recursive (n : str) (names : list str) (fields : list (floc * itype)) : pr (list mark) :=
  match find_last names n with
  | None => PPanic PInvalidState
  | Some i => map_pr set_recursive (skipn i fields)
  end.

Fixpoint indexed {A} (i : nat) (l : list A) : list (nat * A) :=
  match l with [] => [] | x :: r => (i, x) :: indexed (S i) r end.

Section Rec.
  Variable sch : ischema.

  (* computeRecursiveType with computeRecursiveStruct / computeRecursiveMultimap inlined;
     names = stack.asStack (= the keys of asMap), fields = stack.fields; fuel = depth *)
  Fixpoint crec_type (fuel : nat) (names : list str) (fields : list (floc * itype)) (t : itype)
    : pr (list mark) :=
    match fuel with
    | O => PFuel
    | S f =>
      (fix go (t : itype) : pr (list mark) :=
         match t with
         | IPrim _ _ | IEnum _ _ => POk []
         | IStruct n _ =>
           if mem_str n names then mark_recursive n names fields
           else match find_struct (i_structs sch) n with
                | None => PPanic PNilDef
                | Some sd =>
                  concat_pr (fun ix : nat * isfield =>
                               crec_type f (names ++ [n]) (fields ++ [(LField n (fst ix), if_type (snd ix))])
                                         (if_type (snd ix)))
                            (indexed O (is_fields sd))
                end
         | IRef n _ =>
           if mem_str n names then mark_recursive n names fields else PPanic PNilDef
         | IMap n _ =>
           if mem_str n names then mark_recursive n names fields
           else match find_mmap (i_mmaps sch) n with
                | None => PPanic PNilDef
                | Some md =>
                  match crec_type f (names ++ [n]) (fields ++ [(LKey n, im_key md)]) (im_key md) with
                  | POk a =>
                    match crec_type f (names ++ [n]) (fields ++ [(LVal n, im_val md)]) (im_val md) with
                    | POk b => POk (a ++ b)
                    | PPanic s => PPanic s
                    | PFuel => PFuel
                    end
                  | PPanic s => PPanic s
                  | PFuel => PFuel
                  end
                end
         | IArray e _ _ => go e
         | INone _ => PPanic PUnknownType
         end) t
    end.

  Definition rec_fuel : nat := S (S (length (i_structs sch) + length (i_mmaps sch))).

  (* computeRecursive: one fresh stack per root struct *)
  Definition compute_recursive : pr (list mark) :=
    concat_pr (fun s : isdef => if is_root s then crec_type rec_fuel [] [] (IStruct (is_name s) []) else POk [])
              (i_structs sch).
End Rec.

Definition struct_marked (marks : list mark) (n : str) : bool :=
  existsb (fun m => match m with MkStruct x => str_eqb x n | _ => false end) marks.
Definition map_marked (marks : list mark) (n : str) : bool :=
  existsb (fun m => match m with MkMap x => str_eqb x n | _ => false end) marks.
Definition arr_marked (marks : list mark) (l : floc) : bool :=
  existsb (fun m => match m with MkArr x => floc_eqb x l | _ => false end) marks.

Definition mark_type (marks : list mark) (l : floc) (t : itype) : itype :=
  match t with
  | IArray e d r => IArray e d (r || arr_marked marks l)
  | _ => t
  end.

Definition apply_marks (sch : ischema) (marks : list mark) : ischema :=
  mkISchema (i_pkg sch)
    (map (fun s => mkISDef (is_name s) (is_oneof s) (is_dict s) (is_root s)
                     (map (fun ix : nat * isfield =>
                             mkISField (if_name (snd ix)) (mark_type marks (LField (is_name s) (fst ix)) (if_type (snd ix)))
                                       (if_opt (snd ix)))
                          (indexed O (is_fields s)))
                     (is_rec s || struct_marked marks (is_name s)))
         (i_structs sch))
    (map (fun m => mkIMDef (im_name m) (mark_type marks (LKey (im_name m)) (im_key m))
                           (mark_type marks (LVal (im_name m)) (im_val m))
                           (im_rec m || map_marked marks (im_name m)))
         (i_mmaps sch))
    (i_enums sch).

(* ---------- PruneUnused ---------- *)
Record rset := mkRset { rs_structs : list str; rs_mmaps : list str; rs_enums : list str }.

Section Reach.
  Variable sch : ischema.

  (* markReachableFromFieldType / FromStruct / FromMultimap; None = out of fuel *)
  Fixpoint reach_type (fuel : nat) (t : itype) (acc : rset) : option rset :=
    match fuel with
    | O => None
    | S f =>
      (fix go (t : itype) (acc : rset) : option rset :=
         match t with
         | IStruct n _ | IRef n _ =>
           if mem_str n (rs_structs acc) then Some acc
           else match find_struct (i_structs sch) n with
                | None => Some acc
                | Some sd =>
                  fold_left (fun (a : option rset) (fl : isfield) =>
                               match a with None => None | Some a => reach_type f (if_type fl) a end)
                            (is_fields sd)
                            (Some (mkRset (n :: rs_structs acc) (rs_mmaps acc) (rs_enums acc)))
                end
         | IMap n _ =>
           if mem_str n (rs_mmaps acc) then Some acc
           else match find_mmap (i_mmaps sch) n with
                | None => Some acc
                | Some md =>
                  match reach_type f (im_key md) (mkRset (rs_structs acc) (n :: rs_mmaps acc) (rs_enums acc)) with
                  | None => None
                  | Some a => reach_type f (im_val md) a
                  end
                end
         | IEnum n _ => Some (mkRset (rs_structs acc) (rs_mmaps acc) (n :: rs_enums acc))
         | IArray e _ _ => go e acc
         | INone _ | IPrim _ _ => Some acc
         end) t acc
    end.

  Definition reach_fuel : nat := S (S (length (i_structs sch) + length (i_mmaps sch))).

  Definition reachable : option rset :=
    fold_left (fun (a : option rset) (s : isdef) =>
                 match a with
                 | None => None
                 | Some a => if is_root s then reach_type reach_fuel (IStruct (is_name s) []) a else Some a
                 end)
              (i_structs sch) (Some (mkRset [] [] [])).
End Reach.

(* sort.Slice by name (names are distinct): insertion sort *)
Fixpoint insert_str (n : str) (l : list str) : list str :=
  match l with
  | [] => [n]
  | x :: r => if str_ltb n x then n :: l else x :: insert_str n r
  end.
Definition sort_str (l : list str) : list str := fold_right insert_str [] l.

(* unused types, as createUnusedWarnings lists them: structs (oneof flag), multimaps, enums *)
Inductive warning := WStruct (n : str) | WOneof (n : str) | WMultimap (n : str) | WEnum (n : str).

Definition prune_unused (sch : ischema) : option (ischema * list warning) :=
  match reachable sch with
  | None => None
  | Some r =>
    let us := filter (fun s => negb (mem_str (is_name s) (rs_structs r))) (i_structs sch) in
    let um := filter (fun m => negb (mem_str (im_name m) (rs_mmaps r))) (i_mmaps sch) in
    let ue := filter (fun e => negb (mem_str (ie_name e) (rs_enums r))) (i_enums sch) in
    let ws := map (fun n => match find_struct us n with
                            | Some s => if is_oneof s then WOneof n else WStruct n
                            | None => WStruct n
                            end) (sort_str (map is_name us)) in
    let wm := map WMultimap (sort_str (map im_name um)) in
    let we := map WEnum (sort_str (map ie_name ue)) in
    Some (mkISchema (i_pkg sch)
            (filter (fun s => mem_str (is_name s) (rs_structs r)) (i_structs sch))
            (filter (fun m => mem_str (im_name m) (rs_mmaps r)) (i_mmaps sch))
            (filter (fun e => mem_str (ie_name e) (rs_enums r)) (i_enums sch)),
          ws ++ wm ++ we)
  end.

(* ---------- idl.Parse ---------- *)
Inductive outcome :=
| OOk (s : ischema) (w : list warning)
| OErr (p : pos) (m : msg)
| OPanic (s : panic_site)
| OFuel.

Definition finish (ts : list token) (sch : ischema) : outcome :=
  match resolve_refs sch with
  | inl RUnknown => OErr (t_pos (cur ts)) MUnknownType
  | inl RAmbiguous => OErr (t_pos (cur ts)) MAmbiguous
  | inr sch1 =>
    match compute_recursive sch1 with
    | PPanic s => OPanic s
    | PFuel => OFuel
    | POk marks =>
      match prune_unused (apply_marks sch1 marks) with
      | None => OFuel
      | Some (sch2, w) => OOk sch2 w
      end
    end
  end.

Definition parse_gen (strict : bool) (input : list N) : outcome :=
  match parse_tokens strict (tokenize input) with
  | Fuel => OFuel
  | Err p m => OErr p m
  | Ok (ts, sch) => finish ts sch
  end.

(* the parser as checked in (after the D7 fix) and as it was before *)
Definition parse (input : list N) : outcome := parse_gen true input.
Definition parse_legacy (input : list N) : outcome := parse_gen false input.
