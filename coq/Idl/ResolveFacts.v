(* Facts about Resolve.v (C12): the panic of the pre-fix parser, absence of panics afterwards. *)
From Coq Require Import List NArith Bool Lia.
From Stef.Idl Require Import Lexer Ast Parser Resolve TokSpec SchemaSpec ParserFacts.
Import ListNotations.
Open Scope N_scope.

(* "package a\nstruct A root { x }" *)
Definition d7_witness_field : list N := [112; 97; 99; 107; 97; 103; 101; 32; 97; 10; 115; 116; 114; 117; 99; 116; 32; 65; 32; 114; 111; 111; 116; 32; 123; 32; 120; 32; 125].
(* "package a\nmultimap M { key value string }\nstruct R root { m M }" *)
Definition d7_witness_key : list N := [112; 97; 99; 107; 97; 103; 101; 32; 97; 10; 109; 117; 108; 116; 105; 109; 97; 112; 32; 77; 32; 123; 32; 107; 101; 121; 32; 118; 97; 108; 117; 101; 32; 115; 116; 114; 105; 110; 103; 32; 125; 10; 115; 116; 114; 117; 99; 116; 32; 82; 32; 114; 111; 111; 116; 32; 123; 32; 109; 32; 77; 32; 125].

(* D7: before the fix a field without a type specifier was accepted and computeRecursiveType
   panicked with "unknown type" *)
Lemma parse_legacy_panics : exists input, parse_legacy input = OPanic PUnknownType.
Proof. exists d7_witness_field. vm_compute. reflexivity. Qed.

Lemma parse_legacy_panics_multimap_key : parse_legacy d7_witness_key = OPanic PUnknownType.
Proof. vm_compute. reflexivity. Qed.

(* ---------- name lookups depend on the names only ---------- *)
Lemma has_struct_in : forall sch n, has_struct sch n = true <-> In n (map is_name (i_structs sch)).
Proof.
  intros sch n. unfold has_struct. induction (i_structs sch) as [|s l IH]; cbn [find_struct map In]; [split; [discriminate|tauto]|].
  destruct (str_eqb (is_name s) n) eqn:E.
  - apply str_eqb_eq in E. split; auto.
  - rewrite IH. split; [auto|]. intros [Ex|H]; [subst; now rewrite str_eqb_refl in E|exact H].
Qed.
Lemma has_mmap_in : forall sch n, has_mmap sch n = true <-> In n (map im_name (i_mmaps sch)).
Proof.
  intros sch n. unfold has_mmap. induction (i_mmaps sch) as [|s l IH]; cbn [find_mmap map In]; [split; [discriminate|tauto]|].
  destruct (str_eqb (im_name s) n) eqn:E.
  - apply str_eqb_eq in E. split; auto.
  - rewrite IH. split; [auto|]. intros [Ex|H]; [subst; now rewrite str_eqb_refl in E|exact H].
Qed.
Lemma has_enum_in : forall sch n, has_enum sch n = true <-> In n (map ie_name (i_enums sch)).
Proof.
  intros sch n. unfold has_enum. induction (i_enums sch) as [|s l IH]; cbn [find_enum map In]; [split; [discriminate|tauto]|].
  destruct (str_eqb (ie_name s) n) eqn:E.
  - apply str_eqb_eq in E. split; auto.
  - rewrite IH. split; [auto|]. intros [Ex|H]; [subst; now rewrite str_eqb_refl in E|exact H].
Qed.

Definition same_names (a b : ischema) : Prop :=
  map is_name (i_structs a) = map is_name (i_structs b) /\
  map im_name (i_mmaps a) = map im_name (i_mmaps b) /\
  map ie_name (i_enums a) = map ie_name (i_enums b).

Lemma rtype_same_names : forall a b t, same_names a b -> rtype a t -> rtype b t.
Proof.
  intros a b t [H1 [H2 H3]]. induction t; cbn [rtype]; auto.
  - intros H. apply has_struct_in. rewrite <- H1. now apply has_struct_in.
  - intros H. apply has_mmap_in. rewrite <- H2. now apply has_mmap_in.
  - intros H. apply has_enum_in. rewrite <- H3. now apply has_enum_in.
Qed.

(* ---------- resolveFieldType ---------- *)
Lemma resolve_base : forall sch t t', base_shape t -> resolve_type sch t = inr t' ->
  rtype sch t' /\ match t' with IArray _ _ _ => False | _ => True end.
Proof.
  intros sch t t' Hs H. destruct t; cbn [base_shape] in Hs; try contradiction; cbn [resolve_type] in H.
  - inversion H; subst. cbn. auto.
  - unfold resolve_name in H.
    destruct (has_struct sch n) eqn:E1, (has_mmap sch n) eqn:E2, (has_enum sch n) eqn:E3; inversion H; subst; cbn [rtype]; auto.
Qed.

Lemma resolve_shape : forall sch t t', shape t -> resolve_type sch t = inr t' -> rtype sch t'.
Proof.
  intros sch t t' Hs H. destruct t; cbn [shape] in Hs; try contradiction.
  - apply (resolve_base sch (IPrim p d)); [exact I|exact H].
  - apply (resolve_base sch (IRef n d)); [exact I|exact H].
  - cbn [resolve_type] in H. destruct (resolve_type sch t) as [x|e'] eqn:E; [discriminate|].
    inversion H; subst. cbn [rtype]. apply (resolve_base sch t e' Hs E).
Qed.

Lemma resolve_fields_spec : forall sch fs fs', resolve_fields sch fs = inr fs' ->
  map if_name fs' = map if_name fs /\
  (Forall (fun f => shape (if_type f)) fs -> forall f, In f fs' -> rtype sch (if_type f)).
Proof.
  intros sch. induction fs as [|f fs IH]; intros fs' H; cbn [resolve_fields] in H.
  - inversion H; subst. split; [reflexivity|intros _ f []].
  - destruct (resolve_type sch (if_type f)) as [x|t] eqn:Et; [discriminate|].
    destruct (resolve_fields sch fs) as [x|r'] eqn:Er; [discriminate|].
    inversion H; subst. destruct (IH r' eq_refl) as [Hn Hr]. split.
    + cbn [map if_name]. now rewrite Hn.
    + intros Hall g [Eg|Hg]; inversion Hall; subst.
      * cbn [if_type]. eapply resolve_shape; eassumption.
      * auto.
Qed.

Definition srel (sch : ischema) (b : bool) (sd sd' : isdef) : Prop :=
  is_name sd' = is_name sd /\ is_root sd' = is_root sd /\
  map if_name (is_fields sd') = map if_name (is_fields sd) /\
  (b = true -> forall f, In f (is_fields sd') -> rtype sch (if_type f)).

Lemma resolve_structs_spec : forall sch b l l', Forall (struct_ok b) l -> resolve_structs sch l = inr l' ->
  Forall2 (srel sch b) l l'.
Proof.
  intros sch b. induction l as [|s l IH]; intros l' Hall H; cbn [resolve_structs] in H.
  - inversion H; subst. constructor.
  - destruct (resolve_fields sch (is_fields s)) as [x|fs] eqn:Ef; [discriminate|].
    destruct (resolve_structs sch l) as [x|r'] eqn:Er; [discriminate|].
    inversion H; subst. inversion Hall as [|? ? Hs Hl]; subst.
    constructor; [|apply IH; auto].
    destruct (resolve_fields_spec _ _ _ Ef) as [Hn Hr].
    unfold srel. cbn [is_name is_root is_fields]. repeat split; auto.
    intros Hb. apply Hr. destruct Hs as [[_ Hsh] _]. auto.
Qed.

Definition mrel (sch : ischema) (b : bool) (md md' : imdef) : Prop :=
  im_name md' = im_name md /\ (b = true -> rtype sch (im_key md') /\ rtype sch (im_val md')).

Lemma resolve_mmaps_spec : forall sch b l l', Forall (mmap_ok b) l -> resolve_mmaps sch l = inr l' ->
  Forall2 (mrel sch b) l l'.
Proof.
  intros sch b. induction l as [|m l IH]; intros l' Hall H; cbn [resolve_mmaps] in H.
  - inversion H; subst. constructor.
  - destruct (resolve_type sch (im_key m)) as [x|k] eqn:Ek; [discriminate|].
    destruct (resolve_type sch (im_val m)) as [x|v] eqn:Ev; [discriminate|].
    destruct (resolve_mmaps sch l) as [x|r'] eqn:Er; [discriminate|].
    inversion H; subst. inversion Hall as [|? ? Hm Hl]; subst.
    constructor; [|apply IH; auto].
    unfold mrel. cbn [im_name im_key im_val]. split; [reflexivity|].
    intros Hb. destruct Hm as [Hsh _]. destruct (Hsh Hb) as [Hk Hv].
    split; [exact (resolve_shape _ _ _ Hk Ek)|exact (resolve_shape _ _ _ Hv Ev)].
Qed.

Lemma Forall2_map_eq : forall A B C (R : A -> B -> Prop) (f : A -> C) (g : B -> C) l l',
  Forall2 R l l' -> (forall a b, R a b -> g b = f a) -> map g l' = map f l.
Proof. induction 1; intros Hf; cbn [map]; [reflexivity|]. rewrite (Hf _ _ H), IHForall2; auto. Qed.

Lemma Forall2_in_r : forall A B (R : A -> B -> Prop) l l' b, Forall2 R l l' -> In b l' -> exists a, In a l /\ R a b.
Proof.
  induction 1; intros Hin; [destruct Hin|]. destruct Hin as [E|Hin].
  - subst. eexists; split; [left; reflexivity|assumption].
  - destruct (IHForall2 Hin) as [a [Ha Hr]]. exists a. split; [right; exact Ha|exact Hr].
Qed.

(* what ResolveRefs (its name-resolution half) establishes on the parser's output *)
Theorem resolve_refs_ok : forall sch sch1, sch_ok true sch -> resolve_refs sch = inr sch1 ->
  sch_resolved sch1 /\ NoDup (top_names sch1) /\ Forall struct_wf (i_structs sch1) /\ i_pkg sch1 = i_pkg sch.
Proof.
  intros sch sch1 [Hnd [Hs Hm]] H. unfold resolve_refs in H.
  destruct (resolve_structs sch (i_structs sch)) as [x|ss] eqn:Es; [discriminate|].
  destruct (resolve_mmaps sch (i_mmaps sch)) as [x|ms] eqn:Em; [discriminate|].
  inversion H; subst sch1. clear H.
  pose proof (resolve_structs_spec sch true _ _ Hs Es) as Hss.
  pose proof (resolve_mmaps_spec sch true _ _ Hm Em) as Hms.
  assert (Hsame : same_names sch (mkISchema (i_pkg sch) ss ms (i_enums sch))).
  { unfold same_names. cbn [i_structs i_mmaps i_enums]. split; [|split; [|reflexivity]]; symmetry.
    - eapply Forall2_map_eq; [exact Hss|]. intros a b [E _]. exact E.
    - eapply Forall2_map_eq; [exact Hms|]. intros a b [E _]. exact E. }
  split; [|split; [|split; [|reflexivity]]].
  - split; cbn [i_structs i_mmaps].
    + intros sd Hsd f Hf. destruct (Forall2_in_r _ _ _ _ _ _ Hss Hsd) as [sd0 [_ [_ [_ [_ Hr]]]]].
      eapply rtype_same_names; [exact Hsame|]. apply Hr; auto.
    + intros md Hmd. destruct (Forall2_in_r _ _ _ _ _ _ Hms Hmd) as [md0 [_ [_ Hr]]].
      destruct (Hr eq_refl). split; eapply rtype_same_names; eauto.
  - destruct Hsame as [E1 [E2 E3]]. unfold top_names in *. cbn [i_structs i_mmaps i_enums] in *. rewrite <- E1, <- E2. exact Hnd.
  - cbn [i_structs]. apply Forall_forall. intros sd Hsd.
    destruct (Forall2_in_r _ _ _ _ _ _ Hss Hsd) as [sd0 [Hin0 [_ [Hroot [Hnames _]]]]].
    rewrite Forall_forall in Hs. destruct (Hs sd0 Hin0) as [[Hndf _] [Hr _]].
    split.
    + rewrite Hnames. exact Hndf.
    + rewrite Hroot. intros Hrt Hnil. apply (Hr Hrt).
      destruct (is_fields sd0); [reflexivity|]. rewrite Hnil in Hnames. discriminate.
Qed.

(* ---------- apply_marks keeps everything but the recursive flags ---------- *)
Lemma indexed_map_names : forall (g : nat * isfield -> isfield) fs i,
  (forall ix, if_name (g ix) = if_name (snd ix)) ->
  map if_name (map g (indexed i fs)) = map if_name fs.
Proof.
  intros g. induction fs as [|f fs IH]; intros i Hg; cbn [indexed map]; [reflexivity|].
  rewrite Hg. cbn [snd]. now rewrite IH.
Qed.

Lemma mark_type_rtype : forall sch marks l t, rtype sch t -> rtype sch (mark_type marks l t).
Proof. intros sch marks l t H. destruct t; cbn [mark_type rtype] in *; auto. Qed.

Lemma indexed_in : forall A (l : list A) i ix, In ix (indexed i l) -> In (snd ix) l.
Proof.
  induction l as [|x l IH]; intros i ix H; cbn [indexed In] in *; [contradiction|].
  destruct H as [E|H]; [subst; left; reflexivity|right; eapply IH; exact H].
Qed.

Theorem apply_marks_ok : forall sch marks,
  sch_resolved sch -> NoDup (top_names sch) -> Forall struct_wf (i_structs sch) ->
  sch_resolved (apply_marks sch marks) /\ NoDup (top_names (apply_marks sch marks)) /\
  Forall struct_wf (i_structs (apply_marks sch marks)) /\ i_pkg (apply_marks sch marks) = i_pkg sch.
Proof.
  intros sch marks [Hrs Hrm] Hnd Hwf.
  assert (Hsame : same_names sch (apply_marks sch marks)).
  { unfold same_names, apply_marks. cbn [i_structs i_mmaps i_enums]. rewrite !map_map. cbn [is_name im_name]. auto. }
  split; [|split; [|split; [|reflexivity]]].
  - split.
    + intros sd Hsd f Hf. unfold apply_marks in Hsd. cbn [i_structs] in Hsd.
      apply in_map_iff in Hsd. destruct Hsd as [sd0 [E Hin0]]. subst sd. cbn [is_fields] in Hf.
      apply in_map_iff in Hf. destruct Hf as [ix [E Hix]]. subst f. cbn [if_type].
      eapply rtype_same_names; [exact Hsame|]. apply mark_type_rtype. eapply Hrs; [exact Hin0|].
      eapply indexed_in. exact Hix.
    + intros md Hmd. unfold apply_marks in Hmd. cbn [i_mmaps] in Hmd.
      apply in_map_iff in Hmd. destruct Hmd as [md0 [E Hin0]]. subst md. cbn [im_key im_val].
      destruct (Hrm md0 Hin0). split; (eapply rtype_same_names; [exact Hsame|]); apply mark_type_rtype; assumption.
  - destruct Hsame as [E1 [E2 E3]]. unfold top_names. rewrite <- E1, <- E2, <- E3. exact Hnd.
  - unfold apply_marks. cbn [i_structs]. apply Forall_forall. intros sd Hsd.
    apply in_map_iff in Hsd. destruct Hsd as [sd0 [E Hin0]]. subst sd.
    rewrite Forall_forall in Hwf. destruct (Hwf sd0 Hin0) as [Hn Hr].
    unfold struct_wf. cbn [is_fields is_root]. split.
    + rewrite indexed_map_names; [exact Hn|reflexivity].
    + intros Hrt Hnil. apply (Hr Hrt). destruct (is_fields sd0); [reflexivity|discriminate Hnil].
Qed.
