(* Facts about Resolve.v (C12): the panic of the pre-fix parser, absence of panics afterwards. *)
From Coq Require Import List NArith Bool Lia.
From Stef.Idl Require Import Lexer Ast Parser Resolve.
Import ListNotations.
Open Scope N_scope.

(* "package a\nstruct A root { x }" *)
Definition d7_witness_field : list N := [112; 97; 99; 107; 97; 103; 101; 32; 97; 10; 115; 116; 114; 117; 99; 116; 32; 65; 32; 114; 111; 111; 116; 32; 123; 32; 120; 32; 125].
(* "package a\nmultimap M { key value string }\nstruct R root { m M }" *)
Definition d7_witness_key : list N := [112; 97; 99; 107; 97; 103; 101; 32; 97; 10; 109; 117; 108; 116; 105; 109; 97; 112; 32; 77; 32; 123; 32; 107; 101; 121; 32; 118; 97; 108; 117; 101; 32; 115; 116; 114; 105; 110; 103; 32; 125; 10; 115; 116; 114; 117; 99; 116; 32; 82; 32; 114; 111; 111; 116; 32; 123; 32; 109; 32; 77; 32; 125].

(* D7: before the fix a field without a type specifier was accepted and computeRecursiveType
   panicked with "unknown type" *)
Lemma parse_legacy_panics : exists input, parse_legacy input = OPanic PUnknownType.
Proof. exists d7_witness_field. vm_compute. reflexivity. Qed.

Lemma parse_legacy_panics_multimap_key : parse_legacy d7_witness_key = OPanic PUnknownType.
Proof. vm_compute. reflexivity. Qed.
