(* Definitions for the print/parse round trip (C13): no proofs.

   * atok / erase: what the parser reads of a token on its success paths (kind, identifier text,
     number); positions and lexer error classes are erased.
   * piece / render / toks: the printed text as a sequence of lexemes and separators.  pc_schema
     mirrors Printer.print function by function; RoundTripLex.print_pieces proves
     print s = render (pc_schema s) for EVERY schema, and schema_tokens s := toks (pc_schema s) is
     the token sequence the text stands for.
   * lexable: the boolean condition under which the lexer returns exactly schema_tokens.
   * printable: the boolean condition under which the parser accepts schema_tokens and returns
     ast_schema (the unresolved schema in print order).
   * canon: the schema with its definitions in print order (ascending name). *)
From Coq Require Import List NArith Bool.
From Stef.Idl Require Import Unicode Lexer Ast Parser Resolve Printer.
Import ListNotations.
Open Scope N_scope.

(* ---------- tokens without position ---------- *)
Record atok := mkA { a_kind : tkind; a_ident : str; a_num : N }.
Definition erase (t : token) : atok := mkA (t_kind t) (t_ident t) (t_num t).
Definition a_eof : atok := mkA TkEOF [] 0.

(* ---------- pieces ---------- *)
Inductive piece :=
| PSp (c : N)                 (* white space *)
| PPu (c : N) (k : tkind)     (* punctuation *)
| PWord (w : str)             (* identifier or keyword *)
| PNum (n : N).               (* %d *)

Definition render1 (p : piece) : str :=
  match p with PSp c => [c] | PPu c _ => [c] | PWord w => w | PNum n => decimal n end.
Definition render (ps : list piece) : str := flat_map render1 ps.

Definition word_kind (w : str) : tkind := match keyword w with Some k => k | None => TkIdent end.
Definition tok1 (p : piece) : list atok :=
  match p with
  | PSp _ => []
  | PPu _ k => [mkA k [] 0]
  | PWord w => [mkA (word_kind w) w 0]
  | PNum n => [mkA TkIntNumber [] n]
  end.
Definition toks (ps : list piece) : list atok := flat_map tok1 ps.

Definition word_ok (w : str) : bool :=
  match w with [] => false | c :: r => is_letter c && forallb ident_char r end.

Definition piece_ok (p : piece) : bool :=
  match p with
  | PSp c => (c =? 32) || (c =? 10)
  | PPu c k => match punct c with Some k' => tkind_eqb k k' | None => false end
  | PWord w => word_ok w
  | PNum n => n <=? max_u64
  end.

Definition needs_sep (p : piece) : bool := match p with PWord _ | PNum _ => true | _ => false end.
Definition is_sep (p : piece) : bool := match p with PSp _ | PPu _ _ => true | _ => false end.
Definition first_safe (ps : list piece) (after : bool) : bool :=
  match ps with [] => after | p :: _ => is_sep p end.

(* every piece is well formed and every word/number is followed by a separator; `after` says
   whether what follows the list starts with one *)
Fixpoint good (ps : list piece) (after : bool) : bool :=
  match ps with
  | [] => true
  | p :: r => piece_ok p && (if needs_sep p then first_safe r after else true) && good r after
  end.

(* ---------- the printer, piece by piece ---------- *)
Definition sp : piece := PSp 32.
Definition pnl : piece := PSp 10.
Definition pLB : piece := PPu 123 TkLBrace.
Definition pRB : piece := PPu 125 TkRBrace.

Fixpoint pjoin (sep : list piece) (l : list (list piece)) : list piece :=
  match l with
  | [] => []
  | [x] => x
  | x :: r => x ++ sep ++ pjoin sep r
  end.

Definition pc_dict (d : str) : list piece :=
  match d with
  | [] => []
  | _ => [sp; PWord S_dict; PPu 40 TkLParen; PWord d; PPu 41 TkRParen]
  end.

Fixpoint pc_type (t : itype) : list piece :=
  match t with
  | IPrim p _ => [PWord (prim_name p)]
  | IEnum n _ => [PWord n]
  | IArray e _ _ => [PPu 91 TkLBracket; PPu 93 TkRBracket] ++ pc_type e ++ pc_dict (it_dict e)
  | IStruct n _ | IRef n _ => [PWord n]
  | IMap n _ => [PWord n]
  | INone _ => [PWord S_unknown]
  end.

Definition pc_field (f : isfield) : list piece :=
  [PWord (if_name f); sp] ++ pc_type (if_type f) ++ pc_dict (it_dict (if_type f))
  ++ (if if_opt f then [sp; PWord S_optional] else []).

Definition pc_struct (s : isdef) : list piece :=
  (if is_oneof s then [PWord S_oneof; sp; PWord (is_name s); sp; pLB]
   else [PWord S_struct; sp; PWord (is_name s)] ++ pc_dict (is_dict s)
        ++ (if is_root s then [sp; PWord S_root] else []) ++ [sp; pLB])
  ++ flat_map (fun f => [pnl; sp; sp] ++ pc_field f) (is_fields s)
  ++ [pnl; pRB].

Definition pc_multimap (m : imdef) : list piece :=
  [PWord S_multimap; sp; PWord (im_name m); sp; pLB; pnl; sp; sp; PWord S_key; sp]
  ++ pc_type (im_key m) ++ pc_dict (it_dict (im_key m))
  ++ [pnl; sp; sp; PWord S_value; sp]
  ++ pc_type (im_val m) ++ pc_dict (it_dict (im_val m)) ++ [pnl; pRB].

Definition pc_enum_field (f : str * N) : list piece :=
  [pnl; sp; sp; PWord (fst f); sp; PPu 61 TkAssign; sp; PNum (snd f)].

Definition pc_enum (e : iedef) : list piece :=
  [PWord S_enum; sp; PWord (ie_name e); sp; pLB]
  ++ flat_map pc_enum_field (ie_fields e) ++ [pnl; pRB].

Definition pc_pkg (pkg : list str) : list piece :=
  [PWord S_package; sp] ++ pjoin [PPu 46 TkDot] (map (fun c => [PWord c]) pkg).

Definition pc_defs (es : list iedef) (ms : list imdef) (ss : list isdef) : list (list piece) :=
  map pc_enum es ++ map pc_multimap ms ++ map pc_struct ss.

Definition pc_schema (sch : ischema) : list piece :=
  pjoin [pnl; pnl]
        (pc_pkg (i_pkg sch) :: pc_defs (sorted_enums sch) (sorted_mmaps sch) (sorted_structs sch)).

(* the token sequence the printed text stands for (without the final EOF) *)
Definition schema_tokens (sch : ischema) : list atok := toks (pc_schema sch).

(* ---------- lexable ---------- *)
Definition dict_lex (d : str) : bool := match d with [] => true | _ => word_ok d end.

Fixpoint type_lex (t : itype) : bool :=
  match t with
  | INone _ | IPrim _ _ => true
  | IRef n _ | IStruct n _ | IMap n _ | IEnum n _ => word_ok n
  | IArray e _ _ => type_lex e && dict_lex (it_dict e)
  end.

Definition ftype_lex (t : itype) : bool := type_lex t && dict_lex (it_dict t).
Definition field_lex (f : isfield) : bool := word_ok (if_name f) && ftype_lex (if_type f).
Definition struct_lex (s : isdef) : bool :=
  word_ok (is_name s) && dict_lex (is_dict s) && forallb field_lex (is_fields s).
Definition mmap_lex (m : imdef) : bool :=
  word_ok (im_name m) && ftype_lex (im_key m) && ftype_lex (im_val m).
Definition efield_lex (f : str * N) : bool := word_ok (fst f) && (snd f <=? max_u64).
Definition enum_lex (e : iedef) : bool := word_ok (ie_name e) && forallb efield_lex (ie_fields e).

Definition lexable (sch : ischema) : bool :=
  forallb word_ok (i_pkg sch) && forallb struct_lex (i_structs sch)
  && forallb mmap_lex (i_mmaps sch) && forallb enum_lex (i_enums sch).

(* ---------- printable ---------- *)
Definition ident_ok (w : str) : bool :=
  word_ok w && match keyword w with None => true | Some _ => false end.
Definition dict_ok (d : str) : bool := match d with [] => true | _ => ident_ok d end.
Definition is_nil {A} (l : list A) : bool := match l with [] => true | _ => false end.

(* what may follow "[]" or stand alone as a field type *)
Definition base_ok (t : itype) : bool :=
  match t with
  | IPrim p d => is_nil d || (ident_ok d && negb (dict_forbidden t))
  | IRef n d | IStruct n d | IMap n d | IEnum n d => ident_ok n && dict_ok d
  | IArray _ _ _ | INone _ => false
  end.

(* inmap: a multimap key/value may carry a second dict modifier (the array's own), a struct field
   may not *)
Definition ftype_ok (inmap : bool) (t : itype) : bool :=
  match t with
  | IArray e d _ => base_ok e && (is_nil d || (inmap && ident_ok d && negb (is_nil (it_dict e))))
  | _ => base_ok t
  end.

Fixpoint nodup_str (l : list str) : bool :=
  match l with [] => true | x :: r => negb (mem_str x r) && nodup_str r end.

Definition field_ok (f : isfield) : bool := ident_ok (if_name f) && ftype_ok false (if_type f).

Definition struct_pr (s : isdef) : bool :=
  ident_ok (is_name s)
  && (if is_oneof s then is_nil (is_dict s) && negb (is_root s)
      else is_nil (is_dict s) || (ident_ok (is_dict s) && negb (is_root s)))
  && (negb (is_root s) || negb (is_nil (is_fields s)))
  && nodup_str (map if_name (is_fields s))
  && forallb field_ok (is_fields s).

Definition mmap_pr (m : imdef) : bool :=
  ident_ok (im_name m) && ftype_ok true (im_key m) && ftype_ok true (im_val m).

Definition efield_ok (f : str * N) : bool := ident_ok (fst f) && (snd f <=? max_u64).
Definition enum_pr (e : iedef) : bool := ident_ok (ie_name e) && forallb efield_ok (ie_fields e).

Definition all_names (sch : ischema) : list str :=
  map is_name (i_structs sch) ++ map im_name (i_mmaps sch) ++ map ie_name (i_enums sch).

Definition printable (sch : ischema) : bool :=
  negb (is_nil (i_pkg sch)) && forallb ident_ok (i_pkg sch)
  && forallb struct_pr (i_structs sch) && forallb mmap_pr (i_mmaps sch) && forallb enum_pr (i_enums sch)
  && nodup_str (all_names sch)
  && negb (is_nil (all_names sch)).

(* ---------- what the parser builds from the printed text ---------- *)
Definition ast_base (t : itype) : itype :=
  match t with
  | IRef n d | IStruct n d | IMap n d | IEnum n d => IRef n d
  | _ => t
  end.
Definition ast_type (t : itype) : itype :=
  match t with
  | IArray e d _ => IArray (ast_base e) d false
  | _ => ast_base t
  end.
Definition ast_field (f : isfield) : isfield := mkISField (if_name f) (ast_type (if_type f)) (if_opt f).
Definition ast_struct (s : isdef) : isdef :=
  mkISDef (is_name s) (is_oneof s) (is_dict s) (is_root s) (map ast_field (is_fields s)) false.
Definition ast_mmap (m : imdef) : imdef :=
  mkIMDef (im_name m) (ast_type (im_key m)) (ast_type (im_val m)) false.
Definition ast_schema (sch : ischema) : ischema :=
  mkISchema (i_pkg sch) (map ast_struct (sorted_structs sch)) (map ast_mmap (sorted_mmaps sch))
            (sorted_enums sch).

(* the definitions in print order *)
Definition canon (sch : ischema) : ischema :=
  mkISchema (i_pkg sch) (sorted_structs sch) (sorted_mmaps sch) (sorted_enums sch).

Definition has_root (sch : ischema) : bool := existsb is_root (i_structs sch).
