(* C13: the print-order form `canon s` of a schema is the same schema (same package, same
   definition under every name), printing does not see the difference, and canon is idempotent;
   so the schema read back from the printed text is the original up to the order in which the
   model lists the entries of Go's maps, and a second round trip is exact. *)
From Coq Require Import List NArith ZArith Bool Lia ZifyN ZifyNat ZifyBool Arith.
From Stef.Idl Require Import Unicode Lexer Ast Parser Resolve Printer SchemaSpec ParserFacts ResolveFacts RecFacts
  PruneFacts ParseFacts RoundTripBase RoundTripLex RoundTripParse RoundTripResolve RoundTripThm RoundTripStable
  RoundTripInv.
Import ListNotations.
Open Scope N_scope.

(* ---------- insertion sort yields a strictly ascending list ---------- *)
Lemma str_ltb_trich : forall a b, str_ltb a b = false -> a <> b -> str_ltb b a = true.
Proof.
  induction a as [|x a IH]; intros [|y b] H Hne; cbn [str_ltb] in *; try reflexivity; try discriminate.
  - contradiction.
  - destruct (x <? y) eqn:E1; [discriminate|]. destruct (y <? x) eqn:E2; [reflexivity|].
    assert (x = y) by lia. subst y. apply IH; [exact H | congruence].
Qed.

Fixpoint ascending (l : list str) : Prop :=
  match l with
  | x :: (y :: _) as r => str_ltb x y = true /\ ascending r
  | _ => True
  end.

Lemma insert_ascending : forall n l, ascending l -> ~ In n l -> ascending (insert_str n l).
Proof.
  intros n. induction l as [|x l IH]; intros Ha Hn; [exact I|].
  cbn [insert_str]. destruct (str_ltb n x) eqn:E; [split; assumption|].
  assert (Hxn : str_ltb x n = true).
  { apply str_ltb_trich; [exact E|]. intros ->. apply Hn. now left. }
  assert (Hn' : ~ In n l) by (intros Hx; apply Hn; now right).
  destruct l as [|y l]; [cbn [insert_str]; split; [exact Hxn | exact I]|].
  destruct Ha as [Hxy Ha]. specialize (IH Ha Hn'). cbn [insert_str] in *.
  destruct (str_ltb n y); split; assumption.
Qed.

Lemma sort_ascending : forall l, NoDup l -> ascending (sort_str l).
Proof.
  induction l as [|x l IH]; intros H; [exact I|]. inversion H; subst.
  cbn [sort_str fold_right]. fold (sort_str l). apply insert_ascending; [auto | rewrite In_sort_str; assumption].
Qed.

Lemma sort_of_ascending : forall l, ascending l -> sort_str l = l.
Proof.
  induction l as [|x l IH]; intros H; [reflexivity|].
  cbn [sort_str fold_right]. fold (sort_str l).
  destruct l as [|y l]; [reflexivity|]. destruct H as [Hxy H]. rewrite (IH H). cbn [insert_str]. rewrite Hxy. reflexivity.
Qed.

Lemma sort_sort : forall l, NoDup l -> sort_str (sort_str l) = sort_str l.
Proof. intros l H. apply sort_of_ascending, sort_ascending, H. Qed.

(* ---------- canon ---------- *)
Lemma flat_map_ext_in : forall A B (f g : A -> list B) l, (forall x, In x l -> f x = g x) -> flat_map f l = flat_map g l.
Proof.
  intros A B f g l H. induction l as [|x l IH]; [reflexivity|]. cbn [flat_map].
  rewrite (H x) by (now left). rewrite IH by (intros; apply H; now right). reflexivity.
Qed.

Lemma find_enum_canon : forall X n, NoDup (map ie_name (i_enums X)) ->
  find_enum (sorted_enums X) n = find_enum (i_enums X) n.
Proof.
  intros X n Hnd. destruct (find_enum (i_enums X) n) as [sd|] eqn:E.
  - destruct (find_enum_Some _ _ _ E) as [Hin <-].
    apply find_enum_nodup; [|apply sorted_enums_in_conv; assumption].
    rewrite sorted_enums_names. apply NoDup_sort_str. exact Hnd.
  - destruct (find_enum (sorted_enums X) n) as [sd'|] eqn:E'; [|reflexivity].
    destruct (find_enum_Some _ _ _ E') as [Hin <-]. apply sorted_enums_in in Hin.
    apply find_enum_none in E. exfalso. apply E. apply in_map. exact Hin.
Qed.

Section Canon.
  Variable s : ischema.
  Hypothesis Hnd : NoDup (top_names s).

  Let nds : NoDup (map is_name (i_structs s)).
  Proof. unfold top_names in Hnd. eapply NoDup_app_l; eauto. Qed.
  Let ndm : NoDup (map im_name (i_mmaps s)).
  Proof. unfold top_names in Hnd. apply NoDup_app_r in Hnd. eapply NoDup_app_l; eauto. Qed.
  Let nde : NoDup (map ie_name (i_enums s)).
  Proof. unfold top_names in Hnd. apply NoDup_app_r in Hnd. eapply NoDup_app_r; eauto. Qed.

  Lemma sorted_structs_canon : sorted_structs (canon s) = sorted_structs s.
  Proof.
    unfold sorted_structs at 1. cbn [canon i_structs]. rewrite sorted_structs_names, sort_sort by exact nds.
    unfold sorted_structs at 2. apply flat_map_ext_in. intros n _. rewrite find_struct_canon by exact nds. reflexivity.
  Qed.
  Lemma sorted_mmaps_canon : sorted_mmaps (canon s) = sorted_mmaps s.
  Proof.
    unfold sorted_mmaps at 1. cbn [canon i_mmaps]. rewrite sorted_mmaps_names, sort_sort by exact ndm.
    unfold sorted_mmaps at 2. apply flat_map_ext_in. intros n _. rewrite find_mmap_canon by exact ndm. reflexivity.
  Qed.
  Lemma sorted_enums_canon : sorted_enums (canon s) = sorted_enums s.
  Proof.
    unfold sorted_enums at 1. cbn [canon i_enums]. rewrite sorted_enums_names, sort_sort by exact nde.
    unfold sorted_enums at 2. apply flat_map_ext_in. intros n _. rewrite find_enum_canon by exact nde. reflexivity.
  Qed.

  Lemma canon_idem : canon (canon s) = canon s.
  Proof.
    unfold canon at 1. rewrite sorted_structs_canon, sorted_mmaps_canon, sorted_enums_canon. reflexivity.
  Qed.

  Lemma print_canon : print (canon s) = print s.
  Proof.
    unfold print, print_gen. rewrite sorted_structs_canon, sorted_mmaps_canon, sorted_enums_canon. reflexivity.
  Qed.
End Canon.

(* the same schema, seen as Go sees it: a package name and three maps from names to definitions *)
Definition schema_equiv (a b : ischema) : Prop :=
  i_pkg a = i_pkg b /\
  (forall n, find_struct (i_structs a) n = find_struct (i_structs b) n) /\
  (forall n, find_mmap (i_mmaps a) n = find_mmap (i_mmaps b) n) /\
  (forall n, find_enum (i_enums a) n = find_enum (i_enums b) n) /\
  length (i_structs a) = length (i_structs b) /\ length (i_mmaps a) = length (i_mmaps b) /\
  length (i_enums a) = length (i_enums b).

Lemma length_sorted_enums : forall X, length (sorted_enums X) = length (i_enums X).
Proof. intros X. rewrite <- (map_length ie_name), sorted_enums_names, length_sort_str, map_length. reflexivity. Qed.

Lemma canon_equiv : forall s, NoDup (top_names s) -> schema_equiv (canon s) s.
Proof.
  intros s Hnd. unfold top_names in Hnd.
  pose proof (NoDup_app_l _ _ _ Hnd) as nds. apply NoDup_app_r in Hnd.
  pose proof (NoDup_app_l _ _ _ Hnd) as ndm. apply NoDup_app_r in Hnd.
  unfold schema_equiv. cbn [canon i_pkg i_structs i_mmaps i_enums].
  repeat split.
  - intros n. apply find_struct_canon. exact nds.
  - intros n. apply find_mmap_canon. exact ndm.
  - intros n. apply find_enum_canon. exact Hnd.
  - apply length_sorted_structs.
  - apply length_sorted_mmaps.
  - apply length_sorted_enums.
Qed.

(* C13, final form *)
Theorem print_parse_roundtrip_equiv : forall input s w, parse input = OOk s w -> has_root s = true ->
  exists s', parse (utf8_encode (print s)) = OOk s' [] /\ schema_equiv s' s /\ print s' = print s.
Proof.
  intros input s w H Hroot. exists (canon s).
  destruct (parse_ok_resolved input s w H) as (_ & Hnd & _).
  split; [eapply print_parse_roundtrip; eauto|]. split; [apply canon_equiv; exact Hnd | apply print_canon; exact Hnd].
Qed.

(* from the first printed text on, printing and parsing are exact inverses *)
Theorem print_parse_roundtrip_exact : forall input s w, parse input = OOk s w -> has_root s = true ->
  parse (utf8_encode (print (canon s))) = OOk (canon s) [].
Proof.
  intros input s w H Hroot.
  destruct (parse_ok_resolved input s w H) as (_ & Hnd & _).
  rewrite (print_canon s Hnd). eapply print_parse_roundtrip; eauto.
Qed.

Print Assumptions print_parse_roundtrip_equiv.
Print Assumptions print_parse_roundtrip_exact.
