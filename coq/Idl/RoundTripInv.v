(* C13: every schema idl.Parse returns is printable (and, before marking, free of recursion flags).
   1. lexer: identifier tokens carry identifiers that are not keywords, number tokens are below 2^64;
   2. parser: names come from identifier tokens, modifiers and dictionaries only where the grammar
      has them, array types are built with the flag cleared;
   3. name resolution, marking and pruning keep all that. *)
From Coq Require Import List NArith ZArith Bool Lia ZifyN ZifyNat ZifyBool Arith.
From Stef.Idl Require Import Unicode Lexer Ast Parser Resolve Printer TokSpec SchemaSpec LexerFacts ParserFacts ResolveFacts
  RecFacts PruneFacts ParseFacts RoundTripBase RoundTripLex RoundTripParse RoundTripResolve RoundTripThm RoundTripStable.
Import ListNotations.
Open Scope N_scope.

(* ---------- 1. tokens ---------- *)
Definition tok_good (t : token) : bool :=
  match t_kind t with
  | TkIdent => ident_ok (t_ident t)
  | TkIntNumber => t_num t <=? max_u64
  | _ => true
  end.

Lemma read_ident_spec : forall rs p cr acc id st, read_ident rs p cr acc = (id, st) ->
  exists w, id = acc ++ w /\ forallb ident_char w = true /\
            (forall r tl, rs = r :: tl -> ident_char (r_cp r) = true -> exists w', w = r_cp r :: w').
Proof.
  induction rs as [|r tl IH]; intros p cr acc id st H; cbn [read_ident] in H.
  - inversion H; subst. exists []. rewrite app_nil_r. repeat split. intros; discriminate.
  - destruct (ident_char (r_cp r)) eqn:E.
    + destruct (adv_pos p cr tl) as [p' cr']. apply IH in H. destruct H as (w & -> & Hw & _).
      exists (r_cp r :: w). rewrite <- app_assoc. repeat split.
      * cbn [forallb]. rewrite E, Hw. reflexivity.
      * intros r0 tl0 E0 _. inversion E0; subst. eauto.
    + inversion H; subst. exists []. rewrite app_nil_r. repeat split.
      intros r0 tl0 E0 E1. inversion E0; subst. rewrite E in E1. discriminate.
Qed.

Lemma keyword_not_ident : forall w k, keyword w = Some k -> k <> TkIdent /\ k <> TkIntNumber.
Proof.
  intros w k. unfold keyword, keywords.
  repeat (cbn [assoc_str]; match goal with |- context [str_eqb ?a w] => destruct (str_eqb a w) end;
          [intros H; inversion H; split; discriminate|]).
  cbn [assoc_str]. discriminate.
Qed.

Lemma pu_loop_bound : forall base s n us v us', pu_loop base s n us = Some (v, us') -> n <= max_u64 -> v <= max_u64.
Proof.
  intros base. induction s as [|c s IH]; intros n us v us' H Hn; cbn [pu_loop] in H.
  - inversion H; subst. exact Hn.
  - destruct (c =? 95); [eapply IH; eauto|].
    destruct (digit_val c) as [d|]; [|discriminate].
    destruct (base <=? d); [discriminate|].
    destruct (max_u64 <? n * base + d) eqn:E; [discriminate|].
    eapply IH; [exact H | lia].
Qed.

Lemma parse_uint0_bound : forall s v, parse_uint0 s = Some v -> v <= max_u64.
Proof.
  intros s v H. unfold parse_uint0 in H. destruct s as [|c0 r0]; [discriminate|].
  match type of H with (let '(base, body) := ?X in _) = _ => destruct X as [base body] end.
  destruct (pu_loop base body 0 false) as [[n us]|] eqn:E; [|discriminate].
  apply pu_loop_bound in E; [|unfold max_u64; lia].
  destruct (us && negb (underscore_ok (c0 :: r0))); [discriminate|]. inversion H; subst. exact E.
Qed.

Lemma punct_kind : forall c k, punct c = Some k -> k <> TkIdent /\ k <> TkIntNumber.
Proof.
  intros c k H. unfold punct in H.
  repeat match type of H with (if ?b then _ else _) = _ => destruct b; [inversion H; split; discriminate|] end.
  discriminate.
Qed.

Lemma next_token_good : forall st t st', next_token st = (t, st') -> tok_good t = true.
Proof.
  intros st t st' H. rewrite next_token_body in H.
  destruct (skip_ws false (l_rs st) (l_pos st) (l_cr st)) as [[rs p] cr]. unfold next_body in H.
  destruct rs as [|r tl]; [inversion H; reflexivity|].
  destruct (punct (r_cp r)) as [k|] eqn:Ep.
  { destruct (adv_pos p cr tl). inversion H; subst. unfold tok_good. cbn [t_kind].
    destruct (punct_kind _ _ Ep). destruct k; try reflexivity; contradiction. }
  destruct (is_letter (r_cp r)) eqn:El.
  { destruct (read_ident (r :: tl) p cr []) as [id [[rs' p'] cr']] eqn:Er. inversion H; subst.
    unfold tok_good. cbn [t_kind t_ident].
    destruct (keyword id) as [k|] eqn:Ek.
    - destruct (keyword_not_ident _ _ Ek). destruct k; try reflexivity; contradiction.
    - apply read_ident_spec in Er. destruct Er as (w & -> & Hw & Hfirst).
      assert (Hic : ident_char (r_cp r) = true) by (unfold ident_char; rewrite El; reflexivity).
      destruct (Hfirst r tl eq_refl Hic) as [w' ->]. cbn [app] in *.
      unfold ident_ok. rewrite Ek. cbn [word_ok]. cbn [forallb] in Hw. apply andb_true_iff in Hw.
      rewrite El, (proj2 Hw). reflexivity. }
  destruct (is_digit (r_cp r)).
  { destruct (adv_pos p cr tl) as [p1 cr1].
    destruct (read_numcont tl p1 cr1 [r_cp r]) as [ds [[rs' p'] cr']].
    destruct (parse_uint0 ds) as [v|] eqn:Ev; inversion H; subst; [|reflexivity].
    unfold tok_good. cbn [t_kind t_num]. apply parse_uint0_bound in Ev. lia. }
  destruct (adv_pos p cr tl). inversion H; reflexivity.
Qed.

Definition TG (ts : list token) : Prop := Forall (fun t => tok_good t = true) ts.

Lemma lex_all_good : forall fuel st, TG (lex_all fuel st).
Proof.
  induction fuel as [|f IH]; intros st; [constructor|].
  rewrite lex_all_S. destruct (next_token st) as [t st'] eqn:E.
  pose proof (next_token_good _ _ _ E) as Ht.
  destruct (is_eof t); [constructor; [exact Ht | constructor] | constructor; [exact Ht | apply IH]].
Qed.

Theorem tokenize_good : forall input, TG (tokenize input).
Proof. intros. apply lex_all_good. Qed.

(* ---------- 2. the parser ---------- *)
Lemma TG_advance : forall ts, TG ts -> TG (advance ts).
Proof.
  intros [|t [|t' ts]] H; try exact H. inversion H; assumption.
Qed.

Lemma TG_cur : forall ts, TG ts -> tok_good (cur ts) = true.
Proof. intros [|t ts] H; [reflexivity|]. inversion H; assumption. Qed.

Lemma cur_ident : forall ts, TG ts -> is ts TkIdent = true -> ident_ok (t_ident (cur ts)) = true.
Proof.
  intros ts H Hi. apply TG_cur in H. apply tkind_eqb_true in Hi. unfold kind in Hi.
  unfold tok_good in H. rewrite Hi in H. exact H.
Qed.

Lemma cur_number : forall ts, TG ts -> is ts TkIntNumber = true -> (t_num (cur ts) <=? max_u64) = true.
Proof.
  intros ts H Hi. apply TG_cur in H. apply tkind_eqb_true in Hi. unfold kind in Hi.
  unfold tok_good in H. rewrite Hi in H. exact H.
Qed.

(* result of a parser function: remaining tokens still good, value satisfies Q *)
Definition rg {A} (pj : A -> list token) (Q : A -> Prop) (r : res A) : Prop :=
  match r with Ok a => TG (pj a) /\ Q a | _ => True end.

Lemma rg_bind : forall A B (pjA : A -> list token) (pjB : B -> list token) QA QB (r : res A) (f : A -> res B),
  rg pjA QA r -> (forall a, TG (pjA a) -> QA a -> rg pjB QB (f a)) -> rg pjB QB (bind r f).
Proof. intros A B pjA pjB QA QB [a|p m|] f H Hf; cbn [bind rg] in *; auto. destruct H. auto. Qed.

Lemma eat_inv : forall k ts, TG ts -> rg (fun x => x) (fun _ => True) (eat k ts).
Proof. intros k ts H. unfold eat. destruct (is ts k); cbn [rg perr]; auto using TG_advance. Qed.

Lemma pkg_loop_inv : forall fuel ts acc, TG ts -> forallb ident_ok acc = true ->
  rg fst (fun r => forallb ident_ok (snd r) = true /\ snd r <> []) (parse_pkg_loop fuel ts acc).
Proof.
  induction fuel as [|f IH]; intros ts acc H Hacc; [exact I|].
  cbn [parse_pkg_loop]. destruct (is ts TkIdent) eqn:Ei; cbn [negb]; [|exact I].
  assert (Hacc' : forallb ident_ok (acc ++ [t_ident (cur ts)]) = true).
  { rewrite forallb_app, Hacc. cbn [forallb]. rewrite (cur_ident ts H Ei). reflexivity. }
  destruct (is (advance ts) TkDot); cbn [negb].
  - apply IH; [apply TG_advance, TG_advance, H | exact Hacc'].
  - cbn [rg fst snd]. split; [apply TG_advance, H|]. split; [exact Hacc'|]. destruct acc; discriminate.
Qed.

Lemma dict_modifier_inv : forall ts, TG ts ->
  rg fst (fun r => ident_ok (snd r) = true) (parse_dict_modifier ts).
Proof.
  intros ts H. unfold parse_dict_modifier.
  eapply rg_bind; [apply eat_inv, TG_advance, H|]. intros ts1 H1 _. cbn beta.
  destruct (is ts1 TkIdent) eqn:Ei; cbn [negb]; [|exact I].
  eapply rg_bind; [apply eat_inv, TG_advance, H1|]. intros ts2 H2 _.
  cbn [rg fst snd]. split; [exact H2 | apply cur_ident; assumption].
Qed.

(* what parseFieldType returns when called on a fresh field *)
Definition ft_post (r : list token * itype) : Prop :=
  ftype_ok false (snd r) = true /\ flagless_type (snd r) /\
  (inner_dict (snd r) = [] -> is (fst r) TkDict = false).

Lemma base_type_ok : forall ts ft, TG ts -> base_type (cur ts) = Some ft -> base_ok ft = true /\ it_dict ft = [].
Proof.
  intros ts ft H Hb. unfold base_type in Hb. destruct (t_kind (cur ts)) eqn:Ek; inversion Hb; subst;
    try (split; reflexivity).
  cbn [base_ok it_dict dict_ok]. rewrite andb_true_r. split; [|reflexivity].
  apply cur_ident; [exact H|]. unfold is, kind. rewrite Ek. reflexivity.
Qed.

Lemma base_set_dict : forall ft d, base_ok ft = true -> ident_ok d = true -> dict_forbidden ft = false ->
  base_ok (set_dict ft d) = true /\ it_dict (set_dict ft d) = d.
Proof.
  intros [d0|p d0|n d0|n d0|n d0|n d0|e d0 r] d Hb Hd Hf; try discriminate; cbn [set_dict base_ok it_dict].
  - split; [|reflexivity]. rewrite Hd. destruct p; try discriminate Hf; cbn [dict_forbidden negb andb]; apply orb_true_r.
  - apply andb_true_iff in Hb. destruct Hb as [Hn _]. rewrite Hn. split; [|reflexivity].
    destruct d; [discriminate Hd | exact Hd].
  - apply andb_true_iff in Hb. destruct Hb as [Hn _]. rewrite Hn. split; [|reflexivity].
    destruct d; [discriminate Hd | exact Hd].
  - apply andb_true_iff in Hb. destruct Hb as [Hn _]. rewrite Hn. split; [|reflexivity].
    destruct d; [discriminate Hd | exact Hd].
  - apply andb_true_iff in Hb. destruct Hb as [Hn _]. rewrite Hn. split; [|reflexivity].
    destruct d; [discriminate Hd | exact Hd].
Qed.

Lemma ident_ok_nonnil : forall d, ident_ok d = true -> d <> [].
Proof. intros [|c d] H; [discriminate H | discriminate]. Qed.

Lemma pft_tail_inv : forall isarr ts, TG ts -> rg fst ft_post (pft_tail true (INone []) isarr ts).
Proof.
  intros isarr ts H. unfold pft_tail.
  destruct (base_type (cur ts)) as [ft|] eqn:Eb; [|destruct isarr; exact I].
  destruct (base_type_ok ts ft H Eb) as [Hb Hd0].
  pose proof (TG_advance ts H) as H1.
  destruct (is (advance ts) TkDict) eqn:Ed.
  - destruct (dict_forbidden ft) eqn:Ef; [exact I|].
    eapply rg_bind with (pjA := fst) (QA := fun r : list token * itype => base_ok (snd r) = true /\ it_dict (snd r) <> []).
    + eapply rg_bind; [apply dict_modifier_inv; exact H1|]. intros [ts2 d] H2 Hd. cbn [fst snd] in *.
      cbn [rg fst snd]. split; [exact H2|]. destruct (base_set_dict ft d Hb Hd Ef) as [Hb' Hd']. split; [exact Hb'|].
      rewrite Hd'. apply ident_ok_nonnil. exact Hd.
    + intros [ts2 ft2] H2 [Hb2 Hd2]. cbn [fst snd] in *. cbn [rg fst snd]. split; [exact H2|].
      unfold ft_post. cbn [fst snd]. destruct isarr; cbn [it_dict].
      * cbn [ftype_ok is_nil orb flagless_type inner_dict]. rewrite Hb2. repeat split. intros; contradiction.
      * assert (Hf : ftype_ok false ft2 = true).
        { destruct ft2; try discriminate Hb2; exact Hb2. }
        split; [exact Hf|]. split; [destruct ft2; try discriminate Hb2; exact I|].
        intros Hx. exfalso. apply Hd2. destruct ft2; try discriminate Hb2; exact Hx.
  - cbn [bind rg fst snd]. split; [exact H1|]. unfold ft_post. cbn [fst snd]. destruct isarr; cbn [it_dict].
    + cbn [ftype_ok is_nil orb flagless_type inner_dict]. rewrite Hb. repeat split. intros _. exact Ed.
    + assert (Hf : ftype_ok false ft = true) by (destruct ft; try discriminate Hb; exact Hb).
      split; [exact Hf|]. split; [destruct ft; try discriminate Hb; exact I|]. intros _. exact Ed.
Qed.

Lemma field_type_inv : forall ts, TG ts -> rg fst ft_post (parse_field_type true ts (INone [])).
Proof.
  intros ts H. rewrite parse_field_type_tail.
  eapply rg_bind with (pjA := fst) (QA := fun _ => True).
  - destruct (is ts TkLBracket).
    + eapply rg_bind; [apply eat_inv, TG_advance, H|]. intros ts1 H1 _. cbn [rg fst]. auto.
    + cbn [rg fst]. auto.
  - intros [ts1 isarr] H1 _. cbn [fst] in H1. apply pft_tail_inv. exact H1.
Qed.

Lemma field_modifiers_inv : forall fuel ts opt, TG ts -> rg fst (fun _ => True) (parse_field_modifiers fuel ts opt).
Proof.
  induction fuel as [|f IH]; intros ts opt H; [exact I|].
  cbn [parse_field_modifiers]. destruct (is ts TkOptional); [apply IH, TG_advance, H | cbn [rg fst]; auto].
Qed.

Definition field_raw (f : isfield) : Prop := field_ok f = true /\ flagless_type (if_type f).

Lemma struct_field_inv : forall fuel ts fields, TG ts -> Forall field_raw fields ->
  rg (fun r => fst (fst r)) (fun r => Forall field_raw (snd (fst r))) (parse_struct_field true fuel ts fields).
Proof.
  intros fuel ts fields H Hf. unfold parse_struct_field.
  destruct (is ts TkIdent) eqn:Ei; cbn [negb]; [|cbn [rg fst snd]; auto].
  destruct (has_field fields (t_ident (cur ts))); [exact I|].
  eapply rg_bind; [apply field_type_inv, TG_advance, H|]. intros [ts1 ft] H1 (P1 & P2 & _). cbn [fst snd] in *.
  eapply rg_bind; [apply field_modifiers_inv; exact H1|]. intros [ts2 opt] H2 _. cbn [fst] in H2.
  cbn [rg fst snd]. split; [exact H2|]. apply Forall_app. split; [exact Hf|]. constructor; [|constructor].
  unfold field_raw, field_ok. cbn [if_name if_type]. rewrite (cur_ident ts H Ei), P1. split; [reflexivity | exact P2].
Qed.

Lemma struct_fields_inv : forall fuel0 fuel ts fields, TG ts -> Forall field_raw fields ->
  rg fst (fun r => Forall field_raw (snd r)) (parse_struct_fields true fuel0 fuel ts fields).
Proof.
  intros fuel0. induction fuel as [|f IH]; intros ts fields H Hf; [exact I|].
  cbn [parse_struct_fields].
  eapply rg_bind; [apply struct_field_inv; eassumption|]. intros [[ts1 fs1] ok] H1 Hf1. cbn [fst snd] in *.
  destruct ok; [apply IH; assumption | cbn [rg fst snd]; auto].
Qed.

(* the modifier part of struct_pr *)
Definition mod_ok (oneof : bool) (d : str) (root : bool) : bool :=
  if oneof then is_nil d && negb root else is_nil d || (ident_ok d && negb root).

Lemma struct_modifiers_inv : forall ts oneof, TG ts ->
  rg (fun r => fst (fst r)) (fun r => mod_ok oneof (snd (fst r)) (snd r) = true) (parse_struct_modifiers ts oneof).
Proof.
  intros ts oneof H. unfold parse_struct_modifiers.
  destruct (kind ts); try (cbn [rg fst snd]; split; [exact H | destruct oneof; reflexivity]).
  - destruct oneof; [exact I|]. cbn [rg fst snd]. split; [apply TG_advance, H | reflexivity].
  - destruct oneof; [exact I|].
    eapply rg_bind; [apply dict_modifier_inv; exact H|]. intros [ts1 d] H1 Hd. cbn [fst snd] in *.
    cbn [rg fst snd]. split; [exact H1|]. unfold mod_ok. rewrite Hd. apply orb_true_r.
Qed.

Definition struct_part (sd : isdef) : Prop :=
  ident_ok (is_name sd) = true /\ mod_ok (is_oneof sd) (is_dict sd) (is_root sd) = true /\
  forallb field_ok (is_fields sd) = true.
Definition struct_raw (sd : isdef) : Prop := struct_part sd /\ flagless_struct sd.

Lemma field_raw_all : forall fs, Forall field_raw fs ->
  forallb field_ok fs = true /\ forall f, In f fs -> flagless_type (if_type f).
Proof.
  intros fs H. split.
  - apply forallb_forall. intros f Hf. rewrite Forall_forall in H. apply H. exact Hf.
  - intros f Hf. rewrite Forall_forall in H. apply H. exact Hf.
Qed.

Lemma parse_struct_inv : forall fuel ts sch oneof, TG ts ->
  rg fst (fun r => struct_raw (snd r) /\ is_oneof (snd r) = oneof) (parse_struct true fuel ts sch oneof).
Proof.
  intros fuel ts sch oneof H. unfold parse_struct.
  pose proof (TG_advance ts H) as H0.
  destruct (is (advance ts) TkIdent) eqn:Ei; cbn [negb]; [|exact I].
  destruct (top_level_used sch (t_ident (cur (advance ts)))); [exact I|].
  eapply rg_bind; [apply struct_modifiers_inv, TG_advance, H0|]. intros [[ts1 d] root] H1 Hm. cbn [fst snd] in *.
  eapply rg_bind; [apply eat_inv; exact H1|]. intros ts2 H2 _.
  eapply rg_bind; [apply struct_fields_inv; [exact H2 | constructor]|]. intros [ts3 fs] H3 Hfs. cbn [fst snd] in *.
  destruct (root && match fs with [] => true | _ => false end); [exact I|].
  eapply rg_bind; [apply eat_inv; exact H3|]. intros ts4 H4 _.
  cbn [rg fst snd]. split; [exact H4|]. destruct (field_raw_all fs Hfs) as [F1 F2].
  split; [|reflexivity]. split.
  - unfold struct_part. cbn [is_name is_oneof is_dict is_root is_fields].
    rewrite (cur_ident _ H0 Ei). auto.
  - split; [reflexivity | exact F2].
Qed.

(* multimap key / value *)
Definition mft_post (r : list token * itype) : Prop := ftype_ok true (snd r) = true /\ flagless_type (snd r).

Lemma ftype_ok_weaken : forall t, ftype_ok false t = true -> ftype_ok true t = true.
Proof.
  intros [d|p d|n d|n d|n d|n d|e d r] H; try exact H. cbn [ftype_ok] in *.
  apply andb_true_iff in H. destruct H as [H1 H2]. rewrite H1. destruct d; [reflexivity | discriminate H2].
Qed.

Lemma base_nonnil_dict : forall ft, base_ok ft = true -> it_dict ft <> [] -> dict_forbidden ft = false.
Proof.
  intros [d|p d|n d|n d|n d|n d|e d r] H Hd; try discriminate; try reflexivity.
  cbn [base_ok it_dict] in *. destruct d; [contradiction|]. cbn [is_nil orb] in H.
  apply andb_true_iff in H. destruct H as [_ H]. apply negb_true_iff in H. exact H.
Qed.

Lemma multimap_field_inv : forall ts, TG ts -> rg fst mft_post (parse_multimap_field true ts).
Proof.
  intros ts H. unfold parse_multimap_field.
  eapply rg_bind; [apply field_type_inv; exact H|]. intros [ts1 ft] H1 (P1 & P2 & P3). cbn [fst snd] in *.
  destruct (is ts1 TkDict) eqn:Ed.
  - eapply rg_bind; [apply dict_modifier_inv; exact H1|]. intros [ts2 d] H2 Hd. cbn [fst snd] in *.
    cbn [rg fst snd]. split; [exact H2|]. unfold mft_post. cbn [snd].
    assert (Hin : inner_dict ft <> []) by (intros Hx; specialize (P3 Hx); discriminate).
    destruct ft as [d0|p d0|n d0|n d0|n d0|n d0|e d0 r]; try discriminate P1;
      cbn [ftype_ok inner_dict set_dict flagless_type] in *.
    + pose proof (base_nonnil_dict _ P1 Hin) as Hf.
      destruct (base_set_dict _ d P1 Hd Hf) as [Hb _]. split; [exact Hb | exact I].
    + destruct (base_set_dict _ d P1 Hd eq_refl) as [Hb _]. split; [exact Hb | exact I].
    + destruct (base_set_dict _ d P1 Hd eq_refl) as [Hb _]. split; [exact Hb | exact I].
    + destruct (base_set_dict _ d P1 Hd eq_refl) as [Hb _]. split; [exact Hb | exact I].
    + destruct (base_set_dict _ d P1 Hd eq_refl) as [Hb _]. split; [exact Hb | exact I].
    + apply andb_true_iff in P1. destruct P1 as [Hb _]. rewrite Hb, Hd. split; [|exact P2].
      destruct (it_dict e); [contradiction|]. cbn [is_nil negb andb]. apply orb_true_r.
  - cbn [rg fst snd]. split; [exact H1|]. split; [apply ftype_ok_weaken; exact P1 | exact P2].
Qed.

Definition mmap_raw (md : imdef) : Prop := mmap_pr md = true /\ flagless_mmap md.

Lemma parse_multimap_inv : forall ts sch, TG ts -> rg fst (fun r => mmap_raw (snd r)) (parse_multimap true ts sch).
Proof.
  intros ts sch H. unfold parse_multimap.
  pose proof (TG_advance ts H) as H0.
  destruct (is (advance ts) TkIdent) eqn:Ei; cbn [negb]; [|exact I].
  destruct (top_level_used sch (t_ident (cur (advance ts)))); [exact I|].
  eapply rg_bind; [apply eat_inv, TG_advance, H0|]. intros ts1 H1 _.
  eapply rg_bind; [apply eat_inv; exact H1|]. intros ts2 H2 _.
  eapply rg_bind; [apply multimap_field_inv; exact H2|]. intros [ts3 k] H3 [K1 K2]. cbn [fst snd] in *.
  eapply rg_bind; [apply eat_inv; exact H3|]. intros ts4 H4 _.
  eapply rg_bind; [apply multimap_field_inv; exact H4|]. intros [ts5 v] H5 [V1 V2]. cbn [fst snd] in *.
  eapply rg_bind; [apply eat_inv; exact H5|]. intros ts6 H6 _.
  cbn [rg fst snd]. split; [exact H6|]. split.
  - unfold mmap_pr. cbn [im_name im_key im_val]. rewrite (cur_ident _ H0 Ei), K1, V1. reflexivity.
  - repeat split; assumption.
Qed.

(* enum *)
Lemma enum_field_inv : forall ts fields, TG ts -> forallb efield_ok fields = true ->
  rg (fun r => fst (fst r)) (fun r => forallb efield_ok (snd (fst r)) = true) (parse_enum_field ts fields).
Proof.
  intros ts fields H Hf. unfold parse_enum_field.
  destruct (is ts TkIdent) eqn:Ei; cbn [negb]; [|cbn [rg fst snd]; auto].
  eapply rg_bind; [apply eat_inv, TG_advance, H|]. intros ts1 H1 _.
  destruct (is ts1 TkIntNumber) eqn:En; cbn [negb]; [|exact I].
  cbn [rg fst snd]. split; [apply TG_advance, H1|].
  rewrite forallb_app, Hf. cbn [forallb]. unfold efield_ok. cbn [fst snd].
  rewrite (cur_ident ts H Ei), (cur_number ts1 H1 En). reflexivity.
Qed.

Lemma enum_fields_inv : forall fuel ts fields, TG ts -> forallb efield_ok fields = true ->
  rg fst (fun r => forallb efield_ok (snd r) = true) (parse_enum_fields fuel ts fields).
Proof.
  induction fuel as [|f IH]; intros ts fields H Hf; [exact I|].
  cbn [parse_enum_fields].
  eapply rg_bind; [apply enum_field_inv; eassumption|]. intros [[ts1 fs1] ok] H1 Hf1. cbn [fst snd] in *.
  destruct ok; [apply IH; assumption | cbn [rg fst snd]; auto].
Qed.

Lemma parse_enum_inv : forall fuel ts sch, TG ts -> rg fst (fun r => enum_pr (snd r) = true) (parse_enum fuel ts sch).
Proof.
  intros fuel ts sch H. unfold parse_enum.
  pose proof (TG_advance ts H) as H0.
  destruct (is (advance ts) TkIdent) eqn:Ei; cbn [negb]; [|exact I].
  destruct (top_level_used sch (t_ident (cur (advance ts)))); [exact I|].
  eapply rg_bind; [apply eat_inv, TG_advance, H0|]. intros ts1 H1 _.
  eapply rg_bind; [apply enum_fields_inv; [exact H1 | reflexivity]|]. intros [ts2 fs] H2 Hfs. cbn [fst snd] in *.
  eapply rg_bind; [apply eat_inv; exact H2|]. intros ts3 H3 _.
  cbn [rg fst snd]. split; [exact H3|]. unfold enum_pr. cbn [ie_name ie_fields].
  rewrite (cur_ident _ H0 Ei), Hfs. reflexivity.
Qed.

(* the schema under construction *)
Definition raw_ok (sch : ischema) : Prop :=
  Forall struct_raw (i_structs sch) /\ Forall mmap_raw (i_mmaps sch) /\ forallb enum_pr (i_enums sch) = true.

Lemma parse_def_inv : forall fuel ts sch, TG ts -> raw_ok sch ->
  rg fst (fun r => raw_ok (snd r) /\ i_pkg (snd r) = i_pkg sch) (parse_def true fuel ts sch).
Proof.
  intros fuel ts sch H (Rs & Rm & Re). unfold parse_def.
  destruct (kind ts); try exact I.
  - eapply rg_bind; [apply parse_struct_inv; exact H|]. intros [ts1 sd] H1 [Hsd _]. cbn [fst snd] in *.
    cbn [rg fst snd]. split; [exact H1|]. split; [|reflexivity].
    repeat split; cbn [add_struct i_structs i_mmaps i_enums]; auto. apply Forall_app. split; auto.
  - eapply rg_bind; [apply parse_struct_inv; exact H|]. intros [ts1 sd] H1 [Hsd _]. cbn [fst snd] in *.
    cbn [rg fst snd]. split; [exact H1|]. split; [|reflexivity].
    repeat split; cbn [add_struct i_structs i_mmaps i_enums]; auto. apply Forall_app. split; auto.
  - eapply rg_bind; [apply parse_multimap_inv; exact H|]. intros [ts1 md] H1 Hmd. cbn [fst snd] in *.
    cbn [rg fst snd]. split; [exact H1|]. split; [|reflexivity].
    repeat split; cbn [add_mmap i_structs i_mmaps i_enums]; auto. apply Forall_app. split; auto.
  - eapply rg_bind; [apply parse_enum_inv; exact H|]. intros [ts1 ed] H1 Hed. cbn [fst snd] in *.
    cbn [rg fst snd]. split; [exact H1|]. split; [|reflexivity].
    repeat split; cbn [add_enum i_structs i_mmaps i_enums]; auto.
    rewrite forallb_app, Re. cbn [forallb]. rewrite Hed. reflexivity.
Qed.

Lemma parse_defs_inv : forall fuel0 fuel ts sch, TG ts -> raw_ok sch ->
  rg fst (fun r => raw_ok (snd r) /\ i_pkg (snd r) = i_pkg sch) (parse_defs true fuel0 fuel ts sch).
Proof.
  intros fuel0. induction fuel as [|f IH]; intros ts sch H Hr; [exact I|].
  cbn [parse_defs].
  eapply rg_bind; [apply parse_def_inv; eassumption|]. intros [ts1 sch1] H1 [Hr1 Hp1]. cbn [fst snd] in *.
  destruct (is ts1 TkEOF).
  - cbn [rg fst snd]. auto.
  - specialize (IH ts1 sch1 H1 Hr1). destruct (parse_defs true fuel0 f ts1 sch1) as [[ts2 sch2]| |]; cbn [rg] in *; auto.
    destruct IH as (A & B & C). cbn [fst snd] in *. split; [exact A|]. split; [exact B|]. rewrite C. exact Hp1.
Qed.

Theorem parse_tokens_inv : forall ts, TG ts ->
  rg fst (fun r => raw_ok (snd r) /\ forallb ident_ok (i_pkg (snd r)) = true /\ i_pkg (snd r) <> [])
     (parse_tokens true ts).
Proof.
  intros ts H. unfold parse_tokens, parse_package.
  eapply rg_bind with (pjA := fst) (QA := fun r => forallb ident_ok (snd r) = true /\ snd r <> []).
  - eapply rg_bind; [apply eat_inv; exact H|]. intros ts1 H1 _. apply pkg_loop_inv; [exact H1 | reflexivity].
  - intros [ts1 pkg] H1 [P1 P2]. cbn [fst snd] in *.
    pose proof (parse_defs_inv (S (length ts)) (S (length ts)) ts1 (mkISchema pkg [] [] []) H1) as Hd.
    destruct (parse_defs true (S (length ts)) (S (length ts)) ts1 (mkISchema pkg [] [] [])) as [[ts2 sch2]| |];
      cbn [rg] in *; auto.
    destruct Hd as (A & B & C); [repeat split; constructor|]. cbn [fst snd i_pkg] in *.
    rewrite C. auto.
Qed.

(* ---------- 3. name resolution, marking, pruning ---------- *)
Lemma resolve_base_ok : forall sch t t', base_ok t = true -> resolve_type sch t = inr t' ->
  base_ok t' = true /\ it_dict t' = it_dict t.
Proof.
  intros sch t t' Hb H.
  destruct t as [d|p d|n d|n d|n d|n d|e d r]; try discriminate Hb; cbn [resolve_type] in H;
    try (inversion H; subst; split; [exact Hb | reflexivity]);
    unfold resolve_name in H;
    destruct (has_struct sch n), (has_mmap sch n), (has_enum sch n); inversion H; subst;
      (split; [exact Hb | reflexivity]).
Qed.

Lemma resolve_ftype_ok : forall sch b t t', ftype_ok b t = true -> resolve_type sch t = inr t' ->
  ftype_ok b t' = true /\ (flagless_type t -> flagless_type t').
Proof.
  intros sch b t t' Hf H.
  destruct t as [d|p d|n d|n d|n d|n d|e d r]; try discriminate Hf.
  6: { cbn [resolve_type] in H. destruct (resolve_type sch e) as [x|e'] eqn:Ee; [discriminate|].
       inversion H; subst. cbn [ftype_ok] in *. apply andb_true_iff in Hf. destruct Hf as [He Hd].
       destruct (resolve_base_ok sch e e' He Ee) as [He' Hd']. rewrite He', Hd'. split; [exact Hd | auto]. }
  all: cbn [ftype_ok] in Hf; destruct (resolve_base_ok sch _ t' Hf H) as [Hb _];
       (split; [destruct t'; try discriminate Hb; exact Hb | intros _; destruct t'; try discriminate Hb; exact I]).
Qed.

Lemma resolve_fields_raw : forall sch fs fs', resolve_fields sch fs = inr fs' ->
  forallb field_ok fs = true -> (forall f, In f fs -> flagless_type (if_type f)) ->
  forallb field_ok fs' = true /\ (forall f, In f fs' -> flagless_type (if_type f)).
Proof.
  intros sch. induction fs as [|f fs IH]; intros fs' H Hok Hfl; cbn [resolve_fields] in H.
  - inversion H; subst. split; [reflexivity | intros ? []].
  - destruct (resolve_type sch (if_type f)) as [x|t] eqn:Et; [discriminate|].
    destruct (resolve_fields sch fs) as [x|r'] eqn:Er; [discriminate|]. inversion H; subst.
    cbn [forallb] in Hok. apply andb_true_iff in Hok. destruct Hok as [Hf Hok].
    unfold field_ok in Hf. apply andb_true_iff in Hf. destruct Hf as [Hn Ht].
    destruct (resolve_ftype_ok sch false _ _ Ht Et) as [Ht' Hfl'].
    destruct (IH r' eq_refl Hok (fun x Hx => Hfl x (or_intror Hx))) as [IH1 IH2].
    split.
    + cbn [forallb]. unfold field_ok at 1. cbn [if_name if_type]. rewrite Hn, Ht', IH1. reflexivity.
    + intros x [<-|Hx]; [cbn [if_type]; apply Hfl'; apply Hfl; now left | auto].
Qed.

Lemma resolve_structs_raw : forall sch l l', resolve_structs sch l = inr l' ->
  Forall struct_raw l -> Forall struct_raw l'.
Proof.
  intros sch. induction l as [|sd l IH]; intros l' H Hall; cbn [resolve_structs] in H.
  - inversion H; subst. constructor.
  - destruct (resolve_fields sch (is_fields sd)) as [x|fs] eqn:Ef; [discriminate|].
    destruct (resolve_structs sch l) as [x|r'] eqn:Er; [discriminate|]. inversion H; subst.
    inversion Hall as [|? ? Hsd Hl]; subst. constructor; [|apply IH; auto].
    destruct Hsd as [(P1 & P2 & P3) (F1 & F2)].
    destruct (resolve_fields_raw sch _ _ Ef P3 F2) as [Q1 Q2].
    split; [repeat split; assumption | split; assumption].
Qed.

Lemma resolve_mmaps_raw : forall sch l l', resolve_mmaps sch l = inr l' ->
  Forall mmap_raw l -> Forall mmap_raw l'.
Proof.
  intros sch. induction l as [|md l IH]; intros l' H Hall; cbn [resolve_mmaps] in H.
  - inversion H; subst. constructor.
  - destruct (resolve_type sch (im_key md)) as [x|k] eqn:Ek; [discriminate|].
    destruct (resolve_type sch (im_val md)) as [x|v] eqn:Ev; [discriminate|].
    destruct (resolve_mmaps sch l) as [x|r'] eqn:Er; [discriminate|]. inversion H; subst.
    inversion Hall as [|? ? Hmd Hl]; subst. constructor; [|apply IH; auto].
    destruct Hmd as [Hpr (F1 & F2 & F3)]. unfold mmap_pr in Hpr. rewrite !andb_true_iff in Hpr.
    destruct Hpr as [[Hn Hk] Hv].
    destruct (resolve_ftype_ok sch true _ _ Hk Ek) as [Hk' Fk]. destruct (resolve_ftype_ok sch true _ _ Hv Ev) as [Hv' Fv].
    split.
    + unfold mmap_pr. cbn [im_name im_key im_val]. rewrite Hn, Hk', Hv'. reflexivity.
    + repeat split; cbn [im_rec im_key im_val]; auto.
Qed.

Lemma resolve_refs_raw : forall sch sch1, resolve_refs sch = inr sch1 -> raw_ok sch -> raw_ok sch1.
Proof.
  intros sch sch1 H (Rs & Rm & Re). unfold resolve_refs in H.
  destruct (resolve_structs sch (i_structs sch)) as [x|ss] eqn:Es; [discriminate|].
  destruct (resolve_mmaps sch (i_mmaps sch)) as [x|ms] eqn:Em; [discriminate|]. inversion H; subst.
  repeat split; cbn [i_structs i_mmaps i_enums].
  - eapply resolve_structs_raw; eauto.
  - eapply resolve_mmaps_raw; eauto.
  - exact Re.
Qed.

Lemma raw_flagless : forall sch, raw_ok sch -> flagless sch.
Proof.
  intros sch (Rs & Rm & _). split.
  - intros sd Hin. rewrite Forall_forall in Rs. apply Rs. exact Hin.
  - intros md Hin. rewrite Forall_forall in Rm. apply Rm. exact Hin.
Qed.

Lemma ftype_ok_mark : forall b M l t, ftype_ok b (mark_type M l t) = ftype_ok b t.
Proof. intros b M l [d|p d|n d|n d|n d|n d|e d r]; reflexivity. Qed.

Lemma struct_part_mark : forall M sd, struct_part sd -> struct_part (mark_struct M sd).
Proof.
  intros M sd (P1 & P2 & P3). unfold struct_part, mark_struct. cbn [is_name is_oneof is_dict is_root is_fields].
  repeat split; try assumption.
  apply forallb_forall. intros f Hf. apply in_map_iff in Hf. destruct Hf as [ix [<- Hix]].
  apply In_indexed in Hix. rewrite forallb_forall in P3. specialize (P3 _ Hix).
  unfold field_ok in *. unfold mark_field. cbn [if_name if_type]. rewrite ftype_ok_mark. exact P3.
Qed.

Lemma mmap_pr_mark : forall M md, mmap_pr md = true -> mmap_pr (mark_mmap M md) = true.
Proof.
  intros M md H. unfold mmap_pr, mark_mmap in *. cbn [im_name im_key im_val]. rewrite !ftype_ok_mark. exact H.
Qed.

Lemma NoDup_nodup_str : forall l, NoDup l -> nodup_str l = true.
Proof.
  induction l as [|x l IH]; intros H; [reflexivity|]. inversion H; subst. cbn [nodup_str].
  rewrite IH by assumption. rewrite andb_true_r. apply negb_true_iff.
  destruct (mem_str x l) eqn:E; [apply RecFacts.mem_str_In in E; contradiction | reflexivity].
Qed.

Lemma rtype_rtype_b : forall sch t, rtype sch t -> rtype_b sch t = true.
Proof. intros sch. induction t; cbn [rtype rtype_b]; auto; try contradiction. Qed.

Lemma resolved_resolved_b : forall sch, sch_resolved sch -> resolved_b sch = true.
Proof.
  intros sch [Hs Hm]. unfold resolved_b. apply andb_true_iff. split.
  - apply forallb_forall. intros sd Hsd. apply forallb_forall. intros f Hf. apply rtype_rtype_b. eapply Hs; eauto.
  - apply forallb_forall. intros md Hmd. destruct (Hm md Hmd). apply andb_true_iff. split; apply rtype_rtype_b; assumption.
Qed.

(* what idl.Parse returns *)
Theorem parse_output_facts : forall input s w, parse input = OOk s w -> has_root s = true ->
  printable s = true /\ resolved_b s = true /\ stable (canon s).
Proof.
  intros input s w H Hroot.
  destruct (parse_ok_resolved input s w H) as (Hres_s & Hnd_s & Hwf_s).
  unfold parse, parse_gen in H.
  pose proof (tokenize_wf input) as Hwf. pose proof (tokenize_good input) as Hg.
  destruct (parse_tokens true (tokenize input)) as [[ts' sch0]|p m|] eqn:Ep; try discriminate.
  pose proof (parse_tokens_inv _ Hg) as Hinv. rewrite Ep in Hinv. cbn [rg fst snd] in Hinv.
  destruct Hinv as (_ & Hraw0 & Hpkg & Hpne).
  destruct (parse_tokens_ok true _ _ _ Hwf Ep) as [_ Hok0].
  unfold finish in H.
  destruct (resolve_refs sch0) as [[|]|sch1] eqn:Er; try discriminate.
  destruct (resolve_refs_ok sch0 sch1 Hok0 Er) as (Hres1 & Hnd1 & Hwf1 & Hpkg1).
  pose proof (resolve_refs_raw _ _ Er Hraw0) as Hraw1.
  destruct (compute_recursive sch1) as [M1|ps|] eqn:Em; try discriminate.
  destruct (prune_unused (apply_marks sch1 M1)) as [[s2 w2]|] eqn:Epr; try discriminate.
  inversion H; subst s2 w2. clear H.
  destruct (prune_unused_pruned _ _ _ Epr) as (r & Hr & Es).
  destruct (apply_marks_ok sch1 M1 Hres1 Hnd1 Hwf1) as (HresM & HndM & HwfM & HpkgM).
  destruct (prune_unused_ok _ _ _ HresM Epr) as (_ & Hpkg_s & Hin_s & Hin_m & Hin_e & _).
  split; [|split].
  - (* printable *)
    destruct Hraw1 as (Rs & Rm & Re).
    unfold printable. rewrite !andb_true_iff. repeat split.
    + rewrite Hpkg_s, HpkgM, Hpkg1. destruct (i_pkg sch0); [contradiction | reflexivity].
    + rewrite Hpkg_s, HpkgM, Hpkg1. exact Hpkg.
    + apply forallb_forall. intros sd Hsd.
      rewrite Forall_forall in Hwf_s. destruct (Hwf_s sd Hsd) as [Hndf Hrootf].
      specialize (Hin_s sd Hsd). rewrite apply_marks_eq in Hin_s. cbn [i_structs] in Hin_s.
      apply in_map_iff in Hin_s. destruct Hin_s as [sd1 [<- Hsd1]].
      rewrite Forall_forall in Rs. destruct (Rs sd1 Hsd1) as [Hpart _].
      destruct (struct_part_mark M1 sd1 Hpart) as (P1 & P2 & P3).
      unfold struct_pr. rewrite P1, P3. unfold mod_ok in P2. rewrite P2.
      rewrite (NoDup_nodup_str _ Hndf). cbn [andb]. rewrite andb_true_r.
      destruct (is_root (mark_struct M1 sd1)) eqn:Eroot; [|reflexivity].
      cbn [negb orb]. destruct (is_fields (mark_struct M1 sd1)); [exfalso; apply (Hrootf eq_refl); reflexivity | reflexivity].
    + apply forallb_forall. intros md Hmd.
      specialize (Hin_m md Hmd). rewrite apply_marks_eq in Hin_m. cbn [i_mmaps] in Hin_m.
      apply in_map_iff in Hin_m. destruct Hin_m as [md1 [<- Hmd1]].
      rewrite Forall_forall in Rm. destruct (Rm md1 Hmd1) as [Hpr _]. apply mmap_pr_mark. exact Hpr.
    + apply forallb_forall. intros ed Hed. specialize (Hin_e ed Hed). rewrite apply_marks_eq in Hin_e.
      cbn [i_enums] in Hin_e. rewrite forallb_forall in Re. apply Re. exact Hin_e.
    + apply NoDup_nodup_str. exact Hnd_s.
    + unfold has_root in Hroot. unfold all_names. destruct (i_structs s); [discriminate Hroot | reflexivity].
  - apply resolved_resolved_b. exact Hres_s.
  - rewrite Es. apply stable_canon_pruned; try assumption. apply raw_flagless. exact Hraw1.
Qed.

(* (d): schemas survive printing and parsing.  The schema read back is the original with its
   definitions in print order (ascending name within enums, multimaps, structs); a schema without
   root struct is the one exception (PrinterFacts.print_parse_rootless_refuted). *)
Theorem print_parse_roundtrip : forall input s w, parse input = OOk s w -> has_root s = true ->
  parse (utf8_encode (print s)) = OOk (canon s) [].
Proof.
  intros input s w H Hroot. destruct (parse_output_facts input s w H Hroot) as (H1 & H2 & H3).
  apply print_parse_roundtrip_partial; assumption.
Qed.

Print Assumptions print_parse_roundtrip.
