(* C13, lexer level: the text Printer.print produces lexes back to schema_tokens.

   1. print s = render (pc_schema s) for every schema (print_pieces).
   2. lexable s -> good (pc_schema s) true (every piece well formed, every word/number followed by
      a separator).
   3. UTF-8: decoding the encoding of scalar values gives them back (decode_encode).
   4. lexing a good piece list gives its tokens (lex_pieces), hence lex_print. *)
From Coq Require Import List NArith ZArith Bool Lia ZifyN ZifyNat ZifyBool Arith.
From Stef.Idl Require Import Unicode Lexer Ast Parser Resolve Printer RoundTripBase.
Import ListNotations.
Open Scope N_scope.
Ltac Zify.zify_post_hook ::= Z.div_mod_to_equations.

(* ---------- 1. the printer as pieces ---------- *)
Lemma render_app : forall a b, render (a ++ b) = render a ++ render b.
Proof. intros. unfold render. apply flat_map_app. Qed.

Lemma toks_app : forall a b, toks (a ++ b) = toks a ++ toks b.
Proof. intros. unfold toks. apply flat_map_app. Qed.

Lemma render_word : forall w, render [PWord w] = w.
Proof. intros. cbn [render flat_map render1]. apply app_nil_r. Qed.

Lemma render_num : forall n, render [PNum n] = decimal n.
Proof. intros. cbn [render flat_map render1]. apply app_nil_r. Qed.

Lemma render_pjoin : forall sep l, render (pjoin sep l) = join (render sep) (map render l).
Proof.
  intros sep. induction l as [|x l IH]; [reflexivity|].
  destruct l as [|y l]; [reflexivity|].
  change (pjoin sep (x :: y :: l)) with (x ++ sep ++ pjoin sep (y :: l)).
  rewrite !render_app, IH. reflexivity.
Qed.

Lemma render_dict : forall d, render (pc_dict d) = dict_suffix d.
Proof.
  intros [|c d]; [reflexivity|].
  unfold pc_dict, dict_suffix.
  change [sp; PWord S_dict; PPu 40 TkLParen; PWord (c :: d); PPu 41 TkRParen]
    with ([sp; PWord S_dict; PPu 40 TkLParen] ++ [PWord (c :: d)] ++ [PPu 41 TkRParen]).
  rewrite !render_app, render_word. reflexivity.
Qed.

Lemma render_type : forall t, render (pc_type t) = print_type true t.
Proof.
  induction t as [d|p d|n d|n d|n d|n d|e IHt d r]; cbn [pc_type print_type]; try apply render_word.
  rewrite !render_app, IHt, render_dict. reflexivity.
Qed.

Lemma render_field : forall f, render (pc_field f) = print_field true f.
Proof.
  intros f. unfold pc_field, print_field.
  change [PWord (if_name f); sp] with ([PWord (if_name f)] ++ [sp]).
  rewrite !render_app, render_word, render_type, render_dict.
  rewrite <- !app_assoc. do 3 f_equal. destruct (if_opt f); reflexivity.
Qed.

Lemma render_flat_map : forall A (g : A -> list piece) (h : A -> str) l,
  (forall x, render (g x) = h x) -> render (flat_map g l) = flat_map h l.
Proof.
  intros A g h l H. induction l as [|x l IH]; [reflexivity|].
  cbn [flat_map]. rewrite render_app, H, IH. reflexivity.
Qed.

Lemma render_struct : forall s, render (pc_struct s) = print_struct true s.
Proof.
  intros s. unfold pc_struct, print_struct. rewrite !render_app. f_equal; [|f_equal].
  - destruct (is_oneof s).
    + change [PWord S_oneof; sp; PWord (is_name s); sp; pLB]
        with ([PWord S_oneof; sp] ++ [PWord (is_name s)] ++ [sp; pLB]).
      rewrite !render_app, render_word. reflexivity.
    + change [PWord S_struct; sp; PWord (is_name s)] with ([PWord S_struct; sp] ++ [PWord (is_name s)]).
      rewrite !render_app, render_word, render_dict. rewrite <- !app_assoc. do 3 f_equal.
      destruct (is_root s); reflexivity.
  - apply render_flat_map. intros f. rewrite render_app, render_field. reflexivity.
Qed.

Lemma render_multimap : forall m, render (pc_multimap m) = print_multimap true m.
Proof.
  intros m. unfold pc_multimap, print_multimap.
  change [PWord S_multimap; sp; PWord (im_name m); sp; pLB; pnl; sp; sp; PWord S_key; sp]
    with ([PWord S_multimap; sp] ++ [PWord (im_name m)] ++ [sp; pLB; pnl; sp; sp; PWord S_key; sp]).
  rewrite !render_app, render_word, !render_type, !render_dict.
  rewrite <- !app_assoc. reflexivity.
Qed.

Lemma render_enum : forall e, render (pc_enum e) = print_enum e.
Proof.
  intros e. unfold pc_enum, print_enum.
  change [PWord S_enum; sp; PWord (ie_name e); sp; pLB]
    with ([PWord S_enum; sp] ++ [PWord (ie_name e)] ++ [sp; pLB]).
  rewrite !render_app, render_word. rewrite <- !app_assoc. do 3 f_equal. f_equal.
  apply render_flat_map. intros f. unfold pc_enum_field.
  change [pnl; sp; sp; PWord (fst f); sp; PPu 61 TkAssign; sp; PNum (snd f)]
    with ([pnl; sp; sp] ++ [PWord (fst f)] ++ [sp; PPu 61 TkAssign; sp] ++ [PNum (snd f)]).
  rewrite !render_app, render_word, render_num. reflexivity.
Qed.

Lemma render_pkg : forall pkg, render (pc_pkg pkg) = S_packageW ++ join S_DOT pkg.
Proof.
  intros pkg. unfold pc_pkg. rewrite render_app, render_pjoin. f_equal.
  rewrite map_map. f_equal. rewrite <- (map_id pkg) at 2. apply map_ext. intros. apply render_word.
Qed.

Theorem print_pieces : forall s, print s = render (pc_schema s).
Proof.
  intros s. unfold print, print_gen, pc_schema, pc_defs. rewrite render_pjoin. f_equal.
  cbn [map]. rewrite render_pkg. f_equal.
  rewrite !map_app, !map_map. f_equal; [|f_equal]; apply map_ext; intros;
    symmetry; [apply render_enum | apply render_multimap | apply render_struct].
Qed.

(* ---------- 2. lexable schemas give good piece lists ---------- *)
Lemma first_safe_app : forall a b x, first_safe (a ++ b) x = first_safe a (first_safe b x).
Proof. intros [|p a] b x; reflexivity. Qed.

Lemma good_app : forall a b x, good (a ++ b) x = good a (first_safe b x) && good b x.
Proof.
  induction a as [|p a IH]; intros b x; [reflexivity|].
  cbn [app good]. rewrite IH, first_safe_app.
  destruct (piece_ok p), (needs_sep p), (first_safe a (first_safe b x)), (good a (first_safe b x)), (good b x);
    reflexivity.
Qed.

Definition G (a : list piece) : Prop := good a true = true.
Definition F (a : list piece) : Prop := first_safe a true = true.
(* separators only: good whatever follows *)
Definition GS (a : list piece) : Prop := forall x, good a x = true.

Lemma G_app : forall a b, G a -> G b -> F b -> G (a ++ b).
Proof. unfold G, F. intros a b Ha Hb Fb. rewrite good_app, Fb, Ha, Hb. reflexivity. Qed.

Lemma GS_app : forall a b, GS a -> G b -> G (a ++ b).
Proof. unfold G, GS. intros a b Ha Hb. rewrite good_app, Ha, Hb. reflexivity. Qed.

Lemma F_app : forall a b, F a -> F b -> F (a ++ b).
Proof. unfold F. intros a b Ha Hb. rewrite first_safe_app, Hb. exact Ha. Qed.

Lemma F_nil : F [].
Proof. reflexivity. Qed.

Lemma G_nil : G [].
Proof. reflexivity. Qed.

Lemma F_sep : forall p r, is_sep p = true -> F (p :: r).
Proof. intros p r H. exact H. Qed.

Lemma G_sep : forall p r, is_sep p = true -> piece_ok p = true -> G r -> G (p :: r).
Proof. unfold G. intros p r H1 H2 H3. cbn [good]. rewrite H2, H3. destruct p; try discriminate; reflexivity. Qed.

Lemma G_word : forall w r, word_ok w = true -> F r -> G r -> G (PWord w :: r).
Proof. unfold G, F. intros w r H1 H2 H3. cbn [good piece_ok needs_sep]. rewrite H1, H2, H3. reflexivity. Qed.

Lemma G_num : forall n r, (n <=? max_u64) = true -> F r -> G r -> G (PNum n :: r).
Proof. unfold G, F. intros w r H1 H2 H3. cbn [good piece_ok needs_sep]. rewrite H1, H2, H3. reflexivity. Qed.

Lemma GS_sep : forall p r, is_sep p = true -> piece_ok p = true -> GS r -> GS (p :: r).
Proof. unfold GS. intros p r H1 H2 H3 x. cbn [good]. rewrite H2, H3. destruct p; try discriminate; reflexivity. Qed.

Lemma GS_nil : GS [].
Proof. intros x. reflexivity. Qed.

Lemma GF_flat_map : forall A (g : A -> list piece) l,
  (forall y, In y l -> G (g y) /\ F (g y)) -> G (flat_map g l) /\ F (flat_map g l).
Proof.
  intros A g l H. induction l as [|y l IH]; [split; reflexivity|].
  cbn [flat_map]. destruct IH as [IH1 IH2]; [intros; apply H; now right|].
  destruct (H y) as [H1 H2]; [now left|].
  split; [apply G_app | apply F_app]; assumption.
Qed.

Lemma G_pjoin : forall sep l, GS sep -> first_safe sep false = true ->
  (forall x, In x l -> G x) -> G (pjoin sep l).
Proof.
  intros sep l Hs Hf H. induction l as [|x l IH]; [reflexivity|].
  destruct l as [|y l]; [apply H; now left|].
  change (pjoin sep (x :: y :: l)) with (x ++ sep ++ pjoin sep (y :: l)).
  apply G_app; [apply H; now left | apply GS_app; [exact Hs | apply IH; intros; apply H; now right] |].
  unfold F. rewrite first_safe_app. destruct sep; [discriminate Hf | exact Hf].
Qed.

(* the literal words of the printer *)
Lemma lit_words_ok :
  forallb word_ok [S_package; S_struct; S_oneof; S_multimap; S_enum; S_optional; S_root; S_dict; S_key;
                   S_value; S_unknown; S_int64; S_uint64; S_float64; S_bool; S_string; S_bytes] = true.
Proof. vm_compute. reflexivity. Qed.

Ltac litw := first [assumption | exact (eq_refl true)].
(* decompose a goal G/F/GS on a list with a concrete spine *)
Ltac gstep :=
  match goal with
  | |- G [] => exact G_nil
  | |- F [] => exact F_nil
  | |- GS [] => exact GS_nil
  | |- F (PSp _ :: _) => reflexivity
  | |- F (PPu _ _ :: _) => reflexivity
  | |- F (sp :: _) => reflexivity
  | |- F (pnl :: _) => reflexivity
  | |- F (pLB :: _) => reflexivity
  | |- F (pRB :: _) => reflexivity
  | |- G (PWord _ :: _) => apply G_word; [litw | |]
  | |- G (PNum _ :: _) => apply G_num; [litw | |]
  | |- G (_ :: _) => apply G_sep; [reflexivity | reflexivity |]
  | |- GS (_ :: _) => apply GS_sep; [reflexivity | reflexivity |]
  end.

Lemma G_dict : forall d, dict_lex d = true -> G (pc_dict d).
Proof. intros [|c d] H; [reflexivity|]. unfold pc_dict. cbn [dict_lex] in H. repeat gstep. Qed.

Lemma F_dict : forall d, F (pc_dict d).
Proof. intros [|c d]; reflexivity. Qed.

Lemma G_type : forall t, type_lex t = true -> G (pc_type t).
Proof.
  induction t as [d|p d|n d|n d|n d|n d|e IHt d r]; cbn [pc_type type_lex]; intros H; try (repeat gstep).
  - destruct p; repeat gstep.
  - apply andb_true_iff in H. destruct H as [H1 H2].
    apply (GS_app [PPu 91 TkLBracket; PPu 93 TkRBracket]); [repeat gstep|].
    apply G_app; [apply IHt; exact H1 | apply G_dict; exact H2 | apply F_dict].
Qed.

Lemma G_ftype : forall t, ftype_lex t = true -> G (pc_type t ++ pc_dict (it_dict t)).
Proof.
  intros t H. apply andb_true_iff in H. destruct H as [H1 H2].
  apply G_app; [apply G_type; exact H1 | apply G_dict; exact H2 | apply F_dict].
Qed.

Lemma G_field : forall f, field_lex f = true -> G (pc_field f).
Proof.
  intros f H. apply andb_true_iff in H. destruct H as [H1 H2]. unfold pc_field.
  cbn [app]. gstep; [gstep|]. apply (GS_app [sp]); [repeat gstep|].
  rewrite app_assoc. apply G_app; [apply G_ftype; exact H2 | destruct (if_opt f); repeat gstep
                                   | destruct (if_opt f); gstep].
Qed.

Lemma G_struct : forall s, struct_lex s = true -> G (pc_struct s).
Proof.
  intros s H. unfold struct_lex in H. apply andb_true_iff in H. destruct H as [H H3].
  apply andb_true_iff in H. destruct H as [H1 H2]. unfold pc_struct.
  assert (Hfl : G (flat_map (fun f => [pnl; sp; sp] ++ pc_field f) (is_fields s)) /\
                F (flat_map (fun f => [pnl; sp; sp] ++ pc_field f) (is_fields s))).
  { apply GF_flat_map. intros f Hin. split; [|reflexivity].
    apply (GS_app [pnl; sp; sp]); [repeat gstep|]. apply G_field.
    rewrite forallb_forall in H3. apply H3. exact Hin. }
  destruct Hfl as [Hg Hf].
  assert (Hbody : G (flat_map (fun f => [pnl; sp; sp] ++ pc_field f) (is_fields s) ++ [pnl; pRB]) /\
                  F (flat_map (fun f => [pnl; sp; sp] ++ pc_field f) (is_fields s) ++ [pnl; pRB])).
  { split; [apply G_app; [exact Hg | repeat gstep | reflexivity] | apply F_app; [exact Hf | reflexivity]]. }
  destruct Hbody as [Hbg Hbf].
  apply G_app; [|exact Hbg|exact Hbf].
  destruct (is_oneof s); [repeat gstep|].
  cbn [app]. gstep; [gstep|]. apply (GS_app [sp]); [repeat gstep|].
  gstep.
  - apply F_app; [apply F_dict|]. destruct (is_root s); reflexivity.
  - apply G_app; [apply G_dict; exact H2 | destruct (is_root s); cbn [app]; repeat gstep | destruct (is_root s); reflexivity].
Qed.

Lemma G_multimap : forall m, mmap_lex m = true -> G (pc_multimap m).
Proof.
  intros m H. unfold mmap_lex in H. apply andb_true_iff in H. destruct H as [H H3].
  apply andb_true_iff in H. destruct H as [H1 H2]. unfold pc_multimap.
  cbn [app]. gstep; [gstep|]. apply (GS_app [sp]); [repeat gstep|].
  gstep; [gstep|]. apply (GS_app [sp; pLB; pnl; sp; sp]); [repeat gstep|].
  gstep; [gstep|]. apply (GS_app [sp]); [repeat gstep|].
  rewrite app_assoc. apply G_app; [apply G_ftype; exact H2 | | reflexivity].
  apply (GS_app [pnl; sp; sp]); [repeat gstep|].
  gstep; [gstep|]. apply (GS_app [sp]); [repeat gstep|].
  rewrite app_assoc. apply G_app; [apply G_ftype; exact H3 | repeat gstep | reflexivity].
Qed.

Lemma G_enum : forall e, enum_lex e = true -> G (pc_enum e).
Proof.
  intros e H. unfold enum_lex in H. apply andb_true_iff in H. destruct H as [H1 H2]. unfold pc_enum.
  assert (Hfl : G (flat_map pc_enum_field (ie_fields e)) /\ F (flat_map pc_enum_field (ie_fields e))).
  { apply GF_flat_map. intros f Hin. split; [|reflexivity].
    rewrite forallb_forall in H2. specialize (H2 f Hin). unfold efield_lex in H2.
    apply andb_true_iff in H2. destruct H2 as [H2 H3]. unfold pc_enum_field.
    apply (GS_app [pnl; sp; sp]); [repeat gstep|]. cbn [app].
    gstep; [gstep|]. apply (GS_app [sp; PPu 61 TkAssign; sp]); [repeat gstep|]. repeat gstep. }
  destruct Hfl as [Hg Hf].
  cbn [app]. gstep; [gstep|]. apply (GS_app [sp]); [repeat gstep|].
  gstep; [gstep|]. apply (GS_app [sp; pLB]); [repeat gstep|].
  apply G_app; [exact Hg | repeat gstep | reflexivity].
Qed.

Lemma G_pkg : forall pkg, forallb word_ok pkg = true -> G (pc_pkg pkg).
Proof.
  intros pkg H. unfold pc_pkg. cbn [app]. gstep; [gstep|]. apply (GS_app [sp]); [repeat gstep|].
  apply G_pjoin; [repeat gstep | reflexivity |].
  intros x Hin. apply in_map_iff in Hin. destruct Hin as [c [<- Hc]].
  rewrite forallb_forall in H. specialize (H c Hc). repeat gstep.
Qed.

(* the sorted lists are drawn from the schema's own definitions *)
Lemma find_struct_in' : forall l n sd, find_struct l n = Some sd -> In sd l.
Proof.
  induction l as [|s l IH]; intros n sd H; [discriminate|]. cbn [find_struct] in H.
  destruct (str_eqb (is_name s) n); [inversion H; now left | right; eauto].
Qed.
Lemma find_mmap_in' : forall l n sd, find_mmap l n = Some sd -> In sd l.
Proof.
  induction l as [|s l IH]; intros n sd H; [discriminate|]. cbn [find_mmap] in H.
  destruct (str_eqb (im_name s) n); [inversion H; now left | right; eauto].
Qed.
Lemma find_enum_in' : forall l n sd, find_enum l n = Some sd -> In sd l.
Proof.
  induction l as [|s l IH]; intros n sd H; [discriminate|]. cbn [find_enum] in H.
  destruct (str_eqb (ie_name s) n); [inversion H; now left | right; eauto].
Qed.

Lemma sorted_structs_in : forall sch s, In s (sorted_structs sch) -> In s (i_structs sch).
Proof.
  intros sch s H. unfold sorted_structs in H. apply in_flat_map in H. destruct H as [n [_ H]].
  destruct (find_struct (i_structs sch) n) eqn:E; [|contradiction].
  destruct H as [<-|[]]. eapply find_struct_in'; eauto.
Qed.
Lemma sorted_mmaps_in : forall sch s, In s (sorted_mmaps sch) -> In s (i_mmaps sch).
Proof.
  intros sch s H. unfold sorted_mmaps in H. apply in_flat_map in H. destruct H as [n [_ H]].
  destruct (find_mmap (i_mmaps sch) n) eqn:E; [|contradiction].
  destruct H as [<-|[]]. eapply find_mmap_in'; eauto.
Qed.
Lemma sorted_enums_in : forall sch s, In s (sorted_enums sch) -> In s (i_enums sch).
Proof.
  intros sch s H. unfold sorted_enums in H. apply in_flat_map in H. destruct H as [n [_ H]].
  destruct (find_enum (i_enums sch) n) eqn:E; [|contradiction].
  destruct H as [<-|[]]. eapply find_enum_in'; eauto.
Qed.

Theorem lexable_good : forall s, lexable s = true -> good (pc_schema s) true = true.
Proof.
  intros s H. unfold lexable in H. rewrite !andb_true_iff in H. destruct H as [[[Hp Hs] Hm] He].
  change (G (pc_schema s)). unfold pc_schema.
  apply G_pjoin; [repeat gstep | reflexivity |].
  intros x [<-|Hin]; [apply G_pkg; exact Hp|].
  unfold pc_defs in Hin. rewrite !in_app_iff, !in_map_iff in Hin.
  rewrite forallb_forall in Hs, Hm, He.
  destruct Hin as [[e [<- Hin]]|[[m [<- Hin]]|[sd [<- Hin]]]].
  - apply G_enum, He, sorted_enums_in, Hin.
  - apply G_multimap, Hm, sorted_mmaps_in, Hin.
  - apply G_struct, Hs, sorted_structs_in, Hin.
Qed.

(* ---------- 3. UTF-8 ---------- *)
Definition rune_of (c : N) : rune :=
  mkRune c (if c <? 128 then 1 else if c <? 2048 then 2 else if c <? 65536 then 3 else 4).
Definition scalar (c : N) : bool := (c <? 55296) || ((57343 <? c) && (c <? 1114112)).

Lemma decode_encode1 : forall c rest, scalar c = true ->
  utf8_decode (utf8_encode1 c ++ rest) = rune_of c :: utf8_decode rest.
Proof.
  intros c rest Hs. unfold scalar in Hs. unfold utf8_encode1, rune_of.
  destruct (c <? 128) eqn:E1.
  { cbn [app utf8_decode]. rewrite E1. reflexivity. }
  destruct (c <? 2048) eqn:E2.
  { cbn [app utf8_decode].
    replace (192 + c / 64 <? 128) with false by lia.
    replace (192 + c / 64 <? 194) with false by lia.
    replace (192 + c / 64 <? 224) with true by lia.
    unfold in_range.
    replace ((128 <=? 128 + c mod 64) && (128 + c mod 64 <=? 191)) with true by lia.
    do 2 f_equal. lia. }
  destruct (c <? 65536) eqn:E3.
  { cbn [app utf8_decode].
    replace (224 + c / 4096 <? 128) with false by lia.
    replace (224 + c / 4096 <? 194) with false by lia.
    replace (224 + c / 4096 <? 224) with false by lia.
    replace (224 + c / 4096 <? 240) with true by lia.
    unfold in_range.
    destruct (224 + c / 4096 =? 224) eqn:Ea; destruct (224 + c / 4096 =? 237) eqn:Eb;
      try (exfalso; lia);
      match goal with |- (if ?b then _ else _) = _ => replace b with true by lia end;
      do 2 f_equal; lia. }
  cbn [app utf8_decode].
  replace (240 + c / 262144 <? 128) with false by lia.
  replace (240 + c / 262144 <? 194) with false by lia.
  replace (240 + c / 262144 <? 224) with false by lia.
  replace (240 + c / 262144 <? 240) with false by lia.
  replace (240 + c / 262144 <? 245) with true by lia.
  unfold in_range.
  destruct (240 + c / 262144 =? 240) eqn:Ea; destruct (240 + c / 262144 =? 244) eqn:Eb;
    try (exfalso; lia);
    match goal with |- (if ?b then _ else _) = _ => replace b with true by lia end;
    do 2 f_equal; lia.
Qed.

Definition runes (s : str) : list rune := map rune_of s.

Lemma decode_encode : forall s, forallb scalar s = true -> utf8_decode (utf8_encode s) = runes s.
Proof.
  induction s as [|c s IH]; intros H; [reflexivity|].
  cbn [forallb] in H. apply andb_true_iff in H. destruct H as [H1 H2].
  unfold utf8_encode. cbn [flat_map]. rewrite decode_encode1 by exact H1.
  cbn [runes map]. f_equal. apply IH. exact H2.
Qed.

(* ---------- 3b. code point classes ---------- *)
Lemma in_ranges_sound : forall (Q : N -> N -> bool) l,
  forallb (fun r => Q (fst r) (snd r)) l = true ->
  forall c, in_ranges c l = true -> exists lo hi, Q lo hi = true /\ lo <= c /\ c <= hi.
Proof.
  intros Q. induction l as [|[lo hi] l IH]; intros H c Hc; [discriminate|].
  cbn [forallb fst snd] in H. apply andb_true_iff in H. destruct H as [H1 H2].
  cbn [in_ranges] in Hc. destruct (c <? lo) eqn:E1; [discriminate|].
  destruct (c <=? hi) eqn:E2; [exists lo, hi; repeat split; [exact H1|lia|lia] | eauto].
Qed.

Lemma in_ranges_false : forall c l, forallb (fun r => (c <? fst r) || (snd r <? c)) l = true ->
  in_ranges c l = false.
Proof.
  induction l as [|[lo hi] l IH]; intros H; [reflexivity|].
  cbn [forallb fst snd] in H. apply andb_true_iff in H. destruct H as [H1 H2].
  cbn [in_ranges]. destruct (c <? lo) eqn:E1; [reflexivity|].
  destruct (c <=? hi) eqn:E2; [lia | auto].
Qed.

(* a range of identifier characters: scalar values, away from every white space range *)
Definition idrange (lo hi : N) : bool :=
  (hi <? 1114112) && ((hi <? 55296) || (57343 <? lo))
  && forallb (fun sr => (hi <? fst sr) || (snd sr <? lo)) space_ranges.
Definition letrange (lo hi : N) : bool :=
  idrange lo hi && (65 <=? lo) && ((hi <? 91) || (96 <? lo)) && ((hi <? 123) || (125 <? lo)).

Lemma letter_table : forallb (fun r => letrange (fst r) (snd r)) letter_ranges = true.
Proof. vm_compute. reflexivity. Qed.
Lemma udigit_table : forallb (fun r => idrange (fst r) (snd r)) digit_ranges = true.
Proof. vm_compute. reflexivity. Qed.

Lemma idrange_props : forall lo hi c, idrange lo hi = true -> lo <= c -> c <= hi ->
  scalar c = true /\ is_space c = false.
Proof.
  intros lo hi c H Hlo Hhi. unfold idrange in H. rewrite !andb_true_iff in H. destruct H as [[H1 H2] H3].
  split; [unfold scalar; lia|].
  apply in_ranges_false. rewrite forallb_forall in *. intros [slo shi] Hin. specialize (H3 _ Hin).
  cbn [fst snd] in *. lia.
Qed.

Lemma letter_props : forall c, is_letter c = true ->
  scalar c = true /\ is_space c = false /\ punct c = None /\ (c =? 47) = false /\ 65 <= c.
Proof.
  intros c H. destruct (in_ranges_sound letrange _ letter_table c H) as [lo [hi [HQ [Hlo Hhi]]]].
  unfold letrange in HQ. rewrite !andb_true_iff in HQ. destruct HQ as [[[H1 H2] H3] H4].
  destruct (idrange_props lo hi c H1 Hlo Hhi) as [Hs Hsp].
  repeat split; try assumption; try lia.
  unfold punct.
  replace (c =? 46) with false by lia. replace (c =? 61) with false by lia.
  replace (c =? 40) with false by lia. replace (c =? 41) with false by lia.
  replace (c =? 91) with false by lia. replace (c =? 93) with false by lia.
  replace (c =? 125) with false by lia. replace (c =? 123) with false by lia. reflexivity.
Qed.

Lemma ident_char_scalar : forall c, ident_char c = true -> scalar c = true.
Proof.
  intros c H. unfold ident_char in H. rewrite !orb_true_iff in H. destruct H as [[H|H]|H].
  - apply letter_props in H. tauto.
  - destruct (in_ranges_sound idrange _ udigit_table c H) as [lo [hi [HQ [Hlo Hhi]]]].
    eapply idrange_props; eauto.
  - unfold scalar. lia.
Qed.

Lemma digit_cases : forall c, is_digit c = true ->
  c = 48 \/ c = 49 \/ c = 50 \/ c = 51 \/ c = 52 \/ c = 53 \/ c = 54 \/ c = 55 \/ c = 56 \/ c = 57.
Proof. intros c H. unfold is_digit, in_range in H. lia. Qed.

Lemma digit_props : forall c, is_digit c = true ->
  scalar c = true /\ is_space c = false /\ punct c = None /\ (c =? 47) = false /\ is_letter c = false
  /\ is_number_continuation c = true.
Proof.
  intros c H. apply digit_cases in H.
  repeat (destruct H as [H|H]; [subst c; vm_compute; repeat split; reflexivity|]).
  subst c; vm_compute; repeat split; reflexivity.
Qed.

(* the separators the printer emits *)
Definition sep_char (c : N) : bool :=
  (c =? 32) || (c =? 10) || match punct c with Some _ => true | None => false end.

Lemma sep_char_cases : forall c, sep_char c = true ->
  c = 32 \/ c = 10 \/ c = 46 \/ c = 61 \/ c = 40 \/ c = 41 \/ c = 91 \/ c = 93 \/ c = 125 \/ c = 123.
Proof.
  intros c H. unfold sep_char, punct in H.
  destruct (c =? 32) eqn:E1; [lia|]. destruct (c =? 10) eqn:E2; [lia|].
  destruct (c =? 46) eqn:E3; [lia|]. destruct (c =? 61) eqn:E4; [lia|].
  destruct (c =? 40) eqn:E5; [lia|]. destruct (c =? 41) eqn:E6; [lia|].
  destruct (c =? 91) eqn:E7; [lia|]. destruct (c =? 93) eqn:E8; [lia|].
  destruct (c =? 125) eqn:E9; [lia|]. destruct (c =? 123) eqn:E10; [lia|]. discriminate.
Qed.

Lemma sep_char_props : forall c, sep_char c = true ->
  scalar c = true /\ ident_char c = false /\ is_number_continuation c = false /\ (c =? 47) = false.
Proof.
  intros c H. apply sep_char_cases in H.
  repeat (destruct H as [H|H]; [subst c; vm_compute; repeat split; reflexivity|]).
  subst c; vm_compute; repeat split; reflexivity.
Qed.

(* ---------- 3c. %d and strconv.ParseUint ---------- *)
Lemma pu_step : forall k r m us, k < 10 -> m * 10 + k <= max_u64 ->
  pu_loop 10 ((48 + k) :: r) m us = pu_loop 10 r (m * 10 + k) us.
Proof.
  intros k r m us Hk Hm. cbn [pu_loop].
  replace (48 + k =? 95) with false by lia.
  unfold digit_val, in_range. replace ((48 <=? 48 + k) && (48 + k <=? 57)) with true by lia.
  replace (48 + k - 48) with k by lia.
  replace (10 <=? k) with false by lia. replace (max_u64 <? m * 10 + k) with false by lia. reflexivity.
Qed.

Lemma dec_digits_S : forall f n acc,
  dec_digits (S f) n acc =
  if n <? 10 then (48 + n mod 10) :: acc else dec_digits f (n / 10) ((48 + n mod 10) :: acc).
Proof. reflexivity. Qed.

Lemma dec_digits_spec : forall f n acc, n < 2 ^ N.of_nat f -> n <= max_u64 ->
  exists c ds, dec_digits (S f) n acc = c :: ds ++ acc /\ is_digit c = true /\ forallb is_digit ds = true
    /\ (0 < n -> c <> 48)
    /\ forall rest us, pu_loop 10 (c :: ds ++ rest) 0 us = pu_loop 10 rest n us.
Proof.
  induction f as [|f IH]; intros n acc Hn Hmax.
  - change (2 ^ N.of_nat 0) with 1 in Hn. assert (n = 0) by lia. subst n.
    exists 48, []. repeat split; try reflexivity; try lia.
  - rewrite dec_digits_S. destruct (n <? 10) eqn:E.
    + exists (48 + n mod 10), []. repeat split.
      * unfold is_digit, in_range. lia.
      * lia.
      * intros rest us. cbn [app]. rewrite pu_step by lia. f_equal. lia.
    + assert (Hp : 2 ^ N.of_nat (S f) = 2 * 2 ^ N.of_nat f).
      { rewrite Nat2N.inj_succ. apply N.pow_succ_r'. }
      destruct (IH (n / 10) ((48 + n mod 10) :: acc)) as [c [ds [E1 [E2 [E3 [E4 E5]]]]]]; [lia|lia|].
      rewrite E1. exists c, (ds ++ [48 + n mod 10]). repeat split.
      * rewrite <- app_assoc. reflexivity.
      * exact E2.
      * rewrite forallb_app, E3. cbn [forallb]. unfold is_digit, in_range. lia.
      * intros _. apply E4. lia.
      * intros rest us. rewrite <- app_assoc. cbn [app]. rewrite E5, pu_step by lia. f_equal. lia.
Qed.

Lemma size_nat_gt : forall n, n < 2 ^ N.of_nat (N.size_nat n).
Proof.
  intros [|p]; [reflexivity|]. cbn [N.size_nat].
  induction p as [p IH|p IH|]; cbn [Pos.size_nat]; try rewrite Nat2N.inj_succ, N.pow_succ_r'; try lia.
Qed.

Lemma decimal_spec : forall n, n <= max_u64 ->
  exists c ds, decimal n = c :: ds /\ is_digit c = true /\ forallb is_digit ds = true
    /\ parse_uint0 (c :: ds) = Some n.
Proof.
  intros n Hmax. unfold decimal.
  destruct (dec_digits_spec (N.size_nat n) n [] (size_nat_gt n) Hmax) as [c [ds [E1 [E2 [E3 [E4 E5]]]]]].
  rewrite app_nil_r in E1. exists c, ds. repeat split; try assumption.
  destruct (N.eq_dec n 0) as [->|Hn].
  - vm_compute in E1. inversion E1. reflexivity.
  - unfold parse_uint0. replace (c =? 48) with false by lia.
    specialize (E5 [] false). rewrite app_nil_r in E5. rewrite E5. reflexivity.
Qed.

(* ---------- 4. the lexer on rendered pieces ---------- *)
Definition next_body (prev : pos) (x : list rune * pos * bool) : token * lst :=
  let '(rs, p, cr) := x in
  match rs with
  | [] => (mkTok TkEOF prev [] 0 LexNone, mkLst [] p cr)
  | r :: tl =>
    let c := r_cp r in
    match punct c with
    | Some k => let '(p', cr') := adv_pos p cr tl in (mkTok k prev [] 0 LexNone, mkLst tl p' cr')
    | None =>
      if is_letter c then
        let '(id, (rs', p', cr')) := read_ident rs p cr [] in
        (mkTok (match keyword id with Some k => k | None => TkIdent end) prev id 0 LexNone, mkLst rs' p' cr')
      else if is_digit c then
        let '(p1, cr1) := adv_pos p cr tl in
        let '(ds, (rs', p', cr')) := read_numcont tl p1 cr1 [c] in
        match parse_uint0 ds with
        | Some v => (mkTok TkIntNumber prev [] v LexNone, mkLst rs' p' cr')
        | None => (mkTok TkError prev [] 0 LexNumber, mkLst rs' p' cr')
        end
      else
        let '(p', cr') := adv_pos p cr tl in (mkTok TkError prev [] 0 LexChar, mkLst tl p' cr')
    end
  end.

Lemma next_token_body : forall st,
  next_token st = next_body (l_pos st) (skip_ws false (l_rs st) (l_pos st) (l_cr st)).
Proof. reflexivity. Qed.

Definition retag (p : pos) (t : token) : token := mkTok (t_kind t) p (t_ident t) (t_num t) (t_err t).

Lemma next_body_retag : forall prev prev' x,
  next_body prev x = (retag prev (fst (next_body prev' x)), snd (next_body prev' x)).
Proof.
  intros prev prev' [[rs p] cr]. unfold next_body. destruct rs as [|r tl]; [reflexivity|].
  destruct (punct (r_cp r)).
  { destruct (adv_pos p cr tl). reflexivity. }
  destruct (is_letter (r_cp r)).
  { destruct (read_ident (r :: tl) p cr []) as [id [[rs' p'] cr']]. reflexivity. }
  destruct (is_digit (r_cp r)).
  { destruct (adv_pos p cr tl) as [p1 cr1].
    destruct (read_numcont tl p1 cr1 [r_cp r]) as [ds [[rs' p'] cr']].
    destruct (parse_uint0 ds); reflexivity. }
  destruct (adv_pos p cr tl). reflexivity.
Qed.

Definition stop_ok (R : list rune) : Prop :=
  match R with
  | [] => True
  | r :: _ => ident_char (r_cp r) = false /\ is_number_continuation (r_cp r) = false
  end.

Lemma skip_ws_stop : forall r tl p cr, is_space (r_cp r) = false -> (r_cp r =? 47) = false ->
  skip_ws false (r :: tl) p cr = (r :: tl, p, cr).
Proof. intros r tl p cr H1 H2. cbn [skip_ws]. destruct (adv_pos p cr tl). rewrite H1, H2. reflexivity. Qed.

Lemma skip_ws_space : forall r tl p cr, is_space (r_cp r) = true ->
  skip_ws false (r :: tl) p cr = skip_ws false tl (fst (adv_pos p cr tl)) (snd (adv_pos p cr tl)).
Proof. intros r tl p cr H1. cbn [skip_ws]. destruct (adv_pos p cr tl). rewrite H1. reflexivity. Qed.

Lemma read_ident_runes : forall w R p cr acc, forallb ident_char w = true -> stop_ok R ->
  exists p' cr', read_ident (runes w ++ R) p cr acc = (acc ++ w, (R, p', cr')).
Proof.
  induction w as [|c w IH]; intros R p cr acc Hw HR.
  - cbn [runes map app]. rewrite app_nil_r. destruct R as [|r R]; [exists p, cr; reflexivity|].
    destruct HR as [HR _]. cbn [read_ident]. rewrite HR. exists p, cr. reflexivity.
  - cbn [forallb] in Hw. apply andb_true_iff in Hw. destruct Hw as [Hc Hw].
    cbn [runes map app read_ident]. change (r_cp (rune_of c)) with c. rewrite Hc.
    destruct (adv_pos p cr (map rune_of w ++ R)) as [p1 cr1].
    destruct (IH R p1 cr1 (acc ++ [c]) Hw HR) as [p' [cr' E]].
    exists p', cr'. unfold runes in E. rewrite E, <- app_assoc. reflexivity.
Qed.

Lemma read_numcont_runes : forall w R p cr acc, forallb is_digit w = true -> stop_ok R ->
  exists p' cr', read_numcont (runes w ++ R) p cr acc = (acc ++ w, (R, p', cr')).
Proof.
  induction w as [|c w IH]; intros R p cr acc Hw HR.
  - cbn [runes map app]. rewrite app_nil_r. destruct R as [|r R]; [exists p, cr; reflexivity|].
    destruct HR as [_ HR]. cbn [read_numcont]. rewrite HR. exists p, cr. reflexivity.
  - cbn [forallb] in Hw. apply andb_true_iff in Hw. destruct Hw as [Hc Hw].
    cbn [runes map app read_numcont]. change (r_cp (rune_of c)) with c.
    apply digit_props in Hc. destruct Hc as (_ & _ & _ & _ & _ & Hc). rewrite Hc.
    destruct (adv_pos p cr (map rune_of w ++ R)) as [p1 cr1].
    destruct (IH R p1 cr1 (acc ++ [c]) Hw HR) as [p' [cr' E]].
    exists p', cr'. unfold runes in E. rewrite E, <- app_assoc. reflexivity.
Qed.

Lemma runes_app : forall a b, runes (a ++ b) = runes a ++ runes b.
Proof. intros. unfold runes. apply map_app. Qed.

(* the token at a word, a number, a punctuation mark *)
Lemma next_word : forall w R p cr, word_ok w = true -> stop_ok R ->
  exists p' cr', next_token (mkLst (runes w ++ R) p cr) = (mkTok (word_kind w) p w 0 LexNone, mkLst R p' cr').
Proof.
  intros w R p cr Hw HR. destruct w as [|c w]; [discriminate|].
  cbn [word_ok] in Hw. apply andb_true_iff in Hw. destruct Hw as [Hc Hw].
  assert (Hic : forallb ident_char (c :: w) = true).
  { cbn [forallb]. rewrite Hw. unfold ident_char. rewrite Hc. reflexivity. }
  destruct (letter_props c Hc) as (_ & Hsp & Hpu & H47 & _).
  destruct (read_ident_runes (c :: w) R p cr [] Hic HR) as [p' [cr' E]].
  exists p', cr'. rewrite next_token_body. cbn [l_rs l_pos l_cr].
  cbn [runes map app] in *. rewrite skip_ws_stop by assumption.
  unfold next_body. change (r_cp (rune_of c)) with c. rewrite Hpu, Hc.
  unfold runes in E. rewrite E. reflexivity.
Qed.

Lemma next_num : forall n R p cr, n <= max_u64 -> stop_ok R ->
  exists p' cr', next_token (mkLst (runes (decimal n) ++ R) p cr)
                 = (mkTok TkIntNumber p [] n LexNone, mkLst R p' cr').
Proof.
  intros n R p cr Hn HR. destruct (decimal_spec n Hn) as [c [ds [E1 [E2 [E3 E4]]]]]. rewrite E1.
  destruct (digit_props c E2) as (_ & Hsp & Hpu & H47 & Hl & _).
  rewrite next_token_body. cbn [l_rs l_pos l_cr runes map app]. rewrite skip_ws_stop by assumption.
  unfold next_body. change (r_cp (rune_of c)) with c. rewrite Hpu, Hl, E2.
  destruct (adv_pos p cr (map rune_of ds ++ R)) as [p1 cr1].
  destruct (read_numcont_runes ds R p1 cr1 [c] E3 HR) as [p' [cr' E]].
  unfold runes in E. rewrite E. cbn [app]. rewrite E4. exists p', cr'. reflexivity.
Qed.

Lemma next_punct : forall c k R p cr, punct c = Some k ->
  exists p' cr', next_token (mkLst (rune_of c :: R) p cr) = (mkTok k p [] 0 LexNone, mkLst R p' cr').
Proof.
  intros c k R p cr Hk.
  assert (Hs : sep_char c = true) by (unfold sep_char; rewrite Hk; apply orb_true_r).
  destruct (sep_char_props c Hs) as (_ & _ & _ & H47).
  assert (Hsp : is_space c = false).
  { apply sep_char_cases in Hs.
    destruct Hs as [->|[->|Hs]]; [discriminate Hk|discriminate Hk|].
    repeat (destruct Hs as [Hs|Hs]; [subst c; reflexivity|]). subst c; reflexivity. }
  rewrite next_token_body. cbn [l_rs l_pos l_cr]. rewrite skip_ws_stop by assumption.
  unfold next_body. change (r_cp (rune_of c)) with c. rewrite Hk.
  destruct (adv_pos p cr R) as [p' cr']. exists p', cr'. reflexivity.
Qed.

Lemma next_space : forall c R p cr, is_space c = true ->
  exists p' cr', next_token (mkLst (rune_of c :: R) p cr)
     = (retag p (fst (next_token (mkLst R p' cr'))), snd (next_token (mkLst R p' cr'))).
Proof.
  intros c R p cr H. exists (fst (adv_pos p cr R)), (snd (adv_pos p cr R)).
  rewrite !next_token_body. cbn [l_rs l_pos l_cr]. rewrite skip_ws_space by exact H.
  apply next_body_retag.
Qed.

Lemma punct_not_eof : forall c k, punct c = Some k -> tkind_eqb k TkEOF = false.
Proof.
  intros c k H. unfold punct in H.
  repeat match type of H with (if ?b then _ else _) = _ => destruct b; [inversion H; reflexivity|] end.
  discriminate.
Qed.

Lemma assoc_not_eof : forall (l : list (str * tkind)) w,
  forallb (fun kv => negb (tkind_eqb (snd kv) TkEOF)) l = true ->
  tkind_eqb match assoc_str l w with Some k => k | None => TkIdent end TkEOF = false.
Proof.
  induction l as [|[k v] l IH]; intros w Hl; [reflexivity|].
  cbn [forallb snd] in Hl. apply andb_true_iff in Hl. destruct Hl as [H1 H2].
  cbn [assoc_str]. destruct (str_eqb k w); [apply negb_true_iff; exact H1 | auto].
Qed.

Lemma word_kind_not_eof : forall w, tkind_eqb (word_kind w) TkEOF = false.
Proof. intros w. unfold word_kind, keyword. apply assoc_not_eof. reflexivity. Qed.

Lemma first_safe_stop : forall ps, good ps true = true -> first_safe ps true = true ->
  stop_ok (runes (render ps)).
Proof.
  intros [|q ps] Hg Hf; [exact I|].
  cbn [good] in Hg. rewrite !andb_true_iff in Hg. destruct Hg as [[Hq _] _].
  cbn [first_safe] in Hf.
  assert (H : exists c, render (q :: ps) = c :: render ps /\ sep_char c = true).
  { destruct q as [c|c k|w|n]; try discriminate Hf; exists c; (split; [reflexivity|]);
      cbn [piece_ok] in Hq; unfold sep_char.
    - rewrite Hq. reflexivity.
    - destruct (punct c); [apply orb_true_r | discriminate]. }
  destruct H as [c [E Hc]]. rewrite E. cbn [runes map stop_ok]. change (r_cp (rune_of c)) with c.
  destruct (sep_char_props c Hc) as (_ & H1 & H2 & _). split; assumption.
Qed.

Lemma tkind_eqb_true : forall a b, tkind_eqb a b = true -> a = b.
Proof. destruct a, b; intros H; try reflexivity; discriminate H. Qed.

Lemma lex_all_S : forall f st,
  lex_all (S f) st = let '(t, st') := next_token st in if is_eof t then [t] else t :: lex_all f st'.
Proof. reflexivity. Qed.

Lemma lex_pieces_aux : forall ps p cr fuel, good ps true = true -> (length (toks ps) < fuel)%nat ->
  map erase (lex_all fuel (mkLst (runes (render ps)) p cr)) = toks ps ++ [a_eof].
Proof.
  induction ps as [|q ps IH]; intros p cr fuel Hg Hfuel.
  - destruct fuel as [|f]; [cbn [toks flat_map length] in Hfuel; lia|]. reflexivity.
  - cbn [good] in Hg. rewrite !andb_true_iff in Hg. destruct Hg as [[Hq Hs] Hg].
    change (render (q :: ps)) with (render1 q ++ render ps). rewrite runes_app.
    change (toks (q :: ps)) with (tok1 q ++ toks ps) in *.
    destruct q as [c|c k|w|n]; cbn [piece_ok needs_sep render1 tok1 app] in *.
    + (* space *)
      assert (Hsp : is_space c = true).
      { apply orb_true_iff in Hq. destruct Hq as [Hq|Hq]; apply N.eqb_eq in Hq; subst c; reflexivity. }
      destruct fuel as [|f]; [lia|].
      cbn [runes map app]. destruct (next_space c (runes (render ps)) p cr Hsp) as [p' [cr' E]].
      specialize (IH p' cr' (S f) Hg Hfuel). rewrite lex_all_S in *. rewrite E.
      destruct (next_token (mkLst (runes (render ps)) p' cr')) as [t st'].
      cbn [fst snd]. change (is_eof (retag p t)) with (is_eof t).
      destruct (is_eof t); exact IH.
    + (* punctuation *)
      destruct (punct c) as [k'|] eqn:Ek; [|discriminate]. apply tkind_eqb_true in Hq. subst k'.
      destruct fuel as [|f]; [lia|].
      cbn [runes map app]. destruct (next_punct c k (runes (render ps)) p cr Ek) as [p' [cr' E]].
      cbn [lex_all]. rewrite E. unfold is_eof. cbn [t_kind]. rewrite (punct_not_eof c k Ek).
      cbn [map]. f_equal. apply IH; [exact Hg | cbn [length] in Hfuel; lia].
    + (* word *)
      destruct fuel as [|f]; [lia|].
      destruct (next_word w (runes (render ps)) p cr Hq (first_safe_stop ps Hg Hs)) as [p' [cr' E]].
      cbn [lex_all]. rewrite E. unfold is_eof. cbn [t_kind]. rewrite word_kind_not_eof.
      cbn [map]. f_equal. apply IH; [exact Hg | cbn [length] in Hfuel; lia].
    + (* number *)
      destruct fuel as [|f]; [lia|].
      assert (Hn : n <= max_u64) by lia.
      destruct (next_num n (runes (render ps)) p cr Hn (first_safe_stop ps Hg Hs)) as [p' [cr' E]].
      cbn [lex_all]. rewrite E. change (is_eof (mkTok TkIntNumber p [] n LexNone)) with false.
      cbn [map]. f_equal. apply IH; [exact Hg | cbn [length] in Hfuel; lia].
Qed.

Lemma piece_scalar_len : forall q, piece_ok q = true ->
  forallb scalar (render1 q) = true /\ (length (tok1 q) <= length (render1 q))%nat.
Proof.
  intros [c|c k|w|n] Hq; cbn [piece_ok render1 tok1] in *.
  - split; [|cbn [length]; lia]. cbn [forallb]. rewrite andb_true_r.
    apply orb_true_iff in Hq. destruct Hq as [Hq|Hq]; apply N.eqb_eq in Hq; subst c; reflexivity.
  - split; [|cbn [length]; lia]. cbn [forallb]. rewrite andb_true_r.
    assert (Hs : sep_char c = true).
    { unfold sep_char. destruct (punct c); [apply orb_true_r | discriminate]. }
    apply sep_char_props in Hs. tauto.
  - destruct w as [|c w]; [discriminate|]. split; [|cbn [length]; lia].
    cbn [word_ok] in Hq. apply andb_true_iff in Hq. destruct Hq as [Hc Hw].
    cbn [forallb]. apply andb_true_iff. split; [apply letter_props in Hc; tauto|].
    rewrite forallb_forall in *. intros x Hx. apply ident_char_scalar. auto.
  - assert (Hn : n <= max_u64) by lia.
    destruct (decimal_spec n Hn) as [c [ds [E1 [E2 [E3 _]]]]]. rewrite E1.
    split; [|cbn [length]; lia].
    cbn [forallb]. apply andb_true_iff. split; [apply digit_props in E2; tauto|].
    rewrite forallb_forall in *. intros x Hx. specialize (E3 x Hx). apply digit_props in E3. tauto.
Qed.

Lemma good_scalar_len : forall ps x, good ps x = true ->
  forallb scalar (render ps) = true /\ (length (toks ps) <= length (render ps))%nat.
Proof.
  induction ps as [|q ps IH]; intros x H; [split; [reflexivity | cbn [toks render flat_map length]; lia]|].
  cbn [good] in H. rewrite !andb_true_iff in H. destruct H as [[Hq _] Hg].
  destruct (IH x Hg) as [IH1 IH2]. destruct (piece_scalar_len q Hq) as [H1 H2].
  change (render (q :: ps)) with (render1 q ++ render ps).
  change (toks (q :: ps)) with (tok1 q ++ toks ps).
  rewrite forallb_app, !app_length, H1, IH1. split; [reflexivity | lia].
Qed.

(* (b), generic form: any good piece list lexes to its tokens *)
Theorem lex_pieces : forall ps, good ps true = true ->
  map erase (tokenize (utf8_encode (render ps))) = toks ps ++ [a_eof].
Proof.
  intros ps Hg. destruct (good_scalar_len ps true Hg) as [Hsc Hlen].
  unfold tokenize, lex_init. rewrite decode_encode by exact Hsc.
  destruct (adv_pos pos0 false (runes (render ps))) as [p cr]. cbn [l_rs].
  apply lex_pieces_aux; [exact Hg|]. unfold runes. rewrite map_length. lia.
Qed.

(* (b): the printed text of a lexable schema lexes to schema_tokens *)
Theorem lex_print : forall s, lexable s = true ->
  map erase (tokenize (utf8_encode (print s))) = schema_tokens s ++ [a_eof].
Proof. intros s H. rewrite print_pieces. apply lex_pieces. apply lexable_good. exact H. Qed.

Print Assumptions lex_print.
