(* C13, parser level: on (any positions attached to) schema_tokens s the parser returns
   ast_schema s, for every printable s. *)
From Coq Require Import List NArith ZArith Bool Lia ZifyN ZifyNat ZifyBool Arith.
From Stef.Idl Require Import Unicode Lexer Ast Parser Resolve Printer SchemaSpec ParserFacts ResolveFacts RecFacts
  RoundTripBase RoundTripLex.
Import ListNotations.
Open Scope N_scope.

(* ---------- token lists seen through erase ---------- *)
Definition hdk (l : list atok) : tkind := a_kind (hd a_eof l).

Lemma map_ne : forall ts l, map erase ts = l -> l <> [] -> ts <> [].
Proof. intros ts l H Hl ->. apply Hl. symmetry. exact H. Qed.

Lemma app_ne_r : forall A (a b : list A), b <> [] -> a ++ b <> [].
Proof. intros A a b Hb H. apply app_eq_nil in H. tauto. Qed.

Ltac ne := repeat (apply app_ne_r); first [assumption | discriminate].

(* the first token of the list *)
Lemma tok_inv : forall ts k i n l, map erase ts = mkA k i n :: l -> l <> [] ->
  exists t ts', ts = t :: ts' /\ t_kind t = k /\ t_ident t = i /\ t_num t = n
                /\ map erase ts' = l /\ advance ts = ts'.
Proof.
  intros ts k i n l H Hl. destruct ts as [|t ts]; [discriminate|].
  cbn [map] in H. injection H as Hk Hi Hn H.
  exists t, ts. repeat split; try assumption.
  destruct ts as [|t' ts]; [cbn [map] in H; subst l; contradiction | reflexivity].
Qed.

Lemma is_cons : forall t ts k, is (t :: ts) k = tkind_eqb (t_kind t) k.
Proof. reflexivity. Qed.
Lemma kind_cons : forall t ts, kind (t :: ts) = t_kind t.
Proof. reflexivity. Qed.
Lemma cur_cons : forall t ts, cur (t :: ts) = t.
Proof. reflexivity. Qed.

Lemma is_hdk : forall ts l k, map erase ts = l -> l <> [] -> is ts k = tkind_eqb (hdk l) k.
Proof.
  intros ts l k H Hl. destruct ts as [|t ts]; [cbn [map] in H; subst l; contradiction|].
  subst l. reflexivity.
Qed.

Lemma kind_hdk : forall ts l, map erase ts = l -> l <> [] -> kind ts = hdk l.
Proof.
  intros ts l H Hl. destruct ts as [|t ts]; [cbn [map] in H; subst l; contradiction|].
  subst l. reflexivity.
Qed.

Lemma tkind_eqb_false : forall a b, a <> b -> tkind_eqb a b = false.
Proof. intros a b H. destruct (tkind_eqb a b) eqn:E; [apply tkind_eqb_true in E; contradiction | reflexivity]. Qed.

Lemma tkind_eqb_refl : forall a, tkind_eqb a a = true.
Proof. destruct a; reflexivity. Qed.

Lemma eat_ok : forall ts k i n l, map erase ts = mkA k i n :: l -> l <> [] ->
  exists ts', eat k ts = Ok ts' /\ map erase ts' = l.
Proof.
  intros ts k i n l H Hl. destruct (tok_inv ts k i n l H Hl) as (t & ts' & -> & Hk & _ & _ & H' & Ha).
  exists ts'. split; [|exact H']. unfold eat. rewrite is_cons, Hk, tkind_eqb_refl, Ha. reflexivity.
Qed.

(* ---------- words ---------- *)
Definition kw (w : str) : atok := mkA (word_kind w) w 0.
Definition pu (k : tkind) : atok := mkA k [] 0.

Lemma ident_ok_kind : forall w, ident_ok w = true -> word_kind w = TkIdent.
Proof.
  intros w H. unfold ident_ok in H. apply andb_true_iff in H. destruct H as [_ H].
  unfold word_kind. destruct (keyword w); [discriminate | reflexivity].
Qed.

Lemma ident_ok_word : forall w, ident_ok w = true -> word_ok w = true.
Proof. intros w H. unfold ident_ok in H. apply andb_true_iff in H. tauto. Qed.

Lemma toks_dict : forall d, toks (pc_dict d) =
  match d with [] => [] | _ => [kw S_dict; pu TkLParen; kw d; pu TkRParen] end.
Proof. intros [|c d]; reflexivity. Qed.

(* ---------- parseDictModifier ---------- *)
Lemma P_dict : forall d ts rest, ident_ok d = true ->
  map erase ts = [kw S_dict; pu TkLParen; kw d; pu TkRParen] ++ rest -> rest <> [] ->
  exists ts', parse_dict_modifier ts = Ok (ts', d) /\ map erase ts' = rest.
Proof.
  intros d ts rest Hd H Hr. cbn [app] in H. unfold kw, pu in H. rewrite (ident_ok_kind d Hd) in H.
  destruct (tok_inv _ _ _ _ _ H ltac:(ne)) as (t0 & ts0 & -> & _ & _ & _ & H0 & A0).
  unfold parse_dict_modifier. rewrite A0.
  destruct (eat_ok _ _ _ _ _ H0 ltac:(ne)) as (ts1 & E1 & H1). rewrite E1. cbn [bind].
  destruct (tok_inv _ _ _ _ _ H1 ltac:(ne)) as (t2 & ts2 & -> & K2 & I2 & _ & H2 & A2).
  rewrite is_cons, K2. cbn [tkind_eqb tkind_code N.eqb Pos.eqb negb]. rewrite cur_cons, A2, I2.
  destruct (eat_ok _ _ _ _ _ H2 Hr) as (ts3 & E3 & H3). rewrite E3. cbn [bind].
  exists ts3. split; [reflexivity | exact H3].
Qed.

(* ---------- parseFieldType ---------- *)
Definition pft_tail (strict : bool) (field : itype) (isarr : bool) (ts : list token) : res (list token * itype) :=
  match base_type (cur ts) with
  | None =>
    if isarr then perr ts MArrType
    else if strict then perr ts MNoType
    else Ok (ts, field)
  | Some ft =>
    let ts := advance ts in
    do (ts, ft) <- (if is ts TkDict then
                       if dict_forbidden ft then perr ts MDictPrim
                       else (do (ts, d) <- parse_dict_modifier ts; Ok (ts, set_dict ft d))
                     else Ok (ts, ft));
    Ok (ts, if isarr then IArray ft (it_dict field) false else ft)
  end.

Lemma parse_field_type_tail : forall strict ts field,
  parse_field_type strict ts field =
  do (ts, isarr) <- (if is ts TkLBracket then (do ts <- eat TkRBracket (advance ts); Ok (ts, true))
                      else Ok (ts, false));
  pft_tail strict field isarr ts.
Proof. reflexivity. Qed.

(* the word a base type prints as, and what base_type makes of it *)
Definition base_word (t : itype) : str :=
  match t with
  | IPrim p _ => prim_name p
  | IRef n _ | IStruct n _ | IMap n _ | IEnum n _ => n
  | _ => []
  end.

Lemma base_pc : forall e, base_ok e = true -> pc_type e = [PWord (base_word e)].
Proof. intros [d|p d|n d|n d|n d|n d|e d r] H; try discriminate; reflexivity. Qed.

Lemma base_type_word : forall e t, base_ok e = true ->
  t_kind t = word_kind (base_word e) -> t_ident t = base_word e ->
  base_type t = Some (set_dict (ast_base e) []) /\ t_kind t <> TkLBracket.
Proof.
  intros e t H Hk Hi. unfold base_type.
  destruct e as [d|p d|n d|n d|n d|n d|e d r]; try discriminate; cbn [base_ok base_word] in *;
    try (apply andb_true_iff in H; destruct H as [H _]; rewrite (ident_ok_kind n H) in Hk;
         rewrite Hk, Hi; split; [reflexivity | discriminate]).
  destruct p; rewrite Hk; split; try reflexivity; discriminate.
Qed.

Lemma base_dict_ok : forall e, base_ok e = true -> it_dict e <> [] ->
  ident_ok (it_dict e) = true /\ dict_forbidden (set_dict (ast_base e) []) = false.
Proof.
  intros [d|p d|n d|n d|n d|n d|e d r] H Hd; try discriminate; cbn [base_ok it_dict] in *.
  - destruct d as [|c d]; [contradiction|]. cbn [is_nil orb] in H. apply andb_true_iff in H.
    destruct H as [H1 H2]. split; [exact H1|]. apply negb_true_iff in H2.
    destruct p; try discriminate H2; reflexivity.
  - apply andb_true_iff in H. destruct H as [_ H]. destruct d; [contradiction|]. split; [exact H|reflexivity].
  - apply andb_true_iff in H. destruct H as [_ H]. destruct d; [contradiction|]. split; [exact H|reflexivity].
  - apply andb_true_iff in H. destruct H as [_ H]. destruct d; [contradiction|]. split; [exact H|reflexivity].
  - apply andb_true_iff in H. destruct H as [_ H]. destruct d; [contradiction|]. split; [exact H|reflexivity].
Qed.

Lemma set_dict_ast_base : forall e, base_ok e = true ->
  set_dict (set_dict (ast_base e) []) (it_dict e) = ast_base e.
Proof. intros [d|p d|n d|n d|n d|n d|e d r] H; try discriminate; reflexivity. Qed.

Lemma set_dict_nil_ast_base : forall e, base_ok e = true -> it_dict e = [] ->
  set_dict (ast_base e) [] = ast_base e.
Proof. intros [d|p d|n d|n d|n d|n d|e d r] H Hd; try discriminate; cbn [it_dict] in Hd; subst; reflexivity. Qed.

Lemma P_tail : forall e isarr field ts rest, base_ok e = true ->
  map erase ts = toks (pc_type e ++ pc_dict (it_dict e)) ++ rest -> rest <> [] ->
  (it_dict e = [] -> hdk rest <> TkDict) ->
  exists ts', pft_tail true field isarr ts
              = Ok (ts', if isarr then IArray (ast_base e) (it_dict field) false else ast_base e)
              /\ map erase ts' = rest.
Proof.
  intros e isarr field ts rest He H Hr Hnd.
  rewrite toks_app, (base_pc e He), toks_dict in H. cbn [toks flat_map tok1 app] in H.
  destruct (tok_inv _ _ _ _ _ H ltac:(destruct (it_dict e); ne)) as (t0 & ts0 & -> & K0 & I0 & _ & H0 & A0).
  destruct (base_type_word e t0 He K0 I0) as [Hb _].
  unfold pft_tail. rewrite cur_cons, Hb, A0.
  destruct (it_dict e) as [|c d] eqn:Ed.
  - cbn [app] in H0. rewrite (is_hdk _ _ _ H0 Hr), (tkind_eqb_false _ _ (Hnd eq_refl)). cbn [bind].
    rewrite (set_dict_nil_ast_base e He Ed). exists ts0. split; [reflexivity | exact H0].
  - assert (Hne : it_dict e <> []) by (rewrite Ed; discriminate).
    destruct (base_dict_ok e He Hne) as [Hd Hf]. rewrite Ed in Hd.
    rewrite (is_hdk _ _ _ H0 ltac:(ne)). change (tkind_eqb (hdk _) TkDict) with true. cbv iota.
    rewrite Hf. destruct (P_dict (c :: d) ts0 rest Hd H0 Hr) as (ts1 & E1 & H1).
    rewrite E1. cbn [bind]. rewrite <- Ed, (set_dict_ast_base e He).
    exists ts1. split; [reflexivity | exact H1].
Qed.

(* the tokens parseFieldType itself consumes *)
Definition pc_inner (t : itype) : list piece :=
  match t with IArray _ _ _ => pc_type t | _ => pc_type t ++ pc_dict (it_dict t) end.
Definition inner_dict (t : itype) : str :=
  match t with IArray e _ _ => it_dict e | _ => it_dict t end.
Definition inner_ast (t : itype) : itype :=
  match t with IArray e _ _ => IArray (ast_base e) [] false | _ => ast_base t end.

Lemma P_ftype : forall inmap t ts rest, ftype_ok inmap t = true ->
  map erase ts = toks (pc_inner t) ++ rest -> rest <> [] ->
  (inner_dict t = [] -> hdk rest <> TkDict) ->
  exists ts', parse_field_type true ts (INone []) = Ok (ts', inner_ast t) /\ map erase ts' = rest.
Proof.
  intros inmap t ts rest Ht H Hr Hnd. rewrite parse_field_type_tail.
  destruct t as [d|p d|n d|n d|n d|n d|e d r];
    try (cbn [ftype_ok] in Ht; discriminate Ht).
  6: { (* array *)
    cbn [ftype_ok] in Ht. apply andb_true_iff in Ht. destruct Ht as [He _].
    cbn [pc_inner pc_type inner_dict inner_ast] in *.
    rewrite toks_app in H. cbn [toks flat_map tok1 app] in H.
    destruct (tok_inv _ _ _ _ _ H ltac:(discriminate)) as (t0 & ts0 & -> & K0 & _ & _ & H0 & A0).
    rewrite is_cons, K0, A0. cbn [tkind_eqb tkind_code N.eqb Pos.eqb].
    destruct (eat_ok _ _ _ _ _ H0 ltac:(ne)) as (ts1 & E1 & H1). rewrite E1. cbn [bind].
    destruct (P_tail e true (INone []) ts1 rest He H1 Hr Hnd) as (ts2 & E2 & H2).
    exists ts2. split; [exact E2 | exact H2]. }
  all: cbn [ftype_ok] in Ht; cbn [pc_inner inner_dict inner_ast] in *.
  all: match type of Ht with base_ok ?e = true =>
         pose proof H as H'; rewrite toks_app, (base_pc e Ht) in H'; cbn [toks flat_map tok1 app] in H';
         destruct (tok_inv _ _ _ _ _ H' ltac:(rewrite toks_dict; destruct (it_dict e); ne))
           as (t0 & ts0 & E0 & K0 & I0 & _ & _ & _);
         destruct (base_type_word e t0 Ht K0 I0) as [_ Hlb];
         rewrite K0 in Hlb;
         rewrite (is_hdk _ _ _ H' ltac:(discriminate)); unfold hdk; cbn [hd a_kind];
         rewrite (tkind_eqb_false _ _ Hlb); cbn [bind];
         destruct (P_tail e false (INone []) ts rest Ht H Hr Hnd) as (ts2 & E2 & H2);
         exists ts2; split; [exact E2 | exact H2]
       end.
Qed.

(* ---------- struct fields ---------- *)
Lemma wk_optional : word_kind S_optional = TkOptional. Proof. reflexivity. Qed.
Lemma wk_dict : word_kind S_dict = TkDict. Proof. reflexivity. Qed.
Lemma wk_root : word_kind S_root = TkRoot. Proof. reflexivity. Qed.
Lemma wk_struct : word_kind S_struct = TkStruct. Proof. reflexivity. Qed.
Lemma wk_oneof : word_kind S_oneof = TkOneof. Proof. reflexivity. Qed.
Lemma wk_multimap : word_kind S_multimap = TkMultimap. Proof. reflexivity. Qed.
Lemma wk_enum : word_kind S_enum = TkEnum. Proof. reflexivity. Qed.
Lemma wk_key : word_kind S_key = TkKey. Proof. reflexivity. Qed.
Lemma wk_value : word_kind S_value = TkValue. Proof. reflexivity. Qed.
Lemma wk_package : word_kind S_package = TkPackage. Proof. reflexivity. Qed.

Lemma P_mods_opt : forall fuel ts rest, map erase ts = kw S_optional :: rest -> rest <> [] ->
  hdk rest <> TkOptional -> (2 <= fuel)%nat ->
  exists ts', parse_field_modifiers fuel ts false = Ok (ts', true) /\ map erase ts' = rest.
Proof.
  intros fuel ts rest H Hr Hk Hf. destruct fuel as [|[|f]]; try lia.
  destruct (tok_inv _ _ _ _ _ H Hr) as (t0 & ts0 & -> & K0 & _ & _ & H0 & A0).
  cbn [parse_field_modifiers]. rewrite is_cons, K0, wk_optional, A0.
  cbn [tkind_eqb tkind_code N.eqb Pos.eqb]. rewrite (is_hdk _ _ _ H0 Hr), (tkind_eqb_false _ _ Hk).
  exists ts0. split; [reflexivity | exact H0].
Qed.

Lemma P_mods_none : forall fuel ts rest, map erase ts = rest -> rest <> [] ->
  hdk rest <> TkOptional -> (1 <= fuel)%nat ->
  parse_field_modifiers fuel ts false = Ok (ts, false).
Proof.
  intros fuel ts rest H Hr Hk Hf. destruct fuel as [|f]; try lia.
  cbn [parse_field_modifiers]. rewrite (is_hdk _ _ _ H Hr), (tkind_eqb_false _ _ Hk). reflexivity.
Qed.

Lemma ftype_struct : forall t, ftype_ok false t = true ->
  pc_type t ++ pc_dict (it_dict t) = pc_inner t /\ inner_ast t = ast_type t.
Proof.
  intros [d|p d|n d|n d|n d|n d|e d r] H; try (split; reflexivity).
  cbn [ftype_ok] in H. apply andb_true_iff in H. destruct H as [_ H].
  destruct d; [|discriminate H]. cbn [pc_inner it_dict pc_dict]. rewrite app_nil_r. split; reflexivity.
Qed.

Lemma toks_field : forall f, toks (pc_field f) =
  kw (if_name f) :: toks (pc_type (if_type f) ++ pc_dict (it_dict (if_type f)))
  ++ (if if_opt f then [kw S_optional] else []).
Proof.
  intros f. unfold pc_field.
  change (toks ([PWord (if_name f); sp] ++ ?x)) with (kw (if_name f) :: toks x). f_equal.
  rewrite !toks_app, <- app_assoc. do 2 f_equal. destruct (if_opt f); reflexivity.
Qed.

Lemma P_field : forall f fuel ts acc rest, field_ok f = true ->
  map erase ts = toks (pc_field f) ++ rest -> rest <> [] ->
  hdk rest <> TkDict -> hdk rest <> TkOptional -> has_field acc (if_name f) = false -> (2 <= fuel)%nat ->
  exists ts', parse_struct_field true fuel ts acc = Ok (ts', acc ++ [ast_field f], true)
              /\ map erase ts' = rest.
Proof.
  intros f fuel ts acc rest Hf H Hr Hd Ho Hacc Hfuel.
  unfold field_ok in Hf. apply andb_true_iff in Hf. destruct Hf as [Hn Ht].
  destruct (ftype_struct _ Ht) as [Epc East].
  rewrite toks_field, Epc in H. cbn [app] in H. rewrite <- app_assoc in H.
  unfold kw at 1 in H. rewrite (ident_ok_kind _ Hn) in H.
  destruct (tok_inv _ _ _ _ _ H ltac:(destruct (if_opt f); ne)) as (t0 & ts0 & -> & K0 & I0 & _ & H0 & A0).
  unfold parse_struct_field. rewrite is_cons, K0. cbn [tkind_eqb tkind_code N.eqb Pos.eqb negb].
  rewrite cur_cons, I0, Hacc, A0.
  assert (Hnd : inner_dict (if_type f) = [] -> hdk ((if if_opt f then [kw S_optional] else []) ++ rest) <> TkDict).
  { intros _. destruct (if_opt f); [discriminate | exact Hd]. }
  destruct (P_ftype false _ ts0 _ Ht H0 ltac:(destruct (if_opt f); ne) Hnd) as (ts1 & E1 & H1).
  rewrite E1. cbn [bind]. rewrite East.
  destruct (if_opt f) eqn:Eo.
  - cbn [app] in H1. destruct (P_mods_opt fuel ts1 rest H1 Hr Ho Hfuel) as (ts2 & E2 & H2).
    rewrite E2. cbn [bind]. exists ts2. split; [|exact H2].
    unfold ast_field. rewrite Eo. reflexivity.
  - cbn [app] in H1. rewrite (P_mods_none fuel ts1 rest H1 Hr Ho ltac:(lia)). cbn [bind].
    exists ts1. split; [|exact H1]. unfold ast_field. rewrite Eo. reflexivity.
Qed.

Definition tk_fields (fs : list isfield) : list atok := flat_map (fun f => toks (pc_field f)) fs.

Lemma toks_fields : forall fs,
  toks (flat_map (fun f => [pnl; sp; sp] ++ pc_field f) fs) = tk_fields fs.
Proof.
  induction fs as [|f fs IH]; [reflexivity|].
  cbn [flat_map tk_fields]. rewrite !toks_app, IH. reflexivity.
Qed.

Lemma has_field_mem : forall fs n, has_field fs n = mem_str n (map if_name fs).
Proof. induction fs as [|f fs IH]; intros n; [reflexivity|]. cbn [has_field map mem_str]. rewrite IH. reflexivity. Qed.

Lemma hdk_field : forall f l, hdk (toks (pc_field f) ++ l) = word_kind (if_name f).
Proof. intros f l. rewrite toks_field. reflexivity. Qed.

Lemma P_fields : forall fs fuel0 fuel ts acc rest,
  forallb field_ok fs = true -> NoDup (map if_name acc ++ map if_name fs) ->
  map erase ts = tk_fields fs ++ rest -> rest <> [] -> hdk rest = TkRBrace ->
  (2 <= fuel0)%nat -> (length fs < fuel)%nat ->
  exists ts', parse_struct_fields true fuel0 fuel ts acc = Ok (ts', acc ++ map ast_field fs)
              /\ map erase ts' = rest.
Proof.
  induction fs as [|f fs IH]; intros fuel0 fuel ts acc rest Hok Hnd H Hr Hk Hf0 Hf.
  - cbn [tk_fields flat_map app] in H. destruct fuel as [|fuel]; [cbn [length] in Hf; lia|].
    cbn [parse_struct_fields]. unfold parse_struct_field.
    rewrite (is_hdk _ _ _ H Hr), Hk. cbn [tkind_eqb tkind_code N.eqb Pos.eqb negb bind].
    exists ts. rewrite app_nil_r. split; [reflexivity | exact H].
  - cbn [forallb] in Hok. apply andb_true_iff in Hok. destruct Hok as [Hok1 Hok2].
    destruct fuel as [|fuel]; [cbn [length] in Hf; lia|].
    cbn [tk_fields flat_map] in H. fold (tk_fields fs) in H. rewrite <- app_assoc in H.
    assert (Hne : tk_fields fs ++ rest <> []) by ne.
    assert (Hhd : hdk (tk_fields fs ++ rest) <> TkDict /\ hdk (tk_fields fs ++ rest) <> TkOptional).
    { destruct fs as [|f' fs'].
      - cbn [tk_fields flat_map app]. rewrite Hk. split; discriminate.
      - cbn [tk_fields flat_map]. rewrite <- app_assoc, hdk_field.
        cbn [forallb] in Hok2. apply andb_true_iff in Hok2. destruct Hok2 as [Hf' _].
        unfold field_ok in Hf'. apply andb_true_iff in Hf'. destruct Hf' as [Hf' _].
        rewrite (ident_ok_kind _ Hf'). split; discriminate. }
    assert (Hacc : has_field acc (if_name f) = false).
    { rewrite has_field_mem. destruct (mem_str (if_name f) (map if_name acc)) eqn:E; [|reflexivity].
      apply mem_str_In in E. cbn [map] in Hnd. apply NoDup_remove_2 in Hnd.
      exfalso. apply Hnd. apply in_or_app. now left. }
    destruct (P_field f fuel0 ts acc _ Hok1 H Hne (proj1 Hhd) (proj2 Hhd) Hacc Hf0) as (ts1 & E1 & H1).
    cbn [parse_struct_fields]. rewrite E1. cbn [bind].
    destruct (IH fuel0 fuel ts1 (acc ++ [ast_field f]) rest Hok2) as (ts2 & E2 & H2); try assumption.
    + rewrite map_app. cbn [map ast_field if_name]. rewrite <- app_assoc. exact Hnd.
    + cbn [length] in Hf. lia.
    + exists ts2. split; [|exact H2]. rewrite E2. cbn [map]. rewrite <- app_assoc. reflexivity.
Qed.

(* ---------- struct / oneof ---------- *)
Definition tk_struct_head (s : isdef) : list atok :=
  if is_oneof s then [kw S_oneof; kw (is_name s)]
  else [kw S_struct; kw (is_name s)] ++ toks (pc_dict (is_dict s)) ++ (if is_root s then [kw S_root] else []).

Lemma toks_struct : forall s, toks (pc_struct s) =
  tk_struct_head s ++ [pu TkLBrace] ++ tk_fields (is_fields s) ++ [pu TkRBrace].
Proof.
  intros s. unfold pc_struct, tk_struct_head. rewrite !toks_app, toks_fields.
  destruct (is_oneof s); [reflexivity|].
  rewrite !toks_app, <- !app_assoc. cbn [toks flat_map tok1 app]. do 3 f_equal.
  destruct (is_root s); reflexivity.
Qed.

Lemma nodup_str_NoDup : forall l, nodup_str l = true -> NoDup l.
Proof.
  induction l as [|x l IH]; intros H; [constructor|].
  cbn [nodup_str] in H. apply andb_true_iff in H. destruct H as [H1 H2].
  constructor; [|auto]. apply negb_true_iff in H1. apply mem_str_false_not_In. exact H1.
Qed.

Lemma length_tk_fields : forall fs, (length fs <= length (tk_fields fs))%nat.
Proof.
  induction fs as [|f fs IH]; [cbn [tk_fields flat_map length]; lia|].
  cbn [tk_fields flat_map]. fold (tk_fields fs). rewrite toks_field, app_length. cbn [length]. lia.
Qed.

Lemma P_struct : forall s fuel ts sch rest, struct_pr s = true ->
  map erase ts = toks (pc_struct s) ++ rest -> rest <> [] ->
  top_level_used sch (is_name s) = false -> (2 <= fuel)%nat -> (length (is_fields s) < fuel)%nat ->
  exists ts', parse_struct true fuel ts sch (is_oneof s) = Ok (ts', ast_struct s) /\ map erase ts' = rest.
Proof.
  intros s fuel ts sch rest Hs H Hr Hu Hf2 Hf.
  unfold struct_pr in Hs. rewrite !andb_true_iff in Hs. destruct Hs as [[[[Hn Hmod] Hroot] Hnd] Hfs].
  rewrite toks_struct in H. rewrite <- !app_assoc in H.
  (* after the modifiers *)
  assert (Hbody : forall ts1, map erase ts1 = [pu TkLBrace] ++ tk_fields (is_fields s) ++ [pu TkRBrace] ++ rest ->
    exists ts',
      (do ts <- eat TkLBrace ts1;
       do (ts, fields) <- parse_struct_fields true fuel fuel ts [];
       if is_root s && (match fields with [] => true | _ => false end) then perr ts MRootEmpty
       else do ts <- eat TkRBrace ts; Ok (ts, mkISDef (is_name s) (is_oneof s) (is_dict s) (is_root s) fields false))
      = Ok (ts', ast_struct s) /\ map erase ts' = rest).
  { intros ts1 H1. cbn [app] in H1.
    destruct (eat_ok _ _ _ _ _ H1 ltac:(ne)) as (ts2 & E2 & H2). rewrite E2. cbn [bind].
    destruct (P_fields (is_fields s) fuel fuel ts2 [] ([pu TkRBrace] ++ rest) Hfs) as (ts3 & E3 & H3);
      try assumption; try reflexivity; try discriminate.
    { cbn [map app]. apply nodup_str_NoDup. exact Hnd. }
    rewrite E3. cbn [bind app].
    assert (Hre : is_root s && match map ast_field (is_fields s) with [] => true | _ :: _ => false end = false).
    { destruct (is_root s); [|reflexivity]. destruct (is_fields s); [discriminate Hroot | reflexivity]. }
    rewrite Hre. cbn [app] in H3.
    destruct (eat_ok _ _ _ _ _ H3 Hr) as (ts4 & E4 & H4). rewrite E4. cbn [bind].
    exists ts4. split; [reflexivity | exact H4]. }
  unfold parse_struct. unfold tk_struct_head in H.
  destruct (is_oneof s) eqn:Eo.
  - (* oneof *)
    apply andb_true_iff in Hmod. destruct Hmod as [Hd Hrt].
    destruct (is_dict s) eqn:Ed; [|discriminate Hd]. destruct (is_root s) eqn:Er; [discriminate Hrt|].
    cbn [app] in H.
    destruct (tok_inv _ _ _ _ _ H ltac:(discriminate)) as (t0 & ts0 & -> & _ & _ & _ & H0 & A0).
    rewrite A0. unfold kw at 1 in H0. rewrite (ident_ok_kind _ Hn) in H0.
    destruct (tok_inv _ _ _ _ _ H0 ltac:(discriminate)) as (t1 & ts1 & -> & K1 & I1 & _ & H1 & A1).
    rewrite is_cons, K1. cbn [tkind_eqb tkind_code N.eqb Pos.eqb negb]. rewrite cur_cons, I1, Hu, A1.
    unfold parse_struct_modifiers. rewrite (kind_hdk _ _ H1 ltac:(discriminate)).
    cbn [hdk hd a_kind pu bind].
    destruct (Hbody ts1 H1) as (ts' & E' & H'). exists ts'. split; [exact E' | exact H'].
  - (* struct *)
    cbn [app] in H.
    destruct (tok_inv _ _ _ _ _ H ltac:(discriminate)) as (t0 & ts0 & -> & _ & _ & _ & H0 & A0).
    rewrite A0. unfold kw at 1 in H0. rewrite (ident_ok_kind _ Hn) in H0.
    destruct (tok_inv _ _ _ _ _ H0 ltac:(destruct (is_dict s), (is_root s); discriminate))
      as (t1 & ts1 & -> & K1 & I1 & _ & H1 & A1).
    rewrite is_cons, K1. cbn [tkind_eqb tkind_code N.eqb Pos.eqb negb]. rewrite cur_cons, I1, Hu, A1.
    unfold parse_struct_modifiers. rewrite toks_dict in H1.
    destruct (is_dict s) as [|c d] eqn:Ed.
    + destruct (is_root s) eqn:Er.
      * cbn [app] in H1. rewrite (kind_hdk _ _ H1 ltac:(discriminate)). cbn [hdk hd a_kind kw].
        rewrite wk_root.
        destruct (tok_inv _ _ _ _ _ H1 ltac:(discriminate)) as (t2 & ts2 & -> & _ & _ & _ & H2 & A2).
        rewrite A2. cbn [bind].
        destruct (Hbody ts2 H2) as (ts' & E' & H'). exists ts'. split; [exact E' | exact H'].
      * cbn [app] in H1. rewrite (kind_hdk _ _ H1 ltac:(discriminate)). cbn [hdk hd a_kind pu bind].
        destruct (Hbody ts1 H1) as (ts' & E' & H'). exists ts'. split; [exact E' | exact H'].
    + cbn [is_nil orb] in Hmod. apply andb_true_iff in Hmod. destruct Hmod as [Hd Hrt].
      destruct (is_root s) eqn:Er; [discriminate Hrt|].
      rewrite (kind_hdk _ _ H1 ltac:(discriminate)). cbn [app hdk hd a_kind kw]. rewrite wk_dict.
      rewrite <- app_assoc in H1. cbn [app] in H1.
      destruct (P_dict (c :: d) ts1 _ Hd H1 ltac:(discriminate)) as (ts2 & E2 & H2).
      rewrite E2. cbn [bind].
      destruct (Hbody ts2 H2) as (ts' & E' & H'). exists ts'. split; [exact E' | exact H'].
Qed.

(* ---------- multimap ---------- *)
Definition outer_dict (t : itype) : str := match t with IArray _ d _ => d | _ => [] end.

Lemma ftype_split : forall t, pc_type t ++ pc_dict (it_dict t) = pc_inner t ++ pc_dict (outer_dict t).
Proof. intros [d|p d|n d|n d|n d|n d|e d r]; cbn [pc_inner outer_dict pc_dict]; try rewrite app_nil_r; reflexivity. Qed.

Lemma P_mfield : forall t ts rest, ftype_ok true t = true ->
  map erase ts = toks (pc_type t ++ pc_dict (it_dict t)) ++ rest -> rest <> [] -> hdk rest <> TkDict ->
  exists ts', parse_multimap_field true ts = Ok (ts', ast_type t) /\ map erase ts' = rest.
Proof.
  intros t ts rest Ht H Hr Hd. rewrite ftype_split, toks_app, <- app_assoc in H.
  unfold parse_multimap_field.
  assert (Hcase : (outer_dict t = [] /\ inner_ast t = ast_type t) \/
                  (exists e d r, t = IArray e d r /\ d <> [] /\ ident_ok d = true /\ it_dict e <> [])).
  { destruct t as [d|p d|n d|n d|n d|n d|e d r]; try (left; split; reflexivity).
    cbn [ftype_ok] in Ht. apply andb_true_iff in Ht. destruct Ht as [_ Ht].
    destruct d as [|c d]; [left; split; reflexivity|]. right. exists e, (c :: d), r.
    cbn [is_nil orb andb] in Ht. apply andb_true_iff in Ht. destruct Ht as [H1 H2].
    repeat split; try assumption; try discriminate. destruct (it_dict e); [discriminate H2 | discriminate]. }
  destruct Hcase as [[Ho Ea]|(e & d & r & -> & Hdne & Hdok & Hene)].
  - rewrite Ho in H. cbn [pc_dict toks flat_map app] in H.
    destruct (P_ftype true t ts rest Ht H Hr (fun _ => Hd)) as (ts1 & E1 & H1).
    rewrite E1. cbn [bind]. rewrite (is_hdk _ _ _ H1 Hr), (tkind_eqb_false _ _ Hd), Ea.
    exists ts1. split; [reflexivity | exact H1].
  - cbn [outer_dict] in H. rewrite toks_dict in H. destruct d as [|c d]; [contradiction|].
    destruct (P_ftype true _ ts _ Ht H ltac:(discriminate)) as (ts1 & E1 & H1).
    { cbn [inner_dict]. intros Hx. contradiction. }
    rewrite E1. cbn [bind]. rewrite (is_hdk _ _ _ H1 ltac:(discriminate)).
    change (tkind_eqb (hdk _) TkDict) with true. cbv iota.
    destruct (P_dict (c :: d) ts1 rest Hdok H1 Hr) as (ts2 & E2 & H2). rewrite E2. cbn [bind].
    exists ts2. split; [reflexivity | exact H2].
Qed.

Lemma toks_multimap : forall m, toks (pc_multimap m) =
  [kw S_multimap; kw (im_name m); pu TkLBrace; kw S_key]
  ++ toks (pc_type (im_key m) ++ pc_dict (it_dict (im_key m)))
  ++ [kw S_value] ++ toks (pc_type (im_val m) ++ pc_dict (it_dict (im_val m))) ++ [pu TkRBrace].
Proof.
  intros m. unfold pc_multimap. rewrite !toks_app, <- !app_assoc. reflexivity.
Qed.

Lemma P_mmap : forall m ts sch rest, mmap_pr m = true ->
  map erase ts = toks (pc_multimap m) ++ rest -> rest <> [] ->
  top_level_used sch (im_name m) = false ->
  exists ts', parse_multimap true ts sch = Ok (ts', ast_mmap m) /\ map erase ts' = rest.
Proof.
  intros m ts sch rest Hm H Hr Hu.
  unfold mmap_pr in Hm. rewrite !andb_true_iff in Hm. destruct Hm as [[Hn Hk] Hv].
  rewrite toks_multimap in H. rewrite <- !app_assoc in H. cbn [app] in H.
  destruct (tok_inv _ _ _ _ _ H ltac:(discriminate)) as (t0 & ts0 & -> & _ & _ & _ & H0 & A0).
  unfold parse_multimap. rewrite A0. unfold kw at 1 in H0. rewrite (ident_ok_kind _ Hn) in H0.
  destruct (tok_inv _ _ _ _ _ H0 ltac:(discriminate)) as (t1 & ts1 & -> & K1 & I1 & _ & H1 & A1).
  rewrite is_cons, K1. cbn [tkind_eqb tkind_code N.eqb Pos.eqb negb]. rewrite cur_cons, I1, Hu, A1.
  destruct (eat_ok _ _ _ _ _ H1 ltac:(discriminate)) as (ts2 & E2 & H2). rewrite E2. cbn [bind].
  unfold kw at 1 in H2. rewrite wk_key in H2.
  destruct (eat_ok _ _ _ _ _ H2 ltac:(ne)) as (ts3 & E3 & H3). rewrite E3. cbn [bind].
  destruct (P_mfield _ ts3 _ Hk H3 ltac:(discriminate) ltac:(discriminate)) as (ts4 & E4 & H4).
  rewrite E4. cbn [bind]. unfold kw at 1 in H4. rewrite wk_value in H4.
  destruct (eat_ok _ _ _ _ _ H4 ltac:(ne)) as (ts5 & E5 & H5). rewrite E5. cbn [bind].
  destruct (P_mfield _ ts5 _ Hv H5 ltac:(discriminate) ltac:(discriminate)) as (ts6 & E6 & H6).
  rewrite E6. cbn [bind app]. cbn [app] in H6.
  destruct (eat_ok _ _ _ _ _ H6 Hr) as (ts7 & E7 & H7). rewrite E7. cbn [bind].
  exists ts7. split; [reflexivity | exact H7].
Qed.

(* ---------- enum ---------- *)
Definition tk_efield (f : str * N) : list atok := [kw (fst f); pu TkAssign; mkA TkIntNumber [] (snd f)].
Definition tk_efields (fs : list (str * N)) : list atok := flat_map tk_efield fs.

Lemma toks_enum : forall e, toks (pc_enum e) =
  [kw S_enum; kw (ie_name e); pu TkLBrace] ++ tk_efields (ie_fields e) ++ [pu TkRBrace].
Proof.
  intros e. unfold pc_enum. rewrite !toks_app. f_equal. f_equal.
  induction (ie_fields e) as [|f fs IH]; [reflexivity|].
  cbn [flat_map tk_efields]. rewrite toks_app, IH. reflexivity.
Qed.

Lemma P_efields : forall fs fuel ts acc rest, forallb efield_ok fs = true ->
  map erase ts = tk_efields fs ++ rest -> rest <> [] -> hdk rest = TkRBrace -> (length fs < fuel)%nat ->
  exists ts', parse_enum_fields fuel ts acc = Ok (ts', acc ++ fs) /\ map erase ts' = rest.
Proof.
  induction fs as [|f fs IH]; intros fuel ts acc rest Hok H Hr Hk Hf.
  - cbn [tk_efields flat_map app] in H. destruct fuel as [|fuel]; [cbn [length] in Hf; lia|].
    cbn [parse_enum_fields]. unfold parse_enum_field.
    rewrite (is_hdk _ _ _ H Hr), Hk. cbn [tkind_eqb tkind_code N.eqb Pos.eqb negb bind].
    exists ts. rewrite app_nil_r. split; [reflexivity | exact H].
  - cbn [forallb] in Hok. apply andb_true_iff in Hok. destruct Hok as [Hok1 Hok2].
    unfold efield_ok in Hok1. apply andb_true_iff in Hok1. destruct Hok1 as [Hn _].
    destruct fuel as [|fuel]; [cbn [length] in Hf; lia|].
    cbn [tk_efields flat_map] in H. fold (tk_efields fs) in H. unfold tk_efield in H. cbn [app] in H.
    unfold kw at 1 in H. rewrite (ident_ok_kind _ Hn) in H.
    destruct (tok_inv _ _ _ _ _ H ltac:(discriminate)) as (t0 & ts0 & -> & K0 & I0 & _ & H0 & A0).
    cbn [parse_enum_fields]. unfold parse_enum_field.
    rewrite is_cons, K0. cbn [tkind_eqb tkind_code N.eqb Pos.eqb negb]. rewrite cur_cons, I0, A0.
    destruct (eat_ok _ _ _ _ _ H0 ltac:(discriminate)) as (ts1 & E1 & H1). rewrite E1. cbn [bind].
    destruct (tok_inv _ _ _ _ _ H1 ltac:(ne)) as (t2 & ts2 & -> & K2 & _ & N2 & H2 & A2).
    rewrite is_cons, K2. cbn [tkind_eqb tkind_code N.eqb Pos.eqb negb]. rewrite cur_cons, N2, A2.
    cbn [bind].
    destruct (IH fuel ts2 (acc ++ [(fst f, snd f)]) rest Hok2 H2 Hr Hk ltac:(cbn [length] in Hf; lia))
      as (ts3 & E3 & H3).
    exists ts3. split; [|exact H3]. rewrite E3. rewrite <- app_assoc. destruct f. reflexivity.
Qed.

Lemma length_tk_efields : forall fs, (length fs <= length (tk_efields fs))%nat.
Proof.
  induction fs as [|f fs IH]; [cbn [tk_efields flat_map length]; lia|].
  cbn [tk_efields flat_map]. fold (tk_efields fs). rewrite app_length. cbn [tk_efield length]. lia.
Qed.

Lemma P_enum : forall e fuel ts sch rest, enum_pr e = true ->
  map erase ts = toks (pc_enum e) ++ rest -> rest <> [] ->
  top_level_used sch (ie_name e) = false -> (length (ie_fields e) < fuel)%nat ->
  exists ts', parse_enum fuel ts sch = Ok (ts', e) /\ map erase ts' = rest.
Proof.
  intros e fuel ts sch rest He H Hr Hu Hf.
  unfold enum_pr in He. apply andb_true_iff in He. destruct He as [Hn Hfs].
  rewrite toks_enum in H. rewrite <- !app_assoc in H. cbn [app] in H.
  destruct (tok_inv _ _ _ _ _ H ltac:(discriminate)) as (t0 & ts0 & -> & _ & _ & _ & H0 & A0).
  unfold parse_enum. rewrite A0. unfold kw at 1 in H0. rewrite (ident_ok_kind _ Hn) in H0.
  destruct (tok_inv _ _ _ _ _ H0 ltac:(discriminate)) as (t1 & ts1 & -> & K1 & I1 & _ & H1 & A1).
  rewrite is_cons, K1. cbn [tkind_eqb tkind_code N.eqb Pos.eqb negb]. rewrite cur_cons, I1, Hu, A1.
  destruct (eat_ok _ _ _ _ _ H1 ltac:(ne)) as (ts2 & E2 & H2). rewrite E2. cbn [bind].
  destruct (P_efields (ie_fields e) fuel ts2 [] _ Hfs H2 ltac:(discriminate) eq_refl Hf) as (ts3 & E3 & H3).
  rewrite E3. cbn [bind app]. cbn [app] in H3.
  destruct (eat_ok _ _ _ _ _ H3 Hr) as (ts4 & E4 & H4). rewrite E4. cbn [bind].
  exists ts4. split; [|exact H4]. destruct e. reflexivity.
Qed.

(* ---------- definitions ---------- *)
Inductive def := DE (e : iedef) | DM (m : imdef) | DS (s : isdef).
Definition def_name (d : def) : str :=
  match d with DE e => ie_name e | DM m => im_name m | DS s => is_name s end.
Definition def_pr (d : def) : bool :=
  match d with DE e => enum_pr e | DM m => mmap_pr m | DS s => struct_pr s end.
Definition pc_def (d : def) : list piece :=
  match d with DE e => pc_enum e | DM m => pc_multimap m | DS s => pc_struct s end.
Definition add_def (sch : ischema) (d : def) : ischema :=
  match d with
  | DE e => add_enum sch e
  | DM m => add_mmap sch (ast_mmap m)
  | DS s => add_struct sch (ast_struct s)
  end.
Definition def_count (d : def) : nat :=
  match d with DE e => length (ie_fields e) | DM _ => O | DS s => length (is_fields s) end.
Definition def_kw (d : def) : tkind :=
  match d with DE _ => TkEnum | DM _ => TkMultimap | DS s => if is_oneof s then TkOneof else TkStruct end.

Lemma hdk_def : forall d l, hdk (toks (pc_def d) ++ l) = def_kw d.
Proof.
  intros [e|m|s] l; cbn [pc_def def_kw].
  - rewrite toks_enum. reflexivity.
  - rewrite toks_multimap. reflexivity.
  - rewrite toks_struct. unfold tk_struct_head. destruct (is_oneof s); reflexivity.
Qed.

Lemma def_count_le : forall d, (def_count d <= length (toks (pc_def d)))%nat.
Proof.
  intros [e|m|s]; cbn [pc_def def_count]; [| lia |].
  - rewrite toks_enum, !app_length. pose proof (length_tk_efields (ie_fields e)). lia.
  - rewrite toks_struct, !app_length. pose proof (length_tk_fields (is_fields s)). lia.
Qed.

Lemma def_toks_pos : forall d, (1 <= length (toks (pc_def d)))%nat.
Proof.
  intros [e|m|s]; cbn [pc_def].
  - rewrite toks_enum. cbn [app length]. lia.
  - rewrite toks_multimap. cbn [app length]. lia.
  - rewrite toks_struct, !app_length. cbn [length]. lia.
Qed.

Lemma tlu_false : forall sch n, ~ In n (top_names sch) -> top_level_used sch n = false.
Proof.
  intros sch n H. unfold top_level_used, top_names in *. rewrite !in_app_iff in H.
  destruct (has_struct sch n) eqn:E1; [apply has_struct_in in E1; tauto|].
  destruct (has_mmap sch n) eqn:E2; [apply has_mmap_in in E2; tauto|].
  destruct (has_enum sch n) eqn:E3; [apply has_enum_in in E3; tauto|]. reflexivity.
Qed.

Lemma top_names_add : forall sch d n,
  In n (top_names (add_def sch d)) <-> In n (top_names sch) \/ n = def_name d.
Proof.
  intros sch [e|m|s] n; unfold top_names;
    cbn [add_def add_enum add_mmap add_struct i_structs i_mmaps i_enums def_name];
    rewrite ?map_app, !in_app_iff; cbn [map In ast_mmap ast_struct im_name is_name]; intuition.
Qed.

Lemma P_def : forall d fuel ts sch rest, def_pr d = true ->
  map erase ts = toks (pc_def d) ++ rest -> rest <> [] ->
  ~ In (def_name d) (top_names sch) -> (2 <= fuel)%nat -> (def_count d < fuel)%nat ->
  exists ts', parse_def true fuel ts sch = Ok (ts', add_def sch d) /\ map erase ts' = rest.
Proof.
  intros d fuel ts sch rest Hd H Hr Hn Hf2 Hf. apply tlu_false in Hn.
  unfold parse_def. rewrite (kind_hdk _ _ H ltac:(ne)), hdk_def.
  destruct d as [e|m|s]; cbn [def_kw pc_def def_pr def_name def_count add_def] in *.
  - destruct (P_enum e fuel ts sch rest Hd H Hr Hn Hf) as (ts' & E & H'). rewrite E. cbn [bind].
    exists ts'. split; [reflexivity | exact H'].
  - destruct (P_mmap m ts sch rest Hd H Hr Hn) as (ts' & E & H'). rewrite E. cbn [bind].
    exists ts'. split; [reflexivity | exact H'].
  - destruct (P_struct s fuel ts sch rest Hd H Hr Hn Hf2 Hf) as (ts' & E & H').
    destruct (is_oneof s); rewrite E; cbn [bind]; exists ts'; (split; [reflexivity | exact H']).
Qed.

Definition tk_defs (ds : list def) : list atok := flat_map (fun d => toks (pc_def d)) ds.

Lemma P_defs : forall ds fuel0 fuel ts sch, ds <> [] -> forallb def_pr ds = true ->
  map erase ts = tk_defs ds ++ [a_eof] ->
  NoDup (map def_name ds) -> (forall d, In d ds -> ~ In (def_name d) (top_names sch)) ->
  (2 <= fuel0)%nat -> (forall d, In d ds -> (def_count d < fuel0)%nat) -> (length ds <= fuel)%nat ->
  exists ts', parse_defs true fuel0 fuel ts sch = Ok (ts', fold_left add_def ds sch)
              /\ map erase ts' = [a_eof].
Proof.
  induction ds as [|d ds IH]; intros fuel0 fuel ts sch Hne Hpr H Hnd Hfresh Hf2 Hcnt Hf; [contradiction|].
  cbn [forallb] in Hpr. apply andb_true_iff in Hpr. destruct Hpr as [Hpr1 Hpr2].
  destruct fuel as [|fuel]; [cbn [length] in Hf; lia|].
  cbn [tk_defs flat_map] in H. fold (tk_defs ds) in H. rewrite <- app_assoc in H.
  destruct (P_def d fuel0 ts sch _ Hpr1 H ltac:(ne)) as (ts1 & E1 & H1);
    [apply Hfresh; now left | exact Hf2 | apply Hcnt; now left |].
  cbn [parse_defs]. rewrite E1. cbn [bind fold_left].
  destruct ds as [|d' ds'].
  - cbn [tk_defs flat_map app] in H1. rewrite (is_hdk _ _ _ H1 ltac:(discriminate)).
    cbn [hdk hd a_eof a_kind tkind_eqb tkind_code N.eqb Pos.eqb].
    exists ts1. split; [reflexivity | exact H1].
  - rewrite (is_hdk _ _ _ H1 ltac:(ne)).
    cbn [tk_defs flat_map]. rewrite <- app_assoc, hdk_def.
    assert (Hkw : tkind_eqb (def_kw d') TkEOF = false) by (destruct d' as [?|?|s']; cbn [def_kw]; try destruct (is_oneof s'); reflexivity).
    rewrite Hkw.
    inversion Hnd as [|? ? Hnotin Hnd']; subst.
    apply IH; try assumption.
    + discriminate.
    + intros d0 Hin Hc. apply top_names_add in Hc. destruct Hc as [Hc|Hc].
      * eapply Hfresh; [right; exact Hin | exact Hc].
      * apply Hnotin. rewrite <- Hc. change (In (def_name d0) (map def_name (d' :: ds'))). apply in_map. exact Hin.
    + intros d0 Hin. apply Hcnt. now right.
    + cbn [length] in *. lia.
Qed.

(* ---------- package ---------- *)
Definition tk_pkg (pkg : list str) : list atok := toks (pjoin [PPu 46 TkDot] (map (fun c => [PWord c]) pkg)).

Lemma P_pkg : forall pkg fuel ts acc rest, pkg <> [] -> forallb ident_ok pkg = true ->
  map erase ts = tk_pkg pkg ++ rest -> rest <> [] -> hdk rest <> TkDot -> (length pkg <= fuel)%nat ->
  exists ts', parse_pkg_loop fuel ts acc = Ok (ts', acc ++ pkg) /\ map erase ts' = rest.
Proof.
  induction pkg as [|c pkg IH]; intros fuel ts acc rest Hne Hok H Hr Hk Hf; [contradiction|].
  cbn [forallb] in Hok. apply andb_true_iff in Hok. destruct Hok as [Hc Hok].
  destruct fuel as [|fuel]; [cbn [length] in Hf; lia|].
  destruct pkg as [|c' pkg'].
  - change (tk_pkg [c]) with [kw c] in H. cbn [app] in H. unfold kw in H. rewrite (ident_ok_kind _ Hc) in H.
    destruct (tok_inv _ _ _ _ _ H Hr) as (t0 & ts0 & -> & K0 & I0 & _ & H0 & A0).
    cbn [parse_pkg_loop]. rewrite is_cons, K0. cbn [tkind_eqb tkind_code N.eqb Pos.eqb negb].
    rewrite cur_cons, I0, A0, (is_hdk _ _ _ H0 Hr), (tkind_eqb_false _ _ Hk). cbn [negb].
    exists ts0. split; [reflexivity | exact H0].
  - change (tk_pkg (c :: c' :: pkg')) with (kw c :: pu TkDot :: tk_pkg (c' :: pkg')) in H.
    cbn [app] in H. unfold kw at 1 in H. rewrite (ident_ok_kind _ Hc) in H.
    destruct (tok_inv _ _ _ _ _ H ltac:(discriminate)) as (t0 & ts0 & -> & K0 & I0 & _ & H0 & A0).
    cbn [parse_pkg_loop]. rewrite is_cons, K0. cbn [tkind_eqb tkind_code N.eqb Pos.eqb negb].
    rewrite cur_cons, I0, A0.
    destruct (tok_inv _ _ _ _ _ H0 ltac:(ne)) as (t1 & ts1 & -> & K1 & _ & _ & H1 & A1).
    rewrite is_cons, K1. cbn [tkind_eqb tkind_code N.eqb Pos.eqb negb]. rewrite A1.
    destruct (IH fuel ts1 (acc ++ [c]) rest ltac:(discriminate) Hok H1 Hr Hk ltac:(cbn [length] in *; lia))
      as (ts2 & E2 & H2).
    exists ts2. split; [|exact H2]. rewrite E2, <- app_assoc. reflexivity.
Qed.

Lemma length_tk_pkg : forall pkg, (length pkg <= length (tk_pkg pkg))%nat.
Proof.
  induction pkg as [|c pkg IH]; [apply Nat.le_0_l|].
  destruct pkg as [|c' pkg']; [change (tk_pkg [c]) with [kw c]; cbn [length]; lia|].
  change (tk_pkg (c :: c' :: pkg')) with (kw c :: pu TkDot :: tk_pkg (c' :: pkg')).
  cbn [length] in *. lia.
Qed.

(* ---------- the whole token list ---------- *)
Lemma toks_pjoin : forall sep l, toks sep = [] -> toks (pjoin sep l) = flat_map toks l.
Proof.
  intros sep l Hs. induction l as [|x l IH]; [reflexivity|].
  destruct l as [|y l]; [cbn [pjoin flat_map]; rewrite app_nil_r; reflexivity|].
  change (pjoin sep (x :: y :: l)) with (x ++ sep ++ pjoin sep (y :: l)).
  rewrite !toks_app, Hs, IH. reflexivity.
Qed.

Definition defs_of (es : list iedef) (ms : list imdef) (ss : list isdef) : list def :=
  map DE es ++ map DM ms ++ map DS ss.

Lemma pc_defs_of : forall es ms ss, pc_defs es ms ss = map pc_def (defs_of es ms ss).
Proof. intros. unfold pc_defs, defs_of. rewrite !map_app, !map_map. reflexivity. Qed.

Lemma schema_tokens_eq : forall s,
  schema_tokens s = kw S_package :: tk_pkg (i_pkg s)
                    ++ tk_defs (defs_of (sorted_enums s) (sorted_mmaps s) (sorted_structs s)).
Proof.
  intros s. unfold schema_tokens, pc_schema. rewrite toks_pjoin by reflexivity.
  cbn [flat_map]. rewrite pc_defs_of. unfold pc_pkg. rewrite toks_app. cbn [toks flat_map tok1 app].
  f_equal. change (tok1 sp ++ []) with (@nil atok). cbn [app]. unfold tk_pkg, tk_defs. f_equal.
  induction (defs_of (sorted_enums s) (sorted_mmaps s) (sorted_structs s)) as [|d l IH]; [reflexivity|].
  cbn [map flat_map]. rewrite IH. reflexivity.
Qed.

Lemma fold_add_defs : forall es ms ss sch,
  fold_left add_def (defs_of es ms ss) sch =
  mkISchema (i_pkg sch) (i_structs sch ++ map ast_struct ss) (i_mmaps sch ++ map ast_mmap ms) (i_enums sch ++ es).
Proof.
  intros es ms ss sch. unfold defs_of. rewrite !fold_left_app.
  assert (He : forall es sch, fold_left add_def (map DE es) sch =
            mkISchema (i_pkg sch) (i_structs sch) (i_mmaps sch) (i_enums sch ++ es)).
  { induction es0 as [|e es0 IH]; intros sch0; [cbn [map fold_left]; rewrite app_nil_r; destruct sch0; reflexivity|].
    cbn [map fold_left]. rewrite IH. cbn [add_def add_enum i_pkg i_structs i_mmaps i_enums].
    rewrite <- app_assoc. reflexivity. }
  assert (Hm : forall ms sch, fold_left add_def (map DM ms) sch =
            mkISchema (i_pkg sch) (i_structs sch) (i_mmaps sch ++ map ast_mmap ms) (i_enums sch)).
  { induction ms0 as [|m ms0 IH]; intros sch0; [cbn [map fold_left]; rewrite app_nil_r; destruct sch0; reflexivity|].
    cbn [map fold_left]. rewrite IH. cbn [add_def add_mmap i_pkg i_structs i_mmaps i_enums].
    rewrite <- app_assoc. reflexivity. }
  assert (Hs : forall ss sch, fold_left add_def (map DS ss) sch =
            mkISchema (i_pkg sch) (i_structs sch ++ map ast_struct ss) (i_mmaps sch) (i_enums sch)).
  { induction ss0 as [|s ss0 IH]; intros sch0; [cbn [map fold_left]; rewrite app_nil_r; destruct sch0; reflexivity|].
    cbn [map fold_left]. rewrite IH. cbn [add_def add_struct i_pkg i_structs i_mmaps i_enums].
    rewrite <- app_assoc. reflexivity. }
  rewrite He, Hm, Hs. reflexivity.
Qed.

(* ---------- sort_str ---------- *)
Lemma In_insert_str : forall n l x, In x (insert_str n l) <-> x = n \/ In x l.
Proof.
  intros n l x. induction l as [|y l IH]; cbn [insert_str In]; [intuition|].
  destruct (str_ltb n y); cbn [In]; [intuition | rewrite IH; intuition].
Qed.

Lemma In_sort_str : forall l x, In x (sort_str l) <-> In x l.
Proof.
  induction l as [|y l IH]; intros x; cbn [sort_str fold_right In]; [tauto|].
  fold (sort_str l). rewrite In_insert_str, IH. intuition.
Qed.

Lemma NoDup_insert_str : forall n l, NoDup l -> ~ In n l -> NoDup (insert_str n l).
Proof.
  intros n l. induction l as [|y l IH]; intros Hnd Hn; cbn [insert_str]; [repeat constructor; auto|].
  destruct (str_ltb n y); [constructor; assumption|].
  inversion Hnd; subst. constructor.
  - rewrite In_insert_str. cbn [In] in Hn. intuition.
  - apply IH; [assumption | cbn [In] in Hn; tauto].
Qed.

Lemma NoDup_sort_str : forall l, NoDup l -> NoDup (sort_str l).
Proof.
  induction l as [|y l IH]; intros H; [constructor|].
  inversion H; subst. cbn [sort_str fold_right]. fold (sort_str l).
  apply NoDup_insert_str; [auto | rewrite In_sort_str; assumption].
Qed.

Lemma length_insert_str : forall n l, length (insert_str n l) = S (length l).
Proof. intros n l. induction l as [|y l IH]; cbn [insert_str]; [reflexivity|]. destruct (str_ltb n y); cbn [length]; congruence. Qed.

Lemma length_sort_str : forall l, length (sort_str l) = length l.
Proof.
  induction l as [|y l IH]; [reflexivity|]. cbn [sort_str fold_right]. fold (sort_str l).
  rewrite length_insert_str, IH. reflexivity.
Qed.

Lemma find_enum_Some : forall l n ed, find_enum l n = Some ed -> In ed l /\ ie_name ed = n.
Proof.
  induction l as [|s t IH]; intros n md H; cbn [find_enum] in H; [discriminate|].
  destruct (str_eqb (ie_name s) n) eqn:E.
  - inversion H; subst. apply str_eqb_eq in E. split; [now left | assumption].
  - apply IH in H. destruct H. split; [now right | assumption].
Qed.

Lemma find_struct_name_in : forall l n, In n (map is_name l) -> exists sd, find_struct l n = Some sd.
Proof.
  induction l as [|s l IH]; intros n H; [contradiction|]. cbn [find_struct].
  destruct (str_eqb (is_name s) n) eqn:E; [eauto|]. destruct H as [H|H]; [|auto].
  cbn [map In] in H. subst. rewrite str_eqb_refl in E. discriminate.
Qed.
Lemma find_mmap_name_in : forall l n, In n (map im_name l) -> exists sd, find_mmap l n = Some sd.
Proof.
  induction l as [|s l IH]; intros n H; [contradiction|]. cbn [find_mmap].
  destruct (str_eqb (im_name s) n) eqn:E; [eauto|]. destruct H as [H|H]; [|auto].
  cbn [map In] in H. subst. rewrite str_eqb_refl in E. discriminate.
Qed.
Lemma find_enum_name_in : forall l n, In n (map ie_name l) -> exists sd, find_enum l n = Some sd.
Proof.
  induction l as [|s l IH]; intros n H; [contradiction|]. cbn [find_enum].
  destruct (str_eqb (ie_name s) n) eqn:E; [eauto|]. destruct H as [H|H]; [|auto].
  cbn [map In] in H. subst. rewrite str_eqb_refl in E. discriminate.
Qed.

Lemma sorted_structs_names : forall s, map is_name (sorted_structs s) = sort_str (map is_name (i_structs s)).
Proof.
  intros s. unfold sorted_structs.
  assert (H : forall names, (forall n, In n names -> In n (map is_name (i_structs s))) ->
    map is_name (flat_map (fun n => match find_struct (i_structs s) n with Some sd => [sd] | None => [] end) names) = names).
  { induction names as [|n names IH]; intros Hin; [reflexivity|]. cbn [flat_map]. rewrite map_app, IH by (intros; apply Hin; now right).
    destruct (find_struct_name_in _ n (Hin n (or_introl eq_refl))) as [sd E]. rewrite E.
    apply find_struct_Some in E. destruct E as [_ E]. cbn [map app]. rewrite E. reflexivity. }
  apply H. intros n Hn. rewrite In_sort_str in Hn. exact Hn.
Qed.
Lemma sorted_mmaps_names : forall s, map im_name (sorted_mmaps s) = sort_str (map im_name (i_mmaps s)).
Proof.
  intros s. unfold sorted_mmaps.
  assert (H : forall names, (forall n, In n names -> In n (map im_name (i_mmaps s))) ->
    map im_name (flat_map (fun n => match find_mmap (i_mmaps s) n with Some sd => [sd] | None => [] end) names) = names).
  { induction names as [|n names IH]; intros Hin; [reflexivity|]. cbn [flat_map]. rewrite map_app, IH by (intros; apply Hin; now right).
    destruct (find_mmap_name_in _ n (Hin n (or_introl eq_refl))) as [sd E]. rewrite E.
    apply find_mmap_Some in E. destruct E as [_ E]. cbn [map app]. rewrite E. reflexivity. }
  apply H. intros n Hn. rewrite In_sort_str in Hn. exact Hn.
Qed.
Lemma sorted_enums_names : forall s, map ie_name (sorted_enums s) = sort_str (map ie_name (i_enums s)).
Proof.
  intros s. unfold sorted_enums.
  assert (H : forall names, (forall n, In n names -> In n (map ie_name (i_enums s))) ->
    map ie_name (flat_map (fun n => match find_enum (i_enums s) n with Some sd => [sd] | None => [] end) names) = names).
  { induction names as [|n names IH]; intros Hin; [reflexivity|]. cbn [flat_map]. rewrite map_app, IH by (intros; apply Hin; now right).
    destruct (find_enum_name_in _ n (Hin n (or_introl eq_refl))) as [sd E]. rewrite E.
    apply find_enum_Some in E. destruct E as [_ E]. cbn [map app]. rewrite E. reflexivity. }
  apply H. intros n Hn. rewrite In_sort_str in Hn. exact Hn.
Qed.

Lemma NoDup_app_iff : forall A (a b : list A),
  NoDup (a ++ b) <-> NoDup a /\ NoDup b /\ (forall x, In x a -> In x b -> False).
Proof.
  intros A a b. induction a as [|x a IH]; cbn [app].
  - split; [intros H; repeat split; [constructor | exact H | intros x []] | tauto].
  - split.
    + intros H. inversion H as [|? ? Hn Hnd]; subst. apply IH in Hnd. destruct Hnd as (H1 & H2 & H3).
      rewrite in_app_iff in Hn. repeat split; [constructor; tauto | exact H2 |].
      intros y [<-|Hy] Hb; [tauto | eauto].
    + intros (H1 & H2 & H3). inversion H1; subst. constructor.
      * rewrite in_app_iff. intros [Hx|Hx]; [contradiction | apply (H3 x); [now left | exact Hx]].
      * apply IH. repeat split; try assumption. intros y Hy Hb. apply (H3 y); [now right | exact Hb].
Qed.

Lemma def_names_of : forall es ms ss,
  map def_name (defs_of es ms ss) = map ie_name es ++ map im_name ms ++ map is_name ss.
Proof. intros. unfold defs_of. rewrite !map_app, !map_map. reflexivity. Qed.

Lemma sorted_def_names_nodup : forall s, NoDup (all_names s) ->
  NoDup (map def_name (defs_of (sorted_enums s) (sorted_mmaps s) (sorted_structs s))).
Proof.
  intros s H. rewrite def_names_of, sorted_enums_names, sorted_mmaps_names, sorted_structs_names.
  unfold all_names in H. apply NoDup_app_iff in H. destruct H as (HS & H & HSx).
  apply NoDup_app_iff in H. destruct H as (HM & HE & HMx).
  apply NoDup_app_iff. split; [apply NoDup_sort_str; exact HE|]. split.
  - apply NoDup_app_iff. split; [apply NoDup_sort_str; exact HM|]. split; [apply NoDup_sort_str; exact HS|].
    intros x Hx Hy. rewrite In_sort_str in Hx. rewrite In_sort_str in Hy. apply (HSx x Hy). apply in_or_app. now left.
  - intros x Hx Hy. rewrite In_sort_str in Hx. apply in_app_iff in Hy. destruct Hy as [Hy|Hy]; rewrite In_sort_str in Hy.
    + apply (HMx x Hy Hx).
    + apply (HSx x Hy). apply in_or_app. now right.
Qed.

Lemma tk_defs_len_in : forall ds d, In d ds -> (length (toks (pc_def d)) <= length (tk_defs ds))%nat.
Proof.
  induction ds as [|d0 ds IH]; intros d H; [contradiction|].
  cbn [tk_defs flat_map]. fold (tk_defs ds). rewrite app_length.
  destruct H as [->|H]; [lia | specialize (IH d H); lia].
Qed.

Lemma tk_defs_len : forall ds, (length ds <= length (tk_defs ds))%nat.
Proof.
  induction ds as [|d0 ds IH]; [cbn [tk_defs flat_map length]; lia|].
  cbn [tk_defs flat_map]. fold (tk_defs ds). rewrite app_length. pose proof (def_toks_pos d0). cbn [length]. lia.
Qed.

(* (a): the parser on the tokens of a printable schema, whatever positions they carry *)
Theorem parse_schema_tokens : forall s ts, printable s = true ->
  map erase ts = schema_tokens s ++ [a_eof] ->
  exists ts', parse_tokens true ts = Ok (ts', ast_schema s) /\ map erase ts' = [a_eof].
Proof.
  intros s ts Hp H. unfold printable in Hp. rewrite !andb_true_iff in Hp.
  destruct Hp as [[[[[[Hpne Hpkg] Hss] Hms] Hes] Hnd] Hne].
  apply nodup_str_NoDup in Hnd.
  set (ds := defs_of (sorted_enums s) (sorted_mmaps s) (sorted_structs s)).
  assert (Hds_ne : ds <> []).
  { intros E. assert (El : length (map def_name ds) = O) by (rewrite E; reflexivity).
    unfold ds in El. rewrite def_names_of, sorted_enums_names, sorted_mmaps_names, sorted_structs_names in El.
    rewrite !app_length, !length_sort_str in El.
    unfold all_names in Hne. destruct (i_structs s), (i_mmaps s), (i_enums s); cbn [map app length is_nil negb] in El, Hne; try lia; discriminate. }
  assert (Hds_pr : forallb def_pr ds = true).
  { apply forallb_forall. intros d Hd. unfold ds, defs_of in Hd. rewrite !in_app_iff, !in_map_iff in Hd.
    rewrite forallb_forall in Hss, Hms, Hes.
    destruct Hd as [[e [<- Hin]]|[[m [<- Hin]]|[sd [<- Hin]]]]; cbn [def_pr].
    - apply Hes, sorted_enums_in, Hin.
    - apply Hms, sorted_mmaps_in, Hin.
    - apply Hss, sorted_structs_in, Hin. }
  rewrite schema_tokens_eq in H. fold ds in H. cbn [app] in H. rewrite <- app_assoc in H.
  assert (Hlen : length ts = S (length (tk_pkg (i_pkg s)) + length (tk_defs ds) + 1)).
  { rewrite <- (map_length erase), H. cbn [length]. rewrite !app_length. cbn [length]. lia. }
  unfold parse_tokens, parse_package.
  unfold kw at 1 in H. rewrite wk_package in H.
  destruct (eat_ok _ _ _ _ _ H ltac:(ne)) as (ts1 & E1 & H1). rewrite E1. cbn [bind].
  assert (Hdot : hdk (tk_defs ds ++ [a_eof]) <> TkDot).
  { destruct ds as [|d ds']; [contradiction|]. cbn [tk_defs flat_map]. rewrite <- app_assoc, hdk_def.
    destruct d as [?|?|sd]; cbn [def_kw]; try destruct (is_oneof sd); discriminate. }
  assert (Hpn : i_pkg s <> []) by (destruct (i_pkg s); [discriminate Hpne | discriminate]).
  assert (Hpl : (length (i_pkg s) <= S (length ts))%nat) by (pose proof (length_tk_pkg (i_pkg s)); lia).
  destruct (P_pkg (i_pkg s) (S (length ts)) ts1 [] (tk_defs ds ++ [a_eof]) Hpn Hpkg H1 ltac:(ne) Hdot Hpl)
    as (ts2 & E2 & H2).
  rewrite E2. cbn [bind app].
  destruct (P_defs ds (S (length ts)) (S (length ts)) ts2 (mkISchema (i_pkg s) [] [] []) Hds_ne Hds_pr H2)
    as (ts3 & E3 & H3).
  - apply sorted_def_names_nodup. exact Hnd.
  - intros d _ Hin. exact Hin.
  - lia.
  - intros d Hd. pose proof (def_count_le d). pose proof (tk_defs_len_in ds d Hd). lia.
  - pose proof (tk_defs_len ds). lia.
  - exists ts3. split; [|exact H3]. rewrite E3. unfold ds. rewrite fold_add_defs. reflexivity.
Qed.

Print Assumptions parse_schema_tokens.
