(* C13, parser level: on (any positions attached to) schema_tokens s the parser returns
   ast_schema s, for every printable s. *)
From Coq Require Import List NArith ZArith Bool Lia ZifyN ZifyNat ZifyBool Arith.
From Stef.Idl Require Import Unicode Lexer Ast Parser Resolve Printer SchemaSpec ParserFacts ResolveFacts RecFacts
  RoundTripBase RoundTripLex.
Import ListNotations.
Open Scope N_scope.

(* ---------- token lists seen through erase ---------- *)
Definition hdk (l : list atok) : tkind := a_kind (hd a_eof l).

Lemma map_ne : forall ts l, map erase ts = l -> l <> [] -> ts <> [].
Proof. intros ts l H Hl ->. apply Hl. symmetry. exact H. Qed.

Lemma app_ne_r : forall A (a b : list A), b <> [] -> a ++ b <> [].
Proof. intros A a b Hb H. apply app_eq_nil in H. tauto. Qed.

Ltac ne := repeat (apply app_ne_r); first [assumption | discriminate].

(* the first token of the list *)
Lemma tok_inv : forall ts k i n l, map erase ts = mkA k i n :: l -> l <> [] ->
  exists t ts', ts = t :: ts' /\ t_kind t = k /\ t_ident t = i /\ t_num t = n
                /\ map erase ts' = l /\ advance ts = ts'.
Proof.
  intros ts k i n l H Hl. destruct ts as [|t ts]; [discriminate|].
  cbn [map] in H. injection H as Hk Hi Hn H.
  exists t, ts. repeat split; try assumption.
  destruct ts as [|t' ts]; [cbn [map] in H; subst l; contradiction | reflexivity].
Qed.

Lemma is_cons : forall t ts k, is (t :: ts) k = tkind_eqb (t_kind t) k.
Proof. reflexivity. Qed.
Lemma kind_cons : forall t ts, kind (t :: ts) = t_kind t.
Proof. reflexivity. Qed.
Lemma cur_cons : forall t ts, cur (t :: ts) = t.
Proof. reflexivity. Qed.

Lemma is_hdk : forall ts l k, map erase ts = l -> l <> [] -> is ts k = tkind_eqb (hdk l) k.
Proof.
  intros ts l k H Hl. destruct ts as [|t ts]; [cbn [map] in H; subst l; contradiction|].
  subst l. reflexivity.
Qed.

Lemma kind_hdk : forall ts l, map erase ts = l -> l <> [] -> kind ts = hdk l.
Proof.
  intros ts l H Hl. destruct ts as [|t ts]; [cbn [map] in H; subst l; contradiction|].
  subst l. reflexivity.
Qed.

Lemma tkind_eqb_false : forall a b, a <> b -> tkind_eqb a b = false.
Proof. intros a b H. destruct (tkind_eqb a b) eqn:E; [apply tkind_eqb_true in E; contradiction | reflexivity]. Qed.

Lemma tkind_eqb_refl : forall a, tkind_eqb a a = true.
Proof. destruct a; reflexivity. Qed.

Lemma eat_ok : forall ts k i n l, map erase ts = mkA k i n :: l -> l <> [] ->
  exists ts', eat k ts = Ok ts' /\ map erase ts' = l.
Proof.
  intros ts k i n l H Hl. destruct (tok_inv ts k i n l H Hl) as (t & ts' & -> & Hk & _ & _ & H' & Ha).
  exists ts'. split; [|exact H']. unfold eat. rewrite is_cons, Hk, tkind_eqb_refl, Ha. reflexivity.
Qed.

(* ---------- words ---------- *)
Definition kw (w : str) : atok := mkA (word_kind w) w 0.
Definition pu (k : tkind) : atok := mkA k [] 0.

Lemma ident_ok_kind : forall w, ident_ok w = true -> word_kind w = TkIdent.
Proof.
  intros w H. unfold ident_ok in H. apply andb_true_iff in H. destruct H as [_ H].
  unfold word_kind. destruct (keyword w); [discriminate | reflexivity].
Qed.

Lemma ident_ok_word : forall w, ident_ok w = true -> word_ok w = true.
Proof. intros w H. unfold ident_ok in H. apply andb_true_iff in H. tauto. Qed.

Lemma toks_dict : forall d, toks (pc_dict d) =
  match d with [] => [] | _ => [kw S_dict; pu TkLParen; kw d; pu TkRParen] end.
Proof. intros [|c d]; reflexivity. Qed.

(* ---------- parseDictModifier ---------- *)
Lemma P_dict : forall d ts rest, ident_ok d = true ->
  map erase ts = [kw S_dict; pu TkLParen; kw d; pu TkRParen] ++ rest -> rest <> [] ->
  exists ts', parse_dict_modifier ts = Ok (ts', d) /\ map erase ts' = rest.
Proof.
  intros d ts rest Hd H Hr. cbn [app] in H. unfold kw, pu in H. rewrite (ident_ok_kind d Hd) in H.
  destruct (tok_inv _ _ _ _ _ H ltac:(ne)) as (t0 & ts0 & -> & _ & _ & _ & H0 & A0).
  unfold parse_dict_modifier. rewrite A0.
  destruct (eat_ok _ _ _ _ _ H0 ltac:(ne)) as (ts1 & E1 & H1). rewrite E1. cbn [bind].
  destruct (tok_inv _ _ _ _ _ H1 ltac:(ne)) as (t2 & ts2 & -> & K2 & I2 & _ & H2 & A2).
  rewrite is_cons, K2. cbn [tkind_eqb tkind_code N.eqb Pos.eqb negb]. rewrite cur_cons, A2, I2.
  destruct (eat_ok _ _ _ _ _ H2 Hr) as (ts3 & E3 & H3). rewrite E3. cbn [bind].
  exists ts3. split; [reflexivity | exact H3].
Qed.

(* ---------- parseFieldType ---------- *)
Definition pft_tail (strict : bool) (field : itype) (isarr : bool) (ts : list token) : res (list token * itype) :=
  match base_type (cur ts) with
  | None =>
    if isarr then perr ts MArrType
    else if strict then perr ts MNoType
    else Ok (ts, field)
  | Some ft =>
    let ts := advance ts in
    do (ts, ft) <- (if is ts TkDict then
                       if dict_forbidden ft then perr ts MDictPrim
                       else (do (ts, d) <- parse_dict_modifier ts; Ok (ts, set_dict ft d))
                     else Ok (ts, ft));
    Ok (ts, if isarr then IArray ft (it_dict field) false else ft)
  end.

Lemma parse_field_type_tail : forall strict ts field,
  parse_field_type strict ts field =
  do (ts, isarr) <- (if is ts TkLBracket then (do ts <- eat TkRBracket (advance ts); Ok (ts, true))
                      else Ok (ts, false));
  pft_tail strict field isarr ts.
Proof. reflexivity. Qed.

(* the word a base type prints as, and what base_type makes of it *)
Definition base_word (t : itype) : str :=
  match t with
  | IPrim p _ => prim_name p
  | IRef n _ | IStruct n _ | IMap n _ | IEnum n _ => n
  | _ => []
  end.

Lemma base_pc : forall e, base_ok e = true -> pc_type e = [PWord (base_word e)].
Proof. intros [d|p d|n d|n d|n d|n d|e d r] H; try discriminate; reflexivity. Qed.

Lemma base_type_word : forall e t, base_ok e = true ->
  t_kind t = word_kind (base_word e) -> t_ident t = base_word e ->
  base_type t = Some (set_dict (ast_base e) []) /\ t_kind t <> TkLBracket.
Proof.
  intros e t H Hk Hi. unfold base_type.
  destruct e as [d|p d|n d|n d|n d|n d|e d r]; try discriminate; cbn [base_ok base_word] in *;
    try (apply andb_true_iff in H; destruct H as [H _]; rewrite (ident_ok_kind n H) in Hk;
         rewrite Hk, Hi; split; [reflexivity | discriminate]).
  destruct p; rewrite Hk; split; try reflexivity; discriminate.
Qed.

Lemma base_dict_ok : forall e, base_ok e = true -> it_dict e <> [] ->
  ident_ok (it_dict e) = true /\ dict_forbidden (set_dict (ast_base e) []) = false.
Proof.
  intros [d|p d|n d|n d|n d|n d|e d r] H Hd; try discriminate; cbn [base_ok it_dict] in *.
  - destruct d as [|c d]; [contradiction|]. cbn [is_nil orb] in H. apply andb_true_iff in H.
    destruct H as [H1 H2]. split; [exact H1|]. apply negb_true_iff in H2.
    destruct p; try discriminate H2; reflexivity.
  - apply andb_true_iff in H. destruct H as [_ H]. destruct d; [contradiction|]. split; [exact H|reflexivity].
  - apply andb_true_iff in H. destruct H as [_ H]. destruct d; [contradiction|]. split; [exact H|reflexivity].
  - apply andb_true_iff in H. destruct H as [_ H]. destruct d; [contradiction|]. split; [exact H|reflexivity].
  - apply andb_true_iff in H. destruct H as [_ H]. destruct d; [contradiction|]. split; [exact H|reflexivity].
Qed.

Lemma set_dict_ast_base : forall e, base_ok e = true ->
  set_dict (set_dict (ast_base e) []) (it_dict e) = ast_base e.
Proof. intros [d|p d|n d|n d|n d|n d|e d r] H; try discriminate; reflexivity. Qed.

Lemma set_dict_nil_ast_base : forall e, base_ok e = true -> it_dict e = [] ->
  set_dict (ast_base e) [] = ast_base e.
Proof. intros [d|p d|n d|n d|n d|n d|e d r] H Hd; try discriminate; cbn [it_dict] in Hd; subst; reflexivity. Qed.

Lemma P_tail : forall e isarr field ts rest, base_ok e = true ->
  map erase ts = toks (pc_type e ++ pc_dict (it_dict e)) ++ rest -> rest <> [] ->
  (it_dict e = [] -> hdk rest <> TkDict) ->
  exists ts', pft_tail true field isarr ts
              = Ok (ts', if isarr then IArray (ast_base e) (it_dict field) false else ast_base e)
              /\ map erase ts' = rest.
Proof.
  intros e isarr field ts rest He H Hr Hnd.
  rewrite toks_app, (base_pc e He), toks_dict in H. cbn [toks flat_map tok1 app] in H.
  destruct (tok_inv _ _ _ _ _ H ltac:(destruct (it_dict e); ne)) as (t0 & ts0 & -> & K0 & I0 & _ & H0 & A0).
  destruct (base_type_word e t0 He K0 I0) as [Hb _].
  unfold pft_tail. rewrite cur_cons, Hb, A0.
  destruct (it_dict e) as [|c d] eqn:Ed.
  - cbn [app] in H0. rewrite (is_hdk _ _ _ H0 Hr), (tkind_eqb_false _ _ (Hnd eq_refl)). cbn [bind].
    rewrite (set_dict_nil_ast_base e He Ed). exists ts0. split; [reflexivity | exact H0].
  - assert (Hne : it_dict e <> []) by (rewrite Ed; discriminate).
    destruct (base_dict_ok e He Hne) as [Hd Hf]. rewrite Ed in Hd.
    rewrite (is_hdk _ _ _ H0 ltac:(ne)). change (tkind_eqb (hdk _) TkDict) with true. cbv iota.
    rewrite Hf. destruct (P_dict (c :: d) ts0 rest Hd H0 Hr) as (ts1 & E1 & H1).
    rewrite E1. cbn [bind]. rewrite <- Ed, (set_dict_ast_base e He).
    exists ts1. split; [reflexivity | exact H1].
Qed.

(* the tokens parseFieldType itself consumes *)
Definition pc_inner (t : itype) : list piece :=
  match t with IArray _ _ _ => pc_type t | _ => pc_type t ++ pc_dict (it_dict t) end.
Definition inner_dict (t : itype) : str :=
  match t with IArray e _ _ => it_dict e | _ => it_dict t end.
Definition inner_ast (t : itype) : itype :=
  match t with IArray e _ _ => IArray (ast_base e) [] false | _ => ast_base t end.

Lemma P_ftype : forall inmap t ts rest, ftype_ok inmap t = true ->
  map erase ts = toks (pc_inner t) ++ rest -> rest <> [] ->
  (inner_dict t = [] -> hdk rest <> TkDict) ->
  exists ts', parse_field_type true ts (INone []) = Ok (ts', inner_ast t) /\ map erase ts' = rest.
Proof.
  intros inmap t ts rest Ht H Hr Hnd. rewrite parse_field_type_tail.
  destruct t as [d|p d|n d|n d|n d|n d|e d r];
    try (cbn [ftype_ok] in Ht; discriminate Ht).
  6: { (* array *)
    cbn [ftype_ok] in Ht. apply andb_true_iff in Ht. destruct Ht as [He _].
    cbn [pc_inner pc_type inner_dict inner_ast] in *.
    rewrite toks_app in H. cbn [toks flat_map tok1 app] in H.
    destruct (tok_inv _ _ _ _ _ H ltac:(discriminate)) as (t0 & ts0 & -> & K0 & _ & _ & H0 & A0).
    rewrite is_cons, K0, A0. cbn [tkind_eqb tkind_code N.eqb Pos.eqb].
    destruct (eat_ok _ _ _ _ _ H0 ltac:(ne)) as (ts1 & E1 & H1). rewrite E1. cbn [bind].
    destruct (P_tail e true (INone []) ts1 rest He H1 Hr Hnd) as (ts2 & E2 & H2).
    exists ts2. split; [exact E2 | exact H2]. }
  all: cbn [ftype_ok] in Ht; cbn [pc_inner inner_dict inner_ast] in *.
  all: match type of Ht with base_ok ?e = true =>
         pose proof H as H'; rewrite toks_app, (base_pc e Ht) in H'; cbn [toks flat_map tok1 app] in H';
         destruct (tok_inv _ _ _ _ _ H' ltac:(rewrite toks_dict; destruct (it_dict e); ne))
           as (t0 & ts0 & E0 & K0 & I0 & _ & _ & _);
         destruct (base_type_word e t0 Ht K0 I0) as [_ Hlb];
         rewrite K0 in Hlb;
         rewrite (is_hdk _ _ _ H' ltac:(discriminate)); unfold hdk; cbn [hd a_kind];
         rewrite (tkind_eqb_false _ _ Hlb); cbn [bind];
         destruct (P_tail e false (INone []) ts rest Ht H Hr Hnd) as (ts2 & E2 & H2);
         exists ts2; split; [exact E2 | exact H2]
       end.
Qed.

(* ---------- struct fields ---------- *)
Lemma wk_optional : word_kind S_optional = TkOptional. Proof. reflexivity. Qed.
Lemma wk_dict : word_kind S_dict = TkDict. Proof. reflexivity. Qed.
Lemma wk_root : word_kind S_root = TkRoot. Proof. reflexivity. Qed.
Lemma wk_struct : word_kind S_struct = TkStruct. Proof. reflexivity. Qed.
Lemma wk_oneof : word_kind S_oneof = TkOneof. Proof. reflexivity. Qed.
Lemma wk_multimap : word_kind S_multimap = TkMultimap. Proof. reflexivity. Qed.
Lemma wk_enum : word_kind S_enum = TkEnum. Proof. reflexivity. Qed.
Lemma wk_key : word_kind S_key = TkKey. Proof. reflexivity. Qed.
Lemma wk_value : word_kind S_value = TkValue. Proof. reflexivity. Qed.
Lemma wk_package : word_kind S_package = TkPackage. Proof. reflexivity. Qed.

Lemma P_mods_opt : forall fuel ts rest, map erase ts = kw S_optional :: rest -> rest <> [] ->
  hdk rest <> TkOptional -> (2 <= fuel)%nat ->
  exists ts', parse_field_modifiers fuel ts false = Ok (ts', true) /\ map erase ts' = rest.
Proof.
  intros fuel ts rest H Hr Hk Hf. destruct fuel as [|[|f]]; try lia.
  destruct (tok_inv _ _ _ _ _ H Hr) as (t0 & ts0 & -> & K0 & _ & _ & H0 & A0).
  cbn [parse_field_modifiers]. rewrite is_cons, K0, wk_optional, A0.
  cbn [tkind_eqb tkind_code N.eqb Pos.eqb]. rewrite (is_hdk _ _ _ H0 Hr), (tkind_eqb_false _ _ Hk).
  exists ts0. split; [reflexivity | exact H0].
Qed.

Lemma P_mods_none : forall fuel ts rest, map erase ts = rest -> rest <> [] ->
  hdk rest <> TkOptional -> (1 <= fuel)%nat ->
  parse_field_modifiers fuel ts false = Ok (ts, false).
Proof.
  intros fuel ts rest H Hr Hk Hf. destruct fuel as [|f]; try lia.
  cbn [parse_field_modifiers]. rewrite (is_hdk _ _ _ H Hr), (tkind_eqb_false _ _ Hk). reflexivity.
Qed.

Lemma ftype_struct : forall t, ftype_ok false t = true ->
  pc_type t ++ pc_dict (it_dict t) = pc_inner t /\ inner_ast t = ast_type t.
Proof.
  intros [d|p d|n d|n d|n d|n d|e d r] H; try (split; reflexivity).
  cbn [ftype_ok] in H. apply andb_true_iff in H. destruct H as [_ H].
  destruct d; [|discriminate H]. cbn [pc_inner it_dict pc_dict]. rewrite app_nil_r. split; reflexivity.
Qed.

Lemma toks_field : forall f, toks (pc_field f) =
  kw (if_name f) :: toks (pc_type (if_type f) ++ pc_dict (it_dict (if_type f)))
  ++ (if if_opt f then [kw S_optional] else []).
Proof.
  intros f. unfold pc_field.
  change (toks ([PWord (if_name f); sp] ++ ?x)) with (kw (if_name f) :: toks x). f_equal.
  rewrite !toks_app, <- app_assoc. do 2 f_equal. destruct (if_opt f); reflexivity.
Qed.

Lemma P_field : forall f fuel ts acc rest, field_ok f = true ->
  map erase ts = toks (pc_field f) ++ rest -> rest <> [] ->
  hdk rest <> TkDict -> hdk rest <> TkOptional -> has_field acc (if_name f) = false -> (2 <= fuel)%nat ->
  exists ts', parse_struct_field true fuel ts acc = Ok (ts', acc ++ [ast_field f], true)
              /\ map erase ts' = rest.
Proof.
  intros f fuel ts acc rest Hf H Hr Hd Ho Hacc Hfuel.
  unfold field_ok in Hf. apply andb_true_iff in Hf. destruct Hf as [Hn Ht].
  destruct (ftype_struct _ Ht) as [Epc East].
  rewrite toks_field, Epc in H. cbn [app] in H. rewrite <- app_assoc in H.
  unfold kw at 1 in H. rewrite (ident_ok_kind _ Hn) in H.
  destruct (tok_inv _ _ _ _ _ H ltac:(destruct (if_opt f); ne)) as (t0 & ts0 & -> & K0 & I0 & _ & H0 & A0).
  unfold parse_struct_field. rewrite is_cons, K0. cbn [tkind_eqb tkind_code N.eqb Pos.eqb negb].
  rewrite cur_cons, I0, Hacc, A0.
  assert (Hnd : inner_dict (if_type f) = [] -> hdk ((if if_opt f then [kw S_optional] else []) ++ rest) <> TkDict).
  { intros _. destruct (if_opt f); [discriminate | exact Hd]. }
  destruct (P_ftype false _ ts0 _ Ht H0 ltac:(destruct (if_opt f); ne) Hnd) as (ts1 & E1 & H1).
  rewrite E1. cbn [bind]. rewrite East.
  destruct (if_opt f) eqn:Eo.
  - cbn [app] in H1. destruct (P_mods_opt fuel ts1 rest H1 Hr Ho Hfuel) as (ts2 & E2 & H2).
    rewrite E2. cbn [bind]. exists ts2. split; [|exact H2].
    unfold ast_field. rewrite Eo. reflexivity.
  - cbn [app] in H1. rewrite (P_mods_none fuel ts1 rest H1 Hr Ho ltac:(lia)). cbn [bind].
    exists ts1. split; [|exact H1]. unfold ast_field. rewrite Eo. reflexivity.
Qed.

Definition tk_fields (fs : list isfield) : list atok := flat_map (fun f => toks (pc_field f)) fs.

Lemma toks_fields : forall fs,
  toks (flat_map (fun f => [pnl; sp; sp] ++ pc_field f) fs) = tk_fields fs.
Proof.
  induction fs as [|f fs IH]; [reflexivity|].
  cbn [flat_map tk_fields]. rewrite !toks_app, IH. reflexivity.
Qed.

Lemma has_field_mem : forall fs n, has_field fs n = mem_str n (map if_name fs).
Proof. induction fs as [|f fs IH]; intros n; [reflexivity|]. cbn [has_field map mem_str]. rewrite IH. reflexivity. Qed.

Lemma hdk_field : forall f l, hdk (toks (pc_field f) ++ l) = word_kind (if_name f).
Proof. intros f l. rewrite toks_field. reflexivity. Qed.

Lemma P_fields : forall fs fuel0 fuel ts acc rest,
  forallb field_ok fs = true -> NoDup (map if_name acc ++ map if_name fs) ->
  map erase ts = tk_fields fs ++ rest -> rest <> [] -> hdk rest = TkRBrace ->
  (2 <= fuel0)%nat -> (length fs < fuel)%nat ->
  exists ts', parse_struct_fields true fuel0 fuel ts acc = Ok (ts', acc ++ map ast_field fs)
              /\ map erase ts' = rest.
Proof.
  induction fs as [|f fs IH]; intros fuel0 fuel ts acc rest Hok Hnd H Hr Hk Hf0 Hf.
  - cbn [tk_fields flat_map app] in H. destruct fuel as [|fuel]; [cbn [length] in Hf; lia|].
    cbn [parse_struct_fields]. unfold parse_struct_field.
    rewrite (is_hdk _ _ _ H Hr), Hk. cbn [tkind_eqb tkind_code N.eqb Pos.eqb negb bind].
    exists ts. rewrite app_nil_r. split; [reflexivity | exact H].
  - cbn [forallb] in Hok. apply andb_true_iff in Hok. destruct Hok as [Hok1 Hok2].
    destruct fuel as [|fuel]; [cbn [length] in Hf; lia|].
    cbn [tk_fields flat_map] in H. fold (tk_fields fs) in H. rewrite <- app_assoc in H.
    assert (Hne : tk_fields fs ++ rest <> []) by ne.
    assert (Hhd : hdk (tk_fields fs ++ rest) <> TkDict /\ hdk (tk_fields fs ++ rest) <> TkOptional).
    { destruct fs as [|f' fs'].
      - cbn [tk_fields flat_map app]. rewrite Hk. split; discriminate.
      - cbn [tk_fields flat_map]. rewrite <- app_assoc, hdk_field.
        cbn [forallb] in Hok2. apply andb_true_iff in Hok2. destruct Hok2 as [Hf' _].
        unfold field_ok in Hf'. apply andb_true_iff in Hf'. destruct Hf' as [Hf' _].
        rewrite (ident_ok_kind _ Hf'). split; discriminate. }
    assert (Hacc : has_field acc (if_name f) = false).
    { rewrite has_field_mem. destruct (mem_str (if_name f) (map if_name acc)) eqn:E; [|reflexivity].
      apply mem_str_In in E. cbn [map] in Hnd. apply NoDup_remove_2 in Hnd.
      exfalso. apply Hnd. apply in_or_app. now left. }
    destruct (P_field f fuel0 ts acc _ Hok1 H Hne (proj1 Hhd) (proj2 Hhd) Hacc Hf0) as (ts1 & E1 & H1).
    cbn [parse_struct_fields]. rewrite E1. cbn [bind].
    destruct (IH fuel0 fuel ts1 (acc ++ [ast_field f]) rest Hok2) as (ts2 & E2 & H2); try assumption.
    + rewrite map_app. cbn [map ast_field if_name]. rewrite <- app_assoc. exact Hnd.
    + cbn [length] in Hf. lia.
    + exists ts2. split; [|exact H2]. rewrite E2. cbn [map]. rewrite <- app_assoc. reflexivity.
Qed.
