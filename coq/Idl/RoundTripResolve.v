(* C13, resolver level, first half: resolving the references of the schema the parser builds from
   the printed text gives back the schema in print order with every recursion flag cleared. *)
From Coq Require Import List NArith ZArith Bool Lia ZifyN ZifyNat ZifyBool Arith.
From Stef.Idl Require Import Unicode Lexer Ast Parser Resolve Printer SchemaSpec ParserFacts ResolveFacts RecFacts
  RoundTripBase RoundTripLex RoundTripParse.
Import ListNotations.
Open Scope N_scope.

(* ---------- definitions ---------- *)
(* every reference names a definition of its own category *)
Fixpoint rtype_b (sch : ischema) (t : itype) : bool :=
  match t with
  | IPrim _ _ => true
  | IStruct n _ => has_struct sch n
  | IMap n _ => has_mmap sch n
  | IEnum n _ => has_enum sch n
  | IArray e _ _ => rtype_b sch e
  | INone _ | IRef _ _ => false
  end.

Definition resolved_b (sch : ischema) : bool :=
  forallb (fun sd => forallb (fun f => rtype_b sch (if_type f)) (is_fields sd)) (i_structs sch)
  && forallb (fun md => rtype_b sch (im_key md) && rtype_b sch (im_val md)) (i_mmaps sch).

(* recursion flags cleared *)
Definition unmark_type (t : itype) : itype :=
  match t with IArray e d _ => IArray e d false | _ => t end.
Definition unmark_field (f : isfield) : isfield := mkISField (if_name f) (unmark_type (if_type f)) (if_opt f).
Definition unmark_struct (s : isdef) : isdef :=
  mkISDef (is_name s) (is_oneof s) (is_dict s) (is_root s) (map unmark_field (is_fields s)) false.
Definition unmark_mmap (m : imdef) : imdef :=
  mkIMDef (im_name m) (unmark_type (im_key m)) (unmark_type (im_val m)) false.
Definition unmark (sch : ischema) : ischema :=
  mkISchema (i_pkg sch) (map unmark_struct (i_structs sch)) (map unmark_mmap (i_mmaps sch)) (i_enums sch).

(* ---------- name lookups in ast_schema ---------- *)
Lemma has_struct_ast : forall s n, has_struct (ast_schema s) n = has_struct s n.
Proof.
  intros s n. apply eq_true_iff_eq. rewrite !has_struct_in. cbn [ast_schema i_structs].
  rewrite map_map. cbn [ast_struct is_name]. change (fun x => is_name x) with is_name.
  rewrite sorted_structs_names. apply In_sort_str.
Qed.
Lemma has_mmap_ast : forall s n, has_mmap (ast_schema s) n = has_mmap s n.
Proof.
  intros s n. apply eq_true_iff_eq. rewrite !has_mmap_in. cbn [ast_schema i_mmaps].
  rewrite map_map. cbn [ast_mmap im_name]. change (fun x => im_name x) with im_name.
  rewrite sorted_mmaps_names. apply In_sort_str.
Qed.
Lemma has_enum_ast : forall s n, has_enum (ast_schema s) n = has_enum s n.
Proof.
  intros s n. apply eq_true_iff_eq. rewrite !has_enum_in. cbn [ast_schema i_enums].
  rewrite sorted_enums_names. apply In_sort_str.
Qed.

Lemma names_exclusive : forall s n, NoDup (all_names s) ->
  (has_struct s n = true -> has_mmap s n = false /\ has_enum s n = false) /\
  (has_mmap s n = true -> has_struct s n = false /\ has_enum s n = false) /\
  (has_enum s n = true -> has_struct s n = false /\ has_mmap s n = false).
Proof.
  intros s n H. unfold all_names in H. apply NoDup_app_iff in H. destruct H as (_ & H & HS).
  apply NoDup_app_iff in H. destruct H as (_ & _ & HM).
  assert (A : forall b, (b = true -> False) -> b = false) by (intros []; [intros X; exfalso; auto | reflexivity]).
  split; [|split]; intros Hx; split; apply A; intros Hy;
    rewrite ?has_struct_in, ?has_mmap_in, ?has_enum_in in *.
  - apply (HS n Hx). apply in_or_app. now left.
  - apply (HS n Hx). apply in_or_app. now right.
  - apply (HS n Hy). apply in_or_app. now left.
  - apply (HM n Hx Hy).
  - apply (HS n Hy). apply in_or_app. now right.
  - apply (HM n Hy Hx).
Qed.

Section Res.
  Variable s : ischema.
  Hypothesis Hnd : NoDup (all_names s).

  Lemma resolve_base : forall e, base_ok e = true -> rtype_b s e = true ->
    resolve_type (ast_schema s) (ast_base e) = inr e.
  Proof.
    intros e He Hr. destruct e as [d|p d|n d|n d|n d|n d|e d r]; try discriminate; cbn [rtype_b] in Hr;
      cbn [ast_base resolve_type]; try reflexivity;
      unfold resolve_name; rewrite has_struct_ast, has_mmap_ast, has_enum_ast;
      destruct (names_exclusive s n Hnd) as (H1 & H2 & H3).
    - destruct (H1 Hr) as [-> ->]. rewrite Hr. reflexivity.
    - destruct (H2 Hr) as [-> ->]. rewrite Hr. reflexivity.
    - destruct (H3 Hr) as [-> ->]. rewrite Hr. reflexivity.
  Qed.

  Lemma resolve_ftype : forall inmap t, ftype_ok inmap t = true -> rtype_b s t = true ->
    resolve_type (ast_schema s) (ast_type t) = inr (unmark_type t).
  Proof.
    intros inmap t Ht Hr. destruct t as [d|p d|n d|n d|n d|n d|e d r]; try discriminate.
    all: try (cbn [ftype_ok] in Ht; cbn [ast_type unmark_type]; rewrite (resolve_base _ Ht Hr); reflexivity).
    cbn [ftype_ok] in Ht. apply andb_true_iff in Ht. destruct Ht as [He _]. cbn [rtype_b] in Hr.
    cbn [ast_type resolve_type unmark_type]. rewrite (resolve_base e He Hr). reflexivity.
  Qed.

  Lemma resolve_fields_ast : forall fs, forallb field_ok fs = true ->
    forallb (fun f => rtype_b s (if_type f)) fs = true ->
    resolve_fields (ast_schema s) (map ast_field fs) = inr (map unmark_field fs).
  Proof.
    induction fs as [|f fs IH]; intros Hok Hr; [reflexivity|].
    cbn [forallb] in Hok, Hr. apply andb_true_iff in Hok. apply andb_true_iff in Hr.
    destruct Hok as [Hf Hok]. destruct Hr as [Hrf Hr].
    unfold field_ok in Hf. apply andb_true_iff in Hf. destruct Hf as [_ Hf].
    cbn [map resolve_fields ast_field if_type if_name if_opt].
    rewrite (resolve_ftype false _ Hf Hrf), (IH Hok Hr). reflexivity.
  Qed.

  Lemma resolve_structs_ast : forall l, forallb struct_pr l = true ->
    forallb (fun sd => forallb (fun f => rtype_b s (if_type f)) (is_fields sd)) l = true ->
    resolve_structs (ast_schema s) (map ast_struct l) = inr (map unmark_struct l).
  Proof.
    induction l as [|sd l IH]; intros Hok Hr; [reflexivity|].
    cbn [forallb] in Hok, Hr. apply andb_true_iff in Hok. apply andb_true_iff in Hr.
    destruct Hok as [Hs Hok]. destruct Hr as [Hrs Hr].
    unfold struct_pr in Hs. rewrite !andb_true_iff in Hs. destruct Hs as [_ Hfs].
    cbn [map resolve_structs ast_struct is_fields is_name is_oneof is_dict is_root is_rec].
    rewrite (resolve_fields_ast _ Hfs Hrs), (IH Hok Hr). reflexivity.
  Qed.

  Lemma resolve_mmaps_ast : forall l, forallb mmap_pr l = true ->
    forallb (fun md => rtype_b s (im_key md) && rtype_b s (im_val md)) l = true ->
    resolve_mmaps (ast_schema s) (map ast_mmap l) = inr (map unmark_mmap l).
  Proof.
    induction l as [|md l IH]; intros Hok Hr; [reflexivity|].
    cbn [forallb] in Hok, Hr. apply andb_true_iff in Hok. apply andb_true_iff in Hr.
    destruct Hok as [Hm Hok]. destruct Hr as [Hrm Hr]. apply andb_true_iff in Hrm. destruct Hrm as [Hrk Hrv].
    unfold mmap_pr in Hm. rewrite !andb_true_iff in Hm. destruct Hm as [[_ Hk] Hv].
    cbn [map resolve_mmaps ast_mmap im_key im_val im_name im_rec].
    rewrite (resolve_ftype true _ Hk Hrk), (resolve_ftype true _ Hv Hrv), (IH Hok Hr). reflexivity.
  Qed.
End Res.

Lemma forallb_sub : forall A (p : A -> bool) l l', (forall x, In x l' -> In x l) ->
  forallb p l = true -> forallb p l' = true.
Proof. intros A p l l' H Hl. rewrite forallb_forall in *. auto. Qed.

(* (c), first half *)
Theorem resolve_ast_schema : forall s, printable s = true -> resolved_b s = true ->
  resolve_refs (ast_schema s) = inr (unmark (canon s)).
Proof.
  intros s Hp Hr. unfold printable in Hp. rewrite !andb_true_iff in Hp.
  destruct Hp as [[[[[[_ _] Hss] Hms] _] Hnd] _]. apply nodup_str_NoDup in Hnd.
  unfold resolved_b in Hr. apply andb_true_iff in Hr. destruct Hr as [Hrs Hrm].
  unfold resolve_refs. cbn [ast_schema i_structs i_mmaps i_enums i_pkg].
  rewrite (resolve_structs_ast s Hnd (sorted_structs s)
             (forallb_sub _ _ _ _ (sorted_structs_in s) Hss) (forallb_sub _ _ _ _ (sorted_structs_in s) Hrs)).
  rewrite (resolve_mmaps_ast s Hnd (sorted_mmaps s)
             (forallb_sub _ _ _ _ (sorted_mmaps_in s) Hms) (forallb_sub _ _ _ _ (sorted_mmaps_in s) Hrm)).
  reflexivity.
Qed.

Print Assumptions resolve_ast_schema.
