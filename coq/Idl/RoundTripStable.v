(* C13, resolver level, second half: what idl.Parse returns is, in print order, a fixed point of
   recursion marking and pruning (RoundTripThm.stable).

   Setting: sch1 is a resolved schema without recursion flags (what ResolveRefs' name resolution
   yields on a parser output), M1 its marks, s the result of pruning apply_marks sch1 M1.
   1. selection by name (print order, pruning) commutes with marking and unmarking;
   2. the marks computed for a root depend only on the definitions reachable from it, and not on
      the fuel once it suffices;
   3. the reachable set is the least closed set containing the roots, so pruning the pruned
      schema (in any order of definitions) keeps everything. *)
From Coq Require Import List NArith ZArith Bool Lia ZifyN ZifyNat ZifyBool Arith.
From Stef.Idl Require Import Unicode Lexer Ast Parser Resolve Printer SchemaSpec ParserFacts ResolveFacts RecFacts
  PruneFacts RoundTripBase RoundTripLex RoundTripParse RoundTripResolve RoundTripThm.
Import ListNotations.
Open Scope N_scope.

(* ---------- 1. marking and unmarking, definition by definition ---------- *)
Definition mark_field (M : list mark) (owner : str) (ix : nat * isfield) : isfield :=
  mkISField (if_name (snd ix)) (mark_type M (LField owner (fst ix)) (if_type (snd ix))) (if_opt (snd ix)).
Definition mark_struct (M : list mark) (s : isdef) : isdef :=
  mkISDef (is_name s) (is_oneof s) (is_dict s) (is_root s)
          (map (mark_field M (is_name s)) (indexed O (is_fields s)))
          (is_rec s || struct_marked M (is_name s)).
Definition mark_mmap (M : list mark) (m : imdef) : imdef :=
  mkIMDef (im_name m) (mark_type M (LKey (im_name m)) (im_key m)) (mark_type M (LVal (im_name m)) (im_val m))
          (im_rec m || map_marked M (im_name m)).

Lemma apply_marks_eq : forall sch M, apply_marks sch M =
  mkISchema (i_pkg sch) (map (mark_struct M) (i_structs sch)) (map (mark_mmap M) (i_mmaps sch)) (i_enums sch).
Proof. reflexivity. Qed.

Definition flagless_type (t : itype) : Prop := match t with IArray _ _ r => r = false | _ => True end.
Definition flagless_struct (s : isdef) : Prop :=
  is_rec s = false /\ forall f, In f (is_fields s) -> flagless_type (if_type f).
Definition flagless_mmap (m : imdef) : Prop :=
  im_rec m = false /\ flagless_type (im_key m) /\ flagless_type (im_val m).
Definition flagless (sch : ischema) : Prop :=
  (forall s, In s (i_structs sch) -> flagless_struct s) /\ (forall m, In m (i_mmaps sch) -> flagless_mmap m).

Lemma unmark_mark_type : forall M l t, flagless_type t -> unmark_type (mark_type M l t) = t.
Proof. intros M l [d|p d|n d|n d|n d|n d|e d r] H; try reflexivity. cbn [flagless_type] in H. subst r. reflexivity. Qed.

Lemma map_indexed_snd : forall A B (h : nat * A -> B) (k : A -> B) l i,
  (forall ix, In ix (indexed i l) -> h ix = k (snd ix)) -> map h (indexed i l) = map k l.
Proof.
  intros A B h k. induction l as [|x l IH]; intros i H; [reflexivity|].
  cbn [indexed map]. rewrite (H (i, x)) by (now left). cbn [snd]. f_equal. apply IH.
  intros ix Hix. apply H. now right.
Qed.

Lemma unmark_mark_struct : forall M s, flagless_struct s -> unmark_struct (mark_struct M s) = s.
Proof.
  intros M s [Hr Hf]. unfold unmark_struct, mark_struct. cbn [is_name is_oneof is_dict is_root is_fields].
  rewrite map_map. rewrite (map_indexed_snd _ _ _ (fun f => f)).
  - rewrite map_id. destruct s as [x1 x2 x3 x4 x5 x6]; cbn [is_rec is_name is_oneof is_dict is_root is_fields] in *; subst; reflexivity.
  - intros ix Hix. apply In_indexed in Hix. unfold unmark_field, mark_field. cbn [if_name if_type if_opt].
    rewrite unmark_mark_type by (apply Hf; exact Hix). destruct (snd ix); reflexivity.
Qed.

Lemma unmark_mark_mmap : forall M m, flagless_mmap m -> unmark_mmap (mark_mmap M m) = m.
Proof.
  intros M m (Hr & Hk & Hv). unfold unmark_mmap, mark_mmap. cbn [im_name im_key im_val].
  rewrite !unmark_mark_type by assumption. destruct m as [x1 x2 x3 x4]; cbn [im_rec im_name im_key im_val] in *; subst; reflexivity.
Qed.

Lemma map_id_in : forall A (g : A -> A) l, (forall x, In x l -> g x = x) -> map g l = l.
Proof. intros A g l H. rewrite <- (map_id l) at 2. apply map_ext_in. exact H. Qed.

Lemma unmark_apply_marks : forall sch M, flagless sch -> unmark (apply_marks sch M) = sch.
Proof.
  intros sch M [Hs Hm]. rewrite apply_marks_eq. unfold unmark. cbn [i_pkg i_structs i_mmaps i_enums].
  rewrite !map_map.
  rewrite (map_id_in _ _ (i_structs sch)) by (intros; apply unmark_mark_struct; auto).
  rewrite (map_id_in _ _ (i_mmaps sch)) by (intros; apply unmark_mark_mmap; auto).
  destruct sch; reflexivity.
Qed.

(* ---------- selection by name commutes with maps that keep names ---------- *)
Lemma find_struct_map : forall (g : isdef -> isdef) l n, (forall x, is_name (g x) = is_name x) ->
  find_struct (map g l) n = option_map g (find_struct l n).
Proof.
  intros g l n Hg. induction l as [|x l IH]; [reflexivity|].
  cbn [map find_struct]. rewrite Hg. destruct (str_eqb (is_name x) n); [reflexivity | exact IH].
Qed.
Lemma find_mmap_map : forall (g : imdef -> imdef) l n, (forall x, im_name (g x) = im_name x) ->
  find_mmap (map g l) n = option_map g (find_mmap l n).
Proof.
  intros g l n Hg. induction l as [|x l IH]; [reflexivity|].
  cbn [map find_mmap]. rewrite Hg. destruct (str_eqb (im_name x) n); [reflexivity | exact IH].
Qed.

Lemma sorted_structs_map : forall (g : isdef -> isdef) X X', (forall x, is_name (g x) = is_name x) ->
  i_structs X' = map g (i_structs X) -> sorted_structs X' = map g (sorted_structs X).
Proof.
  intros g X X' Hg E. unfold sorted_structs. rewrite E, map_map.
  rewrite (map_ext _ is_name Hg).
  induction (sort_str (map is_name (i_structs X))) as [|n ns IH]; [reflexivity|].
  cbn [flat_map]. rewrite map_app, IH, find_struct_map by exact Hg.
  destruct (find_struct (i_structs X) n); reflexivity.
Qed.
Lemma sorted_mmaps_map : forall (g : imdef -> imdef) X X', (forall x, im_name (g x) = im_name x) ->
  i_mmaps X' = map g (i_mmaps X) -> sorted_mmaps X' = map g (sorted_mmaps X).
Proof.
  intros g X X' Hg E. unfold sorted_mmaps. rewrite E, map_map.
  rewrite (map_ext _ im_name Hg).
  induction (sort_str (map im_name (i_mmaps X))) as [|n ns IH]; [reflexivity|].
  cbn [flat_map]. rewrite map_app, IH, find_mmap_map by exact Hg.
  destruct (find_mmap (i_mmaps X) n); reflexivity.
Qed.

Lemma filter_map_comm : forall A (g : A -> A) (p : A -> bool) l, (forall x, p (g x) = p x) ->
  filter p (map g l) = map g (filter p l).
Proof.
  intros A g p l H. induction l as [|x l IH]; [reflexivity|].
  cbn [map filter]. rewrite H. destruct (p x); cbn [map]; rewrite IH; reflexivity.
Qed.

Lemma canon_apply_marks : forall X M, canon (apply_marks X M) = apply_marks (canon X) M.
Proof.
  intros X M. rewrite !apply_marks_eq. unfold canon at 1. cbn [i_pkg].
  rewrite (sorted_structs_map (mark_struct M) X) by reflexivity.
  rewrite (sorted_mmaps_map (mark_mmap M) X) by reflexivity.
  reflexivity.
Qed.

Lemma pruned_apply_marks : forall X M r, pruned (apply_marks X M) r = apply_marks (pruned X r) M.
Proof.
  intros X M r. rewrite !apply_marks_eq. unfold pruned. cbn [i_pkg i_structs i_mmaps i_enums].
  rewrite !filter_map_comm by reflexivity. reflexivity.
Qed.

Lemma canon_in_structs : forall X s, In s (i_structs (canon X)) -> In s (i_structs X).
Proof. intros X s H. apply sorted_structs_in. exact H. Qed.
Lemma canon_in_mmaps : forall X m, In m (i_mmaps (canon X)) -> In m (i_mmaps X).
Proof. intros X s H. apply sorted_mmaps_in. exact H. Qed.

Lemma flagless_canon : forall X, flagless X -> flagless (canon X).
Proof. intros X [Hs Hm]. split; intros x Hx; [apply Hs, canon_in_structs | apply Hm, canon_in_mmaps]; exact Hx. Qed.

Lemma flagless_pruned : forall X r, flagless X -> flagless (pruned X r).
Proof.
  intros X r [Hs Hm]. split; intros x Hx; cbn [pruned i_structs i_mmaps] in Hx; apply filter_In in Hx;
    [apply Hs | apply Hm]; tauto.
Qed.

(* ---------- lookups in the print-order form and in the pruned schema ---------- *)
Lemma sorted_structs_in_conv : forall X s, NoDup (map is_name (i_structs X)) ->
  In s (i_structs X) -> In s (sorted_structs X).
Proof.
  intros X s Hnd Hin. unfold sorted_structs. apply in_flat_map. exists (is_name s). split.
  - apply In_sort_str. apply in_map. exact Hin.
  - rewrite (find_struct_nodup _ _ Hnd Hin). now left.
Qed.
Lemma sorted_mmaps_in_conv : forall X s, NoDup (map im_name (i_mmaps X)) ->
  In s (i_mmaps X) -> In s (sorted_mmaps X).
Proof.
  intros X s Hnd Hin. unfold sorted_mmaps. apply in_flat_map. exists (im_name s). split.
  - apply In_sort_str. apply in_map. exact Hin.
  - rewrite (find_mmap_nodup _ _ Hnd Hin). now left.
Qed.

Lemma find_enum_nodup : forall l s, NoDup (map ie_name l) -> In s l -> find_enum l (ie_name s) = Some s.
Proof.
  induction l as [|x l IH]; cbn [map find_enum In]; intros s Hnd Hin; [tauto|].
  inversion Hnd as [|? ? Hx Hl]; subst.
  destruct Hin as [->|Hin]; [rewrite str_eqb_refl; reflexivity|].
  destruct (str_eqb (ie_name x) (ie_name s)) eqn:E.
  - apply str_eqb_eq in E. exfalso. apply Hx. rewrite E. apply in_map. exact Hin.
  - apply IH; assumption.
Qed.
Lemma sorted_enums_in_conv : forall X s, NoDup (map ie_name (i_enums X)) ->
  In s (i_enums X) -> In s (sorted_enums X).
Proof.
  intros X s Hnd Hin. unfold sorted_enums. apply in_flat_map. exists (ie_name s). split.
  - apply In_sort_str. apply in_map. exact Hin.
  - rewrite (find_enum_nodup _ _ Hnd Hin). now left.
Qed.

Lemma find_struct_canon : forall X n, NoDup (map is_name (i_structs X)) ->
  find_struct (sorted_structs X) n = find_struct (i_structs X) n.
Proof.
  intros X n Hnd. destruct (find_struct (i_structs X) n) as [sd|] eqn:E.
  - destruct (find_struct_Some _ _ _ E) as [Hin <-].
    apply find_struct_nodup; [|apply sorted_structs_in_conv; assumption].
    rewrite sorted_structs_names. apply NoDup_sort_str. exact Hnd.
  - destruct (find_struct (sorted_structs X) n) as [sd'|] eqn:E'; [|reflexivity].
    destruct (find_struct_Some _ _ _ E') as [Hin <-]. apply sorted_structs_in in Hin.
    apply find_struct_none in E. exfalso. apply E. apply in_map. exact Hin.
Qed.
Lemma find_mmap_canon : forall X n, NoDup (map im_name (i_mmaps X)) ->
  find_mmap (sorted_mmaps X) n = find_mmap (i_mmaps X) n.
Proof.
  intros X n Hnd. destruct (find_mmap (i_mmaps X) n) as [sd|] eqn:E.
  - destruct (find_mmap_Some _ _ _ E) as [Hin <-].
    apply find_mmap_nodup; [|apply sorted_mmaps_in_conv; assumption].
    rewrite sorted_mmaps_names. apply NoDup_sort_str. exact Hnd.
  - destruct (find_mmap (sorted_mmaps X) n) as [sd'|] eqn:E'; [|reflexivity].
    destruct (find_mmap_Some _ _ _ E') as [Hin <-]. apply sorted_mmaps_in in Hin.
    apply find_mmap_none in E. exfalso. apply E. apply in_map. exact Hin.
Qed.

Lemma find_struct_filter_eq : forall keep l n, In n keep ->
  find_struct (filter (fun s => mem_str (is_name s) keep) l) n = find_struct l n.
Proof.
  intros keep l n Hk. destruct (find_struct l n) as [sd|] eqn:E; [apply find_struct_filter; assumption|].
  destruct (find_struct (filter _ l) n) as [sd'|] eqn:E'; [|reflexivity].
  destruct (find_struct_Some _ _ _ E') as [Hin <-]. apply filter_In in Hin. destruct Hin as [Hin _].
  apply find_struct_none in E. exfalso. apply E. apply in_map. exact Hin.
Qed.
Lemma find_mmap_filter_eq : forall keep l n, In n keep ->
  find_mmap (filter (fun s => mem_str (im_name s) keep) l) n = find_mmap l n.
Proof.
  intros keep l n Hk. destruct (find_mmap l n) as [sd|] eqn:E; [apply find_mmap_filter; assumption|].
  destruct (find_mmap (filter _ l) n) as [sd'|] eqn:E'; [|reflexivity].
  destruct (find_mmap_Some _ _ _ E') as [Hin <-]. apply filter_In in Hin. destruct Hin as [Hin _].
  apply find_mmap_none in E. exfalso. apply E. apply in_map. exact Hin.
Qed.

Lemma NoDup_names_filter : forall A (f : A -> str) p l, NoDup (map f l) -> NoDup (map f (filter p l)).
Proof. intros. apply NoDup_map_filter. assumption. Qed.

(* ---------- 2. recursion marks depend on the reachable definitions only ---------- *)
Lemma concat_pr_ext : forall A B (g g' : A -> pr (list B)) l, (forall x, In x l -> g x = g' x) ->
  concat_pr g l = concat_pr g' l.
Proof.
  intros A B g g' l H. induction l as [|x l IH]; [reflexivity|].
  cbn [concat_pr]. rewrite (H x) by (now left). rewrite IH by (intros; apply H; now right). reflexivity.
Qed.

Section Agree.
  Variables A B : ischema.
  Variable r : rset.
  Hypothesis HS : forall n, In n (rs_structs r) -> find_struct (i_structs B) n = find_struct (i_structs A) n.
  Hypothesis HM : forall n, In n (rs_mmaps r) -> find_mmap (i_mmaps B) n = find_mmap (i_mmaps A) n.
  Hypothesis HC : closed A r.

  Lemma crec_agree : forall f names fields t, names_in t r ->
    crec_type B f names fields t = crec_type A f names fields t.
  Proof.
    induction f as [|f IHf]; intros names fields t Ht; [reflexivity|].
    induction t as [d|p d|n d|n d|n d|n d|e IHe d rr];
      rewrite (crec_type_S B), (crec_type_S A); cbn [names_in] in Ht; try reflexivity.
    - destruct (mem_str n names); [reflexivity|]. rewrite (HS n Ht).
      destruct (find_struct (i_structs A) n) as [sd|] eqn:E; [|reflexivity].
      apply concat_pr_ext. intros ix Hix. apply IHf. apply (proj1 HC n sd Ht E). eapply In_indexed. exact Hix.
    - destruct (mem_str n names); [reflexivity|]. rewrite (HM n Ht).
      destruct (find_mmap (i_mmaps A) n) as [md|] eqn:E; [|reflexivity].
      destruct (proj2 HC n md Ht E) as [Hk Hv]. rewrite (IHf _ _ _ Hk), (IHf _ _ _ Hv). reflexivity.
    - apply IHe. exact Ht.
  Qed.
End Agree.

Lemma concat_pr_mono : forall A B (g g' : A -> pr (list B)) l m,
  (forall x mx, In x l -> g x = POk mx -> g' x = POk mx) -> concat_pr g l = POk m -> concat_pr g' l = POk m.
Proof.
  intros A B g g' l. induction l as [|x l IH]; intros m H Hm; [exact Hm|].
  cbn [concat_pr] in *. destruct (g x) as [mx| |] eqn:E; try discriminate.
  rewrite (H x mx (or_introl eq_refl) E).
  destruct (concat_pr g l) as [ml| |] eqn:El; try discriminate.
  rewrite (IH ml); [exact Hm | | reflexivity]. intros y my Hy Ey. apply (H y my); [now right | exact Ey].
Qed.

Lemma crec_fuel_S : forall sch f names fields t m,
  crec_type sch f names fields t = POk m -> crec_type sch (S f) names fields t = POk m.
Proof.
  intros sch. induction f as [|f IHf]; intros names fields t m H; [discriminate|].
  revert m H. induction t as [d|p d|n d|n d|n d|n d|e IHe d rr]; intros m H;
    rewrite crec_type_S in H; rewrite crec_type_S; try exact H.
  - destruct (mem_str n names); [exact H|].
    destruct (find_struct (i_structs sch) n) as [sd|]; [|exact H].
    eapply concat_pr_mono; [|exact H]. intros ix mx _ Hx. apply IHf. exact Hx.
  - destruct (mem_str n names); [exact H|].
    destruct (find_mmap (i_mmaps sch) n) as [md|]; [|exact H].
    destruct (crec_type sch f (names ++ [n]) (fields ++ [(LKey n, im_key md)]) (im_key md)) as [a| |] eqn:Ea;
      try discriminate.
    destruct (crec_type sch f (names ++ [n]) (fields ++ [(LVal n, im_val md)]) (im_val md)) as [b| |] eqn:Eb;
      try discriminate.
    rewrite (IHf _ _ _ _ Ea), (IHf _ _ _ _ Eb). exact H.
  - apply IHe. exact H.
Qed.

Lemma crec_fuel_le : forall sch f f' names fields t m, (f <= f')%nat ->
  crec_type sch f names fields t = POk m -> crec_type sch f' names fields t = POk m.
Proof.
  intros sch f f' names fields t m Hle H. induction Hle as [|f' Hle IH]; [exact H|].
  apply crec_fuel_S. exact IH.
Qed.

Lemma concat_pr_in : forall A B (g : A -> pr (list B)) l ms, concat_pr g l = POk ms ->
  forall m, In m ms <-> exists x mx, In x l /\ g x = POk mx /\ In m mx.
Proof.
  intros A B g. induction l as [|x l IH]; intros ms H m.
  - cbn [concat_pr] in H. inversion H; subst. split; [intros [] | intros (x & mx & [] & _)].
  - cbn [concat_pr] in H. destruct (g x) as [mx| |] eqn:E; try discriminate.
    destruct (concat_pr g l) as [ml| |] eqn:El; try discriminate. inversion H; subst.
    rewrite in_app_iff, (IH ml eq_refl m). split.
    + intros [Hm|(y & my & Hy & Ey & Hm)]; [exists x, mx; repeat split; auto; now left|].
      exists y, my. repeat split; auto. now right.
    + intros (y & my & [<-|Hy] & Ey & Hm); [left; rewrite E in Ey; inversion Ey; subst; exact Hm|].
      right. exists y, my. repeat split; auto.
Qed.

(* marks as sets *)
Lemma existsb_equiv : forall A (p : A -> bool) l l', (forall x, In x l <-> In x l') -> existsb p l = existsb p l'.
Proof.
  intros A p l l' H. apply eq_true_iff_eq. rewrite !existsb_exists.
  split; intros (x & Hx & Hp); exists x; (split; [apply H; exact Hx | exact Hp]).
Qed.

Lemma apply_marks_equiv : forall X M M', (forall m, In m M <-> In m M') -> apply_marks X M = apply_marks X M'.
Proof.
  intros X M M' H. rewrite !apply_marks_eq.
  assert (Ht : forall l t, mark_type M l t = mark_type M' l t).
  { intros l [d|p d|n d|n d|n d|n d|e d r]; try reflexivity. cbn [mark_type]. unfold arr_marked.
    rewrite (existsb_equiv _ _ M M' H). reflexivity. }
  f_equal.
  - apply map_ext. intros sd. unfold mark_struct, struct_marked. rewrite (existsb_equiv _ _ M M' H). f_equal.
    apply map_ext. intros ix. unfold mark_field. rewrite Ht. reflexivity.
  - apply map_ext. intros md. unfold mark_mmap, map_marked. rewrite (existsb_equiv _ _ M M' H), !Ht. reflexivity.
Qed.

(* ---------- has_* and rtype in the print-order form ---------- *)
Lemma has_struct_canon : forall X n, has_struct (canon X) n = has_struct X n.
Proof.
  intros X n. apply eq_true_iff_eq. rewrite !has_struct_in. cbn [canon i_structs].
  rewrite sorted_structs_names. apply In_sort_str.
Qed.
Lemma has_mmap_canon : forall X n, has_mmap (canon X) n = has_mmap X n.
Proof.
  intros X n. apply eq_true_iff_eq. rewrite !has_mmap_in. cbn [canon i_mmaps].
  rewrite sorted_mmaps_names. apply In_sort_str.
Qed.
Lemma has_enum_canon : forall X n, has_enum (canon X) n = has_enum X n.
Proof.
  intros X n. apply eq_true_iff_eq. rewrite !has_enum_in. cbn [canon i_enums].
  rewrite sorted_enums_names. apply In_sort_str.
Qed.

Lemma rtype_canon : forall X t, rtype X t -> rtype (canon X) t.
Proof.
  intros X. induction t; cbn [rtype]; auto; intros H.
  - rewrite has_struct_canon. exact H.
  - rewrite has_mmap_canon. exact H.
  - rewrite has_enum_canon. exact H.
Qed.

Lemma canon_resolved : forall X, sch_resolved X -> sch_resolved (canon X).
Proof.
  intros X [Hs Hm]. split.
  - intros sd Hsd f Hf. apply rtype_canon. eapply Hs; [apply canon_in_structs; exact Hsd | exact Hf].
  - intros md Hmd. destruct (Hm md (canon_in_mmaps _ _ Hmd)). split; apply rtype_canon; assumption.
Qed.

Lemma top_names_canon_nodup : forall X, NoDup (top_names X) -> NoDup (top_names (canon X)).
Proof.
  intros X H. unfold top_names in *. cbn [canon i_structs i_mmaps i_enums].
  rewrite sorted_structs_names, sorted_mmaps_names, sorted_enums_names.
  apply NoDup_app_iff in H. destruct H as (HS & H & HSx).
  apply NoDup_app_iff in H. destruct H as (HM & HE & HMx).
  apply NoDup_app_iff. split; [apply NoDup_sort_str; exact HS|]. split.
  - apply NoDup_app_iff. split; [apply NoDup_sort_str; exact HM|]. split; [apply NoDup_sort_str; exact HE|].
    intros x Hx Hy. rewrite In_sort_str in Hx. rewrite In_sort_str in Hy. apply (HMx x Hx Hy).
  - intros x Hx Hy. rewrite In_sort_str in Hx. apply (HSx x Hx).
    rewrite in_app_iff in *. rewrite !In_sort_str in Hy. exact Hy.
Qed.

(* ---------- roots are reachable; the reachable set is the least closed one ---------- *)
Lemma roots_mono : forall X l a r, fold_left (root_step X) l (Some a) = Some r -> mono a r.
Proof.
  intros X. induction l as [|s l IH]; intros a r H; cbn [fold_left root_step] in H.
  - inversion H. apply mono_refl.
  - destruct (is_root s); [|apply IH; exact H].
    destruct (reach_type X (reach_fuel X) (IStruct (is_name s) []) a) as [a1|] eqn:E.
    + eapply mono_trans; [eapply reach_mono; exact E | apply IH; exact H].
    + exfalso. clear -H. induction l; cbn [fold_left root_step] in H; [discriminate | auto].
Qed.

Lemma reach_struct_in : forall X f n d a a', reach_type X (S f) (IStruct n d) a = Some a' ->
  has_struct X n = true -> In n (rs_structs a').
Proof.
  intros X f n d a a' H Hh. rewrite reach_type_S in H. unfold reach_name in H.
  destruct (mem_str n (rs_structs a)) eqn:Em; [inversion H; subst; apply mem_str_In; exact Em|].
  unfold has_struct in Hh. destruct (find_struct (i_structs X) n) as [sd|]; [|discriminate].
  apply (fold_mono X f (reach_mono X f)) in H. destruct H as (H & _). apply H. now left.
Qed.

Lemma roots_in : forall X l a r, fold_left (root_step X) l (Some a) = Some r ->
  (forall s, In s l -> In s (i_structs X)) ->
  forall s, In s l -> is_root s = true -> In (is_name s) (rs_structs r).
Proof.
  intros X. induction l as [|s0 l IH]; intros a r H Hsub s Hin Hroot; [contradiction|].
  cbn [fold_left root_step] in H.
  destruct Hin as [->|Hin].
  - rewrite Hroot in H.
    destruct (reach_type X (reach_fuel X) (IStruct (is_name s) []) a) as [a1|] eqn:E.
    + apply roots_mono in H. destruct H as (H & _). apply H.
      unfold reach_fuel in E. eapply reach_struct_in; [exact E|].
      apply In_has_struct. apply Hsub. now left.
    + exfalso. clear -H. induction l; cbn [fold_left root_step] in H; [discriminate | auto].
  - destruct (is_root s0).
    + destruct (reach_type X (reach_fuel X) (IStruct (is_name s0) []) a) as [a1|] eqn:E.
      * eapply IH; eauto. intros; apply Hsub; now right.
      * exfalso. clear -H. induction l; cbn [fold_left root_step] in H; [discriminate | auto].
    + eapply IH; eauto. intros; apply Hsub; now right.
Qed.

Lemma reachable_roots : forall X r, reachable X = Some r ->
  forall s, In s (i_structs X) -> is_root s = true -> In (is_name s) (rs_structs r).
Proof. intros X r H s Hin Hr. rewrite reachable_eq in H. eapply roots_in; eauto. Qed.

Section Least.
  Variable X : ischema.
  Hypothesis Hres : sch_resolved X.
  Variables Ps Pm Pe : str -> Prop.
  Fixpoint pin (t : itype) : Prop :=
    match t with
    | IStruct n _ => Ps n
    | IMap n _ => Pm n
    | IEnum n _ => Pe n
    | IArray e _ _ => pin e
    | _ => True
    end.
  Definition psub (a : rset) : Prop :=
    (forall n, In n (rs_structs a) -> Ps n) /\ (forall n, In n (rs_mmaps a) -> Pm n) /\
    (forall n, In n (rs_enums a) -> Pe n).
  Hypothesis HPs : forall n sd, Ps n -> find_struct (i_structs X) n = Some sd ->
    forall fl, In fl (is_fields sd) -> pin (if_type fl).
  Hypothesis HPm : forall n md, Pm n -> find_mmap (i_mmaps X) n = Some md -> pin (im_key md) /\ pin (im_val md).

  Lemma fold_least : forall f,
    (forall t acc acc', reach_type X f t acc = Some acc' -> psub acc -> rtype X t -> pin t -> psub acc') ->
    forall l a a', fold_left (rstep X f) l (Some a) = Some a' -> psub a ->
      (forall fl, In fl l -> rtype X (if_type fl) /\ pin (if_type fl)) -> psub a'.
  Proof.
    intros f IH. induction l as [|fl l IHl]; intros a a' H Ha Hl.
    - cbn [fold_left] in H. inversion H; subst. exact Ha.
    - rewrite fold_rstep_cons in H.
      destruct (reach_type X f (if_type fl) a) as [a1|] eqn:E; [|rewrite fold_rstep_none in H; discriminate].
      destruct (Hl fl (or_introl eq_refl)) as [Hr Hp].
      eapply IHl; [exact H | eapply IH; eauto | intros; apply Hl; now right].
  Qed.

  Lemma reach_least : forall f t acc acc', reach_type X f t acc = Some acc' -> psub acc -> rtype X t -> pin t ->
    psub acc'.
  Proof.
    induction f as [|f IHf]; [discriminate|].
    induction t as [d|p d|n d|n d|n d|n d|e IHe d rr]; intros acc acc'; rewrite reach_type_S;
      cbn [rtype pin]; intros H Ha Hr Hp; try contradiction.
    - inversion H; subst. exact Ha.
    - unfold reach_name in H. destruct (mem_str n (rs_structs acc)); [inversion H; subst; exact Ha|].
      destruct (find_struct (i_structs X) n) as [sd|] eqn:Ef; [|inversion H; subst; exact Ha].
      destruct (find_struct_some _ _ _ Ef) as [Hin _].
      eapply (fold_least f IHf); [exact H | |].
      + destruct Ha as (A1 & A2 & A3). repeat split; cbn [add_s rs_structs rs_mmaps rs_enums]; auto.
        intros m [<-|Hm]; auto.
      + intros fl Hfl. split; [eapply (proj1 Hres); eauto | eapply HPs; eauto].
    - unfold reach_map in H. destruct (mem_str n (rs_mmaps acc)); [inversion H; subst; exact Ha|].
      destruct (find_mmap (i_mmaps X) n) as [md|] eqn:Ef; [|inversion H; subst; exact Ha].
      destruct (find_mmap_some _ _ _ Ef) as [Hin _]. destruct (proj2 Hres _ Hin) as [Hrk Hrv].
      destruct (HPm n md Hp Ef) as [Hpk Hpv].
      destruct (reach_type X f (im_key md) (add_m n acc)) as [a1|] eqn:E; [|discriminate].
      eapply IHf; [exact H | | exact Hrv | exact Hpv].
      eapply IHf; [exact E | | exact Hrk | exact Hpk].
      destruct Ha as (A1 & A2 & A3). repeat split; cbn [add_m rs_structs rs_mmaps rs_enums]; auto.
      intros m [<-|Hm]; auto.
    - inversion H; subst. destruct Ha as (A1 & A2 & A3).
      repeat split; cbn [add_e rs_structs rs_mmaps rs_enums]; auto. intros m [<-|Hm]; auto.
    - eapply IHe; eauto.
  Qed.

  Lemma roots_least : forall l a r, fold_left (root_step X) l (Some a) = Some r -> psub a ->
    (forall s, In s l -> In s (i_structs X) /\ (is_root s = true -> Ps (is_name s))) -> psub r.
  Proof.
    induction l as [|s l IH]; intros a r H Ha Hl; cbn [fold_left root_step] in H.
    - inversion H; subst. exact Ha.
    - destruct (Hl s (or_introl eq_refl)) as [Hin Hroot].
      destruct (is_root s); [|eapply IH; eauto; intros; apply Hl; now right].
      destruct (reach_type X (reach_fuel X) (IStruct (is_name s) []) a) as [a1|] eqn:E.
      + eapply IH; [exact H | | intros; apply Hl; now right].
        eapply reach_least; [exact E | exact Ha | cbn [rtype]; apply In_has_struct; exact Hin | cbn [pin]; auto].
      + exfalso. clear -H. induction l; cbn [fold_left root_step] in H; [discriminate | auto].
  Qed.

  Lemma reachable_least : forall r, reachable X = Some r ->
    (forall s, In s (i_structs X) -> is_root s = true -> Ps (is_name s)) -> psub r.
  Proof.
    intros r H Hroots. rewrite reachable_eq in H. eapply roots_least; [exact H | |].
    - repeat split; cbn [rs_structs rs_mmaps rs_enums]; intros ? [].
    - intros s Hs. split; [exact Hs | apply Hroots; exact Hs].
  Qed.
End Least.

(* ---------- 3. the main argument ---------- *)
Lemma names_in_mark : forall M l t r, names_in (mark_type M l t) r <-> names_in t r.
Proof. intros M l [d|p d|n d|n d|n d|n d|e d rr] r; cbn [mark_type names_in]; tauto. Qed.

Lemma indexed_in_conv : forall A (l : list A) x k, In x l -> exists i, In (i, x) (indexed k l).
Proof.
  induction l as [|y l IH]; intros x k H; [contradiction|]. cbn [indexed].
  destruct H as [->|H]; [exists k; now left|]. destruct (IH x (S k) H) as [i Hi]. exists i. now right.
Qed.

Lemma closed_unmarked : forall X M r, closed (apply_marks X M) r -> closed X r.
Proof.
  intros X M r [Cs Cm]. rewrite apply_marks_eq in Cs, Cm. cbn [i_structs i_mmaps] in Cs, Cm. split.
  - intros n sd Hn Hf fl Hfl.
    assert (Hf' : find_struct (map (mark_struct M) (i_structs X)) n = Some (mark_struct M sd)).
    { rewrite find_struct_map by reflexivity. rewrite Hf. reflexivity. }
    destruct (indexed_in_conv _ _ fl O Hfl) as [i Hi].
    specialize (Cs n _ Hn Hf' (mark_field M (is_name sd) (i, fl))).
    cbn [mark_field if_type snd fst] in Cs. apply names_in_mark in Cs; [exact Cs|].
    cbn [mark_struct is_fields]. apply in_map_iff. exists (i, fl). split; [reflexivity | exact Hi].
  - intros n md Hn Hf.
    assert (Hf' : find_mmap (map (mark_mmap M) (i_mmaps X)) n = Some (mark_mmap M md)).
    { rewrite find_mmap_map by reflexivity. rewrite Hf. reflexivity. }
    destruct (Cm n _ Hn Hf') as [Hk Hv]. cbn [mark_mmap im_key im_val] in Hk, Hv.
    apply names_in_mark in Hk. apply names_in_mark in Hv. split; assumption.
Qed.

Lemma length_sorted_structs : forall X, length (sorted_structs X) = length (i_structs X).
Proof. intros X. rewrite <- (map_length is_name), sorted_structs_names, length_sort_str, map_length. reflexivity. Qed.
Lemma length_sorted_mmaps : forall X, length (sorted_mmaps X) = length (i_mmaps X).
Proof. intros X. rewrite <- (map_length im_name), sorted_mmaps_names, length_sort_str, map_length. reflexivity. Qed.

Lemma filter_all : forall A (p : A -> bool) l, (forall x, In x l -> p x = true) -> filter p l = l.
Proof.
  intros A p l H. induction l as [|x l IH]; [reflexivity|]. cbn [filter].
  rewrite (H x) by (now left). f_equal. apply IH. intros; apply H; now right.
Qed.
Lemma filter_none : forall A (p : A -> bool) l, (forall x, In x l -> p x = true) -> filter (fun x => negb (p x)) l = [].
Proof.
  intros A p l H. induction l as [|x l IH]; [reflexivity|]. cbn [filter].
  rewrite (H x) by (now left). cbn [negb]. apply IH. intros; apply H; now right.
Qed.

Section Main.
  Variable sch1 : ischema.
  Hypothesis Hfl : flagless sch1.
  Hypothesis Hres : sch_resolved sch1.
  Hypothesis Hnd : NoDup (top_names sch1).
  Hypothesis Hwf : Forall struct_wf (i_structs sch1).
  Variable M1 : list mark.
  Hypothesis HM1 : compute_recursive sch1 = POk M1.
  Variable r : rset.
  Hypothesis Hr : reachable (apply_marks sch1 M1) = Some r.

  Let schM := apply_marks sch1 M1.
  Let s := pruned schM r.
  Let u := canon (pruned sch1 r).

  Lemma schM_facts : sch_resolved schM /\ NoDup (top_names schM).
  Proof. destruct (apply_marks_ok sch1 M1 Hres Hnd Hwf) as (H1 & H2 & _). split; assumption. Qed.

  Lemma nd_structs : NoDup (map is_name (i_structs sch1)).
  Proof. unfold top_names in Hnd. eapply NoDup_app_l; eauto. Qed.
  Lemma nd_mmaps : NoDup (map im_name (i_mmaps sch1)).
  Proof. unfold top_names in Hnd. apply NoDup_app_r in Hnd. eapply NoDup_app_l; eauto. Qed.
  Lemma nd_enums : NoDup (map ie_name (i_enums sch1)).
  Proof. unfold top_names in Hnd. apply NoDup_app_r in Hnd. eapply NoDup_app_r; eauto. Qed.

  Lemma closedM : closed schM r.
  Proof. apply reachable_closed; [apply schM_facts | exact Hr]. Qed.
  Lemma closed1 : closed sch1 r.
  Proof. eapply closed_unmarked. exact closedM. Qed.

  Lemma roots1 : forall sd, In sd (i_structs sch1) -> is_root sd = true -> In (is_name sd) (rs_structs r).
  Proof.
    intros sd Hin Hroot.
    apply (reachable_roots schM r Hr (mark_struct M1 sd)); [|exact Hroot].
    unfold schM. rewrite apply_marks_eq. cbn [i_structs]. apply in_map. exact Hin.
  Qed.

  Lemma canon_s : canon s = apply_marks u M1.
  Proof. unfold s, schM, u. rewrite pruned_apply_marks, canon_apply_marks. reflexivity. Qed.

  Lemma flagless_u : flagless u.
  Proof. apply flagless_canon, flagless_pruned, Hfl. Qed.

  Lemma unmark_canon_s : unmark (canon s) = u.
  Proof. rewrite canon_s. apply unmark_apply_marks, flagless_u. Qed.

  Lemma pruned1_resolved : sch_resolved (pruned sch1 r).
  Proof. apply pruned_resolved; [exact Hres | exact closed1 | exact nd_structs | exact nd_mmaps]. Qed.

  Lemma u_resolved : sch_resolved u.
  Proof. apply canon_resolved, pruned1_resolved. Qed.

  Lemma u_find_struct : forall n, In n (rs_structs r) -> find_struct (i_structs u) n = find_struct (i_structs sch1) n.
  Proof.
    intros n Hn. unfold u. cbn [canon i_structs]. rewrite find_struct_canon.
    - cbn [pruned i_structs]. apply find_struct_filter_eq. exact Hn.
    - cbn [pruned i_structs]. apply NoDup_names_filter. exact nd_structs.
  Qed.
  Lemma u_find_mmap : forall n, In n (rs_mmaps r) -> find_mmap (i_mmaps u) n = find_mmap (i_mmaps sch1) n.
  Proof.
    intros n Hn. unfold u. cbn [canon i_mmaps]. rewrite find_mmap_canon.
    - cbn [pruned i_mmaps]. apply find_mmap_filter_eq. exact Hn.
    - cbn [pruned i_mmaps]. apply NoDup_names_filter. exact nd_mmaps.
  Qed.

  Lemma u_structs_sub : forall sd, In sd (i_structs u) -> In sd (i_structs sch1) /\ In (is_name sd) (rs_structs r).
  Proof.
    intros sd H. unfold u in H. apply canon_in_structs in H. cbn [pruned i_structs] in H.
    apply filter_In in H. destruct H as [H1 H2]. split; [exact H1 | apply mem_str_In; exact H2].
  Qed.

  Lemma u_structs_sup : forall sd, In sd (i_structs sch1) -> In (is_name sd) (rs_structs r) -> In sd (i_structs u).
  Proof.
    intros sd H1 H2. unfold u. cbn [canon i_structs]. apply sorted_structs_in_conv.
    - cbn [pruned i_structs]. apply NoDup_names_filter. exact nd_structs.
    - cbn [pruned i_structs]. apply filter_In. split; [exact H1 | apply mem_str_In; exact H2].
  Qed.

  Lemma length_filter_le : forall A (p : A -> bool) l, (length (filter p l) <= length l)%nat.
  Proof. intros A p l. induction l as [|x l IH]; [cbn [filter length]; lia|]. cbn [filter]. destruct (p x); cbn [length]; lia. Qed.

  Lemma fuel_le : (rec_fuel u <= rec_fuel sch1)%nat.
  Proof.
    unfold rec_fuel, u. cbn [canon i_structs i_mmaps]. rewrite length_sorted_structs, length_sorted_mmaps.
    cbn [pruned i_structs i_mmaps].
    pose proof (length_filter_le _ (fun s0 => mem_str (is_name s0) (rs_structs r)) (i_structs sch1)).
    pose proof (length_filter_le _ (fun s0 => mem_str (im_name s0) (rs_mmaps r)) (i_mmaps sch1)). lia.
  Qed.

  (* the marks of one root, computed in u and in sch1 *)
  Lemma root_marks : forall n ms, In n (rs_structs r) ->
    crec_type u (rec_fuel u) [] [] (IStruct n []) = POk ms ->
    crec_type sch1 (rec_fuel sch1) [] [] (IStruct n []) = POk ms.
  Proof.
    intros n ms Hn H. eapply crec_fuel_le; [exact fuel_le|].
    rewrite <- (crec_agree sch1 u r u_find_struct u_find_mmap closed1); [exact H | exact Hn].
  Qed.

  Lemma marks_equiv : exists M2, compute_recursive u = POk M2 /\ forall m, In m M2 <-> In m M1.
  Proof.
    destruct (compute_recursive_ok u u_resolved) as [M2 HM2]. exists M2. split; [exact HM2|].
    intros m. unfold compute_recursive in HM1, HM2.
    rewrite (concat_pr_in _ _ _ _ _ HM2 m), (concat_pr_in _ _ _ _ _ HM1 m). split.
    - intros (sd & ms & Hin & E & Hm). destruct (u_structs_sub sd Hin) as [Hin1 Hnr].
      exists sd, ms. split; [exact Hin1|]. split; [|exact Hm].
      destruct (is_root sd); [|exact E]. apply root_marks; assumption.
    - intros (sd & ms & Hin & E & Hm). destruct (is_root sd) eqn:Eroot.
      + pose proof (roots1 sd Hin Eroot) as Hnr. pose proof (u_structs_sup sd Hin Hnr) as Hinu.
        destruct (crec_type_ok u u_resolved (rec_fuel u) [] [] (IStruct (is_name sd) [])) as [ms' E'].
        * cbn [rtype]. apply In_has_struct. exact Hinu.
        * constructor.
        * intros x [].
        * unfold rec_fuel. cbn [length]. lia.
        * intros _. constructor.
        * pose proof (root_marks _ _ Hnr E') as E''. rewrite E in E''. inversion E''; subst ms'.
          exists sd, ms. rewrite Eroot. repeat split; assumption.
      + inversion E; subst. destruct Hm.
  Qed.

  (* ---------- pruning keeps everything ---------- *)
  Lemma s_resolved : sch_resolved s.
  Proof.
    destruct schM_facts as [H1 H2]. unfold s. apply pruned_resolved; [exact H1 | exact closedM | |].
    - unfold top_names in H2. eapply NoDup_app_l; eauto.
    - unfold top_names in H2. apply NoDup_app_r in H2. eapply NoDup_app_l; eauto.
  Qed.

  Lemma ndM_structs : NoDup (map is_name (i_structs schM)).
  Proof. destruct schM_facts as [_ H2]. unfold top_names in H2. eapply NoDup_app_l; eauto. Qed.
  Lemma ndM_mmaps : NoDup (map im_name (i_mmaps schM)).
  Proof. destruct schM_facts as [_ H2]. unfold top_names in H2. apply NoDup_app_r in H2. eapply NoDup_app_l; eauto. Qed.

  Lemma cs_find_struct : forall n, In n (rs_structs r) ->
    find_struct (i_structs (canon s)) n = find_struct (i_structs schM) n.
  Proof.
    intros n Hn. cbn [canon i_structs]. rewrite find_struct_canon.
    - unfold s. cbn [pruned i_structs]. apply find_struct_filter_eq. exact Hn.
    - unfold s. cbn [pruned i_structs]. apply NoDup_names_filter. exact ndM_structs.
  Qed.
  Lemma cs_find_mmap : forall n, In n (rs_mmaps r) ->
    find_mmap (i_mmaps (canon s)) n = find_mmap (i_mmaps schM) n.
  Proof.
    intros n Hn. cbn [canon i_mmaps]. rewrite find_mmap_canon.
    - unfold s. cbn [pruned i_mmaps]. apply find_mmap_filter_eq. exact Hn.
    - unfold s. cbn [pruned i_mmaps]. apply NoDup_names_filter. exact ndM_mmaps.
  Qed.

  Lemma pin_both : forall r2 t,
    pin (fun n => In n (rs_structs r2) /\ In n (rs_structs r)) (fun n => In n (rs_mmaps r2) /\ In n (rs_mmaps r))
        (fun n => In n (rs_enums r2) /\ In n (rs_enums r)) t <-> names_in t r2 /\ names_in t r.
  Proof. intros r2. induction t; cbn [pin names_in]; tauto. Qed.

  Lemma prune_fixed : prune_unused (canon s) = Some (canon s, []).
  Proof.
    pose proof (canon_resolved s s_resolved) as Hcres.
    destruct (reachable_some (canon s) Hcres) as [r2 Hr2].
    pose proof (reachable_closed (canon s) Hcres r2 Hr2) as [C2s C2m].
    destruct closedM as [CMs CMm]. destruct schM_facts as [HresM _].
    (* r is below r2 *)
    assert (Hsub : psub (fun n => In n (rs_structs r2) /\ In n (rs_structs r))
                        (fun n => In n (rs_mmaps r2) /\ In n (rs_mmaps r))
                        (fun n => In n (rs_enums r2) /\ In n (rs_enums r)) r).
    { apply (reachable_least schM HresM) with (r := r); [| | exact Hr |].
      - intros n sd [Hn2 Hn] Hf fl Hfl0. apply pin_both. split.
        + rewrite <- (cs_find_struct n Hn) in Hf. exact (C2s n sd Hn2 Hf fl Hfl0).
        + exact (CMs n sd Hn Hf fl Hfl0).
      - intros n md [Hn2 Hn] Hf.
        pose proof Hf as Hf2. rewrite <- (cs_find_mmap n Hn) in Hf2.
        destruct (C2m n md Hn2 Hf2) as [K2 V2]. destruct (CMm n md Hn Hf) as [K1 V1].
        split; apply pin_both; split; assumption.
      - intros sd Hin Hroot. pose proof (reachable_roots schM r Hr sd Hin Hroot) as Hnr. split; [|exact Hnr].
        apply (reachable_roots (canon s) r2 Hr2 sd); [|exact Hroot].
        cbn [canon i_structs]. apply sorted_structs_in_conv.
        + unfold s. cbn [pruned i_structs]. apply NoDup_names_filter. exact ndM_structs.
        + unfold s. cbn [pruned i_structs]. apply filter_In. split; [exact Hin | apply mem_str_In; exact Hnr]. }
    destruct Hsub as (S1 & S2 & S3).
    assert (Ks : forall sd, In sd (i_structs (canon s)) -> mem_str (is_name sd) (rs_structs r2) = true).
    { intros sd Hin. apply canon_in_structs in Hin. unfold s in Hin. cbn [pruned i_structs] in Hin.
      apply filter_In in Hin. destruct Hin as [_ Hin]. apply mem_str_In in Hin. apply mem_str_In. apply S1. exact Hin. }
    assert (Km : forall md, In md (i_mmaps (canon s)) -> mem_str (im_name md) (rs_mmaps r2) = true).
    { intros md Hin. apply canon_in_mmaps in Hin. unfold s in Hin. cbn [pruned i_mmaps] in Hin.
      apply filter_In in Hin. destruct Hin as [_ Hin]. apply mem_str_In in Hin. apply mem_str_In. apply S2. exact Hin. }
    assert (Ke : forall ed, In ed (i_enums (canon s)) -> mem_str (ie_name ed) (rs_enums r2) = true).
    { intros ed Hin. cbn [canon i_enums] in Hin. apply sorted_enums_in in Hin. unfold s in Hin.
      cbn [pruned i_enums] in Hin.
      apply filter_In in Hin. destruct Hin as [_ Hin]. apply mem_str_In in Hin. apply mem_str_In. apply S3. exact Hin. }
    unfold prune_unused. rewrite Hr2.
    rewrite (filter_all _ _ _ Ks), (filter_all _ _ _ Km), (filter_all _ _ _ Ke).
    rewrite (filter_none _ _ _ Ks), (filter_none _ _ _ Km), (filter_none _ _ _ Ke).
    reflexivity.
  Qed.

  Theorem stable_canon_pruned : stable (canon s).
  Proof.
    unfold stable, remark. rewrite unmark_canon_s.
    destruct marks_equiv as (M2 & HM2 & Heq). rewrite HM2.
    rewrite (apply_marks_equiv u M2 M1 Heq), <- canon_s, prune_fixed. reflexivity.
  Qed.
End Main.

Print Assumptions stable_canon_pruned.
