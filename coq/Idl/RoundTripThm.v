(* C13: schemas survive printing and parsing.  Composition of
     RoundTripLex.lex_print            (b)  text -> tokens
     RoundTripParse.parse_schema_tokens (a)  tokens -> unresolved schema in print order
     RoundTripResolve.resolve_ast_schema (c, first half)  references resolved, flags cleared
   with the hypothesis that the schema in print order is a fixed point of recursion marking and
   pruning (`stable`). *)
From Coq Require Import List NArith ZArith Bool Lia ZifyN ZifyNat ZifyBool Arith.
From Stef.Idl Require Import Unicode Lexer Ast Parser Resolve Printer SchemaSpec ParserFacts ResolveFacts RecFacts
  RoundTripBase RoundTripLex RoundTripParse RoundTripResolve.
Import ListNotations.
Open Scope N_scope.

(* ---------- printable schemas are lexable ---------- *)
Lemma dict_ok_lex : forall d, dict_ok d = true -> dict_lex d = true.
Proof. intros [|c d] H; [reflexivity|]. apply ident_ok_word. exact H. Qed.

Lemma base_ok_lex : forall e, base_ok e = true -> type_lex e = true /\ dict_lex (it_dict e) = true.
Proof.
  intros [d|p d|n d|n d|n d|n d|e d r] H; try discriminate; cbn [base_ok type_lex it_dict] in *.
  - split; [reflexivity|]. destruct d as [|c d]; [reflexivity|]. cbn [is_nil orb] in H.
    apply andb_true_iff in H. destruct H as [H _]. apply ident_ok_word. exact H.
  - apply andb_true_iff in H. destruct H as [H1 H2]. split; [apply ident_ok_word | apply dict_ok_lex]; assumption.
  - apply andb_true_iff in H. destruct H as [H1 H2]. split; [apply ident_ok_word | apply dict_ok_lex]; assumption.
  - apply andb_true_iff in H. destruct H as [H1 H2]. split; [apply ident_ok_word | apply dict_ok_lex]; assumption.
  - apply andb_true_iff in H. destruct H as [H1 H2]. split; [apply ident_ok_word | apply dict_ok_lex]; assumption.
Qed.

Lemma ftype_ok_lex : forall b t, ftype_ok b t = true -> ftype_lex t = true.
Proof.
  intros b t H. unfold ftype_lex.
  destruct t as [d|p d|n d|n d|n d|n d|e d r];
    try (cbn [ftype_ok] in H; destruct (base_ok_lex _ H) as [H1 H2]; rewrite H1, H2; reflexivity).
  cbn [ftype_ok] in H. apply andb_true_iff in H. destruct H as [He Hd].
  destruct (base_ok_lex _ He) as [H1 H2]. cbn [type_lex it_dict]. rewrite H1, H2. cbn [andb].
  destruct d as [|c d]; [reflexivity|]. cbn [is_nil orb] in Hd. rewrite !andb_true_iff in Hd.
  destruct Hd as [[_ Hd] _]. apply ident_ok_word. exact Hd.
Qed.

Lemma forallb_impl : forall A (p q : A -> bool) l, (forall x, p x = true -> q x = true) ->
  forallb p l = true -> forallb q l = true.
Proof. intros A p q l H Hl. rewrite forallb_forall in *. auto. Qed.

Theorem printable_lexable : forall s, printable s = true -> lexable s = true.
Proof.
  intros s Hp. unfold printable in Hp. rewrite !andb_true_iff in Hp.
  destruct Hp as [[[[[[_ Hpkg] Hss] Hms] Hes] _] _].
  unfold lexable. rewrite !andb_true_iff. repeat split.
  - eapply forallb_impl; [|exact Hpkg]. apply ident_ok_word.
  - eapply forallb_impl; [|exact Hss]. intros sd H. unfold struct_pr in H. rewrite !andb_true_iff in H.
    destruct H as [[[[Hn Hmod] _] _] Hfs]. unfold struct_lex. rewrite !andb_true_iff. repeat split.
    + apply ident_ok_word. exact Hn.
    + destruct (is_oneof sd).
      * apply andb_true_iff in Hmod. destruct Hmod as [Hd _]. destruct (is_dict sd); [reflexivity | discriminate].
      * destruct (is_dict sd) as [|c d]; [reflexivity|]. cbn [is_nil orb] in Hmod.
        apply andb_true_iff in Hmod. destruct Hmod as [Hd _]. apply ident_ok_word. exact Hd.
    + eapply forallb_impl; [|exact Hfs]. intros f Hf. unfold field_ok in Hf. apply andb_true_iff in Hf.
      destruct Hf as [H1 H2]. unfold field_lex. rewrite (ident_ok_word _ H1), (ftype_ok_lex _ _ H2). reflexivity.
  - eapply forallb_impl; [|exact Hms]. intros m H. unfold mmap_pr in H. rewrite !andb_true_iff in H.
    destruct H as [[Hn Hk] Hv]. unfold mmap_lex.
    rewrite (ident_ok_word _ Hn), (ftype_ok_lex _ _ Hk), (ftype_ok_lex _ _ Hv). reflexivity.
  - eapply forallb_impl; [|exact Hes]. intros e H. unfold enum_pr in H. rewrite !andb_true_iff in H.
    destruct H as [Hn Hfs]. unfold enum_lex. rewrite (ident_ok_word _ Hn). cbn [andb].
    eapply forallb_impl; [|exact Hfs]. intros f Hf. unfold efield_ok in Hf. apply andb_true_iff in Hf.
    destruct Hf as [H1 H2]. unfold efield_lex. rewrite (ident_ok_word _ H1), H2. reflexivity.
Qed.

(* (a)+(b): the parser proper on the printed text *)
Theorem print_parse_tokens : forall s, printable s = true ->
  exists ts', parse_tokens true (tokenize (utf8_encode (print s))) = Ok (ts', ast_schema s)
              /\ map erase ts' = [a_eof].
Proof.
  intros s Hp. apply parse_schema_tokens; [exact Hp|].
  apply lex_print. apply printable_lexable. exact Hp.
Qed.

(* ---------- fixed points of recursion marking and pruning ---------- *)
(* the tail of idl.Parse after name resolution, run on c with its recursion flags cleared *)
Definition remark (c : ischema) : outcome :=
  match compute_recursive (unmark c) with
  | PPanic s => OPanic s
  | PFuel => OFuel
  | POk marks =>
    match prune_unused (apply_marks (unmark c) marks) with
    | None => OFuel
    | Some (c2, w) => OOk c2 w
    end
  end.

(* c carries exactly the recursion flags computeRecursive gives it, and nothing of c is unused *)
Definition stable (c : ischema) : Prop := remark c = OOk c [].

(* What is proved: the round trip for every schema that is printable (a boolean syntactic
   condition: names are identifiers and not keywords, at most one struct modifier, roots not empty,
   field and top-level names unique, dictionaries only where the grammar has them, enum values below
   2^64, at least one definition), whose references are resolved, and whose print-order form is
   `stable`.  It is `partial` with respect to the property because of these hypotheses; they are
   discharged for every schema idl.Parse returns in RoundTripInv.parse_output_facts (lexer and parser
   invariants; RoundTripStable: idempotence of recursion marking and pruning on their own image,
   independence of definition order), which gives RoundTripInv.print_parse_roundtrip.  For
   hand-built schemas the hypotheses are necessary: RoundTripExamples.*_refuted. *)
Theorem print_parse_roundtrip_partial : forall s,
  printable s = true -> resolved_b s = true -> stable (canon s) ->
  parse (utf8_encode (print s)) = OOk (canon s) [].
Proof.
  intros s Hp Hr Hst. unfold parse, parse_gen.
  destruct (print_parse_tokens s Hp) as (ts' & E & _). rewrite E.
  unfold finish. rewrite (resolve_ast_schema s Hp Hr).
  unfold stable, remark in Hst.
  destruct (compute_recursive (unmark (canon s))) as [marks|ps|]; try discriminate Hst.
  destruct (prune_unused (apply_marks (unmark (canon s)) marks)) as [[c2 w]|]; try discriminate Hst.
  exact Hst.
Qed.

Print Assumptions print_parse_roundtrip_partial.
