(* Predicates used to state facts about resolved IDL schemas (no proofs, no model code). *)
From Coq Require Import List NArith Bool.
From Stef.Idl Require Import Lexer Ast.
Import ListNotations.
Open Scope N_scope.

(* a type whose every reference names a definition of the right category in sch *)
Fixpoint rtype (sch : ischema) (t : itype) : Prop :=
  match t with
  | IPrim _ _ => True
  | IStruct n _ => has_struct sch n = true
  | IMap n _ => has_mmap sch n = true
  | IEnum n _ => has_enum sch n = true
  | IArray e _ _ => rtype sch e
  | INone _ | IRef _ _ => False
  end.

Definition sch_resolved (sch : ischema) : Prop :=
  (forall sd, In sd (i_structs sch) -> forall f, In f (is_fields sd) -> rtype sch (if_type f)) /\
  (forall md, In md (i_mmaps sch) -> rtype sch (im_key md) /\ rtype sch (im_val md)).

(* all top-level names of a schema, in the order structs, multimaps, enums *)
Definition top_names (sch : ischema) : list str :=
  map is_name (i_structs sch) ++ map im_name (i_mmaps sch) ++ map ie_name (i_enums sch).

(* per-struct facts the parser establishes and later passes keep *)
Definition struct_wf (sd : isdef) : Prop :=
  NoDup (map if_name (is_fields sd)) /\ (is_root sd = true -> is_fields sd <> []).
