(* Predicates used to state facts about token lists and positions (no proofs, no model code). *)
From Coq Require Import List NArith Bool.
From Stef.Idl Require Import Lexer.
Import ListNotations.
Open Scope N_scope.

(* ts' is a suffix of ts *)
Definition sfx {A} (ts' ts : list A) : Prop := exists pre, ts = pre ++ ts'.

(* a token list as the lexer delivers it: exactly one EOF token, at the end *)
Definition wfts (ts : list token) : Prop :=
  exists pre e, ts = pre ++ [e] /\ is_eof e = true /\ Forall (fun t => is_eof t = false) pre.

(* a position inside an input of n bytes: line and column are at least 1, the byte offset does not
   exceed the input, and neither line nor column can run ahead of the bytes consumed *)
Definition pos_ok (n : N) (p : pos) : Prop :=
  1 <= p_line p /\ 1 <= p_col p /\ p_ofs p <= n /\ p_line p <= 1 + p_ofs p /\ p_col p <= 1 + p_ofs p.
