(* C13, order half: the list NewWireSchema produces (depth-first, first encounter of each struct;
   WireSchema.new_wire_schema) is the list in which the generated Init consumes field counts
   (Reader.own_counts over Schema.build_root), for every well-formed schema.

   Plan: bw = what Schema.build does to the memo (the encoder tree forgotten); aw = what
   sct_type does to the visited set (the count tree forgotten).  build re-enters structs that are
   memoized but not on its stack; `stable` shows such a re-walk adds nothing, because every
   memoized struct that is not on the stack has all its fields `covered`. *)
From Coq Require Import List NArith Bool Lia ZifyN ZifyNat ZifyBool PArith Arith PeanoNat.
From Stef Require Import Varint Codecs Frame Reader.
From Stef.Schema Require Import Schema.
From Stef.Idl Require Import WireSchema.
Import ListNotations.
Open Scope N_scope.

Lemma reckey_eqb_eq : forall a b, reckey_eqb a b = true <-> a = b.
Proof.
  induction a as [x|x|k IH|]; destruct b as [y|y|k'|]; cbn [reckey_eqb]; split; intros H;
    try discriminate; try reflexivity.
  - apply N.eqb_eq in H; now subst.
  - inversion H; apply N.eqb_refl.
  - apply N.eqb_eq in H; now subst.
  - inversion H; apply N.eqb_refl.
  - apply IH in H; now subst.
  - inversion H; subst; now apply IH.
Qed.

Lemma reckey_eqb_refl : forall a, reckey_eqb a a = true.
Proof. intros; now apply reckey_eqb_eq. Qed.

Lemma on_stack_in : forall st k, k <> KNone -> (on_stack st k = true <-> In k st).
Proof.
  intros st k Hk. unfold on_stack. destruct k; try congruence;
    (rewrite existsb_exists; split;
     [intros [x [Hin He]]; apply reckey_eqb_eq in He; now subst
     |intros Hin; eexists; split; [exact Hin|apply reckey_eqb_refl]]).
Qed.

Lemma memN_in : forall x l, memN x l = true <-> In x l.
Proof.
  induction l as [|y l IH]; cbn [memN In]; [split; [discriminate|tauto]|].
  rewrite orb_true_iff, N.eqb_eq, IH. tauto.
Qed.

Section Order.
  Variable sc : schema.

  Definition cnt (s : N) : N := N.of_nat (length (s_fields (get_struct sc s))).
  Definition enc (V : list N) : list (N * N) := map (fun s => (s, cnt s)) V.

  (* the memo part of Schema.build when no override schema is given *)
  Fixpoint bw (fuel : nat) (stack : list reckey) (t : ftype) (V : list N) : list N :=
    match fuel with
    | O => V
    | S f =>
      if on_stack stack (key_of t) then V
      else match t with
           | TPrim _ _ => V
           | TArray e => bw f (key_of t :: stack) e V
           | TMultimap m =>
             let md := get_mmap sc m in
             bw f (KMap m :: stack) (m_val md) (bw f (KMap m :: stack) (m_key md) V)
           | TStruct s =>
             fold_left (fun V fl => bw f (KStruct s :: stack) (f_type fl) V)
                       (s_fields (get_struct sc s)) (if memN s V then V else s :: V)
           end
    end.

  Lemma memo_find_enc : forall V s, memo_find (enc V) s = if memN s V then Some (cnt s) else None.
  Proof.
    induction V as [|x V IH]; intros s; cbn [enc map memo_find memN]; [reflexivity|].
    destruct (N.eqb_spec x s); cbn [orb]; [now subst|]. apply IH.
  Qed.

  Lemma build_fold_memo : forall f stack',
    (forall stack t st V, i_over st = None -> i_memo st = enc V ->
       i_over (snd (build sc f stack t st)) = None /\
       i_memo (snd (build sc f stack t st)) = enc (bw f stack t V)) ->
    forall flds acc st V, i_over st = None -> i_memo st = enc V ->
    let r := fold_left (fun (acc : list etree * istate) (fl : field) =>
                          let '(l, st) := acc in
                          let '(ft, st) := build sc f stack' (f_type fl) st in (l ++ [ft], st))
                       flds (acc, st) in
    i_over (snd r) = None /\
    i_memo (snd r) = enc (fold_left (fun V fl => bw f stack' (f_type fl) V) flds V).
  Proof.
    intros f stack' IH. induction flds as [|fl flds IHf]; intros acc st V Ho Hm; cbn [fold_left].
    - cbn [snd]. auto.
    - destruct (build sc f stack' (f_type fl) st) as [ft st1] eqn:E.
      destruct (IH stack' (f_type fl) st V Ho Hm) as [Ho1 Hm1]. rewrite E in Ho1, Hm1. cbn [snd] in Ho1, Hm1.
      apply IHf; assumption.
  Qed.

  Lemma build_memo : forall f stack t st V, i_over st = None -> i_memo st = enc V ->
    i_over (snd (build sc f stack t st)) = None /\
    i_memo (snd (build sc f stack t st)) = enc (bw f stack t V).
  Proof.
    induction f as [|f IH]; intros stack t st V Ho Hm; cbn [build bw].
    - cbn [snd set_err i_over i_memo]. auto.
    - destruct (on_stack stack (key_of t)); [cbn [snd]; auto|].
      unfold fresh_col.
      set (st0 := mkIst (Pos.succ (i_next st)) (i_over st) (i_memo st) (i_err st)).
      assert (Ho0 : i_over st0 = None) by exact Ho.
      assert (Hm0 : i_memo st0 = enc V) by exact Hm.
      clearbody st0. cbv beta iota.
      destruct t as [p d|e|s|m].
      + cbn [snd]. auto.
      + destruct (build sc f (key_of (TArray e) :: stack) e st0) as [et st1] eqn:E.
        destruct (IH (key_of (TArray e) :: stack) e st0 V Ho0 Hm0) as [A B]. rewrite E in A, B. cbn [snd] in *. auto.
      + (* struct *)
        unfold field_count. rewrite Hm0, memo_find_enc.
        set (own := N.of_nat (length (s_fields (get_struct sc s)))).
        assert (Hfc : exists st1, i_over st1 = None /\ i_memo st1 = enc (if memN s V then V else s :: V) /\
                  match (if memN s V then Some (cnt s) else None) with
                  | Some c => (c, st0)
                  | None =>
                    match i_over st0 with
                    | None => (own, mkIst (i_next st0) None ((s, own) :: enc V) (i_err st0))
                    | Some [] => (0, mkIst (i_next st0) (Some []) ((s, 0) :: enc V) true)
                    | Some (c :: r) => (c, mkIst (i_next st0) (Some r) ((s, c) :: enc V) (i_err st0))
                    end
                  end = (own, st1)).
        { destruct (memN s V).
          - exists st0. auto.
          - rewrite Ho0. eexists. split; [|split; [|reflexivity]]; reflexivity. }
        destruct Hfc as [st1 [Ho1 [Hm1 Efc]]]. rewrite Efc. cbv beta iota.
        rewrite N.ltb_irrefl.
        assert (Hfirst : firstn (N.to_nat own) (s_fields (get_struct sc s)) = s_fields (get_struct sc s)).
        { unfold own. rewrite Nnat.Nat2N.id. apply firstn_all. }
        rewrite Hfirst.
        pose proof (build_fold_memo f (KStruct s :: stack) IH (s_fields (get_struct sc s)) [] st1 _ Ho1 Hm1) as HF.
        cbv zeta in HF.
        destruct (fold_left _ (s_fields (get_struct sc s)) ([], st1)) as [fts st2] eqn:EF.
        cbn [snd] in *. exact HF.
      + (* multimap *)
        destruct (build sc f (KMap m :: stack) (m_key (get_mmap sc m)) st0) as [kt st1] eqn:E1.
        destruct (IH (KMap m :: stack) (m_key (get_mmap sc m)) st0 V Ho0 Hm0) as [A1 B1]. rewrite E1 in A1, B1. cbn [snd] in A1, B1.
        destruct (build sc f (KMap m :: stack) (m_val (get_mmap sc m)) st1) as [vt st2] eqn:E2.
        destruct (IH (KMap m :: stack) (m_val (get_mmap sc m)) st1 _ A1 B1) as [A2 B2]. rewrite E2 in A2, B2. cbn [snd] in *. auto.
  Qed.

  (* own_counts in terms of bw *)
  Lemma own_counts_bw : forall root,
    own_counts sc root =
    map cnt (rev (bw (S (S (length (structs sc) + length (multimaps sc))) * 3) [] (TStruct root) [])).
  Proof.
    intros root. unfold own_counts, build_root.
    destruct (build_memo (S (S (length (structs sc) + length (multimaps sc))) * 3) [] (TStruct root)
                         (mkIst 1%positive None [] false) [] eq_refl eq_refl) as [_ Hm].
    rewrite Hm. unfold enc. rewrite map_map. cbn [snd]. now rewrite map_rev.
  Qed.

  (* ---------- the visited-set part of schemaToStructCountTree ---------- *)
  Fixpoint aw (fuel : nat) (t : ftype) (V pm : list N) : option (list N) :=
    match fuel with
    | O => None
    | S f =>
      (fix go (t : ftype) (V : list N) : option (list N) :=
         match t with
         | TPrim _ _ => Some V
         | TStruct s =>
           if memN s V then Some V
           else fold_left (fun (acc : option (list N)) (fl : field) =>
                             match acc with None => None | Some V => aw f (f_type fl) V pm end)
                          (s_fields (get_struct sc s)) (Some (s :: V))
         | TArray e => go e V
         | TMultimap m =>
           if memN m pm then Some V
           else match aw f (m_key (get_mmap sc m)) V (m :: pm) with
                | None => None
                | Some V1 => aw f (m_val (get_mmap sc m)) V1 (m :: pm)
                end
         end) t V
    end.

  Definition rel (r : option (list sctree * list N)) (a : option (list N)) (dst : list sctree) (V : list N) : Prop :=
    match r with
    | None => a = None
    | Some (dst', V') =>
      a = Some V' /\ exists delta, V' = delta ++ V /\
        flat_map flatten dst' = flat_map flatten dst ++ map cnt (rev delta)
    end.

  Lemma sct_fold_aw : forall f pm,
    (forall t dst V, rel (sct_type sc f t dst V pm) (aw f t V pm) dst V) ->
    forall flds dst V,
    rel (fold_left (fun (acc : option (list sctree * list N)) (fl : field) =>
                      match acc with None => None | Some (d, v) => sct_type sc f (f_type fl) d v pm end)
                   flds (Some (dst, V)))
        (fold_left (fun (acc : option (list N)) (fl : field) =>
                      match acc with None => None | Some V => aw f (f_type fl) V pm end)
                   flds (Some V)) dst V.
  Proof.
    intros f pm IH. induction flds as [|fl flds IHf]; intros dst V; cbn [fold_left].
    - cbn [rel]. split; [reflexivity|]. exists []. cbn [app rev map]. now rewrite app_nil_r.
    - pose proof (IH (f_type fl) dst V) as H1. unfold rel in H1.
      destruct (sct_type sc f (f_type fl) dst V pm) as [[d1 v1]|].
      + destruct H1 as [Ea [delta1 [Ev1 Ef1]]]. rewrite Ea.
        pose proof (IHf d1 v1) as H2. unfold rel in *.
        destruct (fold_left _ flds (Some (d1, v1))) as [[d2 v2]|].
        * destruct H2 as [Ea2 [delta2 [Ev2 Ef2]]]. split; [exact Ea2|].
          exists (delta2 ++ delta1). subst v1 v2. rewrite <- app_assoc. split; [reflexivity|].
          rewrite Ef2, Ef1, rev_app_distr, map_app, <- app_assoc. reflexivity.
        * exact H2.
      + rewrite H1.
        assert (Hn1 : forall l, fold_left (fun (acc : option (list sctree * list N)) (fl : field) =>
                      match acc with None => None | Some (d, v) => sct_type sc f (f_type fl) d v pm end) l None = None)
          by (induction l; cbn [fold_left]; auto).
        assert (Hn2 : forall l, fold_left (fun (acc : option (list N)) (fl : field) =>
                      match acc with None => None | Some V => aw f (f_type fl) V pm end) l None = None)
          by (induction l; cbn [fold_left]; auto).
        rewrite Hn1, Hn2. reflexivity.
  Qed.

  Lemma sct_aw : forall f t dst V pm, rel (sct_type sc f t dst V pm) (aw f t V pm) dst V.
  Proof.
    induction f as [|f IH]; intros t dst V pm; [reflexivity|].
    revert dst V. induction t as [p d|e IHe|s|m]; intros dst V.
    - cbn. split; [reflexivity|]. exists []. cbn. now rewrite app_nil_r.
    - exact (IHe dst V).
    - cbn [sct_type aw]. destruct (memN s V).
      + cbn. split; [reflexivity|]. exists []. cbn. now rewrite app_nil_r.
      + pose proof (sct_fold_aw f pm (fun t dst V => IH t dst V pm) (s_fields (get_struct sc s)) [] (s :: V)) as HF.
        unfold rel in *.
        destruct (fold_left _ (s_fields (get_struct sc s)) (Some ([], s :: V))) as [[sub v']|].
        * destruct HF as [Ea [delta [Ev Ef]]]. split; [exact Ea|].
          exists (delta ++ [s]). rewrite <- app_assoc. split; [exact Ev|].
          rewrite flat_map_app. cbn [flat_map flatten]. rewrite app_nil_r, Ef.
          rewrite rev_app_distr. cbn [rev app map flat_map]. reflexivity.
        * exact HF.
    - cbn [sct_type aw]. destruct (memN m pm).
      + cbn. split; [reflexivity|]. exists []. cbn. now rewrite app_nil_r.
      + pose proof (IH (m_key (get_mmap sc m)) dst V (m :: pm)) as H1. unfold rel in *.
        destruct (sct_type sc f (m_key (get_mmap sc m)) dst V (m :: pm)) as [[d1 v1]|].
        * destruct H1 as [Ea [delta1 [Ev1 Ef1]]]. rewrite Ea.
          pose proof (IH (m_val (get_mmap sc m)) d1 v1 (m :: pm)) as H2.
          destruct (sct_type sc f (m_val (get_mmap sc m)) d1 v1 (m :: pm)) as [[d2 v2]|].
          -- destruct H2 as [Ea2 [delta2 [Ev2 Ef2]]]. split; [exact Ea2|].
             exists (delta2 ++ delta1). subst v1 v2. rewrite <- app_assoc. split; [reflexivity|].
             rewrite Ef2, Ef1, rev_app_distr, map_app, <- app_assoc. reflexivity.
          -- exact H2.
        * rewrite H1. reflexivity.
  Qed.

  (* NewWireSchema in terms of aw *)
  Lemma new_wire_schema_aw : forall root,
    new_wire_schema sc root =
    option_map (fun V => map cnt (rev V))
      (fold_left (fun (acc : option (list N)) (fl : field) =>
                    match acc with None => None | Some V => aw (sct_fuel sc) (f_type fl) V [] end)
                 (s_fields (get_struct sc root)) (Some [root])).
  Proof.
    intros root. unfold new_wire_schema.
    pose proof (sct_fold_aw (sct_fuel sc) [] (fun t dst V => sct_aw (sct_fuel sc) t dst V [])
                            (s_fields (get_struct sc root)) [] [root]) as HF.
    unfold rel in HF.
    destruct (fold_left _ (s_fields (get_struct sc root)) (Some ([], [root]))) as [[sub v']|].
    - destruct HF as [Ea [delta [Ev Ef]]]. rewrite Ea. cbn [option_map flatten].
      subst v'. rewrite rev_app_distr. cbn [rev app map]. rewrite Ef. reflexivity.
    - rewrite HF. reflexivity.
  Qed.

  (* ---------- well-formedness: references in range, arrays not nested ---------- *)
  Definition ns : N := N.of_nat (length (structs sc)).
  Definition nm : N := N.of_nat (length (multimaps sc)).

  Definition wf_elem (t : ftype) : Prop :=
    match t with
    | TPrim _ _ => True
    | TStruct s => s < ns
    | TMultimap m => m < nm
    | TArray _ => False
    end.
  Definition wf_type (t : ftype) : Prop := match t with TArray e => wf_elem e | _ => wf_elem t end.

  Definition wf_schema : Prop :=
    (forall sd, In sd (structs sc) -> forall fl, In fl (s_fields sd) -> wf_type (f_type fl)) /\
    (forall md, In md (multimaps sc) -> wf_type (m_key md) /\ wf_type (m_val md)).

  Lemma wf_fields : wf_schema -> forall s fl, In fl (s_fields (get_struct sc s)) -> wf_type (f_type fl).
  Proof.
    intros [H _] s fl Hin. unfold get_struct in Hin.
    destruct (Nat.lt_ge_cases (N.to_nat s) (length (structs sc))) as [Hlt|Hge].
    - eapply H; [apply nth_In; exact Hlt|exact Hin].
    - rewrite nth_overflow in Hin by exact Hge. destruct Hin.
  Qed.

  Lemma wf_map : wf_schema -> forall m, wf_type (m_key (get_mmap sc m)) /\ wf_type (m_val (get_mmap sc m)).
  Proof.
    intros [_ H] m. unfold get_mmap.
    destruct (Nat.lt_ge_cases (N.to_nat m) (length (multimaps sc))) as [Hlt|Hge].
    - apply H. apply nth_In. exact Hlt.
    - rewrite nth_overflow by exact Hge. cbn. auto.
  Qed.

  (* ---------- covered: walking t again cannot reach a struct outside V ---------- *)
  Inductive covered (V : list N) : list N -> ftype -> Prop :=
  | cov_prim : forall pm p d, covered V pm (TPrim p d)
  | cov_struct : forall pm s, In s V -> covered V pm (TStruct s)
  | cov_arr : forall pm e, covered V pm e -> covered V pm (TArray e)
  | cov_cut : forall pm m, In m pm -> covered V pm (TMultimap m)
  | cov_map : forall pm m, covered V (m :: pm) (m_key (get_mmap sc m)) ->
                           covered V (m :: pm) (m_val (get_mmap sc m)) -> covered V pm (TMultimap m).

  Lemma covered_mono : forall V pm t, covered V pm t ->
    forall V' pm', incl V V' -> incl pm pm' -> covered V' pm' t.
  Proof.
    induction 1; intros V' pm' HV Hp.
    - constructor.
    - constructor. auto.
    - constructor. auto.
    - apply cov_cut. auto.
    - apply cov_map; [apply IHcovered1|apply IHcovered2]; auto; apply incl_cons;
        try (left; reflexivity); apply incl_tl; exact Hp.
  Qed.

  Lemma covered_cut_elim : forall V m pm1 t, covered V pm1 t ->
    forall pm, incl pm1 (m :: pm) -> covered V pm (TMultimap m) -> covered V pm t.
  Proof.
    induction 1; intros pm0 Hi Hm.
    - constructor.
    - constructor. auto.
    - constructor. auto.
    - destruct (Hi _ H) as [E|Hin]; [subst; exact Hm|apply cov_cut; exact Hin].
    - apply cov_map.
      + apply IHcovered1.
        * intros x [E|Hx]; [subst; right; left; reflexivity|].
          destruct (Hi _ Hx) as [E|Hin]; [left; exact E|right; right; exact Hin].
        * eapply covered_mono; [exact Hm|apply incl_refl|apply incl_tl, incl_refl].
      + apply IHcovered2.
        * intros x [E|Hx]; [subst; right; left; reflexivity|].
          destruct (Hi _ Hx) as [E|Hin]; [left; exact E|right; right; exact Hin].
        * eapply covered_mono; [exact Hm|apply incl_refl|apply incl_tl, incl_refl].
  Qed.

  Definition Inv (S : list reckey) (pm V : list N) : Prop :=
    forall s, In s V -> In (KStruct s) S \/
                        forall fl, In fl (s_fields (get_struct sc s)) -> covered V pm (f_type fl).

  Lemma Inv_push : forall S pm V k, Inv S pm V -> Inv (k :: S) pm V.
  Proof. intros S pm V k H s Hs. destruct (H s Hs); [left; right; assumption|right; assumption]. Qed.

  Lemma on_stack_none : forall S, on_stack S KNone = false.
  Proof. reflexivity. Qed.

  (* walking a covered type again changes nothing, whatever the fuel *)
  Lemma stable : forall f S pm V t,
    (forall m, In m pm -> In (KMap m) S) -> Inv S pm V -> covered V pm t -> bw f S t V = V.
  Proof.
    induction f as [|f IH]; intros S pm V t Hmaps HInv Hc; [reflexivity|].
    cbn [bw]. destruct (on_stack S (key_of t)) eqn:Eon; [reflexivity|].
    destruct t as [p d|e|s|m].
    - reflexivity.
    - inversion Hc; subst. eapply IH; [|apply Inv_push; exact HInv|eassumption].
      intros m Hm. right. auto.
    - inversion Hc as [| ? ? Hs | | |]; subst.
      assert (Hmem : memN s V = true) by (apply memN_in; exact Hs). rewrite Hmem.
      destruct (HInv s Hs) as [Hst|Hf].
      + apply (on_stack_in S (KStruct s)) in Hst; [|discriminate]. cbn [key_of] in Eon. congruence.
      + assert (HF : forall flds, incl flds (s_fields (get_struct sc s)) ->
                  fold_left (fun V fl => bw f (KStruct s :: S) (f_type fl) V) flds V = V).
        { induction flds as [|fl flds IHf]; intros Hi; cbn [fold_left]; [reflexivity|].
          rewrite (IH (KStruct s :: S) pm V (f_type fl)).
          - apply IHf. intros x Hx. apply Hi. right. exact Hx.
          - intros m Hm. right. auto.
          - apply Inv_push. exact HInv.
          - apply Hf. apply Hi. left. reflexivity. }
        apply HF. apply incl_refl.
    - inversion Hc as [| | | ? ? Hcut | ? ? Hk Hv]; subst.
      + apply Hmaps in Hcut. apply (on_stack_in S (KMap m)) in Hcut; [|discriminate].
        cbn [key_of] in Eon. congruence.
      + assert (HInv' : Inv (KMap m :: S) (m :: pm) V).
        { intros s Hs. destruct (HInv s Hs) as [Hst|Hf]; [left; right; exact Hst|right].
          intros fl Hfl. eapply covered_mono; [apply Hf; exact Hfl|apply incl_refl|apply incl_tl, incl_refl]. }
        assert (Hmaps' : forall m0, In m0 (m :: pm) -> In (KMap m0) (KMap m :: S)).
        { intros m0 [E|Hm0]; [subst; left; reflexivity|right; auto]. }
        rewrite (IH (KMap m :: S) (m :: pm) V _ Hmaps' HInv' Hk).
        apply (IH (KMap m :: S) (m :: pm) V _ Hmaps' HInv' Hv).
  Qed.

  (* ---------- the stack of build: distinct keys from a finite set ---------- *)
  Definition key_ok (k : reckey) : Prop :=
    match k with
    | KStruct s => s < ns
    | KMap m => m < nm
    | KArr (KStruct s) => s < ns
    | KArr (KMap m) => m < nm
    | _ => False
    end.

  Definition allowed : list reckey :=
    map (fun i => KStruct (N.of_nat i)) (seq 0 (length (structs sc)))
    ++ map (fun i => KMap (N.of_nat i)) (seq 0 (length (multimaps sc)))
    ++ map (fun i => KArr (KStruct (N.of_nat i))) (seq 0 (length (structs sc)))
    ++ map (fun i => KArr (KMap (N.of_nat i))) (seq 0 (length (multimaps sc))).

  Lemma in_seq_map : forall (g : N -> reckey) x n, x < N.of_nat n -> In (g x) (map (fun i => g (N.of_nat i)) (seq 0 n)).
  Proof.
    intros g x n H. apply in_map_iff. exists (N.to_nat x). split; [now rewrite Nnat.N2Nat.id|].
    apply in_seq. lia.
  Qed.

  Lemma key_ok_allowed : forall k, key_ok k -> In k allowed.
  Proof.
    unfold allowed, ns, nm. intros k H. destruct k as [s|m|k|]; cbn [key_ok] in H; try contradiction.
    - apply in_or_app. left. apply (in_seq_map KStruct). exact H.
    - apply in_or_app. right. apply in_or_app. left. apply (in_seq_map KMap). exact H.
    - destruct k as [s|m|k|]; try contradiction.
      + do 2 (apply in_or_app; right). apply in_or_app. left. apply (in_seq_map (fun x => KArr (KStruct x))). exact H.
      + do 3 (apply in_or_app; right). apply (in_seq_map (fun x => KArr (KMap x))). exact H.
  Qed.

  Definition keys_ok (S : list reckey) : Prop := forall k, In k S -> key_ok k.

  Lemma stack_len : forall S, NoDup S -> keys_ok S ->
    (length S <= 2 * (length (structs sc) + length (multimaps sc)))%nat.
  Proof.
    intros S Hnd Hk.
    assert (Hl : (length S <= length allowed)%nat).
    { apply NoDup_incl_length; [exact Hnd|]. intros k Hin. apply key_ok_allowed. auto. }
    unfold allowed in Hl. rewrite !app_length, !map_length, !seq_length in Hl. lia.
  Qed.

  Definition maps_sync (S : list reckey) (pm : list N) : Prop := forall m, In (KMap m) S <-> In m pm.
  Definition structs_in (S : list reckey) (V : list N) : Prop := forall s, In (KStruct s) S -> In s V.
  Definition arr_ok (S : list reckey) (t : ftype) : Prop := forall k, In (KArr k) S -> In k S \/ k = key_of t.
  Definition arr_full (S : list reckey) : Prop := forall k, In (KArr k) S -> In k S.
  Definition fuel_ok (fb : nat) (S : list reckey) : Prop :=
    (2 * (length (structs sc) + length (multimaps sc)) + 2 <= fb + length S)%nat.

  Definition Good (fa : nat) : Prop :=
    forall t V pm V', aw fa t V pm = Some V' ->
    forall fb S, wf_type t -> maps_sync S pm -> structs_in S V -> arr_ok S t -> NoDup S -> keys_ok S ->
                 fuel_ok fb S -> Inv S pm V ->
    bw fb S t V = V' /\ Inv S pm V' /\ covered V' pm t /\ incl V V'.

  Lemma aw_fold_none : forall fa pm flds,
    fold_left (fun (acc : option (list N)) (fl : field) =>
                 match acc with None => None | Some V => aw fa (f_type fl) V pm end) flds None = None.
  Proof. induction flds; cbn [fold_left]; auto. Qed.

  Lemma fold_good : forall fa, Good fa ->
    forall fb S pm, maps_sync S pm -> arr_full S -> NoDup S -> keys_ok S -> fuel_ok fb S ->
    forall flds V V', (forall fl, In fl flds -> wf_type (f_type fl)) -> structs_in S V -> Inv S pm V ->
    fold_left (fun (acc : option (list N)) (fl : field) =>
                 match acc with None => None | Some V => aw fa (f_type fl) V pm end) flds (Some V) = Some V' ->
    fold_left (fun V fl => bw fb S (f_type fl) V) flds V = V' /\ Inv S pm V' /\
    (forall fl, In fl flds -> covered V' pm (f_type fl)) /\ incl V V'.
  Proof.
    intros fa HG fb S pm Hms Haf Hnd Hko Hfu. induction flds as [|fl flds IHf]; intros V V' Hwf Hsi HInv H; cbn [fold_left] in *.
    - inversion H; subst. repeat split; auto using incl_refl. intros fl [].
    - destruct (aw fa (f_type fl) V pm) as [V1|] eqn:E1; [|rewrite aw_fold_none in H; discriminate].
      destruct (HG _ _ _ _ E1 fb S) as [Eb [HInv1 [Hc1 Hi1]]]; auto.
      { apply Hwf. left. reflexivity. }
      { intros k Hk. left. auto. }
      rewrite Eb.
      destruct (IHf V1 V') as [Eb2 [HInv2 [Hc2 Hi2]]]; auto.
      { intros x Hx. apply Hwf. right. exact Hx. }
      { intros x Hx. apply Hi1. auto. }
      repeat split; auto.
      + intros x [E|Hx]; [subst x|auto].
        eapply covered_mono; [exact Hc1|exact Hi2|apply incl_refl].
      + eapply incl_tran; eassumption.
  Qed.

  Lemma fuel_pos : forall fb S, NoDup S -> keys_ok S -> fuel_ok fb S -> exists fb', fb = Datatypes.S fb'.
  Proof.
    intros fb S Hnd Hko Hfu. pose proof (stack_len S Hnd Hko). unfold fuel_ok in Hfu.
    destruct fb; [lia|eauto].
  Qed.

  Lemma good_nonarray : wf_schema -> forall fa, Good fa ->
    forall t V pm V', match t with TArray _ => False | _ => True end ->
    aw (S fa) t V pm = Some V' ->
    forall fb S, wf_type t -> maps_sync S pm -> structs_in S V -> arr_ok S t -> NoDup S -> keys_ok S ->
                 fuel_ok fb S -> Inv S pm V ->
    bw fb S t V = V' /\ Inv S pm V' /\ covered V' pm t /\ incl V V'.
  Proof.
    intros Hwf fa HG t V pm V' Hna H fb S Hwt Hms Hsi Hao Hnd Hko Hfu HInv.
    destruct (fuel_pos fb S Hnd Hko Hfu) as [fb' ->].
    destruct t as [p d|e|s|m]; [| contradiction | |].
    - cbn in H. inversion H; subst. repeat split; auto using incl_refl. constructor.
    - (* struct *)
      cbn [aw] in H. destruct (memN s V) eqn:Em.
      + inversion H; subst V'. assert (Hs : In s V) by (apply memN_in; exact Em).
        repeat split; auto using incl_refl; [|constructor; exact Hs].
        apply (stable (Datatypes.S fb') S pm V (TStruct s)); [intros m Hm; apply Hms; exact Hm|exact HInv|constructor; exact Hs].
      + assert (Hnot : ~ In (KStruct s) S).
        { intros Hin. apply Hsi in Hin. apply memN_in in Hin. congruence. }
        destruct (fold_good fa HG fb' (KStruct s :: S) pm) with (flds := s_fields (get_struct sc s)) (V := s :: V) (V' := V')
          as [Eb [HInv' [Hcov Hincl]]]; auto.
        * intros m; split; [intros [E|Hin]; [discriminate|apply Hms; exact Hin]|intros Hm; right; apply Hms; exact Hm].
        * intros k [E|Hin]; [discriminate|]. destruct (Hao k Hin) as [Hk|Ek]; [right; exact Hk|left; subst; reflexivity].
        * constructor; assumption.
        * intros k [E|Hin]; [subst; exact Hwt|auto].
        * unfold fuel_ok in *. cbn [length]. lia.
        * apply (wf_fields Hwf).
        * intros x [E|Hin]; [inversion E; left; reflexivity|right; auto].
        * intros x [E|Hx]; [subst; left; left; reflexivity|].
          destruct (HInv x Hx) as [Hst|Hf]; [left; right; exact Hst|right].
          intros fl Hfl. eapply covered_mono; [apply Hf; exact Hfl|apply incl_tl, incl_refl|apply incl_refl].
        * repeat split.
          -- cbn [bw key_of]. destruct (on_stack S (KStruct s)) eqn:Eon.
             ++ apply on_stack_in in Eon; [contradiction|discriminate].
             ++ rewrite Em. exact Eb.
          -- intros x Hx. destruct (HInv' x Hx) as [[E|Hin]|Hf]; [inversion E; subst; right; exact Hcov|left; exact Hin|right; exact Hf].
          -- constructor. apply Hincl. left. reflexivity.
          -- intros x Hx. apply Hincl. right. exact Hx.
    - (* multimap *)
      cbn [aw] in H. destruct (memN m pm) eqn:Em.
      + inversion H; subst V'. assert (Hm : In m pm) by (apply memN_in; exact Em).
        repeat split; auto using incl_refl; [|apply cov_cut; exact Hm].
        cbn [bw key_of]. apply Hms in Hm. apply (on_stack_in S (KMap m)) in Hm; [|discriminate]. now rewrite Hm.
      + assert (Hnpm : ~ In m pm) by (intros Hin; apply memN_in in Hin; congruence).
        assert (Hnot : ~ In (KMap m) S) by (intros Hin; apply Hms in Hin; contradiction).
        destruct (aw fa (m_key (get_mmap sc m)) V (m :: pm)) as [V1|] eqn:E1; [|discriminate].
        destruct (wf_map Hwf m) as [Hwk Hwv].
        assert (Hms' : maps_sync (KMap m :: S) (m :: pm)).
        { intros m0; split; [intros [E|Hin]; [inversion E; left; reflexivity|right; apply Hms; exact Hin]
                            |intros [E|Hin]; [subst; left; reflexivity|right; apply Hms; exact Hin]]. }
        assert (Hao' : forall t', arr_ok (KMap m :: S) t').
        { intros t' k [E|Hin]; [discriminate|]. destruct (Hao k Hin) as [Hk|Ek]; [left; right; exact Hk|subst k; left; left; reflexivity]. }
        assert (Hnd' : NoDup (KMap m :: S)) by (constructor; assumption).
        assert (Hko' : keys_ok (KMap m :: S)) by (intros k [E|Hin]; [subst; exact Hwt|auto]).
        assert (Hfu' : fuel_ok fb' (KMap m :: S)) by (unfold fuel_ok in *; cbn [length]; lia).
        assert (HInv0 : Inv (KMap m :: S) (m :: pm) V).
        { intros x Hx. destruct (HInv x Hx) as [Hst|Hf]; [left; right; exact Hst|right].
          intros fl Hfl. eapply covered_mono; [apply Hf; exact Hfl|apply incl_refl|apply incl_tl, incl_refl]. }
        destruct (HG _ _ _ _ E1 fb' (KMap m :: S)) as [Eb1 [HInv1 [Hc1 Hi1]]]; auto.
        { intros x [E|Hin]; [discriminate|auto]. }
        destruct (HG _ _ _ _ H fb' (KMap m :: S)) as [Eb2 [HInv2 [Hc2 Hi2]]]; auto.
        { intros x [E|Hin]; [discriminate|apply Hi1; auto]. }
        assert (Hcm : covered V' pm (TMultimap m)).
        { apply cov_map; [|exact Hc2]. eapply covered_mono; [exact Hc1|exact Hi2|apply incl_refl]. }
        repeat split.
        * cbn [bw key_of]. destruct (on_stack S (KMap m)) eqn:Eon.
          -- apply on_stack_in in Eon; [contradiction|discriminate].
          -- rewrite Eb1. exact Eb2.
        * intros x Hx. destruct (HInv2 x Hx) as [[E|Hin]|Hf]; [discriminate|left; exact Hin|right].
          intros fl Hfl. eapply covered_cut_elim; [apply Hf; exact Hfl|apply incl_refl|exact Hcm].
        * exact Hcm.
        * eapply incl_tran; eassumption.
  Qed.

  Lemma good_all : wf_schema -> forall fa, Good fa.
  Proof.
    intros Hwf. induction fa as [|fa IH]; [intros t V pm V' H; discriminate|].
    intros t V pm V' H fb S Hwt Hms Hsi Hao Hnd Hko Hfu HInv.
    destruct t as [p d|e|s|m];
      try (eapply (good_nonarray Hwf fa IH); eauto; exact I).
    (* array *)
    change (aw (Datatypes.S fa) e V pm = Some V') in H.
    destruct e as [p d|e'|s|m]; [| contradiction | |].
    - cbn in H. inversion H; subst. repeat split; auto using incl_refl; [|constructor; constructor].
      destruct fb as [|fb]; [reflexivity|]. cbn [bw key_of on_stack]. destruct fb; reflexivity.
    - (* array of struct *)
      destruct (fuel_pos fb S Hnd Hko Hfu) as [fb' ->].
      cbn [bw key_of]. destruct (on_stack S (KArr (KStruct s))) eqn:Eon.
      + apply on_stack_in in Eon; [|discriminate].
        destruct (Hao _ Eon) as [Hk|Ek]; [|discriminate].
        apply Hsi in Hk. assert (Em : memN s V = true) by (apply memN_in; exact Hk).
        cbn [aw] in H. rewrite Em in H. inversion H; subst.
        repeat split; auto using incl_refl. constructor. constructor. exact Hk.
      + assert (Hnot : ~ In (KArr (KStruct s)) S).
        { intros Hin. apply (on_stack_in S (KArr (KStruct s))) in Hin; [congruence|discriminate]. }
        destruct (good_nonarray Hwf fa IH (TStruct s) V pm V' I H fb' (KArr (KStruct s) :: S)) as [Eb [HInv' [Hc Hi]]]; auto.
        * intros m; split; [intros [E|Hin]; [discriminate|apply Hms; exact Hin]|intros Hm; right; apply Hms; exact Hm].
        * intros x [E|Hin]; [discriminate|auto].
        * intros k [E|Hin]; [inversion E; right; reflexivity|].
          destruct (Hao k Hin) as [Hk|Ek]; [left; right; exact Hk|].
          subst k. apply Hko in Hin. contradiction.
        * constructor; assumption.
        * intros k [E|Hin]; [subst; exact Hwt|auto].
        * unfold fuel_ok in *. cbn [length]. lia.
        * apply Inv_push. exact HInv.
        * repeat split; auto.
          -- intros x Hx. destruct (HInv' x Hx) as [[E|Hin]|Hf]; [discriminate|left; exact Hin|right; exact Hf].
          -- constructor. exact Hc.
    - (* array of multimap *)
      destruct (fuel_pos fb S Hnd Hko Hfu) as [fb' ->].
      cbn [bw key_of]. destruct (on_stack S (KArr (KMap m))) eqn:Eon.
      + apply on_stack_in in Eon; [|discriminate].
        destruct (Hao _ Eon) as [Hk|Ek]; [|discriminate].
        apply Hms in Hk. assert (Em : memN m pm = true) by (apply memN_in; exact Hk).
        cbn [aw] in H. rewrite Em in H. inversion H; subst.
        repeat split; auto using incl_refl. constructor. apply cov_cut. exact Hk.
      + assert (Hnot : ~ In (KArr (KMap m)) S).
        { intros Hin. apply (on_stack_in S (KArr (KMap m))) in Hin; [congruence|discriminate]. }
        destruct (good_nonarray Hwf fa IH (TMultimap m) V pm V' I H fb' (KArr (KMap m) :: S)) as [Eb [HInv' [Hc Hi]]]; auto.
        * intros m0; split; [intros [E|Hin]; [discriminate|apply Hms; exact Hin]|intros Hm; right; apply Hms; exact Hm].
        * intros x [E|Hin]; [discriminate|auto].
        * intros k [E|Hin]; [inversion E; right; reflexivity|].
          destruct (Hao k Hin) as [Hk|Ek]; [left; right; exact Hk|].
          subst k. apply Hko in Hin. contradiction.
        * constructor; assumption.
        * intros k [E|Hin]; [subst; exact Hwt|auto].
        * unfold fuel_ok in *. cbn [length]. lia.
        * apply Inv_push. exact HInv.
        * repeat split; auto.
          -- intros x Hx. destruct (HInv' x Hx) as [[E|Hin]|Hf]; [discriminate|left; exact Hin|right; exact Hf].
          -- constructor. exact Hc.
  Qed.

  (* ---------- schemaToStructCountTree never runs out of fuel ---------- *)
  Lemma bounded_len : forall (l : list N) n, NoDup l -> (forall x, In x l -> x < N.of_nat n) -> (length l <= n)%nat.
  Proof.
    intros l n Hnd Hb.
    assert (H : (length l <= length (map N.of_nat (seq 0 n)))%nat).
    { apply NoDup_incl_length; [exact Hnd|]. intros x Hx. apply in_map_iff. exists (N.to_nat x).
      split; [apply Nnat.N2Nat.id|]. apply in_seq. specialize (Hb x Hx). lia. }
    now rewrite map_length, seq_length in H.
  Qed.

  Definition Tot (fa : nat) : Prop :=
    forall t V pm path, wf_type t -> NoDup path -> incl path V -> (forall s, In s path -> s < ns) ->
      NoDup pm -> (forall m, In m pm -> m < nm) ->
      (length (structs sc) + length (multimaps sc) + 1 <= fa + length path + length pm)%nat ->
      exists V', aw fa t V pm = Some V' /\ incl V V'.

  Lemma tot_fold : forall fa, Tot fa -> forall pm path, NoDup path -> (forall s, In s path -> s < ns) ->
    NoDup pm -> (forall m, In m pm -> m < nm) ->
    (length (structs sc) + length (multimaps sc) + 1 <= fa + length path + length pm)%nat ->
    forall flds V, (forall fl, In fl flds -> wf_type (f_type fl)) -> incl path V ->
    exists V', fold_left (fun (acc : option (list N)) (fl : field) =>
                            match acc with None => None | Some V => aw fa (f_type fl) V pm end) flds (Some V) = Some V' /\
               incl V V'.
  Proof.
    intros fa HT pm path Hnd Hb Hndm Hbm Hfu. induction flds as [|fl flds IHf]; intros V Hwf Hi; cbn [fold_left].
    - exists V. split; [reflexivity|apply incl_refl].
    - destruct (HT (f_type fl) V pm path) as [V1 [E1 Hi1]]; auto.
      { apply Hwf. left. reflexivity. }
      rewrite E1. destruct (IHf V1) as [V' [E' Hi']].
      { intros x Hx. apply Hwf. right. exact Hx. }
      { eapply incl_tran; eassumption. }
      exists V'. split; [exact E'|eapply incl_tran; eassumption].
  Qed.

  Lemma tot_nonarray : wf_schema -> forall fa, Tot fa ->
    forall t V pm path, match t with TArray _ => False | _ => True end ->
      wf_type t -> NoDup path -> incl path V -> (forall s, In s path -> s < ns) ->
      NoDup pm -> (forall m, In m pm -> m < nm) ->
      (length (structs sc) + length (multimaps sc) + 1 <= S fa + length path + length pm)%nat ->
      exists V', aw (S fa) t V pm = Some V' /\ incl V V'.
  Proof.
    intros Hwf fa HT t V pm path Hna Hwt Hnd Hi Hb Hndm Hbm Hfu.
    destruct t as [p d|e|s|m]; [| contradiction | |].
    - exists V. split; [reflexivity|apply incl_refl].
    - cbn [aw]. destruct (memN s V) eqn:Em; [exists V; split; [reflexivity|apply incl_refl]|].
      assert (Hnot : ~ In s path). { intros Hin. apply Hi in Hin. apply memN_in in Hin. congruence. }
      destruct (tot_fold fa HT pm (s :: path)) with (flds := s_fields (get_struct sc s)) (V := s :: V) as [V' [E Hi']]; auto.
      + constructor; assumption.
      + intros x [Ex|Hx]; [subst; exact Hwt|auto].
      + cbn [length]. lia.
      + apply (wf_fields Hwf).
      + intros x [Ex|Hx]; [left; exact Ex|right; auto].
      + exists V'. split; [exact E|]. intros x Hx. apply Hi'. right. exact Hx.
    - cbn [aw]. destruct (memN m pm) eqn:Em; [exists V; split; [reflexivity|apply incl_refl]|].
      assert (Hnot : ~ In m pm). { intros Hin. apply memN_in in Hin. congruence. }
      destruct (wf_map Hwf m) as [Hwk Hwv].
      destruct (HT (m_key (get_mmap sc m)) V (m :: pm) path) as [V1 [E1 Hi1]]; auto.
      { constructor; assumption. }
      { intros x [Ex|Hx]; [subst; exact Hwt|auto]. }
      { cbn [length]. lia. }
      rewrite E1.
      destruct (HT (m_val (get_mmap sc m)) V1 (m :: pm) path) as [V2 [E2 Hi2]]; auto.
      { eapply incl_tran; eassumption. }
      { constructor; assumption. }
      { intros x [Ex|Hx]; [subst; exact Hwt|auto]. }
      { cbn [length]. lia. }
      exists V2. split; [exact E2|eapply incl_tran; eassumption].
  Qed.

  Lemma tot_all : wf_schema -> forall fa, Tot fa.
  Proof.
    intros Hwf. induction fa as [|fa IH]; intros t V pm path Hwt Hnd Hi Hb Hndm Hbm Hfu.
    - pose proof (bounded_len path _ Hnd Hb). pose proof (bounded_len pm _ Hndm Hbm). lia.
    - destruct t as [p d|e|s|m].
      + exact (tot_nonarray Hwf fa IH (TPrim p d) V pm path I Hwt Hnd Hi Hb Hndm Hbm Hfu).
      + change (exists V', aw (S fa) e V pm = Some V' /\ incl V V').
        destruct e as [p d|e'|s|m]; [| contradiction | |].
        * exact (tot_nonarray Hwf fa IH (TPrim p d) V pm path I Hwt Hnd Hi Hb Hndm Hbm Hfu).
        * exact (tot_nonarray Hwf fa IH (TStruct s) V pm path I Hwt Hnd Hi Hb Hndm Hbm Hfu).
        * exact (tot_nonarray Hwf fa IH (TMultimap m) V pm path I Hwt Hnd Hi Hb Hndm Hbm Hfu).
      + exact (tot_nonarray Hwf fa IH (TStruct s) V pm path I Hwt Hnd Hi Hb Hndm Hbm Hfu).
      + exact (tot_nonarray Hwf fa IH (TMultimap m) V pm path I Hwt Hnd Hi Hb Hndm Hbm Hfu).
  Qed.

  (* ---------- the theorem ---------- *)
  Theorem wire_schema_order : wf_schema -> forall root, root < ns ->
    new_wire_schema sc root = Some (own_counts sc root).
  Proof.
    intros Hwf root Hr. rewrite new_wire_schema_aw.
    change (fold_left _ (s_fields (get_struct sc root)) (Some [root]))
      with (aw (S (sct_fuel sc)) (TStruct root) [] []).
    destruct (tot_all Hwf (S (sct_fuel sc)) (TStruct root) [] [] []) as [V' [EA _]]; auto.
    { constructor. } { apply incl_refl. } { intros s []. } { constructor. } { intros m []. }
    { unfold sct_fuel. cbn [length]. lia. }
    rewrite EA. cbn [option_map]. f_equal. rewrite own_counts_bw. f_equal. f_equal.
    destruct (good_all Hwf _ _ _ _ _ EA (S (S (length (structs sc) + length (multimaps sc))) * 3)%nat [])
      as [Eb _]; auto.
    - intros m; split; intros [].
    - intros s [].
    - intros k [].
    - constructor.
    - intros k [].
    - unfold fuel_ok. cbn [length]. lia.
    - intros s [].
  Qed.
End Order.

