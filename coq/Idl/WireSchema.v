(* go/pkg/schema/wireschema.go + structcounttree.go.

   NewWireSchema works on a resolved schema through the StructDef/MultimapDef pointers; the model
   works on the numbered schema of Schema/Schema.v (the one the encoder/decoder model `build` uses)
   and `index_schema` numbers an IDL schema the way tools/gen/gen_schemas.py does (structs and
   multimaps by declaration order, dictionaries by first use).

   Quirk kept: schemaToStructCountTree never deletes a STRUCT name from stack.asMap (only multimap
   names are deleted on the way out), so asMap acts as a global "already listed" set for structs
   and as a path set for multimaps: the result is the depth-first first-encounter list of structs.
   Serialize has no limit; Deserialize refuses more than 1024 counts. *)
From Coq Require Import List NArith Bool.
From Stef Require Import Varint Codecs Frame.
From Stef.Schema Require Import Schema.
From Stef.Idl Require Import Lexer Ast Resolve.
Import ListNotations.
Open Scope N_scope.

(* structCountTree *)
Inductive sctree := SCT (sid : N) (count : N) (children : list sctree).

Fixpoint memN (x : N) (l : list N) : bool :=
  match l with [] => false | y :: r => (y =? x) || memN x r end.

Section Tree.
  Variable sc : schema.

  (* schemaToStructCountTree(src, dst, stack): vs = struct names in asMap (never removed),
     pm = multimap names in asMap (the current path); returns the new *dst and vs. None = fuel *)
  Fixpoint sct_type (fuel : nat) (t : ftype) (dst : list sctree) (vs : list N) (pm : list N)
    : option (list sctree * list N) :=
    match fuel with
    | O => None
    | S f =>
      (fix go (t : ftype) (dst : list sctree) (vs : list N) : option (list sctree * list N) :=
         match t with
         | TPrim _ _ => Some (dst, vs)
         | TStruct s =>
           if memN s vs then Some (dst, vs)
           else
             let sd := get_struct sc s in
             match fold_left (fun (acc : option (list sctree * list N)) (fl : field) =>
                                match acc with
                                | None => None
                                | Some (d, v) => sct_type f (f_type fl) d v pm
                                end)
                             (s_fields sd) (Some ([], s :: vs)) with
             | None => None
             | Some (sub, vs') => Some (dst ++ [SCT s (N.of_nat (length (s_fields sd))) sub], vs')
             end
         | TArray e => go e dst vs
         | TMultimap m =>
           if memN m pm then Some (dst, vs)
           else
             let md := get_mmap sc m in
             match sct_type f (m_key md) dst vs (m :: pm) with
             | None => None
             | Some (d, v) => sct_type f (m_val md) d v (m :: pm)
             end
         end) t dst vs
    end.

  Definition sct_fuel : nat := S (S (length (structs sc) + length (multimaps sc))).

  (* setStructCountsFromTree *)
  Fixpoint flatten (t : sctree) : list N :=
    match t with SCT _ c ch => c :: flat_map flatten ch end.

  (* NewWireSchema(schema, root).structCounts *)
  Definition new_wire_schema (root : N) : option (list N) :=
    let sd := get_struct sc root in
    match fold_left (fun (acc : option (list sctree * list N)) (fl : field) =>
                       match acc with
                       | None => None
                       | Some (d, v) => sct_type sct_fuel (f_type fl) d v []
                       end)
                    (s_fields sd) (Some ([], [root])) with
    | None => None
    | Some (sub, _) => Some (flatten (SCT root (N.of_nat (length (s_fields sd))) sub))
    end.
End Tree.

(* WireSchema.Serialize / Deserialize (bytes; the reader may hold more bytes than the schema) *)
Definition serialize (counts : list N) : list N := emit_wire_schema counts.
Definition deserialize (bs : list N) : derr + list N := parse_wire_schema bs.

(* ---------- numbering an IDL schema ---------- *)
Fixpoint index_in {A} (name_of : A -> str) (l : list A) (n : str) (i : N) : option N :=
  match l with
  | [] => None
  | x :: r => if str_eqb (name_of x) n then Some i else index_in name_of r n (i + 1)
  end.

Fixpoint index_str (l : list str) (n : str) (i : N) : option N :=
  match l with
  | [] => None
  | x :: r => if str_eqb x n then Some i else index_str r n (i + 1)
  end.

Definition conv_prim (p : iprim) : prim :=
  match p with
  | IInt64 => PInt64 | IUint64 => PUint64 | IFloat64 => PFloat64
  | IBool => PBool | IString => PString | IBytes => PBytes
  end.

Definition add_dict (dicts : list str) (d : str) : list str :=
  match d with [] => dicts | _ => if mem_str d dicts then dicts else dicts ++ [d] end.

Fixpoint type_dicts (t : itype) (dicts : list str) : list str :=
  match t with
  | IPrim _ d => add_dict dicts d
  | IArray e _ _ => type_dicts e dicts
  | _ => dicts
  end.

Definition collect_dicts (sch : ischema) : list str :=
  let ds := fold_left (fun ds s => fold_left (fun ds f => type_dicts (if_type f) ds) (is_fields s)
                                              (add_dict ds (is_dict s)))
                      (i_structs sch) [] in
  fold_left (fun ds m => type_dicts (im_val m) (type_dicts (im_key m) ds)) (i_mmaps sch) ds.

Definition dict_id (dicts : list str) (d : str) : option N :=
  match d with [] => None | _ => index_str dicts d 0 end.

Fixpoint index_type (sch : ischema) (dicts : list str) (t : itype) : option ftype :=
  match t with
  | IPrim p d => Some (TPrim (conv_prim p) (dict_id dicts d))
  | IEnum _ _ => Some (TPrim PUint64 None)
  | IStruct n _ => option_map TStruct (index_in is_name (i_structs sch) n 0)
  | IMap n _ => option_map TMultimap (index_in im_name (i_mmaps sch) n 0)
  | IArray e _ _ => option_map TArray (index_type sch dicts e)
  | INone _ | IRef _ _ => None
  end.

Fixpoint all_some {A} (l : list (option A)) : option (list A) :=
  match l with
  | [] => Some []
  | None :: _ => None
  | Some x :: r => option_map (cons x) (all_some r)
  end.

Definition index_schema (sch : ischema) : option schema :=
  let dicts := collect_dicts sch in
  match all_some (map (fun s =>
                         option_map (fun fs => mkSdef (is_oneof s) (dict_id dicts (is_dict s)) fs)
                                    (all_some (map (fun f => option_map (fun t => mkField t (if_opt f))
                                                                        (index_type sch dicts (if_type f)))
                                                   (is_fields s))))
                      (i_structs sch)),
        all_some (map (fun m => match index_type sch dicts (im_key m), index_type sch dicts (im_val m) with
                                | Some k, Some v => Some (mkMdef k v)
                                | _, _ => None
                                end)
                      (i_mmaps sch)) with
  | Some ss, Some ms => Some (mkSchema ss ms)
  | _, _ => None
  end.

(* schema.NewWireSchema(sch, root) on a parsed schema.  A zero FieldType anywhere in the schema is
   reported as the panic of schemaToStructCountTree (Go panics only if it is reachable from this
   root; schemas returned by the parser never contain one). *)
Definition wire_counts (sch : ischema) (root : str) : pr (list N) :=
  match index_in is_name (i_structs sch) root 0 with
  | None => PPanic PNilDef
  | Some r =>
    match index_schema sch with
    | None => PPanic PUnknownFieldType
    | Some sc => match new_wire_schema sc r with Some l => POk l | None => PFuel end
    end
  end.
