(* Facts about WireSchema.v: serialization round trip and the 1024 limit (C13). *)
From Coq Require Import List NArith Bool Lia ZifyN ZifyNat ZifyBool.
From Stef Require Import Bits BitIO Varint VarintFacts Codecs Frame.
From Stef.Schema Require Import Schema.
From Stef.Idl Require Import Lexer Ast Resolve WireSchema.
Import ListNotations.
Open Scope N_scope.

Lemma parse_counts_emit : forall l acc rest,
  Forall (fun c => c < two64) l ->
  parse_counts (length l) (flat_map leb_enc l ++ rest) acc = Some (acc ++ l).
Proof.
  induction l as [|c l IH]; intros acc rest H; cbn [length flat_map parse_counts app].
  - now rewrite app_nil_r.
  - inversion H as [|? ? Hc Hl]; subst.
    unfold read_uvarint. rewrite <- app_assoc, (leb_roundtrip c _ Hc).
    rewrite IH by assumption. now rewrite <- app_assoc.
Qed.

(* Deserialize(Serialize(w)) = w for every count list within the limit; bytes that follow the
   schema in the reader are left alone *)
Theorem deserialize_serialize : forall w rest,
  (length w <= 1024)%nat -> Forall (fun c => c < two64) w ->
  deserialize (serialize w ++ rest) = inr w.
Proof.
  intros w rest Hlen Hw. unfold deserialize, serialize, parse_wire_schema, emit_wire_schema, read_uvarint.
  rewrite <- app_assoc.
  rewrite (leb_roundtrip (N.of_nat (length w))) by (unfold two64; lia).
  unfold max_struct_count.
  destruct (N.ltb_spec 1024 (N.of_nat (length w))); [lia|].
  rewrite Nnat.Nat2N.id.
  now rewrite (parse_counts_emit w [] rest Hw).
Qed.

Lemma parse_counts_length : forall n bs acc l,
  parse_counts n bs acc = Some l -> length l = (length acc + n)%nat.
Proof.
  induction n as [|n IH]; intros bs acc l H; cbn [parse_counts] in H.
  - inversion H; subst; lia.
  - destruct (read_uvarint bs) as [[c r]|]; [|discriminate].
    apply IH in H. rewrite app_length in H. cbn [length] in H. lia.
Qed.

(* Deserialize never accepts more than maxStructCount = 1024 counts *)
Theorem deserialize_limit : forall bs l, deserialize bs = inr l -> (length l <= 1024)%nat.
Proof.
  intros bs l H. unfold deserialize, parse_wire_schema in H.
  destruct (read_uvarint bs) as [[cnt r]|]; [|discriminate].
  unfold max_struct_count in H.
  destruct (N.ltb_spec 1024 cnt); [discriminate|].
  destruct (parse_counts (N.to_nat cnt) r []) as [l'|] eqn:E; [|discriminate].
  inversion H; subst. apply parse_counts_length in E. cbn [length] in E. lia.
Qed.

(* ... and a declared count above the limit is refused with the limit error whatever follows *)
Theorem deserialize_over_limit : forall n rest,
  1024 < n -> n < two64 -> deserialize (leb_enc n ++ rest) = inl ELimit.
Proof.
  intros n rest H1 H2. unfold deserialize, parse_wire_schema, read_uvarint.
  rewrite (leb_roundtrip n rest H2). unfold max_struct_count.
  destruct (N.ltb_spec 1024 n); [reflexivity|lia].
Qed.
