(* The STEF/gRPC transport seen from the byte stream (go/grpc/server.go chunkAssembler,
   go/grpc/client.go grpcWriter.WriteChunk).

   Sender: WriteChunk(header, content) sends ONE message whose bytes are header ++ content and
   whose is_end_of_chunk flag is set.  The protocol (destination.proto) allows a chunk to be
   split over several messages, only the last one flagged; the assembler handles that.

   Receiver: chunkAssembler{source, buf, readIndex, stats}.
     recvMsg(): loop { bytes, isEnd, err := source.recvMsg(); err => return err (what was
                accumulated is dropped); accumulate; isEnd => stats.MessagesReceived++,
                stats.BytesReceived += len(chunk); return chunk }
     Read(p):   if readIndex >= len(buf) { data, err := recvMsg(); err => return 0, err;
                buf = data; readIndex = 0 }; n = copy(p, buf[readIndex:]); readIndex += n
   A source is a list of items: Some message, or None for an error returned by the source; an
   exhausted source returns an error (io.EOF) for ever.  No proofs in this file. *)
From Coq Require Import List NArith Arith Bool.
Import ListNotations.

Definition bytes := list N.

Record msg := mkMsg { m_bytes : bytes; m_end : bool }.

(* ------------------------------------------------------------------ sender *)
(* grpcWriter.WriteChunk: one message per chunk, flagged *)
Definition write_chunk (header content : bytes) : msg := mkMsg (header ++ content) true.

(* the general shape the protocol allows: a chunk cut into pieces, the last piece flagged.
   cuts are piece lengths; what is left after the cuts is the flagged piece (possibly empty) *)
Fixpoint split_chunk (c : bytes) (cuts : list nat) : list msg :=
  match cuts with
  | [] => [mkMsg c true]
  | k :: r => mkMsg (firstn k c) false :: split_chunk (skipn k c) r
  end.

(* ------------------------------------------------------------------ receiver *)
Definition two64 : N := 18446744073709551616.

Record asm := mkAsm {
  a_src : list (option msg);   (* what the message source will still return *)
  a_buf : bytes;               (* chunkAssembler.buf *)
  a_idx : nat;                 (* chunkAssembler.readIndex *)
  a_recv : nat;                (* calls of source.recvMsg that returned (messages and errors) *)
  a_stat_msgs : N;             (* stats.MessagesReceived (uint64) *)
  a_stat_bytes : N             (* stats.BytesReceived (uint64) *)
}.

Definition asm_init (src : list (option msg)) : asm := mkAsm src [] 0 0 0 0.

(* the loop of recvMsg: result (chunk or error), rest of the source, calls made *)
Fixpoint recv_chunk (src : list (option msg)) (acc : bytes) (k : nat)
  : option bytes * list (option msg) * nat :=
  match src with
  | [] => (None, [], S k)                       (* exhausted source: io.EOF *)
  | None :: r => (None, r, S k)                 (* error from the source; acc is dropped *)
  | Some m :: r =>
      let acc' := acc ++ m_bytes m in
      if m_end m then (Some acc', r, S k) else recv_chunk r acc' (S k)
  end.

(* copy(p, buf[readIndex:]) with len(p) = n *)
Definition serve (a : asm) (n : N) : bytes * asm :=
  let rest := skipn (a_idx a) (a_buf a) in
  let k := if (N.of_nat (length rest) <=? n)%N then length rest else N.to_nat n in
  let out := firstn k rest in
  (out, mkAsm (a_src a) (a_buf a) (a_idx a + length out) (a_recv a) (a_stat_msgs a) (a_stat_bytes a)).

(* Read(p) with len(p) = n: None is an error return (0, err) *)
Definition asm_read (a : asm) (n : N) : option bytes * asm :=
  if a_idx a <? length (a_buf a) then
    let '(out, a') := serve a n in (Some out, a')
  else
    match recv_chunk (a_src a) [] (a_recv a) with
    | (None, src', k) =>
        (None, mkAsm src' (a_buf a) (a_idx a) k (a_stat_msgs a) (a_stat_bytes a))
    | (Some data, src', k) =>
        let a1 := mkAsm src' data 0 k
                    ((a_stat_msgs a + 1) mod two64)%N
                    ((a_stat_bytes a + N.of_nat (length data)) mod two64)%N in
        let '(out, a') := serve a1 n in (Some out, a')
    end.

(* one observation per Read: result, index of the last source call made so far *)
Fixpoint run_reads (a : asm) (ns : list N) : list (option bytes * nat) * asm :=
  match ns with
  | [] => ([], a)
  | n :: r =>
      let '(o, a1) := asm_read a n in
      let '(os, a2) := run_reads a1 r in
      ((o, a_recv a1) :: os, a2)
  end.

(* the bytes handed out by a sequence of Reads *)
Fixpoint delivered (obs : list (option bytes * nat)) : bytes :=
  match obs with
  | [] => []
  | (Some b, _) :: r => b ++ delivered r
  | (None, _) :: r => delivered r
  end.

(* read with a fixed buffer size until the first error (what io.ReadAll / a decoder does) *)
Fixpoint drain (fuel : nat) (a : asm) (n : N) : bytes * asm :=
  match fuel with
  | O => ([], a)
  | S f =>
      match asm_read a n with
      | (None, a') => ([], a')
      | (Some b, a') => let '(bs, a'') := drain f a' n in (b ++ bs, a'')
      end
  end.

(* ------------------------------------------------------------------ specification side *)
(* the complete chunks carried by a message sequence (bytes up to each end flag); trailing
   messages without an end flag carry no complete chunk *)
Fixpoint chunks_acc (ms : list msg) (acc : bytes) : list bytes :=
  match ms with
  | [] => []
  | m :: r => if m_end m then (acc ++ m_bytes m) :: chunks_acc r []
              else chunks_acc r (acc ++ m_bytes m)
  end.
Definition chunks_of (ms : list msg) : list bytes := chunks_acc ms [].

(* bytes of the trailing messages that do not end a chunk *)
Fixpoint pending_acc (ms : list msg) (acc : bytes) : bytes :=
  match ms with
  | [] => acc
  | m :: r => if m_end m then pending_acc r [] else pending_acc r (acc ++ m_bytes m)
  end.

(* the whole pipeline: chunks written by the client, each cut as the transport likes *)
Definition send_all (cs : list (bytes * bytes)) : list msg :=
  map (fun hc => write_chunk (fst hc) (snd hc)) cs.
Fixpoint send_split (cs : list (bytes * list nat)) : list msg :=
  match cs with
  | [] => []
  | (c, cuts) :: r => split_chunk c cuts ++ send_split r
  end.
