(* Facts about the chunk assembler model (coq/Net/Chunk.v). *)
From Coq Require Import List NArith Arith Bool Lia ZifyN ZifyNat ZifyBool.
From Stef Require Import Chunk.
Import ListNotations.

(* ------------------------------------------------------------------ chunks_of algebra *)
Lemma chunks_acc_app : forall A B acc,
  chunks_acc (A ++ B) acc = chunks_acc A acc ++ chunks_acc B (pending_acc A acc).
Proof.
  induction A as [|m A IH]; intros B acc; cbn [app chunks_acc pending_acc]; [reflexivity|].
  destruct (m_end m); [rewrite IH; reflexivity | apply IH].
Qed.

Lemma pending_acc_app : forall A B acc,
  pending_acc (A ++ B) acc = pending_acc B (pending_acc A acc).
Proof.
  induction A as [|m A IH]; intros B acc; cbn [app pending_acc]; [reflexivity|].
  destruct (m_end m); apply IH.
Qed.

Lemma chunks_of_app_aligned : forall A B, pending_acc A [] = [] ->
  chunks_of (A ++ B) = chunks_of A ++ chunks_of B.
Proof. intros A B H. unfold chunks_of. rewrite chunks_acc_app, H. reflexivity. Qed.

(* ------------------------------------------------------------------ sender *)
Lemma split_chunk_chunks : forall cuts c acc,
  chunks_acc (split_chunk c cuts) acc = [acc ++ c] /\ pending_acc (split_chunk c cuts) acc = [].
Proof.
  induction cuts as [|k r IH]; intros c acc; cbn [split_chunk chunks_acc pending_acc m_end m_bytes].
  - split; reflexivity.
  - destruct (IH (skipn k c) (acc ++ firstn k c)) as [H1 H2]. rewrite H1, H2.
    rewrite <- app_assoc, firstn_skipn. split; reflexivity.
Qed.

Lemma chunks_of_send_split : forall cs, chunks_of (send_split cs) = map fst cs /\ pending_acc (send_split cs) [] = [].
Proof.
  induction cs as [|[c cuts] r [IH1 IH2]]; cbn [send_split map fst]; [split; reflexivity|].
  destruct (split_chunk_chunks cuts c []) as [H1 H2]. cbn [app] in H1.
  split.
  - rewrite chunks_of_app_aligned by exact H2. unfold chunks_of at 1. rewrite H1. cbn [app]. rewrite IH1. reflexivity.
  - rewrite pending_acc_app, H2. exact IH2.
Qed.

Lemma chunks_of_send_all : forall cs,
  chunks_of (send_all cs) = map (fun hc => fst hc ++ snd hc) cs.
Proof.
  unfold chunks_of, send_all. induction cs as [|[h c] r IH]; cbn [map chunks_acc write_chunk m_end m_bytes fst snd app]; [reflexivity|].
  rewrite IH. reflexivity.
Qed.

(* every message produced by WriteChunk ends a chunk *)
Lemma send_all_flagged : forall cs m, In m (send_all cs) -> m_end m = true.
Proof.
  unfold send_all. intros cs m H. apply in_map_iff in H. destruct H as [hc [<- _]]. reflexivity.
Qed.

(* ------------------------------------------------------------------ recv_chunk *)
Lemma recv_chunk_spec : forall ms acc k,
  match recv_chunk (map Some ms) acc k with
  | (Some data, src', k') =>
      exists taken rest, ms = taken ++ rest /\ src' = map Some rest /\ k' = (k + length taken)%nat /\
        taken <> [] /\ chunks_acc taken acc = [data] /\ pending_acc taken acc = []
  | (None, src', k') => src' = [] /\ chunks_acc ms acc = [] /\ k' = S (k + length ms)
  end.
Proof.
  induction ms as [|m ms IH]; intros acc k; cbn [map recv_chunk].
  - cbn [chunks_acc length]. repeat split; lia.
  - destruct (m_end m) eqn:He.
    + exists [m], ms. cbn [app length chunks_acc pending_acc]. rewrite He.
      repeat split; try reflexivity; try lia. discriminate.
    + specialize (IH (acc ++ m_bytes m) (S k)).
      destruct (recv_chunk (map Some ms) (acc ++ m_bytes m) (S k)) as [[[data|] src'] k'].
      * destruct IH as [taken [rest [H1 [H2 [H3 [H4 [H5 H6]]]]]]].
        exists (m :: taken), rest. cbn [app length chunks_acc pending_acc]. rewrite He.
        repeat split; try assumption; try discriminate. { rewrite H1; reflexivity. } lia.
      * destruct IH as [H1 [H2 H3]]. cbn [chunks_acc length]. rewrite He. repeat split; try assumption. lia.
Qed.

(* an error item: the partial chunk is dropped and the source continues after the error *)
Lemma recv_chunk_error_item : forall pre r acc k, (forall m, In m pre -> m_end m = false) ->
  recv_chunk (map Some pre ++ None :: r) acc k = (None, r, S (k + length pre)).
Proof.
  induction pre as [|m pre IH]; intros r acc k Hne; cbn [map app recv_chunk length].
  - f_equal. lia.
  - rewrite (Hne m (or_introl eq_refl)). rewrite IH by (intros; apply Hne; right; assumption).
    f_equal. lia.
Qed.

(* ------------------------------------------------------------------ serve *)
Lemma skipn_add : forall (A : Type) (i j : nat) (l : list A), skipn j (skipn i l) = skipn (i + j) l.
Proof.
  induction i as [|i IH]; intros j l; cbn [Nat.add skipn]; [reflexivity|].
  destruct l as [|x l]; [rewrite skipn_nil; reflexivity|]. apply IH.
Qed.

Lemma serve_spec : forall a n out a', serve a n = (out, a') ->
  out ++ skipn (a_idx a') (a_buf a') = skipn (a_idx a) (a_buf a) /\
  a_src a' = a_src a /\ a_buf a' = a_buf a /\ a_recv a' = a_recv a /\
  a_stat_msgs a' = a_stat_msgs a /\ a_stat_bytes a' = a_stat_bytes a /\
  (a_idx a' <= length (a_buf a') \/ a_idx a' = a_idx a)%nat /\
  (N.of_nat (length out) <= n)%N /\
  ((0 < n)%N -> (a_idx a < length (a_buf a))%nat -> out <> []).
Proof.
  intros a n out a' H. unfold serve in H.
  set (rest := skipn (a_idx a) (a_buf a)) in *.
  set (k := if (N.of_nat (length rest) <=? n)%N then length rest else N.to_nat n) in *.
  assert (Hk : (k <= length rest)%nat) by (subst k; destruct (N.leb_spec (N.of_nat (length rest)) n); lia).
  assert (Hkn : (N.of_nat k <= n)%N) by (subst k; destruct (N.leb_spec (N.of_nat (length rest)) n); lia).
  assert (Hl : length (firstn k rest) = k) by (apply firstn_length_le; exact Hk).
  inversion H; subst out a'; clear H. cbn [a_idx a_buf a_src a_recv a_stat_msgs a_stat_bytes].
  rewrite Hl.
  assert (Hlr : length rest = (length (a_buf a) - a_idx a)%nat) by (subst rest; apply skipn_length).
  repeat split; try reflexivity.
  - rewrite <- skipn_add. fold rest. apply firstn_skipn.
  - destruct (Nat.le_gt_cases (a_idx a) (length (a_buf a))); [left; lia|].
    right. assert (k = 0)%nat by lia. lia.
  - exact Hkn.
  - intros Hn Hi. intro Hc. apply (f_equal (@length N)) in Hc. rewrite Hl in Hc. cbn [length] in Hc.
    subst k. destruct (N.leb_spec (N.of_nat (length rest)) n); lia.
Qed.

(* ------------------------------------------------------------------ the invariant *)
Definition out_bytes (o : option bytes) : bytes := match o with Some b => b | None => [] end.

Record Inv (ms : list msg) (a : asm) (d : bytes) (rcv rem : list msg) : Prop := mkInv {
  inv_split : ms = rcv ++ rem;
  inv_src : a_src a = map Some rem;
  inv_recv : length rcv = a_recv a \/ (rem = [] /\ (length rcv < a_recv a)%nat);
  inv_aligned : pending_acc rcv [] = [] \/ rem = [];
  inv_bytes : concat (chunks_of rcv) = d ++ skipn (a_idx a) (a_buf a);
  inv_msgs : a_stat_msgs a = (N.of_nat (length (chunks_of rcv)) mod two64)%N;
  inv_nbytes : a_stat_bytes a = (N.of_nat (length (concat (chunks_of rcv))) mod two64)%N
}.

Lemma inv_init : forall ms, Inv ms (asm_init (map Some ms)) [] [] ms.
Proof.
  intros ms. constructor; cbn; try reflexivity; auto.
Qed.

Lemma two64_nz : two64 <> 0%N. Proof. discriminate. Qed.

Lemma asm_read_inv : forall ms a d rcv rem n o a', Inv ms a d rcv rem -> asm_read a n = (o, a') ->
  exists rcv' rem', Inv ms a' (d ++ out_bytes o) rcv' rem'.
Proof.
  intros ms a d rcv rem n o a' [I1 I2 I3 I4 I5 I6 I7] H. unfold asm_read in H.
  destruct (Nat.ltb_spec (a_idx a) (length (a_buf a))) as [Hlt|Hge].
  - destruct (serve a n) as [out a1] eqn:Hs. inversion H; subst o a'; clear H.
    destruct (serve_spec _ _ _ _ Hs) as [S1 [S2 [S3 [S4 [S5 [S6 _]]]]]].
    exists rcv, rem. constructor; try assumption; try congruence.
    cbn [out_bytes]. rewrite <- app_assoc, S1. exact I5.
  - assert (Hnil : skipn (a_idx a) (a_buf a) = []) by (apply skipn_all2; lia).
    rewrite Hnil, app_nil_r in I5.
    rewrite I2 in H. pose proof (recv_chunk_spec rem [] (a_recv a)) as R.
    destruct (recv_chunk (map Some rem) [] (a_recv a)) as [[[data|] src'] k'].
    + destruct R as [taken [rest [R1 [R2 [R3 [R4 [R5 R6]]]]]]].
      match type of H with (let '(_, _) := serve ?x n in _) = _ => set (a1 := x) in * end.
      destruct (serve a1 n) as [out a2] eqn:Hs. inversion H; subst o a'; clear H.
      destruct (serve_spec _ _ _ _ Hs) as [S1 [S2 [S3 [S4 [S5 [S6 _]]]]]].
      subst a1. cbn [a_idx a_buf a_src a_recv a_stat_msgs a_stat_bytes] in *.
      assert (Hal : pending_acc rcv [] = []).
      { destruct I4 as [I4|I4]; [exact I4|]. subst rem. destruct taken; [congruence|discriminate]. }
      assert (Hch : chunks_of (rcv ++ taken) = chunks_of rcv ++ [data]).
      { rewrite chunks_of_app_aligned by exact Hal. unfold chunks_of at 2. rewrite R5. reflexivity. }
      exists (rcv ++ taken), rest. constructor.
      * rewrite I1, R1, app_assoc. reflexivity.
      * congruence.
      * left. rewrite app_length, S4, R3. destruct I3 as [I3|[I3 _]]; [lia|].
        subst rem. destruct taken; [congruence|discriminate].
      * left. rewrite pending_acc_app, Hal. exact R6.
      * cbn [out_bytes]. rewrite Hch, concat_app, I5. cbn [concat]. rewrite app_nil_r.
        rewrite <- app_assoc. f_equal. rewrite S1. reflexivity.
      * rewrite S5, I6, Hch, app_length. cbn [length].
        rewrite N.add_mod_idemp_l by exact two64_nz. f_equal. lia.
      * rewrite S6, I7, Hch, concat_app, app_length. cbn [concat]. rewrite app_nil_r.
        rewrite N.add_mod_idemp_l by exact two64_nz. f_equal. lia.
    + destruct R as [R1 [R2 R3]]. inversion H; subst o a'; clear H.
      cbn [out_bytes]. rewrite app_nil_r.
      assert (Hch : chunks_of (rcv ++ rem) = chunks_of rcv).
      { destruct I4 as [I4|I4].
        - rewrite chunks_of_app_aligned by exact I4. unfold chunks_of at 2. rewrite R2. apply app_nil_r.
        - subst rem. rewrite app_nil_r. reflexivity. }
      exists (rcv ++ rem), []. constructor; cbn [a_idx a_buf a_src a_recv a_stat_msgs a_stat_bytes].
      * rewrite app_nil_r. exact I1.
      * subst src'. reflexivity.
      * right. split; [reflexivity|]. rewrite app_length. destruct I3 as [I3|[I3 I3']]; [lia|].
        subst rem. cbn [length] in *. lia.
      * right. reflexivity.
      * rewrite Hch, Hnil, app_nil_r. exact I5.
      * rewrite Hch. exact I6.
      * rewrite Hch. exact I7.
Qed.

Lemma run_reads_inv : forall ns ms a d rcv rem obs a', Inv ms a d rcv rem -> run_reads a ns = (obs, a') ->
  exists rcv' rem', Inv ms a' (d ++ delivered obs) rcv' rem'.
Proof.
  induction ns as [|n ns IH]; intros ms a d rcv rem obs a' HI H; cbn [run_reads] in H.
  - inversion H; subst. cbn [delivered]. rewrite app_nil_r. eauto.
  - destruct (asm_read a n) as [o a1] eqn:Hr. destruct (run_reads a1 ns) as [os a2] eqn:Hrr.
    inversion H; subst obs a'; clear H.
    destruct (asm_read_inv _ _ _ _ _ _ _ _ HI Hr) as [rcv1 [rem1 HI1]].
    destruct (IH _ _ _ _ _ _ _ HI1 Hrr) as [rcv2 [rem2 HI2]].
    exists rcv2, rem2. replace (d ++ delivered ((o, a_recv a1) :: os)) with ((d ++ out_bytes o) ++ delivered os); [exact HI2|].
    rewrite <- app_assoc. f_equal. destruct o; reflexivity.
Qed.

Lemma inv_firstn : forall ms a d rcv rem, Inv ms a d rcv rem -> firstn (a_recv a) ms = rcv.
Proof.
  intros ms a d rcv rem [I1 _ I3 _ _ _ _]. subst ms. destruct I3 as [I3|[I3 I3']].
  - rewrite <- I3. rewrite firstn_app, Nat.sub_diag, firstn_all. cbn [firstn]. apply app_nil_r.
  - subst rem. rewrite app_nil_r. apply firstn_all2. lia.
Qed.

Lemma chunks_of_prefix : forall rcv rem, (pending_acc rcv [] = [] \/ rem = []) ->
  exists tail, chunks_of (rcv ++ rem) = chunks_of rcv ++ tail.
Proof.
  intros rcv rem [H|H].
  - exists (chunks_of rem). apply chunks_of_app_aligned. exact H.
  - subst rem. exists []. rewrite !app_nil_r. reflexivity.
Qed.

(* ------------------------------------------------------------------ the theorems *)
(* release + no fabrication: after any sequence of Reads of any sizes, the bytes handed out are
   a prefix of the complete chunks among the messages RECEIVED SO FAR (so a byte is handed out
   only after the message carrying its chunk's end flag was received), in order, unchanged *)
Theorem reads_released : forall ms ns,
  let '(obs, a) := run_reads (asm_init (map Some ms)) ns in
  exists tail, concat (chunks_of (firstn (a_recv a) ms)) = delivered obs ++ tail.
Proof.
  intros ms ns. destruct (run_reads (asm_init (map Some ms)) ns) as [obs a] eqn:H.
  destruct (run_reads_inv _ _ _ _ _ _ _ _ (inv_init ms) H) as [rcv [rem HI]].
  rewrite (inv_firstn _ _ _ _ _ HI). cbn [app] in HI. destruct HI as [_ _ _ _ I5 _ _].
  eexists. exact I5.
Qed.

(* the same at every Read: each observation carries the receive index at its return *)
Lemma run_reads_app : forall ns1 ns2 a,
  run_reads a (ns1 ++ ns2) =
  let '(o1, a1) := run_reads a ns1 in let '(o2, a2) := run_reads a1 ns2 in (o1 ++ o2, a2).
Proof.
  induction ns1 as [|n ns1 IH]; intros ns2 a; cbn [app run_reads].
  - destruct (run_reads a ns2); reflexivity.
  - destruct (asm_read a n) as [o a1]. rewrite IH.
    destruct (run_reads a1 ns1) as [o1 a2]. destruct (run_reads a2 ns2) as [o2 a3]. reflexivity.
Qed.

Lemma run_reads_last_recv : forall ns a obs a' o k, run_reads a ns = (obs ++ [(o, k)], a') -> k = a_recv a'.
Proof.
  induction ns as [|n ns IH]; intros a obs a' o k H; cbn [run_reads] in H.
  - inversion H. destruct obs; discriminate.
  - destruct (asm_read a n) as [o1 a1] eqn:Hr. destruct (run_reads a1 ns) as [os a2] eqn:Hrr.
    inversion H; subst a'; clear H.
    destruct ns as [|n2 ns].
    + cbn [run_reads] in Hrr. inversion Hrr; subst os a2. destruct obs as [|x obs]; cbn [app] in H1.
      * inversion H1; reflexivity.
      * inversion H1. destruct obs; discriminate.
    + destruct obs as [|x obs]; cbn [app] in H1.
      * inversion H1; subst. cbn [run_reads] in Hrr. destruct (asm_read a1 n2). destruct (run_reads a0 ns). discriminate.
      * inversion H1; subst. eapply IH. exact Hrr.
Qed.

Theorem reads_released_each : forall ms ns obs1 o k obs2 a,
  run_reads (asm_init (map Some ms)) ns = (obs1 ++ (o, k) :: obs2, a) ->
  exists tail, concat (chunks_of (firstn k ms)) = delivered (obs1 ++ [(o, k)]) ++ tail.
Proof.
  intros ms ns obs1 o k obs2 a H.
  (* split ns after length obs1 + 1 reads *)
  set (j := S (length obs1)).
  rewrite <- (firstn_skipn j ns) in H. rewrite run_reads_app in H.
  destruct (run_reads (asm_init (map Some ms)) (firstn j ns)) as [o1 a1] eqn:H1.
  destruct (run_reads a1 (skipn j ns)) as [o2 a2] eqn:H2. inversion H; subst a2; clear H.
  assert (Hlen : forall ns a obs a', run_reads a ns = (obs, a') -> length obs = length ns).
  { clear. induction ns as [|n ns IH]; intros a obs a' H; cbn [run_reads] in H.
    - inversion H; reflexivity.
    - destruct (asm_read a n) as [o a1]. destruct (run_reads a1 ns) as [os a2] eqn:Hr. inversion H; subst.
      cbn [length]. f_equal. eapply IH; exact Hr. }
  pose proof (Hlen _ _ _ _ H1) as L1. pose proof (Hlen _ _ _ _ H2) as L2.
  assert (Ltot : length ns = (length obs1 + S (length obs2))%nat).
  { rewrite <- (firstn_skipn j ns), app_length, <- L1, <- L2, <- app_length, H3, app_length. reflexivity. }
  assert (Lj : length (firstn j ns) = j) by (apply firstn_length_le; subst j; lia).
  assert (Ho1 : o1 = obs1 ++ [(o, k)]).
  { assert (E : o1 ++ o2 = (obs1 ++ [(o, k)]) ++ obs2) by (rewrite <- app_assoc; exact H3).
    apply (f_equal (firstn j)) in E.
    rewrite firstn_app, firstn_all2 in E by lia.
    replace (j - length o1)%nat with 0%nat in E by lia. cbn [firstn] in E. rewrite app_nil_r in E.
    rewrite firstn_app, firstn_all2 in E by (rewrite app_length; cbn [length]; subst j; lia).
    replace (j - length (obs1 ++ [(o, k)]))%nat with 0%nat in E by (rewrite app_length; cbn [length]; subst j; lia).
    cbn [firstn] in E. rewrite app_nil_r in E. exact E. }
  subst o1. pose proof (run_reads_last_recv _ _ _ _ _ _ H1) as Hk. subst k.
  pose proof (reads_released ms (firstn j ns)) as R. rewrite H1 in R. exact R.
Qed.

(* nothing lost, nothing duplicated: what was handed out, plus what is still buffered, plus the
   complete chunks still in the source, is the concatenation of all chunks *)
Theorem reads_conservation : forall ms ns,
  let '(obs, a) := run_reads (asm_init (map Some ms)) ns in
  exists rem tail, a_src a = map Some rem /\
    concat (chunks_of ms) = delivered obs ++ skipn (a_idx a) (a_buf a) ++ tail.
Proof.
  intros ms ns. destruct (run_reads (asm_init (map Some ms)) ns) as [obs a] eqn:H.
  destruct (run_reads_inv _ _ _ _ _ _ _ _ (inv_init ms) H) as [rcv [rem [I1 I2 _ I4 I5 _ _]]].
  destruct (chunks_of_prefix rcv rem I4) as [tail Ht].
  exists rem, (concat tail). split; [exact I2|].
  rewrite I1, Ht, concat_app, I5. cbn [app]. rewrite <- app_assoc. reflexivity.
Qed.

Corollary reads_prefix : forall ms ns,
  exists tail, concat (chunks_of ms) = delivered (fst (run_reads (asm_init (map Some ms)) ns)) ++ tail.
Proof.
  intros ms ns. pose proof (reads_conservation ms ns) as H.
  destruct (run_reads (asm_init (map Some ms)) ns) as [obs a]. destruct H as [rem [tail [_ H]]].
  cbn [fst]. eexists. exact H.
Qed.

(* Stats: MessagesReceived counts completed chunks, BytesReceived their bytes (uint64) *)
Theorem reads_stats : forall ms ns,
  let '(_, a) := run_reads (asm_init (map Some ms)) ns in
  let cs := chunks_of (firstn (a_recv a) ms) in
  a_stat_msgs a = (N.of_nat (length cs) mod two64)%N /\
  a_stat_bytes a = (N.of_nat (length (concat cs)) mod two64)%N.
Proof.
  intros ms ns. destruct (run_reads (asm_init (map Some ms)) ns) as [obs a] eqn:H.
  destruct (run_reads_inv _ _ _ _ _ _ _ _ (inv_init ms) H) as [rcv [rem HI]].
  rewrite (inv_firstn _ _ _ _ _ HI). destruct HI as [_ _ _ _ _ I6 I7]. split; assumption.
Qed.

(* ------------------------------------------------------------------ draining delivers everything *)
Definition measure (a : asm) (rem : list msg) : nat :=
  (length rem + length (skipn (a_idx a) (a_buf a)) + length (concat (chunks_of rem)))%nat.

Lemma asm_read_progress : forall ms a d rcv rem n o a', Inv ms a d rcv rem -> (0 < n)%N ->
  (pending_acc rcv [] = []) ->
  asm_read a n = (o, a') ->
  match o with
  | None => concat (chunks_of ms) = d ++ skipn (a_idx a) (a_buf a) /\ skipn (a_idx a) (a_buf a) = []
  | Some b => exists rcv' rem', Inv ms a' (d ++ b) rcv' rem' /\ pending_acc rcv' [] = [] /\
                (measure a' rem' < measure a rem)%nat
  end.
Proof.
  intros ms a d rcv rem n o a' [I1 I2 I3 I4 I5 I6 I7] Hn Hal H. pose proof H as Hread. unfold asm_read in H.
  destruct (Nat.ltb_spec (a_idx a) (length (a_buf a))) as [Hlt|Hge].
  - destruct (serve a n) as [out a1] eqn:Hs. inversion H; subst o a'; clear H.
    destruct (serve_spec _ _ _ _ Hs) as [S1 [S2 [S3 [S4 [S5 [S6 [_ [_ S8]]]]]]]].
    exists rcv, rem. split; [|split; [exact Hal|]].
    + constructor; try assumption; try congruence. rewrite <- app_assoc, S1. exact I5.
    + unfold measure. rewrite <- S1, app_length.
      specialize (S8 Hn Hlt). destruct out; [congruence|]. cbn [length]. lia.
  - assert (Hnil : skipn (a_idx a) (a_buf a) = []) by (apply skipn_all2; lia).
    rewrite I2 in H. pose proof (recv_chunk_spec rem [] (a_recv a)) as R.
    destruct (recv_chunk (map Some rem) [] (a_recv a)) as [[[data|] src'] k'].
    + destruct R as [taken [rest [R1 [R2 [R3 [R4 [R5 R6]]]]]]].
      match type of H with (let '(_, _) := serve ?x n in _) = _ => set (a1 := x) in * end.
      destruct (serve a1 n) as [out a2] eqn:Hs.
      inversion H; subst o a'; clear H.
      destruct (asm_read_inv ms a d rcv rem n _ _ (mkInv _ _ _ _ _ I1 I2 I3 I4 I5 I6 I7) Hread) as [rcv' [rem' HI']].
      (* identify rcv' rem' = rcv ++ taken, rest via the source *)
      destruct (serve_spec _ _ _ _ Hs) as [S1 [S2 [S3 [S4 [S5 [S6 _]]]]]].
      subst a1. cbn [a_idx a_buf a_src a_recv a_stat_msgs a_stat_bytes] in *.
      assert (Hrem' : rem' = rest).
      { destruct HI' as [_ J2 _ _ _ _ _]. rewrite S2, R2 in J2.
        clear - J2. revert rem' J2. induction rest as [|x r IHr]; intros [|y r'] J; cbn [map] in J; try discriminate; [reflexivity|].
        inversion J. f_equal. apply IHr. assumption. }
      subst rem'.
      assert (Hrcv' : rcv' = rcv ++ taken).
      { destruct HI' as [J1 _ _ _ _ _ _]. rewrite I1, R1, app_assoc in J1. apply app_inv_tail in J1. symmetry; exact J1. }
      subst rcv'. cbn [out_bytes] in HI'.
      exists (rcv ++ taken), rest. split; [exact HI'|]. split.
      * rewrite pending_acc_app, Hal. exact R6.
      * unfold measure. rewrite Hnil. cbn [length]. rewrite R1, app_length.
        assert (Hc : chunks_of (taken ++ rest) = data :: chunks_of rest).
        { unfold chunks_of. rewrite chunks_acc_app, R5, R6. reflexivity. }
        rewrite Hc. cbn [concat]. rewrite app_length.
        assert (Hsk : (length (skipn (a_idx a2) (a_buf a2)) <= length data)%nat).
        { rewrite S3. rewrite skipn_length. lia. }
        destruct taken; [congruence|]. cbn [length]. lia.
    + destruct R as [R1 [R2 R3]]. inversion H; subst o a'; clear H.
      split; [|exact Hnil]. rewrite Hnil, app_nil_r in *.
      rewrite I1, chunks_of_app_aligned by exact Hal. unfold chunks_of at 2. rewrite R2, app_nil_r. exact I5.
Qed.

Lemma drain_all : forall fuel ms a d rcv rem n, Inv ms a d rcv rem -> (0 < n)%N ->
  pending_acc rcv [] = [] -> (measure a rem < fuel)%nat ->
  d ++ fst (drain fuel a n) = concat (chunks_of ms).
Proof.
  induction fuel as [|f IH]; intros ms a d rcv rem n HI Hn Hal Hm; [lia|].
  cbn [drain]. destruct (asm_read a n) as [o a'] eqn:Hr.
  pose proof (asm_read_progress _ _ _ _ _ _ _ _ HI Hn Hal Hr) as P.
  destruct o as [b|].
  - destruct P as [rcv' [rem' [HI' [Hal' Hm']]]].
    specialize (IH ms a' (d ++ b) rcv' rem' n HI' Hn Hal' ltac:(lia)).
    destruct (drain f a' n) as [bs a'']. cbn [fst] in *. rewrite app_assoc. exact IH.
  - destruct P as [P1 P2]. cbn [fst]. rewrite P1, P2. reflexivity.
Qed.

(* reading with any positive buffer size until the first error returns exactly the
   concatenation of all complete chunks, for every message sequence *)
Theorem drain_complete : forall ms n fuel, (0 < n)%N ->
  (length ms + length (concat (chunks_of ms)) < fuel)%nat ->
  fst (drain fuel (asm_init (map Some ms)) n) = concat (chunks_of ms).
Proof.
  intros ms n fuel Hn Hf.
  apply (drain_all fuel ms (asm_init (map Some ms)) [] [] ms n (inv_init ms) Hn eq_refl).
  unfold measure. cbn [asm_init a_idx a_buf skipn length]. lia.
Qed.

(* end to end: chunks written by WriteChunk arrive as their concatenation *)
Theorem transport_concat : forall cs n fuel, (0 < n)%N ->
  (length cs + length (concat (map (fun hc => fst hc ++ snd hc) cs)) < fuel)%nat ->
  fst (drain fuel (asm_init (map Some (send_all cs))) n) = concat (map (fun hc => fst hc ++ snd hc) cs).
Proof.
  intros cs n fuel Hn Hf. rewrite <- chunks_of_send_all.
  apply drain_complete; [exact Hn|]. rewrite chunks_of_send_all. unfold send_all. rewrite map_length. exact Hf.
Qed.

(* ... and for every way of cutting each chunk into messages *)
Theorem transport_concat_split : forall cs n fuel, (0 < n)%N ->
  (length (send_split cs) + length (concat (map fst cs)) < fuel)%nat ->
  fst (drain fuel (asm_init (map Some (send_split cs))) n) = concat (map fst cs).
Proof.
  intros cs n fuel Hn Hf. destruct (chunks_of_send_split cs) as [H _]. rewrite <- H.
  apply drain_complete; [exact Hn|]. rewrite H. exact Hf.
Qed.

(* an empty chunk: Read returns (0, nil), the assembler moves on, nothing is lost *)
Theorem empty_chunk_read : forall r buf idx k sm sb n, (length buf <= idx)%nat ->
  asm_read (mkAsm (Some (mkMsg [] true) :: r) buf idx k sm sb) n =
  (Some [], mkAsm r [] 0 (S k) ((sm + 1) mod two64)%N ((sb + 0) mod two64)%N).
Proof.
  intros r buf idx k sm sb n H. unfold asm_read. cbn [a_idx a_buf a_src a_recv a_stat_msgs a_stat_bytes].
  destruct (Nat.ltb_spec idx (length buf)); [lia|].
  cbn [recv_chunk m_end m_bytes app]. unfold serve. cbn [a_idx a_buf skipn length N.of_nat firstn a_src a_recv a_stat_msgs a_stat_bytes].
  destruct (0 <=? n)%N; cbn [firstn length N.to_nat]; [reflexivity|].
  destruct (N.to_nat n); reflexivity.
Qed.

(* each Read hands out a piece of ONE chunk: never more than what is left of the buffered chunk *)
Theorem read_within_chunk : forall a n b a', asm_read a n = (Some b, a') ->
  exists pre post, a_buf a' = pre ++ b ++ post /\ (N.of_nat (length b) <= n)%N.
Proof.
  intros a n b a' H. unfold asm_read in H.
  assert (G : forall a0 out a1, serve a0 n = (out, a1) ->
     exists pre post, a_buf a1 = pre ++ out ++ post /\ (N.of_nat (length out) <= n)%N).
  { intros a0 out a1 Hs. destruct (serve_spec _ _ _ _ Hs) as [S1 [_ [S3 [_ [_ [_ [_ [S7 _]]]]]]]].
    exists (firstn (a_idx a0) (a_buf a0)), (skipn (a_idx a1) (a_buf a1)). rewrite S1, S3, firstn_skipn.
    split; [reflexivity|exact S7]. }
  destruct (a_idx a <? length (a_buf a)).
  - destruct (serve a n) as [out a1] eqn:Hs. inversion H; subst. eapply G; exact Hs.
  - destruct (recv_chunk (a_src a) [] (a_recv a)) as [[[data|] src'] k']; [|discriminate].
    match type of H with (let '(_, _) := serve ?x n in _) = _ => destruct (serve x n) as [out a1] eqn:Hs end.
    inversion H; subst. eapply G; exact Hs.
Qed.
