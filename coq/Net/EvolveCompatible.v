(* A legal append-only evolution is never refused by WireSchema.Compatible (as repaired):

     evolves_compatible   schema_closed old, evolves old new, root in range, build_ok old root
                          ->  compatible (own_counts new root) (own_counts old root) = true

   (nothing is asked of [new]: neither closedness nor that its own Init stays within the model's
   fuel) and with it [forward_read_bytes_closed] = EvolveFacts.forward_read_bytes without its
   [compatible] hypothesis.

   Why it holds although first-encounter order can shift (HandshakeFacts
   elementwise_order_is_not_necessary: [3;1;3;1] -> [3;2;1;3]).  Schema.build enters every type
   that is not on its stack, memoized or not; the memo only records the first encounters.  So the
   walk of [new] goes wherever the walk of [old] goes and further through the appended fields:
     - the set of structs memoized in [old] is a subset of the set memoized in [new]; neither
       list has duplicates                                                   (length old <= length new)
     - with equal lengths the two sets are equal, the two lists are permutations of each other,
       and every struct has at least as many fields in [new]; the sum does not depend on the
       order                                                                 (sum old <= sum new)
     - with equal sums as well no memoized struct has grown, so the walk of [new] IS the walk of
       [old]                                                                 (equal lists)
   which are exactly the three tests of [compatible], in its order.  No legal evolution with
   [compatible = false] exists: element-wise comparison happens only when order cannot differ.

   Plan: [bwo] = what build does to the memo when no override is given, [None] when the fuel runs
   out (build_bwo ties it to Schema.build and its error flag; used for [old]); WireOrderFacts.bw =
   the same without the fuel check (used for [new]).  bwo_ext / bw_ext: the walk only adds, no
   duplicates.  bwo_sim: the result of [old] is included in the result of [new].  bwo_agree: the
   walk of [new] returns the list of [old] when no struct in it has grown.

   Must come after Stream/EvolveFacts.v (and Idl/WireOrderFacts.v) in _CoqProject. *)
From Coq Require Import List Arith NArith ZArith Bool PArith Lia Permutation FMapPositive.
From Coq Require Import ZifyN ZifyNat ZifyBool.
From Stef Require Import Bits BitIO Varint Codecs Schema SchemaFacts Wire WireOk Apply Frame FrameFacts
     Reader Writer Limits StreamFactsBase StreamFacts Handshake HandshakeFacts EvolveFactsBase EvolveFacts.
From Stef.Idl Require Import WireSchema WireOrderFacts.
Import ListNotations.
Open Scope N_scope.

(* ------------------------------------------------------------------ the memo walk with fuel check *)
Fixpoint bwo (sc : schema) (fuel : nat) (stack : list reckey) (t : ftype) (V : list N) : option (list N) :=
  match fuel with
  | O => None
  | S f =>
    if on_stack stack (key_of t) then Some V
    else match t with
         | TPrim _ _ => Some V
         | TArray e => bwo sc f (key_of t :: stack) e V
         | TMultimap m =>
           match bwo sc f (KMap m :: stack) (m_key (get_mmap sc m)) V with
           | None => None
           | Some V1 => bwo sc f (KMap m :: stack) (m_val (get_mmap sc m)) V1
           end
         | TStruct s =>
           fold_left (fun (acc : option (list N)) (fl : field) =>
                        match acc with None => None | Some V => bwo sc f (KStruct s :: stack) (f_type fl) V end)
                     (s_fields (get_struct sc s)) (Some (if memN s V then V else s :: V))
         end
  end.

Definition ostep (sc : schema) (f : nat) (stk : list reckey) (acc : option (list N)) (fl : field) : option (list N) :=
  match acc with None => None | Some V => bwo sc f stk (f_type fl) V end.

Lemma bwo_S : forall sc f stack t V,
  bwo sc (S f) stack t V =
  if on_stack stack (key_of t) then Some V
  else match t with
       | TPrim _ _ => Some V
       | TArray e => bwo sc f (key_of t :: stack) e V
       | TMultimap m =>
         match bwo sc f (KMap m :: stack) (m_key (get_mmap sc m)) V with
         | None => None
         | Some V1 => bwo sc f (KMap m :: stack) (m_val (get_mmap sc m)) V1
         end
       | TStruct s =>
         fold_left (ostep sc f (KStruct s :: stack)) (s_fields (get_struct sc s)) (Some (if memN s V then V else s :: V))
       end.
Proof. reflexivity. Qed.

Lemma ofold_none : forall sc f stk flds, fold_left (ostep sc f stk) flds None = None.
Proof. induction flds as [|x flds IH]; cbn [fold_left ostep]; [reflexivity|exact IH]. Qed.

Lemma ofold_cons : forall sc f stk fl flds V V',
  fold_left (ostep sc f stk) (fl :: flds) (Some V) = Some V' ->
  exists V1, bwo sc f stk (f_type fl) V = Some V1 /\ fold_left (ostep sc f stk) flds (Some V1) = Some V'.
Proof.
  intros sc f stk fl flds V V' H. cbn [fold_left] in H. unfold ostep at 2 in H.
  destruct (bwo sc f stk (f_type fl) V) as [V1|]; [|rewrite ofold_none in H; discriminate].
  exists V1. split; [reflexivity|exact H].
Qed.

(* ------------------------------------------------------------------ bwo is the memo of build *)
Lemma fold_build_bwo : forall sc f stk,
  (forall stack t st V tr st', build sc f stack t st = (tr, st') -> i_over st = None ->
     i_memo st = enc sc V -> i_err st' = false ->
     exists V', bwo sc f stack t V = Some V' /\ i_memo st' = enc sc V' /\ i_over st' = None) ->
  forall flds acc st V fts st', fold_left (fstep sc f stk) flds (acc, st) = (fts, st') ->
    i_over st = None -> i_memo st = enc sc V -> i_err st' = false ->
    exists V', fold_left (ostep sc f stk) flds (Some V) = Some V' /\ i_memo st' = enc sc V' /\ i_over st' = None.
Proof.
  intros sc f stk IH. induction flds as [|x flds IHf]; intros acc st V fts st' Hfold Ho Hm He.
  - cbn [fold_left] in *. inversion Hfold; subst. exists V. auto.
  - cbn [fold_left] in Hfold. unfold fstep at 2 in Hfold.
    destruct (build sc f stk (f_type x) st) as [ft st1] eqn:Hb.
    pose proof (err_false_before_fold _ _ _ _ _ _ Hfold He) as He1. cbn [snd] in He1.
    destruct (IH _ _ _ _ _ _ Hb Ho Hm He1) as [V1 [Hw1 [Hm1 Ho1]]].
    destruct (IHf _ _ _ _ _ Hfold Ho1 Hm1 He) as [V2 [Hw2 [Hm2 Ho2]]].
    exists V2. split; [|auto]. cbn [fold_left]. unfold ostep at 2. rewrite Hw1. exact Hw2.
Qed.

Lemma build_bwo : forall sc f stack t st V tr st',
  build sc f stack t st = (tr, st') -> i_over st = None -> i_memo st = enc sc V -> i_err st' = false ->
  exists V', bwo sc f stack t V = Some V' /\ i_memo st' = enc sc V' /\ i_over st' = None.
Proof.
  intros sc. induction f as [|f IH]; intros stack t st V tr st' Hb Ho Hm He.
  - cbn in Hb. inversion Hb; subst. cbn in He. discriminate.
  - rewrite build_S in Hb. rewrite bwo_S.
    destruct (on_stack stack (key_of t)) eqn:Hst.
    + inversion Hb; subst. exists V. auto.
    + destruct (fresh_col st) as [col st1] eqn:Hfc.
      assert (Ho1 : i_over st1 = None) by (unfold fresh_col in Hfc; inversion Hfc; subst; exact Ho).
      assert (Hm1 : i_memo st1 = enc sc V) by (unfold fresh_col in Hfc; inversion Hfc; subst; exact Hm).
      destruct t as [p d|e|s|m].
      * inversion Hb; subst. exists V. auto.
      * destruct (build sc f (key_of (TArray e) :: stack) e st1) as [et st2] eqn:Hbe.
        inversion Hb; subst. exact (IH _ _ _ _ _ _ Hbe Ho1 Hm1 He).
      * cbv zeta in Hb.
        set (own := N.of_nat (length (s_fields (get_struct sc s)))) in *.
        destruct (field_count st1 s own) as [fc st2] eqn:Hfcnt.
        destruct (fold_left (fstep sc f (KStruct s :: stack)) (firstn (N.to_nat fc) (s_fields (get_struct sc s)))
                            ([], if own <? fc then set_err st2 else st2)) as [fts st4] eqn:Hfold.
        inversion Hb; subst; clear Hb.
        assert (Hfc2 : fc = own /\ i_over st2 = None /\ i_memo st2 = enc sc (if memN s V then V else s :: V)).
        { unfold field_count in Hfcnt. rewrite Hm1, memo_find_enc in Hfcnt. destruct (memN s V).
          - inversion Hfcnt; subst. auto.
          - rewrite Ho1 in Hfcnt. inversion Hfcnt; subst. cbn. auto. }
        destruct Hfc2 as [Efc [Ho2 Hm2]]. subst fc. rewrite N.ltb_irrefl in Hfold.
        assert (Hfirst : firstn (N.to_nat own) (s_fields (get_struct sc s)) = s_fields (get_struct sc s)).
        { unfold own. rewrite Nnat.Nat2N.id. apply firstn_all. }
        rewrite Hfirst in Hfold.
        exact (fold_build_bwo sc f _ IH _ _ _ _ _ _ Hfold Ho2 Hm2 He).
      * cbv zeta in Hb.
        destruct (build sc f (KMap m :: stack) (m_key (get_mmap sc m)) st1) as [kt st2] eqn:Hbk.
        destruct (build sc f (KMap m :: stack) (m_val (get_mmap sc m)) st2) as [vt st3] eqn:Hbv.
        injection Hb as E1 E2. subst tr st'.
        pose proof (err_false_before_build _ _ _ _ _ _ _ Hbv He) as He2.
        destruct (IH _ _ _ _ _ _ Hbk Ho1 Hm1 He2) as [V1 [Hw1 [Hm2 Ho2]]].
        destruct (IH _ _ _ _ _ _ Hbv Ho2 Hm2 He) as [V2 [Hw2 [Hm3 Ho3]]].
        exists V2. rewrite Hw1. auto.
Qed.

Definition root_fuel (sc : schema) : nat := S (S (length (structs sc) + length (multimaps sc))) * 3.

Lemma map_snd_enc : forall sc V, map snd (enc sc V) = map (cnt sc) V.
Proof. intros sc V. unfold enc. rewrite map_map. reflexivity. Qed.

(* the generated code initialises: its wire schema is the count of every struct of the walk *)
Lemma root_bwo : forall sc root, build_ok sc root = true ->
  exists V, bwo sc (root_fuel sc) [] (TStruct root) [] = Some V /\ own_counts sc root = map (cnt sc) (rev V).
Proof.
  intros sc root Hok. unfold build_ok in Hok. apply negb_true_iff in Hok.
  rewrite own_counts_memo. unfold build_root in *. fold (root_fuel sc) in *.
  destruct (build sc (root_fuel sc) [] (TStruct root) (mkIst 1%positive None [] false)) as [tr st'] eqn:Hb.
  cbn [snd] in *.
  destruct (build_bwo sc _ _ _ _ [] _ _ Hb eq_refl eq_refl Hok) as [V [Hw [Hm _]]].
  exists V. split; [exact Hw|]. rewrite Hm, map_snd_enc, map_rev. reflexivity.
Qed.

(* ------------------------------------------------------------------ the walk only adds, once *)
Definition ext (V V' : list N) : Prop := incl V V' /\ (NoDup V -> NoDup V').

Lemma ext_refl : forall V, ext V V.
Proof. intros V. split; [apply incl_refl|auto]. Qed.

Lemma ext_trans : forall a b c, ext a b -> ext b c -> ext a c.
Proof. intros a b c [H1 H2] [H3 H4]. split; [eapply incl_tran; eassumption|auto]. Qed.

Lemma ofold_ext : forall sc f stk,
  (forall t V V', bwo sc f stk t V = Some V' -> ext V V') ->
  forall flds V V', fold_left (ostep sc f stk) flds (Some V) = Some V' -> ext V V'.
Proof.
  intros sc f stk IH. induction flds as [|x flds IHf]; intros V V' H.
  - cbn in H. inversion H; subst. apply ext_refl.
  - destruct (ofold_cons _ _ _ _ _ _ _ H) as [V1 [H1 H2]].
    eapply ext_trans; [eapply IH; exact H1|apply IHf; exact H2].
Qed.

Lemma bwo_ext : forall sc f stack t V V', bwo sc f stack t V = Some V' -> ext V V'.
Proof.
  intros sc. induction f as [|f IH]; intros stack t V V' H; [discriminate|].
  rewrite bwo_S in H. destruct (on_stack stack (key_of t)); [inversion H; subst; apply ext_refl|].
  destruct t as [p d|e|s|m].
  - inversion H; subst. apply ext_refl.
  - eapply IH; exact H.
  - eapply ext_trans; [|eapply ofold_ext; [intros; eapply IH; eassumption|exact H]].
    destruct (memN s V) eqn:Em; [apply ext_refl|]. split; [apply incl_tl, incl_refl|].
    intros Hnd. constructor; [|exact Hnd]. intros Hin. apply memN_in in Hin. congruence.
  - destruct (bwo sc f (KMap m :: stack) (m_key (get_mmap sc m)) V) as [V1|] eqn:E1; [|discriminate].
    eapply ext_trans; eapply IH; eassumption.
Qed.

Lemma ofold_ext' : forall sc f stk flds V V', fold_left (ostep sc f stk) flds (Some V) = Some V' -> ext V V'.
Proof. intros sc f stk. apply ofold_ext. intros. eapply bwo_ext; eassumption. Qed.

(* ------------------------------------------------------------------ the same for the total walk *)
(* WireOrderFacts.bw: the memo of build whether or not the fuel suffices *)
Definition bstep (sc : schema) (f : nat) (stk : list reckey) (V : list N) (fl : field) : list N :=
  bw sc f stk (f_type fl) V.

Lemma bw_S : forall sc f stack t V,
  bw sc (S f) stack t V =
  if on_stack stack (key_of t) then V
  else match t with
       | TPrim _ _ => V
       | TArray e => bw sc f (key_of t :: stack) e V
       | TMultimap m =>
         bw sc f (KMap m :: stack) (m_val (get_mmap sc m)) (bw sc f (KMap m :: stack) (m_key (get_mmap sc m)) V)
       | TStruct s =>
         fold_left (bstep sc f (KStruct s :: stack)) (s_fields (get_struct sc s)) (if memN s V then V else s :: V)
       end.
Proof. reflexivity. Qed.

Lemma ext_add : forall s V, ext V (if memN s V then V else s :: V).
Proof.
  intros s V. destruct (memN s V) eqn:Em; [apply ext_refl|]. split; [apply incl_tl, incl_refl|].
  intros Hnd. constructor; [|exact Hnd]. intros Hin. apply memN_in in Hin. congruence.
Qed.

Lemma in_add : forall s V, In s (if memN s V then V else s :: V).
Proof. intros s V. destruct (memN s V) eqn:Em; [apply memN_in; exact Em|left; reflexivity]. Qed.

Lemma incl_add : forall s V Vn, incl V Vn -> incl (if memN s V then V else s :: V) (if memN s Vn then Vn else s :: Vn).
Proof.
  intros s V Vn H x Hx.
  assert (Hc : x = s \/ In x V) by (destruct (memN s V); [right; exact Hx|destruct Hx as [E|Hx]; [left; symmetry; exact E|right; exact Hx]]).
  destruct Hc as [->|Hc]; [apply in_add|]. apply (proj1 (ext_add s Vn)). apply H. exact Hc.
Qed.

Lemma bfold_ext : forall sc f stk, (forall t V, ext V (bw sc f stk t V)) ->
  forall flds V, ext V (fold_left (bstep sc f stk) flds V).
Proof.
  intros sc f stk IH. induction flds as [|x flds IHf]; intros V; cbn [fold_left]; [apply ext_refl|].
  eapply ext_trans; [|apply IHf]. unfold bstep. apply IH.
Qed.

Lemma bw_ext : forall sc f stack t V, ext V (bw sc f stack t V).
Proof.
  intros sc. induction f as [|f IH]; intros stack t V; [apply ext_refl|].
  rewrite bw_S. destruct (on_stack stack (key_of t)); [apply ext_refl|].
  destruct t as [p d|e|s|m].
  - apply ext_refl.
  - apply IH.
  - eapply ext_trans; [apply ext_add|]. apply bfold_ext. intros; apply IH.
  - eapply ext_trans; apply IH.
Qed.

(* ------------------------------------------------------------------ old against new *)
Section Evolution.
  Variables old new : schema.
  Hypothesis Hclosed : schema_closed old = true.
  Hypothesis Hev : evolves old new = true.
  Let ns := N.of_nat (length (structs old)).
  Let nm := N.of_nat (length (multimaps old)).

  Lemma cnt_le : forall s, cnt old s <= cnt new s.
  Proof.
    intros s. unfold cnt. destruct (N.lt_ge_cases s ns) as [Hs|Hs].
    - destruct (ev_struct old new Hclosed Hev s Hs) as [_ [_ [extra E]]]. rewrite E, app_length. lia.
    - unfold get_struct at 1. rewrite nth_overflow by (unfold ns in Hs; lia). cbn. lia.
  Qed.

  Lemma cnt_eq_fields : forall s, s < ns -> cnt old s = cnt new s ->
    s_fields (get_struct new s) = s_fields (get_struct old s).
  Proof.
    intros s Hs E. destruct (ev_struct old new Hclosed Hev s Hs) as [_ [_ [extra Ef]]].
    unfold cnt in E. rewrite Ef, app_length in E.
    destruct extra as [|x extra]; [rewrite Ef; apply app_nil_r|cbn [length] in E; lia].
  Qed.

  (* build enters every type that is not on its stack, memoized or not: the walk of [new] goes
     wherever the walk of [old] goes (same stack, at least as much fuel), and further through
     the appended fields.  So it memoizes at least the structs [old] memoizes - even when the
     fuel of [new] runs out somewhere in the appended part. *)
  Lemma fold_sim : forall f f' stk,
    (forall t V V' Vn, bwo old f stk t V = Some V' -> ftype_in ns nm t = true -> incl V Vn ->
       incl V' (bw new f' stk t Vn)) ->
    forall flds V V' Vn, fold_left (ostep old f stk) flds (Some V) = Some V' ->
      (forall fl, In fl flds -> ftype_in ns nm (f_type fl) = true) -> incl V Vn ->
      incl V' (fold_left (bstep new f' stk) flds Vn).
  Proof.
    intros f f' stk IH. induction flds as [|x flds IHf]; intros V V' Vn H Hcl HV.
    - cbn in H. inversion H; subst. exact HV.
    - destruct (ofold_cons _ _ _ _ _ _ _ H) as [V1 [H1 H2]]. cbn [fold_left].
      apply (IHf V1 V' _ H2); [intros fl Hfl; apply Hcl; right; exact Hfl|].
      unfold bstep. apply (IH _ _ _ _ H1); [apply Hcl; left; reflexivity|exact HV].
  Qed.

  Lemma bwo_sim : forall f S t V V', bwo old f S t V = Some V' -> ftype_in ns nm t = true ->
    forall f' Vn, (f <= f')%nat -> incl V Vn -> incl V' (bw new f' S t Vn).
  Proof.
    induction f as [|f IH]; intros S t V V' H Hin f' Vn Hle HV; [discriminate|].
    destruct f' as [|f']; [lia|]. assert (Hle' : (f <= f')%nat) by lia.
    rewrite bwo_S in H. rewrite bw_S. destruct (on_stack S (key_of t)); [inversion H; subst; exact HV|].
    destruct t as [p d|e|s|m].
    - inversion H; subst. exact HV.
    - apply (IH _ _ _ _ H Hin f' Vn Hle' HV).
    - cbn [ftype_in] in Hin. apply N.ltb_lt in Hin. fold ns in Hin.
      destruct (ev_struct old new Hclosed Hev s Hin) as [_ [_ [extra Ef]]].
      rewrite Ef, fold_left_app.
      eapply incl_tran; [|exact (proj1 (bfold_ext new f' _ (fun t V => bw_ext new f' _ t V) extra _))].
      apply (fold_sim f f' _ (fun t V V' Vn Hb Ht Hi => IH _ t V V' Hb Ht f' Vn Hle' Hi) _ _ _ _ H).
      + intros fl Hfl. exact (closed_struct old new Hclosed Hev s Hin fl Hfl).
      + apply incl_add. exact HV.
    - cbn [ftype_in] in Hin. apply N.ltb_lt in Hin. fold nm in Hin.
      rewrite (ev_mmap old new Hclosed Hev m Hin).
      destruct (closed_mmap old new Hclosed Hev m Hin) as [Ck Cv].
      destruct (bwo old f (KMap m :: S) (m_key (get_mmap old m)) V) as [V1|] eqn:E1; [|discriminate].
      apply (IH _ _ _ _ H Cv f' _ Hle'). apply (IH _ _ _ _ E1 Ck f' _ Hle' HV).
  Qed.

  (* when no struct of the result has grown, [new] walks exactly as [old] does (and the fuel of
     [old] sufficed, so more fuel changes nothing) *)
  Section Agree.
    Variable W : list N.
    Hypothesis HW : forall s, In s W -> s < ns -> s_fields (get_struct new s) = s_fields (get_struct old s).

    Lemma fold_agree : forall f f' stk,
      (forall t V V', ftype_in ns nm t = true -> bwo old f stk t V = Some V' -> incl V' W ->
         bw new f' stk t V = V') ->
      forall flds V V', (forall fl, In fl flds -> ftype_in ns nm (f_type fl) = true) ->
        fold_left (ostep old f stk) flds (Some V) = Some V' -> incl V' W ->
        fold_left (bstep new f' stk) flds V = V'.
    Proof.
      intros f f' stk IH. induction flds as [|x flds IHf]; intros V V' Hcl H HV.
      - cbn in H. inversion H; subst. reflexivity.
      - destruct (ofold_cons _ _ _ _ _ _ _ H) as [V1 [H1 H2]]. cbn [fold_left]. unfold bstep at 2.
        rewrite (IH _ _ _ (Hcl x (or_introl eq_refl)) H1).
        + apply IHf; [intros fl Hfl; apply Hcl; right; exact Hfl|exact H2|exact HV].
        + eapply incl_tran; [exact (proj1 (ofold_ext' _ _ _ _ _ _ H2))|exact HV].
    Qed.

    Lemma bwo_agree : forall f S t V V', ftype_in ns nm t = true -> bwo old f S t V = Some V' ->
      incl V' W -> forall f', (f <= f')%nat -> bw new f' S t V = V'.
    Proof.
      induction f as [|f IH]; intros S t V V' Hin H HV f' Hle; [discriminate|].
      destruct f' as [|f']; [lia|]. assert (Hle' : (f <= f')%nat) by lia.
      rewrite bwo_S in H. rewrite bw_S. destruct (on_stack S (key_of t)); [inversion H; reflexivity|].
      destruct t as [p d|e|s|m].
      - inversion H; reflexivity.
      - cbn [ftype_in] in Hin. apply (IH _ _ _ _ Hin H HV f' Hle').
      - cbn [ftype_in] in Hin. apply N.ltb_lt in Hin. fold ns in Hin.
        assert (Hs : In s V') by (apply (proj1 (ofold_ext' _ _ _ _ _ _ H)); apply in_add).
        rewrite (HW s (HV s Hs) Hin).
        apply (fold_agree f f' _ (fun t V V' Ht Hb Hi => IH _ t V V' Ht Hb Hi f' Hle')); [|exact H|exact HV].
        intros fl Hfl. exact (closed_struct old new Hclosed Hev s Hin fl Hfl).
      - cbn [ftype_in] in Hin. apply N.ltb_lt in Hin. fold nm in Hin.
        rewrite (ev_mmap old new Hclosed Hev m Hin).
        destruct (closed_mmap old new Hclosed Hev m Hin) as [Ck Cv].
        destruct (bwo old f (KMap m :: S) (m_key (get_mmap old m)) V) as [V1|] eqn:E1; [|discriminate].
        assert (HV1 : incl V1 W).
        { eapply incl_tran; [exact (proj1 (bwo_ext _ _ _ _ _ _ H))|exact HV]. }
        rewrite (IH _ _ _ _ Ck E1 HV1 f' Hle'). apply (IH _ _ _ _ Cv H HV f' Hle').
    Qed.
  End Agree.
End Evolution.

(* ------------------------------------------------------------------ sums of counts *)
Lemma fold_add_acc : forall l a, fold_left N.add l a = a + fold_left N.add l 0.
Proof.
  induction l as [|x l IH]; intros a; cbn [fold_left]; [lia|].
  rewrite (IH (a + x)), (IH (0 + x)). lia.
Qed.

Lemma sum_counts_cons : forall x l, sum_counts (x :: l) = x + sum_counts l.
Proof. intros x l. unfold sum_counts. cbn [fold_left]. rewrite fold_add_acc. lia. Qed.

Lemma sum_counts_perm : forall a b, Permutation a b -> sum_counts a = sum_counts b.
Proof.
  induction 1; [reflexivity| | |congruence].
  - rewrite !sum_counts_cons. lia.
  - rewrite !sum_counts_cons. lia.
Qed.

Lemma sum_map_le : forall (g h : N -> N) l, (forall s, In s l -> g s <= h s) ->
  sum_counts (map g l) <= sum_counts (map h l).
Proof.
  intros g h. induction l as [|x l IH]; intros H; [cbn; lia|].
  cbn [map]. rewrite !sum_counts_cons.
  pose proof (H x (or_introl eq_refl)). pose proof (IH (fun s Hs => H s (or_intror Hs))). lia.
Qed.

Lemma sum_map_eq_pointwise : forall (g h : N -> N) l, (forall s, In s l -> g s <= h s) ->
  sum_counts (map g l) = sum_counts (map h l) -> forall s, In s l -> g s = h s.
Proof.
  intros g h. induction l as [|x l IH]; intros H E s Hs; [destruct Hs|].
  cbn [map] in E. rewrite !sum_counts_cons in E.
  pose proof (H x (or_introl eq_refl)) as Hx.
  pose proof (sum_map_le g h l (fun s Hs => H s (or_intror Hs))) as Hl.
  destruct Hs as [<-|Hs]; [lia|]. apply IH; [intros s' Hs'; apply H; right; exact Hs'|lia|exact Hs].
Qed.

(* ------------------------------------------------------------------ the theorem *)
Theorem evolves_compatible : forall old new root,
  schema_closed old = true -> evolves old new = true ->
  root < N.of_nat (length (structs old)) -> build_ok old root = true ->
  compatible (own_counts new root) (own_counts old root) = true.
Proof.
  intros old new root Hc He Hr Hoko.
  destruct (root_bwo old root Hoko) as [Vo [Hwo Eo]].
  set (Vn := bw new (root_fuel new) [] (TStruct root) []).
  assert (En : own_counts new root = map (cnt new) (rev Vn)) by apply own_counts_bw.
  assert (Hndo : NoDup Vo) by (apply (proj2 (bwo_ext _ _ _ _ _ _ Hwo)); constructor).
  assert (Hndn : NoDup Vn) by (apply (proj2 (bw_ext new (root_fuel new) [] (TStruct root) [])); constructor).
  assert (Hin : ftype_in (N.of_nat (length (structs old))) (N.of_nat (length (multimaps old))) (TStruct root) = true)
    by (cbn [ftype_in]; apply N.ltb_lt; exact Hr).
  (* the structs reached in [old] are reached in [new] *)
  assert (Hsub : incl Vo Vn).
  { apply (bwo_sim old new Hc He _ _ _ _ _ Hwo Hin); [exact (root_fuel_mono old new He)|apply incl_refl]. }
  pose proof (NoDup_incl_length Hndo Hsub) as Hlen.
  unfold compatible. rewrite Eo, En, !map_length, !rev_length.
  destruct (Nat.ltb_spec (length Vo) (length Vn)) as [_|Hge]; [reflexivity|].
  destruct (Nat.ltb_spec (length Vn) (length Vo)) as [Hbad|_]; [lia|].
  (* equal lengths: the same set *)
  assert (Hsup : incl Vn Vo) by (apply (NoDup_length_incl Hndo); [lia|exact Hsub]).
  assert (Hperm : Permutation Vo Vn).
  { apply NoDup_Permutation; [exact Hndo|exact Hndn|]. intros x. split; [apply Hsub|apply Hsup]. }
  assert (Hsn : sum_counts (map (cnt new) (rev Vn)) = sum_counts (map (cnt new) Vo)).
  { apply sum_counts_perm. apply Permutation_map. rewrite <- Hperm. symmetry. apply Permutation_rev. }
  assert (Hso : sum_counts (map (cnt old) (rev Vo)) = sum_counts (map (cnt old) Vo)).
  { apply sum_counts_perm. apply Permutation_map. symmetry. apply Permutation_rev. }
  assert (Hle : forall s, In s Vo -> cnt old s <= cnt new s) by (intros s _; apply (cnt_le old new Hc He)).
  pose proof (sum_map_le _ _ Vo Hle) as Hsum.
  rewrite Hsn, Hso.
  destruct (N.ltb_spec (sum_counts (map (cnt old) Vo)) (sum_counts (map (cnt new) Vo))) as [_|Hge2]; [reflexivity|].
  destruct (N.ltb_spec (sum_counts (map (cnt new) Vo)) (sum_counts (map (cnt old) Vo))) as [Hbad|_]; [lia|].
  (* equal sums: nothing reached has grown, the walks coincide *)
  assert (Heq : forall s, In s Vo -> cnt old s = cnt new s).
  { apply sum_map_eq_pointwise; [exact Hle|lia]. }
  assert (Hsame : Vn = Vo).
  { apply (bwo_agree old new Hc He Vo) with (f := root_fuel old); [|exact Hin|exact Hwo|apply incl_refl|exact (root_fuel_mono old new He)].
    intros s Hs Hlt. apply (cnt_eq_fields old new Hc He s Hlt). apply Heq. exact Hs. }
  rewrite Hsame.
  apply counts_eqb_eq. apply map_ext_in. intros s Hs. symmetry. apply Heq. apply in_rev. exact Hs.
Qed.
Print Assumptions evolves_compatible.

(* the verdict of the current WireSchema.Compatible on a legal evolution is never "incompatible" *)
Corollary evolves_not_incompat : forall old new root,
  schema_closed old = true -> evolves old new = true ->
  root < N.of_nat (length (structs old)) ->
  build_ok old root = true ->
  is_incompat (compat3 VCurrent (own_counts new root) (own_counts old root)) = false.
Proof.
  intros old new root Hc He Hr Hoko.
  pose proof (evolves_compatible old new root Hc He Hr Hoko) as H.
  rewrite compatible_is_current in H. apply negb_true_iff in H. exact H.
Qed.
Print Assumptions evolves_not_incompat.

(* ------------------------------------------------------------------ forward compatibility, closed *)
(* EvolveFacts.forward_read_bytes without the [compatible] hypothesis: a reader generated from
   [new] decodes every uncompressed stream of a writer generated from any append-only ancestor *)
Theorem forward_read_bytes_closed : forall old new root sizes fuel hfl ud frames kr k,
  schema_closed old = true -> evolves old new = true ->
  root < N.of_nat (length (structs old)) -> build_ok old root = true ->
  let t := fst (build_root old root None) in
  let d := Some (own_counts old root) in
  header_okb hfl d ud = true ->
  stream_ok sizes fuel t frames wst0 RNil (PM.empty _) = true ->
  (length frames < kr)%nat -> (length (concat (map snd frames)) < k)%nat ->
  exists r0,
    reader_open new root (SrcBytes (emit_frame hfl (header_content d ud) ++ emit_all (stream_encode t wst0 frames))) = inr r0 /\
    rd_tree r0 = t /\ rd_wire_schema r0 = d /\ rd_user_data r0 = ud /\
    read_all sizes fuel kr k r0 =
    (concat (map snd frames), stream_values t frames RNil (PM.empty _), Some RdEnd).
Proof.
  intros old new root sizes fuel hfl ud frames kr k Hc He Hr Hoko.
  exact (forward_read_bytes old new root sizes fuel hfl ud frames kr k Hc He Hr Hoko
           (evolves_compatible old new root Hc He Hr Hoko)).
Qed.
Print Assumptions forward_read_bytes_closed.

(* ------------------------------------------------------------------ instances *)
Example ev_compatible : compatible (own_counts ev_new 0) (own_counts ev_old 0) = true.
Proof.
  apply evolves_compatible; vm_compute; reflexivity.
Qed.

(* the order-shifting evolution of HandshakeFacts: [3;1;3;1] -> [3;2;1;3], accepted on the sums *)
Example shift_compatible :
  own_counts shift_old 0 = [3; 1; 3; 1] /\ own_counts shift_new 0 = [3; 2; 1; 3] /\
  compatible (own_counts shift_new 0) (own_counts shift_old 0) = true.
Proof.
  split; [vm_compute; reflexivity|]. split; [vm_compute; reflexivity|].
  apply evolves_compatible; vm_compute; reflexivity.
Qed.

Example ev_forward_closed : exists r0,
  reader_open ev_new 0 ev_src = inr r0 /\
  rd_tree r0 = ev_t /\ rd_wire_schema r0 = Some [1] /\ rd_user_data r0 = ev_ud /\
  read_all ev_sizes 10 3 3 r0 =
  ([WStruct 1 0 [Some (WU64 5)]; WStruct 1 0 [Some (WU64 9)]],
   [RStruct 1 0 [RU64 5]; RStruct 1 0 [RU64 9]], Some RdEnd).
Proof.
  assert (H1 : schema_closed ev_old = true) by (vm_compute; reflexivity).
  assert (H2 : evolves ev_old ev_new = true) by (vm_compute; reflexivity).
  assert (H3 : 0 < N.of_nat (length (structs ev_old))) by (vm_compute; reflexivity).
  assert (H4 : build_ok ev_old 0 = true) by (vm_compute; reflexivity).
  assert (H6 : header_okb 0 ev_d ev_ud = true) by (vm_compute; reflexivity).
  assert (H7 : stream_ok ev_sizes 10 ev_t ev_frames wst0 RNil (PM.empty _) = true) by (vm_compute; reflexivity).
  destruct (forward_read_bytes_closed ev_old ev_new 0 ev_sizes 10 0 ev_ud ev_frames 3 3 H1 H2 H3 H4 H6 H7)
    as (r0 & R1 & R2 & R3 & R4 & R5); [cbn; lia|cbn; lia|].
  exists r0. split; [exact R1|]. split; [exact R2|]. split; [exact R3|]. split; [exact R4|].
  rewrite R5. vm_compute. reflexivity.
Qed.
