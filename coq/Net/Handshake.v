(* The STEF/gRPC handshake (go/grpc/client.go Connect, go/grpc/server.go Stream) and the two
   re-checks that follow it: the generated New<Root>Writer (writer.go.tmpl) and the server's
   generated reader (basereader.go ReadVarHeader + reader.go.tmpl initSchema/Init).

   Wire schemas are lists of struct field counts (schema.WireSchema.structCounts).  Everything
   here is a decision procedure: which options Connect returns, whether the writer is created,
   which descriptor it puts on the wire, whether the server's reader opens the stream and with
   which decoder tree.  The record codec itself is Stream/{Wire,Reader,Writer}.v: encoder and
   decoder are functions of the tree, so "same tree on both sides" is the interface to C01/C04.

   Two versions of WireSchema.Compatible are modelled (like cfg_pinned/cfg_current of
   Net/Responder.v): VPinned is the code as found (lengths, then SUMS of the counts), VCurrent
   is the code after the repair of defect D9b (equal sums are "exact" only if the lists are equal,
   otherwise incompatible). *)
From Coq Require Import List Arith NArith Bool PArith.
From Stef Require Import Schema Frame Reader Limits.
Import ListNotations.
Open Scope N_scope.

Inductive version := VPinned | VCurrent.

(* schema.Compatibility *)
Inductive compat := CExact | CSuperset | CIncompat.

Definition is_incompat (c : compat) : bool := match c with CIncompat => true | _ => false end.

(* counts_eqb: element-wise equality of two count lists, from Stream/Reader.v *)

(* (w *WireSchema) Compatible(oldSchema): verdict; the error is non-nil exactly for CIncompat.
   uint arithmetic: the sums are taken in N (no wrap-around; field counts of generated schemas
   are tiny, Deserialize caps the number of structs at 1024) *)
Definition compat3 (v : version) (w old : list N) : compat :=
  if (length old <? length w)%nat then CSuperset
  else if (length w <? length old)%nat then CIncompat
  else
    let nt := sum_counts w in
    let ot := sum_counts old in
    if ot <? nt then CSuperset
    else if nt <? ot then CIncompat
    else match v with
         | VPinned => CExact
         | VCurrent => if counts_eqb w old then CExact else CIncompat
         end.

(* pkg.WriterOptions as far as Connect touches them *)
Record wopts := mkWopts { o_schema : option (list N);    (* Schema *)
                          o_descr : bool;                (* IncludeDescriptor *)
                          o_maxdict : N }.               (* MaxTotalDictSize; 0 = unset *)

(* server.go Stream: the capabilities message always carries DictionaryLimits{MaxDictBytes}
   and the serialised server schema.  client.go Connect: the four-way case. *)
Definition connect (v : version) (cs ss : list N) (max_dict_bytes : N) : option wopts :=
  match compat3 v ss cs with
  | CExact => Some (mkWopts None false max_dict_bytes)
  | CSuperset => Some (mkWopts (Some cs) true max_dict_bytes)
  | CIncompat =>
    match compat3 v cs ss with
    | CIncompat => None
    | CSuperset => Some (mkWopts (Some cs) true max_dict_bytes)   (* "downgrade": puts the CLIENT schema *)
    | CExact => Some (mkWopts None false max_dict_bytes)
    end
  end.

(* what the code comments and the property ask of the client-superset branch: the writer is told
   to write the SERVER's schema.  Not the code; used to state what the repair would give. *)
Definition connect_intended (v : version) (cs ss : list N) (max_dict_bytes : N) : option wopts :=
  match compat3 v ss cs with
  | CExact => Some (mkWopts None false max_dict_bytes)
  | CSuperset => Some (mkWopts (Some cs) true max_dict_bytes)
  | CIncompat =>
    match compat3 v cs ss with
    | CIncompat => None
    | CSuperset => Some (mkWopts (Some ss) true max_dict_bytes)
    | CExact => Some (mkWopts None false max_dict_bytes)
    end
  end.

(* pkg.DefaultMaxTotalDictSize = 4 << 20 (compared with the source by tools/check_grpc.py) *)
Definition default_max_total_dict_size : N := 4194304.

(* New<Root>Writer: "if writer.opts.MaxTotalDictSize == 0 { = DefaultMaxTotalDictSize }" *)
Definition writer_dict_limit (o : wopts) : N :=
  if o_maxdict o =? 0 then default_max_total_dict_size else o_maxdict o.

(* the limiter configuration (Stream/Limits.v) of a writer created with these options *)
Definition writer_lcfg (o : wopts) (frame_limit : N) (flag_dicts : bool) : lcfg :=
  mkCfg frame_limit (writer_dict_limit o) flag_dicts.

Section Endpoints.
  Variable v : version.
  Variable sc : schema.
  Variable root : N.

  (* WireSchemaIter ran out: NextFieldCount returned an error during encoder Init.  Every struct
     fetched for the first time makes one memo entry, with or without a count left to take. *)
  Definition exhausted (over : list N) (ist : istate) : bool :=
    (length over <? length (i_memo ist))%nat.

  (* New<Root>Writer: the re-check of opts.Schema against the generated code's own schema, Init
     of the encoders with the override iterator, AllFetched.  A writer does NOT refuse an
     override count above its own (keepFieldMask keeps all), so i_err is not consulted.
     Result: encoder tree and the schema descriptor written into the var header. *)
  Definition new_writer (o : wopts) : option (etree * option (list N)) :=
    match o_schema o with
    | Some over =>
      if is_incompat (compat3 v (own_counts sc root) over) then None
      else
        let '(t, ist) := build_root sc root (Some over) in
        if exhausted over ist || negb (all_fetched ist) then None
        else Some (t, Some over)
    | None =>
      let '(t, ist) := build_root sc root None in
      Some (t, if o_descr o then Some (own_counts sc root) else None)
    end.

  (* the server's New<Root>Reader on the stream: ReadVarHeader (Compatible when a descriptor is
     present) and decoder Init (ErrTooManyFieldsToDecode, iterator exhausted, AllFetched).
     With VCurrent this is Reader.reader_open after the header was parsed (HandshakeFacts). *)
  Definition server_open (descr : option (list N)) : option etree :=
    match descr with
    | None =>
      let '(t, ist) := build_root sc root None in
      if i_err ist || negb (all_fetched ist) then None else Some t
    | Some d =>
      if is_incompat (compat3 v (own_counts sc root) d) then None
      else
        let '(t, ist) := build_root sc root (Some d) in
        if i_err ist || negb (all_fetched ist) then None else Some t
    end.

  (* the generated code initialises on its own schema (the model's fuel suffices) *)
  Definition build_ok : bool := negb (i_err (snd (build_root sc root None))).
End Endpoints.

(* the whole exchange for a client (scc, rc) and a server (scs, rs) *)
Inductive outcome :=
| OConnectRefused                               (* Connect returns an error *)
| OWriterRefused (o : wopts)                    (* New<Root>Writer returns an error *)
| OServerRefused (o : wopts) (descr : option (list N))   (* the server's reader refuses the stream *)
| OStream (o : wopts) (descr : option (list N)) (same_layout : bool).  (* data flows *)

Fixpoint etree_eqb (fuel : nat) (a b : etree) : bool :=
  match fuel with
  | O => false
  | S f =>
    match a, b with
    | EPrim c p d, EPrim c' p' d' =>
      Pos.eqb c c' && match p, p' with
                      | PBool, PBool | PInt64, PInt64 | PUint64, PUint64
                      | PFloat64, PFloat64 | PString, PString | PBytes, PBytes => true
                      | _, _ => false
                      end
      && match d, d' with None, None => true | Some x, Some y => x =? y | _, _ => false end
    | EStruct c s o d fc os fs, EStruct c' s' o' d' fc' os' fs' =>
      Pos.eqb c c' && (s =? s') && Bool.eqb o o'
      && match d, d' with None, None => true | Some x, Some y => x =? y | _, _ => false end
      && (fc =? fc')
      && (fix beq (x y : list bool) := match x, y with
                                       | [], [] => true
                                       | p :: x', q :: y' => Bool.eqb p q && beq x' y'
                                       | _, _ => false
                                       end) os os'
      && (fix leq (x y : list etree) := match x, y with
                                        | [], [] => true
                                        | p :: x', q :: y' => etree_eqb f p q && leq x' y'
                                        | _, _ => false
                                        end) fs fs'
    | EArr c k e, EArr c' k' e' => Pos.eqb c c' && reckey_eqb k k' && etree_eqb f e e'
    | EMap c m k x, EMap c' m' k' x' => Pos.eqb c c' && (m =? m') && etree_eqb f k k' && etree_eqb f x x'
    | ERec k, ERec k' => reckey_eqb k k'
    | EBad, EBad => true
    | _, _ => false
    end
  end.

Definition handshake (v : version) (scc : schema) (rc : N) (scs : schema) (rs : N) (max_dict_bytes : N) : outcome :=
  match connect v (own_counts scc rc) (own_counts scs rs) max_dict_bytes with
  | None => OConnectRefused
  | Some o =>
    match new_writer v scc rc o with
    | None => OWriterRefused o
    | Some (tw, descr) =>
      match server_open v scs rs descr with
      | None => OServerRefused o descr
      | Some tr => OStream o descr (etree_eqb 400 tw tr)
      end
    end
  end.

(* ---- append-only evolution of a (numbered) schema: every struct of the old schema keeps its
   kind, dictionary and fields and may get new fields at the end; multimaps are unchanged; new
   structs and multimaps get new numbers. ---- *)
Fixpoint ftype_in (ns nm : N) (t : ftype) : bool :=
  match t with
  | TPrim _ _ => true
  | TArray e => ftype_in ns nm e
  | TStruct s => s <? ns
  | TMultimap m => m <? nm
  end.

(* every type mentioned by the schema exists in it *)
Definition schema_closed (sc : schema) : bool :=
  let ns := N.of_nat (length (structs sc)) in
  let nm := N.of_nat (length (multimaps sc)) in
  forallb (fun sd => forallb (fun f => ftype_in ns nm (f_type f)) (s_fields sd)) (structs sc)
  && forallb (fun md => ftype_in ns nm (m_key md) && ftype_in ns nm (m_val md)) (multimaps sc).

Definition prim_eqb (p q : prim) : bool :=
  match p, q with
  | PBool, PBool | PInt64, PInt64 | PUint64, PUint64 | PFloat64, PFloat64 | PString, PString | PBytes, PBytes => true
  | _, _ => false
  end.

Definition optN_eqb (a b : option N) : bool :=
  match a, b with None, None => true | Some x, Some y => x =? y | _, _ => false end.

Fixpoint ftype_eqb (a b : ftype) : bool :=
  match a, b with
  | TPrim p d, TPrim q e => prim_eqb p q && optN_eqb d e
  | TArray x, TArray y => ftype_eqb x y
  | TStruct s, TStruct t => s =? t
  | TMultimap m, TMultimap n => m =? n
  | _, _ => false
  end.

Definition field_eqb (a b : field) : bool := ftype_eqb (f_type a) (f_type b) && Bool.eqb (f_opt a) (f_opt b).

Fixpoint fields_prefix (a b : list field) : bool :=
  match a, b with
  | [], _ => true
  | x :: a', y :: b' => field_eqb x y && fields_prefix a' b'
  | _ :: _, [] => false
  end.

Definition sdef_evolves (a b : sdef) : bool :=
  Bool.eqb (s_oneof a) (s_oneof b) && optN_eqb (s_dict a) (s_dict b) && fields_prefix (s_fields a) (s_fields b).

Definition mdef_eqb (a b : mdef) : bool := ftype_eqb (m_key a) (m_key b) && ftype_eqb (m_val a) (m_val b).

Fixpoint list_rel {A} (r : A -> A -> bool) (a b : list A) : bool :=
  match a, b with
  | [], _ => true
  | x :: a', y :: b' => r x y && list_rel r a' b'
  | _ :: _, [] => false
  end.

(* [evolves old new] *)
Definition evolves (old new : schema) : bool :=
  list_rel sdef_evolves (structs old) (structs new) && list_rel mdef_eqb (multimaps old) (multimaps new).

(* flat rendering of an outcome for the correspondence check (tools/check_grpc.py evaluates the
   model inside Coq on the sampled schema pairs and reads these lists) *)
Definition code_counts (l : option (list N)) : list N :=
  match l with None => [0] | Some c => 1 :: N.of_nat (length c) :: c end.
Definition code_opts (o : wopts) : list N :=
  code_counts (o_schema o) ++ [if o_descr o then 1 else 0; o_maxdict o].
Definition outcome_code (x : outcome) : list N :=
  match x with
  | OConnectRefused => [0]
  | OWriterRefused o => 1 :: code_opts o
  | OServerRefused o d => 2 :: code_opts o ++ code_counts d
  | OStream o d same => 3 :: (if same then 1 else 0) :: code_opts o ++ code_counts d
  end.
