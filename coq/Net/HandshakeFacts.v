(* Facts about the handshake model (Net/Handshake.v). *)
From Coq Require Import List Arith NArith Bool PArith Lia.
From Coq Require Import ZifyN ZifyNat ZifyBool.
From Stef Require Import Bits BitIO Varint Codecs Schema SchemaFacts Wire Apply Frame Reader Limits Handshake.
Import ListNotations.
Open Scope N_scope.

(* ------------------------------------------------------------------ Compatible *)
Lemma counts_eqb_refl : forall l, counts_eqb l l = true.
Proof. induction l as [|x l IH]; cbn [counts_eqb]; [reflexivity|]. rewrite N.eqb_refl, IH. reflexivity. Qed.

Lemma counts_eqb_eq : forall a b, counts_eqb a b = true <-> a = b.
Proof.
  induction a as [|x a IH]; intros [|y b]; cbn [counts_eqb]; split; intros H; try reflexivity; try discriminate.
  - apply andb_true_iff in H. destruct H as [H1 H2]. apply N.eqb_eq in H1. apply IH in H2. subst. reflexivity.
  - inversion H; subst. rewrite N.eqb_refl. cbn. apply IH. reflexivity.
Qed.

Lemma compat3_refl : forall v l, compat3 v l l = CExact.
Proof.
  intros v l. unfold compat3. rewrite Nat.ltb_irrefl, N.ltb_irrefl.
  destruct v; [reflexivity|]. rewrite counts_eqb_refl. reflexivity.
Qed.

(* the boolean used by Stream/Reader.v reader_open is the verdict of the current code *)
Lemma compatible_is_current : forall own other,
  compatible own other = negb (is_incompat (compat3 VCurrent own other)).
Proof.
  intros own other. unfold compatible, compat3.
  destruct (length other <? length own)%nat; [reflexivity|].
  destruct (length own <? length other)%nat; [reflexivity|].
  destruct (sum_counts other <? sum_counts own); [reflexivity|].
  destruct (sum_counts own <? sum_counts other); [reflexivity|].
  destruct (counts_eqb own other); reflexivity.
Qed.

(* the repair only turns some "exact" verdicts into "incompatible" *)
Lemma current_stricter : forall a b,
  is_incompat (compat3 VPinned a b) = true -> is_incompat (compat3 VCurrent a b) = true.
Proof.
  intros a b. unfold compat3.
  destruct (length b <? length a)%nat; [intros H; exact H|].
  destruct (length a <? length b)%nat; [intros H; exact H|].
  destruct (sum_counts b <? sum_counts a); [intros H; exact H|].
  destruct (sum_counts a <? sum_counts b); [intros H; exact H|].
  cbn. discriminate.
Qed.

Lemma superset_same : forall v a b, compat3 v a b = CSuperset <-> compat3 VPinned a b = CSuperset.
Proof.
  intros v a b. unfold compat3.
  destruct (length b <? length a)%nat; [tauto|].
  destruct (length a <? length b)%nat; [tauto|].
  destruct (sum_counts b <? sum_counts a); [tauto|].
  destruct (sum_counts a <? sum_counts b); [tauto|].
  destruct v; [tauto|]. destruct (counts_eqb a b); split; discriminate.
Qed.

(* first verdict "incompatible" forces the reverse verdict to be "superset" unless the lists have
   equal length and equal sums (then: pinned "exact" both ways, current "incompatible" both ways) *)
Lemma incompat_then_reverse : forall v a b, compat3 v a b = CIncompat ->
  compat3 v b a = CSuperset \/
  (length a = length b /\ sum_counts a = sum_counts b /\ v = VCurrent /\ counts_eqb a b = false /\ compat3 v b a = CIncompat).
Proof.
  intros v a b. unfold compat3.
  destruct (Nat.ltb_spec (length b) (length a)) as [L1|L1]; [discriminate|].
  destruct (Nat.ltb_spec (length a) (length b)) as [L2|L2].
  - intros _. left. reflexivity.
  - destruct (N.ltb_spec (sum_counts b) (sum_counts a)) as [S1|S1]; [discriminate|].
    destruct (N.ltb_spec (sum_counts a) (sum_counts b)) as [S2|S2].
    + intros _. left. reflexivity.
    + destruct v; [discriminate|].
      destruct (counts_eqb a b) eqn:E; [discriminate|]. intros _. right.
      repeat split; try lia.
      destruct (counts_eqb b a) eqn:E2; [|reflexivity].
      apply counts_eqb_eq in E2. subst. rewrite counts_eqb_refl in E. discriminate.
Qed.

(* ------------------------------------------------------------------ Connect *)
(* the pinned Connect never refuses a pair of schemas: its "incompatible" error path is dead *)
Theorem connect_pinned_total : forall cs ss md, connect VPinned cs ss md <> None.
Proof.
  intros cs ss md. unfold connect.
  destruct (compat3 VPinned ss cs) eqn:E; try discriminate.
  destruct (incompat_then_reverse _ _ _ E) as [H|[_ [_ [H _]]]]; [rewrite H; discriminate|discriminate].
Qed.

(* the repaired Connect refuses exactly: equal lengths, equal sums, different lists *)
Theorem connect_current_refuses_iff : forall cs ss md,
  connect VCurrent cs ss md = None <->
  (length cs = length ss /\ sum_counts cs = sum_counts ss /\ cs <> ss).
Proof.
  intros cs ss md. unfold connect. split.
  - destruct (compat3 VCurrent ss cs) eqn:E; try discriminate.
    destruct (incompat_then_reverse _ _ _ E) as [H|[L [S [_ [Q H]]]]]; [rewrite H; discriminate|].
    intros _. repeat split; try lia. intros ->. rewrite counts_eqb_refl in Q. discriminate.
  - intros [L [S Hne]].
    assert (Q : forall a b, length a = length b -> sum_counts a = sum_counts b -> a <> b -> compat3 VCurrent a b = CIncompat).
    { intros a b La Sa Na. unfold compat3. rewrite La, Sa, Nat.ltb_irrefl, N.ltb_irrefl.
      destruct (counts_eqb a b) eqn:E; [apply counts_eqb_eq in E; contradiction|reflexivity]. }
    rewrite (Q ss cs), (Q cs ss); auto.
Qed.

(* the schema Connect hands to the writer is never the server's: nil or the CLIENT's own *)
Theorem connect_schema_is_clients : forall v cs ss md o, connect v cs ss md = Some o ->
  o_maxdict o = md /\
  ((o_schema o = None /\ o_descr o = false /\ compat3 VPinned ss cs <> CSuperset) \/ (o_schema o = Some cs /\ o_descr o = true)).
Proof.
  intros v cs ss md o. unfold connect.
  destruct (compat3 v ss cs) eqn:E.
  - intros H; inversion H; subst; cbn. split; [reflexivity|]. left. repeat split.
    intros Hs. apply (superset_same v) in Hs. congruence.
  - intros H; inversion H; subst; cbn. split; [reflexivity|]. right. split; reflexivity.
  - destruct (compat3 v cs ss) eqn:E2; intros H; inversion H; subst; cbn; (split; [reflexivity|]).
    + left. repeat split. intros Hs. apply (superset_same v) in Hs. congruence.
    + right. split; reflexivity.
Qed.

Lemma connect_same : forall v cs md, connect v cs cs md = Some (mkWopts None false md).
Proof. intros. unfold connect. rewrite compat3_refl. reflexivity. Qed.

(* ------------------------------------------------------------------ dictionary limit *)
Lemma writer_dict_limit_pos : forall o, 0 < writer_dict_limit o.
Proof. intros o. unfold writer_dict_limit, default_max_total_dict_size. destruct (N.eqb_spec (o_maxdict o) 0); lia. Qed.

(* the advertised limit is what the writer's limiter is configured with (0 = "no limit" on the
   server side becomes the library default on the writer), and the limiter honours it (C08) *)
Theorem dict_limit_in_force : forall v cs ss md o fl flag rs,
  connect v cs ss md = Some o ->
  let c := writer_lcfg o fl flag in
  (md <> 0 -> c_dict_limit c = md) /\ (md = 0 -> c_dict_limit c = default_max_total_dict_size) /\
  dict_below c (l_run c rs) /\ l_dict_reached (l_run c rs) = false.
Proof.
  intros v cs ss md o fl flag rs H c.
  destruct (connect_schema_is_clients _ _ _ _ _ H) as [Hm _].
  assert (Hc : c_dict_limit c = writer_dict_limit o) by reflexivity.
  repeat split.
  - intros Hz. rewrite Hc. unfold writer_dict_limit. rewrite Hm. destruct (N.eqb_spec md 0); [contradiction|reflexivity].
  - intros Hz. rewrite Hc. unfold writer_dict_limit. rewrite Hm, Hz. reflexivity.
  - apply dict_bounded. rewrite Hc. apply writer_dict_limit_pos.
  - apply dict_bounded. rewrite Hc. apply writer_dict_limit_pos.
Qed.

(* ------------------------------------------------------------------ server side = reader_open *)
Lemma server_open_current_is_reader_open : forall sc root src fl content src' schema_bytes ud counts,
  next_frame src = inr (fl, content, src') ->
  (var_hdr_limit <? N.of_nat (length content)) = false ->
  parse_var_header content = inr (schema_bytes, ud) ->
  schema_bytes <> [] ->
  parse_wire_schema schema_bytes = inr counts ->
  match server_open VCurrent sc root (Some counts) with
  | Some t => reader_open sc root src = inr (mkReader t src' 0 0 rst0 (PM.empty _) RNil (Some counts) ud)
  | None => reader_open sc root src = inl (PBad EInvalid)
  end.
Proof.
  intros sc root src fl content src' sb ud counts Hn Hl Hp Hne Hw.
  unfold reader_open, server_open. rewrite Hn, Hl, Hp.
  destruct sb as [|b sb]; [contradiction|]. rewrite Hw.
  rewrite compatible_is_current.
  destruct (is_incompat (compat3 VCurrent (own_counts sc root) counts)); cbn [negb]; [reflexivity|].
  destruct (build_root sc root (Some counts)) as [t ist].
  destruct (i_err ist || negb (all_fetched ist)); reflexivity.
Qed.

Lemma server_open_none_is_reader_open : forall sc root src fl content src' ud,
  next_frame src = inr (fl, content, src') ->
  (var_hdr_limit <? N.of_nat (length content)) = false ->
  parse_var_header content = inr ([], ud) ->
  match server_open VCurrent sc root None with
  | Some t => reader_open sc root src = inr (mkReader t src' 0 0 rst0 (PM.empty _) RNil None ud)
  | None => reader_open sc root src = inl (PBad EInvalid)
  end.
Proof.
  intros sc root src fl content src' ud Hn Hl Hp.
  unfold reader_open, server_open. rewrite Hn, Hl, Hp.
  destruct (build_root sc root None) as [t ist].
  destruct (i_err ist || negb (all_fetched ist)); reflexivity.
Qed.

(* whatever the repaired server accepts, the code as found accepted with the same tree *)
Lemma server_open_current_pinned : forall sc root d t,
  server_open VCurrent sc root d = Some t -> server_open VPinned sc root d = Some t.
Proof.
  intros sc root [d|] t; unfold server_open; [|intros H; exact H].
  destruct (is_incompat (compat3 VCurrent (own_counts sc root) d)) eqn:E; [discriminate|].
  destruct (is_incompat (compat3 VPinned (own_counts sc root) d)) eqn:E2.
  - apply current_stricter in E2. congruence.
  - intros H; exact H.
Qed.

(* last line of defence: a descriptor with more structs than the server knows, or with the same
   number and a larger total, is refused by the server's reader (both versions) *)
Theorem server_refuses_longer : forall v sc root d,
  (length (own_counts sc root) < length d)%nat \/
  (length (own_counts sc root) = length d /\ sum_counts (own_counts sc root) < sum_counts d) ->
  server_open v sc root (Some d) = None.
Proof.
  intros v sc root d H. unfold server_open.
  assert (E : compat3 v (own_counts sc root) d = CIncompat).
  { unfold compat3. destruct H as [H|[H1 H2]].
    - destruct (Nat.ltb_spec (length d) (length (own_counts sc root))); [lia|].
      destruct (Nat.ltb_spec (length (own_counts sc root)) (length d)); [reflexivity|lia].
    - rewrite H1, Nat.ltb_irrefl.
      destruct (N.ltb_spec (sum_counts d) (sum_counts (own_counts sc root))); [lia|].
      destruct (N.ltb_spec (sum_counts (own_counts sc root)) (sum_counts d)); [reflexivity|lia]. }
  rewrite E. reflexivity.
Qed.

(* ------------------------------------------------------------------ boolean relations -> Prop *)
Lemma prim_eqb_eq : forall p q, prim_eqb p q = true -> p = q.
Proof. intros [] []; cbn; intros H; try reflexivity; discriminate. Qed.

Lemma optN_eqb_eq : forall a b, optN_eqb a b = true -> a = b.
Proof. intros [x|] [y|]; cbn; intros H; try reflexivity; try discriminate. apply N.eqb_eq in H. subst. reflexivity. Qed.

Lemma ftype_eqb_eq : forall a b, ftype_eqb a b = true -> a = b.
Proof.
  induction a as [p d|e IH|s|m]; intros [q d'|e'|s'|m']; cbn [ftype_eqb]; intros H; try discriminate.
  - apply andb_true_iff in H. destruct H as [H1 H2]. apply prim_eqb_eq in H1. apply optN_eqb_eq in H2. subst. reflexivity.
  - f_equal. apply IH. exact H.
  - apply N.eqb_eq in H. subst. reflexivity.
  - apply N.eqb_eq in H. subst. reflexivity.
Qed.

Lemma field_eqb_eq : forall a b, field_eqb a b = true -> a = b.
Proof.
  intros [ta oa] [tb ob]. unfold field_eqb. cbn [f_type f_opt]. intros H.
  apply andb_true_iff in H. destruct H as [H1 H2]. apply ftype_eqb_eq in H1. apply eqb_prop in H2. subst. reflexivity.
Qed.

Lemma fields_prefix_app : forall a b, fields_prefix a b = true -> exists extra, b = a ++ extra.
Proof.
  induction a as [|x a IH]; intros b H.
  - exists b. reflexivity.
  - destruct b as [|y b]; [discriminate|]. cbn [fields_prefix] in H.
    apply andb_true_iff in H. destruct H as [H1 H2]. apply field_eqb_eq in H1. subst y.
    destruct (IH b H2) as [extra He]. exists extra. rewrite He. reflexivity.
Qed.

Lemma list_rel_nth : forall A (r : A -> A -> bool) a b, list_rel r a b = true ->
  forall n da db, (n < length a)%nat -> r (nth n a da) (nth n b db) = true.
Proof.
  intros A r. induction a as [|x a IH]; intros b H n da db Hn; [cbn in Hn; lia|].
  destruct b as [|y b]; [discriminate|]. cbn [list_rel] in H. apply andb_true_iff in H. destruct H as [H1 H2].
  destruct n as [|n]; [exact H1|]. cbn [nth]. apply IH; [exact H2|cbn in Hn; lia].
Qed.

Lemma list_rel_length : forall A (r : A -> A -> bool) a b, list_rel r a b = true -> (length a <= length b)%nat.
Proof.
  intros A r. induction a as [|x a IH]; intros b H; [cbn; lia|].
  destruct b as [|y b]; [discriminate|]. cbn [list_rel] in H. apply andb_true_iff in H. destruct H as [_ H2].
  specialize (IH b H2). cbn. lia.
Qed.

Lemma list_rel_refl : forall A (r : A -> A -> bool), (forall x, r x x = true) -> forall a, list_rel r a a = true.
Proof. intros A r Hr. induction a as [|x a IH]; [reflexivity|]. cbn [list_rel]. rewrite Hr, IH. reflexivity. Qed.

Lemma ftype_eqb_refl : forall t, ftype_eqb t t = true.
Proof.
  induction t as [p d|e IH|s|m]; cbn [ftype_eqb].
  - destruct p; destruct d as [x|]; cbn; try reflexivity; apply N.eqb_refl.
  - exact IH.
  - apply N.eqb_refl.
  - apply N.eqb_refl.
Qed.

Lemma fields_prefix_refl : forall l, fields_prefix l l = true.
Proof.
  induction l as [|x l IH]; [reflexivity|]. cbn [fields_prefix]. unfold field_eqb.
  rewrite ftype_eqb_refl, eqb_reflx, IH. reflexivity.
Qed.

Lemma evolves_refl : forall sc, evolves sc sc = true.
Proof.
  intros sc. unfold evolves. rewrite !list_rel_refl; [reflexivity| |].
  - intros [k v]. unfold mdef_eqb. cbn. rewrite !ftype_eqb_refl. reflexivity.
  - intros [o d fs]. unfold sdef_evolves. cbn. rewrite eqb_reflx, fields_prefix_refl.
    destruct d as [x|]; cbn; [rewrite N.eqb_refl|]; reflexivity.
Qed.

(* ------------------------------------------------------------------ replaying a traversal *)
Definition fstep (sc : schema) (f : nat) (stk : list reckey) :=
  fun (acc : list etree * istate) (fl : field) =>
    let '(l, st) := acc in
    let '(ft, st) := build sc f stk (f_type fl) st in (l ++ [ft], st).

Lemma build_S : forall sc f stack t st,
  build sc (S f) stack t st =
  if on_stack stack (key_of t) then (ERec (key_of t), st)
  else
    let '(col, st) := fresh_col st in
    match t with
    | TPrim p d => (EPrim col p d, st)
    | TArray e =>
      let '(et, st) := build sc f (key_of t :: stack) e st in (EArr col (key_of t) et, st)
    | TMultimap m =>
      let md := get_mmap sc m in
      let stack' := KMap m :: stack in
      let '(kt, st) := build sc f stack' (m_key md) st in
      let '(vt, st) := build sc f stack' (m_val md) st in
      (EMap col m kt vt, st)
    | TStruct s =>
      let sd := get_struct sc s in
      let own := N.of_nat (length (s_fields sd)) in
      let '(fc, st) := field_count st s own in
      let st := if own <? fc then set_err st else st in
      let flds := firstn (N.to_nat fc) (s_fields sd) in
      let '(fts, st) := fold_left (fstep sc f (KStruct s :: stack)) flds ([], st) in
      (EStruct col s (s_oneof sd) (s_dict sd) fc (map f_opt flds) fts, st)
    end.
Proof. reflexivity. Qed.

Lemma fold_err_mono : forall sc f stk flds acc, i_err (snd acc) = true ->
  i_err (snd (fold_left (fstep sc f stk) flds acc)) = true.
Proof.
  intros sc f stk. induction flds as [|x flds IH]; intros acc H; cbn [fold_left]; [exact H|].
  apply IH. destruct acc as [l s0]. cbn [snd] in *. unfold fstep.
  pose proof (build_err_mono sc f stk (f_type x) s0 H) as Hm.
  destruct (build sc f stk (f_type x) s0) as [ft s1]. exact Hm.
Qed.

Lemma err_false_before_build : forall sc f stk t st tr st',
  build sc f stk t st = (tr, st') -> i_err st' = false -> i_err st = false.
Proof.
  intros sc f stk t st tr st' Hb He. destruct (i_err st) eqn:E; [|reflexivity].
  pose proof (build_err_mono sc f stk t st E) as Hm. rewrite Hb in Hm. cbn in Hm. congruence.
Qed.

Lemma err_false_before_fold : forall sc f stk flds acc res,
  fold_left (fstep sc f stk) flds acc = res -> i_err (snd res) = false -> i_err (snd acc) = false.
Proof.
  intros sc f stk flds acc res Hb He. destruct (i_err (snd acc)) eqn:E; [|reflexivity].
  pose proof (fold_err_mono sc f stk flds acc E) as Hm. rewrite Hb in Hm. congruence.
Qed.

Section Replay.
  Variables old new : schema.
  Hypothesis Hclosed : schema_closed old = true.
  Hypothesis Hev : evolves old new = true.
  Let ns := N.of_nat (length (structs old)).
  Let nm := N.of_nat (length (multimaps old)).

  (* the replaying traversal is in the same position: same next column, same memo, no error, and
     it still has the counts [l] to take *)
  Definition st_rel (st st_s : istate) (l : list N) : Prop :=
    i_next st_s = i_next st /\ i_memo st_s = i_memo st /\ i_err st_s = false /\ i_over st_s = Some l.

  Lemma ev_struct : forall s, s < ns ->
    s_oneof (get_struct new s) = s_oneof (get_struct old s) /\
    s_dict (get_struct new s) = s_dict (get_struct old s) /\
    exists extra, s_fields (get_struct new s) = s_fields (get_struct old s) ++ extra.
  Proof.
    intros s Hs. unfold evolves in Hev. apply andb_true_iff in Hev. destruct Hev as [H1 _].
    assert (Hn : (N.to_nat s < length (structs old))%nat) by (unfold ns in Hs; lia).
    pose proof (list_rel_nth _ _ _ _ H1 (N.to_nat s) dummy_sdef dummy_sdef Hn) as Hr.
    unfold get_struct. unfold sdef_evolves in Hr.
    apply andb_true_iff in Hr. destruct Hr as [Hr H3]. apply andb_true_iff in Hr. destruct Hr as [Ha Hb].
    apply eqb_prop in Ha. apply optN_eqb_eq in Hb. apply fields_prefix_app in H3.
    repeat split; [symmetry; exact Ha|symmetry; exact Hb|exact H3].
  Qed.

  Lemma ev_mmap : forall m, m < nm -> get_mmap new m = get_mmap old m.
  Proof.
    intros m Hm. unfold evolves in Hev. apply andb_true_iff in Hev. destruct Hev as [_ H2].
    assert (Hn : (N.to_nat m < length (multimaps old))%nat) by (unfold nm in Hm; lia).
    pose proof (list_rel_nth _ _ _ _ H2 (N.to_nat m) dummy_mdef dummy_mdef Hn) as Hr.
    unfold get_mmap. unfold mdef_eqb in Hr. apply andb_true_iff in Hr. destruct Hr as [Ha Hb].
    apply ftype_eqb_eq in Ha. apply ftype_eqb_eq in Hb.
    destruct (nth (N.to_nat m) (multimaps old) dummy_mdef) as [k1 v1].
    destruct (nth (N.to_nat m) (multimaps new) dummy_mdef) as [k2 v2]. cbn in *. subst. reflexivity.
  Qed.

  Lemma closed_struct : forall s, s < ns -> forall fl, In fl (s_fields (get_struct old s)) ->
    ftype_in ns nm (f_type fl) = true.
  Proof.
    intros s Hs fl Hin. unfold schema_closed in Hclosed. apply andb_true_iff in Hclosed. destruct Hclosed as [H1 _].
    rewrite forallb_forall in H1.
    assert (Hn : (N.to_nat s < length (structs old))%nat) by (unfold ns in Hs; lia).
    specialize (H1 (get_struct old s) (nth_In _ _ Hn)). rewrite forallb_forall in H1. apply H1. exact Hin.
  Qed.

  Lemma closed_mmap : forall m, m < nm ->
    ftype_in ns nm (m_key (get_mmap old m)) = true /\ ftype_in ns nm (m_val (get_mmap old m)) = true.
  Proof.
    intros m Hm. unfold schema_closed in Hclosed. apply andb_true_iff in Hclosed. destruct Hclosed as [_ H2].
    rewrite forallb_forall in H2.
    assert (Hn : (N.to_nat m < length (multimaps old))%nat) by (unfold nm in Hm; lia).
    specialize (H2 (get_mmap old m) (nth_In _ _ Hn)). apply andb_true_iff in H2. exact H2.
  Qed.

  Definition replay_ok (f : nat) (stack : list reckey) (t : ftype) (st : istate) : Prop :=
    forall tr st', build old f stack t st = (tr, st') -> i_over st = None -> i_err st' = false ->
    ftype_in ns nm t = true ->
    i_over st' = None /\
    exists newp, i_memo st' = newp ++ i_memo st /\
      forall f' rest st_s, (f <= f')%nat -> st_rel st st_s (rev (map snd newp) ++ rest) ->
        exists st_s', build new f' stack t st_s = (tr, st_s') /\ st_rel st' st_s' rest.

  Definition fold_replay_ok (f : nat) (stk : list reckey) (flds : list field) (accl : list etree) (st : istate) : Prop :=
    forall fts st', fold_left (fstep old f stk) flds (accl, st) = (fts, st') -> i_over st = None -> i_err st' = false ->
    (forall fl, In fl flds -> ftype_in ns nm (f_type fl) = true) ->
    i_over st' = None /\
    exists newp, i_memo st' = newp ++ i_memo st /\
      forall f' rest st_s, (f <= f')%nat -> st_rel st st_s (rev (map snd newp) ++ rest) ->
        exists st_s', fold_left (fstep new f' stk) flds (accl, st_s) = (fts, st_s') /\ st_rel st' st_s' rest.

  Lemma fold_replay : forall f, (forall stack t st, replay_ok f stack t st) ->
    forall stk flds accl st, fold_replay_ok f stk flds accl st.
  Proof.
    intros f IHf stk. induction flds as [|x flds IH]; intros accl st fts st' Hfold Hov Herr Hcl.
    - cbn [fold_left] in Hfold. inversion Hfold; subst. split; [exact Hov|].
      exists []. split; [reflexivity|]. intros f' rest st_s _ Hrel. cbn [map rev app] in Hrel.
      exists st_s. split; [reflexivity|exact Hrel].
    - cbn [fold_left] in Hfold. unfold fstep at 2 in Hfold.
      destruct (build old f stk (f_type x) st) as [ft st1] eqn:Hb.
      pose proof (err_false_before_fold _ _ _ _ _ _ Hfold Herr) as He1. cbn [snd] in He1.
      destruct (IHf stk (f_type x) st ft st1 Hb Hov He1 (Hcl x (or_introl eq_refl))) as [Hov1 [np1 [Hm1 Hr1]]].
      destruct (IH (accl ++ [ft]) st1 fts st' Hfold Hov1 Herr (fun fl H => Hcl fl (or_intror H))) as [Hov2 [np2 [Hm2 Hr2]]].
      split; [exact Hov2|]. exists (np2 ++ np1). split; [rewrite Hm2, Hm1, app_assoc; reflexivity|].
      intros f' rest st_s Hle Hrel.
      rewrite map_app, rev_app_distr, <- app_assoc in Hrel.
      destruct (Hr1 f' _ st_s Hle Hrel) as [st_s1 [Hb1 Hrel1]].
      destruct (Hr2 f' rest st_s1 Hle Hrel1) as [st_s2 [Hb2 Hrel2]].
      exists st_s2. split; [|exact Hrel2].
      cbn [fold_left]. unfold fstep at 2. rewrite Hb1. exact Hb2.
  Qed.

  Lemma fresh_col_rel : forall st st_s l, st_rel st st_s l ->
    fst (fresh_col st_s) = fst (fresh_col st) /\ st_rel (snd (fresh_col st)) (snd (fresh_col st_s)) l.
  Proof.
    intros st st_s l [H1 [H2 [H3 H4]]]. unfold fresh_col, st_rel. cbn. rewrite H1. repeat split; assumption.
  Qed.

  Theorem build_replay : forall f stack t st, replay_ok f stack t st.
  Proof.
    induction f as [|f IHf]; intros stack t st tr st' Hb Hov Herr Hin.
    - cbn in Hb. inversion Hb; subst. cbn in Herr. discriminate.
    - rewrite build_S in Hb.
      destruct (on_stack stack (key_of t)) eqn:Hst.
      + inversion Hb; subst. split; [exact Hov|]. exists []. split; [reflexivity|].
        intros f' rest st_s Hle Hrel. destruct f' as [|f']; [inversion Hle|]. rewrite build_S, Hst.
        exists st_s. split; [reflexivity|exact Hrel].
      + destruct (fresh_col st) as [col st1] eqn:Hfc.
        assert (Hov1 : i_over st1 = None) by (unfold fresh_col in Hfc; inversion Hfc; subst; exact Hov).
        assert (Hm1 : i_memo st1 = i_memo st) by (unfold fresh_col in Hfc; inversion Hfc; subst; reflexivity).
        destruct t as [p d|e|s|m].
        * (* primitive *)
          inversion Hb; subst. split; [exact Hov1|]. exists []. split; [exact Hm1|].
          intros f' rest st_s Hle Hrel. destruct f' as [|f']; [inversion Hle|]. rewrite build_S, Hst.
          destruct (fresh_col_rel _ _ _ Hrel) as [Hc Hr]. rewrite Hfc in Hc, Hr. cbn [fst snd] in Hc, Hr.
          destruct (fresh_col st_s) as [col_s st_s1]. cbn [fst snd] in Hc, Hr. subst col_s.
          exists st_s1. split; [reflexivity|exact Hr].
        * (* array *)
          destruct (build old f (key_of (TArray e) :: stack) e st1) as [et st2] eqn:Hbe.
          inversion Hb; subst.
          cbn [ftype_in] in Hin.
          destruct (IHf _ e st1 et st' Hbe Hov1 Herr Hin) as [Hov2 [np [Hm2 Hr2]]].
          split; [exact Hov2|]. exists np. split; [rewrite Hm2, Hm1; reflexivity|].
          intros f' rest st_s Hle Hrel. destruct f' as [|f']; [inversion Hle|]. rewrite build_S, Hst.
          destruct (fresh_col_rel _ _ _ Hrel) as [Hc Hr]. rewrite Hfc in Hc, Hr. cbn [fst snd] in Hc, Hr.
          destruct (fresh_col st_s) as [col_s st_s1]. cbn [fst snd] in Hc, Hr. subst col_s.
          destruct (Hr2 f' rest st_s1 (le_S_n _ _ Hle) Hr) as [st_s2 [Hb2 Hrel2]].
          rewrite Hb2. exists st_s2. split; [reflexivity|exact Hrel2].
        * (* struct / oneof *)
          cbn [ftype_in] in Hin. apply N.ltb_lt in Hin. fold ns in Hin.
          destruct (ev_struct s Hin) as [Eo [Ed [extra Ef]]].
          cbv zeta in Hb.
          set (sd := get_struct old s) in *.
          set (own := N.of_nat (length (s_fields sd))) in *.
          destruct (field_count st1 s own) as [fc st2] eqn:Hfcnt.
          destruct (fold_left (fstep old f (KStruct s :: stack)) (firstn (N.to_nat fc) (s_fields sd))
                              ([], if own <? fc then set_err st2 else st2)) as [fts st4] eqn:Hfold.
          inversion Hb; subst; clear Hb.
          pose proof (err_false_before_fold _ _ _ _ _ _ Hfold Herr) as He3. cbn [snd] in He3.
          destruct (N.ltb_spec own fc) as [Hlt|Hge]; [cbn in He3; discriminate|].
          (* the fields visited are closed *)
          assert (Hcl : forall fl, In fl (firstn (N.to_nat fc) (s_fields sd)) -> ftype_in ns nm (f_type fl) = true).
          { intros fl Hfl. apply (closed_struct s Hin). rewrite <- (firstn_skipn (N.to_nat fc)). apply in_or_app. left. exact Hfl. }
          (* same field list on the new side *)
          assert (Hflds : firstn (N.to_nat fc) (s_fields (get_struct new s)) = firstn (N.to_nat fc) (s_fields sd)).
          { rewrite Ef. rewrite firstn_app.
            replace (N.to_nat fc - length (s_fields sd))%nat with 0%nat by (unfold own in Hge; clear - Hge; lia).
            cbn [firstn]. apply app_nil_r. }
          unfold field_count in Hfcnt. rewrite Hov1 in Hfcnt.
          destruct (memo_find (i_memo st1) s) as [c|] eqn:Hmemo.
          -- (* count already fetched: nothing consumed *)
            inversion Hfcnt; subst fc st2. clear Hfcnt.
            destruct (fold_replay f IHf _ _ _ _ _ _ Hfold Hov1 Herr Hcl) as [Hov4 [np [Hm4 Hr4]]].
            split; [exact Hov4|]. exists np. split; [rewrite Hm4, Hm1; reflexivity|].
            intros f' rest st_s Hle Hrel. destruct f' as [|f']; [inversion Hle|]. rewrite build_S, Hst.
            destruct (fresh_col_rel _ _ _ Hrel) as [Hc Hr]. rewrite Hfc in Hc, Hr. cbn [fst snd] in Hc, Hr.
            destruct (fresh_col st_s) as [col_s st_s1]. cbn [fst snd] in Hc, Hr. subst col_s.
            cbv zeta. unfold field_count.
            destruct Hr as [R1 [R2 [R3 R4]]]. rewrite R2, Hmemo.
            destruct (N.ltb_spec (N.of_nat (length (s_fields (get_struct new s)))) c) as [Hbad|_].
            { rewrite Ef, app_length in Hbad. unfold own in Hge. clear - Hbad Hge. lia. }
            rewrite Hflds.
            destruct (Hr4 f' rest st_s1 (le_S_n _ _ Hle) (conj R1 (conj R2 (conj R3 R4)))) as [st_s4 [Hb4 Hrel4]].
            rewrite Hb4. exists st_s4. split; [|exact Hrel4].
            rewrite Eo, Ed. reflexivity.
          -- (* first encounter: the replay takes the count from the override *)
            inversion Hfcnt; subst fc st2. clear Hfcnt.
            set (st2 := mkIst (i_next st1) None ((s, own) :: i_memo st1) (i_err st1)) in *.
            assert (Hov2 : i_over st2 = None) by reflexivity.
            destruct (fold_replay f IHf _ _ _ _ _ _ Hfold Hov2 Herr Hcl) as [Hov4 [np [Hm4 Hr4]]].
            split; [exact Hov4|]. exists (np ++ [(s, own)]). split.
            { rewrite Hm4. unfold st2. cbn [i_memo]. rewrite Hm1, <- app_assoc. reflexivity. }
            intros f' rest st_s Hle Hrel. destruct f' as [|f']; [inversion Hle|]. rewrite build_S, Hst.
            destruct (fresh_col_rel _ _ _ Hrel) as [Hc Hr]. rewrite Hfc in Hc, Hr. cbn [fst snd] in Hc, Hr.
            destruct (fresh_col st_s) as [col_s st_s1]. cbn [fst snd] in Hc, Hr. subst col_s.
            cbv zeta. unfold field_count.
            destruct Hr as [R1 [R2 [R3 R4]]]. rewrite R2, Hmemo, R4.
            rewrite map_app, rev_app_distr in *. cbn [map rev app snd].
            destruct (N.ltb_spec (N.of_nat (length (s_fields (get_struct new s)))) own) as [Hbad|_].
            { rewrite Ef, app_length in Hbad. unfold own in Hbad. clear - Hbad. lia. }
            rewrite Hflds.
            assert (Hrel2 : st_rel st2 (mkIst (i_next st_s1) (Some (rev (map snd np) ++ rest)) ((s, own) :: i_memo st1) (i_err st_s1))
                                   (rev (map snd np) ++ rest)).
            { unfold st_rel, st2. cbn. rewrite R1. repeat split. exact R3. }
            destruct (Hr4 f' rest _ (le_S_n _ _ Hle) Hrel2) as [st_s4 [Hb4 Hrel4]].
            rewrite Hb4. exists st_s4. split; [|exact Hrel4].
            rewrite Eo, Ed. reflexivity.
        * (* multimap *)
          cbn [ftype_in] in Hin. apply N.ltb_lt in Hin. fold nm in Hin.
          pose proof (ev_mmap m Hin) as Em. destruct (closed_mmap m Hin) as [Ck Cv].
          cbv zeta in Hb.
          destruct (build old f (KMap m :: stack) (m_key (get_mmap old m)) st1) as [kt st2] eqn:Hbk.
          destruct (build old f (KMap m :: stack) (m_val (get_mmap old m)) st2) as [vt st3] eqn:Hbv.
          injection Hb as E1 E2. subst tr st'.
          pose proof (err_false_before_build _ _ _ _ _ _ _ Hbv Herr) as He2.
          destruct (IHf _ _ st1 kt st2 Hbk Hov1 He2 Ck) as [Hov2 [np1 [Hm2 Hr2]]].
          destruct (IHf _ _ st2 vt st3 Hbv Hov2 Herr Cv) as [Hov3 [np2 [Hm3 Hr3]]].
          split; [exact Hov3|]. exists (np2 ++ np1). split; [rewrite Hm3, Hm2, Hm1, app_assoc; reflexivity|].
          intros f' rest st_s Hle Hrel. destruct f' as [|f']; [inversion Hle|]. rewrite build_S, Hst.
          destruct (fresh_col_rel _ _ _ Hrel) as [Hc Hr]. rewrite Hfc in Hc, Hr. cbn [fst snd] in Hc, Hr.
          destruct (fresh_col st_s) as [col_s st_s1]. cbn [fst snd] in Hc, Hr. subst col_s.
          cbv zeta. rewrite Em.
          rewrite map_app, rev_app_distr, <- app_assoc in Hr.
          destruct (Hr2 f' _ st_s1 (le_S_n _ _ Hle) Hr) as [st_s2 [Hb2 Hrel2]].
          destruct (Hr3 f' rest st_s2 (le_S_n _ _ Hle) Hrel2) as [st_s3 [Hb3 Hrel3]].
          rewrite Hb2, Hb3. exists st_s3. split; [reflexivity|exact Hrel3].
  Qed.
End Replay.

(* ------------------------------------------------------------------ root level *)
Lemma own_counts_memo : forall sc root, own_counts sc root = rev (map snd (i_memo (snd (build_root sc root None)))).
Proof. reflexivity. Qed.

Lemma root_fuel_mono : forall old new, evolves old new = true ->
  ((S (S (length (structs old) + length (multimaps old)))) * 3 <= (S (S (length (structs new) + length (multimaps new)))) * 3)%nat.
Proof.
  intros old new H. unfold evolves in H. apply andb_true_iff in H. destruct H as [H1 H2].
  apply list_rel_length in H1. apply list_rel_length in H2. lia.
Qed.

(* the traversal of [new] under the wire schema of [old] is the traversal of [old]: same tree,
   every count consumed, nothing missing *)
Theorem build_root_replay : forall old new root,
  schema_closed old = true -> evolves old new = true -> root < N.of_nat (length (structs old)) ->
  forall t ist, build_root old root None = (t, ist) -> i_err ist = false ->
  exists ist_s, build_root new root (Some (own_counts old root)) = (t, ist_s) /\
                i_err ist_s = false /\ i_over ist_s = Some [] /\ i_memo ist_s = i_memo ist.
Proof.
  intros old new root Hc He Hr t ist Hb Herr.
  unfold build_root in Hb.
  assert (Hin : ftype_in (N.of_nat (length (structs old))) (N.of_nat (length (multimaps old))) (TStruct root) = true)
    by (cbn [ftype_in]; apply N.ltb_lt; exact Hr).
  destruct (build_replay old new Hc He _ _ _ _ _ _ Hb eq_refl Herr Hin) as [_ [np [Hm Hrep]]].
  cbn [i_memo] in Hm. rewrite app_nil_r in Hm.
  assert (Hown : own_counts old root = rev (map snd np)).
  { rewrite own_counts_memo. unfold build_root. rewrite Hb. cbn [snd]. rewrite Hm. reflexivity. }
  destruct (Hrep _ [] (mkIst 1%positive (Some (own_counts old root)) [] false) (root_fuel_mono _ _ He)) as [ist_s [Hbs [R1 [R2 [R3 R4]]]]].
  { unfold st_rel. cbn. rewrite Hown, app_nil_r. repeat split. }
  exists ist_s. unfold build_root. rewrite Hbs. repeat split; assumption.
Qed.

Lemma build_root_none_over : forall sc root t ist,
  schema_closed sc = true -> root < N.of_nat (length (structs sc)) ->
  build_root sc root None = (t, ist) -> i_err ist = false -> all_fetched ist = true.
Proof.
  intros sc root t ist Hc Hr Hb Herr. unfold build_root in Hb.
  assert (Hin : ftype_in (N.of_nat (length (structs sc))) (N.of_nat (length (multimaps sc))) (TStruct root) = true)
    by (cbn [ftype_in]; apply N.ltb_lt; exact Hr).
  destruct (build_replay sc sc Hc (evolves_refl sc) _ _ _ _ _ _ Hb eq_refl Herr Hin) as [Hov _].
  unfold all_fetched. rewrite Hov. reflexivity.
Qed.

Lemma own_counts_length : forall sc root, length (own_counts sc root) = length (i_memo (snd (build_root sc root None))).
Proof. intros. rewrite own_counts_memo, rev_length, map_length. reflexivity. Qed.

Lemma evolves_root_in_range : forall old new root, evolves old new = true ->
  root < N.of_nat (length (structs old)) -> root < N.of_nat (length (structs new)).
Proof.
  intros old new root H Hr. unfold evolves in H. apply andb_true_iff in H. destruct H as [H1 _].
  apply list_rel_length in H1. lia.
Qed.

(* a writer told to write the wire schema of an ancestor [old] of its own schema [new] is created,
   announces that schema, and encodes with the ancestor's tree (covers old = new: its own schema) *)
Lemma new_writer_with_ancestor_schema : forall v old new root md,
  schema_closed old = true -> evolves old new = true -> root < N.of_nat (length (structs old)) ->
  build_ok old root = true ->
  is_incompat (compat3 v (own_counts new root) (own_counts old root)) = false ->
  new_writer v new root (mkWopts (Some (own_counts old root)) true md) =
  Some (fst (build_root old root None), Some (own_counts old root)).
Proof.
  intros v old new root md Hc He Hr Hok Hcompat.
  unfold new_writer. cbn [o_schema]. rewrite Hcompat.
  destruct (build_root old root None) as [t ist] eqn:Hb.
  unfold build_ok in Hok. rewrite Hb in Hok. cbn [snd] in Hok. apply negb_true_iff in Hok.
  destruct (build_root_replay old new root Hc He Hr t ist Hb Hok) as [ist_s [Hbs [E1 [E2 E3]]]].
  rewrite Hbs. unfold exhausted, all_fetched. rewrite E2, E3.
  rewrite own_counts_length, Hb. cbn [snd fst]. rewrite Nat.ltb_irrefl. reflexivity.
Qed.

(* a server whose schema [new] descends from [old] opens a stream announcing [old]'s wire schema
   with [old]'s tree *)
Lemma server_open_ancestor_descriptor : forall v old new root,
  schema_closed old = true -> evolves old new = true -> root < N.of_nat (length (structs old)) ->
  build_ok old root = true ->
  is_incompat (compat3 v (own_counts new root) (own_counts old root)) = false ->
  server_open v new root (Some (own_counts old root)) = Some (fst (build_root old root None)).
Proof.
  intros v old new root Hc He Hr Hok Hcompat.
  unfold server_open. rewrite Hcompat.
  destruct (build_root old root None) as [t ist] eqn:Hb.
  unfold build_ok in Hok. rewrite Hb in Hok. cbn [snd] in Hok. apply negb_true_iff in Hok.
  destruct (build_root_replay old new root Hc He Hr t ist Hb Hok) as [ist_s [Hbs [E1 [E2 E3]]]].
  rewrite Hbs, E1. unfold all_fetched. rewrite E2. reflexivity.
Qed.

(* without a descriptor both sides use their own trees; they coincide when the server descends
   from the client and the wire schemas are the same list *)
Lemma same_counts_same_tree : forall old new root,
  schema_closed old = true -> schema_closed new = true -> evolves old new = true ->
  root < N.of_nat (length (structs old)) ->
  build_ok old root = true -> build_ok new root = true ->
  own_counts old root = own_counts new root ->
  fst (build_root new root None) = fst (build_root old root None).
Proof.
  intros old new root Hco Hcn He Hr Hoko Hokn Heq.
  destruct (build_root old root None) as [t ist] eqn:Hb.
  destruct (build_root new root None) as [t' ist'] eqn:Hb'.
  unfold build_ok in Hoko, Hokn. rewrite Hb in Hoko. rewrite Hb' in Hokn. cbn [snd] in *.
  apply negb_true_iff in Hoko. apply negb_true_iff in Hokn.
  destruct (build_root_replay old new root Hco He Hr t ist Hb Hoko) as [i1 [H1 _]].
  destruct (build_root_replay new new root Hcn (evolves_refl new) (evolves_root_in_range _ _ _ He Hr) t' ist' Hb' Hokn) as [i2 [H2 _]].
  rewrite Heq in H1. rewrite H1 in H2. inversion H2. reflexivity.
Qed.

(* ------------------------------------------------------------------ what holds *)
(* server not behind the client (identical wire schemas, or server ahead by the code's criterion)
   and the server's schema descends from the client's: Connect succeeds, the writer is created,
   the server's reader opens the stream with exactly the client's encoder tree *)
Theorem handshake_sound_server_not_behind : forall v scc scs root md,
  schema_closed scc = true -> evolves scc scs = true -> root < N.of_nat (length (structs scc)) ->
  build_ok scc root = true ->
  let cs := own_counts scc root in
  let ss := own_counts scs root in
  (cs = ss /\ schema_closed scs = true /\ build_ok scs root = true) \/ compat3 v ss cs = CSuperset ->
  exists o descr t,
    connect v cs ss md = Some o /\ o_maxdict o = md /\
    new_writer v scc root o = Some (t, descr) /\
    server_open v scs root descr = Some t.
Proof.
  intros v scc scs root md Hc He Hr Hok cs ss [[Heq [Hcs Hoks]]|Hsup].
  - exists (mkWopts None false md), None, (fst (build_root scc root None)).
    split; [unfold cs, ss in *; rewrite <- Heq; apply connect_same|]. split; [reflexivity|]. split.
    + unfold new_writer. cbn [o_schema o_descr]. destruct (build_root scc root None); reflexivity.
    + unfold server_open.
      pose proof (same_counts_same_tree scc scs root Hc Hcs He Hr Hok Hoks Heq) as Ht.
      unfold build_ok in Hoks. destruct (build_root scs root None) as [t' ist'] eqn:Hb'. cbn [snd fst] in *.
      apply negb_true_iff in Hoks.
      rewrite Hoks, (build_root_none_over scs root t' ist' Hcs (evolves_root_in_range _ _ _ He Hr) Hb' Hoks).
      cbn [orb negb]. rewrite Ht. reflexivity.
  - exists (mkWopts (Some cs) true md), (Some cs), (fst (build_root scc root None)).
    split; [unfold connect; fold cs ss; rewrite Hsup; reflexivity|]. split; [reflexivity|]. split.
    + apply new_writer_with_ancestor_schema; try assumption; [apply evolves_refl|].
      rewrite compat3_refl. reflexivity.
    + apply server_open_ancestor_descriptor; try assumption. fold cs ss. rewrite Hsup. reflexivity.
Qed.

(* what the client-superset branch would give if it handed the SERVER's schema to the writer
   (the behaviour its comment describes): the writer downgrades and the server decodes *)
Theorem intended_connect_sound_client_ahead : forall v scc scs root md,
  schema_closed scs = true -> evolves scs scc = true -> root < N.of_nat (length (structs scs)) ->
  build_ok scs root = true ->
  let cs := own_counts scc root in
  let ss := own_counts scs root in
  compat3 v ss cs = CIncompat -> compat3 v cs ss = CSuperset ->
  exists o t,
    connect_intended v cs ss md = Some o /\
    new_writer v scc root o = Some (t, Some ss) /\
    server_open v scs root (Some ss) = Some t.
Proof.
  intros v scc scs root md Hc He Hr Hok cs ss H1 H2.
  exists (mkWopts (Some ss) true md), (fst (build_root scs root None)).
  split; [unfold connect_intended; fold cs ss; rewrite H1, H2; reflexivity|]. split.
  - apply new_writer_with_ancestor_schema; try assumption. fold cs ss. rewrite H2. reflexivity.
  - apply server_open_ancestor_descriptor; try assumption; [apply evolves_refl|].
    rewrite compat3_refl. reflexivity.
Qed.

(* the server is behind by the code's criterion: Connect and the writer go ahead, announcing the
   client's schema, and the server's reader refuses the stream - nothing is decoded wrongly *)
Theorem server_behind_refused_at_reader : forall v scc rc scs rs md o t descr,
  let cs := own_counts scc rc in
  let ss := own_counts scs rs in
  compat3 v ss cs = CIncompat ->
  connect v cs ss md = Some o -> new_writer v scc rc o = Some (t, descr) ->
  descr = Some cs /\ server_open v scs rs descr = None.
Proof.
  intros v scc rc scs rs md o t descr cs ss Hinc Hconn Hw.
  unfold connect in Hconn. fold cs ss in Hconn. rewrite Hinc in Hconn.
  destruct (incompat_then_reverse _ _ _ Hinc) as [Hs|[_ [_ [_ [_ Hi]]]]]; [|rewrite Hi in Hconn; discriminate].
  rewrite Hs in Hconn. inversion Hconn; subst o. clear Hconn.
  unfold new_writer in Hw. cbn [o_schema] in Hw. fold cs in Hw.
  destruct (is_incompat (compat3 v cs cs)); [discriminate|].
  destruct (build_root scc rc (Some cs)) as [t' ist].
  destruct (exhausted cs ist || negb (all_fetched ist)); [discriminate|].
  inversion Hw; subst. split; [reflexivity|].
  unfold server_open. fold ss. rewrite Hinc. reflexivity.
Qed.

(* ------------------------------------------------------------------ what does not hold *)
Definition u64 : field := mkField (TPrim PUint64 None) false.
Definition str : field := mkField (TPrim PString None) false.

(* D9.  server: struct R root { a uint64 }   client: struct R root { a uint64; b uint64 } *)
Definition d9_server : schema := mkSchema [mkSdef false None [u64]] [].
Definition d9_client : schema := mkSchema [mkSdef false None [u64; u64]] [].

Lemma d9_client_ahead_refused : forall v md,
  evolves d9_server d9_client = true /\ schema_closed d9_server = true /\ schema_closed d9_client = true /\
  handshake v d9_client 0 d9_server 0 md = OServerRefused (mkWopts (Some [2]) true md) (Some [2]).
Proof. intros [] md; repeat split; vm_compute; reflexivity. Qed.

(* ... while handing the server's schema to the writer would have worked *)
Lemma d9_intended_works : forall v md, exists o t,
  connect_intended v (own_counts d9_client 0) (own_counts d9_server 0) md = Some o /\
  new_writer v d9_client 0 o = Some (t, Some [1]) /\ server_open v d9_server 0 (Some [1]) = Some t.
Proof.
  intros v md. exists (mkWopts (Some [1]) true md), (fst (build_root d9_server 0 None)).
  destruct v; repeat split; vm_compute; reflexivity.
Qed.

(* D9b.  R { a X; b Y }  with  client X{2} Y{1}  /  server X{1} Y{2}: wire schemas [2;2;1] and [2;1;2] *)
Definition d9b_client : schema :=
  mkSchema [mkSdef false None [mkField (TStruct 1) false; mkField (TStruct 2) false];
            mkSdef false None [u64; u64]; mkSdef false None [u64]] [].
Definition d9b_server : schema :=
  mkSchema [mkSdef false None [mkField (TStruct 1) false; mkField (TStruct 2) false];
            mkSdef false None [u64]; mkSdef false None [u64; u64]] [].

Lemma d9b_pinned_streams_with_wrong_layout : forall md,
  evolves d9b_client d9b_server = false /\ evolves d9b_server d9b_client = false /\
  own_counts d9b_client 0 = [2; 2; 1] /\ own_counts d9b_server 0 = [2; 1; 2] /\
  handshake VPinned d9b_client 0 d9b_server 0 md = OStream (mkWopts None false md) None false.
Proof. intros md; repeat split; vm_compute; reflexivity. Qed.

Lemma d9b_current_refused : forall md, handshake VCurrent d9b_client 0 d9b_server 0 md = OConnectRefused.
Proof. intros md; vm_compute; reflexivity. Qed.

(* unrelated schemas that the handshake does not refuse (either version): [1;5] against [7] *)
Definition unrel_client : schema :=
  mkSchema [mkSdef false None [mkField (TStruct 1) false]; mkSdef false None [u64; u64; u64; u64; u64]] [].
Definition unrel_server : schema := mkSchema [mkSdef false None [str; str; str; str; str; str; str]] [].

Lemma unrelated_not_refused_by_connect : forall v md,
  evolves unrel_client unrel_server = false /\ evolves unrel_server unrel_client = false /\
  handshake v unrel_client 0 unrel_server 0 md = OServerRefused (mkWopts (Some [1; 5]) true md) (Some [1; 5]).
Proof. intros [] md; repeat split; vm_compute; reflexivity. Qed.

(* the inherent limit of a protocol that exchanges field counts only *)
Definition limit_client : schema := mkSchema [mkSdef false None [u64]] [].
Definition limit_server : schema := mkSchema [mkSdef false None [str]] [].

Lemma same_counts_indistinguishable : forall v md,
  own_counts limit_client 0 = own_counts limit_server 0 /\
  handshake v limit_client 0 limit_server 0 md = OStream (mkWopts None false md) None false.
Proof. intros [] md; split; vm_compute; reflexivity. Qed.

(* why the repair of D9b is NOT an element-wise "new[i] >= old[i]": a legal evolution can move a
   struct forward in first-encounter order.  old: R{a X; b Y; c Z} X{1} Y{3} Z{1};
   new: X gets a field of type Z.  Wire schemas [3;1;3;1] and [3;2;1;3]. *)
Definition shift_old : schema :=
  mkSchema [mkSdef false None [mkField (TStruct 1) false; mkField (TStruct 2) false; mkField (TStruct 3) false];
            mkSdef false None [u64]; mkSdef false None [u64; u64; u64]; mkSdef false None [u64]] [].
Definition shift_new : schema :=
  mkSchema [mkSdef false None [mkField (TStruct 1) false; mkField (TStruct 2) false; mkField (TStruct 3) false];
            mkSdef false None [u64; mkField (TStruct 3) false]; mkSdef false None [u64; u64; u64]; mkSdef false None [u64]] [].

Lemma elementwise_order_is_not_necessary : forall v md,
  evolves shift_old shift_new = true /\
  own_counts shift_old 0 = [3; 1; 3; 1] /\ own_counts shift_new 0 = [3; 2; 1; 3] /\
  handshake v shift_old 0 shift_new 0 md = OStream (mkWopts (Some [3; 1; 3; 1]) true md) (Some [3; 1; 3; 1]) true /\
  nth 2 (own_counts shift_new 0) 0 < nth 2 (own_counts shift_old 0) 0.
Proof. intros [] md; repeat split; vm_compute; reflexivity. Qed.

(* the full-strength statements of the property, and their refutations *)
Definition related (a b : schema) : Prop := evolves a b = true \/ evolves b a = true.

Definition sound_statement (v : version) : Prop :=
  forall scc rc scs rs md o t descr, related scc scs ->
    connect v (own_counts scc rc) (own_counts scs rs) md = Some o ->
    new_writer v scc rc o = Some (t, descr) ->
    server_open v scs rs descr = Some t.

Definition rejects_statement (v : version) : Prop :=
  forall scc rc scs rs md o, ~ related scc scs ->
    connect v (own_counts scc rc) (own_counts scs rs) md = Some o ->
    new_writer v scc rc o = None.

Theorem sound_refuted : forall v, ~ sound_statement v.
Proof.
  intros v H.
  destruct (d9_client_ahead_refused v 0) as [He [_ [_ Hh]]].
  unfold handshake in Hh.
  destruct (connect v (own_counts d9_client 0) (own_counts d9_server 0) 0) as [o|] eqn:Hc; [|discriminate].
  destruct (new_writer v d9_client 0 o) as [[t d]|] eqn:Hw; [|discriminate].
  specialize (H d9_client 0 d9_server 0 0 o t d (or_intror He) Hc Hw).
  rewrite H in Hh. discriminate.
Qed.

Theorem rejects_refuted : forall v, ~ rejects_statement v.
Proof.
  intros v H.
  destruct (unrelated_not_refused_by_connect v 0) as [E1 [E2 Hh]].
  unfold handshake in Hh.
  destruct (connect v (own_counts unrel_client 0) (own_counts unrel_server 0) 0) as [o|] eqn:Hc; [|discriminate].
  assert (Hn : ~ related unrel_client unrel_server) by (intros [X|X]; congruence).
  specialize (H unrel_client 0 unrel_server 0 0 o Hn Hc). rewrite H in Hh. discriminate.
Qed.

(* the pinned code lets diverged schemas with equal sums through as "exact": data flows and the
   server decodes it with a different layout *)
Theorem pinned_diverged_streams : exists scc scs md o,
  ~ related scc scs /\ handshake VPinned scc 0 scs 0 md = OStream o None false.
Proof.
  exists d9b_client, d9b_server, 0, (mkWopts None false 0).
  destruct (d9b_pinned_streams_with_wrong_layout 0) as [E1 [E2 [_ [_ H]]]].
  split; [intros [X|X]; congruence|exact H].
Qed.

(* after the repair: equal length, equal sums, different lists are refused by Connect itself *)
Theorem current_diverged_equal_sums_refused : forall cs ss md,
  length cs = length ss -> sum_counts cs = sum_counts ss -> cs <> ss -> connect VCurrent cs ss md = None.
Proof. intros cs ss md L S N. apply connect_current_refuses_iff. repeat split; assumption. Qed.
