(* Record counters: the step of the generated reader's RecordCount, taken from the stream model
   (coq/Stream/Reader.v), restated for property C16. *)
From Coq Require Import List NArith.
From Stef Require Import Bits Codecs Schema Wire Apply Frame FrameFacts Reader ReaderFacts.
Open Scope N_scope.

Lemma reader_count_step : forall sizes fuel k tef r r' w, rd_left r <> 0 ->
  reader_read sizes fuel (S k) tef r = RdRecord r' w -> rd_count r' = rd_count r + 1.
Proof.
  intros sizes fuel k tef r r' w H1 H2.
  exact (proj2 (proj2 (read_uses_loaded_frame sizes fuel k tef r r' w H1 H2))).
Qed.
