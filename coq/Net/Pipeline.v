(* The collector pipeline at protocol level (otelcol/internal/stefexporter/exporter.go,
   otelcol/internal/stefreceiver/stef.go + internal/responder.go, go/grpc client.go/server.go):

     ConsumeMetrics calls --> exporter (writeMutex: pushMetrics | periodic Flush) --> FIFO of
     chunks (one gRPC stream, C15) --> receiver loop (one frame = one batch, C06) --> consumer
     --> ScheduleAck --> responder tick --> FIFO of acks --> exporter onGrpcAck

   One [stream] is one exporter with its gRPC stream and the receiver goroutines serving it; the
   system is a list of streams that share only the consumer, and its runs are all interleavings of
   the streams' steps.  A data point is identified by (stream, record id): every data point of an
   exported batch becomes one STEF record (C17) and record ids count from 1 on both sides (C16
   lockstep).  Granularity: one step per critical section / blocking operation of the code.
   Abstracted: record contents (C01/C17), transport bytes (C15), consumer outcomes other than
   "accepted" and send failures (C16), connection loss.

   PPinned is the exporter as found; PCurrent after the repair of onGrpcAck (the pinned loop
   deletes the keys lastAcked..ackId-1 of sentPendingAck, so the batch that ends exactly at the
   acknowledged id stays in the map). *)
From Coq Require Import List Arith NArith Bool.
Import ListNotations.
Open Scope N_scope.

Inductive pver := PPinned | PCurrent.

Record stream := mkS {
  (* exporter *)
  x_count : N;                 (* remoteWriter.RecordCount() *)
  x_open : list N;             (* records of the writer's open frame *)
  x_reg : option N;            (* Some first: pushMetrics holds writeMutex, records first+1..x_count written, ack section not yet run *)
  x_last_sent : N;             (* lastSentRecordId *)
  x_last_acked : N;            (* lastAckedRecordId *)
  x_pending : list N;          (* keys of sentPendingAck *)
  x_batches : list (N * N);    (* history: accepted batches as (first id - 1, last id) *)
  x_acks : list N;             (* history: ids passed to OnAck *)
  (* client -> server direction of the gRPC stream: chunks = frames *)
  net : list (list N);
  (* receiver: onStream loop and responder *)
  r_count : N;                 (* reader.RecordCount() *)
  r_sched : option N;          (* batch consumed, ScheduleAck(toRecordID) not yet executed *)
  r_next_ack : N;              (* Responder.nextAckID *)
  r_last_ack_sent : N;         (* Run's lastAckedID *)
  r_delivered : list (list N); (* history: the batches handed to the consumer, in order *)
  (* server -> client direction: acknowledgements in flight *)
  acks : list N
}.

Definition s_init : stream := mkS 0 [] None 0 0 [] [] [] [] 0 None 0 0 [] [].

Inductive action :=
| APushWrite (k : nat) (cuts : list bool)  (* ConsumeMetrics: lock, ToStef writes k records; cuts = after which of them the writer closed a full frame *)
| APushRegister                            (* ack section of pushMetrics, unlock *)
| AFlush                                   (* flusher tick: lock, Flush, unlock *)
| ARecv                                    (* Convert reads one frame, ConsumeMetrics of the next consumer accepts it *)
| ASched                                   (* ScheduleAck(toRecordID) *)
| ATick                                    (* responder tick with something new to acknowledge: SendDataResponse *)
| AOnAck.                                  (* client receive goroutine: onGrpcAck *)

(* Write() of records c+1..c+k; a cut closes the frame after that record and sends it *)
Fixpoint write_records (k : nat) (cuts : list bool) (c : N) (open : list N) (out : list (list N))
  : N * list N * list (list N) :=
  match k with
  | O => (c, open, out)
  | S k' =>
    let id := c + 1 in
    let open' := open ++ [id] in
    match cuts with
    | true :: cs => write_records k' cs id [] (out ++ [open'])
    | _ :: cs => write_records k' cs id open' out
    | [] => write_records k' [] id open' out
    end
  end.

(* onGrpcAck: for ; lastAcked < ackId; lastAcked++ { delete(pending, lastAcked) }
   in closed form (no loop over an id range): the pinned loop deletes the keys lastAcked..ackId-1,
   the repaired one ( lastAcked++ before the delete ) the keys lastAcked+1..ackId *)
Definition ack_deletes (v : pver) (last ack k : N) : bool :=
  match v with
  | PPinned => (last <=? k) && (k <? ack)
  | PCurrent => (last <? k) && (k <=? ack)
  end.

Definition on_ack (v : pver) (last ack : N) (pending : list N) : N * list N :=
  if last <? ack then (ack, filter (fun k => negb (ack_deletes v last ack k)) pending)
  else (last, pending).

Definition set_exporter (s : stream) c open reg ls la pend bat xa nt : stream :=
  mkS c open reg ls la pend bat xa nt (r_count s) (r_sched s) (r_next_ack s) (r_last_ack_sent s) (r_delivered s) (acks s).

(* None = the action is not enabled in this state *)
Definition step (v : pver) (a : action) (s : stream) : option stream :=
  match a with
  | APushWrite k cuts =>
    match x_reg s with
    | Some _ => None                               (* writeMutex is held by another push *)
    | None =>
      let '(c, open, nt) := write_records k cuts (x_count s) (x_open s) (net s) in
      Some (set_exporter s c open (Some (x_count s)) (x_last_sent s) (x_last_acked s) (x_pending s)
                         (x_batches s) (x_acks s) nt)
    end
  | APushRegister =>
    match x_reg s with
    | None => None
    | Some first =>
      let ls := x_count s in
      let pend := if ls <=? x_last_acked s then x_pending s else ls :: x_pending s in
      Some (set_exporter s (x_count s) (x_open s) None ls (x_last_acked s) pend
                         (x_batches s ++ [(first, ls)]) (x_acks s) (net s))
    end
  | AFlush =>
    match x_reg s, x_open s with
    | None, _ :: _ =>
      Some (set_exporter s (x_count s) [] None (x_last_sent s) (x_last_acked s) (x_pending s)
                         (x_batches s) (x_acks s) (net s ++ [x_open s]))
    | _, _ => None
    end
  | ARecv =>
    match r_sched s, net s with
    | None, fr :: rest =>
      let c := r_count s + N.of_nat (length fr) in
      Some (mkS (x_count s) (x_open s) (x_reg s) (x_last_sent s) (x_last_acked s) (x_pending s) (x_batches s) (x_acks s)
                rest c (Some c) (r_next_ack s) (r_last_ack_sent s) (r_delivered s ++ [fr]) (acks s))
    | _, _ => None
    end
  | ASched =>
    match r_sched s with
    | Some c =>
      Some (mkS (x_count s) (x_open s) (x_reg s) (x_last_sent s) (x_last_acked s) (x_pending s) (x_batches s) (x_acks s)
                (net s) (r_count s) None c (r_last_ack_sent s) (r_delivered s) (acks s))
    | None => None
    end
  | ATick =>
    if r_last_ack_sent s <? r_next_ack s then
      Some (mkS (x_count s) (x_open s) (x_reg s) (x_last_sent s) (x_last_acked s) (x_pending s) (x_batches s) (x_acks s)
                (net s) (r_count s) (r_sched s) (r_next_ack s) (r_next_ack s) (r_delivered s) (acks s ++ [r_next_ack s]))
    else None
  | AOnAck =>
    match acks s with
    | a :: rest =>
      let '(la, pend) := on_ack v (x_last_acked s) a (x_pending s) in
      Some (mkS (x_count s) (x_open s) (x_reg s) (x_last_sent s) la pend (x_batches s) (x_acks s ++ [a])
                (net s) (r_count s) (r_sched s) (r_next_ack s) (r_last_ack_sent s) (r_delivered s) rest)
    | [] => None
    end
  end.

(* ConsumeMetrics calls come from the environment; everything else is the pipeline's own work *)
Definition is_input (a : action) : bool := match a with APushWrite _ _ => true | _ => false end.

Definition internal_actions : list action := [APushRegister; AFlush; ARecv; ASched; ATick; AOnAck].

Definition quiescent (v : pver) (s : stream) : bool :=
  forallb (fun a => match step v a s with None => true | Some _ => false end) internal_actions.

(* ---- the system: N exporters, one receiver, all interleavings ---- *)
Definition sys := list stream.

Fixpoint sys_step (v : pver) (i : nat) (a : action) (st : sys) : option sys :=
  match st, i with
  | [], _ => None
  | s :: rest, O => match step v a s with Some s' => Some (s' :: rest) | None => None end
  | s :: rest, S j => match sys_step v j a rest with Some r' => Some (s :: r') | None => None end
  end.

Definition sys_init (n : nat) : sys := repeat s_init n.

(* run a schedule (for witnesses and the model exploration of the check script) *)
Fixpoint run (v : pver) (sched : list (nat * action)) (st : sys) : option sys :=
  match sched with
  | [] => Some st
  | (i, a) :: r => match sys_step v i a st with Some st' => run v r st' | None => None end
  end.

(* what the consumer got from stream s / what the exporter accepted on it *)
Definition delivered (s : stream) : list N := concat (r_delivered s).

Fixpoint ids (c : N) (k : nat) : list N :=
  match k with O => [] | S k' => (c + 1) :: ids (c + 1) k' end.

(* termination measure of the internal work of one stream *)
Definition measure (s : stream) : nat :=
  (match x_reg s with Some _ => 1 | None => 0 end)
  + 5 * (match x_open s with [] => 0 | _ => 1 end)
  + 4 * length (net s)
  + 3 * (match r_sched s with Some _ => 1 | None => 0 end)
  + 2 * (if r_last_ack_sent s <? r_next_ack s then 1 else 0)
  + length (acks s).
