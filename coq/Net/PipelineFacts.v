(* Facts about the pipeline model (Net/Pipeline.v): an inductive invariant of every stream, lifted
   to every reachable state of the N-exporter system (= every interleaving), what it gives in
   quiescent states, and a termination measure for the pipeline's internal work. *)
From Coq Require Import List Arith NArith Bool Lia.
From Coq Require Import ZifyN ZifyNat ZifyBool.
From Stef Require Import Pipeline.
Import ListNotations.
Open Scope N_scope.

(* ------------------------------------------------------------------ small list facts *)
Lemma ids_app : forall k1 k2 c, ids c (k1 + k2) = ids c k1 ++ ids (c + N.of_nat k1) k2.
Proof.
  induction k1 as [|k1 IH]; intros k2 c.
  - cbn [ids Nat.add app]. replace (c + N.of_nat 0) with c by lia. reflexivity.
  - cbn [ids Nat.add app]. rewrite IH. f_equal. f_equal. f_equal. lia.
Qed.

Lemma ids_length : forall k c, length (ids c k) = k.
Proof. induction k as [|k IH]; intros c; cbn [ids length]; [reflexivity|]. rewrite IH. reflexivity. Qed.

Lemma ids_bounds : forall k c x, In x (ids c k) -> c < x <= c + N.of_nat k.
Proof.
  induction k as [|k IH]; intros c x H; cbn [ids In] in H; [contradiction|].
  destruct H as [H|H]; [lia|]. apply IH in H. lia.
Qed.

Lemma ids_nodup : forall k c, NoDup (ids c k).
Proof.
  induction k as [|k IH]; intros c; cbn [ids]; constructor; [|apply IH].
  intros H. apply ids_bounds in H. lia.
Qed.

Lemma nodup_app_l : forall (a b : list N), NoDup (a ++ b) -> NoDup a.
Proof.
  induction a as [|x a IH]; intros b H; [constructor|].
  cbn [app] in H. inversion H as [|? ? Hn Hd]; subst. constructor; [|apply (IH b Hd)].
  intros Hin. apply Hn. apply in_or_app. left. exact Hin.
Qed.

(* strictly increasing chain from a through l ending at b *)
Fixpoint chain (a : N) (l : list N) (b : N) : Prop :=
  match l with [] => a = b | x :: r => a < x /\ chain x r b end.

Lemma chain_app : forall l a b n, chain a l b -> b < n -> chain a (l ++ [n]) n.
Proof.
  induction l as [|x l IH]; intros a b n H Hn; cbn [chain app] in *.
  - subst. split; [exact Hn|reflexivity].
  - destruct H as [H1 H2]. split; [exact H1|]. apply (IH x b n H2 Hn).
Qed.

Lemma chain_le : forall l a b, chain a l b -> a <= b.
Proof.
  induction l as [|x l IH]; intros a b H; cbn [chain] in H; [lia|].
  destruct H as [H1 H2]. apply IH in H2. lia.
Qed.

Lemma chain_last : forall l a b, chain a l b -> l <> [] -> last l 0 = b.
Proof.
  induction l as [|x l IH]; intros a b H Hne; [contradiction|].
  cbn [chain] in H. destruct H as [_ H]. destruct l as [|y l]; [cbn in *; exact H|].
  change (last (x :: y :: l) 0) with (last (y :: l) 0). apply (IH x b H). discriminate.
Qed.

(* contiguous batches (first - 1, last) from a to b *)
Fixpoint bchain (a : N) (l : list (N * N)) (b : N) : Prop :=
  match l with [] => a = b | (f, e) :: r => f = a /\ f <= e /\ bchain e r b end.

Lemma bchain_app : forall l a b e, bchain a l b -> b <= e -> bchain a (l ++ [(b, e)]) e.
Proof.
  induction l as [|[f x] l IH]; intros a b e H He; cbn [bchain app] in *.
  - subst. repeat split; [exact He].
  - destruct H as [H1 [H2 H3]]. repeat split; [exact H1|exact H2|]. apply (IH x b e H3 He).
Qed.

Lemma bchain_end_le : forall l a b f e, bchain a l b -> In (f, e) l -> a <= f /\ f <= e /\ e <= b.
Proof.
  induction l as [|[f0 e0] l IH]; intros a b f e H Hin; [contradiction|].
  cbn [bchain] in H. destruct H as [H1 [H2 H3]]. destruct Hin as [Hin|Hin].
  - inversion Hin; subst. assert (e <= b); [|lia].
    clear - H3. revert e H3. induction l as [|[f1 e1] l IH]; intros e H; cbn [bchain] in H; [lia|].
    destruct H as [A [B C]]. apply IH in C. lia.
  - destruct (IH e0 b f e H3 Hin) as [A [B C]]. lia.
Qed.

(* ------------------------------------------------------------------ the writer *)
Lemma write_records_spec : forall k cuts c open out c' open' out',
  write_records k cuts c open out = (c', open', out') ->
  c' = c + N.of_nat k /\ concat out' ++ open' = concat out ++ open ++ ids c k.
Proof.
  induction k as [|k IH]; intros cuts c open out c' open' out' H; cbn [write_records] in H.
  - inversion H; subst. split; [lia|]. cbn [ids]. rewrite app_nil_r. reflexivity.
  - assert (Hcut : forall cs, write_records k cs (c + 1) [] (out ++ [open ++ [c + 1]]) = (c', open', out') ->
                   c' = c + N.of_nat (S k) /\ concat out' ++ open' = concat out ++ open ++ ids c (S k)).
    { intros cs Hc. apply IH in Hc. destruct Hc as [A B]. split; [lia|].
      rewrite B, concat_app. cbn [concat ids]. rewrite !app_nil_r, <- !app_assoc. reflexivity. }
    assert (Hno : forall cs, write_records k cs (c + 1) (open ++ [c + 1]) out = (c', open', out') ->
                   c' = c + N.of_nat (S k) /\ concat out' ++ open' = concat out ++ open ++ ids c (S k)).
    { intros cs Hc. apply IH in Hc. destruct Hc as [A B]. split; [lia|].
      rewrite B. cbn [ids]. rewrite <- !app_assoc. reflexivity. }
    destruct cuts as [|[|] cs]; [apply (Hno [] H)|apply (Hcut cs H)|apply (Hno cs H)].
Qed.

(* ------------------------------------------------------------------ the invariant *)
Definition flat (s : stream) : list N := delivered s ++ concat (net s) ++ x_open s.

Definition ack_bound (v : pver) (la k : N) : Prop :=
  match v with PPinned => la <= k | PCurrent => la < k end.

Record Inv (v : pver) (s : stream) : Prop := mkInv {
  (* nothing lost, nothing duplicated, nothing reordered: delivered ++ in flight ++ open frame is 1..x_count *)
  i_flow : exists k, x_count s = N.of_nat k /\ flat s = ids 0 k;
  i_rcount : r_count s = N.of_nat (length (delivered s));
  i_sched : match r_sched s with
            | Some c => c = r_count s /\ r_next_ack s <= r_count s
            | None => r_next_ack s = r_count s
            end;
  i_tick : r_last_ack_sent s <= r_next_ack s;
  (* acknowledgements in flight: strictly increasing, above what the exporter has, up to what was sent *)
  i_acks : chain (x_last_acked s) (acks s) (r_last_ack_sent s);
  i_xacks : chain 0 (x_acks s) (x_last_acked s);
  (* accepted batches are contiguous *)
  i_batches : bchain 0 (x_batches s) (match x_reg s with Some f => f | None => x_count s end);
  i_reg : match x_reg s with Some f => f <= x_count s | None => True end;
  (* sentPendingAck: only batch ends not yet passed by an ack, and every batch not yet acknowledged *)
  i_pend_sound : forall k, In k (x_pending s) -> (exists f, In (f, k) (x_batches s)) /\ ack_bound v (x_last_acked s) k;
  i_pend_complete : forall f k, In (f, k) (x_batches s) -> x_last_acked s < k -> In k (x_pending s)
}.

Lemma inv_init : forall v, Inv v s_init.
Proof.
  intros v. constructor; cbn; try reflexivity; try lia; try tauto.
  all: try (exists 0%nat; split; reflexivity).
  all: try (intros k []).
Qed.

Lemma delivered_snoc : forall (l : list (list N)) fr, concat (l ++ [fr]) = concat l ++ fr.
Proof. intros. rewrite concat_app. cbn. rewrite app_nil_r. reflexivity. Qed.

Theorem step_inv : forall v a s s', Inv v s -> step v a s = Some s' -> Inv v s'.
Proof.
  intros v a s s' [Hflow Hrc Hsched Htick Hacks Hxacks Hbat Hreg Hps Hpc] Hstep.
  destruct a as [k cuts| | | | | |]; unfold step in Hstep.
  - (* APushWrite *)
    destruct (x_reg s) eqn:Er; [discriminate|].
    destruct (write_records k cuts (x_count s) (x_open s) (net s)) as [[c open] nt] eqn:Ew.
    inversion Hstep; subst s'; clear Hstep.
    destruct (write_records_spec _ _ _ _ _ _ _ _ Ew) as [Hc Hcat].
    destruct Hflow as [n [Hn Hfl]].
    constructor; unfold set_exporter, flat, delivered in *; cbn [x_count x_open x_reg x_last_sent x_last_acked x_pending x_batches x_acks net r_count r_sched r_next_ack r_last_ack_sent r_delivered acks] in *;
      try assumption.
    + exists (n + k)%nat. split; [lia|]. rewrite Hcat, ids_app. rewrite <- Hfl, <- Hn.
      replace (0 + x_count s) with (x_count s) by lia. rewrite <- !app_assoc. reflexivity.
    + lia.
  - (* APushRegister *)
    destruct (x_reg s) as [first|] eqn:Er; [|discriminate].
    inversion Hstep; subst s'; clear Hstep.
    constructor; unfold set_exporter, flat, delivered in *; cbn [x_count x_open x_reg x_last_sent x_last_acked x_pending x_batches x_acks net r_count r_sched r_next_ack r_last_ack_sent r_delivered acks] in *;
      try assumption; try exact I.
    + apply bchain_app; assumption.
    + intros k Hk. destruct (N.leb_spec (x_count s) (x_last_acked s)) as [Hle|Hgt].
      * destruct (Hps k Hk) as [[f Hf] Hb]. split; [exists f; apply in_or_app; left; exact Hf|exact Hb].
      * destruct Hk as [Hk|Hk].
        -- subst k. split; [exists first; apply in_or_app; right; left; reflexivity|destruct v; cbn; lia].
        -- destruct (Hps k Hk) as [[f Hf] Hb]. split; [exists f; apply in_or_app; left; exact Hf|exact Hb].
    + intros f k Hin Hlt. apply in_app_or in Hin.
      destruct (N.leb_spec (x_count s) (x_last_acked s)) as [Hle|Hgt].
      * destruct Hin as [Hin|[Hin|[]]]; [apply (Hpc f k Hin Hlt)|inversion Hin; subst; lia].
      * destruct Hin as [Hin|[Hin|[]]]; [right; apply (Hpc f k Hin Hlt)|inversion Hin; subst; left; reflexivity].
  - (* AFlush *)
    destruct (x_reg s) eqn:Er; [discriminate|]. destruct (x_open s) as [|o os] eqn:Eo; [discriminate|].
    inversion Hstep; subst s'; clear Hstep.
    constructor; unfold set_exporter, flat, delivered in *; cbn [x_count x_open x_reg x_last_sent x_last_acked x_pending x_batches x_acks net r_count r_sched r_next_ack r_last_ack_sent r_delivered acks] in *;
      try assumption.
    + destruct Hflow as [n [Hn Hfl]]. exists n. split; [exact Hn|]. rewrite Eo in Hfl. rewrite <- Hfl, delivered_snoc, app_nil_r. reflexivity.
  - (* ARecv *)
    destruct (r_sched s) eqn:Es; [discriminate|]. destruct (net s) as [|fr rest] eqn:En; [discriminate|].
    inversion Hstep; subst s'; clear Hstep.
    constructor; unfold flat, delivered in *; cbn [x_count x_open x_reg x_last_sent x_last_acked x_pending x_batches x_acks net r_count r_sched r_next_ack r_last_ack_sent r_delivered acks] in *;
      try assumption.
    + destruct Hflow as [n [Hn Hfl]]. exists n. split; [exact Hn|]. rewrite En in Hfl. rewrite <- Hfl, delivered_snoc.
      cbn [concat]. rewrite <- !app_assoc. reflexivity.
    + rewrite delivered_snoc, app_length. lia.
    + split; [reflexivity|lia].
  - (* ASched *)
    destruct (r_sched s) as [c|] eqn:Es; [|discriminate].
    inversion Hstep; subst s'; clear Hstep. destruct Hsched as [Hc Hle].
    constructor; unfold flat, delivered in *; cbn [x_count x_open x_reg x_last_sent x_last_acked x_pending x_batches x_acks net r_count r_sched r_next_ack r_last_ack_sent r_delivered acks] in *;
      try assumption; lia.
  - (* ATick *)
    destruct (N.ltb_spec (r_last_ack_sent s) (r_next_ack s)) as [Hlt|]; [|discriminate].
    inversion Hstep; subst s'; clear Hstep.
    constructor; unfold flat, delivered in *; cbn [x_count x_open x_reg x_last_sent x_last_acked x_pending x_batches x_acks net r_count r_sched r_next_ack r_last_ack_sent r_delivered acks] in *;
      try assumption; try lia.
    apply (chain_app _ _ _ _ Hacks Hlt).
  - (* AOnAck *)
    destruct (acks s) as [|a rest] eqn:Ea; [discriminate|].
    cbn [chain] in Hacks. destruct Hacks as [Hlt Hch].
    unfold on_ack in Hstep. destruct (N.ltb_spec (x_last_acked s) a) as [_|]; [|lia].
    inversion Hstep; subst s'; clear Hstep.
    constructor; unfold flat, delivered in *; cbn [x_count x_open x_reg x_last_sent x_last_acked x_pending x_batches x_acks net r_count r_sched r_next_ack r_last_ack_sent r_delivered acks] in *;
      try assumption.
    + apply (chain_app _ _ _ _ Hxacks Hlt).
    + intros k Hk. apply filter_In in Hk. destruct Hk as [Hk Hnd]. destruct (Hps k Hk) as [Hf Hb].
      split; [exact Hf|]. apply negb_true_iff in Hnd. destruct v; cbn [ack_deletes ack_bound] in *; lia.
    + intros f k Hin Hk. apply filter_In. split; [apply (Hpc f k Hin); lia|].
      apply negb_true_iff. destruct v; cbn [ack_deletes]; lia.
Qed.

(* ------------------------------------------------------------------ the system *)
Inductive reachable (v : pver) (n : nat) : sys -> Prop :=
| r_init : reachable v n (sys_init n)
| r_step : forall st i a st', reachable v n st -> sys_step v i a st = Some st' -> reachable v n st'.

Lemma sys_step_inv : forall v i a st st', Forall (Inv v) st -> sys_step v i a st = Some st' -> Forall (Inv v) st'.
Proof.
  intros v i a st. revert i. induction st as [|s rest IH]; intros i st' Hall Hs; [destruct i; discriminate|].
  inversion Hall as [|? ? Hs0 Hrest]; subst. destruct i as [|j]; cbn [sys_step] in Hs.
  - destruct (step v a s) as [s'|] eqn:E; [|discriminate]. inversion Hs; subst.
    constructor; [apply (step_inv v a s s' Hs0 E)|exact Hrest].
  - destruct (sys_step v j a rest) as [r'|] eqn:E; [|discriminate]. inversion Hs; subst.
    constructor; [exact Hs0|apply (IH j r' Hrest E)].
Qed.

Theorem reachable_inv : forall v n st, reachable v n st -> Forall (Inv v) st.
Proof.
  intros v n st H. induction H as [|st i a st' _ IH Hs].
  - unfold sys_init. apply Forall_forall. intros s Hin. rewrite (repeat_spec _ _ _ Hin). apply inv_init.
  - apply (sys_step_inv v i a st st' IH Hs).
Qed.

(* ------------------------------------------------------------------ safety *)
(* in every reachable state of the N-exporter system, on every stream: what the consumer got is a
   duplicate-free, in-order prefix of the data points the exporter accepted; nothing else *)
Theorem at_most_once_in_order : forall v n st s, reachable v n st -> In s st ->
  exists k rest, x_count s = N.of_nat k /\ ids 0 k = delivered s ++ rest /\ NoDup (delivered s).
Proof.
  intros v n st s Hr Hin. pose proof (reachable_inv v n st Hr) as Hall.
  rewrite Forall_forall in Hall. destruct (Hall s Hin) as [[k [Hk Hfl]] _ _ _ _ _ _ _ _ _].
  exists k, (concat (net s) ++ x_open s). split; [exact Hk|]. split; [symmetry; exact Hfl|].
  pose proof (ids_nodup k 0) as Hnd. rewrite <- Hfl in Hnd. unfold flat in Hnd.
  apply nodup_app_l in Hnd. exact Hnd.
Qed.

(* acknowledgements never run ahead of delivery, and are strictly increasing at the exporter *)
Theorem acks_only_delivered : forall v n st s, reachable v n st -> In s st ->
  chain 0 (x_acks s) (x_last_acked s) /\ x_last_acked s <= N.of_nat (length (delivered s)).
Proof.
  intros v n st s Hr Hin. pose proof (reachable_inv v n st Hr) as Hall.
  rewrite Forall_forall in Hall. destruct (Hall s Hin) as [_ Hrc Hsched Htick Hacks Hxacks _ _ _ _].
  split; [exact Hxacks|]. apply chain_le in Hacks. rewrite <- Hrc.
  destruct (r_sched s) as [c|]; [destruct Hsched|]; lia.
Qed.

(* ------------------------------------------------------------------ quiescence *)
Lemma quiescent_fields : forall v s, quiescent v s = true ->
  x_reg s = None /\ x_open s = [] /\ (r_sched s = None -> net s = []) /\ r_sched s = None /\
  (r_last_ack_sent s <? r_next_ack s) = false /\ acks s = [].
Proof.
  intros v s H. unfold quiescent, internal_actions in H. cbn [forallb] in H.
  repeat (apply andb_true_iff in H; destruct H as [?H H]).
  unfold step in *.
  assert (Er : x_reg s = None) by (destruct (x_reg s); [discriminate|reflexivity]).
  rewrite Er in *.
  assert (Eo : x_open s = []) by (destruct (x_open s); [reflexivity|discriminate]).
  assert (Es : r_sched s = None) by (destruct (r_sched s); [discriminate|reflexivity]).
  rewrite Es in *.
  assert (En : net s = []) by (destruct (net s); [reflexivity|discriminate]).
  assert (Et : (r_last_ack_sent s <? r_next_ack s) = false) by (destruct (r_last_ack_sent s <? r_next_ack s); [discriminate|reflexivity]).
  assert (Ea : acks s = []).
  { destruct (acks s) as [|a r]; [reflexivity|]. destruct (on_ack v (x_last_acked s) a (x_pending s)); discriminate. }
  repeat split; try assumption. intros _; exact En.
Qed.

(* a stream with no internal action enabled has delivered exactly the accepted data points, once
   each and in order, and the exporter has been told so: the last OnAck carried the id of the last
   accepted record *)
Theorem quiescent_all_delivered_acked : forall v s, Inv v s -> quiescent v s = true ->
  exists k, x_count s = N.of_nat k /\ delivered s = ids 0 k /\
            x_last_acked s = x_count s /\ (k <> 0%nat -> last (x_acks s) 0 = x_count s) /\
            bchain 0 (x_batches s) (x_count s).
Proof.
  intros v s [Hflow Hrc Hsched Htick Hacks Hxacks Hbat Hreg Hps Hpc] Hq.
  destruct (quiescent_fields v s Hq) as [Er [Eo [En [Es [Et Ea]]]]]. specialize (En Es).
  destruct Hflow as [k [Hk Hfl]]. exists k. split; [exact Hk|].
  unfold flat in Hfl. rewrite En, Eo in Hfl. cbn [concat] in Hfl. rewrite !app_nil_r in Hfl.
  split; [exact Hfl|].
  rewrite Es in Hsched. rewrite Ea in Hacks. cbn [chain] in Hacks. apply N.ltb_ge in Et.
  rewrite Hfl, ids_length in Hrc.
  assert (Hla : x_last_acked s = x_count s) by lia.
  split; [exact Hla|]. split.
  - intros Hne. rewrite <- Hla. apply (chain_last _ _ _ Hxacks).
    intros Hnil. rewrite Hnil in Hxacks. cbn [chain] in Hxacks. lia.
  - rewrite Er in Hbat. exact Hbat.
Qed.

(* ... and (repaired exporter) nothing is left in sentPendingAck *)
Theorem quiescent_pending_empty : forall s, Inv PCurrent s -> quiescent PCurrent s = true -> x_pending s = [].
Proof.
  intros s Hinv Hq.
  destruct (quiescent_all_delivered_acked PCurrent s Hinv Hq) as [k [_ [_ [Hla [_ Hb]]]]].
  destruct Hinv as [_ _ _ _ _ _ _ _ Hps _].
  destruct (x_pending s) as [|p l] eqn:E; [reflexivity|].
  destruct (Hps p (or_introl eq_refl)) as [[f Hf] Hbound]. cbn [ack_bound] in Hbound.
  destruct (bchain_end_le _ _ _ _ _ Hb Hf) as [_ [_ Hle]]. lia.
Qed.

(* lifted to the system: every reachable state in which no stream has an internal action enabled *)
Theorem system_quiescent : forall v n st, reachable v n st -> forallb (quiescent v) st = true ->
  Forall (fun s => exists k, x_count s = N.of_nat k /\ delivered s = ids 0 k /\ x_last_acked s = x_count s /\
                             (k <> 0%nat -> last (x_acks s) 0 = x_count s) /\ bchain 0 (x_batches s) (x_count s)) st.
Proof.
  intros v n st Hr Hq. pose proof (reachable_inv v n st Hr) as Hall.
  rewrite Forall_forall in *. rewrite forallb_forall in Hq. intros s Hin.
  apply (quiescent_all_delivered_acked v s (Hall s Hin) (Hq s Hin)).
Qed.

Theorem system_quiescent_pending : forall n st, reachable PCurrent n st -> forallb (quiescent PCurrent) st = true ->
  Forall (fun s => x_pending s = []) st.
Proof.
  intros n st Hr Hq. pose proof (reachable_inv PCurrent n st Hr) as Hall.
  rewrite Forall_forall in *. rewrite forallb_forall in Hq. intros s Hin.
  apply (quiescent_pending_empty s (Hall s Hin) (Hq s Hin)).
Qed.

(* the exporter as found keeps the batch that ends at the acknowledged id: a complete run of one
   batch ends quiescent with that batch still in sentPendingAck *)
Definition one_batch_schedule : list (nat * action) :=
  [(0%nat, APushWrite 1 []); (0%nat, APushRegister); (0%nat, AFlush); (0%nat, ARecv); (0%nat, ASched);
   (0%nat, ATick); (0%nat, AOnAck)].

Lemma pinned_pending_retained :
  match run PPinned one_batch_schedule (sys_init 1) with
  | Some [s] => quiescent PPinned s = true /\ x_last_acked s = 1 /\ x_acks s = [1] /\ x_pending s = [1]
  | _ => False
  end.
Proof. vm_compute. repeat split; reflexivity. Qed.

Lemma current_pending_released :
  match run PCurrent one_batch_schedule (sys_init 1) with
  | Some [s] => quiescent PCurrent s = true /\ x_last_acked s = 1 /\ x_acks s = [1] /\ x_pending s = []
  | _ => False
  end.
Proof. vm_compute. repeat split; reflexivity. Qed.

Lemma run_reachable : forall v n sched st st', reachable v n st -> run v sched st = Some st' -> reachable v n st'.
Proof.
  intros v n. induction sched as [|[i a] r IH]; intros st st' Hr H; cbn [run] in H.
  - inversion H; subst. exact Hr.
  - destruct (sys_step v i a st) as [st1|] eqn:E; [|discriminate].
    apply (IH st1 st' (r_step v n st i a st1 Hr E) H).
Qed.

Theorem pinned_pending_refuted : exists st s, reachable PPinned 1 st /\ st = [s] /\
  quiescent PPinned s = true /\ x_pending s <> [].
Proof.
  pose proof pinned_pending_retained as H.
  destruct (run PPinned one_batch_schedule (sys_init 1)) as [[|s [|? ?]]|] eqn:E; try contradiction.
  exists [s], s. split; [apply (run_reachable PPinned 1 _ _ _ (r_init PPinned 1) E)|].
  split; [reflexivity|]. destruct H as [Hq [_ [_ Hp]]]. split; [exact Hq|]. rewrite Hp. discriminate.
Qed.

(* ------------------------------------------------------------------ progress *)
(* every internal step strictly decreases the measure: without new ConsumeMetrics calls the
   pipeline cannot work for ever, whatever the schedule; it stops in a quiescent state *)
Theorem internal_step_decreases : forall v a s s', is_input a = false -> step v a s = Some s' ->
  (measure s' < measure s)%nat.
Proof.
  intros v a s s' Hin Hs. destruct a as [k cuts| | | | | |]; [discriminate| | | | | |]; unfold step in Hs.
  - destruct (x_reg s) eqn:Er; [|discriminate]. inversion Hs; subst.
    unfold measure, set_exporter. cbn [x_reg x_open net r_sched r_last_ack_sent r_next_ack acks]. rewrite Er. lia.
  - destruct (x_reg s) eqn:Er; [discriminate|]. destruct (x_open s) eqn:Eo; [discriminate|]. inversion Hs; subst.
    unfold measure, set_exporter. cbn [x_reg x_open net r_sched r_last_ack_sent r_next_ack acks]. rewrite Er, Eo, app_length. cbn [length]. lia.
  - destruct (r_sched s) eqn:Es; [discriminate|]. destruct (net s) eqn:En; [discriminate|]. inversion Hs; subst.
    unfold measure. cbn [x_reg x_open net r_sched r_last_ack_sent r_next_ack acks]. rewrite Es, En. cbn [length]. lia.
  - destruct (r_sched s) eqn:Es; [|discriminate]. inversion Hs; subst.
    unfold measure. cbn [x_reg x_open net r_sched r_last_ack_sent r_next_ack acks]. rewrite Es.
    destruct (r_last_ack_sent s <? n); destruct (r_last_ack_sent s <? r_next_ack s); lia.
  - destruct (r_last_ack_sent s <? r_next_ack s) eqn:Et; [|discriminate]. inversion Hs; subst.
    unfold measure. cbn [x_reg x_open net r_sched r_last_ack_sent r_next_ack acks]. rewrite Et, N.ltb_irrefl, app_length. cbn [length]. lia.
  - destruct (acks s) eqn:Ea; [discriminate|]. destruct (on_ack v (x_last_acked s) n (x_pending s)). inversion Hs; subst.
    unfold measure. cbn [x_reg x_open net r_sched r_last_ack_sent r_next_ack acks]. rewrite Ea. cbn [length]. lia.
Qed.

Definition sys_measure (st : sys) : nat := fold_right (fun s m => (measure s + m)%nat) 0%nat st.

Lemma sys_step_decreases : forall v i a st st', is_input a = false -> sys_step v i a st = Some st' ->
  (sys_measure st' < sys_measure st)%nat.
Proof.
  intros v i a st. revert i. induction st as [|s rest IH]; intros i st' Hin Hs; [destruct i; discriminate|].
  destruct i as [|j]; cbn [sys_step] in Hs.
  - destruct (step v a s) as [s'|] eqn:E; [|discriminate]. inversion Hs; subst.
    pose proof (internal_step_decreases v a s s' Hin E). unfold sys_measure. cbn [fold_right]. lia.
  - destruct (sys_step v j a rest) as [r'|] eqn:E; [|discriminate]. inversion Hs; subst.
    pose proof (IH j r' Hin E). unfold sys_measure in *. cbn [fold_right]. lia.
Qed.

(* any run made of internal steps only is shorter than the measure of its first state *)
Theorem internal_runs_bounded : forall v sched st st',
  forallb (fun ia => negb (is_input (snd ia))) sched = true -> run v sched st = Some st' ->
  (length sched + sys_measure st' <= sys_measure st)%nat.
Proof.
  intros v. induction sched as [|[i a] r IH]; intros st st' Hall H; cbn [run] in H.
  - inversion H; subst. cbn. lia.
  - cbn [forallb snd] in Hall. apply andb_true_iff in Hall. destruct Hall as [Ha Hr].
    apply negb_true_iff in Ha.
    destruct (sys_step v i a st) as [st1|] eqn:E; [|discriminate].
    pose proof (sys_step_decreases v i a st st1 Ha E). pose proof (IH st1 st' Hr H). cbn [length]. lia.
Qed.

(* a state that is not quiescent has an enabled internal step (so a maximal internal run ends
   quiescent, and by the bound above it ends) *)
Theorem not_quiescent_can_step : forall v s, quiescent v s = false ->
  exists a s', In a internal_actions /\ step v a s = Some s'.
Proof.
  intros v s H. unfold quiescent in H.
  assert (Hex : exists a, In a internal_actions /\ step v a s <> None).
  { induction internal_actions as [|a l IH]; [discriminate|]. cbn [forallb] in H.
    destruct (step v a s) eqn:E.
    - exists a. split; [left; reflexivity|congruence].
    - cbn in H. destruct (IH H) as [b [Hb Hs]]. exists b. split; [right; exact Hb|exact Hs]. }
  destruct Hex as [a [Ha Hs]]. destruct (step v a s) as [s'|] eqn:E; [|contradiction].
  exists a, s'. split; [exact Ha|exact E].
Qed.
