(* The receiver's acknowledgement machinery as a labelled transition system
   (otelcol/internal/stefreceiver/stef.go onStream; .../internal/responder.go Responder).

   Two threads and a timer share: nextAckID (atomic), badDataCh (buffered channel of capacity
   badDataMaxBatchSize, FIFO, send blocks when full), lastError (atomic), stopCh.

   onStream loop:   [LTop]      respError := resp.LastError(); non-nil => return
                                fromRecordID := reader.RecordCount(); Convert(reader): reads the
                                records of the next frame (at least one); error => return
                                toRecordID := reader.RecordCount()
                    [LConsume]  err := nextMetrics.ConsumeMetrics(batch)
                    [LSchedAck] ok        => resp.ScheduleAck(toRecordID)        (atomic store)
                    [LPush]     permanent => resp.ScheduleBadDataResponse{from, to} (channel send)
                                transient => return status Unavailable
                    [LReturn]   deferred resp.Stop(): close(stopCh)
   Responder.Run:   [LSelBad | LSelTick | LSelStop]  select among the READY cases; Go picks one
                                of the ready cases at random, the model offers all of them
                    bad data:   composeBadDataResponse: ack id := ToID of the first, then
                    [LTake]     non-blocking receives while the channel is non-empty (ack id :=
                    [LComposeDone] max), then [LSend] SendDataResponse; ok => lastAckedID := ack id;
                                error => [LStoreErr] lastError.Store(err)
                    tick:       readRecordID := nextAckID.Load()   (part of LSelTick)
                                (current code only) [LDrainTake | LDrainEmpty] one non-blocking
                                receive from badDataCh; bad data found => compose + send as above
                    [LAckCheck] readRecordID > lastAckedID => lastAckedID := readRecordID,
                    [LSend]     SendDataResponse(ack); error => [LStoreErr]
   Timer:           [LTick]     the ticker's channel (capacity 1) becomes ready.

   cfg selects the code version: cfg_pinned is the tree as first read (no drain before the ack,
   FromID = fromRecordID); cfg_current is the repaired code (drain, FromID = fromRecordID + 1).
   Record ids are uint64 in Go; the model uses N (no wrap-around: 2^64 records are out of reach).
   No proofs in this file. *)
From Coq Require Import List NArith Arith Bool.
Import ListNotations.
Open Scope N_scope.

Inductive outcome := OOk | OPerm | OTrans.

Record cfg := mkCfg {
  c_drain : bool;    (* tick case reports pending bad data before acking *)
  c_from1 : bool;    (* BadData.FromID = fromRecordID + 1 *)
  c_cap : nat        (* badDataMaxBatchSize *)
}.
Definition bad_data_max_batch_size : nat := 10.
Definition cfg_pinned : cfg := mkCfg false false bad_data_max_batch_size.
Definition cfg_current : cfg := mkCfg true true bad_data_max_batch_size.

(* what the environment does: the batches (records per frame, consumer outcome) and whether the
   k-th SendDataResponse succeeds *)
Record script := mkScript { sc_batches : list (positive * outcome); sc_send_ok : nat -> bool }.

Definition range := (N * N)%type.
Record resp := mkResp { r_ack : N; r_ranges : list range }.

Inductive opc :=
| OTop | OConsume (from to : N) (o : outcome) | OAck (to : N) | OBad (from to : N) | ORet | ODone.

Inductive rpc :=
| RSelect
| RCompose (rs : list range) (ack : N) (cont : option N)
| RSendBad (rs : list range) (ack : N) (cont : option N)
| RStoreErr (cont : option N)
| RTickDrain (r : N) | RTickAck (r : N) | RSendAck (r : N)
| RDone.

Definition batch := (N * N * outcome)%type.   (* records from+1 .. to, consumer outcome *)

Record state := mkSt {
  s_opc : opc;
  s_next : nat;                 (* index of the next frame to decode *)
  s_count : N;                  (* reader.RecordCount() *)
  s_nextack : N;                (* Responder.nextAckID *)
  s_ch : list range;            (* badDataCh *)
  s_lasterr : bool;             (* Responder.lastError != nil *)
  s_stopped : bool;             (* stopCh closed *)
  s_tick : bool;                (* ticker channel ready *)
  s_rpc : rpc;
  s_lastacked : N;              (* Run's local lastAckedID *)
  s_sends : nat;                (* SendDataResponse calls so far *)
  s_log : list (resp * bool);   (* history: every SendDataResponse call with its result *)
  s_hist : list batch           (* history: every batch handed to the consumer *)
}.

Definition st_init : state := mkSt OTop 0 0 0 [] false false false RSelect 0 0 [] [].

Inductive label :=
| LTop | LConsume (i : nat) (o : outcome) | LSchedAck | LPush | LReturn
| LTick
| LSelBad | LSelTick | LSelStop | LTake | LComposeDone
| LSend (r : resp) (ok : bool) | LStoreErr
| LDrainTake | LDrainEmpty | LAckCheck.

Definition bad_from (c : cfg) (from : N) : N := if c_from1 c then from + 1 else from.

(* ------------------------------------------------------------------ onStream *)
Definition o_steps (c : cfg) (sc : script) (s : state) : list (label * state) :=
  match s_opc s with
  | OTop =>
      if s_lasterr s then
        [(LTop, mkSt ORet (s_next s) (s_count s) (s_nextack s) (s_ch s) (s_lasterr s) (s_stopped s) (s_tick s)
                     (s_rpc s) (s_lastacked s) (s_sends s) (s_log s) (s_hist s))]
      else match nth_error (sc_batches sc) (s_next s) with
           | None =>
             [(LTop, mkSt ORet (s_next s) (s_count s) (s_nextack s) (s_ch s) (s_lasterr s) (s_stopped s) (s_tick s)
                          (s_rpc s) (s_lastacked s) (s_sends s) (s_log s) (s_hist s))]
           | Some (n, o) =>
             let to := s_count s + Npos n in
             [(LTop, mkSt (OConsume (s_count s) to o) (S (s_next s)) to (s_nextack s) (s_ch s) (s_lasterr s)
                          (s_stopped s) (s_tick s) (s_rpc s) (s_lastacked s) (s_sends s) (s_log s) (s_hist s))]
           end
  | OConsume from to o =>
      let pc := match o with
                | OOk => OAck to
                | OPerm => OBad (bad_from c from) to
                | OTrans => ORet
                end in
      [(LConsume (length (s_hist s)) o,
        mkSt pc (s_next s) (s_count s) (s_nextack s) (s_ch s) (s_lasterr s) (s_stopped s) (s_tick s)
             (s_rpc s) (s_lastacked s) (s_sends s) (s_log s) (s_hist s ++ [(from, to, o)]))]
  | OAck to =>
      [(LSchedAck, mkSt OTop (s_next s) (s_count s) to (s_ch s) (s_lasterr s) (s_stopped s) (s_tick s)
                        (s_rpc s) (s_lastacked s) (s_sends s) (s_log s) (s_hist s))]
  | OBad f t =>
      if (length (s_ch s) <? c_cap c)%nat then
        [(LPush, mkSt OTop (s_next s) (s_count s) (s_nextack s) (s_ch s ++ [(f, t)]) (s_lasterr s) (s_stopped s)
                      (s_tick s) (s_rpc s) (s_lastacked s) (s_sends s) (s_log s) (s_hist s))]
      else []      (* channel full: the send blocks *)
  | ORet =>
      [(LReturn, mkSt ODone (s_next s) (s_count s) (s_nextack s) (s_ch s) (s_lasterr s) true (s_tick s)
                      (s_rpc s) (s_lastacked s) (s_sends s) (s_log s) (s_hist s))]
  | ODone => []
  end.

(* ------------------------------------------------------------------ Responder.Run *)
Definition after_bad (cont : option N) : rpc :=
  match cont with None => RSelect | Some r => RTickAck r end.

Definition set_run (s : state) (pc : rpc) (ch : list range) (tick : bool) : state :=
  mkSt (s_opc s) (s_next s) (s_count s) (s_nextack s) ch (s_lasterr s) (s_stopped s) tick
       pc (s_lastacked s) (s_sends s) (s_log s) (s_hist s).

Definition do_send (sc : script) (s : state) (r : resp) (pc_ok pc_fail : rpc) (acked_ok : N) : label * state :=
  let ok := sc_send_ok sc (s_sends s) in
  (LSend r ok,
   mkSt (s_opc s) (s_next s) (s_count s) (s_nextack s) (s_ch s) (s_lasterr s) (s_stopped s) (s_tick s)
        (if ok then pc_ok else pc_fail) (if ok then acked_ok else s_lastacked s) (S (s_sends s))
        (s_log s ++ [(r, ok)]) (s_hist s)).

Definition r_steps (c : cfg) (sc : script) (s : state) : list (label * state) :=
  match s_rpc s with
  | RSelect =>
      (match s_ch s with
       | b :: rest => [(LSelBad, set_run s (RCompose [b] (snd b) None) rest (s_tick s))]
       | [] => []
       end) ++
      (if s_tick s then
         [(LSelTick, set_run s (if c_drain c then RTickDrain (s_nextack s) else RTickAck (s_nextack s))
                             (s_ch s) false)]
       else []) ++
      (if s_stopped s then [(LSelStop, set_run s RDone (s_ch s) (s_tick s))] else [])
  | RCompose rs ack cont =>
      match s_ch s with
      | b :: rest => [(LTake, set_run s (RCompose (rs ++ [b]) (if ack <? snd b then snd b else ack) cont) rest (s_tick s))]
      | [] => [(LComposeDone, set_run s (RSendBad rs ack cont) (s_ch s) (s_tick s))]
      end
  | RSendBad rs ack cont =>
      [do_send sc s (mkResp ack rs) (after_bad cont) (RStoreErr cont) ack]
  | RStoreErr cont =>
      [(LStoreErr, mkSt (s_opc s) (s_next s) (s_count s) (s_nextack s) (s_ch s) true (s_stopped s) (s_tick s)
                        (after_bad cont) (s_lastacked s) (s_sends s) (s_log s) (s_hist s))]
  | RTickDrain r =>
      match s_ch s with
      | b :: rest => [(LDrainTake, set_run s (RCompose [b] (snd b) (Some r)) rest (s_tick s))]
      | [] => [(LDrainEmpty, set_run s (RTickAck r) (s_ch s) (s_tick s))]
      end
  | RTickAck r =>
      if s_lastacked s <? r then
        [(LAckCheck, mkSt (s_opc s) (s_next s) (s_count s) (s_nextack s) (s_ch s) (s_lasterr s) (s_stopped s)
                          (s_tick s) (RSendAck r) r (s_sends s) (s_log s) (s_hist s))]
      else [(LAckCheck, set_run s RSelect (s_ch s) (s_tick s))]
  | RSendAck r =>
      [do_send sc s (mkResp r []) RSelect (RStoreErr None) (s_lastacked s)]
  | RDone => []
  end.

(* ------------------------------------------------------------------ timer *)
Definition e_steps (s : state) : list (label * state) :=
  [(LTick, set_run s (s_rpc s) (s_ch s) true)].

Definition steps (c : cfg) (sc : script) (s : state) : list (label * state) :=
  o_steps c sc s ++ r_steps c sc s ++ e_steps s.

(* every state some schedule can reach *)
Inductive reachable (c : cfg) (sc : script) : state -> Prop :=
| reach_init : reachable c sc st_init
| reach_step : forall s l s', reachable c sc s -> In (l, s') (steps c sc s) -> reachable c sc s'.

(* ------------------------------------------------------------------ running a schedule *)
Definition outcome_eqb (a b : outcome) : bool :=
  match a, b with OOk, OOk | OPerm, OPerm | OTrans, OTrans => true | _, _ => false end.
Fixpoint ranges_eqb (a b : list range) : bool :=
  match a, b with
  | [], [] => true
  | (x1, y1) :: r1, (x2, y2) :: r2 => (x1 =? x2) && (y1 =? y2) && ranges_eqb r1 r2
  | _, _ => false
  end.
Definition resp_eqb (a b : resp) : bool := (r_ack a =? r_ack b) && ranges_eqb (r_ranges a) (r_ranges b).
Definition label_eqb (a b : label) : bool :=
  match a, b with
  | LTop, LTop | LSchedAck, LSchedAck | LPush, LPush | LReturn, LReturn | LTick, LTick
  | LSelBad, LSelBad | LSelTick, LSelTick | LSelStop, LSelStop | LTake, LTake
  | LComposeDone, LComposeDone | LStoreErr, LStoreErr | LDrainTake, LDrainTake
  | LDrainEmpty, LDrainEmpty | LAckCheck, LAckCheck => true
  | LConsume i o, LConsume j p => Nat.eqb i j && outcome_eqb o p
  | LSend r ok, LSend r' ok' => resp_eqb r r' && Bool.eqb ok ok'
  | _, _ => false
  end.

Fixpoint find_label (l : label) (xs : list (label * state)) : option state :=
  match xs with
  | [] => None
  | (l', s) :: r => if label_eqb l l' then Some s else find_label l r
  end.

(* a schedule is a sequence of labels; None when a label is not enabled *)
Fixpoint run (c : cfg) (sc : script) (s : state) (ls : list label) : option state :=
  match ls with
  | [] => Some s
  | l :: r => match find_label l (steps c sc s) with
              | None => None
              | Some s' => run c sc s' r
              end
  end.

(* what a client / test harness can see of a step *)
Definition visible (l : label) : bool :=
  match l with LConsume _ _ | LSend _ _ => true | _ => false end.

(* ------------------------------------------------------------------ the properties, on histories *)
(* ack ids of the responses that reached the client *)
Definition ok_acks (log : list (resp * bool)) : list N :=
  map (fun x => r_ack (fst x)) (filter (fun x => snd x) log).
(* bad ranges carried by responses, in order *)
Definition reported (log : list (resp * bool)) : list range :=
  concat (map (fun x => r_ranges (fst x)) log).

Definition is_perm (b : batch) : bool := match snd b with OPerm => true | _ => false end.
(* the exact id range of every permanently rejected batch, in order *)
Definition exact_ranges (h : list batch) : list range :=
  map (fun b => (fst (fst b) + 1, snd (fst b))) (filter is_perm h).
(* what the code reports for them *)
Definition code_ranges (c : cfg) (h : list batch) : list range :=
  map (fun b => (bad_from c (fst (fst b)), snd (fst b))) (filter is_perm h).

(* executable versions used by the drivers and by the refutations *)
Fixpoint sorted_le (l : list N) : bool :=
  match l with
  | a :: ((b :: _) as r) => (a <=? b) && sorted_le r
  | _ => true
  end.
Definition mono_ok (s : state) : bool := sorted_le (ok_acks (s_log s)).

(* batch b is settled w.r.t. reported ranges rs: accepted, or all its ids inside one range *)
Definition batch_settled (rs : list range) (b : batch) : bool :=
  match snd b with
  | OOk => true
  | _ => existsb (fun r => (fst r <=? fst (fst b) + 1) && (snd (fst b) <=? snd r)) rs
  end.
(* the response r, sent after the responses pre, acknowledges only settled batches and its ack
   id is a batch boundary not beyond what was consumed *)
Definition sound_at (h : list batch) (pre : list (resp * bool)) (r : resp) : bool :=
  let rs := reported pre ++ r_ranges r in
  forallb (fun b => if snd (fst b) <=? r_ack r then batch_settled rs b else true) h &&
  ((r_ack r =? 0) || existsb (fun b => snd (fst b) =? r_ack r) h).
Fixpoint sound_log (h : list batch) (pre rest : list (resp * bool)) : bool :=
  match rest with
  | [] => true
  | (r, ok) :: tl => sound_at h pre r && sound_log h (pre ++ [(r, ok)]) tl
  end.
Definition sound_ok (s : state) : bool := sound_log (s_hist s) [] (s_log s).

Fixpoint is_prefix (a b : list range) : bool :=
  match a, b with
  | [], _ => true
  | (x1, y1) :: r1, (x2, y2) :: r2 => (x1 =? x2) && (y1 =? y2) && is_prefix r1 r2
  | _, _ => false
  end.
(* every reported range is the exact range of a rejected batch, in order, none twice *)
Definition ranges_ok (s : state) : bool := is_prefix (reported (s_log s)) (exact_ranges (s_hist s)).
