(* Facts about the responder LTS (coq/Net/Responder.v): invariants of every reachable state,
   i.e. of every schedule of the two threads and the timer. *)
From Coq Require Import List NArith Arith Bool Lia ZifyN ZifyNat ZifyBool Sorted.
From Stef Require Import Responder.
Import ListNotations.
Open Scope N_scope.

(* ------------------------------------------------------------------ tactics *)
Ltac simp :=
  cbn [s_opc s_next s_count s_nextack s_ch s_lasterr s_stopped s_tick s_rpc s_lastacked s_sends s_log s_hist
       set_run do_send after_bad fst snd r_ack r_ranges] in *.

Ltac step_cases H :=
  unfold steps, o_steps, r_steps, e_steps, do_send, set_run in H; simp;
  repeat match goal with
  | H : In _ (_ ++ _) |- _ => apply in_app_or in H; destruct H as [H|H]
  | H : In _ (if ?b then _ else _) |- _ => destruct b eqn:?
  | H : In _ (match ?x with _ => _ end) |- _ => destruct x eqn:?
  | H : In _ (_ :: _) |- _ => destruct H as [H|H]
  | H : In _ [] |- _ => destruct H
  | H : (_, _) = (_, _) |- _ => inversion H; subst; clear H
  end; simp.

(* ------------------------------------------------------------------ histories *)
Fixpoint chain (c0 : N) (h : list batch) : Prop :=
  match h with
  | [] => True
  | (f, t, _) :: r => f = c0 /\ f < t /\ chain t r
  end.
Fixpoint last_to' (c0 : N) (h : list batch) : N :=
  match h with [] => c0 | (_, t, _) :: r => last_to' t r end.
Definition last_to (h : list batch) : N := last_to' 0 h.

Lemma chain_snoc : forall h c0 f t o, chain c0 h -> f = last_to' c0 h -> f < t -> chain c0 (h ++ [(f, t, o)]).
Proof.
  induction h as [|[[f1 t1] o1] h IH]; intros c0 f t o Hc Hf Hlt; cbn [app chain last_to'] in *.
  - auto.
  - destruct Hc as [H1 [H2 H3]]. auto.
Qed.

Lemma last_to'_snoc : forall h c0 f t o, last_to' c0 (h ++ [(f, t, o)]) = t.
Proof. induction h as [|[[f1 t1] o1] h IH]; intros; cbn [app last_to']; auto. Qed.

Lemma chain_le : forall h c0, chain c0 h -> c0 <= last_to' c0 h.
Proof.
  induction h as [|[[f1 t1] o1] h IH]; intros c0 Hc; cbn [chain last_to'] in *; [lia|].
  destruct Hc as [H1 [H2 H3]]. specialize (IH _ H3). lia.
Qed.

Lemma chain_bound : forall h c0 f t o, chain c0 h -> In (f, t, o) h -> c0 <= f /\ f < t /\ t <= last_to' c0 h.
Proof.
  induction h as [|[[f1 t1] o1] h IH]; intros c0 f t o Hc Hin; cbn [chain last_to'] in *; [destruct Hin|].
  destruct Hc as [H1 [H2 H3]]. destruct Hin as [Hin|Hin].
  - inversion Hin; subst. pose proof (chain_le _ _ H3). lia.
  - specialize (IH _ _ _ _ H3 Hin). lia.
Qed.

(* ------------------------------------------------------------------ small list facts *)
Lemma reported_snoc : forall log r ok, reported (log ++ [(r, ok)]) = reported log ++ r_ranges r.
Proof. intros. unfold reported. rewrite map_app, concat_app. cbn. rewrite app_nil_r. reflexivity. Qed.

Lemma ok_acks_snoc : forall log r ok, ok_acks (log ++ [(r, ok)]) = ok_acks log ++ (if ok then [r_ack r] else []).
Proof. intros. unfold ok_acks. rewrite filter_app, map_app. cbn. destruct ok; reflexivity. Qed.

Lemma code_ranges_snoc : forall c h f t o,
  code_ranges c (h ++ [(f, t, o)]) = code_ranges c h ++ (match o with OPerm => [(bad_from c f, t)] | _ => [] end).
Proof. intros. unfold code_ranges. rewrite filter_app, map_app. destruct o; reflexivity. Qed.

Definition composing (pc : rpc) : list range :=
  match pc with RCompose rs _ _ | RSendBad rs _ _ => rs | _ => [] end.
Definition pending (pc : opc) : list range :=
  match pc with OBad f t => [(f, t)] | _ => [] end.
(* the acknowledgement id the tick case has loaded and not yet dealt with *)
Definition held (pc : rpc) : option N :=
  match pc with
  | RCompose _ _ c | RSendBad _ _ c | RStoreErr c => c
  | RTickDrain r | RTickAck r | RSendAck r => Some r
  | _ => None
  end.
(* ... once the pending bad data was looked at *)
Definition held_after_drain (pc : rpc) : option N :=
  match pc with
  | RSendBad _ _ c | RStoreErr c => c
  | RTickAck r | RSendAck r => Some r
  | _ => None
  end.

(* ------------------------------------------------------------------ I_hist *)
Record IHist (s : state) : Prop := mkIHist {
  ih_chain : chain 0 (s_hist s);
  ih_count : match s_opc s with
             | OConsume f t _ => f = last_to (s_hist s) /\ f < t /\ t = s_count s
             | _ => s_count s = last_to (s_hist s)
             end;
  ih_nextack : s_nextack s <= last_to (s_hist s);
  ih_ack : forall t, s_opc s = OAck t -> t = last_to (s_hist s);
  ih_bad : forall f t, s_opc s = OBad f t -> t = last_to (s_hist s) /\ s_nextack s < t
}.

Lemma ihist_reachable : forall c sc s, reachable c sc s -> IHist s.
Proof.
  induction 1 as [|s l s' Hr IH Hs].
  - constructor; cbn; auto; try discriminate; try lia; intros; discriminate.
  - destruct IH as [I1 I2 I3 I4 I5].
    destruct s as [opc nxt count nextack ch lasterr stopped tick rpc lastacked sends log hist]. simp.
    step_cases Hs; try (constructor; simp; auto; intros; try discriminate; fail).
    + (* decode *) constructor; simp; auto; try (intros; discriminate). lia.
    + (* consume *) destruct I2 as [E1 [E2 E3]].
      destruct o; constructor; simp; unfold last_to in *; try rewrite last_to'_snoc; auto; try (intros; discriminate);
        try (apply chain_snoc; auto); try lia.
      * intros t0 E; inversion E; reflexivity.
      * intros f0 t0 E; inversion E; subst. split; [reflexivity|lia].
    + (* sched ack *) constructor; simp; auto; try (intros; discriminate).
      rewrite (I4 _ eq_refl). lia.
Qed.

(* ------------------------------------------------------------------ accounting of bad ranges *)
Definition unreported (s : state) : list range := composing (s_rpc s) ++ s_ch s ++ pending (s_opc s).

Ltac norm_lists :=
  cbn [composing pending app] in *; repeat rewrite <- app_assoc; cbn [app]; repeat rewrite app_nil_r.

(* every permanently rejected batch is in exactly one place: reported (once), being composed,
   queued in the channel, or about to be queued - in the order of rejection *)
Lemma acct_reachable : forall c sc s, reachable c sc s ->
  code_ranges c (s_hist s) = reported (s_log s) ++ unreported s.
Proof.
  induction 1 as [|s l s' Hr IH Hs]; [reflexivity|].
  destruct s as [opc nxt count nextack ch lasterr stopped tick rpc lastacked sends log hist].
  unfold unreported in *. simp.
  step_cases Hs; try rewrite reported_snoc; try rewrite code_ranges_snoc; simp;
    try (destruct o); try (destruct cont); try (destruct (sc_send_ok sc sends)); try (destruct (c_drain c));
    rewrite ?IH; norm_lists; try reflexivity.
Qed.

Definition comp_ok (pc : rpc) : Prop :=
  match pc with
  | RCompose rs ack _ | RSendBad rs ack _ =>
      rs <> [] /\ In ack (map snd rs) /\ (forall b, In b rs -> snd b <= ack)
  | _ => True
  end.

Lemma comp_reachable : forall c sc s, reachable c sc s -> comp_ok (s_rpc s).
Proof.
  induction 1 as [|s l s' Hr IH Hs]; [exact I|].
  destruct s as [opc nxt count nextack ch lasterr stopped tick rpc lastacked sends log hist]. simp.
  step_cases Hs; try assumption; try exact I;
    try (destruct cont; exact I); try (destruct (sc_send_ok sc sends); try destruct cont; exact I);
    cbn [comp_ok map snd In] in *.
  all: try (destruct (c_drain c); exact I).
  all: try (split; [discriminate|]; split; [left; reflexivity|]; intros b [<-|[]]; simp; lia).
  destruct IH as [H1 [H2 H3]]. split; [destruct rs; discriminate|]. rewrite map_app, in_app_iff. cbn [map In].
  match goal with |- context [N.ltb ack (snd ?p)] => destruct (N.ltb_spec ack (snd p)) end.
  + split; [right; left; reflexivity|]. intros b Hb. apply in_app_or in Hb. destruct Hb as [Hb|[<-|[]]]; [specialize (H3 _ Hb); lia|lia].
  + split; [left; exact H2|]. intros b Hb. apply in_app_or in Hb. destruct Hb as [Hb|[<-|[]]]; [auto|lia].
Qed.

(* ------------------------------------------------------------------ order of the bad ranges *)
Definition by_to (a b : range) : Prop := snd a < snd b.

Lemma code_ranges_sorted : forall c h c0, chain c0 h ->
  StronglySorted by_to (code_ranges c h) /\
  Forall (fun b => c0 < snd b /\ snd b <= last_to' c0 h) (code_ranges c h).
Proof.
  intros c. induction h as [|[[f t] o] h IH]; intros c0 Hc; cbn [chain last_to'] in *.
  - split; constructor.
  - destruct Hc as [H1 [H2 H3]]. destruct (IH _ H3) as [S1 S2]. pose proof (chain_le _ _ H3) as Hle.
    assert (S2' : Forall (fun b => c0 < snd b /\ snd b <= last_to' t h) (code_ranges c h)).
    { eapply Forall_impl; [|exact S2]. cbn. intros; lia. }
    unfold code_ranges in *.
    destruct o; cbn [filter is_perm map fst snd]; try (split; assumption).
    split.
    + constructor; [exact S1|]. eapply Forall_impl; [|exact S2]. unfold by_to. cbn. intros; lia.
    + constructor; [cbn [snd]; lia|exact S2'].
Qed.

Lemma sorted_app_lt : forall (l1 l2 : list range), StronglySorted by_to (l1 ++ l2) ->
  forall a b, In a l1 -> In b l2 -> snd a < snd b.
Proof.
  induction l1 as [|x l1 IH]; intros l2 Hs a b Ha Hb; [destruct Ha|].
  cbn [app] in Hs. inversion Hs as [|? ? Hs' Hall]; subst. destruct Ha as [<-|Ha].
  - rewrite Forall_forall in Hall. apply (Hall b). apply in_or_app. right. exact Hb.
  - eapply IH; eauto.
Qed.

Lemma code_ranges_in : forall c h b, In b (code_ranges c h) -> exists f, In (f, snd b, OPerm) h /\ fst b = bad_from c f.
Proof.
  intros c h b H. unfold code_ranges in H. apply in_map_iff in H. destruct H as [[[f t] o] [E Hin]].
  apply filter_In in Hin. destruct Hin as [Hin Hp]. unfold is_perm in Hp. cbn [snd fst] in *.
  destruct o; try discriminate. subst b. exists f. split; [exact Hin|reflexivity].
Qed.

Lemma code_ranges_bound : forall c h b, chain 0 h -> In b (code_ranges c h) -> snd b <= last_to h.
Proof.
  intros c h b Hc Hin. destruct (code_ranges_sorted c h 0 Hc) as [_ HF]. rewrite Forall_forall in HF.
  apply HF in Hin. unfold last_to. lia.
Qed.

(* ------------------------------------------------------------------ ids held by the responder *)
Definition boundary_ok (h : list batch) (k : N) : Prop := k = 0 \/ exists f, In (f, k, OOk) h.

Lemma boundary_ok_snoc : forall h k x, boundary_ok h k -> boundary_ok (h ++ [x]) k.
Proof. intros h k x [H|[f H]]; [left; exact H|right; exists f; apply in_or_app; left; exact H]. Qed.

Record IMid (c : cfg) (s : state) : Prop := mkIMid {
  im_held : forall r, held (s_rpc s) = Some r -> r <= s_nextack s /\ boundary_ok (s_hist s) r;
  im_nextack : boundary_ok (s_hist s) (s_nextack s);
  im_oack : forall t, s_opc s = OAck t -> exists f, In (f, t, OOk) (s_hist s);
  im_last : s_lastacked s <= last_to (s_hist s);
  im_trans : forall f t, In (f, t, OTrans) (s_hist s) ->
      (s_opc s = ORet \/ s_opc s = ODone) /\ s_nextack s < t /\ s_lastacked s < t /\
      (forall b, In b (code_ranges c (s_hist s)) -> snd b < t)
}.

Lemma imid_reachable : forall c sc s, reachable c sc s -> IMid c s.
Proof.
  induction 1 as [|s l s' Hr IH Hs].
  - constructor; cbn; try (intros; discriminate); try (left; reflexivity); try lia; try (intros ? ? []).
  - pose proof (ihist_reachable _ _ _ Hr) as [J1 J2 J3 J4 J5].
    pose proof (acct_reachable _ _ _ Hr) as JA. pose proof (comp_reachable _ _ _ Hr) as JC.
    destruct IH as [I1 I2 I3 I4 I5]. unfold unreported in JA.
    destruct s as [opc nxt count nextack ch lasterr stopped tick rpc lastacked sends log hist]. simp.
    step_cases Hs.
    all: try (constructor; simp; cbn [held] in *; auto; try (intros; discriminate);
              try (intros f0 t0 Hin; destruct (I5 _ _ Hin) as [[E|E] _]; discriminate); fail).
    + (* consume *)
      destruct J2 as [E1 [E2 E3]].
      assert (Hold : forall f0 t0, In (f0, t0, OTrans) hist -> False).
      { intros f0 t0 Hin. destruct (I5 _ _ Hin) as [[E|E] _]; discriminate. }
      assert (Hlast : last_to (hist ++ [(from, to, o)]) = to) by (unfold last_to; apply last_to'_snoc).
      constructor; simp; rewrite ?Hlast.
      * intros r Hh. destruct (I1 _ Hh). split; [assumption|apply boundary_ok_snoc; assumption].
      * apply boundary_ok_snoc; assumption.
      * intros t0 E. destruct o; inversion E; subst t0. eexists. apply in_or_app. right. left. reflexivity.
      * lia.
      * intros f0 t0 Hin. apply in_app_or in Hin. destruct Hin as [Hin|[Hin|[]]]; [destruct (Hold _ _ Hin)|].
        inversion Hin; subst. split; [left; reflexivity|]. split; [lia|]. split; [lia|].
        intros b Hb. rewrite code_ranges_snoc, app_nil_r in Hb.
        pose proof (code_ranges_bound _ _ _ J1 Hb). lia.
    + (* sched ack *)
      pose proof (J4 _ eq_refl) as E. constructor; simp.
      * intros r Hh. destruct (I1 _ Hh). split; [lia|assumption].
      * right. apply I3. reflexivity.
      * intros; discriminate.
      * assumption.
      * intros f0 t0 Hin. destruct (I5 _ _ Hin) as [[E'|E'] _]; discriminate.
    + (* return *)
      constructor; simp; auto; try (intros; discriminate).
      intros f0 t0 Hin. destruct (I5 _ _ Hin) as [_ H']. split; [right; reflexivity|exact H'].
    + (* select tick *)
      constructor; simp; auto.
      intros r Hh. destruct (c_drain c); cbn [held] in Hh; inversion Hh; subst; (split; [lia|assumption]).
    + (* send bad *)
      destruct JC as [C1 [C2 C3]]. apply in_map_iff in C2. destruct C2 as [b0 [Eb Hb0]].
      assert (Hin0 : In b0 (code_ranges c hist)).
      { rewrite JA. apply in_or_app. right. cbn [composing]. apply in_or_app. left. exact Hb0. }
      pose proof (code_ranges_bound _ _ _ J1 Hin0) as Hbound.
      constructor; simp; auto.
      * intros r Hh. apply I1. cbn [held]. destruct (sc_send_ok sc sends); destruct cont; cbn [after_bad held] in Hh; (try discriminate); exact Hh.
      * destruct (sc_send_ok sc sends); [lia|assumption].
      * intros f0 t0 Hin. destruct (I5 _ _ Hin) as [H1 [H2 [H3 H4]]]. repeat split; auto.
        destruct (sc_send_ok sc sends); [|assumption]. specialize (H4 _ Hin0). lia.
    + (* store err *)
      constructor; simp; auto.
      intros r Hh. apply I1. cbn [held]. destruct cont; cbn [after_bad held] in Hh; try discriminate; exact Hh.
    + (* ack check *)
      destruct (I1 r eq_refl) as [H1 H2].
      constructor; simp; auto.
      * lia.
      * intros f0 t0 Hin. destruct (I5 _ _ Hin) as [H3 [H4 [H5 H6]]]. repeat split; auto. lia.
    + (* send ack *)
      constructor; simp; auto.
      * intros r0 Hh. destruct (sc_send_ok sc sends); cbn [held] in Hh; discriminate.
      * destruct (sc_send_ok sc sends); assumption.
      * intros f0 t0 Hin. destruct (I5 _ _ Hin) as [H3 [H4 [H5 H6]]]. repeat split; auto.
        destruct (sc_send_ok sc sends); assumption.
Qed.
(* ------------------------------------------------------------------ the repaired tick case *)
Lemma held_after_drain_held : forall pc r, held_after_drain pc = Some r -> held pc = Some r.
Proof. intros pc r0 H; destruct pc; cbn in *; try discriminate; assumption. Qed.

Lemma ssorted_snoc : forall l x, StronglySorted N.lt l -> (forall a, In a l -> a < x) -> StronglySorted N.lt (l ++ [x]).
Proof.
  induction l as [|y l IH]; intros x Hs Hx; cbn [app].
  - constructor; constructor.
  - inversion Hs as [|? ? Hs' Hall]; subst. constructor.
    + apply IH; [assumption|]. intros a Ha. apply Hx. right. exact Ha.
    + rewrite Forall_forall in *. intros a Ha. apply in_app_or in Ha. destruct Ha as [Ha|[<-|[]]]; [auto|].
      apply Hx. left. reflexivity.
Qed.

Ltac solve_in := intros; cbn [composing pending after_bad app] in *;
  repeat (progress (rewrite ?in_app_iff in *; cbn [In] in * )); tauto.

Record IDrain (s : state) : Prop := mkIDrain {
  id_k3 : forall r, held_after_drain (s_rpc s) = Some r ->
          forall b, In b (s_ch s ++ pending (s_opc s)) -> r < snd b;
  id_k5 : forall b, In b (unreported s) -> s_lastacked s < snd b;
  id_mono : StronglySorted N.lt (ok_acks (s_log s));
  id_le : forall a, In a (ok_acks (s_log s)) -> a <= s_lastacked s;
  id_lt : forall r, s_rpc s = RSendAck r -> forall a, In a (ok_acks (s_log s)) -> a < r;
  id_sendack : forall r, s_rpc s = RSendAck r -> r = s_lastacked s
}.

Lemma idrain_reachable : forall c sc s, c_drain c = true -> reachable c sc s -> IDrain s.
Proof.
  intros c sc s Hd. induction 1 as [|s l s' Hr IH Hs].
  - constructor; cbn; try (intros; discriminate); try apply SSorted_nil; try (intros ? []).
  - pose proof (ihist_reachable _ _ _ Hr) as [J1 J2 J3 J4 J5].
    pose proof (imid_reachable _ _ _ Hr) as [M1 M2 M3 M4 M5].
    pose proof (acct_reachable _ _ _ Hr) as JA. pose proof (comp_reachable _ _ _ Hr) as JC.
    pose proof (code_ranges_sorted c _ 0 J1) as [JS _].
    destruct IH as [I1 I2 I3 I4 I6 I5]. unfold unreported in *.
    destruct s as [opc nxt count nextack ch lasterr stopped tick rpc lastacked sends log hist]. simp.
    step_cases Hs.
    all: try (constructor; unfold unreported; simp; cbn [held_after_drain] in *; auto; try (intros; discriminate);
              try (intros; (apply I2 || (eapply I1; eauto)); solve_in); fail).
    + (* consume *)
      destruct J2 as [E1 [E2 E3]].
      destruct o; constructor; unfold unreported; simp; cbn [pending] in *; auto.
      * intros r Hh b Hb. rewrite in_app_iff in Hb. destruct Hb as [Hb|[<-|[]]].
        -- eapply I1; eauto. solve_in.
        -- simp. destruct (M1 _ (held_after_drain_held _ _ Hh)). lia.
      * intros b Hb. rewrite !in_app_iff in Hb. destruct Hb as [Hb|[Hb|[<-|[]]]].
        -- apply I2. solve_in.
        -- apply I2. solve_in.
        -- simp. lia.
    + (* select tick *)
      rewrite Hd. constructor; unfold unreported; simp; auto; try (intros; discriminate).
    + (* compose done *)
      constructor; unfold unreported; simp; auto; try (intros; discriminate).
      intros r Hh b Hb. cbn [held_after_drain app] in *. destruct opc; cbn [pending] in Hb; try (destruct Hb; fail).
      destruct Hb as [<-|[]]. simp. destruct (J5 _ _ eq_refl) as [_ Hlt].
      destruct (M1 r Hh). lia.
    + (* send bad *)
      destruct JC as [C1 [C2 C3]]. apply in_map_iff in C2. destruct C2 as [b0 [Eb Hb0]].
      assert (Hsorted : forall b, In b (ch ++ pending opc) -> ack < snd b).
      { intros b Hb. rewrite JA in JS. cbn [composing] in JS. rewrite (app_assoc (reported log) rs) in JS.
        rewrite <- Eb. eapply sorted_app_lt; [exact JS| |exact Hb]. apply in_or_app. right. exact Hb0. }
      assert (Hlt : lastacked < ack).
      { rewrite <- Eb. apply I2. cbn [composing]. apply in_or_app. left. exact Hb0. }
      destruct (sc_send_ok sc sends); constructor; unfold unreported; simp; rewrite ?ok_acks_snoc, ?app_nil_r; simp.
      * intros r Hh. eapply I1. cbn [held_after_drain]. destruct cont; cbn [after_bad held_after_drain] in Hh; (try discriminate); exact Hh.
      * intros b Hb. apply Hsorted. destruct cont; cbn [after_bad composing app] in Hb; exact Hb.
      * apply ssorted_snoc; [exact I3|]. intros a Ha. specialize (I4 _ Ha). lia.
      * intros a Ha. apply in_app_or in Ha. destruct Ha as [Ha|[<-|[]]]; [specialize (I4 _ Ha); lia|lia].
      * intros r E. destruct cont; discriminate.
      * intros r E. destruct cont; discriminate.
      * intros r Hh. eapply I1. exact Hh.
      * intros b Hb. apply I2. solve_in.
      * exact I3.
      * exact I4.
      * intros; discriminate.
      * intros; discriminate.
    + (* store err *)
      constructor; unfold unreported; simp; auto.
      * intros r Hh. eapply I1. cbn [held_after_drain]. destruct cont; cbn [after_bad held_after_drain] in Hh; (try discriminate); exact Hh.
      * intros b Hb. apply I2. destruct cont; solve_in.
      * intros r E. destruct cont; discriminate.
      * intros r E. destruct cont; discriminate.
    + (* drain empty *)
      constructor; unfold unreported; simp; auto; try (intros; discriminate).
      * intros r0 Hh b Hb. cbn [held_after_drain app] in *. inversion Hh; subst r0.
        destruct opc; cbn [pending] in Hb; try (destruct Hb; fail).
        destruct Hb as [<-|[]]. simp. destruct (J5 _ _ eq_refl) as [_ Hlt].
        destruct (M1 r eq_refl). lia.
    + (* ack check *)
      constructor; unfold unreported; simp; cbn [held_after_drain] in *.
      * exact I1.
      * intros b Hb. apply (I1 r eq_refl). solve_in.
      * exact I3.
      * intros a Ha. specialize (I4 _ Ha). lia.
      * intros r0 E a Ha. inversion E; subst r0. specialize (I4 _ Ha). lia.
      * intros r0 E. inversion E; reflexivity.
    + (* send ack *)
      pose proof (I5 _ eq_refl) as E5. pose proof (I6 _ eq_refl) as E6.
      destruct (sc_send_ok sc sends); constructor; unfold unreported; simp; rewrite ?ok_acks_snoc, ?app_nil_r; simp.
      * intros; discriminate.
      * intros b Hb. apply I2. solve_in.
      * apply ssorted_snoc; [exact I3|exact E6].
      * intros a Ha. apply in_app_or in Ha. destruct Ha as [Ha|[<-|[]]]; [auto|lia].
      * intros; discriminate.
      * intros; discriminate.
      * intros; discriminate.
      * intros b Hb. apply I2. solve_in.
      * exact I3.
      * exact I4.
      * intros; discriminate.
      * intros; discriminate.
Qed.

(* ------------------------------------------------------------------ soundness of responses *)
(* the responses the soundness statement is about: all of them for the repaired tick case;
   only those that carry bad ranges for the code without the drain *)
Definition wants (c : cfg) (r : resp) : Prop := c_drain c = true \/ r_ranges r <> [].

Fixpoint snd_log (c : cfg) (log : list (resp * bool)) (after : list range) : Prop :=
  match log with
  | [] => True
  | x :: tl => (wants c (fst x) -> forall b, In b (reported tl ++ after) -> r_ack (fst x) < snd b) /\
               snd_log c tl after
  end.

Definition entry_ok (c : cfg) (h : list batch) (r : resp) : Prop :=
  wants c r ->
  r_ack r <= last_to h /\
  (r_ack r = 0 \/ exists f o, In (f, r_ack r, o) h) /\
  (forall f t, In (f, t, OTrans) h -> r_ack r < t).

Lemma reported_cons : forall x tl, reported (x :: tl) = r_ranges (fst x) ++ reported tl.
Proof. reflexivity. Qed.

Lemma reported_app : forall a b, reported (a ++ b) = reported a ++ reported b.
Proof. intros. unfold reported. rewrite map_app, concat_app. reflexivity. Qed.

Lemma snd_log_mono : forall c log after after', snd_log c log after ->
  (forall x, In x log -> wants c (fst x) -> forall b, In b after' -> In b after \/ r_ack (fst x) < snd b) ->
  snd_log c log after'.
Proof.
  induction log as [|x tl IH]; intros after after' H Hm; cbn [snd_log] in *; [exact I|].
  destruct H as [H1 H2]. split.
  - intros Hw b Hb. apply in_app_or in Hb. destruct Hb as [Hb|Hb].
    + apply H1; [exact Hw|]. apply in_or_app. left. exact Hb.
    + destruct (Hm x (or_introl eq_refl) Hw b Hb) as [Hin|Hlt]; [|exact Hlt].
      apply H1; [exact Hw|]. apply in_or_app. right. exact Hin.
  - eapply IH; [exact H2|]. intros y Hy. apply Hm. right. exact Hy.
Qed.

Lemma snd_log_snoc : forall c log r ok after, snd_log c log (r_ranges r ++ after) ->
  (wants c r -> forall b, In b after -> r_ack r < snd b) ->
  snd_log c (log ++ [(r, ok)]) after.
Proof.
  induction log as [|x tl IH]; intros r ok after H Hr; cbn [app snd_log] in *.
  - split; [|exact I]. cbn [fst reported map concat app]. exact Hr.
  - destruct H as [H1 H2]. split; [|apply IH; assumption].
    intros Hw b Hb. apply H1; [exact Hw|]. rewrite reported_snoc, <- app_assoc in Hb. exact Hb.
Qed.

Lemma snd_log_split : forall c pre r ok post after, snd_log c (pre ++ (r, ok) :: post) after ->
  wants c r -> forall b, In b (reported post ++ after) -> r_ack r < snd b.
Proof.
  induction pre as [|x pre IH]; intros r ok post after H Hw b Hb; cbn [app snd_log] in H.
  - destruct H as [H _]. apply H; assumption.
  - destruct H as [_ H]. eapply IH; eauto.
Qed.

Lemma entry_ok_snoc : forall c h r f t o, entry_ok c h r -> last_to h = f -> f < t ->
  (forall f0 t0, In (f0, t0, OTrans) h -> False) ->
  entry_ok c (h ++ [(f, t, o)]) r.
Proof.
  intros c h r f t o H Hl Hlt Hnt Hw. destruct (H Hw) as [H1 [H2 H3]].
  unfold last_to in *. rewrite last_to'_snoc. split; [lia|]. split.
  - destruct H2 as [H2|[f0 [o0 H2]]]; [left; exact H2|right]. exists f0, o0. apply in_or_app. left. exact H2.
  - intros f0 t0 Hin. apply in_app_or in Hin. destruct Hin as [Hin|[Hin|[]]]; [destruct (Hnt _ _ Hin)|].
    inversion Hin; subst. lia.
Qed.

Record ISnd (c : cfg) (s : state) : Prop := mkISnd {
  is_log : snd_log c (s_log s) (unreported s);
  is_entries : Forall (fun x => entry_ok c (s_hist s) (fst x)) (s_log s)
}.

Lemma isnd_reachable : forall c sc s, reachable c sc s -> ISnd c s.
Proof.
  intros c sc s. induction 1 as [|s l s' Hr IH Hs].
  - constructor; cbn; auto.
  - pose proof (ihist_reachable _ _ _ Hr) as [J1 J2 J3 J4 J5].
    pose proof (imid_reachable _ _ _ Hr) as [M1 M2 M3 M4 M5].
    pose proof (acct_reachable _ _ _ Hr) as JA. pose proof (comp_reachable _ _ _ Hr) as JC.
    pose proof (code_ranges_sorted c _ 0 J1) as [JS _].
    assert (JD : c_drain c = true -> IDrain s) by (intro Hd; eapply idrain_reachable; eauto).
    destruct IH as [I1 I2]. unfold unreported in *.
    destruct s as [opc nxt count nextack ch lasterr stopped tick rpc lastacked sends log hist]. simp.
    step_cases Hs.
    all: try (constructor; unfold unreported; simp; [|exact I2];
              eapply snd_log_mono; [exact I1|]; intros; left; solve_in).
    + (* consume *)
      destruct J2 as [E1 [E2 E3]].
      assert (Hnt : forall f0 t0, In (f0, t0, OTrans) hist -> False).
      { intros f0 t0 Hin. destruct (M5 _ _ Hin) as [[E|E] _]; discriminate. }
      constructor; unfold unreported; simp.
      * eapply snd_log_mono; [exact I1|]. intros x Hx Hw b Hb.
        destruct o; cbn [pending] in *; try (left; solve_in).
        rewrite !in_app_iff in Hb. destruct Hb as [Hb|[Hb|[<-|[]]]]; try (left; solve_in).
        right. simp. rewrite Forall_forall in I2. destruct (I2 _ Hx Hw) as [Hle _]. lia.
      * eapply Forall_impl; [|exact I2]. intros x Hx. apply entry_ok_snoc; auto.
    + (* select tick *)
      constructor; unfold unreported; simp; [|exact I2].
      eapply snd_log_mono; [exact I1|]. intros. left. destruct (c_drain c); solve_in.
    + (* send bad *)
      destruct JC as [C1 [C2 C3]]. apply in_map_iff in C2. destruct C2 as [b0 [Eb Hb0]].
      assert (Hin0 : In b0 (code_ranges c hist)).
      { rewrite JA. apply in_or_app. right. cbn [composing]. apply in_or_app. left. exact Hb0. }
      assert (Hsorted : forall b, In b (ch ++ pending opc) -> ack < snd b).
      { intros b Hb. rewrite JA in JS. cbn [composing] in JS. rewrite (app_assoc (reported log) rs) in JS.
        rewrite <- Eb. eapply sorted_app_lt; [exact JS| |exact Hb]. apply in_or_app. right. exact Hb0. }
      constructor; unfold unreported; simp.
      * apply snd_log_snoc; simp.
        -- eapply snd_log_mono; [exact I1|]. intros. left. destruct (sc_send_ok sc sends); destruct cont; solve_in.
        -- intros _ b Hb. apply Hsorted. destruct (sc_send_ok sc sends); destruct cont; solve_in.
      * apply Forall_app. split; [exact I2|]. constructor; [|constructor]. simp. intros _. simp.
        rewrite <- Eb. split; [eapply code_ranges_bound; eauto|]. split.
        -- right. destruct (code_ranges_in _ _ _ Hin0) as [f [Hf _]]. exists f, OPerm. exact Hf.
        -- intros f t Hin. destruct (M5 _ _ Hin) as [_ [_ [_ H4]]]. apply H4. exact Hin0.
    + (* store err *)
      constructor; unfold unreported; simp; [|exact I2].
      eapply snd_log_mono; [exact I1|]. intros. left. destruct cont; solve_in.
    + (* send ack *)
      destruct (M1 r eq_refl) as [Hr1 Hr2].
      constructor; unfold unreported; simp.
      * apply snd_log_snoc; simp.
        -- eapply snd_log_mono; [exact I1|]. intros. left. destruct (sc_send_ok sc sends); solve_in.
        -- intros [Hd|Hn] b Hb; [|exfalso; apply Hn; reflexivity].
           destruct (JD Hd) as [K3 _ _ _ _ _]. simp. apply (K3 r eq_refl).
           destruct (sc_send_ok sc sends); solve_in.
      * apply Forall_app. split; [exact I2|]. constructor; [|constructor]. simp. intros _. simp.
        split; [lia|]. split.
        -- destruct Hr2 as [Hr2|[f Hr2]]; [left; exact Hr2|right; exists f, OOk; exact Hr2].
        -- intros f t Hin. destruct (M5 _ _ Hin) as [_ [H2 _]]. lia.
Qed.

(* ------------------------------------------------------------------ the theorems *)
(* (a) acknowledged ids strictly increase along the responses that reached the client *)
Theorem ack_monotone : forall c sc s, c_drain c = true -> reachable c sc s ->
  StronglySorted N.lt (ok_acks (s_log s)).
Proof. intros c sc s Hd Hr. destruct (idrain_reachable _ _ _ Hd Hr). assumption. Qed.

Lemma code_ranges_member : forall c h f t, In (f, t, OPerm) h -> In (bad_from c f, t) (code_ranges c h).
Proof.
  intros c h f t H. unfold code_ranges. apply in_map_iff. exists (f, t, OPerm). split; [reflexivity|].
  apply filter_In. split; [exact H|reflexivity].
Qed.

(* (b) batch level: a response with ack id k is sent only when k is the last id of a consumed
   batch and every consumed batch up to k was accepted, or rejected permanently and its range
   is carried by this response or an earlier one *)
Theorem ack_sound_batches : forall c sc s pre r ok post, reachable c sc s ->
  s_log s = pre ++ (r, ok) :: post -> wants c r ->
  r_ack r <= last_to (s_hist s) /\
  (r_ack r = 0 \/ exists f o, In (f, r_ack r, o) (s_hist s)) /\
  forall f t o, In (f, t, o) (s_hist s) -> t <= r_ack r ->
    o = OOk \/ (o = OPerm /\ In (bad_from c f, t) (reported pre ++ r_ranges r)).
Proof.
  intros c sc s pre r ok post Hr Hlog Hw.
  destruct (isnd_reachable _ _ _ Hr) as [S1 S2]. pose proof (acct_reachable _ _ _ Hr) as JA.
  rewrite Forall_forall in S2. assert (Hin : In (r, ok) (s_log s)) by (rewrite Hlog; apply in_or_app; right; left; reflexivity).
  destruct (S2 _ Hin Hw) as [E1 [E2 E3]]. cbn [fst] in *.
  split; [exact E1|]. split; [exact E2|].
  intros f t o Hb Hle. destruct o.
  - left; reflexivity.
  - right. split; [reflexivity|]. pose proof (code_ranges_member c _ _ _ Hb) as Hm.
    rewrite JA, Hlog, reported_app, reported_cons in Hm. cbn [fst] in Hm.
    rewrite <- !app_assoc in Hm. rewrite (app_assoc (reported pre)) in Hm.
    apply in_app_or in Hm. destruct Hm as [Hm|Hm]; [exact Hm|].
    rewrite Hlog in S1.
    pose proof (snd_log_split _ _ _ _ _ _ S1 Hw _ Hm) as Hlt. cbn [snd] in Hlt. lia.
  - specialize (E3 _ _ Hb). lia.
Qed.

Lemma chain_cover : forall h c0 k x, chain c0 h -> (k = c0 \/ exists f o, In (f, k, o) h) -> c0 < x <= k ->
  exists f t o, In (f, t, o) h /\ f < x <= t /\ t <= k.
Proof.
  induction h as [|[[f1 t1] o1] h IH]; intros c0 k x Hc Hk Hx; cbn [chain] in Hc.
  - destruct Hk as [Hk|[f [o []]]]. lia.
  - destruct Hc as [H1 [H2 H3]]. subst f1.
    destruct (N.le_gt_cases x t1) as [Hxt|Hxt].
    + exists c0, t1, o1. split; [left; reflexivity|]. split; [lia|].
      destruct Hk as [Hk|[f [o [Hin|Hin]]]]; [lia|inversion Hin; lia|].
      pose proof (chain_bound _ _ _ _ _ H3 Hin). lia.
    + assert (Hk' : k = t1 \/ exists f o, In (f, k, o) h).
      { destruct Hk as [Hk|[f [o [Hin|Hin]]]]; [lia|inversion Hin; left; reflexivity|right; eauto]. }
      destruct (IH t1 k x H3 Hk' ltac:(lia)) as [f [t [o [Hin Hr]]]].
      exists f, t, o. split; [right; exact Hin|exact Hr].
Qed.

(* (b) id level: every record id up to the acknowledged id belongs to a consumed batch that was
   accepted, or lies in a bad range carried by this response or an earlier one *)
Theorem ack_sound_ids : forall c sc s pre r ok post, reachable c sc s ->
  s_log s = pre ++ (r, ok) :: post -> wants c r ->
  forall x, 0 < x <= r_ack r ->
  exists f t o, In (f, t, o) (s_hist s) /\ f < x <= t /\
    (o = OOk \/ exists a b, In (a, b) (reported pre ++ r_ranges r) /\ a <= x <= b).
Proof.
  intros c sc s pre r ok post Hr Hlog Hw x Hx.
  destruct (ack_sound_batches _ _ _ _ _ _ _ Hr Hlog Hw) as [E1 [E2 E3]].
  destruct (ihist_reachable _ _ _ Hr) as [J1 _ _ _ _].
  destruct (chain_cover _ 0 (r_ack r) x J1 E2 Hx) as [f [t [o [Hin [Hft Htk]]]]].
  exists f, t, o. split; [exact Hin|]. split; [exact Hft|].
  destruct (E3 _ _ _ Hin Htk) as [Ho|[Ho Hrep]]; [left; exact Ho|right].
  exists (bad_from c f), t. split; [exact Hrep|]. unfold bad_from. destruct (c_from1 c); lia.
Qed.

(* (c) every permanently rejected batch is reported at most once, in order, with exactly its id
   range; what is not yet reported is still queued (being composed / in the channel / about to
   be queued), so once the queue is empty every rejected batch was reported exactly once *)
Lemma code_ranges_exact : forall c h, c_from1 c = true -> code_ranges c h = exact_ranges h.
Proof. intros c h H. unfold code_ranges, exact_ranges, bad_from. rewrite H. reflexivity. Qed.

Theorem bad_reported_exactly_once : forall c sc s, c_from1 c = true -> reachable c sc s ->
  exact_ranges (s_hist s) = reported (s_log s) ++ unreported s.
Proof. intros c sc s H Hr. rewrite <- (code_ranges_exact c _ H). apply acct_reachable with (sc := sc). exact Hr. Qed.

Corollary bad_reported_when_drained : forall c sc s, c_from1 c = true -> reachable c sc s ->
  unreported s = [] -> reported (s_log s) = exact_ranges (s_hist s).
Proof. intros c sc s H Hr Hu. rewrite (bad_reported_exactly_once _ _ _ H Hr), Hu, app_nil_r. reflexivity. Qed.

(* what holds for any version of the code: the accounting with the code's own ranges *)
Theorem bad_ranges_accounting : forall c sc s, reachable c sc s ->
  code_ranges c (s_hist s) = reported (s_log s) ++ unreported s.
Proof. exact acct_reachable. Qed.

(* ------------------------------------------------------------------ record ids in lockstep *)
Definition batch_records (bs : list (positive * outcome)) : N :=
  fold_right (fun b acc => Npos (fst b) + acc) 0 bs.

Lemma batch_records_app : forall a b, batch_records (a ++ b) = batch_records a + batch_records b.
Proof. induction a as [|x a IH]; intros b; cbn [app batch_records fold_right] in *; [reflexivity|]. fold (batch_records (a ++ b)). fold (batch_records a). rewrite IH. lia. Qed.

Lemma firstn_S_nth : forall (A : Type) (l : list A) n x, nth_error l n = Some x -> firstn (S n) l = firstn n l ++ [x].
Proof.
  induction l as [|y l IH]; intros n x H; destruct n; cbn in *; try discriminate.
  - inversion H; reflexivity.
  - f_equal. apply IH. exact H.
Qed.

(* reader.RecordCount() is the number of records of the frames decoded so far, and the batches
   handed to the consumer tile the ids 1 .. RecordCount without gap or overlap *)
Theorem record_count_lockstep : forall c sc s, reachable c sc s ->
  s_count s = batch_records (firstn (s_next s) (sc_batches sc)) /\ chain 0 (s_hist s) /\
  match s_opc s with
  | OConsume f t _ => f = last_to (s_hist s) /\ t = s_count s
  | _ => s_count s = last_to (s_hist s)
  end.
Proof.
  intros c sc s Hr. destruct (ihist_reachable _ _ _ Hr) as [J1 J2 _ _ _].
  split; [|split; [exact J1|destruct (s_opc s); try exact J2; destruct J2 as [? [? ?]]; split; assumption]].
  clear J1 J2. induction Hr as [|s l s' Hr IH Hs]; [reflexivity|].
  destruct s as [opc nxt count nextack ch lasterr stopped tick rpc lastacked sends log hist]. simp.
  step_cases Hs; try assumption; try reflexivity.
  match goal with H : nth_error _ _ = Some _ |- _ => rewrite (firstn_S_nth _ _ _ _ H), batch_records_app end. cbn [batch_records fold_right fst]. lia.
Qed.

(* ------------------------------------------------------------------ schedules *)
Lemma find_label_in : forall l xs s, find_label l xs = Some s -> exists l', In (l', s) xs.
Proof.
  induction xs as [|[l' s'] xs IH]; intros s H; cbn [find_label] in H; [discriminate|].
  destruct (label_eqb l l').
  - inversion H; subst. exists l'. left. reflexivity.
  - destruct (IH _ H) as [l'' Hin]. exists l''. right. exact Hin.
Qed.

Lemma run_reachable : forall c sc ls s s', reachable c sc s -> run c sc s ls = Some s' -> reachable c sc s'.
Proof.
  induction ls as [|l ls IH]; intros s s' Hr H; cbn [run] in H.
  - inversion H; subst. exact Hr.
  - destruct (find_label l (steps c sc s)) as [s1|] eqn:E; [|discriminate].
    destruct (find_label_in _ _ _ E) as [l' Hin]. eapply IH; [|exact H]. eapply reach_step; eauto.
Qed.

(* ------------------------------------------------------------------ any version of the code *)
(* ack ids of the pure acknowledgements (responses without bad ranges), sent or not *)
Definition is_pure (x : resp * bool) : bool := match r_ranges (fst x) with [] => true | _ => false end.
Definition pure_acks (log : list (resp * bool)) : list N := map (fun x => r_ack (fst x)) (filter is_pure log).

Lemma pure_acks_snoc : forall log r ok,
  pure_acks (log ++ [(r, ok)]) = pure_acks log ++ (match r_ranges r with [] => [r_ack r] | _ => [] end).
Proof. intros. unfold pure_acks. rewrite filter_app, map_app. cbn. unfold is_pure. cbn. destruct (r_ranges r); reflexivity. Qed.

Lemma ssorted_le_snoc : forall l x, StronglySorted N.le l -> (forall a, In a l -> a <= x) -> StronglySorted N.le (l ++ [x]).
Proof.
  induction l as [|y l IH]; intros x Hs Hx; cbn [app].
  - constructor; constructor.
  - inversion Hs as [|? ? Hs' Hall]; subst. constructor.
    + apply IH; [assumption|]. intros a Ha. apply Hx. right. exact Ha.
    + rewrite Forall_forall in *. intros a Ha. apply in_app_or in Ha. destruct Ha as [Ha|[<-|[]]]; [auto|].
      apply Hx. left. reflexivity.
Qed.

Record IPure (s : state) : Prop := mkIPure {
  ip_le : forall a, In a (pure_acks (s_log s)) -> a <= s_nextack s;
  ip_held : forall r, held (s_rpc s) = Some r -> forall a, In a (pure_acks (s_log s)) -> a <= r;
  ip_sorted : StronglySorted N.le (pure_acks (s_log s))
}.

Lemma ipure_reachable : forall c sc s, reachable c sc s -> IPure s.
Proof.
  intros c sc s. induction 1 as [|s l s' Hr IH Hs].
  - constructor; cbn; try (intros; discriminate); try apply SSorted_nil; intros ? [].
  - pose proof (ihist_reachable _ _ _ Hr) as [J1 J2 J3 J4 J5].
    pose proof (imid_reachable _ _ _ Hr) as [M1 M2 M3 M4 M5].
    pose proof (comp_reachable _ _ _ Hr) as JC.
    destruct IH as [I1 I2 I3].
    destruct s as [opc nxt count nextack ch lasterr stopped tick rpc lastacked sends log hist]. simp.
    step_cases Hs.
    all: try (constructor; simp; cbn [held] in *; auto; try (intros; discriminate); fail).
    + (* sched ack *)
      pose proof (J4 _ eq_refl). constructor; simp; auto. intros a Ha. specialize (I1 _ Ha). lia.
    + (* select tick *)
      constructor; simp; auto. intros r Hh a Ha. destruct (c_drain c); cbn [held] in Hh; inversion Hh; subst; auto.
    + (* send bad *)
      destruct JC as [C1 _]. destruct rs as [|r0 rs]; [congruence|].
      constructor; simp; rewrite ?pure_acks_snoc; simp; rewrite ?app_nil_r; auto.
      intros r Hh. apply I2. cbn [held]. destruct (sc_send_ok sc sends); destruct cont; cbn [after_bad held] in Hh; (try discriminate); exact Hh.
    + (* store err *)
      constructor; simp; auto.
      intros r Hh. apply I2. cbn [held]. destruct cont; cbn [after_bad held] in Hh; (try discriminate); exact Hh.
    + (* send ack *)
      destruct (M1 r eq_refl) as [Hr1 _].
      constructor; simp; rewrite ?pure_acks_snoc; simp.
      * intros a Ha. apply in_app_or in Ha. destruct Ha as [Ha|[<-|[]]]; [auto|lia].
      * intros r0 Hh. destruct (sc_send_ok sc sends); discriminate.
      * apply ssorted_le_snoc; [exact I3|]. apply I2. reflexivity.
Qed.

(* whatever the version: the ids of pure acknowledgements never decrease *)
Theorem pure_acks_monotone : forall c sc s, reachable c sc s -> StronglySorted N.le (pure_acks (s_log s)).
Proof. intros c sc s Hr. destruct (ipure_reachable _ _ _ Hr). assumption. Qed.

(* ------------------------------------------------------------------ the tree as first read (cfg_pinned) *)
Definition all_ok : nat -> bool := fun _ => true.
Definition sc_bad_then_ok : script := mkScript [(5%positive, OPerm); (5%positive, OOk)] all_ok.
Definition sc_ok_then_bad : script := mkScript [(5%positive, OOk); (5%positive, OPerm)] all_ok.

(* the tick is selected while the bad-data report of batch 1..5 is queued *)
Definition schedule_order : list label :=
  [LTop; LConsume 0 OPerm; LPush; LTop; LConsume 1 OOk; LSchedAck; LTick; LSelTick; LAckCheck;
   LSend (mkResp 10 []) true; LSelBad; LComposeDone; LSend (mkResp 5 [(0, 5)]) true].
Definition schedule_range : list label :=
  [LTop; LConsume 0 OOk; LSchedAck; LTop; LConsume 1 OPerm; LPush; LSelBad; LComposeDone;
   LSend (mkResp 10 [(5, 10)]) true].

Lemma pinned_order_run : exists s, run cfg_pinned sc_bad_then_ok st_init schedule_order = Some s /\
  s_log s = [(mkResp 10 [], true); (mkResp 5 [(0, 5)], true)] /\
  s_hist s = [(0, 5, OPerm); (5, 10, OOk)].
Proof. eexists. split; [vm_compute; reflexivity|]. split; reflexivity. Qed.

(* acknowledged ids decrease: 10, then 5 *)
Theorem pinned_monotone_refuted : exists sc s, reachable cfg_pinned sc s /\
  ~ StronglySorted N.le (ok_acks (s_log s)).
Proof.
  destruct pinned_order_run as [s [Hrun [Hlog _]]].
  exists sc_bad_then_ok, s. split; [eapply run_reachable; [apply reach_init|exact Hrun]|].
  rewrite Hlog. cbn. intro H. inversion H as [|? ? _ Hall]; subst. inversion Hall as [|? ? Hle _]; subst. lia.
Qed.

(* id 10 is acknowledged while records 1..5 were rejected and not yet reported *)
Theorem pinned_sound_refuted : exists sc s pre r ok post, reachable cfg_pinned sc s /\
  s_log s = pre ++ (r, ok) :: post /\
  exists f t, In (f, t, OPerm) (s_hist s) /\ t <= r_ack r /\
    forall a b, In (a, b) (reported pre ++ r_ranges r) -> ~ (a <= t <= b).
Proof.
  destruct pinned_order_run as [s [Hrun [Hlog Hhist]]].
  exists sc_bad_then_ok, s, [], (mkResp 10 []), true, [(mkResp 5 [(0, 5)], true)].
  split; [eapply run_reachable; [apply reach_init|exact Hrun]|]. split; [exact Hlog|].
  exists 0, 5. rewrite Hhist. split; [left; reflexivity|]. split; [cbn; lia|]. intros a b [].
Qed.

(* the reported range 5..10 contains id 5, the last record of the accepted batch 1..5 *)
Theorem pinned_range_refuted : exists sc s, reachable cfg_pinned sc s /\
  exists a b f t, In (a, b) (reported (s_log s)) /\ In (f, t, OOk) (s_hist s) /\ f < a <= t.
Proof.
  assert (H : exists s, run cfg_pinned sc_ok_then_bad st_init schedule_range = Some s /\
            s_log s = [(mkResp 10 [(5, 10)], true)] /\ s_hist s = [(0, 5, OOk); (5, 10, OPerm)]).
  { eexists. split; [vm_compute; reflexivity|]. split; reflexivity. }
  destruct H as [s [Hrun [Hlog Hhist]]].
  exists sc_ok_then_bad, s. split; [eapply run_reachable; [apply reach_init|exact Hrun]|].
  exists 5, 10, 0, 5. rewrite Hlog, Hhist. split; [left; reflexivity|]. split; [left; reflexivity|]. lia.
Qed.

(* the repaired code on the same script and the corresponding schedule *)
Definition schedule_order_current : list label :=
  [LTop; LConsume 0 OPerm; LPush; LTop; LConsume 1 OOk; LSchedAck; LTick; LSelTick; LDrainTake; LComposeDone;
   LSend (mkResp 5 [(1, 5)]) true; LAckCheck; LSend (mkResp 10 []) true].
Lemma current_order_run : exists s, run cfg_current sc_bad_then_ok st_init schedule_order_current = Some s /\
  s_log s = [(mkResp 5 [(1, 5)], true); (mkResp 10 [], true)] /\ mono_ok s = true /\ sound_ok s = true /\ ranges_ok s = true.
Proof. eexists. split; [vm_compute; reflexivity|]. repeat split; reflexivity. Qed.
(* and the pinned schedule is no longer a schedule of the repaired code *)
Lemma current_rejects_pinned_schedule : run cfg_current sc_bad_then_ok st_init schedule_order = None.
Proof. vm_compute. reflexivity. Qed.

(* ------------------------------------------------------------------ the statements of Props/C16.v *)
Corollary current_ack_monotone : forall sc s, reachable cfg_current sc s ->
  StronglySorted N.lt (ok_acks (s_log s)).
Proof. intros sc s Hr. exact (ack_monotone cfg_current sc s eq_refl Hr). Qed.

Corollary current_ack_sound : forall sc s pre r ok post, reachable cfg_current sc s ->
  s_log s = pre ++ (r, ok) :: post ->
  forall x, 0 < x <= r_ack r ->
  exists f t o, In (f, t, o) (s_hist s) /\ f < x <= t /\
    (o = OOk \/ exists a b, In (a, b) (reported pre ++ r_ranges r) /\ a <= x <= b).
Proof. intros sc s pre r ok post Hr Hlog. apply (ack_sound_ids cfg_current sc s pre r ok post Hr Hlog). left. reflexivity. Qed.

Corollary current_ack_sound_batches : forall sc s pre r ok post, reachable cfg_current sc s ->
  s_log s = pre ++ (r, ok) :: post ->
  r_ack r <= last_to (s_hist s) /\
  (r_ack r = 0 \/ exists f o, In (f, r_ack r, o) (s_hist s)) /\
  forall f t o, In (f, t, o) (s_hist s) -> t <= r_ack r ->
    o = OOk \/ (o = OPerm /\ In (f + 1, t) (reported pre ++ r_ranges r)).
Proof. intros sc s pre r ok post Hr Hlog. apply (ack_sound_batches cfg_current sc s pre r ok post Hr Hlog). left. reflexivity. Qed.

Corollary current_bad_exactly_once : forall sc s, reachable cfg_current sc s ->
  exact_ranges (s_hist s) = reported (s_log s) ++ unreported s.
Proof. intros sc s Hr. exact (bad_reported_exactly_once cfg_current sc s eq_refl Hr). Qed.

Corollary current_bad_all_reported : forall sc s, reachable cfg_current sc s ->
  unreported s = [] -> reported (s_log s) = exact_ranges (s_hist s).
Proof. intros sc s Hr. exact (bad_reported_when_drained cfg_current sc s eq_refl Hr). Qed.

Corollary anycfg_bad_response_sound : forall c sc s pre r ok post, reachable c sc s ->
  s_log s = pre ++ (r, ok) :: post -> r_ranges r <> [] ->
  forall x, 0 < x <= r_ack r ->
  exists f t o, In (f, t, o) (s_hist s) /\ f < x <= t /\
    (o = OOk \/ exists a b, In (a, b) (reported pre ++ r_ranges r) /\ a <= x <= b).
Proof. intros c sc s pre r ok post Hr Hlog Hne. apply (ack_sound_ids c sc s pre r ok post Hr Hlog). right. exact Hne. Qed.
