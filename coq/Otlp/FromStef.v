(* STEF records -> OTLP metrics.
   go/pdata/internal/otlptools/{tef2otlpval,convert}.go, go/pdata/metrics/stef2otlp_unsorted.go
   (driven by IsResourceModified / IsScopeModified / IsMetricModified of the reader record),
   go/pdata/metrics/internal/basesteftotolp.go (points), go/pdata/metrics/stef2otlp_sorted.go +
   sortedbyresource/sortedresource.go (grouping way back).  No proofs in this file. *)
From Coq Require Import List NArith ZArith Bool.
From Stef Require Import OtlpBase PData Record ToStef.
Import ListNotations.
Open Scope N_scope.

(* pcommon.Map.PutEmpty: an existing key keeps its position and gets the new value *)
Fixpoint put_kv (k : str) (v : oval) (m : list (str * oval)) : list (str * oval) :=
  match m with
  | [] => [(k, v)]
  | (k', v') :: r => if str_eqb k k' then (k', v) :: r else (k', v') :: put_kv k v r
  end.

(* tefAnyValueToOtlp (tef2otlpval.go:43-89) *)
Fixpoint back_val (v : tval) : oval :=
  match v with
  | TNone => OEmpty
  | TStr s => OStr s
  | TBool b => OBool b
  | TInt z => OInt z
  | TF64 f => ODouble f
  | TBytes s => OBytes s
  | TArr l => OSlice ((fix go (l : list tval) : list oval :=
                         match l with [] => [] | x :: r => back_val x :: go r end) l)
  | TKV kvs => OMap ((fix go (l : list (str * tval)) (acc : list (str * oval))
                        : list (str * oval) :=
                        match l with
                        | [] => acc
                        | (k, x) :: r => go r (put_kv k (back_val x) acc)
                        end) kvs [])
  end.

(* TefToOtlpMap (tef2otlpval.go:26-39) into an empty map *)
Definition back_attrs (a : tattrs) : oattrs :=
  fold_left (fun acc kv => put_kv (fst kv) (back_val (snd kv)) acc) a [].

(* ResourceToOtlp / ScopeToOtlp (convert.go:9-40): the dropped count is cut to uint32 *)
Definition back_res (r : t_resource) : res_id :=
  mkRes (tr_url r) (back_attrs (tr_attrs r)) (to_u32 (tr_dropped r)).
Definition back_scope (s : t_scope) : scope_id :=
  mkScope (tsc_name s) (tsc_version s) (tsc_url s) (back_attrs (tsc_attrs s))
          (to_u32 (tsc_dropped s)).

(* MetricToOtlp (convert.go:42-69): an empty metric of the type; unknown type panics *)
Definition back_metric (m : t_metric) : res metric :=
  let mk := mkMetric (tm_name m) (tm_desc m) (tm_unit m) (back_attrs (tm_meta m)) in
  if tm_type m =? 0 then Ok (mk (MGauge []))
  else if tm_type m =? 1 then Ok (mk (MSum 0 false []))
  else if tm_type m =? 2 then Ok (mk (MHist 0 []))
  else if tm_type m =? 3 then Ok (mk (MExp 0 []))
  else if tm_type m =? 4 then Ok (mk (MSummary []))
  else Panic.

(* ConvertExemplar (basesteftotolp.go:40-61): slice -> array conversion of the ids panics on
   a short id *)
Definition back_exemplar (e : t_exemplar) : res exemplar :=
  if (length (te_trace e) <? 16)%nat || (length (te_span e) <? 8)%nat then Panic else
  Ok (mkExemplar (te_ts e)
        (match te_val e with TEVNone => NVEmpty | TEVInt z => NVInt z | TEVF64 f => NVDouble f end)
        (firstn 16 (te_trace e)) (firstn 8 (te_span e)) (back_attrs (te_attrs e))).
Definition back_exemplars (l : list t_exemplar) : res (list exemplar) := mapM_res back_exemplar l.

Definition no_value_flags : N := 1.   (* DefaultDataPointFlags.WithNoRecordedValue(true) *)

(* convertNumberPoint (basesteftotolp.go:15-38): a None value returns before the exemplars
   in the pinned code *)
Definition back_num (c : cfg) (a : tattrs) (p : t_point) : res numpoint :=
  let attrs := back_attrs a in
  match tp_val p with
  | PVInt z =>
    rbind (back_exemplars (tp_ex p)) (fun ex => Ok (mkNumPoint (tp_start p) (tp_ts p) 0 (NVInt z) attrs ex))
  | PVF64 f =>
    rbind (back_exemplars (tp_ex p)) (fun ex => Ok (mkNumPoint (tp_start p) (tp_ts p) 0 (NVDouble f) attrs ex))
  | PVNone =>
    if c_back_ex c then
      rbind (back_exemplars (tp_ex p)) (fun ex =>
        Ok (mkNumPoint (tp_start p) (tp_ts p) no_value_flags NVEmpty attrs ex))
    else Ok (mkNumPoint (tp_start p) (tp_ts p) no_value_flags NVEmpty attrs [])
  | _ => Panic
  end.

(* convertHistogramPoint (basesteftotolp.go:126-166).  A value of another type than
   None/Histogram makes the Go code read the unused Histogram storage of the oneof; that is
   outside the model: Err. *)
Definition back_hist (c : cfg) (m : t_metric) (a : tattrs) (p : t_point) : res histpoint :=
  let attrs := back_attrs a in
  match tp_val p with
  | PVNone =>
    if c_back_ex c then
      rbind (back_exemplars (tp_ex p)) (fun ex =>
        Ok (mkHistPoint (tp_start p) (tp_ts p) no_value_flags 0 None None None [] [] attrs ex))
    else Ok (mkHistPoint (tp_start p) (tp_ts p) no_value_flags 0 None None None [] [] attrs [])
  | PVHist h =>
    rbind (back_exemplars (tp_ex p)) (fun ex =>
      Ok (mkHistPoint (tp_start p) (tp_ts p) 0 (to_u64 (th_count h)) (th_sum h) (th_min h)
                      (th_max h) (th_buckets h) (tm_bounds m) attrs ex))
  | _ => Err
  end.

Definition back_eb (b : t_ebuckets) : ebuckets := mkEBuckets (to_i32 (tb_off b)) (tb_counts b).

(* convertExpHistogramPoint (basesteftotolp.go:168-204) *)
Definition back_exp (c : cfg) (a : tattrs) (p : t_point) : res exppoint :=
  let attrs := back_attrs a in
  let e0 := mkEBuckets 0%Z [] in
  match tp_val p with
  | PVNone =>
    if c_back_ex c then
      rbind (back_exemplars (tp_ex p)) (fun ex =>
        Ok (mkExpPoint (tp_start p) (tp_ts p) no_value_flags 0 None None None 0%Z 0 0 e0 e0 attrs ex))
    else Ok (mkExpPoint (tp_start p) (tp_ts p) no_value_flags 0 None None None 0%Z 0 0 e0 e0 attrs [])
  | PVExp x =>
    rbind (back_exemplars (tp_ex p)) (fun ex =>
      Ok (mkExpPoint (tp_start p) (tp_ts p) 0 (tx_count x) (tx_sum x) (tx_min x) (tx_max x)
                     (to_i32 (tx_scale x)) (tx_zc x) (tx_zt x) (back_eb (tx_pos x))
                     (back_eb (tx_neg x)) attrs ex))
  | _ => Err
  end.

(* convertSumaryPoint (basesteftotolp.go:216-232) *)
Definition back_summary (a : tattrs) (p : t_point) : res sumpoint :=
  let attrs := back_attrs a in
  match tp_val p with
  | PVNone => Ok (mkSumPoint (tp_start p) (tp_ts p) no_value_flags 0 0 [] attrs)
  | PVSummary y => Ok (mkSumPoint (tp_start p) (tp_ts p) 0 (ty_count y) (ty_sum y) (ty_q y) attrs)
  | _ => Err
  end.

(* AppendOTLPPoint (basesteftotolp.go:63-111): dispatch on the type of the OTLP metric the
   point is appended to; Sum / Histogram / ExpHistogram take temporality (and monotonic) of
   the record's metric on every point; an unknown temporality panics *)
Definition append_point (c : cfg) (tm : t_metric) (a : tattrs) (p : t_point) (m : metric)
  : res metric :=
  let mk := mkMetric (m_name m) (m_desc m) (m_unit m) (m_meta m) in
  match m_data m with
  | MEmpty => Panic
  | MGauge ps => rbind (back_num c a p) (fun q => Ok (mk (MGauge (ps ++ [q]))))
  | MSum _ _ ps =>
    rbind (back_num c a p) (fun q =>
      if temp_ok (tm_temp tm) then Ok (mk (MSum (tm_temp tm) (tm_mono tm) (ps ++ [q]))) else Panic)
  | MHist _ ps =>
    rbind (back_hist c tm a p) (fun q =>
      if temp_ok (tm_temp tm) then Ok (mk (MHist (tm_temp tm) (ps ++ [q]))) else Panic)
  | MExp _ ps =>
    rbind (back_exp c a p) (fun q =>
      if temp_ok (tm_temp tm) then Ok (mk (MExp (tm_temp tm) (ps ++ [q]))) else Panic)
  | MSummary ps => rbind (back_summary a p) (fun q => Ok (mk (MSummary (ps ++ [q]))))
  end.

(* ---------------------------------------------------------------- StefToOtlpUnsorted *)
Record mflags := mkFlags { f_metric : bool; f_resource : bool; f_scope : bool }.

(* apply f to the metric the Go variable `metric` refers to: the last metric of the last
   scope of the last resource; absent = nil dereference *)
Definition upd_last_metric (f : metric -> res metric) (b : mbatch) : res mbatch :=
  match rev b with
  | [] => Panic
  | rm :: rb =>
    match rev (rm_scopes rm) with
    | [] => Panic
    | sm :: rs =>
      match rev (sm_metrics sm) with
      | [] => Panic
      | m :: ms =>
        rbind (f m) (fun m' =>
          Ok (rev rb ++ [mkRM (rm_res rm) (rev rs ++ [mkSM (sm_scope sm) (rev ms ++ [m'])])]))
      end
    end
  end.

Definition add_scope (s : scope_id) (b : mbatch) : mbatch :=
  upd_last (fun rm => mkRM (rm_res rm) (rm_scopes rm ++ [mkSM s []])) b.
Definition add_metric (m : metric) (b : mbatch) : mbatch :=
  upd_last (fun rm => mkRM (rm_res rm)
              (upd_last (fun sm => mkSM (sm_scope sm) (sm_metrics sm ++ [m])) (rm_scopes rm))) b.

(* one iteration of the loop of StefToOtlpUnsorted.Convert (stef2otlp_unsorted.go:46-71);
   [first] is the initial `modified := true` *)
Definition back_step (c : cfg) (first : bool) (b : mbatch) (fr : mflags * mrecord) : res mbatch :=
  let '(fl, r) := fr in
  let newR := first || f_resource fl in
  let newS := newR || f_scope fl in
  let newM := newS || f_metric fl in
  let b1 := if newR then b ++ [mkRM (back_res (r_resource r)) []] else b in
  let b2 := if newS then add_scope (back_scope (r_scope r)) b1 else b1 in
  rbind (if newM then rbind (back_metric (r_metric r)) (fun m => Ok (add_metric m b2)) else Ok b2)
    (fun b3 => upd_last_metric (append_point c (r_metric r) (r_attrs r) (r_point r)) b3).

Fixpoint back_loop (c : cfg) (first : bool) (b : mbatch) (l : list (mflags * mrecord)) : res mbatch :=
  match l with
  | [] => Ok b
  | fr :: r => rbind (back_step c first b fr) (fun b' => back_loop c false b' r)
  end.

(* StefToOtlpUnsorted.Convert(reader, untilEOF = true) on a stream holding these records with
   these modified flags *)
Definition from_stef_flags (c : cfg) (l : list (mflags * mrecord)) : res mbatch :=
  back_loop c true [] l.

(* the flags the reader reports when the stream carries every change: a root field is
   modified iff it differs from the previous record's *)
Definition tattrs_eqb (a b : tattrs) : bool := match cmp_tattrs a b with Eq => true | _ => false end.
Definition metric_eqb (a b : t_metric) : bool := match cmp_metric a b with Eq => true | _ => false end.
Definition resource_eqb (a b : t_resource) : bool := match cmp_resource a b with Eq => true | _ => false end.
Definition scope_eqb (a b : t_scope) : bool := match cmp_scope a b with Eq => true | _ => false end.

Fixpoint exact_flags (prev : mrecord) (l : list mrecord) : list (mflags * mrecord) :=
  match l with
  | [] => []
  | r :: rest =>
    (mkFlags (negb (metric_eqb (r_metric prev) (r_metric r)))
             (negb (resource_eqb (r_resource prev) (r_resource r)))
             (negb (scope_eqb (r_scope prev) (r_scope r))), r) :: exact_flags r rest
  end.
Definition from_stef (c : cfg) (l : list mrecord) : res mbatch :=
  from_stef_flags c (exact_flags mrecord0 l).

(* ---------------------------------------------------------------- stefToOtlpSorted *)
Section BackSorted.
  Variable cmpR : t_resource -> t_resource -> comparison.
  Variable cmpS : t_scope -> t_scope -> comparison.
  Variable cmpM : t_metric -> t_metric -> comparison.
  Variable cmpA : tattrs -> tattrs -> comparison.

  Definition rleaves := list (tattrs * list t_point).
  Definition rby_metric := list (t_metric * rleaves).
  Definition rby_scope := list (t_scope * rby_metric).
  Definition rtree := list (t_resource * rby_scope).

  (* the loop body of stefToOtlpSorted.Convert (stef2otlp_sorted.go:33-43) *)
  Definition rtree_insert (t : rtree) (r : mrecord) : rtree :=
    ainsert cmpR (r_resource r) (fun o =>
      ainsert cmpS (r_scope r) (fun o =>
        ainsert cmpM (r_metric r) (fun o =>
          ainsert cmpA (r_attrs r) (fun o => oget o ++ [r_point r]) (oget o))
          (oget o)) (oget o)) t.

  Definition fold_res {A B} (f : B -> A -> res B) : list A -> B -> res B :=
    fix go (l : list A) (b : B) : res B :=
      match l with
      | [] => Ok b
      | a :: r => rbind (f b a) (go r)
      end.

  (* SortedTree.ToOtlp (sortedresource.go:43-93) *)
  Definition rtree_metric (c : cfg) (tm : t_metric) (lv : rleaves) : res metric :=
    rbind (back_metric tm) (fun m0 =>
      fold_res (fun m '(a, pts) => fold_res (fun m p => append_point c tm a p m) pts m) lv m0).
  Definition rtree_to_otlp (c : cfg) (t : rtree) : res mbatch :=
    mapM_res (fun '(r, bs) =>
      rbind (mapM_res (fun '(s, bm) =>
               rbind (mapM_res (fun '(tm, lv) => rtree_metric c tm lv) bm)
                     (fun ms => Ok (mkSM (back_scope s) ms))) bs)
            (fun sms => Ok (mkRM (back_res r) sms))) t.

  Definition from_stef_sorted_gen (c : cfg) (l : list mrecord) : res mbatch :=
    rtree_to_otlp c (fold_left rtree_insert l []).
End BackSorted.

Definition from_stef_sorted (c : cfg) (l : list mrecord) : res mbatch :=
  from_stef_sorted_gen cmp_resource cmp_scope cmp_metric cmp_tattrs c l.
