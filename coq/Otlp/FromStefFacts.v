(* Facts about the STEF -> OTLP direction: the way back inverts the structural image on
   well-formed values (unique keys, ranges of the Go types). *)
From Coq Require Import List NArith ZArith Bool Lia Permutation.
From Stef Require Import OtlpBase OtlpBaseFacts PData Record Image ToStef ToStefFacts FromStef.
Import ListNotations.
Open Scope N_scope.

(* ---------------------------------------------------------------- unique keys *)
Lemma existsb_str_eqb_In : forall k ks, existsb (str_eqb k) ks = true <-> In k ks.
Proof.
  intros k ks. rewrite existsb_exists. split.
  - intros [x [Hin He]]. apply str_eqb_eq in He. subst. exact Hin.
  - intro Hin. exists k. split; [exact Hin|]. apply str_eqb_eq. reflexivity.
Qed.

Lemma keys_unique_NoDup : forall ks, keys_unique ks = true <-> NoDup ks.
Proof.
  induction ks as [|k r IH]; cbn [keys_unique].
  - split; [constructor|reflexivity].
  - rewrite andb_true_iff, negb_true_iff, IH. split.
    + intros [H1 H2]. constructor; [|exact H2]. intro Hin.
      apply existsb_str_eqb_In in Hin. congruence.
    + intro H. inversion H; subst. split; [|assumption].
      destruct (existsb (str_eqb k) r) eqn:E; [|reflexivity].
      apply existsb_str_eqb_In in E. contradiction.
Qed.

Lemma put_kv_fresh : forall k v m, ~ In k (map fst m) -> put_kv k v m = m ++ [(k, v)].
Proof.
  induction m as [|[k' v'] r IH]; cbn [put_kv map fst In app]; intro H; [reflexivity|].
  destruct (str_eqb k k') eqn:E.
  - apply str_eqb_eq in E. subst. exfalso. apply H. left. reflexivity.
  - f_equal. apply IH. intro Hin. apply H. right. exact Hin.
Qed.

(* ---------------------------------------------------------------- values *)
Fixpoint back_kvs (l : list (str * tval)) (acc : list (str * oval)) : list (str * oval) :=
  match l with
  | [] => acc
  | (k, x) :: r => back_kvs r (put_kv k (back_val x) acc)
  end.
Fixpoint back_list (l : list tval) : list oval :=
  match l with [] => [] | x :: r => back_val x :: back_list r end.
Fixpoint img_list (l : list oval) : list tval :=
  match l with [] => [] | x :: r => img_val x :: img_list r end.

Lemma back_val_kv : forall l, back_val (TKV l) = OMap (back_kvs l []).
Proof. reflexivity. Qed.
Lemma back_val_arr : forall l, back_val (TArr l) = OSlice (back_list l).
Proof. reflexivity. Qed.
Lemma img_val_map : forall kvs, img_val (OMap kvs) = TKV (img_attrs kvs).
Proof. reflexivity. Qed.
Lemma img_val_slice : forall l, img_val (OSlice l) = TArr (img_list l).
Proof. reflexivity. Qed.

Lemma back_attrs_kvs : forall a, back_attrs a = back_kvs a [].
Proof.
  intro a. unfold back_attrs. generalize (@nil (str * oval)).
  induction a as [|[k x] r IH]; intro acc; cbn; [reflexivity|]. apply IH.
Qed.

Lemma back_kvs_img : forall l acc,
  NoDup (map fst acc ++ map fst l) ->
  Forall (fun kv => back_val (img_val (snd kv)) = snd kv) l ->
  back_kvs (img_attrs l) acc = acc ++ l.
Proof.
  induction l as [|[k x] r IH]; intros acc Hnd Hall; cbn [img_attrs back_kvs].
  - rewrite app_nil_r. reflexivity.
  - inversion Hall as [|? ? Hx Hr]; subst. cbn [snd] in Hx. rewrite Hx.
    cbn [map fst] in Hnd.
    rewrite put_kv_fresh.
    + rewrite IH; [rewrite <- app_assoc; reflexivity| |exact Hr].
      rewrite map_app, <- app_assoc. cbn [map fst app]. exact Hnd.
    + intro Hin. apply NoDup_remove_2 in Hnd. apply Hnd. apply in_or_app. left. exact Hin.
Qed.

Lemma oval_wf_slice : forall l, oval_wf (OSlice l) = forallb oval_wf l.
Proof. intro l. cbn [oval_wf]. induction l as [|x r IH]; [reflexivity|]. cbn [forallb]. rewrite <- IH. reflexivity. Qed.
Lemma oval_wf_map : forall kvs, oval_wf (OMap kvs) = keys_unique (map fst kvs) && forallb (fun kv => oval_wf (snd kv)) kvs.
Proof.
  intro kvs. cbn [oval_wf]. f_equal. induction kvs as [|[k x] r IH]; [reflexivity|].
  cbn [forallb snd]. rewrite <- IH. reflexivity.
Qed.

Lemma back_img_val : forall v, oval_wf v = true -> back_val (img_val v) = v.
Proof.
  induction v using oval_ind'; intro Hwf; try reflexivity.
  - rewrite img_val_slice, back_val_arr. f_equal. rewrite oval_wf_slice in Hwf.
    induction H as [|x r Hx Hr IH]; [reflexivity|]. cbn [forallb] in Hwf.
    apply andb_true_iff in Hwf. destruct Hwf as [W1 W2].
    cbn [img_list back_list]. rewrite (Hx W1), (IH W2). reflexivity.
  - rewrite img_val_map, back_val_kv. f_equal. rewrite oval_wf_map in Hwf.
    apply andb_true_iff in Hwf. destruct Hwf as [W1 W2].
    rewrite back_kvs_img; [reflexivity| |].
    + cbn [map app]. apply keys_unique_NoDup. exact W1.
    + rewrite forallb_forall in W2. rewrite Forall_forall in *. intros kv Hin.
      apply H; [exact Hin|]. apply W2. exact Hin.
Qed.

Lemma back_img_attrs : forall a, attrs_wf a = true -> back_attrs (img_attrs a) = a.
Proof.
  intros a Hwf. unfold attrs_wf in Hwf. apply andb_true_iff in Hwf. destruct Hwf as [W1 W2].
  rewrite back_attrs_kvs, back_kvs_img; [reflexivity| |].
  - cbn [map app]. apply keys_unique_NoDup. exact W1.
  - rewrite forallb_forall in W2. rewrite Forall_forall. intros kv Hin.
    apply back_img_val. apply W2. exact Hin.
Qed.

(* sorting keeps well-formedness *)
Lemma attrs_wf_sort : forall a, attrs_wf a = true -> attrs_wf (sort_kv a) = true.
Proof.
  intros a Hwf. unfold attrs_wf in *. apply andb_true_iff in Hwf. destruct Hwf as [W1 W2].
  apply andb_true_iff. split.
  - apply keys_unique_NoDup. apply keys_unique_NoDup in W1.
    eapply Permutation_NoDup; [apply Permutation_sym; apply sort_kv_keys_perm|exact W1].
  - rewrite forallb_forall in *. intros kv Hin. apply W2.
    eapply Permutation_in; [apply sort_kv_perm|exact Hin].
Qed.

(* what the flattened view keeps of an attribute collection survives both storage orders *)
Lemma canon_back_img : forall a, attrs_wf a = true -> canon (back_attrs (img_attrs a)) = canon a.
Proof. intros a H. rewrite back_img_attrs by exact H. reflexivity. Qed.
Lemma canon_back_img_sorted : forall a, attrs_wf a = true ->
  canon (back_attrs (img_attrs (sort_kv a))) = canon a.
Proof.
  intros a H. rewrite back_img_attrs by (apply attrs_wf_sort; exact H).
  unfold canon. apply sort_kv_idem.
Qed.
