(* C17, the grouping way back: stefToOtlpSorted (go/pdata/metrics/stef2otlp_sorted.go with
   sortedbyresource/sortedresource.go), model FromStef.from_stef_sorted_gen.

   The converter files every record it reads under resource / scope / metric / attributes
   (four nested b-trees keyed by the generated Cmp* functions) and then walks the tree.  For
   ANY list of records:
   - [regroup l] is the order in which the walk visits the records; the flattened result is
     the concatenation of the per-record views ([RoundTripFacts.view], the function used by
     C17_way_back_by_flags) in that order ([sorted_back_exact]);
   - [regroup l] is a permutation of l as soon as Eq of the four comparisons means equality
     ([regroup_perm]), so the result is a permutation of the views ([sorted_back_views]);
   - under strict total orders the records of one (resource, scope, metric, attributes) group
     keep their relative order ([regroup_stable]); the points of one (resource, scope, metric)
     group do NOT when their attributes differ ([sorted_back_metric_order_refuted]): the
     fourth tree level regroups them by attributes;
   - it succeeds exactly when every record stands for something ([sorted_back_ok_iff]);
   - composed with the to-STEF theorems: both converters followed by the grouping way back
     give a permutation of the flattened input batch;
   - the keys are whole STEF structs (every field of Resource, Scope, Metric is compared by
     the generated Cmp functions), so nothing that differs is merged; the converse fails: records of
     the order-preserving converter that stand for the same OTLP metric can differ in stale
     fields of the STEF Metric and come back as two metrics
     ([sorted_back_one_metric_per_identity_refuted]).
   The association-list model of the b-trees (linear scan) agrees with a b-tree only for a
   total order; the permutation results need nothing but "Eq means equal". *)
From Coq Require Import List NArith ZArith Bool Lia Permutation.
From Stef Require Import OtlpBase OtlpBaseFacts PData Record Image ToStef ToStefFacts FromStef
  FromStefFacts RoundTripFacts SortedFacts SortedRoundTripFacts.
Import ListNotations.
Open Scope N_scope.

(* ---------------------------------------------------------------- lists *)
Lemma filter_none : forall {A} (f : A -> bool) l, (forall x, In x l -> f x = false) -> filter f l = [].
Proof.
  induction l as [|x r IH]; intro H; cbn [filter]; [reflexivity|].
  rewrite (H x (or_introl eq_refl)). apply IH. intros y Hy. apply H. right. exact Hy.
Qed.

Lemma Permutation_concat : forall {A} (l l' : list (list A)),
  Permutation l l' -> Permutation (concat l) (concat l').
Proof.
  intros A l l' H. induction H; cbn [concat].
  - constructor.
  - apply Permutation_app_head. exact IHPermutation.
  - rewrite !app_assoc. apply Permutation_app_tail. apply Permutation_app_comm.
  - eapply perm_trans; eassumption.
Qed.

Lemma Forall2_In_l : forall {A B} (P : A -> B -> Prop) l l' x,
  Forall2 P l l' -> In x l -> exists y, P x y.
Proof.
  intros A B P l l' x H. induction H as [|a b l l' Hab _ IH]; intro Hin; [contradiction|].
  destruct Hin as [->|Hin]; [exists b; exact Hab|apply IH; exact Hin].
Qed.

(* ---------------------------------------------------------------- ainsert *)
Section AssocVals.
  Context {K V : Type} (cmp : K -> K -> comparison).

  Lemma ainsert_vals_forall : forall (Q : V -> Prop) k upd (t : list (K * V)),
    Q (upd None) -> (forall v, Q v -> Q (upd (Some v))) ->
    Forall (fun kv => Q (snd kv)) t -> Forall (fun kv => Q (snd kv)) (ainsert cmp k upd t).
  Proof.
    intros Q k upd t Hn Hs. induction t as [|[k' v'] r IH]; cbn [ainsert]; intro H.
    - constructor; [exact Hn|constructor].
    - inversion H as [|? ? Hv Hr]; subst. cbn [snd] in Hv. destruct (cmp k k').
      + constructor; [cbn [snd]; apply Hs; exact Hv|exact Hr].
      + constructor; [exact Hn|exact H].
      + constructor; [exact Hv|apply IH; exact Hr].
  Qed.

  Lemma ainsert_keys_forall : forall (P : K -> Prop) k upd (t : list (K * V)),
    P k -> Forall (fun kv => P (fst kv)) t -> Forall (fun kv => P (fst kv)) (ainsert cmp k upd t).
  Proof.
    intros P k upd t Hk. induction t as [|[k' v'] r IH]; cbn [ainsert]; intro H.
    - constructor; [exact Hk|constructor].
    - inversion H as [|? ? Hv Hr]; subst. cbn [fst] in Hv. destruct (cmp k k').
      + constructor; [exact Hv|exact Hr].
      + constructor; [exact Hk|exact H].
      + constructor; [exact Hv|apply IH; exact Hr].
  Qed.
End AssocVals.

(* an association list kept by ainsert under a strict total order is strictly increasing;
   then the things filed under one key keep their relative order *)
Section AssocOrder.
  Context {K V R : Type} (cmp : K -> K -> comparison).
  Hypothesis cmp_sound : forall a b, cmp a b = Eq -> a = b.
  Hypothesis cmp_refl : forall a, cmp a a = Eq.
  Hypothesis cmp_antisym : forall a b, cmp b a = CompOpp (cmp a b).
  Hypothesis cmp_trans : forall a b c, cmp a b = Lt -> cmp b c = Lt -> cmp a c = Lt.

  Fixpoint asorted (t : list (K * V)) : Prop :=
    match t with
    | [] => True
    | (k, _) :: r => Forall (fun kv => cmp k (fst kv) = Lt) r /\ asorted r
    end.

  Lemma ainsert_sorted : forall k upd t, asorted t -> asorted (ainsert cmp k upd t).
  Proof.
    intros k upd. induction t as [|[k' v'] r IH]; cbn [ainsert asorted]; intro H.
    - split; [constructor|exact I].
    - destruct H as [Hall Hs]. destruct (cmp k k') eqn:E; cbn [asorted].
      + split; assumption.
      + split; [|split; assumption]. constructor; [exact E|].
        eapply Forall_impl; [|exact Hall]. intros kv Hkv. cbn beta in Hkv.
        eapply cmp_trans; eassumption.
      + split; [|apply IH; exact Hs].
        apply (ainsert_keys_forall cmp (fun x => cmp k' x = Lt)); [|exact Hall].
        rewrite cmp_antisym, E. reflexivity.
  Qed.

  Lemma lt_neq : forall a b, cmp a b = Lt -> b <> a.
  Proof. intros a b H ->. rewrite cmp_refl in H. discriminate. Qed.

  (* what is filed under an entry, and the key it is filed under *)
  Variable proj : R -> K.
  Variable okV : V -> Prop.
  Variable content : K -> V -> list R.
  Hypothesis content_key : forall k v x, In x (content k v) -> proj x = k.
  (* a selection inside the group of key k0 *)
  Variable f : R -> bool.
  Variable k0 : K.
  Hypothesis f_key : forall x, f x = true -> proj x = k0.

  Lemma filter_other_proj : forall k l, (forall x, In x l -> proj x = k) -> k <> k0 -> filter f l = [].
  Proof.
    intros k l Hl Hk. apply filter_none. intros x Hin. destruct (f x) eqn:E; [|reflexivity].
    exfalso. apply Hk. rewrite <- (Hl x Hin). apply f_key. exact E.
  Qed.

  Lemma filter_other_keys : forall t : list (K * V), Forall (fun kv => fst kv <> k0) t ->
    filter f (flat_map (fun kv => content (fst kv) (snd kv)) t) = [].
  Proof.
    induction t as [|[k v] r IH]; intro H; cbn [flat_map]; [reflexivity|].
    inversion H as [|? ? Hk Hr]; subst. cbn [fst snd] in *. rewrite filter_app, (IH Hr), app_nil_r.
    apply (filter_other_proj k); [intros x Hx; eapply content_key; exact Hx|exact Hk].
  Qed.

  Lemma ainsert_filter : forall k upd added (t : list (K * V)),
    asorted t -> Forall (fun kv => okV (snd kv)) t ->
    (forall x, In x added -> proj x = k) ->
    filter f (content k (upd None)) = filter f added ->
    (forall v, okV v -> filter f (content k (upd (Some v))) = filter f (content k v ++ added)) ->
    filter f (flat_map (fun kv => content (fst kv) (snd kv)) (ainsert cmp k upd t)) =
    filter f (flat_map (fun kv => content (fst kv) (snd kv)) t ++ added).
  Proof.
    intros k upd added t Hsorted Hok Hadded Hn Hs.
    assert (D : filter f added = [] \/ k = k0).
    { destruct (cmp k k0) eqn:E; [right; apply cmp_sound; exact E|left|left];
        apply (filter_other_proj k); try exact Hadded; intros ->; rewrite cmp_refl in E; discriminate. }
    induction t as [|[k' v'] r IH]; cbn [ainsert flat_map].
    - cbn [fst snd app]. rewrite app_nil_r. exact Hn.
    - cbn [asorted] in Hsorted. destruct Hsorted as [Hall Hsr].
      inversion Hok as [|? ? Hv' Hokr]; subst. cbn [snd] in Hv'.
      destruct (cmp k k') eqn:E; cbn [flat_map fst snd].
      + apply cmp_sound in E. subst k'. rewrite !filter_app, (Hs v' Hv'), !filter_app.
        rewrite <- !app_assoc. f_equal. destruct D as [D|D].
        * rewrite D, app_nil_r. reflexivity.
        * subst k. rewrite (filter_other_keys r), app_nil_r; [reflexivity|].
          eapply Forall_impl; [|exact Hall]. intros kv Hkv. apply lt_neq. exact Hkv.
      + rewrite !filter_app, Hn. destruct D as [D|D].
        * rewrite D, app_nil_r. reflexivity.
        * subst k. rewrite <- filter_app.
          change (content k' v' ++ flat_map (fun kv => content (fst kv) (snd kv)) r)
            with (flat_map (fun kv => content (fst kv) (snd kv)) ((k', v') :: r)).
          rewrite filter_other_keys; [rewrite app_nil_r; reflexivity|].
          constructor; [cbn [fst]; apply lt_neq; exact E|].
          eapply Forall_impl; [|exact Hall]. intros kv Hkv. cbn beta in Hkv. apply lt_neq.
          eapply cmp_trans; eassumption.
      + rewrite filter_app, (IH Hsr Hokr), !filter_app, <- !app_assoc. reflexivity.
  Qed.
End AssocOrder.

(* ---------------------------------------------------------------- the records of a tree *)
(* in the order of SortedTree.ToOtlp's walk: resource, scope, metric, attributes, arrival *)
Definition cA (tm : t_metric) (r : t_resource) (s : t_scope) (a : tattrs) (pts : list t_point)
  : list mrecord := map (fun p => mkMRec tm r s a p) pts.
Definition cM (r : t_resource) (s : t_scope) (tm : t_metric) (lv : rleaves) : list mrecord :=
  flat_map (fun kv => cA tm r s (fst kv) (snd kv)) lv.
Definition cS (r : t_resource) (s : t_scope) (bm : rby_metric) : list mrecord :=
  flat_map (fun kv => cM r s (fst kv) (snd kv)) bm.
Definition cR (r : t_resource) (bs : rby_scope) : list mrecord :=
  flat_map (fun kv => cS r (fst kv) (snd kv)) bs.
Definition rtree_records (t : rtree) : list mrecord :=
  flat_map (fun kv => cR (fst kv) (snd kv)) t.

Lemma cA_key : forall tm r s a pts x, In x (cA tm r s a pts) ->
  r_metric x = tm /\ r_resource x = r /\ r_scope x = s /\ r_attrs x = a.
Proof.
  intros tm r s a pts x H. unfold cA in H. apply in_map_iff in H. destruct H as [p [<- _]].
  cbn. auto.
Qed.
Lemma cM_key : forall r s tm lv x, In x (cM r s tm lv) ->
  r_metric x = tm /\ r_resource x = r /\ r_scope x = s.
Proof.
  intros r s tm lv x H. unfold cM in H. apply in_flat_map in H. destruct H as [[a pts] [_ H]].
  apply cA_key in H. tauto.
Qed.
Lemma cS_key : forall r s bm x, In x (cS r s bm) -> r_resource x = r /\ r_scope x = s.
Proof.
  intros r s bm x H. unfold cS in H. apply in_flat_map in H. destruct H as [[tm lv] [_ H]].
  apply cM_key in H. tauto.
Qed.
Lemma cR_key : forall r bs x, In x (cR r bs) -> r_resource x = r.
Proof.
  intros r bs x H. unfold cR in H. apply in_flat_map in H. destruct H as [[s bm] [_ H]].
  apply cS_key in H. tauto.
Qed.

(* every metric entry of a tree built by insertions holds a point *)
Definition has_point (lv : rleaves) : Prop := exists a pts, In (a, pts) lv /\ pts <> [].
Definition ne_scope (bm : rby_metric) : Prop := Forall (fun kv => has_point (snd kv)) bm.
Definition ne_res (bs : rby_scope) : Prop := Forall (fun kv => ne_scope (snd kv)) bs.
Definition rtree_ne (t : rtree) : Prop := Forall (fun kv => ne_res (snd kv)) t.

Lemma has_point_record : forall r s tm lv, has_point lv -> exists x, In x (cM r s tm lv).
Proof.
  intros r s tm lv [a [pts [Hin Hne]]]. destruct pts as [|p pts]; [congruence|].
  exists (mkMRec tm r s a p). unfold cM. apply in_flat_map. exists (a, p :: pts).
  split; [exact Hin|]. cbn [fst snd cA map]. left. reflexivity.
Qed.

Section Regroup.
  Variable cmpR : t_resource -> t_resource -> comparison.
  Variable cmpS : t_scope -> t_scope -> comparison.
  Variable cmpM : t_metric -> t_metric -> comparison.
  Variable cmpA : tattrs -> tattrs -> comparison.

  Notation ins := (rtree_insert cmpR cmpS cmpM cmpA).
  Notation updA p := (fun o : option (list t_point) => oget o ++ [p]).
  Notation updM a p := (fun o : option rleaves => ainsert cmpA a (updA p) (oget o)).
  Notation updS m a p := (fun o : option rby_metric => ainsert cmpM m (updM a p) (oget o)).
  Notation updR s m a p := (fun o : option rby_scope => ainsert cmpS s (updS m a p) (oget o)).

  (* the order in which the grouping way back emits the records it has read *)
  Definition regroup (l : list mrecord) : list mrecord := rtree_records (fold_left ins l []).

  Lemma ainsert_has_point : forall a p lv, has_point (ainsert cmpA a (updA p) lv).
  Proof.
    intros a p. induction lv as [|[a' pts'] r IH]; cbn [ainsert].
    - exists a, [p]. split; [left; reflexivity|discriminate].
    - destruct (cmpA a a').
      + exists a', (pts' ++ [p]). split; [left; reflexivity|]. cbn [oget]. destruct pts'; discriminate.
      + exists a, [p]. split; [left; reflexivity|discriminate].
      + destruct IH as [a1 [pts1 [Hin Hne]]]. exists a1, pts1. split; [right; exact Hin|exact Hne].
  Qed.

  Lemma rtree_insert_ne : forall t r, rtree_ne t -> rtree_ne (ins t r).
  Proof.
    intros t [m r s a p] H. unfold rtree_insert. cbn [r_metric r_resource r_scope r_attrs r_point].
    assert (LM : forall bm, ne_scope bm -> ne_scope (ainsert cmpM m (updM a p) bm)).
    { intros bm Hb. apply (ainsert_vals_forall cmpM has_point); [| |exact Hb].
      - apply ainsert_has_point.
      - intros v _. apply ainsert_has_point. }
    assert (LS : forall bs, ne_res bs -> ne_res (ainsert cmpS s (updS m a p) bs)).
    { intros bs Hb. apply (ainsert_vals_forall cmpS ne_scope); [| |exact Hb].
      - apply LM. constructor.
      - intros v Hv. apply LM. exact Hv. }
    apply (ainsert_vals_forall cmpR ne_res); [| |exact H].
    - apply LS. constructor.
    - intros v Hv. apply LS. exact Hv.
  Qed.

  Lemma fold_insert_ne : forall l t, rtree_ne t -> rtree_ne (fold_left ins l t).
  Proof.
    induction l as [|r l IH]; intros t H; cbn [fold_left]; [exact H|].
    apply IH. apply rtree_insert_ne. exact H.
  Qed.

  Section Perm.
    Hypothesis cmpR_sound : forall a b, cmpR a b = Eq -> a = b.
    Hypothesis cmpS_sound : forall a b, cmpS a b = Eq -> a = b.
    Hypothesis cmpM_sound : forall a b, cmpM a b = Eq -> a = b.
    Hypothesis cmpA_sound : forall a b, cmpA a b = Eq -> a = b.

    Lemma rtree_insert_perm : forall t r,
      Permutation (rtree_records (ins t r)) (rtree_records t ++ [r]).
    Proof.
      intros t [m r s a p]. unfold rtree_insert, rtree_records.
      cbn [r_metric r_resource r_scope r_attrs r_point].
      assert (LA : forall lv, Permutation (cM r s m (ainsert cmpA a (updA p) lv))
                                          (cM r s m lv ++ [mkMRec m r s a p])).
      { intro lv. unfold cM. apply (ainsert_content cmpA cmpA_sound (cA m r s)).
        - cbn. apply Permutation_refl.
        - intro v. cbn [oget]. unfold cA. rewrite map_app. apply Permutation_refl. }
      assert (LM : forall bm, Permutation (cS r s (ainsert cmpM m (updM a p) bm))
                                          (cS r s bm ++ [mkMRec m r s a p])).
      { intro bm. unfold cS. apply (ainsert_content cmpM cmpM_sound (cM r s)).
        - cbn [oget]. apply (LA []).
        - intro v. cbn [oget]. apply LA. }
      assert (LS : forall bs, Permutation (cR r (ainsert cmpS s (updS m a p) bs))
                                          (cR r bs ++ [mkMRec m r s a p])).
      { intro bs. unfold cR. apply (ainsert_content cmpS cmpS_sound (cS r)).
        - cbn [oget]. apply (LM []).
        - intro v. cbn [oget]. apply LM. }
      apply (ainsert_content cmpR cmpR_sound cR).
      - cbn [oget]. apply (LS []).
      - intro v. cbn [oget]. apply LS.
    Qed.

    Lemma fold_insert_perm : forall l t,
      Permutation (rtree_records (fold_left ins l t)) (rtree_records t ++ l).
    Proof.
      induction l as [|r l IH]; intro t; cbn [fold_left].
      - rewrite app_nil_r. apply Permutation_refl.
      - eapply perm_trans; [apply IH|].
        eapply perm_trans; [apply Permutation_app_tail; apply rtree_insert_perm|].
        rewrite <- app_assoc. apply Permutation_refl.
    Qed.

    (* nothing is merged and nothing is dropped: the walk visits every record once *)
    Theorem regroup_perm : forall l, Permutation (regroup l) l.
    Proof. intro l. apply (fold_insert_perm l []). Qed.
  End Perm.
End Regroup.

(* ---------------------------------------------------------------- SortedTree.ToOtlp *)
Definition rviews (c : cfg) (l : list mrecord) (pvs : list (list fqpoint)) : Prop :=
  Forall2 (fun r pv => view c r = Ok pv) l pvs.

Lemma fold_res_nil : forall {A B} (f : B -> A -> res B) b, fold_res f [] b = Ok b.
Proof. reflexivity. Qed.
Lemma fold_res_cons : forall {A B} (f : B -> A -> res B) a r b,
  fold_res f (a :: r) b = rbind (f b a) (fold_res f r).
Proof. reflexivity. Qed.
Lemma mapM_res_cons : forall {A B} (f : A -> res B) a r,
  mapM_res f (a :: r) = rbind (f a) (fun x => rbind (mapM_res f r) (fun xs => Ok (x :: xs))).
Proof. intros. cbn [mapM_res]. destruct (f a); cbn [rbind]; [|reflexivity|reflexivity].
  destruct (mapM_res f r); reflexivity. Qed.

Lemma no_points_flatten : forall R S m, no_points m -> flatten_metric R S m = [].
Proof.
  intros R S m Hn. unfold no_points in Hn. unfold flatten_metric.
  destruct (m_data m); cbn in Hn; try reflexivity; apply length_zero_nil in Hn; subst; reflexivity.
Qed.

Section ToOtlp.
  Variable c : cfg.

  (* the points of one leaf join the metric one after the other *)
  Lemma leaf_fold : forall tm tr ts a pts m pvs,
    hdr_ok tm m -> (no_points m \/ temps_eq tm m) ->
    rviews c (cA tm tr ts a pts) pvs ->
    exists m', fold_res (fun m p => append_point c tm a p m) pts m = Ok m' /\
      hdr_ok tm m' /\ (no_points m' \/ temps_eq tm m') /\
      flatten_metric (back_res tr) (back_scope ts) m' =
      flatten_metric (back_res tr) (back_scope ts) m ++ concat pvs.
  Proof.
    intros tm tr ts a. induction pts as [|p pts IH]; intros m pvs Hh Ht Hv; unfold cA in Hv; cbn [map] in Hv.
    - inversion Hv; subst. exists m. rewrite fold_res_nil. cbn [concat]. rewrite app_nil_r. auto.
    - inversion Hv as [|? pv ? pvs' Hp Hr]; subst.
      destruct (append_view c tm tr ts a p m pv Hh Ht Hp) as [m1 [Ha [Hh1 [Ht1 Hf1]]]].
      destruct (IH m1 pvs' Hh1 (or_intror Ht1) Hr) as [m' [Hfold [Hh' [Ht' Hf']]]].
      exists m'. rewrite fold_res_cons, Ha. cbn [rbind]. split; [exact Hfold|].
      split; [exact Hh'|]. split; [exact Ht'|]. rewrite Hf', Hf1. cbn [concat].
      rewrite <- app_assoc. reflexivity.
  Qed.

  Lemma leaves_fold : forall tm tr ts lv m pvs,
    hdr_ok tm m -> (no_points m \/ temps_eq tm m) ->
    rviews c (cM tr ts tm lv) pvs ->
    exists m', fold_res (fun m '(a, pts) => fold_res (fun m p => append_point c tm a p m) pts m) lv m
                 = Ok m' /\
      flatten_metric (back_res tr) (back_scope ts) m' =
      flatten_metric (back_res tr) (back_scope ts) m ++ concat pvs.
  Proof.
    intros tm tr ts. induction lv as [|[a pts] lv IH]; intros m pvs Hh Ht Hv; unfold cM in Hv; cbn [flat_map] in Hv.
    - inversion Hv; subst. exists m. rewrite fold_res_nil. cbn [concat]. rewrite app_nil_r. auto.
    - cbn [fst snd] in Hv. apply Forall2_app_inv_l in Hv. destruct Hv as [pv1 [pv2 [H1 [H2 ->]]]].
      destruct (leaf_fold tm tr ts a pts m pv1 Hh Ht H1) as [m1 [Hf1 [Hh1 [Ht1 Hfl1]]]].
      destruct (IH m1 pv2 Hh1 Ht1 H2) as [m' [Hf' Hfl']].
      exists m'. rewrite fold_res_cons, Hf1. cbn [rbind]. split; [exact Hf'|].
      rewrite Hfl', Hfl1, concat_app, <- app_assoc. reflexivity.
  Qed.

  Lemma metric_exact : forall tr ts tm lv pvs, has_point lv ->
    rviews c (cM tr ts tm lv) pvs ->
    exists m, rtree_metric c tm lv = Ok m /\
      flatten_metric (back_res tr) (back_scope ts) m = concat pvs.
  Proof.
    intros tr ts tm lv pvs Hp Hv.
    destruct (has_point_record tr ts tm lv Hp) as [x Hx].
    destruct (Forall2_In_l _ _ _ x Hv Hx) as [pv Hpv].
    destruct (view_metric_ok _ _ _ Hpv) as [m0 Hm0].
    destruct (cM_key _ _ _ _ _ Hx) as [Hxm _]. rewrite Hxm in Hm0.
    destruct (back_metric_fresh _ _ Hm0) as [Hh Hn].
    destruct (leaves_fold tm tr ts lv m0 pvs Hh (or_introl Hn) Hv) as [m [Hf Hfl]].
    exists m. unfold rtree_metric. rewrite Hm0. cbn [rbind]. split; [exact Hf|].
    rewrite Hfl, (no_points_flatten _ _ _ Hn). reflexivity.
  Qed.

  Lemma scope_exact : forall tr ts bm pvs, ne_scope bm -> rviews c (cS tr ts bm) pvs ->
    exists ms, mapM_res (fun '(tm, lv) => rtree_metric c tm lv) bm = Ok ms /\
      flat_map (flatten_metric (back_res tr) (back_scope ts)) ms = concat pvs.
  Proof.
    intros tr ts. induction bm as [|[tm lv] bm IH]; intros pvs Hne Hv; unfold cS in Hv; cbn [flat_map] in Hv.
    - inversion Hv; subst. exists []. split; reflexivity.
    - cbn [fst snd] in Hv. apply Forall2_app_inv_l in Hv. destruct Hv as [pv1 [pv2 [H1 [H2 ->]]]].
      inversion Hne as [|? ? Hp Hne']; subst. cbn [snd] in Hp.
      destruct (metric_exact tr ts tm lv pv1 Hp H1) as [m [Hm Hfl]].
      destruct (IH pv2 Hne' H2) as [ms [Hms Hfls]].
      exists (m :: ms). rewrite mapM_res_cons, Hm. cbn [rbind]. rewrite Hms. cbn [rbind].
      split; [reflexivity|]. cbn [flat_map]. rewrite Hfl, Hfls, concat_app. reflexivity.
  Qed.

  Definition scopes_to_otlp (bs : rby_scope) : res (list scope_metrics) :=
    mapM_res (fun '(s, bm) =>
      rbind (mapM_res (fun '(tm, lv) => rtree_metric c tm lv) bm)
            (fun ms => Ok (mkSM (back_scope s) ms))) bs.

  Lemma res_exact : forall tr bs pvs, ne_res bs -> rviews c (cR tr bs) pvs ->
    exists sms, scopes_to_otlp bs = Ok sms /\
      flat_map (flatten_scope (back_res tr)) sms = concat pvs.
  Proof.
    intros tr. unfold scopes_to_otlp.
    induction bs as [|[ts bm] bs IH]; intros pvs Hne Hv; unfold cR in Hv; cbn [flat_map] in Hv.
    - inversion Hv; subst. exists []. split; reflexivity.
    - cbn [fst snd] in Hv. apply Forall2_app_inv_l in Hv. destruct Hv as [pv1 [pv2 [H1 [H2 ->]]]].
      inversion Hne as [|? ? Hp Hne']; subst. cbn [snd] in Hp.
      destruct (scope_exact tr ts bm pv1 Hp H1) as [ms [Hms Hfl]].
      destruct (IH pv2 Hne' H2) as [sms [Hsms Hfls]].
      exists (mkSM (back_scope ts) ms :: sms). rewrite mapM_res_cons, Hms. cbn [rbind].
      rewrite Hsms. cbn [rbind]. split; [reflexivity|]. cbn [flat_map].
      unfold flatten_scope at 1. cbn [sm_scope sm_metrics]. rewrite Hfl, Hfls, concat_app. reflexivity.
  Qed.

  (* the walk over ANY tree whose metric entries hold a point: the flattened batch is the
     concatenation of the views of its records, in the order of the walk *)
  Theorem rtree_to_otlp_exact : forall t pvs, rtree_ne t -> rviews c (rtree_records t) pvs ->
    exists b, rtree_to_otlp c t = Ok b /\ flatten b = concat pvs.
  Proof.
    unfold rtree_to_otlp.
    induction t as [|[tr bs] t IH]; intros pvs Hne Hv; unfold rtree_records in Hv; cbn [flat_map] in Hv.
    - inversion Hv; subst. exists []. split; reflexivity.
    - cbn [fst snd] in Hv. apply Forall2_app_inv_l in Hv. destruct Hv as [pv1 [pv2 [H1 [H2 ->]]]].
      inversion Hne as [|? ? Hp Hne']; subst. cbn [snd] in Hp.
      destruct (res_exact tr bs pv1 Hp H1) as [sms [Hsms Hfl]].
      destruct (IH pv2 Hne' H2) as [b [Hb Hflb]].
      exists (mkRM (back_res tr) sms :: b). rewrite mapM_res_cons.
      unfold scopes_to_otlp in Hsms. rewrite Hsms. cbn [rbind]. rewrite Hb. cbn [rbind].
      split; [reflexivity|]. unfold flatten in *. cbn [flat_map].
      unfold flatten_res at 1. cbn [rm_res rm_scopes]. rewrite Hfl, Hflb, concat_app. reflexivity.
  Qed.
End ToOtlp.

(* ---------------------------------------------------------------- the grouping way back *)
(* what a record stands for, [] when it stands for nothing (conversion fails) *)
Definition vw (c : cfg) (r : mrecord) : list fqpoint :=
  match view c r with Ok pv => pv | _ => [] end.

Lemma rviews_vw : forall c l pvs, rviews c l pvs -> concat pvs = flat_map (vw c) l.
Proof.
  intros c l pvs H. induction H as [|r pv l pvs Hr _ IH]; cbn [concat flat_map]; [reflexivity|].
  unfold vw at 1. rewrite Hr, IH. reflexivity.
Qed.

Section SortedBack.
  Variable cmpR : t_resource -> t_resource -> comparison.
  Variable cmpS : t_scope -> t_scope -> comparison.
  Variable cmpM : t_metric -> t_metric -> comparison.
  Variable cmpA : tattrs -> tattrs -> comparison.

  Notation back := (from_stef_sorted_gen cmpR cmpS cmpM cmpA).
  Notation regroup := (regroup cmpR cmpS cmpM cmpA).

  (* for ANY comparison functions and ANY records: if every record, taken in the order of
     the walk, stands for something, the result is exactly these views in that order *)
  Theorem sorted_back_exact : forall c l pvs',
    rviews c (regroup l) pvs' ->
    exists b', back c l = Ok b' /\ flatten b' = concat pvs'.
  Proof.
    intros c l pvs' Hv. unfold from_stef_sorted_gen. apply rtree_to_otlp_exact; [|exact Hv].
    apply fold_insert_ne. constructor.
  Qed.

  Section Sound.
    Hypothesis cmpR_sound : forall a b, cmpR a b = Eq -> a = b.
    Hypothesis cmpS_sound : forall a b, cmpS a b = Eq -> a = b.
    Hypothesis cmpM_sound : forall a b, cmpM a b = Eq -> a = b.
    Hypothesis cmpA_sound : forall a b, cmpA a b = Eq -> a = b.

    (* ANY list of records: a permutation of the per-record views *)
    Theorem sorted_back_views : forall c l pvs,
      rviews c l pvs ->
      exists b', back c l = Ok b' /\ Permutation (flatten b') (concat pvs) /\
                 flatten b' = flat_map (vw c) (regroup l).
    Proof.
      intros c l pvs Hv.
      pose proof (regroup_perm cmpR cmpS cmpM cmpA cmpR_sound cmpS_sound cmpM_sound cmpA_sound l) as Hp.
      destruct (Forall2_perm_l _ _ _ _ (Permutation_sym Hp) Hv) as [pvs' [Hv' Hpp]].
      destruct (sorted_back_exact c l pvs' Hv') as [b' [Hb Hf]].
      exists b'. split; [exact Hb|]. split.
      - rewrite Hf. apply Permutation_sym. apply Permutation_concat. exact Hpp.
      - rewrite Hf. apply rviews_vw. exact Hv'.
    Qed.
  End Sound.
End SortedBack.

(* ---------------------------------------------------------------- order inside a group *)
Section Stable.
  Variable cmpR : t_resource -> t_resource -> comparison.
  Variable cmpS : t_scope -> t_scope -> comparison.
  Variable cmpM : t_metric -> t_metric -> comparison.
  Variable cmpA : tattrs -> tattrs -> comparison.
  Hypothesis cmpR_sound : forall a b, cmpR a b = Eq -> a = b.
  Hypothesis cmpS_sound : forall a b, cmpS a b = Eq -> a = b.
  Hypothesis cmpM_sound : forall a b, cmpM a b = Eq -> a = b.
  Hypothesis cmpA_sound : forall a b, cmpA a b = Eq -> a = b.
  Hypothesis cmpR_refl : forall a, cmpR a a = Eq.
  Hypothesis cmpS_refl : forall a, cmpS a a = Eq.
  Hypothesis cmpM_refl : forall a, cmpM a a = Eq.
  Hypothesis cmpA_refl : forall a, cmpA a a = Eq.
  Hypothesis cmpR_antisym : forall a b, cmpR b a = CompOpp (cmpR a b).
  Hypothesis cmpS_antisym : forall a b, cmpS b a = CompOpp (cmpS a b).
  Hypothesis cmpM_antisym : forall a b, cmpM b a = CompOpp (cmpM a b).
  Hypothesis cmpA_antisym : forall a b, cmpA b a = CompOpp (cmpA a b).
  Hypothesis cmpR_trans : forall a b c, cmpR a b = Lt -> cmpR b c = Lt -> cmpR a c = Lt.
  Hypothesis cmpS_trans : forall a b c, cmpS a b = Lt -> cmpS b c = Lt -> cmpS a c = Lt.
  Hypothesis cmpM_trans : forall a b c, cmpM a b = Lt -> cmpM b c = Lt -> cmpM a c = Lt.
  Hypothesis cmpA_trans : forall a b c, cmpA a b = Lt -> cmpA b c = Lt -> cmpA a c = Lt.

  Notation ins := (rtree_insert cmpR cmpS cmpM cmpA).
  Notation updA p := (fun o : option (list t_point) => oget o ++ [p]).
  Notation updM a p := (fun o : option rleaves => ainsert cmpA a (updA p) (oget o)).
  Notation updS m a p := (fun o : option rby_metric => ainsert cmpM m (updM a p) (oget o)).
  Notation updR s m a p := (fun o : option rby_scope => ainsert cmpS s (updS m a p) (oget o)).

  (* every level of the tree is strictly increasing *)
  Definition okM (lv : rleaves) : Prop := asorted cmpA lv.
  Definition okS (bm : rby_metric) : Prop := asorted cmpM bm /\ Forall (fun kv => okM (snd kv)) bm.
  Definition okR (bs : rby_scope) : Prop := asorted cmpS bs /\ Forall (fun kv => okS (snd kv)) bs.
  Definition okT (t : rtree) : Prop := asorted cmpR t /\ Forall (fun kv => okR (snd kv)) t.

  (* a selection of records of one (resource, scope, metric, attributes) group *)
  Variable f : mrecord -> bool.
  Variable R0 : t_resource.
  Variable S0 : t_scope.
  Variable M0 : t_metric.
  Variable A0 : tattrs.
  Hypothesis f_group : forall x, f x = true ->
    r_resource x = R0 /\ r_scope x = S0 /\ r_metric x = M0 /\ r_attrs x = A0.

  Lemma rtree_insert_stable : forall t r, okT t ->
    okT (ins t r) /\ filter f (rtree_records (ins t r)) = filter f (rtree_records t ++ [r]).
  Proof.
    intros t [m r s a p] Ht. unfold rtree_insert, rtree_records.
    cbn [r_metric r_resource r_scope r_attrs r_point].
    set (x := mkMRec m r s a p).
    assert (Hx : forall y, In y [x] -> r_metric y = m /\ r_resource y = r /\ r_scope y = s /\ r_attrs y = a).
    { intros y [<-|[]]. cbn. auto. }
    assert (LA : forall lv, okM lv ->
              okM (ainsert cmpA a (updA p) lv) /\
              filter f (cM r s m (ainsert cmpA a (updA p) lv)) = filter f (cM r s m lv ++ [x])).
    { intros lv Hlv. split; [apply (ainsert_sorted cmpA cmpA_antisym cmpA_trans); exact Hlv|].
      unfold cM.
      apply (ainsert_filter cmpA cmpA_sound cmpA_refl cmpA_trans r_attrs (fun _ => True) (cA m r s)) with (k0 := A0).
      - intros k v y Hy. apply cA_key in Hy. tauto.
      - intros y Hy. apply f_group in Hy. tauto.
      - exact Hlv.
      - apply Forall_forall. auto.
      - intros y Hy. apply Hx in Hy. tauto.
      - reflexivity.
      - intros v _. cbn [oget]. unfold cA. rewrite map_app. reflexivity. }
    assert (LM : forall bm, okS bm ->
              okS (ainsert cmpM m (updM a p) bm) /\
              filter f (cS r s (ainsert cmpM m (updM a p) bm)) = filter f (cS r s bm ++ [x])).
    { intros bm [Hs Hv]. split.
      - split; [apply (ainsert_sorted cmpM cmpM_antisym cmpM_trans); exact Hs|].
        apply (ainsert_vals_forall cmpM okM); [| |exact Hv].
        + apply (LA []). exact I.
        + intros v Hok. apply LA. exact Hok.
      - unfold cS.
        apply (ainsert_filter cmpM cmpM_sound cmpM_refl cmpM_trans r_metric okM (cM r s)) with (k0 := M0).
        + intros k v y Hy. apply cM_key in Hy. tauto.
        + intros y Hy. apply f_group in Hy. tauto.
        + exact Hs.
        + exact Hv.
        + intros y Hy. apply Hx in Hy. tauto.
        + cbn [oget]. apply (LA []). exact I.
        + intros v Hok. cbn [oget]. apply LA. exact Hok. }
    assert (LS : forall bs, okR bs ->
              okR (ainsert cmpS s (updS m a p) bs) /\
              filter f (cR r (ainsert cmpS s (updS m a p) bs)) = filter f (cR r bs ++ [x])).
    { intros bs [Hs Hv]. split.
      - split; [apply (ainsert_sorted cmpS cmpS_antisym cmpS_trans); exact Hs|].
        apply (ainsert_vals_forall cmpS okS); [| |exact Hv].
        + apply (LM []). split; [exact I|constructor].
        + intros v Hok. apply LM. exact Hok.
      - unfold cR.
        apply (ainsert_filter cmpS cmpS_sound cmpS_refl cmpS_trans r_scope okS (cS r)) with (k0 := S0).
        + intros k v y Hy. apply cS_key in Hy. tauto.
        + intros y Hy. apply f_group in Hy. tauto.
        + exact Hs.
        + exact Hv.
        + intros y Hy. apply Hx in Hy. tauto.
        + cbn [oget]. apply (LM []). split; [exact I|constructor].
        + intros v Hok. cbn [oget]. apply LM. exact Hok. }
    destruct Ht as [Hs Hv]. split.
    - split; [apply (ainsert_sorted cmpR cmpR_antisym cmpR_trans); exact Hs|].
      apply (ainsert_vals_forall cmpR okR); [| |exact Hv].
      + apply (LS []). split; [exact I|constructor].
      + intros v Hok. apply LS. exact Hok.
    - apply (ainsert_filter cmpR cmpR_sound cmpR_refl cmpR_trans r_resource okR cR) with (k0 := R0).
      + intros k v y Hy. apply cR_key in Hy. exact Hy.
      + intros y Hy. apply f_group in Hy. tauto.
      + exact Hs.
      + exact Hv.
      + intros y Hy. apply Hx in Hy. tauto.
      + cbn [oget]. apply (LS []). split; [exact I|constructor].
      + intros v Hok. cbn [oget]. apply LS. exact Hok.
  Qed.

  Lemma fold_insert_stable : forall l t, okT t ->
    filter f (rtree_records (fold_left ins l t)) = filter f (rtree_records t ++ l).
  Proof.
    induction l as [|r l IH]; intros t Ht; cbn [fold_left].
    - rewrite app_nil_r. reflexivity.
    - destruct (rtree_insert_stable t r Ht) as [Ht' Hf].
      rewrite (IH _ Ht'), filter_app, Hf, <- filter_app, <- app_assoc. reflexivity.
  Qed.

  (* the records of one group come out in the order they were read *)
  Theorem regroup_stable : forall l,
    filter f (regroup cmpR cmpS cmpM cmpA l) = filter f l.
  Proof.
    intro l. unfold regroup. apply (fold_insert_stable l []). split; [exact I|constructor].
  Qed.
End Stable.

(* ---------------------------------------------------------------- the converse: a record
   that stands for nothing makes the grouping way back fail *)
Lemma append_point_hdr : forall c tm a p m m',
  hdr_ok tm m -> append_point c tm a p m = Ok m' -> hdr_ok tm m'.
Proof.
  intros c tm a p [n d u me data] m' [Hn [Hd [Hu [Hme Hty]]]].
  cbn [m_name m_desc m_unit m_meta m_data] in *. unfold append_point.
  cbn [m_name m_desc m_unit m_meta m_data].
  destruct data as [|ps|t mono ps|t ps|t ps|ps]; [contradiction| | | | |].
  - destruct (back_num c a p); cbn [rbind]; intro H; inversion H; subst. unfold hdr_ok. cbn. auto.
  - destruct (back_num c a p); cbn [rbind]; try discriminate.
    destruct (temp_ok (tm_temp tm)); intro H; inversion H; subst. unfold hdr_ok. cbn. auto.
  - destruct (back_hist c tm a p); cbn [rbind]; try discriminate.
    destruct (temp_ok (tm_temp tm)); intro H; inversion H; subst. unfold hdr_ok. cbn. auto.
  - destruct (back_exp c a p); cbn [rbind]; try discriminate.
    destruct (temp_ok (tm_temp tm)); intro H; inversion H; subst. unfold hdr_ok. cbn. auto.
  - destruct (back_summary a p); cbn [rbind]; intro H; inversion H; subst. unfold hdr_ok. cbn. auto.
Qed.

(* whether a point can join a metric of the record's type does not depend on the points
   the metric already holds *)
Lemma append_point_ok_indep : forall c tm a p m1 m2 x,
  hdr_ok tm m1 -> hdr_ok tm m2 -> append_point c tm a p m1 = Ok x ->
  exists y, append_point c tm a p m2 = Ok y.
Proof.
  intros c tm a p [n1 d1 u1 me1 data1] [n2 d2 u2 me2 data2] x [_ [_ [_ [_ Hty1]]]] [_ [_ [_ [_ Hty2]]]].
  cbn [m_data] in *. unfold append_point. cbn [m_name m_desc m_unit m_meta m_data].
  destruct data1 as [|ps1|t1 mono1 ps1|t1 ps1|t1 ps1|ps1]; [contradiction| | | | |];
    (destruct data2 as [|ps2|t2 mono2 ps2|t2 ps2|t2 ps2|ps2]; [contradiction| | | | |]);
    try (rewrite Hty1 in Hty2; discriminate).
  - destruct (back_num c a p); cbn [rbind]; try discriminate. intros _. eexists. reflexivity.
  - destruct (back_num c a p); cbn [rbind]; try discriminate.
    destruct (temp_ok (tm_temp tm)); try discriminate. intros _. eexists. reflexivity.
  - destruct (back_hist c tm a p); cbn [rbind]; try discriminate.
    destruct (temp_ok (tm_temp tm)); try discriminate. intros _. eexists. reflexivity.
  - destruct (back_exp c a p); cbn [rbind]; try discriminate.
    destruct (temp_ok (tm_temp tm)); try discriminate. intros _. eexists. reflexivity.
  - destruct (back_summary a p); cbn [rbind]; try discriminate. intros _. eexists. reflexivity.
Qed.

Lemma mapM_res_In : forall {A B} (f : A -> res B) l r a,
  mapM_res f l = Ok r -> In a l -> exists x, In x r /\ f a = Ok x.
Proof.
  intros A B f l r a H. apply mapM_res_forall2 in H.
  induction H as [|a' x l r Hax _ IH]; intro Hin; [contradiction|].
  destruct Hin as [->|Hin]; [exists x; split; [left; reflexivity|exact Hax]|].
  destruct (IH Hin) as [y [Hy Hf]]. exists y. split; [right; exact Hy|exact Hf].
Qed.

Section ToOtlpConverse.
  Variable c : cfg.

  Definition joins (tm : t_metric) (a : tattrs) (p : t_point) : Prop :=
    exists mi x, hdr_ok tm mi /\ append_point c tm a p mi = Ok x.

  Lemma leaf_fold_conv : forall tm a pts m m', hdr_ok tm m ->
    fold_res (fun m p => append_point c tm a p m) pts m = Ok m' ->
    hdr_ok tm m' /\ forall p, In p pts -> joins tm a p.
  Proof.
    intros tm a. induction pts as [|p pts IH]; intros m m' Hh H.
    - rewrite fold_res_nil in H. inversion H; subst. split; [exact Hh|intros ? []].
    - rewrite fold_res_cons in H. destruct (append_point c tm a p m) as [m1| |] eqn:E; try discriminate.
      cbn [rbind] in H. destruct (IH m1 m' (append_point_hdr _ _ _ _ _ _ Hh E) H) as [Hh' Hall].
      split; [exact Hh'|]. intros q [<-|Hq]; [exists m, m1; auto|apply Hall; exact Hq].
  Qed.

  Lemma leaves_fold_conv : forall tm lv m m', hdr_ok tm m ->
    fold_res (fun m '(a, pts) => fold_res (fun m p => append_point c tm a p m) pts m) lv m = Ok m' ->
    forall a pts p, In (a, pts) lv -> In p pts -> joins tm a p.
  Proof.
    intros tm. induction lv as [|[a0 pts0] lv IH]; intros m m' Hh H a pts p Hin Hp; [contradiction|].
    rewrite fold_res_cons in H.
    destruct (fold_res (fun m p => append_point c tm a0 p m) pts0 m) as [m1| |] eqn:E; try discriminate.
    cbn [rbind] in H. destruct (leaf_fold_conv tm a0 pts0 m m1 Hh E) as [Hh1 Hall].
    destruct Hin as [Heq|Hin].
    - inversion Heq; subst. apply Hall. exact Hp.
    - eapply IH; eassumption.
  Qed.

  Lemma metric_conv : forall tr ts tm lv m, rtree_metric c tm lv = Ok m ->
    forall x, In x (cM tr ts tm lv) -> exists pv, view c x = Ok pv.
  Proof.
    intros tr ts tm lv m H x Hx. unfold rtree_metric in H.
    destruct (back_metric tm) as [m0| |] eqn:Em; try discriminate. cbn [rbind] in H.
    destruct (back_metric_fresh _ _ Em) as [Hh0 _].
    unfold cM in Hx. apply in_flat_map in Hx. destruct Hx as [[a pts] [Hin Hx]].
    cbn [fst snd] in Hx. unfold cA in Hx. apply in_map_iff in Hx. destruct Hx as [p [<- Hp]].
    destruct (leaves_fold_conv tm lv m0 m Hh0 H a pts p Hin Hp) as [mi [y [Hhi Hy]]].
    destruct (append_point_ok_indep c tm a p mi m0 y Hhi Hh0 Hy) as [z Hz].
    unfold view. cbn [r_metric r_attrs r_point r_resource r_scope]. rewrite Em. cbn [rbind].
    rewrite Hz. cbn [rbind]. eexists. reflexivity.
  Qed.

  Theorem rtree_to_otlp_conv : forall t b, rtree_to_otlp c t = Ok b ->
    forall x, In x (rtree_records t) -> exists pv, view c x = Ok pv.
  Proof.
    intros t b H x Hx. unfold rtree_to_otlp in H. unfold rtree_records in Hx.
    apply in_flat_map in Hx. destruct Hx as [[tr bs] [Hin Hx]]. cbn [fst snd] in Hx.
    destruct (mapM_res_In _ _ _ _ H Hin) as [rm [_ Hrm]].
    match type of Hrm with rbind ?e _ = _ => destruct e as [sms| |] eqn:Es; try discriminate end. clear Hrm.
    unfold cR in Hx. apply in_flat_map in Hx. destruct Hx as [[ts bm] [Hin2 Hx]]. cbn [fst snd] in Hx.
    destruct (mapM_res_In _ _ _ _ Es Hin2) as [sm [_ Hsm]].
    match type of Hsm with rbind ?e _ = _ => destruct e as [ms| |] eqn:Em; try discriminate end. clear Hsm.
    unfold cS in Hx. apply in_flat_map in Hx. destruct Hx as [[tm lv] [Hin3 Hx]]. cbn [fst snd] in Hx.
    destruct (mapM_res_In _ _ _ _ Em Hin3) as [m [_ Hm]].
    eapply metric_conv; eassumption.
  Qed.
End ToOtlpConverse.

(* the grouping way back succeeds exactly when every record stands for something *)
Theorem sorted_back_ok_iff : forall cmpR cmpS cmpM cmpA,
  (forall a b, cmpR a b = Eq -> a = b) -> (forall a b, cmpS a b = Eq -> a = b) ->
  (forall a b, cmpM a b = Eq -> a = b) -> (forall a b, cmpA a b = Eq -> a = b) ->
  forall c l,
  (exists b', from_stef_sorted_gen cmpR cmpS cmpM cmpA c l = Ok b') <->
  (exists pvs, rviews c l pvs).
Proof.
  intros cmpR cmpS cmpM cmpA HR HS HM HA c l. split.
  - intros [b' Hb]. unfold from_stef_sorted_gen in Hb.
    assert (Hall : forall x, In x l -> exists pv, view c x = Ok pv).
    { intros x Hx. eapply rtree_to_otlp_conv; [exact Hb|].
      eapply Permutation_in; [apply Permutation_sym; apply (regroup_perm cmpR cmpS cmpM cmpA HR HS HM HA l)|exact Hx]. }
    clear Hb. induction l as [|r l IH].
    + exists []. constructor.
    + destruct (Hall r (or_introl eq_refl)) as [pv Hpv].
      destruct (IH (fun x Hx => Hall x (or_intror Hx))) as [pvs Hpvs].
      exists (pv :: pvs). constructor; assumption.
  - intros [pvs Hv].
    destruct (sorted_back_views cmpR cmpS cmpM cmpA HR HS HM HA c l pvs Hv) as [b' [Hb _]].
    exists b'. exact Hb.
Qed.

(* ---------------------------------------------------------------- both converters, then
   the grouping way back *)
Lemma rviews_of_pviews : forall c l ps,
  Forall2 (pview c) l ps -> rviews c l (map (fun p => [p]) ps).
Proof. intros c l ps H. induction H; cbn [map]; constructor; assumption. Qed.

(* order-preserving converter, grouping way back *)
Theorem roundtrip_unsorted_then_sorted_back : forall cmpR cmpS cmpM cmpA,
  (forall a b, cmpR a b = Eq -> a = b) -> (forall a b, cmpS a b = Eq -> a = b) ->
  (forall a b, cmpM a b = Eq -> a = b) -> (forall a b, cmpA a b = Eq -> a = b) ->
  forall c w b recs,
  c_map_inc c = true -> c_back_ex c = true -> c_summary_flag c = true ->
  mbatch_wf b = true ->
  to_stef_unsorted_from c w b = Ok recs ->
  exists b', from_stef_sorted_gen cmpR cmpS cmpM cmpA c recs = Ok b' /\
             Permutation (flatten b') (flatten b) /\
             flatten b = flat_map (vw c) recs /\
             flatten b' = flat_map (vw c) (regroup cmpR cmpS cmpM cmpA recs).
Proof.
  intros cmpR cmpS cmpM cmpA HR HS HM HA c w b recs Hinc Hbx Hsf Hwf Hto.
  pose proof (unsorted_views c Hinc Hbx Hsf w b recs Hwf Hto) as V.
  apply rviews_of_pviews in V.
  destruct (sorted_back_views cmpR cmpS cmpM cmpA HR HS HM HA c recs _ V) as [b' [Hb [Hp He]]].
  exists b'. split; [exact Hb|]. rewrite concat_singletons in Hp. split; [exact Hp|].
  split; [|exact He]. rewrite <- (rviews_vw c recs _ V). rewrite concat_singletons. reflexivity.
Qed.

(* sorting converter (its own four comparisons), grouping way back *)
Theorem roundtrip_sorted_then_sorted_back : forall cmpM' cmpR' cmpS' cmpA' cmpR cmpS cmpM cmpA,
  (forall a b, cmpM' a b = Eq -> a = b) -> (forall a b, cmpR' a b = Eq -> a = b) ->
  (forall a b, cmpS' a b = Eq -> a = b) -> (forall a b, cmpA' a b = Eq -> a = b) ->
  (forall a b, cmpR a b = Eq -> a = b) -> (forall a b, cmpS a b = Eq -> a = b) ->
  (forall a b, cmpM a b = Eq -> a = b) -> (forall a b, cmpA a b = Eq -> a = b) ->
  forall c b recs,
  c_map_inc c = true -> c_back_ex c = true -> c_summary_flag c = true -> c_keep_empty c = true ->
  mbatch_wf b = true ->
  to_stef_sorted_gen cmpM' cmpR' cmpS' cmpA' c b = Ok recs ->
  exists b', from_stef_sorted_gen cmpR cmpS cmpM cmpA c recs = Ok b' /\
             Permutation (flatten b') (flatten b).
Proof.
  intros cmpM' cmpR' cmpS' cmpA' cmpR cmpS cmpM cmpA HM' HR' HS' HA' HR HS HM HA
         c b recs Hinc Hbx Hsf Hke Hwf Hto.
  destruct (sorted_records_perm cmpM' cmpR' cmpS' cmpA' HM' HR' HS' HA' c b recs Hto) as [its [Hi Hp]].
  pose proof (items_views c Hinc Hbx Hsf Hke b its Hwf Hi) as V.
  assert (V' : Forall2 (pview c) (map rec_of_item its) (flatten b)).
  { apply Forall2_map_l. exact V. }
  destruct (Forall2_perm_l (pview c) _ _ _ (Permutation_sym Hp) V') as [ps [F Pm]].
  apply rviews_of_pviews in F.
  destruct (sorted_back_views cmpR cmpS cmpM cmpA HR HS HM HA c recs _ F) as [b' [Hb [Hpb _]]].
  exists b'. split; [exact Hb|]. rewrite concat_singletons in Hpb.
  eapply perm_trans; [exact Hpb|]. apply Permutation_sym. exact Pm.
Qed.

(* ---------------------------------------------------------------- witnesses *)
(* The fourth tree level files the points of one metric under their attributes: two points
   of one gauge whose attribute keys are "b" then "a" come back in the other order.  The
   order-preserving way back returns the same list; the grouping way back only a permutation. *)
Definition w_attr_order : mbatch :=
  [mkRM (mkRes [97] [] 0) [mkSM (mkScope [115] [] [] [] 0)
     [mkMetric [109] [] [] [] (MGauge [mkNumPoint 1 2 0 (NVInt 5) [([98], OInt 1)] [];
                                       mkNumPoint 1 3 0 (NVInt 6) [([97], OInt 1)] []])]]].

Lemma sorted_back_same_list_refuted :
  exists b b' b'', mbatch_wf b = true /\
    rbind (to_stef_unsorted cfg_repaired b) (from_stef_sorted cfg_repaired) = Ok b' /\
    flatten b' <> flatten b /\
    rbind (to_stef_unsorted cfg_repaired b) (from_stef cfg_repaired) = Ok b'' /\
    flatten b'' = flatten b.
Proof.
  exists w_attr_order. eexists. eexists. split; [vm_compute; reflexivity|].
  split; [vm_compute; reflexivity|]. split; [vm_compute; discriminate|].
  split; vm_compute; reflexivity.
Qed.

(* the same at the level of records: all records in one (resource, scope, metric) group, and
   the walk visits them in another order than they were read *)
Lemma regroup_metric_order_refuted :
  exists l R0 S0 M0,
    Forall (fun x => r_resource x = R0 /\ r_scope x = S0 /\ r_metric x = M0) l /\
    regroup cmp_resource cmp_scope cmp_metric cmp_tattrs l <> l.
Proof.
  exists [mkMRec metric0 resource0 scope0 [([98], TInt 1)] point0;
          mkMRec metric0 resource0 scope0 [([97], TInt 1)] point0], resource0, scope0, metric0.
  split; [repeat constructor|]. vm_compute. discriminate.
Qed.

(* Stale fields of the writer's Metric split a metric: a gauge, a cumulative monotonic sum,
   the same gauge again.  The order-preserving converter never resets AggregationTemporality
   and Monotonic (nor HistogramBounds), so the second gauge record differs from the first in
   fields OTLP does not have for a gauge; the grouping way back keys on all fields of the STEF
   Metric and returns the gauge as two metrics of one scope.  No point is lost. *)
Definition w_stale_split : mbatch :=
  [mkRM (mkRes [97] [] 0) [mkSM (mkScope [115] [] [] [] 0)
     [mkMetric [109] [] [] [] (MGauge [mkNumPoint 1 2 0 (NVInt 5) [] []]);
      mkMetric [110] [] [] [] (MSum 2 true [mkNumPoint 1 3 0 (NVInt 6) [] []]);
      mkMetric [109] [] [] [] (MGauge [mkNumPoint 1 4 0 (NVInt 7) [] []])]]].

Lemma sorted_back_one_metric_per_identity_refuted :
  exists b b', mbatch_wf b = true /\
    rbind (to_stef_unsorted cfg_repaired b) (from_stef_sorted cfg_repaired) = Ok b' /\
    exists rm sm, In rm b' /\ In sm (rm_scopes rm) /\
                  ~ NoDup (map fq_of_metric (sm_metrics sm)).
Proof.
  exists w_stale_split. eexists. split; [vm_compute; reflexivity|].
  split; [vm_compute; reflexivity|].
  eexists. eexists. split; [left; reflexivity|]. split; [left; reflexivity|].
  cbn [sm_metrics map]. intro H. inversion H as [|? ? Hn _]; subst. apply Hn.
  vm_compute. left. reflexivity.
Qed.

(* two resources, interleaved identities, a repeated metric *)
Definition ex_resA : res_id := mkRes [97] [([107], OStr [118])] 0.
Definition ex_resB : res_id := mkRes [98] [] 0.
Definition ex_scope : scope_id := mkScope [115] [49] [] [] 0.
Definition ex_pt (ts : N) (z : Z) (a : oattrs) : numpoint := mkNumPoint 1 ts 0 (NVInt z) a [].
Definition ex_m (ps : list numpoint) : metric := mkMetric [109] [100] [117] [] (MGauge ps).
Definition ex_n (ps : list numpoint) : metric := mkMetric [110] [] [] [] (MSum 2 true ps).
Definition ex_batch : mbatch :=
  [mkRM ex_resA [mkSM ex_scope [ex_m [ex_pt 10 1 []]]];
   mkRM ex_resB [mkSM ex_scope [ex_m [ex_pt 11 2 []]]];
   mkRM ex_resA [mkSM ex_scope [ex_m [ex_pt 12 3 []]; ex_n [ex_pt 13 4 []];
                                ex_m [ex_pt 14 5 [([107], OInt 1)]]]]].
Definition ex_grouped : mbatch :=
  [mkRM ex_resA [mkSM ex_scope [ex_m [ex_pt 10 1 []; ex_pt 12 3 []; ex_pt 14 5 [([107], OInt 1)]];
                                ex_n [ex_pt 13 4 []]]];
   mkRM ex_resB [mkSM ex_scope [ex_m [ex_pt 11 2 []]]]].
(* through the order-preserving converter the last gauge record carries the temporality and
   the monotonic flag the Sum before it left in the writer's Metric (metric2metric does not
   reset them), so CmpMetric files it under another key: metric "m" comes back twice *)
Definition ex_grouped_split : mbatch :=
  [mkRM ex_resA [mkSM ex_scope [ex_m [ex_pt 10 1 []; ex_pt 12 3 []];
                                ex_m [ex_pt 14 5 [([107], OInt 1)]];
                                ex_n [ex_pt 13 4 []]]];
   mkRM ex_resB [mkSM ex_scope [ex_m [ex_pt 11 2 []]]]].
Definition pick {A} (d : A) (ix : list nat) (l : list A) : list A := map (fun i => nth i l d) ix.

Example ex_wf : mbatch_wf ex_batch = true.
Proof. vm_compute. reflexivity. Qed.
Example ex_unsorted_then_sorted_back :
  rbind (to_stef_unsorted cfg_repaired ex_batch) (from_stef_sorted cfg_repaired) = Ok ex_grouped_split.
Proof. vm_compute. reflexivity. Qed.
Example ex_split_same_points : flatten ex_grouped_split = flatten ex_grouped.
Proof. vm_compute. reflexivity. Qed.
Example ex_sorted_then_sorted_back :
  rbind (to_stef_sorted cfg_repaired ex_batch) (from_stef_sorted cfg_repaired) = Ok ex_grouped.
Proof. vm_compute. reflexivity. Qed.
Example ex_flatten_rearranged : forall d,
  flatten ex_grouped = pick d [0; 2; 4; 3; 1]%nat (flatten ex_batch).
Proof. intro d. vm_compute. reflexivity. Qed.
Example ex_regroup : forall recs d, to_stef_unsorted cfg_repaired ex_batch = Ok recs ->
  regroup cmp_resource cmp_scope cmp_metric cmp_tattrs recs = pick d [0; 2; 4; 3; 1]%nat recs.
Proof. intros recs d H. vm_compute in H. inversion H; subst. vm_compute. reflexivity. Qed.

(* ---------------------------------------------------------------- statements for Props/C17 *)
Definition strict_order {K} (cmp : K -> K -> comparison) : Prop :=
  (forall a b, cmp a b = Eq -> a = b) /\ (forall a, cmp a a = Eq) /\
  (forall a b, cmp b a = CompOpp (cmp a b)) /\
  (forall a b c, cmp a b = Lt -> cmp b c = Lt -> cmp a c = Lt).

(* ---------------------------------------------------------------- one entry per key *)
Lemma asorted_NoDup : forall {K V} (cmp : K -> K -> comparison),
  (forall a, cmp a a = Eq) ->
  forall t : list (K * V), asorted cmp t -> NoDup (map fst t).
Proof.
  intros K V cmp Hrefl. induction t as [|[k v] r IH]; cbn [asorted map fst]; intro H; [constructor|].
  destruct H as [Hall Hs]. constructor; [|apply IH; exact Hs].
  intro Hin. apply in_map_iff in Hin. destruct Hin as [[k' v'] [Hk Hin]]. cbn [fst] in Hk. subst k'.
  rewrite Forall_forall in Hall. specialize (Hall _ Hin). cbn [fst] in Hall.
  rewrite Hrefl in Hall. discriminate.
Qed.

(* under strict total orders every level of the tree is strictly increasing: one
   ResourceMetrics per distinct STEF resource, one ScopeMetrics per distinct scope in it, one
   metric per distinct STEF Metric in it *)
Theorem regroup_tree_strict : forall cmpR cmpS cmpM cmpA,
  strict_order cmpR -> strict_order cmpS -> strict_order cmpM -> strict_order cmpA ->
  forall l, okT cmpR cmpS cmpM cmpA (fold_left (rtree_insert cmpR cmpS cmpM cmpA) l []).
Proof.
  intros cmpR cmpS cmpM cmpA [R1 [R2 [R3 R4]]] [S1 [S2 [S3 S4]]] [M1 [M2 [M3 M4]]] [A1 [A2 [A3 A4]]] l.
  assert (G : forall l t, okT cmpR cmpS cmpM cmpA t ->
              okT cmpR cmpS cmpM cmpA (fold_left (rtree_insert cmpR cmpS cmpM cmpA) l t)).
  { induction l0 as [|r l0 IH]; intros t Ht; cbn [fold_left]; [exact Ht|]. apply IH.
    apply (rtree_insert_stable cmpR cmpS cmpM cmpA R1 S1 M1 A1 R2 S2 M2 A2 R3 S3 M3 A3 R4 S4 M4 A4
             (fun _ => false) resource0 scope0 metric0 [] (fun x H => False_ind _ (diff_false_true H)) t r Ht). }
  apply G. split; [exact I|constructor].
Qed.

(* stefToOtlpSorted on ANY list of records, for any key comparisons whose Eq means equality:
   it succeeds when every record stands for something, and the flattened result is a
   permutation of what the records stand for (nothing merged, nothing dropped); more
   precisely it is the views in the order [regroup] of the tree walk *)
Theorem C17_way_back_by_groups : forall cmpR cmpS cmpM cmpA,
  (forall a b, cmpR a b = Eq -> a = b) -> (forall a b, cmpS a b = Eq -> a = b) ->
  (forall a b, cmpM a b = Eq -> a = b) -> (forall a b, cmpA a b = Eq -> a = b) ->
  forall c l pvs, rviews c l pvs ->
  exists b', from_stef_sorted_gen cmpR cmpS cmpM cmpA c l = Ok b' /\
             Permutation (flatten b') (concat pvs) /\
             flatten b' = flat_map (vw c) (regroup cmpR cmpS cmpM cmpA l).
Proof. exact sorted_back_views. Qed.
Print Assumptions C17_way_back_by_groups.

(* the walk visits every record exactly once *)
Theorem C17_regroup_perm : forall cmpR cmpS cmpM cmpA,
  (forall a b, cmpR a b = Eq -> a = b) -> (forall a b, cmpS a b = Eq -> a = b) ->
  (forall a b, cmpM a b = Eq -> a = b) -> (forall a b, cmpA a b = Eq -> a = b) ->
  forall l, Permutation (regroup cmpR cmpS cmpM cmpA l) l.
Proof. exact regroup_perm. Qed.
Print Assumptions C17_regroup_perm.

(* under strict total orders, any selection of records of one (resource, scope, metric,
   attributes) group - one time series - is visited in the order it was read *)
Theorem C17_way_back_group_order : forall cmpR cmpS cmpM cmpA,
  strict_order cmpR -> strict_order cmpS -> strict_order cmpM -> strict_order cmpA ->
  forall (f : mrecord -> bool) R0 S0 M0 A0,
  (forall x, f x = true ->
     r_resource x = R0 /\ r_scope x = S0 /\ r_metric x = M0 /\ r_attrs x = A0) ->
  forall l, filter f (regroup cmpR cmpS cmpM cmpA l) = filter f l.
Proof.
  intros cmpR cmpS cmpM cmpA [R1 [R2 [R3 R4]]] [S1 [S2 [S3 S4]]] [M1 [M2 [M3 M4]]] [A1 [A2 [A3 A4]]]
         f R0 S0 M0 A0 Hf l.
  exact (regroup_stable cmpR cmpS cmpM cmpA R1 S1 M1 A1 R2 S2 M2 A2 R3 S3 M3 A3 R4 S4 M4 A4
           f R0 S0 M0 A0 Hf l).
Qed.
Print Assumptions C17_way_back_group_order.

(* ... but not the points of one (resource, scope, metric) group *)
Theorem C17_way_back_metric_order_refuted :
  exists l R0 S0 M0,
    Forall (fun x => r_resource x = R0 /\ r_scope x = S0 /\ r_metric x = M0) l /\
    regroup cmp_resource cmp_scope cmp_metric cmp_tattrs l <> l.
Proof. exact regroup_metric_order_refuted. Qed.
Print Assumptions C17_way_back_metric_order_refuted.

Theorem C17_sorted_back_same_list_refuted :
  exists b b' b'', mbatch_wf b = true /\
    rbind (to_stef_unsorted cfg_repaired b) (from_stef_sorted cfg_repaired) = Ok b' /\
    flatten b' <> flatten b /\
    rbind (to_stef_unsorted cfg_repaired b) (from_stef cfg_repaired) = Ok b'' /\
    flatten b'' = flatten b.
Proof. exact sorted_back_same_list_refuted. Qed.
Print Assumptions C17_sorted_back_same_list_refuted.

Theorem C17_sorted_back_one_metric_per_identity_refuted :
  exists b b', mbatch_wf b = true /\
    rbind (to_stef_unsorted cfg_repaired b) (from_stef_sorted cfg_repaired) = Ok b' /\
    exists rm sm, In rm b' /\ In sm (rm_scopes rm) /\
                  ~ NoDup (map fq_of_metric (sm_metrics sm)).
Proof. exact sorted_back_one_metric_per_identity_refuted. Qed.
Print Assumptions C17_sorted_back_one_metric_per_identity_refuted.

(* order-preserving converter, then the grouping way back: a permutation of the fully
   qualified data points of the batch, for every initial writer record *)
Theorem C17_roundtrip_unsorted_then_sorted_back : forall cmpR cmpS cmpM cmpA,
  (forall a b, cmpR a b = Eq -> a = b) -> (forall a b, cmpS a b = Eq -> a = b) ->
  (forall a b, cmpM a b = Eq -> a = b) -> (forall a b, cmpA a b = Eq -> a = b) ->
  forall c w b recs,
  c_map_inc c = true -> c_back_ex c = true -> c_summary_flag c = true ->
  mbatch_wf b = true ->
  to_stef_unsorted_from c w b = Ok recs ->
  exists b', from_stef_sorted_gen cmpR cmpS cmpM cmpA c recs = Ok b' /\
             Permutation (flatten b') (flatten b) /\
             flatten b = flat_map (vw c) recs /\
             flatten b' = flat_map (vw c) (regroup cmpR cmpS cmpM cmpA recs).
Proof. exact roundtrip_unsorted_then_sorted_back. Qed.
Print Assumptions C17_roundtrip_unsorted_then_sorted_back.

(* sorting converter, then the grouping way back *)
Theorem C17_roundtrip_sorted_then_sorted_back :
  forall cmpM' cmpR' cmpS' cmpA' cmpR cmpS cmpM cmpA,
  (forall a b, cmpM' a b = Eq -> a = b) -> (forall a b, cmpR' a b = Eq -> a = b) ->
  (forall a b, cmpS' a b = Eq -> a = b) -> (forall a b, cmpA' a b = Eq -> a = b) ->
  (forall a b, cmpR a b = Eq -> a = b) -> (forall a b, cmpS a b = Eq -> a = b) ->
  (forall a b, cmpM a b = Eq -> a = b) -> (forall a b, cmpA a b = Eq -> a = b) ->
  forall c b recs,
  c_map_inc c = true -> c_back_ex c = true -> c_summary_flag c = true -> c_keep_empty c = true ->
  mbatch_wf b = true ->
  to_stef_sorted_gen cmpM' cmpR' cmpS' cmpA' c b = Ok recs ->
  exists b', from_stef_sorted_gen cmpR cmpS cmpM cmpA c recs = Ok b' /\
             Permutation (flatten b') (flatten b).
Proof. exact roundtrip_sorted_then_sorted_back. Qed.
Print Assumptions C17_roundtrip_sorted_then_sorted_back.

(* it succeeds exactly when every record stands for something *)
Theorem C17_way_back_by_groups_ok_iff : forall cmpR cmpS cmpM cmpA,
  (forall a b, cmpR a b = Eq -> a = b) -> (forall a b, cmpS a b = Eq -> a = b) ->
  (forall a b, cmpM a b = Eq -> a = b) -> (forall a b, cmpA a b = Eq -> a = b) ->
  forall c l,
  (exists b', from_stef_sorted_gen cmpR cmpS cmpM cmpA c l = Ok b') <->
  (exists pvs, rviews c l pvs).
Proof. exact sorted_back_ok_iff. Qed.
Print Assumptions C17_way_back_by_groups_ok_iff.

Theorem C17_way_back_tree_strict : forall cmpR cmpS cmpM cmpA,
  strict_order cmpR -> strict_order cmpS -> strict_order cmpM -> strict_order cmpA ->
  forall l, okT cmpR cmpS cmpM cmpA (fold_left (rtree_insert cmpR cmpS cmpM cmpA) l []).
Proof. exact regroup_tree_strict. Qed.
Print Assumptions C17_way_back_tree_strict.
