(* The documented field mapping OTLP -> STEF as a plain structural function (no destination
   state, no index arithmetic): what a record is supposed to carry for a given OTLP object.
   Used as the specification side of C18_content and as the normal form of the attribute
   conversion in the C17 proofs.  No proofs here. *)
From Coq Require Import List NArith ZArith Bool.
From Stef Require Import OtlpBase PData Record.
Import ListNotations.
Open Scope N_scope.

Fixpoint img_val (v : oval) : tval :=
  match v with
  | OEmpty => TNone
  | OStr s => TStr s
  | OBool b => TBool b
  | OInt z => TInt z
  | ODouble f => TF64 f
  | OBytes s => TBytes s
  | OSlice l => TArr ((fix go (l : list oval) : list tval :=
                         match l with [] => [] | x :: r => img_val x :: go r end) l)
  | OMap kvs => TKV ((fix go (l : list (str * oval)) : list (str * tval) :=
                        match l with [] => [] | (k, x) :: r => (k, img_val x) :: go r end) kvs)
  end.
Fixpoint img_attrs (a : oattrs) : tattrs :=
  match a with [] => [] | (k, x) :: r => (k, img_val x) :: img_attrs r end.

Definition img_res (r : res_id) : t_resource :=
  mkTRes (rs_url r) (img_attrs (rs_attrs r)) (rs_dropped r).
Definition img_scope (s : scope_id) : t_scope :=
  mkTScope (sc_name s) (sc_version s) (sc_url s) (img_attrs (sc_attrs s)) (sc_dropped s).

(* ids of spans and links are carried as the lowercase hex text of the id (note N19) *)
Definition img_event (e : event) : t_event :=
  mkTEvent (ev_name e) (ev_time e) (img_attrs (ev_attrs e)) (ev_dropped e).
Definition img_link (l : link) : t_link :=
  mkTLink (id_text (lk_trace l)) (id_text (lk_span l)) (lk_state l) (lk_flags l)
          (img_attrs (lk_attrs l)) (lk_dropped l).
(* [sorted]: the sorting mode stores the span's own attributes sorted by key *)
Definition img_span (sorted : bool) (s : span) : t_span :=
  mkTSpan (id_text (s_trace s)) (id_text (s_span s)) (s_state s) (id_text (s_parent s))
          (s_flags s) (s_name s) (s_kind s) (s_start s) (s_end s)
          (img_attrs (if sorted then sort_kv (s_attrs s) else s_attrs s)) (s_dropped s)
          (map img_event (s_events s)) (map img_link (s_links s)) (s_msg s) (s_code s).
Definition span_image (sorted : bool) (q : fqspan) : srecord :=
  mkSRec (img_res (fs_res q)) (img_scope (fs_scope q)) (img_span sorted (fs_span q)).
