(* Shared definitions of the OTLP <-> STEF converter model (C17, C18).
   Strings and byte strings are lists of bytes (N < 256); float64 values are their 64-bit
   patterns in N; int64 values are Z; uint64/uint32 values are N.  No proofs in this file. *)
From Coq Require Import List NArith ZArith Bool.
Import ListNotations.
Open Scope N_scope.

Definition str := list N.

(* outcome of a converter call: value, returned error, or Go panic *)
Inductive res (A : Type) : Type :=
| Ok (a : A)
| Err
| Panic.
Arguments Ok {A} a.
Arguments Err {A}.
Arguments Panic {A}.

Definition rbind {A B} (r : res A) (f : A -> res B) : res B :=
  match r with Ok a => f a | Err => Err | Panic => Panic end.

(* strings.Compare / bytes.Compare: bytewise lexicographic *)
Fixpoint str_cmp (a b : str) : comparison :=
  match a, b with
  | [], [] => Eq
  | [], _ :: _ => Lt
  | _ :: _, [] => Gt
  | x :: a', y :: b' =>
    match N.compare x y with
    | Eq => str_cmp a' b'
    | c => c
    end
  end.

Definition str_eqb (a b : str) : bool :=
  match str_cmp a b with Eq => true | _ => false end.
Definition str_leb (a b : str) : bool :=
  match str_cmp a b with Gt => false | _ => true end.

(* lexicographic continuation of comparisons: "if c != 0 return c" *)
Definition cthen (c : comparison) (k : comparison) : comparison :=
  match c with Eq => k | _ => c end.

Definition bool_cmp (a b : bool) : comparison :=
  match a, b with
  | true, true | false, false => Eq
  | true, false => Gt
  | false, true => Lt
  end.

Definition nat_cmp (a b : nat) : comparison := Nat.compare a b.

(* go/pkg/types.go float64OrderKey / Float64Compare (after commit d08b548): total order on
   bit patterns *)
Definition two63 : N := 9223372036854775808.
Definition two64 : N := 18446744073709551616.
Definition two32 : N := 4294967296.
Definition f64_key (b : N) : N :=
  if N.testbit b 63 then (two64 - 1) - b else b + two63.
Definition f64_cmp (a b : N) : comparison := N.compare (f64_key a) (f64_key b).

(* stable insertion sort of key/value lists by key (slices.SortFunc with strings.Compare on
   unique keys; the canonical order of an attribute collection) *)
Section SortKV.
  Context {V : Type}.
  Fixpoint kv_insert (k : str) (v : V) (l : list (str * V)) : list (str * V) :=
    match l with
    | [] => [(k, v)]
    | (k', v') :: r =>
      if str_leb k k' then (k, v) :: l else (k', v') :: kv_insert k v r
    end.
  (* stable: an element goes after the earlier elements with an equal key, so fold from the
     right and insert before equal keys *)
  Fixpoint sort_kv (l : list (str * V)) : list (str * V) :=
    match l with
    | [] => []
    | (k, v) :: r => kv_insert k v (sort_kv r)
    end.
End SortKV.

(* generic insertion sort by a boolean "less or equal", stable *)
Section SortBy.
  Context {A : Type} (leb : A -> A -> bool).
  Fixpoint ins_by (x : A) (l : list A) : list A :=
    match l with
    | [] => [x]
    | y :: r => if leb x y then x :: l else y :: ins_by x r
    end.
  Fixpoint sort_by (l : list A) : list A :=
    match l with
    | [] => []
    | x :: r => ins_by x (sort_by r)
    end.
End SortBy.

(* ordered association list keyed by a three-way comparison: the b.Tree of the sorting
   converters.  [ainsert cmp k upd t] finds the entry whose key compares Eq to k and
   updates its value, or inserts a new entry at the position given by the order. The key
   of an existing entry is kept (b.Tree.Get + in-place update of the element). *)
Section Assoc.
  Context {K V : Type} (cmp : K -> K -> comparison).
  Fixpoint ainsert (k : K) (upd : option V -> V) (t : list (K * V)) : list (K * V) :=
    match t with
    | [] => [(k, upd None)]
    | (k', v') :: r =>
      match cmp k k' with
      | Eq => (k', upd (Some v')) :: r
      | Lt => (k, upd None) :: t
      | Gt => (k', v') :: ainsert k upd r
      end
    end.
End Assoc.

(* apply f to the last element *)
Fixpoint upd_last {A} (f : A -> A) (l : list A) : list A :=
  match l with
  | [] => []
  | [x] => [f x]
  | x :: r => x :: upd_last f r
  end.

Fixpoint list_eqb {A} (eqb : A -> A -> bool) (a b : list A) : bool :=
  match a, b with
  | [], [] => true
  | x :: a', y :: b' => eqb x y && list_eqb eqb a' b'
  | _, _ => false
  end.

Definition opt_eqb {A} (eqb : A -> A -> bool) (a b : option A) : bool :=
  match a, b with
  | None, None => true
  | Some x, Some y => eqb x y
  | _, _ => false
  end.

(* integer conversions of Go *)
Definition to_i64 (n : N) : Z :=            (* int64(uint64) *)
  if n <? two63 then Z.of_N n else (Z.of_N n - Z.of_N two64)%Z.
Definition to_u64 (z : Z) : N := Z.to_N (z mod Z.of_N two64)%Z.   (* uint64(int64) *)
Definition to_u32 (n : N) : N := n mod two32.                     (* uint32(uint64) *)
Definition to_i32 (z : Z) : Z :=                                  (* int32(int64) *)
  let m := (z mod Z.of_N two32)%Z in
  if (m <? 2147483648)%Z then m else (m - Z.of_N two32)%Z.

(* lowercase hex text of a byte string: pcommon.TraceID.String / SpanID.String return ""
   for the all-zero id (note N19) *)
Definition hex_digit (d : N) : N := if d <? 10 then 48 + d else 87 + d.
Fixpoint hex_text (l : str) : str :=
  match l with
  | [] => []
  | b :: r => hex_digit (b / 16) :: hex_digit (b mod 16) :: hex_text r
  end.
Definition all_zero (l : str) : bool := forallb (fun b => b =? 0) l.
Definition id_text (id : str) : str := if all_zero id then [] else hex_text id.
