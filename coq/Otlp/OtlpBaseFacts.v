(* Facts about the shared definitions: string order, stable sorts, ordered association
   lists, record emission, integer conversions. *)
From Coq Require Import List NArith ZArith Bool Lia Permutation ZifyN ZifyNat ZifyBool.
From Stef Require Import OtlpBase.
Import ListNotations.
Open Scope N_scope.

(* ---------------------------------------------------------------- strings *)
Lemma str_cmp_refl : forall a, str_cmp a a = Eq.
Proof. induction a as [|x a IH]; cbn; [reflexivity|]. rewrite N.compare_refl. exact IH. Qed.

Lemma str_cmp_eq : forall a b, str_cmp a b = Eq -> a = b.
Proof.
  induction a as [|x a IH]; destruct b as [|y b]; cbn; intro H; try discriminate; [reflexivity|].
  destruct (N.compare x y) eqn:E; try discriminate.
  apply N.compare_eq in E. subst. f_equal. apply IH. exact H.
Qed.

Lemma str_cmp_antisym : forall a b, str_cmp b a = CompOpp (str_cmp a b).
Proof.
  induction a as [|x a IH]; destruct b as [|y b]; cbn; try reflexivity.
  rewrite (N.compare_antisym x y). destruct (N.compare x y); cbn; auto.
Qed.

Lemma str_eqb_eq : forall a b, str_eqb a b = true <-> a = b.
Proof.
  intros a b. unfold str_eqb. split.
  - destruct (str_cmp a b) eqn:E; try discriminate. intros _. apply str_cmp_eq. exact E.
  - intros ->. rewrite str_cmp_refl. reflexivity.
Qed.

Lemma str_leb_total : forall a b, str_leb a b = false -> str_leb b a = true.
Proof.
  intros a b. unfold str_leb. rewrite (str_cmp_antisym a b).
  destruct (str_cmp a b); cbn; congruence.
Qed.

Lemma str_leb_refl : forall a, str_leb a a = true.
Proof. intro a. unfold str_leb. rewrite str_cmp_refl. reflexivity. Qed.

(* ---------------------------------------------------------------- sort_kv *)
Section SortKVFacts.
  Context {V : Type}.
  Notation kvl := (list (str * V)).

  Lemma kv_insert_perm : forall k (v : V) l, Permutation (kv_insert k v l) ((k, v) :: l).
  Proof.
    induction l as [|[k' v'] r IH]; cbn; [apply Permutation_refl|].
    destruct (str_leb k k'); [apply Permutation_refl|].
    eapply perm_trans; [apply perm_skip; exact IH|]. apply perm_swap.
  Qed.

  Lemma sort_kv_perm : forall l : kvl, Permutation (sort_kv l) l.
  Proof.
    induction l as [|[k v] r IH]; cbn; [constructor|].
    eapply perm_trans; [apply kv_insert_perm|]. apply perm_skip. exact IH.
  Qed.

  (* adjacent keys in order *)
  Fixpoint kv_sorted (l : kvl) : Prop :=
    match l with
    | [] => True
    | (k, _) :: r => match r with [] => True | (k', _) :: _ => str_leb k k' = true end /\ kv_sorted r
    end.

  Lemma kv_insert_sorted : forall k (v : V) l, kv_sorted l -> kv_sorted (kv_insert k v l).
  Proof.
    induction l as [|[k' v'] r IH]; cbn [kv_insert]; intro H.
    - cbn. auto.
    - destruct (str_leb k k') eqn:E.
      + cbn [kv_sorted]. split; [exact E|]. exact H.
      + cbn [kv_sorted] in H. destruct H as [H1 H2]. specialize (IH H2).
        cbn [kv_sorted]. split; [|exact IH].
        destruct r as [|[k2 v2] r2]; cbn [kv_insert].
        * apply str_leb_total. exact E.
        * destruct (str_leb k k2); [apply str_leb_total; exact E|exact H1].
  Qed.

  Lemma sort_kv_sorted : forall l : kvl, kv_sorted (sort_kv l).
  Proof.
    induction l as [|[k v] r IH]; cbn [sort_kv]; [exact I|]. apply kv_insert_sorted. exact IH.
  Qed.

  Lemma kv_insert_sorted_id : forall k (v : V) l, kv_sorted ((k, v) :: l) -> kv_insert k v l = (k, v) :: l.
  Proof.
    intros k v l H. destruct l as [|[k' v'] r]; cbn; [reflexivity|].
    cbn in H. destruct H as [H _]. rewrite H. reflexivity.
  Qed.

  Lemma sort_kv_sorted_id : forall l : kvl, kv_sorted l -> sort_kv l = l.
  Proof.
    induction l as [|[k v] r IH]; intro H; cbn [sort_kv]; [reflexivity|].
    assert (Hr : kv_sorted r) by (cbn in H; tauto).
    rewrite (IH Hr). apply kv_insert_sorted_id. exact H.
  Qed.

  Lemma sort_kv_idem : forall l : kvl, sort_kv (sort_kv l) = sort_kv l.
  Proof. intro l. apply sort_kv_sorted_id. apply sort_kv_sorted. Qed.

  Lemma sort_kv_keys_perm : forall l : kvl, Permutation (map fst (sort_kv l)) (map fst l).
  Proof. intro l. apply Permutation_map. apply sort_kv_perm. Qed.
End SortKVFacts.

(* sorting commutes with a map over the values *)
Lemma kv_insert_map : forall {V W} (f : V -> W) k v (l : list (str * V)),
  map (fun kv => (fst kv, f (snd kv))) (kv_insert k v l) =
  kv_insert k (f v) (map (fun kv => (fst kv, f (snd kv))) l).
Proof.
  induction l as [|[k' v'] r IH]; cbn; [reflexivity|].
  destruct (str_leb k k'); cbn; [reflexivity|]. f_equal. exact IH.
Qed.
Lemma sort_kv_map : forall {V W} (f : V -> W) (l : list (str * V)),
  map (fun kv => (fst kv, f (snd kv))) (sort_kv l) =
  sort_kv (map (fun kv => (fst kv, f (snd kv))) l).
Proof.
  induction l as [|[k v] r IH]; cbn; [reflexivity|]. rewrite kv_insert_map, IH. reflexivity.
Qed.

(* ---------------------------------------------------------------- sort_by *)
Lemma ins_by_perm : forall {A} (leb : A -> A -> bool) x l, Permutation (ins_by leb x l) (x :: l).
Proof.
  induction l as [|y r IH]; cbn; [apply Permutation_refl|].
  destruct (leb x y); [apply Permutation_refl|].
  eapply perm_trans; [apply perm_skip; exact IH|]. apply perm_swap.
Qed.
Lemma sort_by_perm : forall {A} (leb : A -> A -> bool) l, Permutation (sort_by leb l) l.
Proof.
  induction l as [|x r IH]; cbn; [constructor|].
  eapply perm_trans; [apply ins_by_perm|]. apply perm_skip. exact IH.
Qed.

(* ---------------------------------------------------------------- ainsert *)
Section AssocFacts.
  Context {K V R : Type} (cmp : K -> K -> comparison).
  Hypothesis cmp_sound : forall a b, cmp a b = Eq -> a = b.
  (* the things filed under one entry *)
  Variable content : K -> V -> list R.

  Lemma ainsert_content : forall k upd added (t : list (K * V)),
    (Permutation (content k (upd None)) added) ->
    (forall v, Permutation (content k (upd (Some v))) (content k v ++ added)) ->
    Permutation (flat_map (fun kv => content (fst kv) (snd kv)) (ainsert cmp k upd t))
                (flat_map (fun kv => content (fst kv) (snd kv)) t ++ added).
  Proof.
    intros k upd added t Hn Hs. induction t as [|[k' v'] r IH]; cbn [ainsert flat_map].
    - cbn. rewrite app_nil_r. exact Hn.
    - destruct (cmp k k') eqn:E.
      + apply cmp_sound in E. subst k'. cbn [flat_map fst snd].
        eapply perm_trans; [apply Permutation_app_tail; apply Hs|].
        rewrite <- !app_assoc. apply Permutation_app_head. apply Permutation_app_comm.
      + cbn [flat_map fst snd].
        eapply perm_trans; [apply Permutation_app_tail; exact Hn|].
        apply Permutation_app_comm.
      + cbn [flat_map fst snd]. rewrite <- app_assoc. apply Permutation_app_head. exact IH.
  Qed.
End AssocFacts.

Lemma concat_length_sum : forall {A} (l : list (list A)),
  length (concat l) = fold_right (fun x acc => (length x + acc)%nat) 0%nat l.
Proof. induction l as [|x r IH]; cbn; [reflexivity|]. rewrite app_length, IH. reflexivity. Qed.

(* ---------------------------------------------------------------- integer conversions *)
Lemma to_u64_i64 : forall n, n < two64 -> to_u64 (to_i64 n) = n.
Proof.
  intros n H. unfold to_u64, to_i64, two64, two63 in *.
  destruct (n <? 9223372036854775808) eqn:E.
  - rewrite Z.mod_small by lia. lia.
  - replace (Z.of_N n - Z.of_N 18446744073709551616)%Z
      with (Z.of_N n + (-1) * Z.of_N 18446744073709551616)%Z by lia.
    rewrite Z.mod_add by lia. rewrite Z.mod_small by lia. lia.
Qed.

Lemma to_u32_small : forall n, n < two32 -> to_u32 n = n.
Proof. intros n H. unfold to_u32. apply N.mod_small. exact H. Qed.

Lemma to_i32_small : forall z, (-2147483648 <= z < 2147483648)%Z -> to_i32 z = z.
Proof.
  intros z H. unfold to_i32, two32.
  destruct (Z_lt_le_dec z 0) as [Hn|Hp].
  - replace z with ((z + 4294967296) + (-1) * 4294967296)%Z at 1 2 by lia.
    change (Z.of_N 4294967296) with 4294967296%Z.
    rewrite Z.mod_add by lia. rewrite Z.mod_small by lia.
    destruct (z + 4294967296 <? 2147483648)%Z eqn:E; lia.
  - change (Z.of_N 4294967296) with 4294967296%Z. rewrite Z.mod_small by lia.
    destruct (z <? 2147483648)%Z eqn:E; lia.
Qed.
