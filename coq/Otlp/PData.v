(* OTLP batches as trees (what pmetric.Metrics / ptrace.Traces hold), the number of data
   points, well-formedness (ranges of the Go types, unique keys of pcommon.Map), and the
   flattened view: the list of fully qualified data points / spans.  No proofs here. *)
From Coq Require Import List NArith ZArith Bool.
From Stef Require Import OtlpBase.
Import ListNotations.
Open Scope N_scope.

(* pcommon.Value *)
Inductive oval : Type :=
| OEmpty
| OStr (s : str)
| OBool (b : bool)
| OInt (z : Z)
| ODouble (f : N)
| OBytes (s : str)
| OSlice (l : list oval)
| OMap (kvs : list (str * oval)).
Definition oattrs := list (str * oval).

(* value of a number data point or of an exemplar: oneof {none, int, double} *)
Inductive numval : Type := NVEmpty | NVInt (z : Z) | NVDouble (f : N).

Record exemplar := mkExemplar {
  ex_ts : N; ex_val : numval; ex_trace : str; ex_span : str; ex_attrs : oattrs }.

Record numpoint := mkNumPoint {
  np_start : N; np_ts : N; np_flags : N; np_val : numval; np_attrs : oattrs;
  np_ex : list exemplar }.

Record histpoint := mkHistPoint {
  hp_start : N; hp_ts : N; hp_flags : N; hp_count : N;
  hp_sum : option N; hp_min : option N; hp_max : option N;
  hp_buckets : list N; hp_bounds : list N; hp_attrs : oattrs; hp_ex : list exemplar }.

Record ebuckets := mkEBuckets { eb_off : Z; eb_counts : list N }.

Record exppoint := mkExpPoint {
  xp_start : N; xp_ts : N; xp_flags : N; xp_count : N;
  xp_sum : option N; xp_min : option N; xp_max : option N;
  xp_scale : Z; xp_zc : N; xp_zt : N; xp_pos : ebuckets; xp_neg : ebuckets;
  xp_attrs : oattrs; xp_ex : list exemplar }.

Record sumpoint := mkSumPoint {
  yp_start : N; yp_ts : N; yp_flags : N; yp_count : N; yp_sum : N;
  yp_q : list (N * N); yp_attrs : oattrs }.

(* pmetric.Metric data: type + type specific header + points *)
Inductive mdata : Type :=
| MEmpty
| MGauge (ps : list numpoint)
| MSum (temp : N) (mono : bool) (ps : list numpoint)
| MHist (temp : N) (ps : list histpoint)
| MExp (temp : N) (ps : list exppoint)
| MSummary (ps : list sumpoint).

Record metric := mkMetric {
  m_name : str; m_desc : str; m_unit : str; m_meta : oattrs; m_data : mdata }.

Record res_id := mkRes { rs_url : str; rs_attrs : oattrs; rs_dropped : N }.
Record scope_id := mkScope {
  sc_name : str; sc_version : str; sc_url : str; sc_attrs : oattrs; sc_dropped : N }.

Record scope_metrics := mkSM { sm_scope : scope_id; sm_metrics : list metric }.
Record res_metrics := mkRM { rm_res : res_id; rm_scopes : list scope_metrics }.
Definition mbatch := list res_metrics.

(* ---------------------------------------------------------------- traces *)
Record event := mkEvent { ev_name : str; ev_time : N; ev_attrs : oattrs; ev_dropped : N }.
Record link := mkLink {
  lk_trace : str; lk_span : str; lk_state : str; lk_flags : N; lk_attrs : oattrs;
  lk_dropped : N }.
Record span := mkSpan {
  s_trace : str; s_span : str; s_parent : str; s_name : str; s_flags : N;
  s_start : N; s_end : N; s_kind : N; s_state : str; s_attrs : oattrs; s_dropped : N;
  s_code : N; s_msg : str; s_events : list event; s_links : list link }.
Record scope_spans := mkSS { ss_scope : scope_id; ss_spans : list span }.
Record res_spans := mkRS { rsp_res : res_id; rsp_scopes : list scope_spans }.
Definition tbatch := list res_spans.

(* ---------------------------------------------------------------- counting *)
Definition mdata_points (d : mdata) : nat :=
  match d with
  | MEmpty => 0%nat
  | MGauge ps | MSum _ _ ps => length ps
  | MHist _ ps => length ps
  | MExp _ ps => length ps
  | MSummary ps => length ps
  end.

Fixpoint sum_nat (l : list nat) : nat :=
  match l with [] => 0%nat | x :: r => (x + sum_nat r)%nat end.

(* pmetric.Metrics.DataPointCount *)
Definition datapoint_count (b : mbatch) : nat :=
  sum_nat (map (fun rm => sum_nat (map (fun sm =>
    sum_nat (map (fun m => mdata_points (m_data m)) (sm_metrics sm))) (rm_scopes rm))) b).

(* ptrace.Traces.SpanCount *)
Definition span_count (b : tbatch) : nat :=
  sum_nat (map (fun rs => sum_nat (map (fun ss => length (ss_spans ss)) (rsp_scopes rs))) b).

(* ---------------------------------------------------------------- well-formedness *)
Fixpoint keys_unique (ks : list str) : bool :=
  match ks with
  | [] => true
  | k :: r => negb (existsb (str_eqb k) r) && keys_unique r
  end.

(* unique keys in every map, at every nesting level (a pcommon.Map built with its Put methods) *)
Fixpoint oval_wf (v : oval) : bool :=
  match v with
  | OSlice l => (fix go (l : list oval) : bool :=
                   match l with [] => true | x :: r => oval_wf x && go r end) l
  | OMap kvs => keys_unique (map fst kvs) &&
                (fix go (l : list (str * oval)) : bool :=
                   match l with [] => true | (_, x) :: r => oval_wf x && go r end) kvs
  | _ => true
  end.
Definition attrs_wf (a : oattrs) : bool :=
  keys_unique (map fst a) && forallb (fun kv => oval_wf (snd kv)) a.

Definition in_i32 (z : Z) : bool := ((-2147483648 <=? z) && (z <? 2147483648))%Z.
(* trace and span ids are [16]byte / [8]byte *)
Definition exemplar_wf (e : exemplar) : bool :=
  attrs_wf (ex_attrs e) && Nat.eqb (length (ex_trace e)) 16 && Nat.eqb (length (ex_span e)) 8.
Definition res_wf (r : res_id) : bool := attrs_wf (rs_attrs r) && (rs_dropped r <? two32).
Definition scope_wf (s : scope_id) : bool := attrs_wf (sc_attrs s) && (sc_dropped s <? two32).

Definition numpoint_wf (p : numpoint) : bool :=
  attrs_wf (np_attrs p) && forallb exemplar_wf (np_ex p).
Definition histpoint_wf (p : histpoint) : bool :=
  attrs_wf (hp_attrs p) && forallb exemplar_wf (hp_ex p) && (hp_count p <? two64).
Definition exppoint_wf (p : exppoint) : bool :=
  attrs_wf (xp_attrs p) && forallb exemplar_wf (xp_ex p) && in_i32 (xp_scale p) &&
  in_i32 (eb_off (xp_pos p)) && in_i32 (eb_off (xp_neg p)).
Definition sumpoint_wf (p : sumpoint) : bool := attrs_wf (yp_attrs p).

Definition mdata_wf (d : mdata) : bool :=
  match d with
  | MEmpty => true
  | MGauge ps | MSum _ _ ps => forallb numpoint_wf ps
  | MHist _ ps => forallb histpoint_wf ps
  | MExp _ ps => forallb exppoint_wf ps
  | MSummary ps => forallb sumpoint_wf ps
  end.
Definition metric_wf (m : metric) : bool := attrs_wf (m_meta m) && mdata_wf (m_data m).
Definition mbatch_wf (b : mbatch) : bool :=
  forallb (fun rm => res_wf (rm_res rm) &&
    forallb (fun sm => scope_wf (sm_scope sm) && forallb metric_wf (sm_metrics sm))
            (rm_scopes rm)) b.

(* ---------------------------------------------------------------- flattened view *)
(* An attribute collection is a set of key/value pairs; its canonical form is the stable sort
   by key.  Maps nested inside values keep their stored order (both converters keep it). *)
Definition canon (a : oattrs) : oattrs := sort_kv a.

Definition canon_res (r : res_id) : res_id := mkRes (rs_url r) (canon (rs_attrs r)) (rs_dropped r).
Definition canon_scope (s : scope_id) : scope_id :=
  mkScope (sc_name s) (sc_version s) (sc_url s) (canon (sc_attrs s)) (sc_dropped s).
Definition canon_ex (e : exemplar) : exemplar :=
  mkExemplar (ex_ts e) (ex_val e) (ex_trace e) (ex_span e) (canon (ex_attrs e)).

(* the value of a point, or the no-recorded-value marker [FVNone] (flag bit 0 set, or a
   number point without a value) *)
Inductive fvalue : Type :=
| FVNone
| FVInt (z : Z)
| FVDouble (f : N)
| FVHist (count : N) (sum mn mx : option N) (buckets bounds : list N)
| FVExp (count : N) (sum mn mx : option N) (scale : Z) (zc : N) (pos neg : ebuckets) (zt : N)
| FVSummary (count : N) (sum : N) (q : list (N * N)).

(* metric identity and metadata: type 0..4 as in otelstef.MetricType; temporality and
   monotonic only where the OTLP type has them *)
Record fqmetric := mkFQM {
  fm_name : str; fm_desc : str; fm_unit : str; fm_meta : oattrs; fm_type : N;
  fm_temp : option N; fm_mono : option bool }.

Record fqpoint := mkFQ {
  fq_res : res_id; fq_scope : scope_id; fq_metric : fqmetric; fq_attrs : oattrs;
  fq_start : N; fq_ts : N; fq_val : fvalue; fq_ex : list exemplar }.

Definition flagged (flags : N) : bool := N.testbit flags 0.

Definition fq_of_metric (m : metric) : fqmetric :=
  let mk := mkFQM (m_name m) (m_desc m) (m_unit m) (canon (m_meta m)) in
  match m_data m with
  | MEmpty => mk 0 None None       (* has no points; never used *)
  | MGauge _ => mk 0 None None
  | MSum t mono _ => mk 1 (Some t) (Some mono)
  | MHist t _ => mk 2 (Some t) None
  | MExp t _ => mk 3 (Some t) None
  | MSummary _ => mk 4 None None
  end.

Definition fv_num (p : numpoint) : fvalue :=
  if flagged (np_flags p) then FVNone else
  match np_val p with NVEmpty => FVNone | NVInt z => FVInt z | NVDouble f => FVDouble f end.
Definition fv_hist (p : histpoint) : fvalue :=
  if flagged (hp_flags p) then FVNone else
  FVHist (hp_count p) (hp_sum p) (hp_min p) (hp_max p) (hp_buckets p) (hp_bounds p).
Definition fv_exp (p : exppoint) : fvalue :=
  if flagged (xp_flags p) then FVNone else
  FVExp (xp_count p) (xp_sum p) (xp_min p) (xp_max p) (xp_scale p) (xp_zc p) (xp_pos p)
        (xp_neg p) (xp_zt p).
Definition fv_sum (p : sumpoint) : fvalue :=
  if flagged (yp_flags p) then FVNone else FVSummary (yp_count p) (yp_sum p) (yp_q p).

Definition flatten_metric (r : res_id) (s : scope_id) (m : metric) : list fqpoint :=
  let mk := mkFQ (canon_res r) (canon_scope s) (fq_of_metric m) in
  match m_data m with
  | MEmpty => []
  | MGauge ps | MSum _ _ ps =>
    map (fun p => mk (canon (np_attrs p)) (np_start p) (np_ts p) (fv_num p)
                     (map canon_ex (np_ex p))) ps
  | MHist _ ps =>
    map (fun p => mk (canon (hp_attrs p)) (hp_start p) (hp_ts p) (fv_hist p)
                     (map canon_ex (hp_ex p))) ps
  | MExp _ ps =>
    map (fun p => mk (canon (xp_attrs p)) (xp_start p) (xp_ts p) (fv_exp p)
                     (map canon_ex (xp_ex p))) ps
  | MSummary ps =>
    map (fun p => mk (canon (yp_attrs p)) (yp_start p) (yp_ts p) (fv_sum p) []) ps
  end.

Definition flatten_scope (r : res_id) (sm : scope_metrics) : list fqpoint :=
  flat_map (flatten_metric r (sm_scope sm)) (sm_metrics sm).
Definition flatten_res (rm : res_metrics) : list fqpoint :=
  flat_map (flatten_scope (rm_res rm)) (rm_scopes rm).
Definition flatten (b : mbatch) : list fqpoint := flat_map flatten_res b.

(* fully qualified spans, in tree order *)
Record fqspan := mkFQS { fs_res : res_id; fs_scope : scope_id; fs_span : span }.
Definition flatten_spans (b : tbatch) : list fqspan :=
  flat_map (fun rs => flat_map (fun ss => map (mkFQS (rsp_res rs) (ss_scope ss)) (ss_spans ss))
                               (rsp_scopes rs)) b.
