(* The STEF records of the otel schema as values: what MetricsWriter.Record / SpansWriter.Record
   hold at the moment of Write (go/otel/otel.stef; field order as in the schema), and the
   generated comparison functions Cmp* that key the b-trees of the sorting converters
   (go/otel/otelstef/{metric,resource,scope,attributes,anyvalue,...}.go).  No proofs here. *)
From Coq Require Import List NArith ZArith Bool.
From Stef Require Import OtlpBase.
Import ListNotations.
Open Scope N_scope.

(* oneof AnyValue; tags 1..7 in schema order String Bool Int64 Float64 Array KVList Bytes *)
Inductive tval : Type :=
| TNone
| TStr (s : str)
| TBool (b : bool)
| TInt (z : Z)
| TF64 (f : N)
| TArr (l : list tval)
| TKV (kvs : list (str * tval))
| TBytes (s : str).
Definition tattrs := list (str * tval).

Definition tval_tag (v : tval) : N :=
  match v with
  | TNone => 0 | TStr _ => 1 | TBool _ => 2 | TInt _ => 3 | TF64 _ => 4
  | TArr _ => 5 | TKV _ => 6 | TBytes _ => 7
  end.

Record t_metric := mkTMetric {
  tm_name : str; tm_desc : str; tm_unit : str; tm_type : N; tm_meta : tattrs;
  tm_bounds : list N; tm_temp : N; tm_mono : bool }.
Record t_resource := mkTRes { tr_url : str; tr_attrs : tattrs; tr_dropped : N }.
Record t_scope := mkTScope {
  tsc_name : str; tsc_version : str; tsc_url : str; tsc_attrs : tattrs; tsc_dropped : N }.

Inductive t_exval : Type := TEVNone | TEVInt (z : Z) | TEVF64 (f : N).
Record t_exemplar := mkTEx {
  te_ts : N; te_val : t_exval; te_span : str; te_trace : str; te_attrs : tattrs }.

Record t_hist := mkTHist {
  th_count : Z; th_sum : option N; th_min : option N; th_max : option N; th_buckets : list N }.
Record t_ebuckets := mkTEB { tb_off : Z; tb_counts : list N }.
Record t_exp := mkTExp {
  tx_count : N; tx_sum : option N; tx_min : option N; tx_max : option N; tx_scale : Z;
  tx_zc : N; tx_pos : t_ebuckets; tx_neg : t_ebuckets; tx_zt : N }.
Record t_summary := mkTSummary { ty_count : N; ty_sum : N; ty_q : list (N * N) }.

(* oneof PointValue; tags 1..5 Int64 Float64 Histogram ExpHistogram Summary *)
Inductive t_pval : Type :=
| PVNone
| PVInt (z : Z)
| PVF64 (f : N)
| PVHist (h : t_hist)
| PVExp (x : t_exp)
| PVSummary (y : t_summary).

Record t_point := mkTPoint {
  tp_start : N; tp_ts : N; tp_val : t_pval; tp_ex : list t_exemplar }.

(* root struct Metrics without the envelope (never touched by the converters) *)
Record mrecord := mkMRec {
  r_metric : t_metric; r_resource : t_resource; r_scope : t_scope; r_attrs : tattrs;
  r_point : t_point }.

Record t_event := mkTEvent { tv_name : str; tv_time : N; tv_attrs : tattrs; tv_dropped : N }.
Record t_link := mkTLink {
  tl_trace : str; tl_span : str; tl_state : str; tl_flags : N; tl_attrs : tattrs;
  tl_dropped : N }.
Record t_span := mkTSpan {
  tsp_trace : str; tsp_span : str; tsp_state : str; tsp_parent : str; tsp_flags : N;
  tsp_name : str; tsp_kind : N; tsp_start : N; tsp_end : N; tsp_attrs : tattrs;
  tsp_dropped : N; tsp_events : list t_event; tsp_links : list t_link;
  tsp_msg : str; tsp_code : N }.
(* root struct Spans without the envelope *)
Record srecord := mkSRec { sr_resource : t_resource; sr_scope : t_scope; sr_span : t_span }.

(* freshly initialised values (NewMetricsWriter / NewPoint / reset()) *)
Definition metric0 : t_metric := mkTMetric [] [] [] 0 [] [] 0 false.
Definition resource0 : t_resource := mkTRes [] [] 0.
Definition scope0 : t_scope := mkTScope [] [] [] [] 0.
Definition point0 : t_point := mkTPoint 0 0 PVNone [].
Definition mrecord0 : mrecord := mkMRec metric0 resource0 scope0 [] point0.
Definition span0 : t_span := mkTSpan [] [] [] [] 0 [] 0 0 0 [] 0 [] [] [] 0.
Definition srecord0 : srecord := mkSRec resource0 scope0 span0.

(* ---------------------------------------------------------------- generated Cmp* *)
(* CmpAnyValue / CmpAnyValueArray / CmpKeyValueList (anyvalue.go:411, anyvaluearray.go:252,
   keyvaluelist.go:226).  Multimaps: keys pairwise over the common prefix, then the length
   difference, then the values pairwise. *)
Fixpoint cmp_tval (a b : tval) {struct a} : comparison :=
  let cmp_list := fix go (x y : list tval) {struct x} : comparison :=
    match x, y with
    | u :: x', v :: y' => cthen (cmp_tval u v) (go x' y')
    | _, _ => Eq
    end in
  let cmp_keys := fix go (x : list (str * tval)) (y : list (str * tval)) {struct x} : comparison :=
    match x, y with
    | (k, _) :: x', (k', _) :: y' => cthen (str_cmp k k') (go x' y')
    | _, _ => Eq
    end in
  let cmp_vals := fix go (x : list (str * tval)) (y : list (str * tval)) {struct x} : comparison :=
    match x, y with
    | (_, u) :: x', (_, v) :: y' => cthen (cmp_tval u v) (go x' y')
    | _, _ => Eq
    end in
  cthen (N.compare (tval_tag a) (tval_tag b))
    match a, b with
    | TStr s, TStr t => str_cmp s t
    | TBool x, TBool y => bool_cmp x y
    | TInt x, TInt y => Z.compare x y
    | TF64 x, TF64 y => f64_cmp x y
    | TArr x, TArr y => cthen (nat_cmp (length x) (length y)) (cmp_list x y)
    | TKV x, TKV y =>
      cthen (cmp_keys x y) (cthen (nat_cmp (length x) (length y)) (cmp_vals x y))
    | TBytes s, TBytes t => str_cmp s t
    | _, _ => Eq
    end.

Fixpoint cmp_keys (x y : tattrs) : comparison :=
  match x, y with
  | (k, _) :: x', (k', _) :: y' => cthen (str_cmp k k') (cmp_keys x' y')
  | _, _ => Eq
  end.
Fixpoint cmp_vals (x y : tattrs) : comparison :=
  match x, y with
  | (_, u) :: x', (_, v) :: y' => cthen (cmp_tval u v) (cmp_vals x' y')
  | _, _ => Eq
  end.
(* CmpAttributes (attributes.go:226) *)
Definition cmp_tattrs (x y : tattrs) : comparison :=
  cthen (cmp_keys x y) (cthen (nat_cmp (length x) (length y)) (cmp_vals x y)).

Fixpoint cmp_f64s (x y : list N) : comparison :=
  match x, y with
  | a :: x', b :: y' => cthen (f64_cmp a b) (cmp_f64s x' y')
  | _, _ => Eq
  end.
(* CmpFloat64Array (float64array.go:210) *)
Definition cmp_f64_array (x y : list N) : comparison :=
  cthen (nat_cmp (length x) (length y)) (cmp_f64s x y).

(* CmpMetric (metric.go:559) *)
Definition cmp_metric (a b : t_metric) : comparison :=
  cthen (str_cmp (tm_name a) (tm_name b))
  (cthen (str_cmp (tm_desc a) (tm_desc b))
  (cthen (str_cmp (tm_unit a) (tm_unit b))
  (cthen (N.compare (tm_type a) (tm_type b))
  (cthen (cmp_tattrs (tm_meta a) (tm_meta b))
  (cthen (cmp_f64_array (tm_bounds a) (tm_bounds b))
  (cthen (N.compare (tm_temp a) (tm_temp b))
         (bool_cmp (tm_mono a) (tm_mono b)))))))).

(* CmpResource (resource.go:324) *)
Definition cmp_resource (a b : t_resource) : comparison :=
  cthen (str_cmp (tr_url a) (tr_url b))
  (cthen (cmp_tattrs (tr_attrs a) (tr_attrs b))
         (N.compare (tr_dropped a) (tr_dropped b))).

(* CmpScope (scope.go:418) *)
Definition cmp_scope (a b : t_scope) : comparison :=
  cthen (str_cmp (tsc_name a) (tsc_name b))
  (cthen (str_cmp (tsc_version a) (tsc_version b))
  (cthen (str_cmp (tsc_url a) (tsc_url b))
  (cthen (cmp_tattrs (tsc_attrs a) (tsc_attrs b))
         (N.compare (tsc_dropped a) (tsc_dropped b))))).
