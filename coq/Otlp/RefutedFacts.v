(* Concrete witnesses, evaluated inside Coq by vm_compute, for the statements that the code at
   the pinned commit (cfg_pinned) does not satisfy.  The same inputs are replayed on the Go
   code by tools/check_otlp.py (corpus/C17, corpus/C18). *)
From Coq Require Import List NArith ZArith Bool.
From Stef Require Import OtlpBase PData Record Image ToStef FromStef Traces.
Import ListNotations.
Open Scope N_scope.

Definition res_a : res_id := mkRes [97] [] 0.
Definition scope_a : scope_id := mkScope [115] [] [] [] 0.
Definition batch_of (r : res_id) (m : metric) : mbatch := [mkRM r [mkSM scope_a [m]]].
Definition gauge (ps : list numpoint) : metric := mkMetric [109] [] [] [] (MGauge ps).

(* D11: a resource attribute that is a map with two entries *)
Definition w_map2 : mbatch :=
  batch_of (mkRes [97] [([107], OMap [([120], OInt 1); ([121], OInt 2)])] 0)
           (gauge [mkNumPoint 1 2 0 (NVInt 5) [] []]).

Lemma map_index_refuted :
  exists b b', mbatch_wf b = true /\
    rbind (to_stef_unsorted cfg_pinned b) (from_stef cfg_pinned) = Ok b' /\ flatten b' <> flatten b.
Proof.
  exists w_map2. eexists. split; [vm_compute; reflexivity|]. split; [vm_compute; reflexivity|].
  vm_compute. discriminate.
Qed.

(* D17: a gauge point without a value through the sorting converter *)
Definition w_empty : mbatch := batch_of res_a (gauge [mkNumPoint 1 2 0 NVEmpty [] []]).
Lemma sorted_count_refuted :
  exists b recs, mbatch_wf b = true /\ to_stef_sorted cfg_pinned b = Ok recs /\
                 length recs <> datapoint_count b.
Proof.
  exists w_empty. eexists. split; [vm_compute; reflexivity|]. split; [vm_compute; reflexivity|].
  vm_compute. discriminate.
Qed.

(* D12: a no-recorded-value number point with an exemplar loses the exemplar on the way back *)
Definition ex1 : exemplar :=
  mkExemplar 9 (NVInt 1) (repeat 1 16) (repeat 2 8) [].
Definition w_flag_ex : mbatch := batch_of res_a (gauge [mkNumPoint 1 2 1 (NVInt 5) [] [ex1]]).
Lemma flagged_exemplars_refuted :
  exists b b', mbatch_wf b = true /\
    rbind (to_stef_unsorted cfg_pinned b) (from_stef cfg_pinned) = Ok b' /\ flatten b' <> flatten b.
Proof.
  exists w_flag_ex. eexists. split; [vm_compute; reflexivity|]. split; [vm_compute; reflexivity|].
  vm_compute. discriminate.
Qed.

(* D12: a summary point carrying the NoRecordedValue flag comes back without it *)
Definition w_sum_flag : mbatch :=
  batch_of res_a (mkMetric [109] [] [] [] (MSummary [mkSumPoint 1 2 1 3 0 [] []])).
Lemma summary_flag_refuted :
  exists b b', mbatch_wf b = true /\
    rbind (to_stef_unsorted cfg_pinned b) (from_stef cfg_pinned) = Ok b' /\ flatten b' <> flatten b.
Proof.
  exists w_sum_flag. eexists. split; [vm_compute; reflexivity|]. split; [vm_compute; reflexivity|].
  vm_compute. discriminate.
Qed.

(* ---------------------------------------------------------------- traces *)
Definition span1 (k : N) : span :=
  mkSpan (repeat k 16) (repeat k 8) [] [110] 0 1 2 1 [] [] 0 0 [] [] [].
Definition tb_of (r1 r2 : res_id) : tbatch :=
  [mkRS r1 [mkSS scope_a [span1 1]]; mkRS r2 [mkSS scope_a [span1 2]]].

(* D11 in a span attribute *)
Definition w_span_map : tbatch :=
  [mkRS res_a [mkSS scope_a
     [mkSpan (repeat 1 16) (repeat 1 8) [] [110] 0 1 2 1 []
             [([107], OMap [([120], OInt 1); ([121], OInt 2)])] 0 0 [] [] []]]].
Lemma span_content_refuted :
  exists b recs, traces_to_stef cfg_pinned false b = Ok recs /\
                 recs <> map (span_image false) (flatten_spans b).
Proof.
  exists w_span_map. eexists. split; [vm_compute; reflexivity|]. vm_compute. discriminate.
Qed.

(* D18: two resources with the same key and double values: CmpVal panics in sorted mode *)
Lemma sorted_cmp_panic_refuted :
  exists b, traces_to_stef cfg_pinned true b = Panic.
Proof.
  exists (tb_of (mkRes [] [([107], ODouble 1)] 0) (mkRes [] [([107], ODouble 2)] 0)).
  vm_compute. reflexivity.
Qed.

(* D19: two resources that differ only in the dropped attributes count are merged *)
Lemma sorted_merge_dropped_refuted :
  exists b recs, traces_to_stef cfg_pinned true b = Ok recs /\
    ~ (forall q, In (span_image true q) recs <-> In q (flatten_spans b)).
Proof.
  exists (tb_of (mkRes [] [] 0) (mkRes [] [] 1)). eexists. split; [vm_compute; reflexivity|].
  intro H.
  assert (Hin : In (mkFQS (mkRes [] [] 1) scope_a (span1 2))
                   (flatten_spans (tb_of (mkRes [] [] 0) (mkRes [] [] 1)))).
  { vm_compute. right. left. reflexivity. }
  apply H in Hin. vm_compute in Hin.
  destruct Hin as [E|[E|[]]]; discriminate E.
Qed.
