(* C17, way back: what StefToOtlpUnsorted makes of a record stream is, flattened, the
   concatenation of what it makes of each record alone ([view]) -- for every assignment of
   modified flags that announces every change of resource, scope and metric. *)
From Coq Require Import List NArith ZArith Bool Lia Permutation.
From Stef Require Import OtlpBase OtlpBaseFacts PData Record Image ToStef ToStefFacts FromStef
  FromStefFacts.
Import ListNotations.
Open Scope N_scope.

(* the fully qualified point(s) a single record stands for *)
Definition view (c : cfg) (r : mrecord) : res (list fqpoint) :=
  rbind (back_metric (r_metric r)) (fun m0 =>
  rbind (append_point c (r_metric r) (r_attrs r) (r_point r) m0) (fun m =>
  Ok (flatten_metric (back_res (r_resource r)) (back_scope (r_scope r)) m))).

Definition hdr_ok (tm : t_metric) (m : metric) : Prop :=
  m_name m = tm_name tm /\ m_desc m = tm_desc tm /\ m_unit m = tm_unit tm /\
  m_meta m = back_attrs (tm_meta tm) /\
  match m_data m with
  | MEmpty => False
  | MGauge _ => tm_type tm = 0
  | MSum _ _ _ => tm_type tm = 1
  | MHist _ _ => tm_type tm = 2
  | MExp _ _ => tm_type tm = 3
  | MSummary _ => tm_type tm = 4
  end.
Definition temps_eq (tm : t_metric) (m : metric) : Prop :=
  match m_data m with
  | MSum t mono _ => t = tm_temp tm /\ mono = tm_mono tm
  | MHist t _ | MExp t _ => t = tm_temp tm
  | _ => True
  end.
Definition no_points (m : metric) : Prop := mdata_points (m_data m) = 0%nat.

Lemma back_metric_fresh : forall tm m0, back_metric tm = Ok m0 -> hdr_ok tm m0 /\ no_points m0.
Proof.
  intros tm m0. unfold back_metric.
  destruct (tm_type tm =? 0) eqn:E0; [apply N.eqb_eq in E0|
  destruct (tm_type tm =? 1) eqn:E1; [apply N.eqb_eq in E1|
  destruct (tm_type tm =? 2) eqn:E2; [apply N.eqb_eq in E2|
  destruct (tm_type tm =? 3) eqn:E3; [apply N.eqb_eq in E3|
  destruct (tm_type tm =? 4) eqn:E4; [apply N.eqb_eq in E4|]]]]];
    intro H; inversion H; subst; unfold hdr_ok, no_points; cbn; repeat split; assumption.
Qed.

Lemma length_zero_nil : forall {A} (l : list A), length l = 0%nat -> l = [].
Proof. destruct l; [reflexivity|discriminate]. Qed.

(* appending the record's point to a metric that already stands for the record's metric *)
Lemma append_view : forall c tm tr ts a p m pv,
  hdr_ok tm m -> (no_points m \/ temps_eq tm m) ->
  view c (mkMRec tm tr ts a p) = Ok pv ->
  exists m', append_point c tm a p m = Ok m' /\ hdr_ok tm m' /\ temps_eq tm m' /\
    flatten_metric (back_res tr) (back_scope ts) m' =
    flatten_metric (back_res tr) (back_scope ts) m ++ pv.
Proof.
  intros c tm tr ts a p [n d u me data] pv [Hn [Hd [Hu [Hme Hty]]]] Hpt Hv.
  cbn [m_name m_desc m_unit m_meta m_data] in *. subst n d u me.
  unfold view in Hv. cbn [r_metric r_attrs r_point r_resource r_scope] in Hv.
  unfold back_metric in Hv.
  destruct data as [|ps|t mono ps|t ps|t ps|ps]; [contradiction| | | | |]; rewrite Hty in Hv;
    cbn [rbind] in Hv; unfold append_point in *; cbn [m_data m_name m_desc m_unit m_meta] in *.
  - (* gauge *)
    destruct (back_num c a p) as [q| |]; cbn [rbind] in *; try discriminate.
    inversion Hv; subst. eexists. split; [reflexivity|].
    unfold hdr_ok, temps_eq, flatten_metric; cbn. repeat split; try assumption.
    rewrite map_app. reflexivity.
  - (* sum *)
    destruct (back_num c a p) as [q| |]; cbn [rbind] in *; try discriminate.
    destruct (temp_ok (tm_temp tm)); try discriminate.
    inversion Hv; subst. eexists. split; [reflexivity|].
    unfold hdr_ok, temps_eq, flatten_metric; cbn. repeat split; try assumption.
    rewrite map_app. cbn [map]. f_equal.
    destruct Hpt as [Hnp|[Ht Hm]].
    + unfold no_points in Hnp. cbn in Hnp. apply length_zero_nil in Hnp. subst. reflexivity.
    + subst. reflexivity.
  - (* histogram *)
    destruct (back_hist c tm a p) as [q| |]; cbn [rbind] in *; try discriminate.
    destruct (temp_ok (tm_temp tm)); try discriminate.
    inversion Hv; subst. eexists. split; [reflexivity|].
    unfold hdr_ok, temps_eq, flatten_metric; cbn. repeat split; try assumption.
    rewrite map_app. cbn [map]. f_equal.
    destruct Hpt as [Hnp|Ht].
    + unfold no_points in Hnp. cbn in Hnp. apply length_zero_nil in Hnp. subst. reflexivity.
    + cbn in Ht. subst. reflexivity.
  - (* exponential histogram *)
    destruct (back_exp c a p) as [q| |]; cbn [rbind] in *; try discriminate.
    destruct (temp_ok (tm_temp tm)); try discriminate.
    inversion Hv; subst. eexists. split; [reflexivity|].
    unfold hdr_ok, temps_eq, flatten_metric; cbn. repeat split; try assumption.
    rewrite map_app. cbn [map]. f_equal.
    destruct Hpt as [Hnp|Ht].
    + unfold no_points in Hnp. cbn in Hnp. apply length_zero_nil in Hnp. subst. reflexivity.
    + cbn in Ht. subst. reflexivity.
  - (* summary *)
    destruct (back_summary a p) as [q| |]; cbn [rbind] in *; try discriminate.
    inversion Hv; subst. eexists. split; [reflexivity|].
    unfold hdr_ok, temps_eq, flatten_metric; cbn. repeat split; try assumption.
    rewrite map_app. reflexivity.
Qed.

(* ---------------------------------------------------------------- the batch under construction *)
Definition snoc3 (b0 : mbatch) (R : res_id) (ss0 : list scope_metrics) (S : scope_id)
           (ms0 : list metric) (m : metric) : mbatch :=
  b0 ++ [mkRM R (ss0 ++ [mkSM S (ms0 ++ [m])])].

Lemma flatten_snoc3 : forall b0 R ss0 S ms0 m,
  flatten (snoc3 b0 R ss0 S ms0 m) =
  flatten b0 ++ flat_map (flatten_scope R) ss0 ++ flat_map (flatten_metric R S) ms0 ++
  flatten_metric R S m.
Proof.
  intros. unfold snoc3, flatten. rewrite flat_map_app. f_equal. cbn [flat_map].
  rewrite app_nil_r. unfold flatten_res. cbn [rm_res rm_scopes]. rewrite flat_map_app. f_equal.
  cbn [flat_map]. rewrite app_nil_r.
  change (flatten_scope R (mkSM S (ms0 ++ [m]))) with (flat_map (flatten_metric R S) (ms0 ++ [m])).
  rewrite flat_map_app. cbn [flat_map]. rewrite app_nil_r. reflexivity.
Qed.

Lemma upd_last_snoc : forall {A} (f : A -> A) l x, upd_last f (l ++ [x]) = l ++ [f x].
Proof.
  induction l as [|y r IH]; intro x; [reflexivity|].
  change ((y :: r) ++ [x]) with (y :: (r ++ [x])).
  assert (E : exists a l0, r ++ [x] = a :: l0) by (destruct r; cbn; eauto).
  destruct E as [a [l0 E]]. rewrite E.
  change (upd_last f (y :: a :: l0)) with (y :: upd_last f (a :: l0)).
  rewrite <- E, IH. reflexivity.
Qed.

Lemma upd_last_metric_snoc3 : forall f b0 R ss0 S ms0 m,
  upd_last_metric f (snoc3 b0 R ss0 S ms0 m) =
  rbind (f m) (fun m' => Ok (snoc3 b0 R ss0 S ms0 m')).
Proof.
  intros. unfold upd_last_metric, snoc3. rewrite rev_unit. cbn [rm_scopes rm_res].
  rewrite rev_unit. cbn [sm_metrics sm_scope]. rewrite rev_unit.
  rewrite !rev_involutive. reflexivity.
Qed.

Lemma add_metric_snoc3 : forall m1 b0 R ss0 S ms0 m,
  add_metric m1 (snoc3 b0 R ss0 S ms0 m) = snoc3 b0 R ss0 S (ms0 ++ [m]) m1.
Proof.
  intros. unfold add_metric, snoc3. rewrite upd_last_snoc. cbn [rm_res rm_scopes].
  rewrite upd_last_snoc. reflexivity.
Qed.

Lemma new_scope_metric : forall m1 S1 b1 R ss,
  add_metric m1 (add_scope S1 (b1 ++ [mkRM R ss])) = snoc3 b1 R ss S1 [] m1.
Proof.
  intros. unfold add_scope, add_metric, snoc3. rewrite upd_last_snoc. cbn [rm_res rm_scopes].
  rewrite upd_last_snoc. cbn [rm_res rm_scopes]. rewrite upd_last_snoc. reflexivity.
Qed.

(* ---------------------------------------------------------------- modified flags *)
(* a clear flag means: same value as in the previous record *)
Inductive flags_sound : mrecord -> list (mflags * mrecord) -> Prop :=
| fs_nil : forall prev, flags_sound prev []
| fs_cons : forall prev fl r l,
    (f_metric fl = false -> r_metric r = r_metric prev) ->
    (f_resource fl = false -> r_resource r = r_resource prev) ->
    (f_scope fl = false -> r_scope r = r_scope prev) ->
    flags_sound r l -> flags_sound prev ((fl, r) :: l).

Definition views (c : cfg) (l : list (mflags * mrecord)) (pvs : list (list fqpoint)) : Prop :=
  Forall2 (fun fr pv => view c (snd fr) = Ok pv) l pvs.

Lemma view_metric_ok : forall c r pv, view c r = Ok pv -> exists m0, back_metric (r_metric r) = Ok m0.
Proof.
  intros c r pv H. unfold view in H. destruct (back_metric (r_metric r)) as [m0| |]; try discriminate.
  exists m0. reflexivity.
Qed.

(* starting a new metric for record r in a batch that ends in resource R with scopes ss and
   scope S holding ms: the common tail of the three "new ..." cases *)
Lemma start_metric : forall c r pv b1 R ss S ms,
  R = back_res (r_resource r) -> S = back_scope (r_scope r) ->
  view c r = Ok pv ->
  exists m0 m', back_metric (r_metric r) = Ok m0 /\
    upd_last_metric (append_point c (r_metric r) (r_attrs r) (r_point r)) (snoc3 b1 R ss S ms m0)
      = Ok (snoc3 b1 R ss S ms m') /\
    hdr_ok (r_metric r) m' /\ temps_eq (r_metric r) m' /\
    flatten_metric R S m' = pv.
Proof.
  intros c r pv b1 R ss S ms HR HS Hv.
  destruct (view_metric_ok _ _ _ Hv) as [m0 Hm0].
  destruct (back_metric_fresh _ _ Hm0) as [Hh Hn].
  destruct r as [tm tr ts a p]. cbn [r_metric r_resource r_scope r_attrs r_point] in *.
  destruct (append_view c tm tr ts a p m0 pv Hh (or_introl Hn) Hv) as [m' [Ha [Hh' [Ht' Hf]]]].
  exists m0, m'. split; [exact Hm0|]. rewrite upd_last_metric_snoc3, Ha. cbn [rbind].
  split; [reflexivity|]. split; [exact Hh'|]. split; [exact Ht'|].
  subst R S. rewrite Hf.
  assert (E : flatten_metric (back_res tr) (back_scope ts) m0 = []).
  { unfold no_points in Hn. unfold flatten_metric.
    destruct (m_data m0); cbn in Hn; try reflexivity; apply length_zero_nil in Hn; subst; reflexivity. }
  rewrite E. reflexivity.
Qed.

Lemma back_loop_sound : forall c l prev pvs b0 ss0 ms0 m,
  flags_sound prev l -> views c l pvs ->
  hdr_ok (r_metric prev) m -> temps_eq (r_metric prev) m ->
  exists b', back_loop c false
               (snoc3 b0 (back_res (r_resource prev)) ss0 (back_scope (r_scope prev)) ms0 m) l = Ok b' /\
    flatten b' = flatten (snoc3 b0 (back_res (r_resource prev)) ss0 (back_scope (r_scope prev)) ms0 m)
                 ++ concat pvs.
Proof.
  intros c. induction l as [|[fl r] l IH]; intros prev pvs b0 ss0 ms0 m Hfs Hvs Hh Ht.
  - inversion Hvs; subst. cbn [back_loop concat]. eexists. split; [reflexivity|].
    rewrite app_nil_r. reflexivity.
  - inversion Hfs as [|? ? ? ? HfM HfR HfS Hfs']; subst.
    inversion Hvs as [|? pv ? pvs' Hv Hvs']; subst. cbn [snd] in Hv.
    cbn [back_loop]. unfold back_step. cbn [orb].
    set (R := back_res (r_resource prev)) in *. set (S := back_scope (r_scope prev)) in *.
    destruct (f_resource fl) eqn:ER; cbn [orb].
    + (* new resource, scope, metric *)
      destruct (start_metric c r pv (snoc3 b0 R ss0 S ms0 m) (back_res (r_resource r)) []
                  (back_scope (r_scope r)) [] eq_refl eq_refl Hv) as [m0 [m' [Hm0 [Hu [Hh' [Ht' Hf]]]]]].
      rewrite Hm0. cbn [rbind]. rewrite new_scope_metric. rewrite Hu. cbn [rbind].
      destruct (IH r pvs' (snoc3 b0 R ss0 S ms0 m) [] [] m' Hfs' Hvs' Hh' Ht') as [b' [Hb' Hfl]].
      exists b'. split; [exact Hb'|]. rewrite Hfl. rewrite flatten_snoc3. cbn [flat_map app concat].
      rewrite Hf. rewrite <- !app_assoc. reflexivity.
    + specialize (HfR eq_refl).
      destruct (f_scope fl) eqn:ES; cbn [orb].
      * (* same resource, new scope and metric *)
        destruct (start_metric c r pv b0 R (ss0 ++ [mkSM S (ms0 ++ [m])])
                    (back_scope (r_scope r)) [] (f_equal back_res (eq_sym HfR)) eq_refl Hv)
          as [m0 [m' [Hm0 [Hu [Hh' [Ht' Hf]]]]]].
        rewrite Hm0. cbn [rbind]. unfold snoc3 at 1. rewrite new_scope_metric. rewrite Hu. cbn [rbind].
        assert (ER' : R = back_res (r_resource r)) by (unfold R; rewrite HfR; reflexivity).
        rewrite ER' in *.
        destruct (IH r pvs' b0 (ss0 ++ [mkSM S (ms0 ++ [m])]) [] m' Hfs' Hvs' Hh' Ht') as [b' [Hb' Hfl]].
        exists b'. split; [exact Hb'|]. rewrite Hfl. rewrite !flatten_snoc3. cbn [flat_map app concat].
        rewrite Hf. rewrite flat_map_app. cbn [flat_map]. unfold flatten_scope at 2.
        cbn [sm_scope sm_metrics]. rewrite flat_map_app. cbn [flat_map].
        rewrite !app_nil_r. rewrite <- !app_assoc. reflexivity.
      * specialize (HfS eq_refl).
        assert (ER' : R = back_res (r_resource r)) by (unfold R; rewrite HfR; reflexivity).
        assert (ES' : S = back_scope (r_scope r)) by (unfold S; rewrite HfS; reflexivity).
        destruct (f_metric fl) eqn:EM.
        -- (* same resource and scope, new metric *)
           destruct (start_metric c r pv b0 R ss0 S (ms0 ++ [m]) ER' ES' Hv)
             as [m0 [m' [Hm0 [Hu [Hh' [Ht' Hf]]]]]].
           rewrite Hm0. cbn [rbind]. rewrite add_metric_snoc3. rewrite Hu. cbn [rbind].
           rewrite ER', ES' in *.
           destruct (IH r pvs' b0 ss0 (ms0 ++ [m]) m' Hfs' Hvs' Hh' Ht') as [b' [Hb' Hfl]].
           exists b'. split; [exact Hb'|]. rewrite Hfl. rewrite !flatten_snoc3. cbn [concat].
           rewrite Hf. rewrite flat_map_app. cbn [flat_map]. rewrite !app_nil_r.
           rewrite <- !app_assoc. reflexivity.
        -- (* same resource, scope and metric: the point joins the current metric *)
           specialize (HfM eq_refl). cbn [rbind].
           destruct r as [tm tr ts a p]. cbn [r_metric r_resource r_scope r_attrs r_point] in *.
           rewrite <- HfM in Hh, Ht.
           destruct (append_view c tm tr ts a p m pv Hh (or_intror Ht) Hv) as [m' [Ha [Hh' [Ht' Hf]]]].
           rewrite upd_last_metric_snoc3, Ha. cbn [rbind].
           rewrite ER', ES' in *.
           destruct (IH (mkMRec tm tr ts a p) pvs' b0 ss0 ms0 m' Hfs' Hvs' Hh' Ht') as [b' [Hb' Hfl]].
           cbn [r_resource r_scope] in Hb', Hfl.
           exists b'. split; [exact Hb'|]. rewrite Hfl. rewrite !flatten_snoc3. cbn [concat].
           rewrite Hf. rewrite <- !app_assoc. reflexivity.
Qed.

(* StefToOtlpUnsorted on any stream with sound flags: the flattened result is the views, in order *)
Theorem from_stef_views : forall c l pvs,
  match l with [] => True | (_, r) :: l' => flags_sound r l' end ->
  views c l pvs ->
  exists b', from_stef_flags c l = Ok b' /\ flatten b' = concat pvs.
Proof.
  intros c l pvs Hfs Hvs. unfold from_stef_flags. destruct l as [|[fl r] l].
  - inversion Hvs; subst. exists []. split; reflexivity.
  - inversion Hvs as [|? pv ? pvs' Hv Hvs']; subst. cbn [snd] in Hv.
    cbn [back_loop]. unfold back_step. cbn [orb app].
    destruct (start_metric c r pv [] (back_res (r_resource r)) [] (back_scope (r_scope r)) []
                eq_refl eq_refl Hv) as [m0 [m' [Hm0 [Hu [Hh' [Ht' Hf]]]]]].
    rewrite Hm0. cbn [rbind].
    change [mkRM (back_res (r_resource r)) []] with ([] ++ [mkRM (back_res (r_resource r)) []]).
    rewrite new_scope_metric. rewrite Hu. cbn [rbind].
    destruct (back_loop_sound c l r pvs' [] [] [] m' Hfs Hvs' Hh' Ht') as [b' [Hb' Hfl]].
    exists b'. split; [exact Hb'|]. rewrite Hfl, flatten_snoc3. cbn [flat_map app concat flatten].
    rewrite Hf. reflexivity.
Qed.

(* ---------------------------------------------------------------- views of written records *)
Lemma firstn_all_len : forall {A} (l : list A) n, length l = n -> firstn n l = l.
Proof. intros A l n H. subst. apply firstn_all. Qed.

Lemma back_conv_exemplar : forall c e, c_map_inc c = true -> exemplar_wf e = true ->
  exists e', back_exemplar (conv_exemplar c e) = Ok e' /\ canon_ex e' = canon_ex e.
Proof.
  intros c e Hinc Hwf. unfold exemplar_wf in Hwf.
  apply andb_true_iff in Hwf. destruct Hwf as [Hwf H8]. apply andb_true_iff in Hwf. destruct Hwf as [Ha H16].
  apply Nat.eqb_eq in H8. apply Nat.eqb_eq in H16.
  unfold back_exemplar, conv_exemplar. cbn [te_trace te_span te_ts te_val te_attrs].
  rewrite H16, H8. cbn [Nat.ltb Nat.leb orb].
  eexists. split; [reflexivity|]. unfold canon_ex. cbn [ex_ts ex_val ex_trace ex_span ex_attrs].
  rewrite Hinc, conv_attrs_sorted_img.
  rewrite (firstn_all_len _ _ H16), (firstn_all_len _ _ H8).
  rewrite canon_back_img_sorted by exact Ha.
  destruct (ex_val e); reflexivity.
Qed.

Lemma back_conv_exemplars : forall c l, c_map_inc c = true -> forallb exemplar_wf l = true ->
  exists l', back_exemplars (conv_exemplars c l) = Ok l' /\ map canon_ex l' = map canon_ex l.
Proof.
  intros c l Hinc. unfold back_exemplars, conv_exemplars.
  induction l as [|e r IH]; cbn [forallb map mapM_res]; intro Hwf.
  - exists []. split; reflexivity.
  - apply andb_true_iff in Hwf. destruct Hwf as [He Hr].
    destruct (back_conv_exemplar c e Hinc He) as [e' [H1 H2]]. rewrite H1.
    destruct (IH Hr) as [l' [H3 H4]]. cbn [mapM_res] in H3. rewrite H3.
    exists (e' :: l'). split; [reflexivity|]. cbn [map]. rewrite H2, H4. reflexivity.
Qed.

Lemma flagged_no_value : flagged no_value_flags = true.
Proof. reflexivity. Qed.

(* what a record has to agree with, up to the canonical order of attribute collections *)
Record stands_for (tm : t_metric) (tr : t_resource) (ts : t_scope) (ta : tattrs)
       (R : res_id) (S : scope_id) (n d u : str) (meta attrs : oattrs) : Prop := mkStands {
  sf_res : canon_res (back_res tr) = canon_res R;
  sf_scope : canon_scope (back_scope ts) = canon_scope S;
  sf_name : tm_name tm = n; sf_desc : tm_desc tm = d; sf_unit : tm_unit tm = u;
  sf_meta : canon (back_attrs (tm_meta tm)) = canon meta;
  sf_attrs : canon (back_attrs ta) = canon attrs }.

Ltac view_start H :=
  destruct H as [HR HS Hn Hd Hu Hme Hat];
  unfold view; cbn [r_metric r_attrs r_point r_resource r_scope]; unfold back_metric.

Lemma view_num_rec : forall c tm tr ts ta R S n d u meta p ft fm,
  c_map_inc c = true -> c_back_ex c = true ->
  stands_for tm tr ts ta R S n d u meta (np_attrs p) ->
  forallb exemplar_wf (np_ex p) = true ->
  ((tm_type tm = 0 /\ ft = None /\ fm = None) \/
   (tm_type tm = 1 /\ temp_ok (tm_temp tm) = true /\ ft = Some (tm_temp tm) /\ fm = Some (tm_mono tm))) ->
  view c (mkMRec tm tr ts ta
            (mkTPoint (np_start p) (np_ts p) (conv_numval (np_flags p) (np_val p))
                      (conv_exemplars c (np_ex p)))) =
  Ok [mkFQ (canon_res R) (canon_scope S) (mkFQM n d u (canon meta) (tm_type tm) ft fm)
           (canon (np_attrs p)) (np_start p) (np_ts p) (fv_num p) (map canon_ex (np_ex p))].
Proof.
  intros c tm tr ts ta R S n d u meta p ft fm Hinc Hbx Hsf Hex Hty. view_start Hsf.
  destruct (back_conv_exemplars c (np_ex p) Hinc Hex) as [ex' [Hb Hc]].
  assert (Hnum : exists q, back_num c ta (mkTPoint (np_start p) (np_ts p)
                   (conv_numval (np_flags p) (np_val p)) (conv_exemplars c (np_ex p))) = Ok q /\
            np_start q = np_start p /\ np_ts q = np_ts p /\ fv_num q = fv_num p /\
            np_attrs q = back_attrs ta /\ map canon_ex (np_ex q) = map canon_ex (np_ex p)).
  { unfold back_num, conv_numval, fv_num. cbn [tp_val tp_ex tp_start tp_ts]. rewrite Hbx.
    destruct (flagged (np_flags p)); [|destruct (np_val p)]; rewrite Hb; cbn [rbind];
      eexists; (split; [reflexivity|]); cbn; repeat split; assumption. }
  destruct Hnum as [q [Hq [Q1 [Q2 [Q3 [Q4 Q5]]]]]].
  destruct Hty as [[Ht [-> ->]]|[Ht [Hok [-> ->]]]]; rewrite Ht; cbn [N.eqb Pos.eqb rbind];
    unfold append_point; cbn [m_data m_name m_desc m_unit m_meta]; rewrite Hq; cbn [rbind];
    try rewrite Hok; cbn [rbind]; unfold flatten_metric; cbn [m_data map app];
    unfold fq_of_metric; cbn [m_data m_name m_desc m_unit m_meta app map];
    rewrite HR, HS, Hn, Hd, Hu, Hme, Q1, Q2, Q3, Q4, Q5, Hat; reflexivity.
Qed.

Lemma view_hist_rec : forall c tm tr ts ta R S n d u meta p v,
  c_map_inc c = true -> c_back_ex c = true ->
  stands_for tm tr ts ta R S n d u meta (hp_attrs p) ->
  forallb exemplar_wf (hp_ex p) = true -> hp_count p < two64 ->
  tm_type tm = 2 -> temp_ok (tm_temp tm) = true -> tm_bounds tm = hp_bounds p ->
  conv_histval c p = Ok v ->
  view c (mkMRec tm tr ts ta (mkTPoint (hp_start p) (hp_ts p) v (conv_exemplars c (hp_ex p)))) =
  Ok [mkFQ (canon_res R) (canon_scope S) (mkFQM n d u (canon meta) 2 (Some (tm_temp tm)) None)
           (canon (hp_attrs p)) (hp_start p) (hp_ts p) (fv_hist p) (map canon_ex (hp_ex p))].
Proof.
  intros c tm tr ts ta R S n d u meta p v Hinc Hbx Hsf Hex Hcnt Ht Hok Hbd Hv. view_start Hsf.
  destruct (back_conv_exemplars c (hp_ex p) Hinc Hex) as [ex' [Hb Hc]].
  rewrite Ht. cbn [N.eqb Pos.eqb rbind]. unfold append_point. cbn [m_data m_name m_desc m_unit m_meta].
  unfold conv_histval in Hv. unfold back_hist, fv_hist. cbn [tp_val tp_ex tp_start tp_ts].
  destruct (flagged (hp_flags p)) eqn:Efl.
  - inversion Hv; subst v. rewrite Hbx, Hb. cbn [rbind]. rewrite Hok. cbn [rbind].
    unfold flatten_metric. cbn [m_data map app]. unfold fq_of_metric, fv_hist.
    cbn [m_data m_name m_desc m_unit m_meta app hp_flags hp_attrs hp_start hp_ts hp_ex].
    rewrite flagged_no_value, HR, HS, Hn, Hd, Hu, Hme, Hat, Hc. reflexivity.
  - destruct (hist_len_ok c p); try discriminate. inversion Hv; subst v. rewrite Hb. cbn [rbind].
    rewrite Hok. cbn [rbind]. unfold flatten_metric. cbn [m_data map app]. unfold fq_of_metric, fv_hist.
    cbn [m_data m_name m_desc m_unit m_meta app hp_flags hp_attrs hp_start hp_ts hp_ex hp_count
         hp_sum hp_min hp_max hp_buckets hp_bounds th_count th_sum th_min th_max th_buckets].
    change (flagged 0) with false. cbv iota.
    rewrite (to_u64_i64 _ Hcnt), Hbd, HR, HS, Hn, Hd, Hu, Hme, Hat, Hc. reflexivity.
Qed.

Lemma back_conv_eb : forall b, in_i32 (eb_off b) = true -> back_eb (conv_eb b) = b.
Proof.
  intros [off cs] H. unfold back_eb, conv_eb. cbn [tb_off tb_counts eb_off eb_counts] in *.
  rewrite to_i32_small; [reflexivity|]. unfold in_i32 in H. lia.
Qed.

Lemma view_exp_rec : forall c tm tr ts ta R S n d u meta p,
  c_map_inc c = true -> c_back_ex c = true ->
  stands_for tm tr ts ta R S n d u meta (xp_attrs p) ->
  forallb exemplar_wf (xp_ex p) = true ->
  in_i32 (xp_scale p) = true -> in_i32 (eb_off (xp_pos p)) = true -> in_i32 (eb_off (xp_neg p)) = true ->
  tm_type tm = 3 -> temp_ok (tm_temp tm) = true ->
  view c (mkMRec tm tr ts ta (mkTPoint (xp_start p) (xp_ts p) (conv_expval p) (conv_exemplars c (xp_ex p)))) =
  Ok [mkFQ (canon_res R) (canon_scope S) (mkFQM n d u (canon meta) 3 (Some (tm_temp tm)) None)
           (canon (xp_attrs p)) (xp_start p) (xp_ts p) (fv_exp p) (map canon_ex (xp_ex p))].
Proof.
  intros c tm tr ts ta R S n d u meta p Hinc Hbx Hsf Hex Hsc Hpo Hne Ht Hok. view_start Hsf.
  destruct (back_conv_exemplars c (xp_ex p) Hinc Hex) as [ex' [Hb Hc]].
  rewrite Ht. cbn [N.eqb Pos.eqb rbind]. unfold append_point. cbn [m_data m_name m_desc m_unit m_meta].
  unfold conv_expval, back_exp, fv_exp. cbn [tp_val tp_ex tp_start tp_ts].
  destruct (flagged (xp_flags p)) eqn:Efl.
  - rewrite Hbx, Hb. cbn [rbind]. rewrite Hok. cbn [rbind].
    unfold flatten_metric. cbn [m_data map app]. unfold fq_of_metric, fv_exp.
    cbn [m_data m_name m_desc m_unit m_meta app xp_flags xp_attrs xp_start xp_ts xp_ex].
    rewrite flagged_no_value, HR, HS, Hn, Hd, Hu, Hme, Hat, Hc. reflexivity.
  - rewrite Hb. cbn [rbind]. rewrite Hok. cbn [rbind]. unfold flatten_metric. cbn [m_data map app].
    unfold fq_of_metric, fv_exp.
    cbn [m_data m_name m_desc m_unit m_meta app xp_flags xp_attrs xp_start xp_ts xp_ex xp_count
         xp_sum xp_min xp_max xp_scale xp_zc xp_zt xp_pos xp_neg tx_count tx_sum tx_min tx_max
         tx_scale tx_zc tx_pos tx_neg tx_zt].
    change (flagged 0) with false. cbv iota.
    rewrite (back_conv_eb _ Hpo), (back_conv_eb _ Hne).
    rewrite to_i32_small by (unfold in_i32 in Hsc; lia).
    rewrite HR, HS, Hn, Hd, Hu, Hme, Hat, Hc. reflexivity.
Qed.

Lemma view_summary_rec : forall c tm tr ts ta R S n d u meta p ex,
  c_summary_flag c = true ->
  stands_for tm tr ts ta R S n d u meta (yp_attrs p) ->
  tm_type tm = 4 ->
  view c (mkMRec tm tr ts ta (mkTPoint (yp_start p) (yp_ts p) (conv_sumval c p) ex)) =
  Ok [mkFQ (canon_res R) (canon_scope S) (mkFQM n d u (canon meta) 4 None None)
           (canon (yp_attrs p)) (yp_start p) (yp_ts p) (fv_sum p) []].
Proof.
  intros c tm tr ts ta R S n d u meta p ex Hsf' Hsf Ht. view_start Hsf.
  rewrite Ht. cbn [N.eqb Pos.eqb rbind]. unfold append_point. cbn [m_data m_name m_desc m_unit m_meta].
  unfold conv_sumval, back_summary, fv_sum. cbn [tp_val tp_ex tp_start tp_ts]. rewrite Hsf'. cbn [andb].
  destruct (flagged (yp_flags p)) eqn:Efl; cbn [rbind]; unfold flatten_metric; cbn [m_data map app];
    unfold fq_of_metric, fv_sum;
    cbn [m_data m_name m_desc m_unit m_meta app yp_flags yp_attrs yp_start yp_ts yp_count yp_sum yp_q
         ty_count ty_sum ty_q].
  - rewrite flagged_no_value, HR, HS, Hn, Hd, Hu, Hme, Hat. reflexivity.
  - change (flagged 0) with false. cbv iota. rewrite HR, HS, Hn, Hd, Hu, Hme, Hat. reflexivity.
Qed.

(* ---------------------------------------------------------------- the order-preserving converter *)
Lemma back_conv_res : forall c prev R, c_map_inc c = true -> res_wf R = true ->
  canon_res (back_res (conv_res c prev R)) = canon_res R.
Proof.
  intros c prev [url a d] Hinc Hwf. unfold res_wf in Hwf. cbn [rs_attrs rs_dropped] in Hwf.
  apply andb_true_iff in Hwf. destruct Hwf as [Ha Hd]. apply N.ltb_lt in Hd.
  unfold conv_res, back_res, canon_res. cbn [rs_url rs_attrs rs_dropped tr_url tr_attrs tr_dropped].
  rewrite Hinc, conv_attrs_img, canon_back_img by exact Ha. rewrite to_u32_small by exact Hd. reflexivity.
Qed.
Lemma back_conv_res_sorted : forall c R, c_map_inc c = true -> res_wf R = true ->
  canon_res (back_res (conv_res_sorted c R)) = canon_res R.
Proof.
  intros c [url a d] Hinc Hwf. unfold res_wf in Hwf. cbn [rs_attrs rs_dropped] in Hwf.
  apply andb_true_iff in Hwf. destruct Hwf as [Ha Hd]. apply N.ltb_lt in Hd.
  unfold conv_res_sorted, back_res, canon_res. cbn [rs_url rs_attrs rs_dropped tr_url tr_attrs tr_dropped].
  rewrite Hinc, conv_attrs_sorted_img, canon_back_img_sorted by exact Ha.
  rewrite to_u32_small by exact Hd. reflexivity.
Qed.
Lemma back_conv_scope : forall c prev S, c_map_inc c = true -> scope_wf S = true ->
  canon_scope (back_scope (conv_scope c prev S)) = canon_scope S.
Proof.
  intros c prev [n v url a d] Hinc Hwf. unfold scope_wf in Hwf. cbn [sc_attrs sc_dropped] in Hwf.
  apply andb_true_iff in Hwf. destruct Hwf as [Ha Hd]. apply N.ltb_lt in Hd.
  unfold conv_scope, back_scope, canon_scope.
  cbn [sc_name sc_version sc_url sc_attrs sc_dropped tsc_name tsc_version tsc_url tsc_attrs tsc_dropped].
  rewrite Hinc, conv_attrs_img, canon_back_img by exact Ha. rewrite to_u32_small by exact Hd. reflexivity.
Qed.
Lemma back_conv_scope_sorted : forall c S, c_map_inc c = true -> scope_wf S = true ->
  canon_scope (back_scope (conv_scope_sorted c S)) = canon_scope S.
Proof.
  intros c [n v url a d] Hinc Hwf. unfold scope_wf in Hwf. cbn [sc_attrs sc_dropped] in Hwf.
  apply andb_true_iff in Hwf. destruct Hwf as [Ha Hd]. apply N.ltb_lt in Hd.
  unfold conv_scope_sorted, back_scope, canon_scope.
  cbn [sc_name sc_version sc_url sc_attrs sc_dropped tsc_name tsc_version tsc_url tsc_attrs tsc_dropped].
  rewrite Hinc, conv_attrs_sorted_img, canon_back_img_sorted by exact Ha.
  rewrite to_u32_small by exact Hd. reflexivity.
Qed.

(* fold_emit with an invariant on the carried state *)
Lemma fold_emit_forall2 : forall {S O A Q} (f : S -> A -> res (list O * S))
    (Inv : S -> Prop) (W : A -> Prop) (P : O -> Q -> Prop) (g : A -> list Q),
  (forall s a o s', Inv s -> W a -> f s a = Ok (o, s') -> Forall2 P o (g a) /\ Inv s') ->
  forall l s o s', Inv s -> Forall W l -> fold_emit f s l = Ok (o, s') ->
  Forall2 P o (flat_map g l) /\ Inv s'.
Proof.
  intros S O A Q f Inv W P g Hstep. induction l as [|a r IH]; cbn [fold_emit flat_map]; intros s o s' Hi Hw H.
  - inversion H; subst. split; [constructor|exact Hi].
  - destruct (f s a) as [[o1 s1]| |] eqn:E1; try discriminate.
    destruct (fold_emit f s1 r) as [[o2 s2]| |] eqn:E2; try discriminate.
    inversion H; subst. inversion Hw; subst.
    destruct (Hstep _ _ _ _ Hi H2 E1) as [F1 I1].
    destruct (IH _ _ _ I1 H3 E2) as [F2 I2].
    split; [apply Forall2_app; assumption|exact I2].
Qed.

Lemma flat_map_singleton : forall {A B} (f : A -> B) l, flat_map (fun x => [f x]) l = map f l.
Proof. induction l; cbn; [reflexivity|]. rewrite IHl. reflexivity. Qed.

Definition pview (c : cfg) (r : mrecord) (p : fqpoint) : Prop := view c r = Ok [p].

(* invariant of the writer record while the points of metric m (type ty) under R, S are written *)
Record winv (R : res_id) (S : scope_id) (m : metric) (w : mrecord) : Prop := mkWinv {
  wi_res : canon_res (back_res (r_resource w)) = canon_res R;
  wi_scope : canon_scope (back_scope (r_scope w)) = canon_scope S;
  wi_name : tm_name (r_metric w) = m_name m;
  wi_desc : tm_desc (r_metric w) = m_desc m;
  wi_unit : tm_unit (r_metric w) = m_unit m;
  wi_meta : canon (back_attrs (tm_meta (r_metric w))) = canon (m_meta m) }.

Lemma winv_stands : forall c R S m w pt a, c_map_inc c = true -> attrs_wf a = true -> winv R S m w ->
  stands_for (r_metric (set_point_attrs c w pt a)) (r_resource (set_point_attrs c w pt a))
             (r_scope (set_point_attrs c w pt a)) (r_attrs (set_point_attrs c w pt a))
             R S (m_name m) (m_desc m) (m_unit m) (m_meta m) a.
Proof.
  intros c R S m w pt a Hinc Ha [H1 H2 H3 H4 H5 H6]. unfold set_point_attrs.
  cbn [r_metric r_resource r_scope r_attrs]. constructor; try assumption.
  rewrite Hinc, conv_attrs_img. apply canon_back_img. exact Ha.
Qed.

Lemma record_eta : forall r, r = mkMRec (r_metric r) (r_resource r) (r_scope r) (r_attrs r) (r_point r).
Proof. destruct r; reflexivity. Qed.

Lemma winv_set_temp : forall R S m w t, winv R S m w -> winv R S m (set_temp w t).
Proof. intros R S m w t [H1 H2 H3 H4 H5 H6]. unfold set_temp. constructor; cbn; assumption. Qed.
Lemma winv_set_mono : forall R S m w b, winv R S m w -> winv R S m (set_mono w b).
Proof. intros R S m w b [H1 H2 H3 H4 H5 H6]. unfold set_mono. constructor; cbn; assumption. Qed.

Section UnsortedViews.
  Variable c : cfg.
  Hypothesis Hinc : c_map_inc c = true.
  Hypothesis Hbx : c_back_ex c = true.
  Hypothesis Hsf : c_summary_flag c = true.

  Lemma write_metric_views : forall R S m w o w',
    canon_res (back_res (r_resource w)) = canon_res R ->
    canon_scope (back_scope (r_scope w)) = canon_scope S ->
    metric_wf m = true ->
    write_metric c w m = Ok (o, w') ->
    Forall2 (pview c) o (flatten_metric R S m) /\
    (canon_res (back_res (r_resource w')) = canon_res R /\
     canon_scope (back_scope (r_scope w')) = canon_scope S).
  Proof.
    intros R S m w o w' HR HS Hwf. unfold metric_wf in Hwf. apply andb_true_iff in Hwf.
    destruct Hwf as [Hmeta Hdata].
    assert (Hhdr : forall ty, winv R S m (set_metric_hdr c w m ty)).
    { intro ty. unfold set_metric_hdr. constructor; cbn [r_metric r_resource r_scope tm_name tm_desc tm_unit tm_meta];
        try assumption; try reflexivity. rewrite Hinc, conv_attrs_img. apply canon_back_img. exact Hmeta. }
    assert (Hall : forall {P} (wf : P -> bool) (ps : list P), forallb wf ps = true -> Forall (fun p => wf p = true) ps).
    { intros P wf ps0 Hf. apply Forall_forall. intros x Hin. apply (proj1 (forallb_forall _ _) Hf x Hin). }
    unfold write_metric, flatten_metric.
    destruct (m_data m) as [|ps|t mono ps|t ps|t ps|ps] eqn:Ed; try discriminate; cbn [mdata_wf] in Hdata.
    - (* gauge *)
      intro H. rewrite <- flat_map_singleton.
      match goal with |- Forall2 _ _ (flat_map ?g _) /\ _ => set (G := g) end.
      set (Inv := fun w : mrecord => winv R S m w /\ tm_type (r_metric w) = 0).
      assert (STEP : forall w p o w', Inv w -> numpoint_wf p = true -> write_num c w p = Ok (o, w') ->
                     Forall2 (pview c) o (G p) /\ Inv w').
      { clear H. intros wx p ox wx' Hi Hw Hf. subst G Inv. cbn beta in *.
        destruct Hi as [Hi Hty]. unfold write_num in Hf. inversion Hf; subst ox wx'. clear Hf.
        unfold numpoint_wf in Hw. apply andb_true_iff in Hw. destruct Hw as [Wa Wex].
        split.
        + constructor; [|constructor]. unfold pview.
          pose proof (winv_stands c R S m wx
             (mkTPoint (np_start p) (np_ts p) (conv_numval (np_flags p) (np_val p)) (conv_exemplars c (np_ex p)))
             (np_attrs p) Hinc Wa Hi) as St.
          pose proof (view_num_rec c _ _ _ _ R S _ _ _ _ p None None Hinc Hbx St Wex
                        (or_introl (conj Hty (conj eq_refl eq_refl)))) as V.
          unfold set_point_attrs in V |- *. cbn [r_metric r_resource r_scope r_attrs r_point] in V |- *.
          unfold fq_of_metric. rewrite Ed. rewrite Hty in V. exact V.
        + unfold set_point_attrs. cbn [r_metric r_resource r_scope]. split; [|exact Hty].
          destruct Hi. constructor; assumption.
      }
      destruct (fold_emit_forall2 (write_num c) Inv _ (pview c) G STEP ps _ _ _ (conj (Hhdr 0) eq_refl) (Hall _ numpoint_wf ps Hdata) H)
        as [F I].
      split; [exact F|]. subst Inv. cbn beta in I. split; apply I.
    - (* sum *)
      destruct (temp_ok t) eqn:Etk; try discriminate.
      intro H. rewrite <- flat_map_singleton.
      match goal with |- Forall2 _ _ (flat_map ?g _) /\ _ => set (G := g) end.
      set (Inv := fun w : mrecord => winv R S m w /\ tm_type (r_metric w) = 1 /\ temp_ok (tm_temp (r_metric w)) = true /\ (tm_temp (r_metric w) = t /\ tm_mono (r_metric w) = mono)).
      assert (STEP : forall w p o w', Inv w -> numpoint_wf p = true -> write_num c w p = Ok (o, w') ->
                     Forall2 (pview c) o (G p) /\ Inv w').
      { clear H. intros wx p ox wx' Hi Hw Hf. subst G Inv. cbn beta in *.
        destruct Hi as [Hi [Hty [Htm Hmo]]]. unfold write_num in Hf. inversion Hf; subst ox wx'. clear Hf.
        unfold numpoint_wf in Hw. apply andb_true_iff in Hw. destruct Hw as [Wa Wex].
        split.
        + constructor; [|constructor]. unfold pview.
          pose proof (winv_stands c R S m wx
             (mkTPoint (np_start p) (np_ts p) (conv_numval (np_flags p) (np_val p)) (conv_exemplars c (np_ex p)))
             (np_attrs p) Hinc Wa Hi) as St.
          destruct Hmo as [Hmt Hmm].
          pose proof (view_num_rec c _ _ _ _ R S _ _ _ _ p (Some (tm_temp (r_metric wx))) (Some (tm_mono (r_metric wx)))
                        Hinc Hbx St Wex
                        (or_intror (conj Hty (conj Htm (conj eq_refl eq_refl))))) as V.
          unfold set_point_attrs in V |- *. cbn [r_metric r_resource r_scope r_attrs r_point] in V |- *.
          unfold fq_of_metric. rewrite Ed. rewrite Hty, Hmt, Hmm in V. exact V.
        + unfold set_point_attrs. cbn [r_metric r_resource r_scope]. split; [|auto].
          destruct Hi. constructor; assumption.
      }
      destruct (fold_emit_forall2 (write_num c) Inv _ (pview c) G STEP ps _ _ _ (conj (winv_set_mono _ _ _ _ mono (winv_set_temp _ _ _ _ t (Hhdr 1))) (conj eq_refl (conj Etk (conj eq_refl eq_refl)))) (Hall _ numpoint_wf ps Hdata) H)
        as [F I].
      split; [exact F|]. subst Inv. cbn beta in I. split; apply I.
    - (* histogram *)
      destruct (temp_ok t) eqn:Etk; try discriminate.
      intro H. rewrite <- flat_map_singleton.
      match goal with |- Forall2 _ _ (flat_map ?g _) /\ _ => set (G := g) end.
      set (Inv := fun w : mrecord => winv R S m w /\ tm_type (r_metric w) = 2 /\ tm_temp (r_metric w) = t).
      assert (STEP : forall w p o w', Inv w -> histpoint_wf p = true -> write_hist c w p = Ok (o, w') ->
                     Forall2 (pview c) o (G p) /\ Inv w').
      { clear H. intros wx p ox wx' Hi Hw Hf. subst G Inv. cbn beta in *.
        destruct Hi as [Hi [Hty Htm]]. unfold write_hist in Hf.
        destruct (conv_histval c p) as [v| |] eqn:Ev; try discriminate. inversion Hf; subst ox wx'. clear Hf.
        unfold histpoint_wf in Hw. apply andb_true_iff in Hw. destruct Hw as [Hw Wc].
        apply andb_true_iff in Hw. destruct Hw as [Wa Wex]. apply N.ltb_lt in Wc.
        split.
        + constructor; [|constructor]. unfold pview.
          pose proof (winv_stands c R S m wx
             (mkTPoint (hp_start p) (hp_ts p) v (conv_exemplars c (hp_ex p))) (hp_attrs p) Hinc Wa Hi) as St.
          unfold set_bounds, set_point_attrs in *. cbn [r_metric r_resource r_scope r_attrs r_point] in *.
          assert (St' : stands_for
                    (mkTMetric (tm_name (r_metric wx)) (tm_desc (r_metric wx)) (tm_unit (r_metric wx))
                               (tm_type (r_metric wx)) (tm_meta (r_metric wx)) (hp_bounds p)
                               (tm_temp (r_metric wx)) (tm_mono (r_metric wx)))
                    (r_resource wx) (r_scope wx) (conv_attrs (c_map_inc c) (r_attrs wx) (hp_attrs p))
                    R S (m_name m) (m_desc m) (m_unit m) (m_meta m) (hp_attrs p)).
          { destruct St. constructor; cbn [tm_name tm_desc tm_unit tm_meta]; assumption. }
          assert (Etk' : temp_ok (tm_temp (r_metric wx)) = true) by (rewrite Htm; exact Etk).
          pose proof (view_hist_rec c _ _ _ _ R S (m_name m) (m_desc m) (m_unit m) (m_meta m) p v Hinc Hbx
                        St' Wex Wc Hty Etk' eq_refl Ev) as V.
          cbn [tm_temp] in V. unfold fq_of_metric. rewrite Ed. rewrite <- Htm. exact V.
        + unfold set_bounds, set_point_attrs. cbn [r_metric r_resource r_scope tm_type tm_temp].
          split; [|auto]. destruct Hi.
          constructor; cbn [r_metric r_resource r_scope tm_name tm_desc tm_unit tm_meta]; assumption.
      }
      destruct (fold_emit_forall2 (write_hist c) Inv _ (pview c) G STEP ps _ _ _ (conj (winv_set_temp _ _ _ _ t (Hhdr 2)) (conj eq_refl eq_refl)) (Hall _ histpoint_wf ps Hdata) H)
        as [F I].
      split; [exact F|]. subst Inv. cbn beta in I. split; apply I.
    - (* exponential histogram *)
      destruct (temp_ok t) eqn:Etk; try discriminate.
      intro H. rewrite <- flat_map_singleton.
      match goal with |- Forall2 _ _ (flat_map ?g _) /\ _ => set (G := g) end.
      set (Inv := fun w : mrecord => winv R S m w /\ tm_type (r_metric w) = 3 /\ tm_temp (r_metric w) = t).
      assert (STEP : forall w p o w', Inv w -> exppoint_wf p = true -> write_exp c w p = Ok (o, w') ->
                     Forall2 (pview c) o (G p) /\ Inv w').
      { clear H. intros wx p ox wx' Hi Hw Hf. subst G Inv. cbn beta in *.
        destruct Hi as [Hi [Hty Htm]]. unfold write_exp in Hf. inversion Hf; subst ox wx'. clear Hf.
        unfold exppoint_wf in Hw.
        apply andb_true_iff in Hw; destruct Hw as [Hw Wn]. apply andb_true_iff in Hw; destruct Hw as [Hw Wp].
        apply andb_true_iff in Hw; destruct Hw as [Hw Ws]. apply andb_true_iff in Hw; destruct Hw as [Hw Wex].
        split.
        + constructor; [|constructor]. unfold pview.
          pose proof (winv_stands c R S m wx
             (mkTPoint (xp_start p) (xp_ts p) (conv_expval p) (conv_exemplars c (xp_ex p))) (xp_attrs p) Hinc Hw Hi) as St.
          assert (Etk' : temp_ok (tm_temp (r_metric wx)) = true) by (rewrite Htm; exact Etk).
          pose proof (view_exp_rec c _ _ _ _ R S _ _ _ _ p Hinc Hbx St) as V.
          unfold set_point_attrs in V |- *. cbn [r_metric r_resource r_scope r_attrs r_point] in V |- *.
          unfold fq_of_metric. rewrite Ed. rewrite Htm in V. apply V; assumption.
        + unfold set_point_attrs. cbn [r_metric r_resource r_scope]. split; [|auto].
          destruct Hi. constructor; assumption.
      }
      destruct (fold_emit_forall2 (write_exp c) Inv _ (pview c) G STEP ps _ _ _ (conj (winv_set_temp _ _ _ _ t (Hhdr 3)) (conj eq_refl eq_refl)) (Hall _ exppoint_wf ps Hdata) H)
        as [F I].
      split; [exact F|]. subst Inv. cbn beta in I. split; apply I.
    - (* summary *)
      intro H. rewrite <- flat_map_singleton.
      match goal with |- Forall2 _ _ (flat_map ?g _) /\ _ => set (G := g) end.
      set (Inv := fun w : mrecord => winv R S m w /\ tm_type (r_metric w) = 4).
      assert (STEP : forall w p o w', Inv w -> sumpoint_wf p = true -> write_summary c w p = Ok (o, w') ->
                     Forall2 (pview c) o (G p) /\ Inv w').
      { clear H. intros wx p ox wx' Hi Hw Hf. subst G Inv. cbn beta in *.
        destruct Hi as [Hi Hty]. unfold write_summary in Hf. inversion Hf; subst ox wx'. clear Hf.
        unfold sumpoint_wf in Hw.
        split.
        + constructor; [|constructor]. unfold pview.
          pose proof (winv_stands c R S m wx
             (mkTPoint (yp_start p) (yp_ts p) (conv_sumval c p) (tp_ex (r_point wx))) (yp_attrs p) Hinc Hw Hi) as St.
          pose proof (view_summary_rec c _ _ _ _ R S _ _ _ _ p (tp_ex (r_point wx)) Hsf St Hty) as V.
          unfold set_point_attrs in V |- *. cbn [r_metric r_resource r_scope r_attrs r_point] in V |- *.
          unfold fq_of_metric. rewrite Ed. exact V.
        + unfold set_point_attrs. cbn [r_metric r_resource r_scope]. split; [|exact Hty].
          destruct Hi. constructor; assumption.
      }
      destruct (fold_emit_forall2 (write_summary c) Inv _ (pview c) G STEP ps _ _ _ (conj (Hhdr 4) eq_refl) (Hall _ sumpoint_wf ps Hdata) H)
        as [F I].
      split; [exact F|]. subst Inv. cbn beta in I. split; apply I.
  Qed.
  Lemma write_scope_views : forall R sm w o w',
    canon_res (back_res (r_resource w)) = canon_res R ->
    scope_wf (sm_scope sm) = true -> forallb metric_wf (sm_metrics sm) = true ->
    write_scope c w sm = Ok (o, w') ->
    Forall2 (pview c) o (flatten_scope R sm) /\ canon_res (back_res (r_resource w')) = canon_res R.
  Proof.
    intros R sm w o w' HR Hs Hm H. unfold write_scope in H. unfold flatten_scope.
    destruct (fold_emit_forall2 (write_metric c)
                (fun w => canon_res (back_res (r_resource w)) = canon_res R /\
                          canon_scope (back_scope (r_scope w)) = canon_scope (sm_scope sm))
                (fun m => metric_wf m = true) (pview c) (flatten_metric R (sm_scope sm))
                (fun w m o w' Hi Hw Hf => write_metric_views R (sm_scope sm) m w o w' (proj1 Hi) (proj2 Hi) Hw Hf)
                (sm_metrics sm)
                (mkMRec (r_metric w) (r_resource w) (conv_scope c (r_scope w) (sm_scope sm)) (r_attrs w) (r_point w))
                o w'
                (conj HR (back_conv_scope c (r_scope w) (sm_scope sm) Hinc Hs))
                (proj2 (Forall_forall _ _) (fun m Hin => proj1 (forallb_forall _ _) Hm m Hin)) H) as [F I].
    split; [exact F|apply I].
  Qed.

  Lemma write_res_views : forall rm w o w',
    res_wf (rm_res rm) = true ->
    forallb (fun sm => scope_wf (sm_scope sm) && forallb metric_wf (sm_metrics sm)) (rm_scopes rm) = true ->
    write_res c w rm = Ok (o, w') ->
    Forall2 (pview c) o (flatten_res rm).
  Proof.
    intros rm w o w' Hr Hs H. unfold write_res in H. unfold flatten_res.
    destruct (fold_emit_forall2 (write_scope c)
                (fun w => canon_res (back_res (r_resource w)) = canon_res (rm_res rm))
                (fun sm => scope_wf (sm_scope sm) && forallb metric_wf (sm_metrics sm) = true)
                (pview c) (flatten_scope (rm_res rm))
                (fun w sm o w' Hi Hw Hf =>
                   write_scope_views (rm_res rm) sm w o w' Hi
                     (proj1 (proj1 (andb_true_iff _ _) Hw)) (proj2 (proj1 (andb_true_iff _ _) Hw)) Hf)
                (rm_scopes rm)
                (mkMRec (r_metric w) (conv_res c (r_resource w) (rm_res rm)) (r_scope w) (r_attrs w) (r_point w))
                o w'
                (back_conv_res c (r_resource w) (rm_res rm) Hinc Hr)
                (proj2 (Forall_forall _ _) (fun sm Hin => proj1 (forallb_forall _ _) Hs sm Hin)) H) as [F _].
    exact F.
  Qed.

  (* every record written by the order-preserving converter stands for the data point it was
     written for, whatever the writer record held before *)
  Theorem unsorted_views : forall w b recs, mbatch_wf b = true ->
    to_stef_unsorted_from c w b = Ok recs -> Forall2 (pview c) recs (flatten b).
  Proof.
    intros w b recs Hwf. unfold to_stef_unsorted_from.
    destruct (fold_emit (write_res c) w b) as [[o w']| |] eqn:E; try discriminate.
    intro H. inversion H; subst. unfold flatten, mbatch_wf in *.
    destruct (fold_emit_forall2 (write_res c) (fun _ => True)
                (fun rm => res_wf (rm_res rm) &&
                           forallb (fun sm => scope_wf (sm_scope sm) && forallb metric_wf (sm_metrics sm))
                                   (rm_scopes rm) = true)
                (pview c) flatten_res
                (fun w rm o w' Hi Hw Hf =>
                   conj (write_res_views rm w o w' (proj1 (proj1 (andb_true_iff _ _) Hw))
                           (proj2 (proj1 (andb_true_iff _ _) Hw)) Hf) I)
                b w recs w' I
                (proj2 (Forall_forall _ _) (fun rm Hin => proj1 (forallb_forall _ _) Hwf rm Hin)) E) as [F _].
    exact F.
  Qed.
End UnsortedViews.

Lemma concat_singletons : forall {A} (l : list A), concat (map (fun p => [p]) l) = l.
Proof. induction l; cbn; [reflexivity|]. rewrite IHl. reflexivity. Qed.

Lemma views_of_pviews : forall c l ps,
  Forall2 (pview c) (map snd l) ps -> views c l (map (fun p => [p]) ps).
Proof.
  intros c. induction l as [|fr l IH]; intros ps H; inversion H; subst; cbn [map]; constructor.
  - assumption.
  - apply IH. assumption.
Qed.

Definition flags_ok (l : list (mflags * mrecord)) : Prop :=
  match l with [] => True | (_, r) :: l' => flags_sound r l' end.

(* C17, order-preserving converter and back: the same list of fully qualified data points *)
Theorem unsorted_roundtrip : forall c w b recs l,
  c_map_inc c = true -> c_back_ex c = true -> c_summary_flag c = true ->
  mbatch_wf b = true ->
  to_stef_unsorted_from c w b = Ok recs ->
  map snd l = recs -> flags_ok l ->
  exists b', from_stef_flags c l = Ok b' /\ flatten b' = flatten b.
Proof.
  intros c w b recs l Hinc Hbx Hsf Hwf Hto Hl Hfl.
  pose proof (unsorted_views c Hinc Hbx Hsf w b recs Hwf Hto) as V. rewrite <- Hl in V.
  destruct (from_stef_views c l _ Hfl (views_of_pviews c l _ V)) as [b' [H1 H2]].
  exists b'. split; [exact H1|]. rewrite H2. apply concat_singletons.
Qed.

(* ---------------------------------------------------------------- the sorting converter *)
Lemma mapM_res_forall2 : forall {A B} (f : A -> res B) l r,
  mapM_res f l = Ok r -> Forall2 (fun a x => f a = Ok x) l r.
Proof.
  induction l as [|a l IH]; cbn [mapM_res]; intros r H; [inversion H; constructor|].
  destruct (f a) as [x| |] eqn:E; try discriminate.
  destruct (mapM_res f l) as [xs| |] eqn:E2; try discriminate.
  inversion H; subst. constructor; [exact E|apply IH; reflexivity].
Qed.

Lemma concat_res_mapM_forall2 : forall {A B Q} (f : A -> res (list B)) (P : B -> Q -> Prop)
    (W : A -> Prop) (g : A -> list Q),
  (forall a r, W a -> f a = Ok r -> Forall2 P r (g a)) ->
  forall l r, Forall W l -> concat_res (mapM_res f l) = Ok r -> Forall2 P r (flat_map g l).
Proof.
  intros A B Q f P W g Hstep. induction l as [|a l IH]; cbn [mapM_res flat_map]; intros r Hw H.
  - inversion H. constructor.
  - destruct (f a) as [x| |] eqn:E; try discriminate.
    destruct (mapM_res f l) as [xs| |] eqn:E2; try discriminate.
    cbn in H. inversion H; subst. inversion Hw; subst.
    apply Forall2_app; [apply Hstep; assumption|apply IH; [assumption|reflexivity]].
Qed.

