(* C17, way back: what StefToOtlpUnsorted makes of a record stream is, flattened, the
   concatenation of what it makes of each record alone ([view]) -- for every assignment of
   modified flags that announces every change of resource, scope and metric. *)
From Coq Require Import List NArith ZArith Bool Lia Permutation.
From Stef Require Import OtlpBase OtlpBaseFacts PData Record Image ToStef ToStefFacts FromStef
  FromStefFacts.
Import ListNotations.
Open Scope N_scope.

(* the fully qualified point(s) a single record stands for *)
Definition view (c : cfg) (r : mrecord) : res (list fqpoint) :=
  rbind (back_metric (r_metric r)) (fun m0 =>
  rbind (append_point c (r_metric r) (r_attrs r) (r_point r) m0) (fun m =>
  Ok (flatten_metric (back_res (r_resource r)) (back_scope (r_scope r)) m))).

Definition hdr_ok (tm : t_metric) (m : metric) : Prop :=
  m_name m = tm_name tm /\ m_desc m = tm_desc tm /\ m_unit m = tm_unit tm /\
  m_meta m = back_attrs (tm_meta tm) /\
  match m_data m with
  | MEmpty => False
  | MGauge _ => tm_type tm = 0
  | MSum _ _ _ => tm_type tm = 1
  | MHist _ _ => tm_type tm = 2
  | MExp _ _ => tm_type tm = 3
  | MSummary _ => tm_type tm = 4
  end.
Definition temps_eq (tm : t_metric) (m : metric) : Prop :=
  match m_data m with
  | MSum t mono _ => t = tm_temp tm /\ mono = tm_mono tm
  | MHist t _ | MExp t _ => t = tm_temp tm
  | _ => True
  end.
Definition no_points (m : metric) : Prop := mdata_points (m_data m) = 0%nat.

Lemma back_metric_fresh : forall tm m0, back_metric tm = Ok m0 -> hdr_ok tm m0 /\ no_points m0.
Proof.
  intros tm m0. unfold back_metric.
  destruct (tm_type tm =? 0) eqn:E0; [apply N.eqb_eq in E0|
  destruct (tm_type tm =? 1) eqn:E1; [apply N.eqb_eq in E1|
  destruct (tm_type tm =? 2) eqn:E2; [apply N.eqb_eq in E2|
  destruct (tm_type tm =? 3) eqn:E3; [apply N.eqb_eq in E3|
  destruct (tm_type tm =? 4) eqn:E4; [apply N.eqb_eq in E4|]]]]];
    intro H; inversion H; subst; unfold hdr_ok, no_points; cbn; repeat split; assumption.
Qed.

Lemma length_zero_nil : forall {A} (l : list A), length l = 0%nat -> l = [].
Proof. destruct l; [reflexivity|discriminate]. Qed.

(* appending the record's point to a metric that already stands for the record's metric *)
Lemma append_view : forall c tm tr ts a p m pv,
  hdr_ok tm m -> (no_points m \/ temps_eq tm m) ->
  view c (mkMRec tm tr ts a p) = Ok pv ->
  exists m', append_point c tm a p m = Ok m' /\ hdr_ok tm m' /\ temps_eq tm m' /\
    flatten_metric (back_res tr) (back_scope ts) m' =
    flatten_metric (back_res tr) (back_scope ts) m ++ pv.
Proof.
  intros c tm tr ts a p [n d u me data] pv [Hn [Hd [Hu [Hme Hty]]]] Hpt Hv.
  cbn [m_name m_desc m_unit m_meta m_data] in *. subst n d u me.
  unfold view in Hv. cbn [r_metric r_attrs r_point r_resource r_scope] in Hv.
  unfold back_metric in Hv.
  destruct data as [|ps|t mono ps|t ps|t ps|ps]; [contradiction| | | | |]; rewrite Hty in Hv;
    cbn [rbind] in Hv; unfold append_point in *; cbn [m_data m_name m_desc m_unit m_meta] in *.
  - (* gauge *)
    destruct (back_num c a p) as [q| |]; cbn [rbind] in *; try discriminate.
    inversion Hv; subst. eexists. split; [reflexivity|].
    unfold hdr_ok, temps_eq, flatten_metric; cbn. repeat split; try assumption.
    rewrite map_app. reflexivity.
  - (* sum *)
    destruct (back_num c a p) as [q| |]; cbn [rbind] in *; try discriminate.
    destruct (temp_ok (tm_temp tm)); try discriminate.
    inversion Hv; subst. eexists. split; [reflexivity|].
    unfold hdr_ok, temps_eq, flatten_metric; cbn. repeat split; try assumption.
    rewrite map_app. cbn [map]. f_equal.
    destruct Hpt as [Hnp|[Ht Hm]].
    + unfold no_points in Hnp. cbn in Hnp. apply length_zero_nil in Hnp. subst. reflexivity.
    + subst. reflexivity.
  - (* histogram *)
    destruct (back_hist c tm a p) as [q| |]; cbn [rbind] in *; try discriminate.
    destruct (temp_ok (tm_temp tm)); try discriminate.
    inversion Hv; subst. eexists. split; [reflexivity|].
    unfold hdr_ok, temps_eq, flatten_metric; cbn. repeat split; try assumption.
    rewrite map_app. cbn [map]. f_equal.
    destruct Hpt as [Hnp|Ht].
    + unfold no_points in Hnp. cbn in Hnp. apply length_zero_nil in Hnp. subst. reflexivity.
    + cbn in Ht. subst. reflexivity.
  - (* exponential histogram *)
    destruct (back_exp c a p) as [q| |]; cbn [rbind] in *; try discriminate.
    destruct (temp_ok (tm_temp tm)); try discriminate.
    inversion Hv; subst. eexists. split; [reflexivity|].
    unfold hdr_ok, temps_eq, flatten_metric; cbn. repeat split; try assumption.
    rewrite map_app. cbn [map]. f_equal.
    destruct Hpt as [Hnp|Ht].
    + unfold no_points in Hnp. cbn in Hnp. apply length_zero_nil in Hnp. subst. reflexivity.
    + cbn in Ht. subst. reflexivity.
  - (* summary *)
    destruct (back_summary a p) as [q| |]; cbn [rbind] in *; try discriminate.
    inversion Hv; subst. eexists. split; [reflexivity|].
    unfold hdr_ok, temps_eq, flatten_metric; cbn. repeat split; try assumption.
    rewrite map_app. reflexivity.
Qed.

(* ---------------------------------------------------------------- the batch under construction *)
Definition snoc3 (b0 : mbatch) (R : res_id) (ss0 : list scope_metrics) (S : scope_id)
           (ms0 : list metric) (m : metric) : mbatch :=
  b0 ++ [mkRM R (ss0 ++ [mkSM S (ms0 ++ [m])])].

Lemma flatten_snoc3 : forall b0 R ss0 S ms0 m,
  flatten (snoc3 b0 R ss0 S ms0 m) =
  flatten b0 ++ flat_map (flatten_scope R) ss0 ++ flat_map (flatten_metric R S) ms0 ++
  flatten_metric R S m.
Proof.
  intros. unfold snoc3, flatten. rewrite flat_map_app. f_equal. cbn [flat_map].
  rewrite app_nil_r. unfold flatten_res. cbn [rm_res rm_scopes]. rewrite flat_map_app. f_equal.
  cbn [flat_map]. rewrite app_nil_r.
  change (flatten_scope R (mkSM S (ms0 ++ [m]))) with (flat_map (flatten_metric R S) (ms0 ++ [m])).
  rewrite flat_map_app. cbn [flat_map]. rewrite app_nil_r. reflexivity.
Qed.

Lemma upd_last_snoc : forall {A} (f : A -> A) l x, upd_last f (l ++ [x]) = l ++ [f x].
Proof.
  induction l as [|y r IH]; intro x; [reflexivity|].
  change ((y :: r) ++ [x]) with (y :: (r ++ [x])).
  assert (E : exists a l0, r ++ [x] = a :: l0) by (destruct r; cbn; eauto).
  destruct E as [a [l0 E]]. rewrite E.
  change (upd_last f (y :: a :: l0)) with (y :: upd_last f (a :: l0)).
  rewrite <- E, IH. reflexivity.
Qed.

Lemma upd_last_metric_snoc3 : forall f b0 R ss0 S ms0 m,
  upd_last_metric f (snoc3 b0 R ss0 S ms0 m) =
  rbind (f m) (fun m' => Ok (snoc3 b0 R ss0 S ms0 m')).
Proof.
  intros. unfold upd_last_metric, snoc3. rewrite rev_unit. cbn [rm_scopes rm_res].
  rewrite rev_unit. cbn [sm_metrics sm_scope]. rewrite rev_unit.
  rewrite !rev_involutive. reflexivity.
Qed.

Lemma add_metric_snoc3 : forall m1 b0 R ss0 S ms0 m,
  add_metric m1 (snoc3 b0 R ss0 S ms0 m) = snoc3 b0 R ss0 S (ms0 ++ [m]) m1.
Proof.
  intros. unfold add_metric, snoc3. rewrite upd_last_snoc. cbn [rm_res rm_scopes].
  rewrite upd_last_snoc. reflexivity.
Qed.

Lemma new_scope_metric : forall m1 S1 b1 R ss,
  add_metric m1 (add_scope S1 (b1 ++ [mkRM R ss])) = snoc3 b1 R ss S1 [] m1.
Proof.
  intros. unfold add_scope, add_metric, snoc3. rewrite upd_last_snoc. cbn [rm_res rm_scopes].
  rewrite upd_last_snoc. cbn [rm_res rm_scopes]. rewrite upd_last_snoc. reflexivity.
Qed.

(* ---------------------------------------------------------------- modified flags *)
(* a clear flag means: same value as in the previous record *)
Inductive flags_sound : mrecord -> list (mflags * mrecord) -> Prop :=
| fs_nil : forall prev, flags_sound prev []
| fs_cons : forall prev fl r l,
    (f_metric fl = false -> r_metric r = r_metric prev) ->
    (f_resource fl = false -> r_resource r = r_resource prev) ->
    (f_scope fl = false -> r_scope r = r_scope prev) ->
    flags_sound r l -> flags_sound prev ((fl, r) :: l).

Definition views (c : cfg) (l : list (mflags * mrecord)) (pvs : list (list fqpoint)) : Prop :=
  Forall2 (fun fr pv => view c (snd fr) = Ok pv) l pvs.

Lemma view_metric_ok : forall c r pv, view c r = Ok pv -> exists m0, back_metric (r_metric r) = Ok m0.
Proof.
  intros c r pv H. unfold view in H. destruct (back_metric (r_metric r)) as [m0| |]; try discriminate.
  exists m0. reflexivity.
Qed.

(* starting a new metric for record r in a batch that ends in resource R with scopes ss and
   scope S holding ms: the common tail of the three "new ..." cases *)
Lemma start_metric : forall c r pv b1 R ss S ms,
  R = back_res (r_resource r) -> S = back_scope (r_scope r) ->
  view c r = Ok pv ->
  exists m0 m', back_metric (r_metric r) = Ok m0 /\
    upd_last_metric (append_point c (r_metric r) (r_attrs r) (r_point r)) (snoc3 b1 R ss S ms m0)
      = Ok (snoc3 b1 R ss S ms m') /\
    hdr_ok (r_metric r) m' /\ temps_eq (r_metric r) m' /\
    flatten_metric R S m' = pv.
Proof.
  intros c r pv b1 R ss S ms HR HS Hv.
  destruct (view_metric_ok _ _ _ Hv) as [m0 Hm0].
  destruct (back_metric_fresh _ _ Hm0) as [Hh Hn].
  destruct r as [tm tr ts a p]. cbn [r_metric r_resource r_scope r_attrs r_point] in *.
  destruct (append_view c tm tr ts a p m0 pv Hh (or_introl Hn) Hv) as [m' [Ha [Hh' [Ht' Hf]]]].
  exists m0, m'. split; [exact Hm0|]. rewrite upd_last_metric_snoc3, Ha. cbn [rbind].
  split; [reflexivity|]. split; [exact Hh'|]. split; [exact Ht'|].
  subst R S. rewrite Hf.
  assert (E : flatten_metric (back_res tr) (back_scope ts) m0 = []).
  { unfold no_points in Hn. unfold flatten_metric.
    destruct (m_data m0); cbn in Hn; try reflexivity; apply length_zero_nil in Hn; subst; reflexivity. }
  rewrite E. reflexivity.
Qed.

Lemma back_loop_sound : forall c l prev pvs b0 ss0 ms0 m,
  flags_sound prev l -> views c l pvs ->
  hdr_ok (r_metric prev) m -> temps_eq (r_metric prev) m ->
  exists b', back_loop c false
               (snoc3 b0 (back_res (r_resource prev)) ss0 (back_scope (r_scope prev)) ms0 m) l = Ok b' /\
    flatten b' = flatten (snoc3 b0 (back_res (r_resource prev)) ss0 (back_scope (r_scope prev)) ms0 m)
                 ++ concat pvs.
Proof.
  intros c. induction l as [|[fl r] l IH]; intros prev pvs b0 ss0 ms0 m Hfs Hvs Hh Ht.
  - inversion Hvs; subst. cbn [back_loop concat]. eexists. split; [reflexivity|].
    rewrite app_nil_r. reflexivity.
  - inversion Hfs as [|? ? ? ? HfM HfR HfS Hfs']; subst.
    inversion Hvs as [|? pv ? pvs' Hv Hvs']; subst. cbn [snd] in Hv.
    cbn [back_loop]. unfold back_step. cbn [orb].
    set (R := back_res (r_resource prev)) in *. set (S := back_scope (r_scope prev)) in *.
    destruct (f_resource fl) eqn:ER; cbn [orb].
    + (* new resource, scope, metric *)
      destruct (start_metric c r pv (snoc3 b0 R ss0 S ms0 m) (back_res (r_resource r)) []
                  (back_scope (r_scope r)) [] eq_refl eq_refl Hv) as [m0 [m' [Hm0 [Hu [Hh' [Ht' Hf]]]]]].
      rewrite Hm0. cbn [rbind]. rewrite new_scope_metric. rewrite Hu. cbn [rbind].
      destruct (IH r pvs' (snoc3 b0 R ss0 S ms0 m) [] [] m' Hfs' Hvs' Hh' Ht') as [b' [Hb' Hfl]].
      exists b'. split; [exact Hb'|]. rewrite Hfl. rewrite flatten_snoc3. cbn [flat_map app concat].
      rewrite Hf. rewrite <- !app_assoc. reflexivity.
    + specialize (HfR eq_refl).
      destruct (f_scope fl) eqn:ES; cbn [orb].
      * (* same resource, new scope and metric *)
        destruct (start_metric c r pv b0 R (ss0 ++ [mkSM S (ms0 ++ [m])])
                    (back_scope (r_scope r)) [] (f_equal back_res (eq_sym HfR)) eq_refl Hv)
          as [m0 [m' [Hm0 [Hu [Hh' [Ht' Hf]]]]]].
        rewrite Hm0. cbn [rbind]. unfold snoc3 at 1. rewrite new_scope_metric. rewrite Hu. cbn [rbind].
        assert (ER' : R = back_res (r_resource r)) by (unfold R; rewrite HfR; reflexivity).
        rewrite ER' in *.
        destruct (IH r pvs' b0 (ss0 ++ [mkSM S (ms0 ++ [m])]) [] m' Hfs' Hvs' Hh' Ht') as [b' [Hb' Hfl]].
        exists b'. split; [exact Hb'|]. rewrite Hfl. rewrite !flatten_snoc3. cbn [flat_map app concat].
        rewrite Hf. rewrite flat_map_app. cbn [flat_map]. unfold flatten_scope at 2.
        cbn [sm_scope sm_metrics]. rewrite flat_map_app. cbn [flat_map].
        rewrite !app_nil_r. rewrite <- !app_assoc. reflexivity.
      * specialize (HfS eq_refl).
        assert (ER' : R = back_res (r_resource r)) by (unfold R; rewrite HfR; reflexivity).
        assert (ES' : S = back_scope (r_scope r)) by (unfold S; rewrite HfS; reflexivity).
        destruct (f_metric fl) eqn:EM.
        -- (* same resource and scope, new metric *)
           destruct (start_metric c r pv b0 R ss0 S (ms0 ++ [m]) ER' ES' Hv)
             as [m0 [m' [Hm0 [Hu [Hh' [Ht' Hf]]]]]].
           rewrite Hm0. cbn [rbind]. rewrite add_metric_snoc3. rewrite Hu. cbn [rbind].
           rewrite ER', ES' in *.
           destruct (IH r pvs' b0 ss0 (ms0 ++ [m]) m' Hfs' Hvs' Hh' Ht') as [b' [Hb' Hfl]].
           exists b'. split; [exact Hb'|]. rewrite Hfl. rewrite !flatten_snoc3. cbn [concat].
           rewrite Hf. rewrite flat_map_app. cbn [flat_map]. rewrite !app_nil_r.
           rewrite <- !app_assoc. reflexivity.
        -- (* same resource, scope and metric: the point joins the current metric *)
           specialize (HfM eq_refl). cbn [rbind].
           destruct r as [tm tr ts a p]. cbn [r_metric r_resource r_scope r_attrs r_point] in *.
           rewrite <- HfM in Hh, Ht.
           destruct (append_view c tm tr ts a p m pv Hh (or_intror Ht) Hv) as [m' [Ha [Hh' [Ht' Hf]]]].
           rewrite upd_last_metric_snoc3, Ha. cbn [rbind].
           rewrite ER', ES' in *.
           destruct (IH (mkMRec tm tr ts a p) pvs' b0 ss0 ms0 m' Hfs' Hvs' Hh' Ht') as [b' [Hb' Hfl]].
           cbn [r_resource r_scope] in Hb', Hfl.
           exists b'. split; [exact Hb'|]. rewrite Hfl. rewrite !flatten_snoc3. cbn [concat].
           rewrite Hf. rewrite <- !app_assoc. reflexivity.
Qed.

(* StefToOtlpUnsorted on any stream with sound flags: the flattened result is the views, in order *)
Theorem from_stef_views : forall c l pvs,
  match l with [] => True | (_, r) :: l' => flags_sound r l' end ->
  views c l pvs ->
  exists b', from_stef_flags c l = Ok b' /\ flatten b' = concat pvs.
Proof.
  intros c l pvs Hfs Hvs. unfold from_stef_flags. destruct l as [|[fl r] l].
  - inversion Hvs; subst. exists []. split; reflexivity.
  - inversion Hvs as [|? pv ? pvs' Hv Hvs']; subst. cbn [snd] in Hv.
    cbn [back_loop]. unfold back_step. cbn [orb app].
    destruct (start_metric c r pv [] (back_res (r_resource r)) [] (back_scope (r_scope r)) []
                eq_refl eq_refl Hv) as [m0 [m' [Hm0 [Hu [Hh' [Ht' Hf]]]]]].
    rewrite Hm0. cbn [rbind].
    change [mkRM (back_res (r_resource r)) []] with ([] ++ [mkRM (back_res (r_resource r)) []]).
    rewrite new_scope_metric. rewrite Hu. cbn [rbind].
    destruct (back_loop_sound c l r pvs' [] [] [] m' Hfs Hvs' Hh' Ht') as [b' [Hb' Hfl]].
    exists b'. split; [exact Hb'|]. rewrite Hfl, flatten_snoc3. cbn [flat_map app concat flatten].
    rewrite Hf. reflexivity.
Qed.
