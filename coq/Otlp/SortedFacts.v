(* The grouping trees of the sorting converters only rearrange: for comparison functions
   whose result Eq implies equality of the keys, the records written by the sorting
   converter are a permutation of the records of the individual points. *)
From Coq Require Import List NArith ZArith Bool Lia Permutation.
From Stef Require Import OtlpBase OtlpBaseFacts PData Record Image ToStef ToStefFacts.
Import ListNotations.
Open Scope N_scope.

Definition rec_of_item (it : item) : mrecord :=
  mkMRec (it_metric it) (it_resource it) (it_scope it) (it_attrs it) (it_point it).

Section SortedPerm.
  Variable cmpM : t_metric -> t_metric -> comparison.
  Variable cmpR : t_resource -> t_resource -> comparison.
  Variable cmpS : t_scope -> t_scope -> comparison.
  Variable cmpA : tattrs -> tattrs -> comparison.
  Hypothesis cmpM_sound : forall a b, cmpM a b = Eq -> a = b.
  Hypothesis cmpR_sound : forall a b, cmpR a b = Eq -> a = b.
  Hypothesis cmpS_sound : forall a b, cmpS a b = Eq -> a = b.
  Hypothesis cmpA_sound : forall a b, cmpA a b = Eq -> a = b.

  Definition recsA (m : t_metric) (r : t_resource) (s : t_scope) (a : tattrs) (pts : list t_point) :=
    map (fun p => mkMRec m r s a p) (sort_by point_leb pts).
  Definition recsS (m : t_metric) (r : t_resource) (s : t_scope) (lv : leaves) :=
    flat_map (fun kv => recsA m r s (fst kv) (snd kv)) lv.
  Definition recsR (m : t_metric) (r : t_resource) (bs : by_scope) :=
    flat_map (fun kv => recsS m r (fst kv) (snd kv)) bs.
  Definition recsM (m : t_metric) (br : by_res) :=
    flat_map (fun kv => recsR m (fst kv) (snd kv)) br.
  Definition recsT (t : mtree) := flat_map (fun kv => recsM (fst kv) (snd kv)) t.

  Lemma tree_records_recsT : forall t, tree_records t = recsT t.
  Proof.
    intro t. unfold tree_records, recsT.
    apply flat_map_ext. intros [m br]. unfold recsM. apply flat_map_ext. intros [r bs].
    unfold recsR. apply flat_map_ext. intros [s lv]. unfold recsS. apply flat_map_ext.
    intros [a pts]. reflexivity.
  Qed.

  Lemma recsA_snoc : forall m r s a pts p,
    Permutation (recsA m r s a (pts ++ [p])) (recsA m r s a pts ++ [mkMRec m r s a p]).
  Proof.
    intros. unfold recsA.
    eapply perm_trans; [apply Permutation_map; apply sort_by_perm|].
    rewrite map_app. cbn [map]. apply Permutation_app_tail. apply Permutation_map.
    apply Permutation_sym. apply sort_by_perm.
  Qed.

  Lemma tree_insert_perm : forall t it,
    Permutation (recsT (tree_insert cmpM cmpR cmpS cmpA t it)) (recsT t ++ [rec_of_item it]).
  Proof.
    intros t it. unfold recsT, tree_insert. destruct it as [m r s a p]. cbn [it_metric it_resource it_scope it_attrs it_point].
    unfold rec_of_item. cbn [it_metric it_resource it_scope it_attrs it_point].
    assert (LA : forall lv, Permutation
              (recsS m r s (ainsert cmpA a (fun o => oget o ++ [p]) lv))
              (recsS m r s lv ++ [mkMRec m r s a p])).
    { intro lv. unfold recsS. apply (ainsert_content cmpA cmpA_sound (recsA m r s)).
      - cbn. apply Permutation_refl.
      - intro v. cbn [oget]. apply recsA_snoc. }
    assert (LS : forall bs, Permutation
              (recsR m r (ainsert cmpS s (fun o => ainsert cmpA a (fun o => oget o ++ [p]) (oget o)) bs))
              (recsR m r bs ++ [mkMRec m r s a p])).
    { intro bs. unfold recsR. apply (ainsert_content cmpS cmpS_sound (recsS m r)).
      - cbn [oget]. apply (LA []).
      - intro v. cbn [oget]. apply LA. }
    assert (LR : forall br, Permutation
              (recsM m (ainsert cmpR r (fun o => ainsert cmpS s (fun o => ainsert cmpA a (fun o => oget o ++ [p]) (oget o)) (oget o)) br))
              (recsM m br ++ [mkMRec m r s a p])).
    { intro br. unfold recsM. apply (ainsert_content cmpR cmpR_sound (recsR m)).
      - cbn [oget]. apply (LS []).
      - intro v. cbn [oget]. apply LS. }
    apply (ainsert_content cmpM cmpM_sound recsM).
    - cbn [oget]. apply (LR []).
    - intro v. cbn [oget]. apply LR.
  Qed.

  Lemma fold_tree_insert_perm : forall its t,
    Permutation (recsT (fold_left (tree_insert cmpM cmpR cmpS cmpA) its t))
                (recsT t ++ map rec_of_item its).
  Proof.
    induction its as [|it r IH]; intro t; cbn [fold_left map].
    - rewrite app_nil_r. apply Permutation_refl.
    - eapply perm_trans; [apply IH|].
      eapply perm_trans; [apply Permutation_app_tail; apply tree_insert_perm|].
      rewrite <- app_assoc. apply Permutation_refl.
  Qed.

  (* the records of the sorting converter are the records of the points, rearranged *)
  Theorem sorted_records_perm : forall c b recs,
    to_stef_sorted_gen cmpM cmpR cmpS cmpA c b = Ok recs ->
    exists its, items_of c b = Ok its /\ Permutation recs (map rec_of_item its).
  Proof.
    intros c b recs. unfold to_stef_sorted_gen.
    destruct (items_of c b) as [its| |]; try discriminate. intro H. inversion H; subst.
    exists its. split; [reflexivity|]. rewrite tree_records_recsT.
    apply (fold_tree_insert_perm its []).
  Qed.

  Theorem sorted_count : forall c b recs, c_keep_empty c = true ->
    to_stef_sorted_gen cmpM cmpR cmpS cmpA c b = Ok recs -> length recs = datapoint_count b.
  Proof.
    intros c b recs Hk H. destruct (sorted_records_perm _ _ _ H) as [its [Hi Hp]].
    rewrite (Permutation_length Hp), map_length. eapply items_of_length; eassumption.
  Qed.
End SortedPerm.
