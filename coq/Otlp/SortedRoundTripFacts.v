(* C17, sorting converter and back: a permutation of the fully qualified data points, for any
   comparison functions whose Eq implies equality of the keys. *)
From Coq Require Import List NArith ZArith Bool Lia Permutation.
From Stef Require Import OtlpBase OtlpBaseFacts PData Record Image ToStef ToStefFacts FromStef
  FromStefFacts RoundTripFacts SortedFacts.
Import ListNotations.
Open Scope N_scope.

Lemma Forall2_perm_l : forall {A B} (P : A -> B -> Prop) l1 l1' l2,
  Permutation l1 l1' -> Forall2 P l1 l2 -> exists l2', Forall2 P l1' l2' /\ Permutation l2 l2'.
Proof.
  intros A B P l1 l1' l2 Hp. revert l2. induction Hp; intros l2 H.
  - inversion H; subst. exists []. split; constructor.
  - inversion H as [|? y ? l2t Hxy Ht]; subst. destruct (IHHp _ Ht) as [l2' [F Pm]].
    exists (y :: l2'). split; [constructor; assumption|apply perm_skip; exact Pm].
  - inversion H as [|? b1 ? l2t H1 Ht]; subst. inversion Ht as [|? b2 ? l2u H2 Hu]; subst.
    exists (b2 :: b1 :: l2u). split; [constructor; [|constructor]; assumption|apply perm_swap].
  - destruct (IHHp1 _ H) as [l2a [Fa Pa]]. destruct (IHHp2 _ Fa) as [l2b [Fb Pb]].
    exists l2b. split; [exact Fb|eapply perm_trans; eassumption].
Qed.

Section SortedViews.
  Variable c : cfg.
  Hypothesis Hinc : c_map_inc c = true.
  Hypothesis Hbx : c_back_ex c = true.
  Hypothesis Hsf : c_summary_flag c = true.
  Hypothesis Hke : c_keep_empty c = true.

  Definition ipview (it : item) (p : fqpoint) : Prop := pview c (rec_of_item it) p.

  Lemma sorted_stands : forall R S m ty bounds t mono a,
    res_wf R = true -> scope_wf S = true -> attrs_wf (m_meta m) = true -> attrs_wf a = true ->
    stands_for (sorted_metric c m ty bounds t mono) (conv_res_sorted c R) (conv_scope_sorted c S)
               (conv_attrs_sorted (c_map_inc c) [] a)
               R S (m_name m) (m_desc m) (m_unit m) (m_meta m) a.
  Proof.
    intros R S m ty bounds t mono a HR HS Hm Ha. unfold sorted_metric. constructor;
      cbn [tm_name tm_desc tm_unit tm_meta]; try reflexivity.
    - apply back_conv_res_sorted; assumption.
    - apply back_conv_scope_sorted; assumption.
    - rewrite Hinc, conv_attrs_sorted_img. apply canon_back_img_sorted. exact Hm.
    - rewrite Hinc, conv_attrs_sorted_img. apply canon_back_img_sorted. exact Ha.
  Qed.

  Lemma items_num_views : forall R S m ty t mono ft fm ps,
    res_wf R = true -> scope_wf S = true -> attrs_wf (m_meta m) = true ->
    forallb numpoint_wf ps = true ->
    ((ty = 0 /\ ft = None /\ fm = None) \/
     (ty = 1 /\ temp_ok t = true /\ ft = Some t /\ fm = Some mono)) ->
    Forall2 ipview
      (items_num c (sorted_metric c m ty [] t mono) (conv_res_sorted c R) (conv_scope_sorted c S) ps)
      (map (fun p => mkFQ (canon_res R) (canon_scope S)
                          (mkFQM (m_name m) (m_desc m) (m_unit m) (canon (m_meta m)) ty ft fm)
                          (canon (np_attrs p)) (np_start p) (np_ts p) (fv_num p)
                          (map canon_ex (np_ex p))) ps).
  Proof.
    intros R S m ty t mono ft fm ps HR HS Hm Hps Hty. unfold items_num. rewrite Hke.
    induction ps as [|p r IH]; cbn [flat_map map]; [constructor|].
    cbn [forallb] in Hps. apply andb_true_iff in Hps. destruct Hps as [Hp Hr].
    unfold numpoint_wf in Hp. apply andb_true_iff in Hp. destruct Hp as [Wa Wex].
    assert (V : ipview (mkItem (sorted_metric c m ty [] t mono) (conv_res_sorted c R) (conv_scope_sorted c S)
                   (conv_attrs_sorted (c_map_inc c) [] (np_attrs p))
                   (mkTPoint (np_start p) (np_ts p) (conv_numval (np_flags p) (np_val p))
                             (conv_exemplars c (np_ex p))))
                 (mkFQ (canon_res R) (canon_scope S)
                       (mkFQM (m_name m) (m_desc m) (m_unit m) (canon (m_meta m)) ty ft fm)
                       (canon (np_attrs p)) (np_start p) (np_ts p) (fv_num p) (map canon_ex (np_ex p)))).
    { unfold ipview, pview, rec_of_item. cbn [it_metric it_resource it_scope it_attrs it_point].
      pose proof (view_num_rec c _ _ _ _ R S _ _ _ _ p ft fm Hinc Hbx
                    (sorted_stands R S m ty [] t mono (np_attrs p) HR HS Hm Wa) Wex) as V.
      unfold sorted_metric in V |- *. cbn [tm_type tm_temp tm_mono] in V. apply V.
      destruct Hty as [[? [? ?]]|[? [? [? ?]]]]; [left|right]; auto. }
    destruct (np_val p); cbn [app]; (constructor; [exact V|apply IH; exact Hr]).
  Qed.

  Lemma items_metric_views : forall R S m its,
    res_wf R = true -> scope_wf S = true -> metric_wf m = true ->
    items_metric c (conv_res_sorted c R) (conv_scope_sorted c S) m = Ok its ->
    Forall2 ipview its (flatten_metric R S m).
  Proof.
    intros R S m its HR HS Hwf. unfold metric_wf in Hwf. apply andb_true_iff in Hwf.
    destruct Hwf as [Hm Hdata]. unfold items_metric, flatten_metric, fq_of_metric.
    destruct (m_data m) as [|ps|t mono ps|t ps|t ps|ps] eqn:Ed; try discriminate; cbn [mdata_wf] in Hdata.
    - intro H. inversion H; subst. apply (items_num_views R S m 0 0 false None None ps HR HS Hm Hdata). auto.
    - destruct (temp_ok t) eqn:Etk; try discriminate. intro H. inversion H; subst.
      apply (items_num_views R S m 1 t mono (Some t) (Some mono) ps HR HS Hm Hdata). right. auto.
    - destruct (temp_ok t) eqn:Etk; try discriminate. intro H.
      apply mapM_res_forall2 in H. clear Ed. revert Hdata. induction H as [|p it ps its' Hp Hr IH]; intro Hdata; [constructor|].
      cbn [forallb] in Hdata. apply andb_true_iff in Hdata. destruct Hdata as [Wp Wr].
      cbn [map]. constructor; [|apply IH; exact Wr].
      destruct (conv_histval c p) as [v| |] eqn:Ev; try discriminate. inversion Hp; subst it.
      unfold histpoint_wf in Wp. apply andb_true_iff in Wp. destruct Wp as [Wp Wc].
      apply andb_true_iff in Wp. destruct Wp as [Wa Wex]. apply N.ltb_lt in Wc.
      unfold ipview, pview, rec_of_item. cbn [it_metric it_resource it_scope it_attrs it_point].
      pose proof (view_hist_rec c _ _ _ _ R S _ _ _ _ p v Hinc Hbx
                    (sorted_stands R S m 2 (hp_bounds p) t false (hp_attrs p) HR HS Hm Wa) Wex Wc) as V.
      unfold sorted_metric in V |- *. cbn [tm_type tm_temp tm_bounds] in V. apply V; auto.
    - destruct (temp_ok t) eqn:Etk; try discriminate. intro H. inversion H; subst. clear H Ed.
      induction ps as [|p r IH]; cbn [map]; [constructor|].
      cbn [forallb] in Hdata. apply andb_true_iff in Hdata. destruct Hdata as [Wp Wr].
      constructor; [|apply IH; exact Wr].
      unfold exppoint_wf in Wp.
      apply andb_true_iff in Wp; destruct Wp as [Wp Wn]. apply andb_true_iff in Wp; destruct Wp as [Wp Wpo].
      apply andb_true_iff in Wp; destruct Wp as [Wp Ws]. apply andb_true_iff in Wp; destruct Wp as [Wa Wex].
      unfold ipview, pview, rec_of_item. cbn [it_metric it_resource it_scope it_attrs it_point].
      pose proof (view_exp_rec c _ _ _ _ R S _ _ _ _ p Hinc Hbx
                    (sorted_stands R S m 3 [] t false (xp_attrs p) HR HS Hm Wa) Wex Ws Wpo Wn) as V.
      unfold sorted_metric in V |- *. cbn [tm_type tm_temp] in V. apply V; auto.
    - intro H. inversion H; subst. clear H Ed.
      induction ps as [|p r IH]; cbn [map]; [constructor|].
      cbn [forallb] in Hdata. apply andb_true_iff in Hdata. destruct Hdata as [Wp Wr].
      constructor; [|apply IH; exact Wr].
      unfold sumpoint_wf in Wp.
      unfold ipview, pview, rec_of_item. cbn [it_metric it_resource it_scope it_attrs it_point].
      pose proof (view_summary_rec c _ _ _ _ R S _ _ _ _ p [] Hsf
                    (sorted_stands R S m 4 [] 0 false (yp_attrs p) HR HS Hm Wp)) as V.
      unfold sorted_metric in V |- *. cbn [tm_type] in V. apply V. reflexivity.
  Qed.

  Lemma all_wf : forall {A} (wf : A -> bool) l, forallb wf l = true -> Forall (fun a => wf a = true) l.
  Proof. intros A wf l H. apply Forall_forall. intros x Hin. apply (proj1 (forallb_forall _ _) H x Hin). Qed.

  Theorem items_views : forall b its, mbatch_wf b = true -> items_of c b = Ok its ->
    Forall2 ipview its (flatten b).
  Proof.
    intros b its Hwf. unfold items_of, flatten, mbatch_wf in *.
    apply (concat_res_mapM_forall2 _ ipview
             (fun rm => res_wf (rm_res rm) &&
                        forallb (fun sm => scope_wf (sm_scope sm) && forallb metric_wf (sm_metrics sm))
                                (rm_scopes rm) = true) flatten_res); [|apply all_wf; exact Hwf].
    intros rm r Hw. apply andb_true_iff in Hw. destruct Hw as [HR Hss]. unfold flatten_res.
    apply (concat_res_mapM_forall2 _ ipview
             (fun sm => scope_wf (sm_scope sm) && forallb metric_wf (sm_metrics sm) = true)
             (flatten_scope (rm_res rm))); [|apply all_wf; exact Hss].
    intros sm r' Hw. apply andb_true_iff in Hw. destruct Hw as [HS Hms]. unfold flatten_scope.
    apply (concat_res_mapM_forall2 _ ipview (fun m => metric_wf m = true)
             (flatten_metric (rm_res rm) (sm_scope sm))); [|apply all_wf; exact Hms].
    intros m r'' Hm. apply items_metric_views; assumption.
  Qed.
End SortedViews.

Lemma Forall2_map_l : forall {A B C} (f : A -> B) (P : B -> C -> Prop) l l',
  Forall2 (fun a c => P (f a) c) l l' -> Forall2 P (map f l) l'.
Proof. intros A B C f P l l' H. induction H; cbn; constructor; assumption. Qed.

(* C17, sorting converter and back: a permutation of the fully qualified data points *)
Theorem sorted_roundtrip : forall cmpM cmpR cmpS cmpA,
  (forall a b, cmpM a b = Eq -> a = b) -> (forall a b, cmpR a b = Eq -> a = b) ->
  (forall a b, cmpS a b = Eq -> a = b) -> (forall a b, cmpA a b = Eq -> a = b) ->
  forall c b recs l,
  c_map_inc c = true -> c_back_ex c = true -> c_summary_flag c = true -> c_keep_empty c = true ->
  mbatch_wf b = true ->
  to_stef_sorted_gen cmpM cmpR cmpS cmpA c b = Ok recs ->
  map snd l = recs -> flags_ok l ->
  exists b', from_stef_flags c l = Ok b' /\ Permutation (flatten b') (flatten b).
Proof.
  intros cmpM cmpR cmpS cmpA HM HR HS HA c b recs l Hinc Hbx Hsf Hke Hwf Hto Hl Hfl.
  destruct (sorted_records_perm cmpM cmpR cmpS cmpA HM HR HS HA c b recs Hto) as [its [Hi Hp]].
  pose proof (items_views c Hinc Hbx Hsf Hke b its Hwf Hi) as V.
  assert (V' : Forall2 (pview c) (map rec_of_item its) (flatten b)).
  { apply Forall2_map_l. exact V. }
  destruct (Forall2_perm_l (pview c) _ _ _ (Permutation_sym Hp) V') as [ps [F Pm]].
  rewrite <- Hl in F.
  destruct (from_stef_views c l _ Hfl (views_of_pviews c l _ F)) as [b' [H1 H2]].
  exists b'. split; [exact H1|]. rewrite H2, concat_singletons. apply Permutation_sym. exact Pm.
Qed.
