(* OTLP metrics -> STEF records.
   go/pdata/internal/otlptools/otlpval2tef.go (attribute conversion, Resource/Scope),
   go/pdata/metrics/otlp2stef_unsorted.go (order-preserving converter, writer.Record carried
   over between data points), go/pdata/metrics/internal/baseotlptostef.go (points, exemplars),
   go/pdata/metrics/sortedbymetric/{converter,sortedmetrics}.go (sorting converter).
   Variants of the code are selected by [cfg]; [cfg_pinned] is the code at the pinned commit,
   the check script selects the variant of the current tree by reading the sources.
   No proofs in this file. *)
From Coq Require Import List NArith ZArith Bool.
From Stef Require Import OtlpBase PData Record.
Import ListNotations.
Open Scope N_scope.

Record cfg := mkCfg {
  c_map_inc : bool;      (* otlpValueToTefAnyValue, Map case: the slot index advances (D11 repaired) *)
  c_keep_empty : bool;   (* sorting converter writes number points of empty value type (D17 repaired) *)
  c_summary_flag : bool; (* ConvertSummary honours the NoRecordedValue flag (D12 repaired) *)
  c_back_ex : bool;      (* the way back restores exemplars of no-recorded-value points (D12 repaired) *)
  c_cmp_total : bool;    (* otlptools.CmpVal compares double, bytes and map values (D18 repaired) *)
  c_cmp_dropped : bool;  (* CmpResourceSpans / CmpScopeSpans compare DroppedAttributesCount (D19 repaired) *)
  c_empty_hist : bool    (* ConvertHistogram accepts a histogram point without buckets and bounds *)
}.
Definition cfg_pinned : cfg := mkCfg false false false false false false false.
Definition cfg_repaired : cfg := mkCfg true true true true true true true.

(* ---------------------------------------------------------------- attribute values *)
(* KeyValueList.EnsureLen(n) at the level of values: the first min(old,n) elements are kept,
   elements beyond the old length are reset (value None; the key of a slot never used before
   is empty -- a key left in spare capacity by an earlier, longer list is not modelled) *)
Fixpoint ensure_kv (n : nat) (p : list (str * tval)) : list (str * tval) :=
  match n with
  | O => []
  | S n' =>
    match p with
    | [] => ([], TNone) :: ensure_kv n' []
    | e :: p' => e :: ensure_kv n' p'
    end
  end.

(* otlpValueToTefAnyValue (otlpval2tef.go:106-149).  [prev] is the value the destination
   slot holds before the call.  With [inc = false] the Map case is as coded at the pinned
   commit: `i` is never incremented, every entry is written to slot 0 one after the other
   and the slots 1.. keep what EnsureLen left there. *)
Fixpoint conv_val (inc : bool) (prev : tval) (v : oval) {struct v} : tval :=
  match v with
  | OEmpty => TNone
  | OStr s => TStr s
  | OBool b => TBool b
  | OInt z => TInt z
  | ODouble f => TF64 f
  | OBytes s => TBytes s
  | OSlice l =>
    TArr ((fix go (l : list oval) (p : list tval) {struct l} : list tval :=
             match l with
             | [] => []
             | x :: r => conv_val inc (hd TNone p) x :: go r (tl p)
             end) l (match prev with TArr p => p | _ => [] end))
  | OMap kvs =>
    let p := match prev with TKV p => p | _ => [] end in
    if inc then
      TKV ((fix go (l : list (str * oval)) (p : list (str * tval)) {struct l}
              : list (str * tval) :=
              match l with
              | [] => []
              | (k, x) :: r => (k, conv_val inc (snd (hd ([], TNone) p)) x) :: go r (tl p)
              end) kvs p)
    else
      match ensure_kv (length kvs) p with
      | [] => TKV []
      | e0 :: rest =>
        TKV ((fix go (l : list (str * oval)) (e : str * tval) {struct l} : str * tval :=
                match l with
                | [] => e
                | (k, x) :: r => go r (k, conv_val inc (snd e) x)
                end) kvs e0 :: rest)
      end
  end.

(* Otlp2Stef.MapUnsorted (otlpval2tef.go:92-104): out.EnsureLen, then slot i <- entry i *)
Fixpoint conv_attrs (inc : bool) (prev : tattrs) (l : oattrs) : tattrs :=
  match l with
  | [] => []
  | (k, x) :: r => (k, conv_val inc (snd (hd ([], TNone) prev)) x) :: conv_attrs inc (tl prev) r
  end.
(* Otlp2Stef.MapSorted (otlpval2tef.go:67-90): entries sorted by key first *)
Definition conv_attrs_sorted (inc : bool) (prev : tattrs) (l : oattrs) : tattrs :=
  conv_attrs inc prev (sort_kv l).

(* ResourceUnsorted / ScopeUnsorted (otlpval2tef.go:45-49, 59-65) *)
Definition conv_res (c : cfg) (prev : t_resource) (r : res_id) : t_resource :=
  mkTRes (rs_url r) (conv_attrs (c_map_inc c) (tr_attrs prev) (rs_attrs r)) (rs_dropped r).
Definition conv_scope (c : cfg) (prev : t_scope) (s : scope_id) : t_scope :=
  mkTScope (sc_name s) (sc_version s) (sc_url s)
           (conv_attrs (c_map_inc c) (tsc_attrs prev) (sc_attrs s)) (sc_dropped s).
(* ResourceSorted / ScopeSorted into a fresh struct *)
Definition conv_res_sorted (c : cfg) (r : res_id) : t_resource :=
  mkTRes (rs_url r) (conv_attrs_sorted (c_map_inc c) [] (rs_attrs r)) (rs_dropped r).
Definition conv_scope_sorted (c : cfg) (s : scope_id) : t_scope :=
  mkTScope (sc_name s) (sc_version s) (sc_url s)
           (conv_attrs_sorted (c_map_inc c) [] (sc_attrs s)) (sc_dropped s).

(* ---------------------------------------------------------------- points *)
Definition conv_exval (v : numval) : t_exval :=
  match v with NVEmpty => TEVNone | NVInt z => TEVInt z | NVDouble f => TEVF64 f end.

(* BaseOtlpToStef.ConvertExemplars (baseotlptostef.go:52-83): every field of every element
   is set; the filtered attributes go through MapSorted into the scratch TempAttrs and are
   copied from there (scratch taken as fresh) *)
Definition conv_exemplar (c : cfg) (e : exemplar) : t_exemplar :=
  mkTEx (ex_ts e) (conv_exval (ex_val e)) (ex_span e) (ex_trace e)
        (conv_attrs_sorted (c_map_inc c) [] (ex_attrs e)).
Definition conv_exemplars (c : cfg) (l : list exemplar) : list t_exemplar :=
  map (conv_exemplar c) l.

(* ConvertNumDatapoint (baseotlptostef.go:32-50), value part *)
Definition conv_numval (flags : N) (v : numval) : t_pval :=
  if flagged flags then PVNone else
  match v with NVEmpty => PVNone | NVInt z => PVInt z | NVDouble f => PVF64 f end.

(* ConvertHistogram (baseotlptostef.go:85-128), value part; Err = "invalid histogram" *)
Definition hist_len_ok (c : cfg) (p : histpoint) : bool :=
  Nat.eqb (length (hp_buckets p)) (S (length (hp_bounds p))) ||
  (c_empty_hist c && Nat.eqb (length (hp_buckets p)) 0 && Nat.eqb (length (hp_bounds p)) 0).
Definition conv_histval (c : cfg) (p : histpoint) : res t_pval :=
  if flagged (hp_flags p) then Ok PVNone else
  if hist_len_ok c p then
    Ok (PVHist (mkTHist (to_i64 (hp_count p)) (hp_sum p) (hp_min p) (hp_max p) (hp_buckets p)))
  else Err.

(* ConvertExpHistogram (baseotlptostef.go:130-169), value part *)
Definition conv_eb (b : ebuckets) : t_ebuckets := mkTEB (eb_off b) (eb_counts b).
Definition conv_expval (p : exppoint) : t_pval :=
  if flagged (xp_flags p) then PVNone else
  PVExp (mkTExp (xp_count p) (xp_sum p) (xp_min p) (xp_max p) (xp_scale p) (xp_zc p)
                (conv_eb (xp_pos p)) (conv_eb (xp_neg p)) (xp_zt p)).

(* ConvertSummary (baseotlptostef.go:171-191), value part: the flag is not looked at in the
   pinned code *)
Definition conv_sumval (c : cfg) (p : sumpoint) : t_pval :=
  if c_summary_flag c && flagged (yp_flags p) then PVNone else
  PVSummary (mkTSummary (yp_count p) (yp_sum p) (yp_q p)).

Definition temp_ok (t : N) : bool := t <=? 2.   (* AggregationTemporalityToStef *)

(* ---------------------------------------------------------------- order-preserving converter *)
(* state threading: f consumes one element, may emit records, returns the next state *)
Section Emit.
  Context {S O A : Type}.
  Fixpoint fold_emit (f : S -> A -> res (list O * S)) (s : S) (l : list A) : res (list O * S) :=
    match l with
    | [] => Ok ([], s)
    | a :: r =>
      match f s a with
      | Ok (o1, s1) =>
        match fold_emit f s1 r with
        | Ok (o2, s2) => Ok (o1 ++ o2, s2)
        | Err => Err
        | Panic => Panic
        end
      | Err => Err
      | Panic => Panic
      end
    end.
End Emit.

Definition set_point_attrs (c : cfg) (w : mrecord) (pt : t_point) (a : oattrs) : mrecord :=
  mkMRec (r_metric w) (r_resource w) (r_scope w)
         (conv_attrs (c_map_inc c) (r_attrs w) a) pt.
Definition set_bounds (w : mrecord) (b : list N) : mrecord :=
  let m := r_metric w in
  mkMRec (mkTMetric (tm_name m) (tm_desc m) (tm_unit m) (tm_type m) (tm_meta m) b
                    (tm_temp m) (tm_mono m))
         (r_resource w) (r_scope w) (r_attrs w) (r_point w).

(* writeNumeric (otlp2stef_unsorted.go:113-133): timestamps, value, attributes, exemplars, Write *)
Definition write_num (c : cfg) (w : mrecord) (p : numpoint) : res (list mrecord * mrecord) :=
  let w1 := set_point_attrs c w
              (mkTPoint (np_start p) (np_ts p) (conv_numval (np_flags p) (np_val p))
                        (conv_exemplars c (np_ex p))) (np_attrs p) in
  Ok ([w1], w1).

(* writeHistogram (otlp2stef_unsorted.go:135-158): also sets Metric.HistogramBounds per point *)
Definition write_hist (c : cfg) (w : mrecord) (p : histpoint) : res (list mrecord * mrecord) :=
  match conv_histval c p with
  | Ok v =>
    let w1 := set_bounds (set_point_attrs c w
                (mkTPoint (hp_start p) (hp_ts p) v (conv_exemplars c (hp_ex p))) (hp_attrs p))
                (hp_bounds p) in
    Ok ([w1], w1)
  | Err => Err
  | Panic => Panic
  end.

(* writeExpHistogram (otlp2stef_unsorted.go:160-182) *)
Definition write_exp (c : cfg) (w : mrecord) (p : exppoint) : res (list mrecord * mrecord) :=
  let w1 := set_point_attrs c w
              (mkTPoint (xp_start p) (xp_ts p) (conv_expval p) (conv_exemplars c (xp_ex p)))
              (xp_attrs p) in
  Ok ([w1], w1).

(* writeSummary (otlp2stef_unsorted.go:184-198): the exemplars of the record are not touched *)
Definition write_summary (c : cfg) (w : mrecord) (p : sumpoint) : res (list mrecord * mrecord) :=
  let w1 := set_point_attrs c w
              (mkTPoint (yp_start p) (yp_ts p) (conv_sumval c p) (tp_ex (r_point w)))
              (yp_attrs p) in
  Ok ([w1], w1).

(* metric2metric (otlp2stef_unsorted.go:96-111): name, description, unit, type, metadata;
   bounds, temporality and monotonic keep the previous record's value *)
Definition set_metric_hdr (c : cfg) (w : mrecord) (m : metric) (ty : N) : mrecord :=
  let p := r_metric w in
  mkMRec (mkTMetric (m_name m) (m_desc m) (m_unit m) ty
                    (conv_attrs (c_map_inc c) (tm_meta p) (m_meta m))
                    (tm_bounds p) (tm_temp p) (tm_mono p))
         (r_resource w) (r_scope w) (r_attrs w) (r_point w).
Definition set_temp (w : mrecord) (t : N) : mrecord :=
  let m := r_metric w in
  mkMRec (mkTMetric (tm_name m) (tm_desc m) (tm_unit m) (tm_type m) (tm_meta m) (tm_bounds m)
                    t (tm_mono m))
         (r_resource w) (r_scope w) (r_attrs w) (r_point w).
Definition set_mono (w : mrecord) (b : bool) : mrecord :=
  let m := r_metric w in
  mkMRec (mkTMetric (tm_name m) (tm_desc m) (tm_unit m) (tm_type m) (tm_meta m) (tm_bounds m)
                    (tm_temp m) b)
         (r_resource w) (r_scope w) (r_attrs w) (r_point w).

(* the switch in Convert (otlp2stef_unsorted.go:29-70) *)
Definition write_metric (c : cfg) (w : mrecord) (m : metric) : res (list mrecord * mrecord) :=
  match m_data m with
  | MEmpty => Err
  | MGauge ps => fold_emit (write_num c) (set_metric_hdr c w m 0) ps
  | MSum t mono ps =>
    if temp_ok t then fold_emit (write_num c) (set_mono (set_temp (set_metric_hdr c w m 1) t) mono) ps
    else Err
  | MHist t ps =>
    if temp_ok t then fold_emit (write_hist c) (set_temp (set_metric_hdr c w m 2) t) ps else Err
  | MExp t ps =>
    if temp_ok t then fold_emit (write_exp c) (set_temp (set_metric_hdr c w m 3) t) ps else Err
  | MSummary ps => fold_emit (write_summary c) (set_metric_hdr c w m 4) ps
  end.

Definition write_scope (c : cfg) (w : mrecord) (sm : scope_metrics) : res (list mrecord * mrecord) :=
  fold_emit (write_metric c)
    (mkMRec (r_metric w) (r_resource w) (conv_scope c (r_scope w) (sm_scope sm)) (r_attrs w)
            (r_point w))
    (sm_metrics sm).
Definition write_res (c : cfg) (w : mrecord) (rm : res_metrics) : res (list mrecord * mrecord) :=
  fold_emit (write_scope c)
    (mkMRec (r_metric w) (conv_res c (r_resource w) (rm_res rm)) (r_scope w) (r_attrs w)
            (r_point w))
    (rm_scopes rm).

(* OtlpToStefUnsorted.Convert starting from writer record w; the records written, in order *)
Definition to_stef_unsorted_from (c : cfg) (w : mrecord) (b : mbatch) : res (list mrecord) :=
  match fold_emit (write_res c) w b with
  | Ok (recs, _) => Ok recs
  | Err => Err
  | Panic => Panic
  end.
Definition to_stef_unsorted (c : cfg) (b : mbatch) : res (list mrecord) :=
  to_stef_unsorted_from c mrecord0 b.

(* ---------------------------------------------------------------- sorting converter *)
(* one data point with everything it is filed under *)
Record item := mkItem {
  it_metric : t_metric; it_resource : t_resource; it_scope : t_scope; it_attrs : tattrs;
  it_point : t_point }.

(* sortedbymetric.metric2metric (sortedmetrics.go:97-113): a fresh Metric per point *)
Definition sorted_metric (c : cfg) (m : metric) (ty : N) (bounds : list N) (t : N) (mono : bool)
  : t_metric :=
  mkTMetric (m_name m) (m_desc m) (m_unit m) ty
            (conv_attrs_sorted (c_map_inc c) [] (m_meta m)) bounds t mono.

Definition mapM_res {A B} (f : A -> res B) : list A -> res (list B) :=
  fix go (l : list A) : res (list B) :=
    match l with
    | [] => Ok []
    | a :: r =>
      match f a with
      | Ok x => match go r with Ok xs => Ok (x :: xs) | Err => Err | Panic => Panic end
      | Err => Err
      | Panic => Panic
      end
    end.

(* converter.go:99-146 covertNumberDataPoints: points of empty value type are skipped in the
   pinned code *)
Definition items_num (c : cfg) (tm : t_metric) (tr : t_resource) (ts : t_scope)
           (ps : list numpoint) : list item :=
  flat_map (fun p =>
    match np_val p with
    | NVEmpty => if c_keep_empty c then
        [mkItem tm tr ts (conv_attrs_sorted (c_map_inc c) [] (np_attrs p))
                (mkTPoint (np_start p) (np_ts p) (conv_numval (np_flags p) (np_val p))
                          (conv_exemplars c (np_ex p)))]
      else []
    | _ => [mkItem tm tr ts (conv_attrs_sorted (c_map_inc c) [] (np_attrs p))
                   (mkTPoint (np_start p) (np_ts p) (conv_numval (np_flags p) (np_val p))
                             (conv_exemplars c (np_ex p)))]
    end) ps.

Definition items_metric (c : cfg) (tr : t_resource) (ts : t_scope) (m : metric) : res (list item) :=
  match m_data m with
  | MEmpty => Err
  | MGauge ps => Ok (items_num c (sorted_metric c m 0 [] 0 false) tr ts ps)
  | MSum t mono ps =>
    if temp_ok t then Ok (items_num c (sorted_metric c m 1 [] t mono) tr ts ps) else Err
  | MHist t ps =>
    if temp_ok t then
      mapM_res (fun p =>
        match conv_histval c p with
        | Ok v => Ok (mkItem (sorted_metric c m 2 (hp_bounds p) t false) tr ts
                             (conv_attrs_sorted (c_map_inc c) [] (hp_attrs p))
                             (mkTPoint (hp_start p) (hp_ts p) v (conv_exemplars c (hp_ex p))))
        | Err => Err
        | Panic => Panic
        end) ps
    else Err
  | MExp t ps =>
    if temp_ok t then
      Ok (map (fun p => mkItem (sorted_metric c m 3 [] t false) tr ts
                               (conv_attrs_sorted (c_map_inc c) [] (xp_attrs p))
                               (mkTPoint (xp_start p) (xp_ts p) (conv_expval p)
                                         (conv_exemplars c (xp_ex p)))) ps)
    else Err
  | MSummary ps =>
    Ok (map (fun p => mkItem (sorted_metric c m 4 [] 0 false) tr ts
                             (conv_attrs_sorted (c_map_inc c) [] (yp_attrs p))
                             (mkTPoint (yp_start p) (yp_ts p) (conv_sumval c p) [])) ps)
  end.

Definition concat_res {A} (l : res (list (list A))) : res (list A) :=
  match l with Ok x => Ok (concat x) | Err => Err | Panic => Panic end.

(* OtlpToSortedTree's traversal (converter.go:17-78): all points in batch order *)
Definition items_of (c : cfg) (b : mbatch) : res (list item) :=
  concat_res (mapM_res (fun rm =>
    let tr := conv_res_sorted c (rm_res rm) in
    concat_res (mapM_res (fun sm =>
      let ts := conv_scope_sorted c (sm_scope sm) in
      concat_res (mapM_res (items_metric c tr ts) (sm_metrics sm))) (rm_scopes rm))) b).

Section Sorted.
  (* the comparison functions that key the four tree levels *)
  Variable cmpM : t_metric -> t_metric -> comparison.
  Variable cmpR : t_resource -> t_resource -> comparison.
  Variable cmpS : t_scope -> t_scope -> comparison.
  Variable cmpA : tattrs -> tattrs -> comparison.

  Definition leaves := list (tattrs * list t_point).
  Definition by_scope := list (t_scope * leaves).
  Definition by_res := list (t_resource * by_scope).
  Definition mtree := list (t_metric * by_res).

  Definition oget {A} (o : option (list A)) : list A :=
    match o with Some l => l | None => [] end.

  (* SortedTree.ByMetric / ByResource / ByScope / ByAttrs + append (sortedmetrics.go) *)
  Definition tree_insert (t : mtree) (it : item) : mtree :=
    ainsert cmpM (it_metric it) (fun o =>
      ainsert cmpR (it_resource it) (fun o =>
        ainsert cmpS (it_scope it) (fun o =>
          ainsert cmpA (it_attrs it) (fun o => oget o ++ [it_point it]) (oget o))
          (oget o)) (oget o)) t.

  Definition point_leb (a b : t_point) : bool := tp_ts a <=? tp_ts b.

  (* SortedTree.SortValues then ToStef (sortedmetrics.go:56-95): iterate the four levels in
     key order; each leaf sorted by timestamp (stable here; Go's pdqsort is not, so ties may
     come out in another order there) *)
  Definition tree_records (t : mtree) : list mrecord :=
    flat_map (fun '(m, br) =>
      flat_map (fun '(r, bs) =>
        flat_map (fun '(s, lv) =>
          flat_map (fun '(a, pts) =>
            map (fun p => mkMRec m r s a p) (sort_by point_leb pts)) lv) bs) br) t.

  Definition to_stef_sorted_gen (c : cfg) (b : mbatch) : res (list mrecord) :=
    match items_of c b with
    | Ok its => Ok (tree_records (fold_left tree_insert its []))
    | Err => Err
    | Panic => Panic
    end.
End Sorted.

(* OtlpToStefSorted.Convert with the generated Cmp functions *)
Definition to_stef_sorted (c : cfg) (b : mbatch) : res (list mrecord) :=
  to_stef_sorted_gen cmp_metric cmp_resource cmp_scope cmp_tattrs c b.
