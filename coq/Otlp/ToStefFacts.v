(* Facts about the OTLP -> STEF direction: the attribute conversion with the repaired index
   handling is the plain structural image and does not depend on what the destination slot
   held before; both converters write one record per data point. *)
From Coq Require Import List NArith ZArith Bool Lia Permutation.
From Stef Require Import OtlpBase OtlpBaseFacts PData Record Image ToStef.
Import ListNotations.
Open Scope N_scope.

(* ---------------------------------------------------------------- induction on values *)
Section OvalInd.
  Variable P : oval -> Prop.
  Hypothesis HEmpty : P OEmpty.
  Hypothesis HStr : forall s, P (OStr s).
  Hypothesis HBool : forall b, P (OBool b).
  Hypothesis HInt : forall z, P (OInt z).
  Hypothesis HDouble : forall f, P (ODouble f).
  Hypothesis HBytes : forall s, P (OBytes s).
  Hypothesis HSlice : forall l, Forall P l -> P (OSlice l).
  Hypothesis HMap : forall kvs, Forall (fun kv => P (snd kv)) kvs -> P (OMap kvs).
  Fixpoint oval_ind' (v : oval) : P v :=
    match v with
    | OEmpty => HEmpty
    | OStr s => HStr s
    | OBool b => HBool b
    | OInt z => HInt z
    | ODouble f => HDouble f
    | OBytes s => HBytes s
    | OSlice l =>
      HSlice l ((fix go (l : list oval) : Forall P l :=
                   match l with
                   | [] => Forall_nil _
                   | x :: r => Forall_cons _ (oval_ind' x) (go r)
                   end) l)
    | OMap kvs =>
      HMap kvs ((fix go (l : list (str * oval)) : Forall (fun kv => P (snd kv)) l :=
                   match l with
                   | [] => Forall_nil _
                   | kv :: r => Forall_cons kv (oval_ind' (snd kv)) (go r)
                   end) kvs)
    end.
End OvalInd.

(* ---------------------------------------------------------------- conversion = image *)
(* with the index advancing, the result is the structural image whatever the slot held *)
Lemma conv_val_img : forall v prev, conv_val true prev v = img_val v.
Proof.
  induction v using oval_ind'; intro prev; try reflexivity.
  - (* slice *) cbn [conv_val img_val]. f_equal.
    generalize (match prev with TArr p => p | _ => [] end). intro p. revert p.
    induction H as [|x r Hx Hr IH]; intro p; [reflexivity|].
    rewrite Hx. f_equal. apply IH.
  - (* map *) cbn [conv_val img_val]. f_equal.
    generalize (match prev with TKV p => p | _ => [] end). intro p. revert p.
    induction H as [|[k x] r Hx Hr IH]; intro p; [reflexivity|].
    cbn [snd] in Hx. rewrite Hx. f_equal. apply IH.
Qed.

Lemma conv_attrs_img : forall l prev, conv_attrs true prev l = img_attrs l.
Proof.
  induction l as [|[k x] r IH]; intro prev; cbn [conv_attrs img_attrs]; [reflexivity|].
  rewrite conv_val_img, IH. reflexivity.
Qed.

Lemma conv_attrs_sorted_img : forall l prev, conv_attrs_sorted true prev l = img_attrs (sort_kv l).
Proof. intros. unfold conv_attrs_sorted. apply conv_attrs_img. Qed.

Lemma img_attrs_map : forall l, img_attrs l = map (fun kv => (fst kv, img_val (snd kv))) l.
Proof. induction l as [|[k x] r IH]; cbn; [reflexivity|]. rewrite IH. reflexivity. Qed.

Lemma img_attrs_sort : forall l, img_attrs (sort_kv l) = sort_kv (img_attrs l).
Proof. intro l. rewrite !img_attrs_map. apply sort_kv_map. Qed.

(* ---------------------------------------------------------------- fold_emit *)
Section EmitFacts.
  Context {S O A : Type}.
  Variable f : S -> A -> res (list O * S).

  (* whatever holds of each step's output holds element-wise of the whole output *)
  Lemma fold_emit_inv : forall (P : A -> list O -> Prop),
    (forall s a o s', f s a = Ok (o, s') -> P a o) ->
    forall l s o s', fold_emit f s l = Ok (o, s') ->
    exists os, o = concat os /\ Forall2 P l os.
  Proof.
    intros P HP. induction l as [|a r IH]; cbn [fold_emit]; intros s o s' H.
    - inversion H; subst. exists []. split; [reflexivity|constructor].
    - destruct (f s a) as [[o1 s1]| |] eqn:E1; try discriminate.
      destruct (fold_emit f s1 r) as [[o2 s2]| |] eqn:E2; try discriminate.
      inversion H; subst. destruct (IH _ _ _ E2) as [os [-> Hos]].
      exists (o1 :: os). split; [reflexivity|]. constructor; [eapply HP; exact E1|exact Hos].
  Qed.
End EmitFacts.


Lemma fold_emit_length : forall {S O A} (f : S -> A -> res (list O * S)) (n : A -> nat),
  (forall s a o s', f s a = Ok (o, s') -> length o = n a) ->
  forall l s o s', fold_emit f s l = Ok (o, s') -> length o = sum_nat (map n l).
Proof.
  intros S O A f n Hn. induction l as [|a r IH]; cbn [fold_emit]; intros s o s' H.
  - inversion H. reflexivity.
  - destruct (f s a) as [[o1 s1]| |] eqn:E1; try discriminate.
    destruct (fold_emit f s1 r) as [[o2 s2]| |] eqn:E2; try discriminate.
    inversion H; subst. rewrite app_length. cbn [map sum_nat].
    rewrite (Hn _ _ _ _ E1), (IH _ _ _ E2). reflexivity.
Qed.

(* ---------------------------------------------------------------- records written = data points *)
Lemma one_per_point : forall {P} (f : mrecord -> P -> res (list mrecord * mrecord)),
  (forall w p o w', f w p = Ok (o, w') -> length o = 1%nat) ->
  forall ps w o w', fold_emit f w ps = Ok (o, w') -> length o = length ps.
Proof.
  intros P f H ps w o w' E. rewrite (fold_emit_length f (fun _ => 1%nat) H _ _ _ _ E).
  clear. induction ps; cbn; [reflexivity|]. rewrite IHps. reflexivity.
Qed.

Lemma write_metric_count : forall c w m o w',
  write_metric c w m = Ok (o, w') -> length o = mdata_points (m_data m).
Proof.
  intros c w m o w'. unfold write_metric.
  destruct (m_data m) as [|ps|t mono ps|t ps|t ps|ps]; cbn [mdata_points]; try discriminate;
    try (destruct (temp_ok t); try discriminate); intro E;
    eapply one_per_point; try exact E; clear; intros w p o w' H.
  - unfold write_num in H. inversion H. reflexivity.
  - unfold write_num in H. inversion H. reflexivity.
  - unfold write_hist in H. destruct (conv_histval c p); inversion H. reflexivity.
  - unfold write_exp in H. inversion H. reflexivity.
  - unfold write_summary in H. inversion H. reflexivity.
Qed.

Theorem unsorted_count : forall c w b recs,
  to_stef_unsorted_from c w b = Ok recs -> length recs = datapoint_count b.
Proof.
  intros c w b recs. unfold to_stef_unsorted_from.
  destruct (fold_emit (write_res c) w b) as [[o w']| |] eqn:E; try discriminate.
  intro H. inversion H; subst. unfold datapoint_count.
  eapply fold_emit_length; [|exact E]. clear. intros w rm o w'. unfold write_res.
  apply fold_emit_length. clear. intros w sm o w'. unfold write_scope.
  apply fold_emit_length. clear. intros w m o w'. apply write_metric_count.
Qed.

(* ---------------------------------------------------------------- sorting converter: count *)
Lemma mapM_res_length : forall {A B} (f : A -> res B) l r, mapM_res f l = Ok r -> length r = length l.
Proof.
  induction l as [|a l IH]; cbn; intros r H; [inversion H; reflexivity|].
  destruct (f a); try discriminate. destruct (mapM_res f l); try discriminate.
  inversion H; subst. cbn. f_equal. apply IH. reflexivity.
Qed.

Lemma mapM_res_concat_length : forall {A B} (f : A -> res (list B)) (n : A -> nat),
  (forall a r, f a = Ok r -> length r = n a) ->
  forall l r, concat_res (mapM_res f l) = Ok r -> length r = sum_nat (map n l).
Proof.
  intros A B f n Hn. induction l as [|a l IH]; cbn [mapM_res]; intros r H.
  - inversion H. reflexivity.
  - destruct (f a) as [x| |] eqn:E; try discriminate.
    destruct (mapM_res f l) as [xs| |] eqn:E2; try discriminate.
    cbn in H. inversion H; subst. rewrite app_length. cbn [map sum_nat].
    rewrite (Hn _ _ E). f_equal. apply IH. reflexivity.
Qed.

Lemma items_num_length : forall c tm tr ts ps, c_keep_empty c = true ->
  length (items_num c tm tr ts ps) = length ps.
Proof.
  intros c tm tr ts ps Hk. unfold items_num. induction ps as [|p r IH]; [reflexivity|].
  cbn [flat_map]. rewrite app_length, IH, Hk. destruct (np_val p); reflexivity.
Qed.

Lemma items_metric_length : forall c tr ts m its, c_keep_empty c = true ->
  items_metric c tr ts m = Ok its -> length its = mdata_points (m_data m).
Proof.
  intros c tr ts m its Hk. unfold items_metric.
  destruct (m_data m) as [|ps|t mono ps|t ps|t ps|ps]; cbn [mdata_points]; try discriminate;
    try (destruct (temp_ok t); try discriminate); intro H.
  - inversion H. apply items_num_length. exact Hk.
  - inversion H. apply items_num_length. exact Hk.
  - apply mapM_res_length in H. exact H.
  - inversion H. apply map_length.
  - inversion H. apply map_length.
Qed.

Lemma items_of_length : forall c b its, c_keep_empty c = true ->
  items_of c b = Ok its -> length its = datapoint_count b.
Proof.
  intros c b its Hk. unfold items_of, datapoint_count.
  apply mapM_res_concat_length. intros rm r.
  apply mapM_res_concat_length. intros sm r'.
  apply mapM_res_concat_length. intros m r''. apply items_metric_length. exact Hk.
Qed.
