(* OTLP traces -> STEF span records.
   go/pdata/traces/otlp2stef_unsorted.go (Convert, sortSpans, span2span, link2link,
   event2event; writer.Record carried over between spans, events/links resized in place),
   go/pdata/internal/otlptools/compare.go (CmpResourceSpans, CmpScopeSpans, CmpAttrs, CmpVal).
   No proofs in this file. *)
From Coq Require Import List NArith ZArith Bool.
From Stef Require Import OtlpBase PData Record ToStef.
Import ListNotations.
Open Scope N_scope.

(* ---------------------------------------------------------------- compare.go *)
(* pcommon.ValueType: Empty Str Int Double Bool Map Slice Bytes *)
Definition oval_tag (v : oval) : N :=
  match v with
  | OEmpty => 0 | OStr _ => 1 | OInt _ => 2 | ODouble _ => 3 | OBool _ => 4
  | OMap _ => 5 | OSlice _ => 6 | OBytes _ => 7
  end.

(* comparison that may panic ("comparison not implemented") *)
Definition othen (c : option comparison) (k : option comparison) : option comparison :=
  match c with Some Eq => k | _ => c end.

(* CmpVal (compare.go:99-134).  [total = false]: double, bytes and map values panic, as in the
   pinned code; [total = true]: they are compared (double by pkg.Float64Compare, bytes
   bytewise, maps by CmpAttrs). *)
Fixpoint cmp_oval (total : bool) (a b : oval) {struct a} : option comparison :=
  let cmp_list := fix go (x y : list oval) {struct x} : option comparison :=
    match x, y with
    | u :: x', v :: y' => othen (cmp_oval total u v) (go x' y')
    | _, _ => Some Eq
    end in
  let cmp_keys := fix go (x : list (str * oval)) (y : list (str * oval)) {struct x} : comparison :=
    match x, y with
    | (k, _) :: x', (k', _) :: y' => cthen (str_cmp k k') (go x' y')
    | _, _ => Eq
    end in
  let cmp_vals := fix go (x : list (str * oval)) (y : list (str * oval)) {struct x}
      : option comparison :=
    match x, y with
    | (_, u) :: x', (_, v) :: y' => othen (cmp_oval total u v) (go x' y')
    | _, _ => Some Eq
    end in
  match N.compare (oval_tag a) (oval_tag b) with
  | Eq =>
    match a, b with
    | OStr s, OStr t => Some (str_cmp s t)
    | OInt x, OInt y => Some (Z.compare x y)
    | OBool x, OBool y => Some (bool_cmp x y)
    | OSlice x, OSlice y =>
      match nat_cmp (length x) (length y) with
      | Eq => cmp_list x y
      | c => Some c
      end
    | OEmpty, OEmpty => Some Eq
    | ODouble x, ODouble y => if total then Some (f64_cmp x y) else None
    | OBytes s, OBytes t => if total then Some (str_cmp s t) else None
    | OMap x, OMap y =>
      if total then
        othen (Some (cmp_keys x y))
              (othen (Some (nat_cmp (length x) (length y))) (cmp_vals x y))
      else None
    | _, _ => Some Eq
    end
  | c => Some c
  end.

Fixpoint cmp_okeys (x y : oattrs) : comparison :=
  match x, y with
  | (k, _) :: x', (k', _) :: y' => cthen (str_cmp k k') (cmp_okeys x' y')
  | _, _ => Eq
  end.
Fixpoint cmp_ovals (total : bool) (x y : oattrs) : option comparison :=
  match x, y with
  | (_, u) :: x', (_, v) :: y' => othen (cmp_oval total u v) (cmp_ovals total x' y')
  | _, _ => Some Eq
  end.
(* CmpAttrs (compare.go:74-97): keys over the common prefix, length, values *)
Definition cmp_oattrs (total : bool) (x y : oattrs) : option comparison :=
  othen (Some (cmp_okeys x y))
        (othen (Some (nat_cmp (length x) (length y))) (cmp_ovals total x y)).

(* CmpResourceSpans (compare.go:36-42); with [c_cmp_dropped] also the dropped count *)
Definition cmp_res_id (c : cfg) (a b : res_id) : option comparison :=
  othen (Some (str_cmp (rs_url a) (rs_url b)))
        (othen (cmp_oattrs (c_cmp_total c) (rs_attrs a) (rs_attrs b))
               (if c_cmp_dropped c then Some (N.compare (rs_dropped a) (rs_dropped b)) else Some Eq)).
(* CmpScopeSpans (compare.go:58-72) *)
Definition cmp_scope_id (c : cfg) (a b : scope_id) : option comparison :=
  othen (Some (str_cmp (sc_name a) (sc_name b)))
  (othen (Some (str_cmp (sc_version a) (sc_version b)))
  (othen (Some (str_cmp (sc_url a) (sc_url b)))
  (othen (cmp_oattrs (c_cmp_total c) (sc_attrs a) (sc_attrs b))
         (if c_cmp_dropped c then Some (N.compare (sc_dropped a) (sc_dropped b)) else Some Eq)))).

(* ---------------------------------------------------------------- sort and merge *)
(* sort.SliceStable for up to 20 elements is this insertion sort: each element travels left
   while less(x, left neighbour); the prefix is kept reversed.  A panicking comparison aborts.
   (Longer slices are block-sorted and merged by the Go runtime: same result, other
   comparisons -- only relevant for which inputs panic.) *)
Section SortGo.
  Context {A : Type} (less : A -> A -> option bool).
  Fixpoint ins_rev (x : A) (rp : list A) : option (list A) :=
    match rp with
    | [] => Some [x]
    | y :: r =>
      match less x y with
      | None => None
      | Some true => match ins_rev x r with Some l => Some (y :: l) | None => None end
      | Some false => Some (x :: rp)
      end
    end.
  Fixpoint sort_go_acc (l : list A) (acc : list A) : option (list A) :=
    match l with
    | [] => Some (rev acc)
    | x :: r => match ins_rev x acc with Some acc' => sort_go_acc r acc' | None => None end
    end.
  Definition sort_go (l : list A) : option (list A) := sort_go_acc l [].
End SortGo.

Definition is_lt (c : option comparison) : option bool :=
  match c with Some Lt => Some true | Some _ => Some false | None => None end.

(* the merge loops of Convert (otlp2stef_unsorted.go:28-41, 55-68): the element after an equal
   one is moved into it and removed; [cur] is the element at index i *)
Section MergeAdj.
  Context {A : Type} (cmp : A -> A -> option comparison) (merge : A -> A -> A).
  Fixpoint merge_run (cur : A) (rest : list A) : option (list A) :=
    match rest with
    | [] => Some [cur]
    | b :: r =>
      match cmp cur b with
      | None => None
      | Some Eq => merge_run (merge cur b) r
      | Some _ => match merge_run b r with Some l => Some (cur :: l) | None => None end
      end
    end.
  Definition merge_adj (l : list A) : option (list A) :=
    match l with [] => Some [] | a :: r => merge_run a r end.
End MergeAdj.

(* sortSpans (otlp2stef_unsorted.go:98-124): trace id descending, parent span id descending,
   start time ascending *)
Definition span_less (a b : span) : option bool :=
  Some match str_cmp (s_trace a) (s_trace b) with
       | Gt => true
       | Lt => false
       | Eq => match str_cmp (s_parent a) (s_parent b) with
               | Gt => true
               | Lt => false
               | Eq => s_start a <? s_start b
               end
       end.

(* the comparison functions are arguments: the theorems hold for any comparison whose Eq means
   equal identity; the converter uses cmp_res_id / cmp_scope_id (below) *)
Definition sort_merge_res (cmpR : res_id -> res_id -> option comparison) (b : tbatch) : option tbatch :=
  match sort_go (fun x y => is_lt (cmpR (rsp_res x) (rsp_res y))) b with
  | Some l =>
    merge_adj (fun x y => cmpR (rsp_res x) (rsp_res y))
              (fun x y => mkRS (rsp_res x) (rsp_scopes x ++ rsp_scopes y)) l
  | None => None
  end.
Definition sort_merge_scopes (cmpS : scope_id -> scope_id -> option comparison) (l : list scope_spans)
  : option (list scope_spans) :=
  match sort_go (fun x y => is_lt (cmpS (ss_scope x) (ss_scope y))) l with
  | Some l' =>
    merge_adj (fun x y => cmpS (ss_scope x) (ss_scope y))
              (fun x y => mkSS (ss_scope x) (ss_spans x ++ ss_spans y)) l'
  | None => None
  end.
Definition sort_spans (l : list span) : list span :=
  match sort_go span_less l with Some l' => l' | None => l end.

(* ---------------------------------------------------------------- span2span *)
Definition event0 : t_event := mkTEvent [] 0 [] 0.
Definition link0 : t_link := mkTLink [] [] [] 0 [] 0.

(* event2event / link2link (otlp2stef_unsorted.go:150-165): every field is set *)
Definition conv_event (c : cfg) (prev : t_event) (e : event) : t_event :=
  mkTEvent (ev_name e) (ev_time e) (conv_attrs (c_map_inc c) (tv_attrs prev) (ev_attrs e))
           (ev_dropped e).
Definition conv_link (c : cfg) (prev : t_link) (l : link) : t_link :=
  mkTLink (id_text (lk_trace l)) (id_text (lk_span l)) (lk_state l) (lk_flags l)
          (conv_attrs (c_map_inc c) (tl_attrs prev) (lk_attrs l)) (lk_dropped l).
(* EnsureLen(n) then element i <- source i: elements below the old length are converted over
   their previous content, the others over a reset element *)
Fixpoint conv_events (c : cfg) (prev : list t_event) (l : list event) : list t_event :=
  match l with
  | [] => []
  | e :: r => conv_event c (hd event0 prev) e :: conv_events c (tl prev) r
  end.
Fixpoint conv_links (c : cfg) (prev : list t_link) (l : list link) : list t_link :=
  match l with
  | [] => []
  | e :: r => conv_link c (hd link0 prev) e :: conv_links c (tl prev) r
  end.

(* span2span (otlp2stef_unsorted.go:126-148) *)
Definition conv_span (c : cfg) (sorted : bool) (prev : t_span) (s : span) : t_span :=
  mkTSpan (id_text (s_trace s)) (id_text (s_span s)) (s_state s) (id_text (s_parent s))
          (s_flags s) (s_name s) (s_kind s) (s_start s) (s_end s)
          (if sorted then conv_attrs_sorted (c_map_inc c) (tsp_attrs prev) (s_attrs s)
           else conv_attrs (c_map_inc c) (tsp_attrs prev) (s_attrs s))
          (s_dropped s)
          (conv_events c (tsp_events prev) (s_events s))
          (conv_links c (tsp_links prev) (s_links s))
          (s_msg s) (s_code s).

Definition write_span (c : cfg) (sorted : bool) (w : srecord) (s : span)
  : res (list srecord * srecord) :=
  let w1 := mkSRec (sr_resource w) (sr_scope w) (conv_span c sorted (sr_span w) s) in
  Ok ([w1], w1).

Definition write_scope_spans (c : cfg) (sorted : bool) (w : srecord) (ss : scope_spans)
  : res (list srecord * srecord) :=
  fold_emit (write_span c sorted)
    (mkSRec (sr_resource w) (conv_scope c (sr_scope w) (ss_scope ss)) (sr_span w))
    (if sorted then sort_spans (ss_spans ss) else ss_spans ss).

Definition write_res_spans (cmpS : scope_id -> scope_id -> option comparison) (c : cfg) (sorted : bool)
           (w : srecord) (rs : res_spans) : res (list srecord * srecord) :=
  let w1 := mkSRec (conv_res c (sr_resource w) (rsp_res rs)) (sr_scope w) (sr_span w) in
  if sorted then
    match sort_merge_scopes cmpS (rsp_scopes rs) with
    | Some l => fold_emit (write_scope_spans c sorted) w1 l
    | None => Panic
    end
  else fold_emit (write_scope_spans c sorted) w1 (rsp_scopes rs).

(* OtlpToStefUnsorted{Sorted: sorted}.Convert starting from writer record w *)
Definition traces_to_stef_gen (cmpR : res_id -> res_id -> option comparison)
           (cmpS : scope_id -> scope_id -> option comparison)
           (c : cfg) (sorted : bool) (w : srecord) (b : tbatch) : res (list srecord) :=
  let rb := if sorted then sort_merge_res cmpR b else Some b in
  match rb with
  | None => Panic
  | Some b' =>
    match fold_emit (write_res_spans cmpS c sorted) w b' with
    | Ok (recs, _) => Ok recs
    | Err => Err
    | Panic => Panic
    end
  end.
Definition traces_to_stef_from (c : cfg) (sorted : bool) (w : srecord) (b : tbatch)
  : res (list srecord) :=
  traces_to_stef_gen (cmp_res_id c) (cmp_scope_id c) c sorted w b.
Definition traces_to_stef (c : cfg) (sorted : bool) (b : tbatch) : res (list srecord) :=
  traces_to_stef_from c sorted srecord0 b.
