(* C18: one record per span; with the repaired attribute conversion record k is the image of
   span k whatever the writer record held before; the sorting mode writes a permutation of
   the images (span attributes sorted by key) for any comparison whose Eq means equality. *)
From Coq Require Import List NArith ZArith Bool Lia Permutation.
From Stef Require Import OtlpBase OtlpBaseFacts PData Record Image ToStef ToStefFacts Traces.
Import ListNotations.
Open Scope N_scope.

(* ---------------------------------------------------------------- span2span = image *)
Section Content.
  Variable c : cfg.
  Hypothesis Hinc : c_map_inc c = true.

  Lemma conv_events_img : forall l prev, conv_events c prev l = map img_event l.
  Proof.
    induction l as [|e r IH]; intro prev; cbn [conv_events map]; [reflexivity|].
    rewrite IH. unfold conv_event, img_event. rewrite Hinc, conv_attrs_img. reflexivity.
  Qed.
  Lemma conv_links_img : forall l prev, conv_links c prev l = map img_link l.
  Proof.
    induction l as [|e r IH]; intro prev; cbn [conv_links map]; [reflexivity|].
    rewrite IH. unfold conv_link, img_link. rewrite Hinc, conv_attrs_img. reflexivity.
  Qed.
  Lemma conv_span_img : forall sorted prev s, conv_span c sorted prev s = img_span sorted s.
  Proof.
    intros sorted prev s. unfold conv_span, img_span.
    rewrite conv_events_img, conv_links_img, Hinc.
    destruct sorted; [rewrite conv_attrs_sorted_img|rewrite conv_attrs_img]; reflexivity.
  Qed.
  Lemma conv_res_img : forall prev r, conv_res c prev r = img_res r.
  Proof. intros. unfold conv_res, img_res. rewrite Hinc, conv_attrs_img. reflexivity. Qed.
  Lemma conv_scope_img : forall prev s, conv_scope c prev s = img_scope s.
  Proof. intros. unfold conv_scope, img_scope. rewrite Hinc, conv_attrs_img. reflexivity. Qed.

  (* the records of one scope: images of its spans in the order they are taken *)
  Lemma write_spans_img : forall sorted R S spans w o w',
    sr_resource w = img_res R -> sr_scope w = img_scope S ->
    fold_emit (write_span c sorted) w spans = Ok (o, w') ->
    o = map (fun s => span_image sorted (mkFQS R S s)) spans /\
    sr_resource w' = img_res R /\ sr_scope w' = img_scope S.
  Proof.
    intros sorted R S. induction spans as [|s r IH]; cbn [fold_emit map]; intros w o w' HR HS H.
    - inversion H; subst. auto.
    - unfold write_span at 1 in H.
      destruct (fold_emit (write_span c sorted)
                  (mkSRec (sr_resource w) (sr_scope w) (conv_span c sorted (sr_span w) s)) r)
        as [[o2 s2]| |] eqn:E2; try discriminate.
      inversion H; subst.
      destruct (IH (mkSRec (sr_resource w) (sr_scope w) (conv_span c sorted (sr_span w) s)) _ _ HR HS E2) as [-> [H1 H2]].
      split; [|auto]. cbn [app]. f_equal.
      unfold span_image. cbn [fs_res fs_scope fs_span]. rewrite HR, HS, conv_span_img. reflexivity.
  Qed.
End Content.

(* ---------------------------------------------------------------- fold_emit and permutations *)
Lemma fold_emit_perm : forall {S O A Q} (f : S -> A -> res (list O * S)) (Inv : S -> Prop)
    (h : Q -> O) (g : A -> list Q),
  (forall s a o s', Inv s -> f s a = Ok (o, s') -> Permutation o (map h (g a)) /\ Inv s') ->
  forall l s o s', Inv s -> fold_emit f s l = Ok (o, s') ->
  Permutation o (map h (flat_map g l)) /\ Inv s'.
Proof.
  intros S O A Q f Inv h g Hstep. induction l as [|a r IH]; cbn [fold_emit flat_map]; intros s o s' Hi H.
  - inversion H; subst. split; [constructor|exact Hi].
  - destruct (f s a) as [[o1 s1]| |] eqn:E1; try discriminate.
    destruct (fold_emit f s1 r) as [[o2 s2]| |] eqn:E2; try discriminate.
    inversion H; subst. destruct (Hstep _ _ _ _ Hi E1) as [P1 I1].
    destruct (IH _ _ _ I1 E2) as [P2 I2]. split; [|exact I2].
    rewrite map_app. apply Permutation_app; assumption.
Qed.

(* ---------------------------------------------------------------- sort and merge *)
Lemma ins_rev_perm : forall {A} (less : A -> A -> option bool) x rp l,
  ins_rev less x rp = Some l -> Permutation l (x :: rp).
Proof.
  intros A less x. induction rp as [|y r IH]; cbn [ins_rev]; intros l H.
  - inversion H. apply Permutation_refl.
  - destruct (less x y) as [[|]|]; try discriminate.
    + destruct (ins_rev less x r) as [l'|] eqn:E; try discriminate. inversion H; subst.
      eapply perm_trans; [apply perm_skip; apply IH; reflexivity|]. apply perm_swap.
    + inversion H. apply Permutation_refl.
Qed.

Lemma sort_go_acc_perm : forall {A} (less : A -> A -> option bool) l acc l',
  sort_go_acc less l acc = Some l' -> Permutation l' (acc ++ l).
Proof.
  intros A less. induction l as [|x r IH]; cbn [sort_go_acc]; intros acc l' H.
  - inversion H. rewrite app_nil_r. apply Permutation_sym. apply Permutation_rev.
  - destruct (ins_rev less x acc) as [acc'|] eqn:E; try discriminate.
    eapply perm_trans; [apply IH; exact H|].
    eapply perm_trans; [apply Permutation_app_tail; eapply ins_rev_perm; exact E|].
    cbn [app]. apply Permutation_middle.
Qed.

Lemma sort_go_perm : forall {A} (less : A -> A -> option bool) l l',
  sort_go less l = Some l' -> Permutation l' l.
Proof. intros A less l l' H. apply (sort_go_acc_perm less l [] l' H). Qed.

Lemma sort_spans_perm : forall l, Permutation (sort_spans l) l.
Proof.
  intro l. unfold sort_spans. destruct (sort_go span_less l) eqn:E; [|apply Permutation_refl].
  eapply sort_go_perm. exact E.
Qed.

(* merging neighbours that compare Eq keeps what each element contributes, provided Eq means
   that the merged element contributes the concatenation *)
Lemma merge_run_content : forall {A Q} (cmp : A -> A -> option comparison) (merge : A -> A -> A)
    (F : A -> list Q),
  (forall x y, cmp x y = Some Eq -> F (merge x y) = F x ++ F y) ->
  forall rest cur l, merge_run cmp merge cur rest = Some l ->
  flat_map F l = F cur ++ flat_map F rest.
Proof.
  intros A Q cmp merge F HF. induction rest as [|b r IH]; cbn [merge_run]; intros cur l H.
  - inversion H. cbn. reflexivity.
  - destruct (cmp cur b) as [[| |]|] eqn:E; try discriminate.
    + rewrite (IH _ _ H), (HF _ _ E). cbn [flat_map]. rewrite app_assoc. reflexivity.
    + destruct (merge_run cmp merge b r) as [l'|] eqn:E2; try discriminate. inversion H; subst.
      cbn [flat_map]. rewrite (IH _ _ E2). reflexivity.
    + destruct (merge_run cmp merge b r) as [l'|] eqn:E2; try discriminate. inversion H; subst.
      cbn [flat_map]. rewrite (IH _ _ E2). reflexivity.
Qed.

Lemma merge_adj_content : forall {A Q} (cmp : A -> A -> option comparison) (merge : A -> A -> A)
    (F : A -> list Q),
  (forall x y, cmp x y = Some Eq -> F (merge x y) = F x ++ F y) ->
  forall l l', merge_adj cmp merge l = Some l' -> flat_map F l' = flat_map F l.
Proof.
  intros A Q cmp merge F HF l l' H. destruct l as [|a r]; cbn [merge_adj] in H.
  - inversion H. reflexivity.
  - cbn [flat_map]. eapply merge_run_content; eassumption.
Qed.

(* ---------------------------------------------------------------- the theorems *)
Definition spans_of_scope (R : res_id) (ss : scope_spans) : list fqspan :=
  map (mkFQS R (ss_scope ss)) (ss_spans ss).
Definition spans_of_res (rs : res_spans) : list fqspan :=
  flat_map (spans_of_scope (rsp_res rs)) (rsp_scopes rs).

Lemma flatten_spans_eq : forall b, flatten_spans b = flat_map spans_of_res b.
Proof. reflexivity. Qed.

Section Theorems.
  Variable cmpR : res_id -> res_id -> option comparison.
  Variable cmpS : scope_id -> scope_id -> option comparison.
  Variable c : cfg.
  Hypothesis Hinc : c_map_inc c = true.

  Lemma write_scope_spans_img : forall sorted R ss w o w',
    sr_resource w = img_res R ->
    write_scope_spans c sorted w ss = Ok (o, w') ->
    o = map (span_image sorted)
            (map (mkFQS R (ss_scope ss)) (if sorted then sort_spans (ss_spans ss) else ss_spans ss)) /\
    sr_resource w' = img_res R.
  Proof.
    intros sorted R ss w o w' HR H. unfold write_scope_spans in H.
    destruct (write_spans_img c Hinc sorted R (ss_scope ss) _
                (mkSRec (sr_resource w) (conv_scope c (sr_scope w) (ss_scope ss)) (sr_span w)) _ _ HR
                (conv_scope_img c Hinc (sr_scope w) (ss_scope ss)) H) as [-> [H1 _]].
    split; [|exact H1]. rewrite map_map. reflexivity.
  Qed.

  (* order-preserving mode: record k is the image of span k *)
  Theorem traces_content : forall w b recs,
    traces_to_stef_gen cmpR cmpS c false w b = Ok recs ->
    recs = map (span_image false) (flatten_spans b).
  Proof.
    intros w b recs. unfold traces_to_stef_gen.
    destruct (fold_emit (write_res_spans cmpS c false) w b) as [[o w']| |] eqn:E; try discriminate.
    intro H. inversion H; subst. clear H. revert w recs w' E.
    induction b as [|rs r IH]; cbn [fold_emit]; intros w recs w' E.
    - inversion E. reflexivity.
    - destruct (write_res_spans cmpS c false w rs) as [[o1 s1]| |] eqn:E1; try discriminate.
      destruct (fold_emit (write_res_spans cmpS c false) s1 r) as [[o2 s2]| |] eqn:E2; try discriminate.
      inversion E; subst. rewrite (IH _ _ _ E2). cbn [flatten_spans flat_map]. rewrite map_app. f_equal.
      clear IH E2 E. unfold write_res_spans in E1.
      assert (G : forall l w0 o w0', sr_resource w0 = img_res (rsp_res rs) ->
                fold_emit (write_scope_spans c false) w0 l = Ok (o, w0') ->
                o = map (span_image false)
                        (flat_map (fun ss => map (mkFQS (rsp_res rs) (ss_scope ss)) (ss_spans ss)) l)).
      { induction l as [|ss l IHl]; cbn [fold_emit flat_map]; intros w0 o w0' H0 H.
        - inversion H. reflexivity.
        - destruct (write_scope_spans c false w0 ss) as [[oa sa]| |] eqn:Ea; try discriminate.
          destruct (fold_emit (write_scope_spans c false) sa l) as [[ob sb]| |] eqn:Eb; try discriminate.
          inversion H; subst. destruct (write_scope_spans_img false _ _ _ _ _ H0 Ea) as [-> Ha].
          rewrite (IHl _ _ _ Ha Eb), map_app. reflexivity. }
      eapply G; [|exact E1]. cbn [sr_resource]. apply conv_res_img. exact Hinc.
  Qed.

  Theorem traces_one_per_span : forall w b recs,
    traces_to_stef_gen cmpR cmpS c false w b = Ok recs -> length recs = span_count b.
  Proof.
    intros w b recs H. rewrite (traces_content _ _ _ H), map_length. clear H.
    unfold flatten_spans, span_count. induction b as [|rs r IH]; [reflexivity|].
    cbn [flat_map map sum_nat]. rewrite app_length, IH. f_equal.
    induction (rsp_scopes rs) as [|ss l IHl]; [reflexivity|].
    cbn [flat_map map sum_nat]. rewrite app_length, map_length, IHl. reflexivity.
  Qed.

  (* sorting mode *)
  Hypothesis cmpR_sound : forall a b, cmpR a b = Some Eq -> a = b.
  Hypothesis cmpS_sound : forall a b, cmpS a b = Some Eq -> a = b.

  Lemma sort_merge_scopes_perm : forall R l l', sort_merge_scopes cmpS l = Some l' ->
    Permutation (flat_map (spans_of_scope R) l') (flat_map (spans_of_scope R) l).
  Proof.
    intros R l l' H. unfold sort_merge_scopes in H.
    destruct (sort_go _ l) as [ls|] eqn:E; try discriminate.
    assert (HF : forall x y : scope_spans, cmpS (ss_scope x) (ss_scope y) = Some Eq ->
              spans_of_scope R (mkSS (ss_scope x) (ss_spans x ++ ss_spans y)) =
              spans_of_scope R x ++ spans_of_scope R y).
    { intros x y Hxy. unfold spans_of_scope. cbn [ss_scope ss_spans]. rewrite map_app.
      rewrite (cmpS_sound _ _ Hxy). reflexivity. }
    rewrite (merge_adj_content _ _ (spans_of_scope R) HF _ _ H).
    apply Permutation_flat_map. eapply sort_go_perm. exact E.
  Qed.

  Lemma sort_merge_res_perm : forall b b', sort_merge_res cmpR b = Some b' ->
    Permutation (flat_map spans_of_res b') (flat_map spans_of_res b).
  Proof.
    intros b b' H. unfold sort_merge_res in H.
    destruct (sort_go _ b) as [ls|] eqn:E; try discriminate.
    assert (HF : forall x y : res_spans, cmpR (rsp_res x) (rsp_res y) = Some Eq ->
              spans_of_res (mkRS (rsp_res x) (rsp_scopes x ++ rsp_scopes y)) =
              spans_of_res x ++ spans_of_res y).
    { intros x y Hxy. unfold spans_of_res. cbn [rsp_res rsp_scopes]. rewrite flat_map_app.
      rewrite (cmpR_sound _ _ Hxy). reflexivity. }
    rewrite (merge_adj_content _ _ spans_of_res HF _ _ H).
    apply Permutation_flat_map. eapply sort_go_perm. exact E.
  Qed.

  Lemma write_res_spans_sorted_perm : forall w rs o w',
    write_res_spans cmpS c true w rs = Ok (o, w') ->
    Permutation o (map (span_image true) (spans_of_res rs)).
  Proof.
    intros w rs o w' H. unfold write_res_spans in H.
    destruct (sort_merge_scopes cmpS (rsp_scopes rs)) as [l|] eqn:E; try discriminate.
    assert (STEP : forall w0 ss o0 w0', sr_resource w0 = img_res (rsp_res rs) ->
              write_scope_spans c true w0 ss = Ok (o0, w0') ->
              Permutation o0 (map (span_image true)
                                  (map (mkFQS (rsp_res rs) (ss_scope ss)) (sort_spans (ss_spans ss)))) /\
              sr_resource w0' = img_res (rsp_res rs)).
    { intros w0 ss o0 w0' Hi Hf.
      destruct (write_scope_spans_img true (rsp_res rs) ss w0 o0 w0' Hi Hf) as [-> Hw].
      split; [apply Permutation_refl|exact Hw]. }
    destruct (fold_emit_perm (write_scope_spans c true)
                (fun w => sr_resource w = img_res (rsp_res rs)) (span_image true)
                (fun ss => map (mkFQS (rsp_res rs) (ss_scope ss)) (sort_spans (ss_spans ss)))
                STEP l
                (mkSRec (conv_res c (sr_resource w) (rsp_res rs)) (sr_scope w) (sr_span w)) o w'
                (conv_res_img c Hinc (sr_resource w) (rsp_res rs)) H) as [P _].
    eapply perm_trans; [exact P|]. apply Permutation_map.
    eapply perm_trans; [|apply (sort_merge_scopes_perm (rsp_res rs) _ _ E)].
    unfold spans_of_scope. clear. induction l as [|ss l IH]; [constructor|].
    cbn [flat_map]. apply Permutation_app; [|exact IH]. apply Permutation_map. apply sort_spans_perm.
  Qed.

  Theorem traces_sorted_perm : forall w b recs,
    traces_to_stef_gen cmpR cmpS c true w b = Ok recs ->
    Permutation recs (map (span_image true) (flatten_spans b)).
  Proof.
    intros w b recs. unfold traces_to_stef_gen.
    destruct (sort_merge_res cmpR b) as [b'|] eqn:Eb; try discriminate.
    destruct (fold_emit (write_res_spans cmpS c true) w b') as [[o w']| |] eqn:E; try discriminate.
    intro H. inversion H; subst. clear H.
    destruct (fold_emit_perm (write_res_spans cmpS c true) (fun _ => True) (span_image true) spans_of_res
                (fun w0 rs o0 w0' _ Hf => conj (write_res_spans_sorted_perm w0 rs o0 w0' Hf) I)
                b' w recs w' I E) as [P _].
    eapply perm_trans; [exact P|]. apply Permutation_map.
    change (flatten_spans b) with (flat_map spans_of_res b).
    apply sort_merge_res_perm. exact Eb.
  Qed.
End Theorems.

(* one record per span in the order-preserving mode, for every variant of the code (also with
   the map index defect) and every initial writer record *)
Theorem traces_count : forall cmpR cmpS c w b recs,
  traces_to_stef_gen cmpR cmpS c false w b = Ok recs -> length recs = span_count b.
Proof.
  intros cmpR cmpS c w b recs. unfold traces_to_stef_gen.
  destruct (fold_emit (write_res_spans cmpS c false) w b) as [[o w']| |] eqn:E; try discriminate.
  intro H. inversion H; subst. unfold span_count.
  eapply fold_emit_length; [|exact E]. clear. intros w rs o w'. unfold write_res_spans.
  apply fold_emit_length. clear. intros w ss o w'. unfold write_scope_spans.
  intro H. rewrite (fold_emit_length (write_span c false) (fun _ => 1%nat)) with (l := ss_spans ss) (s := mkSRec (sr_resource w) (conv_scope c (sr_scope w) (ss_scope ss)) (sr_span w)) (s' := w').
  - clear. induction (ss_spans ss); cbn; [reflexivity|]. rewrite IHl. reflexivity.
  - clear. intros w s o w' H. unfold write_span in H. inversion H. reflexivity.
  - exact H.
Qed.

(* the converter as coded: comparison functions of compare.go *)
Corollary traces_count_conv : forall c w b recs,
  traces_to_stef_from c false w b = Ok recs -> length recs = span_count b.
Proof. intros c w b recs. apply traces_count. Qed.

Corollary traces_content_conv : forall c w b recs, c_map_inc c = true ->
  traces_to_stef_from c false w b = Ok recs -> recs = map (span_image false) (flatten_spans b).
Proof. intros c w b recs Hinc. apply traces_content. exact Hinc. Qed.
