(* Specification-level bit writer / bit reader and the compact varint of
   go/pkg/bitstream.go (WriteBits, WriteBit, WriteUvarintCompact, PeekBits, Consume,
   ReadBits, ReadBit, ReadUvarintCompact, Error).

   Writer: a bit column is a bit string; WriteBits(val, n) appends the n low bits of val,
   most significant first.  (Go ORs bits above n into bits already written: callers must
   supply val < 2^n; that obligation is explicit in the theorems.)

   Reader: reads come from the column zero-extended at the end.  The sticky error flag
   mirrors refillSlow: the real reader makes 56 phantom zero bits available once the last
   byte is loaded (none for an empty buffer) and sets io.EOF when a refill is attempted
   after that, i.e. on a peek of n bits at position pos with pos + n > threshold where
   threshold = 0 for an empty buffer and 8*len + 56 otherwise. *)
From Coq Require Import List NArith ZArith Lia Bool.
From Stef Require Import Bits.
From Stef Require Import Tables.
Import ListNotations.
Open Scope N_scope.

Definition two64 : N := 18446744073709551616.
Definition two48 : N := 281474976710656.

(* ---------- writer ---------- *)
Definition bw := bits.
Definition bw_write_bits (w : bw) (v : N) (n : nat) : bw := w ++ bits_of_N n v.
Definition bw_write_bit (w : bw) (b : bool) : bw := w ++ [b].

(* bits.LeadingZeros64 *)
Definition clz64 (v : N) : N := 64 - N.size v.
(* bits.TrailingZeros64 *)
Fixpoint ctz_fuel (fuel : nat) (v : N) : N :=
  match fuel with
  | O => 0
  | S f => if N.odd v then 0 else 1 + ctz_fuel f (v / 2)
  end.
Definition ctz64 (v : N) : N := if v =? 0 then 64 else ctz_fuel 64 v.

Definition tbl (t : list N) (i : N) : N := nth (N.to_nat i) t 0.

(* WriteUvarintCompact: table driven, exactly as the Go code *)
Definition uvc_write_bits (v : N) : bits :=
  let z := clz64 v in
  bits_of_N (N.to_nat (tbl writeBitsCountByZeros z)) (N.lor v (tbl writeMaskByZeros z)).
Definition bw_write_uvc (w : bw) (v : N) : bw := w ++ uvc_write_bits v.

(* the specification's table: prefix of k zeros, a one, then a w-bit payload *)
Definition uvc_spec_class (v : N) : nat * nat :=
  if v =? 0 then (0, 0)%nat
  else if v <? 4 then (1, 2)%nat
  else if v <? 32 then (2, 5)%nat
  else if v <? 4096 then (3, 12)%nat
  else if v <? 524288 then (4, 19)%nat
  else if v <? 67108864 then (5, 26)%nat
  else if v <? 8589934592 then (6, 33)%nat
  else (7, 48)%nat.
Definition uvc_spec_bits (v : N) : bits :=
  let '(k, w) := uvc_spec_class v in zeros k ++ [true] ++ bits_of_N w v.

(* ---------- reader ---------- *)
Record br := mkBr { br_rem : bits; br_pos : N; br_len : N; br_err : bool }.

Definition br_init (bs : list N) : br :=
  mkBr (bits_of_bytes bs) 0 (8 * N.of_nat (length bs)) false.

Definition br_threshold (r : br) : N := if br_len r =? 0 then 0 else br_len r + 56.

(* zero-extended prefix of length n *)
Definition take_ext (n : nat) (l : bits) : bits :=
  firstn n l ++ zeros (n - length (firstn n l)).

Definition br_peek (r : br) (n : nat) : N * br :=
  let v := N_of_bits (take_ext n (br_rem r)) in
  let e := br_err r || (0 <? N.of_nat n) && (br_threshold r <? br_pos r + N.of_nat n) in
  (v, mkBr (br_rem r) (br_pos r) (br_len r) e).

Definition br_consume (r : br) (n : nat) : br :=
  mkBr (skipn n (br_rem r)) (br_pos r + N.of_nat n) (br_len r) (br_err r).

(* ReadBits(n), n <= 64: for n > 56 the Go code reads 56 then n-56 bits *)
Definition br_read_bits (r : br) (n : nat) : N * br :=
  if (n <=? 56)%nat then
    let '(v, r1) := br_peek r n in (v, br_consume r1 n)
  else
    let '(hi, r1) := br_peek r 56 in
    let r2 := br_consume r1 56 in
    let m := (n - 56)%nat in
    let '(lo, r3) := br_peek r2 m in
    (hi * 2 ^ N.of_nat m + lo, br_consume r3 m).

Definition br_read_bit (r : br) : bool * br :=
  let '(v, r1) := br_read_bits r 1 in (negb (v =? 0), r1).

(* ReadUvarintCompact: PeekBits(56), LeadingZeros64, tables, Consume *)
Definition br_read_uvc (r : br) : N * br :=
  let '(v, r1) := br_peek r 56 in
  let z := clz64 v in
  let ret := N.land (N.shiftr v (tbl readShiftByZeros z)) (tbl readMaskByZeros z) in
  (ret, br_consume r1 (N.to_nat (tbl readConsumeCountByZeros z))).
