(* Facts about the specification-level bit reader/writer and the compact varint. *)
From Coq Require Import List NArith ZArith Lia Bool ZifyN ZifyNat ZifyBool.
From Stef Require Import Bits BitsFacts BitIO Tables.
Import ListNotations.
Open Scope N_scope.

(* a reader positioned inside its column, no error so far *)
Definition br_wf (r : br) : Prop :=
  br_err r = false /\ br_pos r + N.of_nat (length (br_rem r)) = br_len r.

Lemma take_ext_app : forall l rest, take_ext (length l) (l ++ rest) = l.
Proof.
  intros. unfold take_ext. rewrite firstn_app_exact, Nat.sub_diag. cbn. apply app_nil_r.
Qed.

Lemma take_ext_length : forall n l, length (take_ext n l) = n.
Proof.
  intros. unfold take_ext. rewrite app_length, length_zeros.
  pose proof (firstn_le_length n l). lia.
Qed.

Lemma take_ext_cons : forall n b l, take_ext (S n) (b :: l) = b :: take_ext n l.
Proof. intros. unfold take_ext. cbn [firstn length app]. reflexivity. Qed.

Lemma no_err_cond : forall r n, br_wf r -> (n <= length (br_rem r))%nat ->
  (0 <? N.of_nat n) && (br_threshold r <? br_pos r + N.of_nat n) = false.
Proof.
  intros r n [_ Hp] Hn. unfold br_threshold.
  destruct (N.ltb_spec 0 (N.of_nat n)); [|reflexivity]. cbn [andb].
  destruct (N.eqb_spec (br_len r) 0); apply N.ltb_ge; lia.
Qed.

Lemma br_peek_app : forall r l rest, br_wf r -> br_rem r = l ++ rest ->
  br_peek r (length l) = (N_of_bits l, r).
Proof.
  intros r l rest Hwf Hrem. unfold br_peek.
  rewrite no_err_cond; [|assumption|rewrite Hrem, app_length; lia].
  rewrite Hrem at 1. rewrite take_ext_app.
  destruct Hwf as [He _]. destruct r as [rm p ln e]. cbn in *. subst e. reflexivity.
Qed.

(* a peek of at most 56 bits never raises the error while real bits remain *)
Lemma br_peek_ext : forall r n, br_wf r -> br_rem r <> [] -> (n <= 56)%nat ->
  br_peek r n = (N_of_bits (take_ext n (br_rem r)), r).
Proof.
  intros r n [He Hp] Hne Hn. unfold br_peek.
  assert (Hc : (0 <? N.of_nat n) && (br_threshold r <? br_pos r + N.of_nat n) = false).
  { unfold br_threshold.
    assert (0 < br_len r).
    { destruct (br_rem r); [contradiction|]. cbn [length] in Hp. lia. }
    destruct (N.eqb_spec (br_len r) 0); [lia|].
    destruct (0 <? N.of_nat n); [|reflexivity]. cbn [andb]. apply N.ltb_ge. lia. }
  rewrite Hc. destruct r as [rm p ln e]. cbn in *. subst e. reflexivity.
Qed.

Lemma br_consume_wf : forall r l rest, br_wf r -> br_rem r = l ++ rest ->
  br_wf (br_consume r (length l)) /\ br_rem (br_consume r (length l)) = rest.
Proof.
  intros r l rest [He Hp] Hrem. unfold br_wf, br_consume. cbn.
  rewrite Hrem, skipn_app_exact. rewrite Hrem, app_length in Hp. split; [split|]; [assumption|lia|reflexivity].
Qed.

Lemma br_read_small : forall r l rest, br_wf r -> br_rem r = l ++ rest -> (length l <= 56)%nat ->
  br_read_bits r (length l) = (N_of_bits l, br_consume r (length l)).
Proof.
  intros r l rest Hwf Hrem Hn. unfold br_read_bits.
  destruct (Nat.leb_spec (length l) 56); [|lia].
  rewrite (br_peek_app r l rest Hwf Hrem). reflexivity.
Qed.

Lemma br_read_bits_app : forall r l rest, br_wf r -> br_rem r = l ++ rest -> (length l <= 64)%nat ->
  exists r', br_read_bits r (length l) = (N_of_bits l, r') /\ br_wf r' /\ br_rem r' = rest.
Proof.
  intros r l rest Hwf Hrem Hn.
  destruct (Nat.leb_spec (length l) 56) as [Hs|Hs].
  - exists (br_consume r (length l)). rewrite (br_read_small r l rest Hwf Hrem Hs).
    split; [reflexivity|]. apply br_consume_wf; assumption.
  - unfold br_read_bits. destruct (Nat.leb_spec (length l) 56); [lia|].
    set (hi := firstn 56 l). set (lo := skipn 56 l).
    assert (Hl : l = hi ++ lo) by (symmetry; apply firstn_skipn).
    assert (Hhi : length hi = 56%nat) by (unfold hi; rewrite firstn_length; lia).
    assert (Hlo : length lo = (length l - 56)%nat) by (unfold lo; rewrite skipn_length; lia).
    assert (Hrem1 : br_rem r = hi ++ (lo ++ rest)) by (rewrite Hrem, Hl, app_assoc; reflexivity).
    pose proof (br_peek_app r hi (lo ++ rest) Hwf Hrem1) as Hp1. rewrite Hhi in Hp1. rewrite Hp1.
    pose proof (br_consume_wf r hi (lo ++ rest) Hwf Hrem1) as [Hwf2 Hrem2]. rewrite Hhi in Hwf2, Hrem2.
    pose proof (br_peek_app _ lo rest Hwf2 Hrem2) as Hp2. rewrite Hlo in Hp2. rewrite Hp2.
    pose proof (br_consume_wf _ lo rest Hwf2 Hrem2) as [Hwf3 Hrem3]. rewrite Hlo in Hwf3, Hrem3.
    eexists. split; [|split; eassumption].
    f_equal. assert (Hv : N_of_bits l = N_of_bits hi * 2 ^ N.of_nat (length l - 56) + N_of_bits lo).
    { rewrite Hl at 1. rewrite N_of_bits_app, Hlo. reflexivity. }
    rewrite Hv. reflexivity.
Qed.

Lemma br_read_bit_app : forall r b rest, br_wf r -> br_rem r = b :: rest ->
  exists r', br_read_bit r = (b, r') /\ br_wf r' /\ br_rem r' = rest.
Proof.
  intros r b rest Hwf Hrem. unfold br_read_bit.
  destruct (br_read_bits_app r [b] rest Hwf Hrem ltac:(cbn; lia)) as [r' [H1 [H2 H3]]].
  cbn [length] in H1. rewrite H1. exists r'. split; [|split; assumption].
  destruct b; reflexivity.
Qed.

(* ---------- leading / trailing zero counts ---------- *)
Lemma size_le_64 : forall x, x < two64 -> N.size x <= 64.
Proof.
  intros x Hx. destruct (N.eq_dec x 0) as [->|Hn]; [cbn; lia|].
  pose proof (N.size_le x) as H. rewrite N.succ_double_spec in H.
  destruct (N.le_gt_cases (N.size x) 64) as [|Hgt]; [assumption|exfalso].
  assert (2 ^ 65 <= 2 ^ N.size x) by (apply N.pow_le_mono_r; lia).
  unfold two64 in Hx. change (2 ^ 65) with 36893488147419103232 in *. lia.
Qed.

Lemma clz64_spec : forall x, x < two64 -> x < 2 ^ (64 - clz64 x) /\ clz64 x <= 64.
Proof.
  intros x Hx. unfold clz64. pose proof (size_le_64 x Hx).
  replace (64 - (64 - N.size x)) with (N.size x) by lia.
  split; [apply N.size_gt|lia].
Qed.

Lemma clz64_lower : forall x, 0 < x -> 2 ^ (64 - clz64 x) <= 2 * x.
Proof.
  intros x Hx. unfold clz64.
  destruct (N.le_gt_cases (N.size x) 64).
  - replace (64 - (64 - N.size x)) with (N.size x) by lia.
    rewrite N.size_log2 by lia. rewrite N.pow_succ_r'. pose proof (N.log2_spec x Hx). lia.
  - replace (64 - (64 - N.size x)) with 64 by lia.
    rewrite N.size_log2 in * by lia.
    pose proof (N.log2_spec x Hx) as [Hl _].
    assert (2 ^ 64 <= 2 ^ N.log2 x) by (apply N.pow_le_mono_r; lia). lia.
Qed.

Lemma ctz_fuel_div : forall f v, exists k, v = k * 2 ^ ctz_fuel f v.
Proof.
  induction f as [|f IH]; intros v; cbn [ctz_fuel].
  - exists v. rewrite N.pow_0_r. lia.
  - destruct (N.odd v) eqn:Ho.
    + exists v. rewrite N.pow_0_r. lia.
    + destruct (IH (v / 2)) as [k Hk]. exists k.
      rewrite N.pow_add_r. change (2 ^ 1) with 2.
      assert (He : N.even v = true) by (rewrite <- N.negb_odd, Ho; reflexivity).
      apply N.even_spec in He. destruct He as [m Hm]. subst v.
      rewrite N.mul_comm, N.div_mul in Hk by lia.
      rewrite N.mul_comm, N.div_mul by lia. lia.
Qed.

Lemma ctz_fuel_le : forall f v, ctz_fuel f v <= N.of_nat f.
Proof.
  induction f as [|f IH]; intros v; cbn [ctz_fuel]; [lia|].
  destruct (N.odd v); [lia|]. specialize (IH (v / 2)). lia.
Qed.

Lemma ctz64_div : forall x, 0 < x -> exists k, x = k * 2 ^ ctz64 x.
Proof.
  intros x Hx. unfold ctz64. destruct (N.eqb_spec x 0); [lia|]. apply ctz_fuel_div.
Qed.

Lemma pow2_lt_inv : forall a b, 2 ^ a < 2 ^ b -> a < b.
Proof. intros a b H. apply (N.pow_lt_mono_r_iff 2); [lia|assumption]. Qed.

Lemma clz_ctz_bound : forall x, 0 < x -> x < two64 -> clz64 x + ctz64 x <= 63.
Proof.
  intros x H0 Hx. destruct (clz64_spec x Hx) as [Hc Hc64].
  destruct (ctz64_div x H0) as [k Hk].
  assert (Hk0 : 0 < k) by (destruct (N.eq_dec k 0); [subst; lia|lia]).
  assert (2 ^ ctz64 x <= x).
  { rewrite Hk at 2. pose proof (N.pow_nonzero 2 (ctz64 x) ltac:(lia)). nia. }
  assert (2 ^ ctz64 x < 2 ^ (64 - clz64 x)) by lia.
  apply pow2_lt_inv in H1. lia.
Qed.

Lemma shiftr_lt : forall x t n, x < 2 ^ (t + n) -> N.shiftr x t < 2 ^ n.
Proof.
  intros x t n H. rewrite N.shiftr_div_pow2.
  apply N.div_lt_upper_bound; [apply N.pow_nonzero; lia|]. rewrite <- N.pow_add_r. assumption.
Qed.

Lemma shl_shr_exact : forall x t k, x = k * 2 ^ t -> N.shiftl (N.shiftr x t) t = x.
Proof.
  intros x t k H. rewrite N.shiftr_div_pow2, N.shiftl_mul_pow2. subst x.
  rewrite N.div_mul by (apply N.pow_nonzero; lia). reflexivity.
Qed.

(* ---------- compact varint ---------- *)
(* table facts, re-checked by computation whenever gen/Tables.v is regenerated *)
Definition uvc_class_ok (k w : N) : bool :=
  (* every leading-zero count z of a value in class (k, w) selects count k+1+w and mask 2^w;
     the reader at 8+k selects shift 56-(k+1+w), mask 2^w-1, consume k+1+w *)
  (tbl readShiftByZeros (8 + k) =? 56 - (k + 1 + w)) &&
  (tbl readMaskByZeros (8 + k) =? 2 ^ w - 1) &&
  (tbl readConsumeCountByZeros (8 + k) =? k + 1 + w).

Definition uvc_write_ok (z k w : N) : bool :=
  (tbl writeBitsCountByZeros z =? k + 1 + w) && (tbl writeMaskByZeros z =? 2 ^ w).

(* for every leading-zero count z in [16,64]: the class the write tables select *)
Definition uvc_class_of_z (z : N) : N * N :=
  if z =? 64 then (0, 0)
  else if 62 <=? z then (1, 2)
  else if 59 <=? z then (2, 5)
  else if 52 <=? z then (3, 12)
  else if 45 <=? z then (4, 19)
  else if 38 <=? z then (5, 26)
  else if 31 <=? z then (6, 33)
  else (7, 48).

Definition zs_16_64 : list N := map N.of_nat (seq 16 49).

Definition uvc_tables_check : bool :=
  forallb (fun z => let '(k, w) := uvc_class_of_z z in
                    uvc_write_ok z k w && uvc_class_ok k w && (64 - z <=? w)) zs_16_64.

Lemma uvc_tables_ok : uvc_tables_check = true.
Proof. vm_compute. reflexivity. Qed.

Lemma uvc_tables_at : forall z, 16 <= z <= 64 ->
  let '(k, w) := uvc_class_of_z z in
  uvc_write_ok z k w = true /\ uvc_class_ok k w = true /\ 64 - z <= w.
Proof.
  intros z Hz. pose proof uvc_tables_ok as H. unfold uvc_tables_check in H.
  rewrite forallb_forall in H.
  assert (Hin : In z zs_16_64).
  { unfold zs_16_64. apply in_map_iff. exists (N.to_nat z). split; [lia|].
    apply in_seq. lia. }
  specialize (H z Hin). destruct (uvc_class_of_z z) as [k w].
  apply andb_true_iff in H. destruct H as [H H3]. apply andb_true_iff in H. destruct H as [H1 H2].
  split; [assumption|split; [assumption|]]. apply N.leb_le. assumption.
Qed.

Lemma uvc_class_kw : forall z, let '(k, w) := uvc_class_of_z z in k + 1 + w <= 56 /\ k <= 7.
Proof.
  intros z. unfold uvc_class_of_z.
  repeat match goal with |- context [if ?c then _ else _] => destruct c end; cbn; lia.
Qed.

Lemma lor_disjoint_pow2 : forall v w, v < 2 ^ w -> N.lor v (2 ^ w) = 2 ^ w + v.
Proof.
  intros v w Hv. rewrite N.lor_comm.
  assert (Hl : N.land (2 ^ w) v = 0); [|rewrite <- N.lxor_lor, <- N.add_nocarry_lxor by exact Hl; reflexivity].
  apply N.bits_inj_0. intros n. rewrite N.land_spec.
  destruct (N.eq_dec n w) as [->|Hn].
  - rewrite N.pow2_bits_true. cbn [andb].
    destruct (N.eq_dec v 0) as [->|Hv0]; [apply N.bits_0|].
    apply N.bits_above_log2. apply N.log2_lt_pow2; lia.
  - rewrite N.pow2_bits_false by lia. reflexivity.
Qed.

(* bits of 2^w + v on k+1+w bits: k zeros, a one, the w-bit payload *)
Lemma bits_prefix_form : forall (k w : nat) v, v < 2 ^ N.of_nat w ->
  bits_of_N (k + 1 + w) (2 ^ N.of_nat w + v) = zeros k ++ [true] ++ bits_of_N w v.
Proof.
  intros k w v Hv.
  assert (Hlen : length (zeros k ++ [true] ++ bits_of_N w v) = (k + 1 + w)%nat).
  { rewrite !app_length, length_zeros, length_bits_of_N. cbn. lia. }
  rewrite <- Hlen at 1. rewrite <- (bits_of_N_of_bits (zeros k ++ [true] ++ bits_of_N w v)) at 2.
  f_equal. rewrite !N_of_bits_app, N_of_bits_zeros, N_of_bits_of_N_small by assumption.
  rewrite length_bits_of_N. change (N_of_bits [true]) with 1.
  rewrite app_length, length_bits_of_N. lia.
Qed.

Lemma cls_thr : forall v z t, v < 2 ^ (64 - z) -> 2 ^ (64 - z) <= 2 * v -> z <= 64 -> t <= 64 ->
  (v <? 2 ^ (64 - t)) = (t <=? z).
Proof.
  intros v z t Hup Hlo Hz Ht.
  destruct (N.leb_spec t z) as [Hle|Hgt].
  - apply N.ltb_lt. eapply N.lt_le_trans; [exact Hup|]. apply N.pow_le_mono_r; lia.
  - apply N.ltb_ge.
    assert (H : 2 ^ (N.succ (64 - t)) <= 2 ^ (64 - z)) by (apply N.pow_le_mono_r; lia).
    rewrite N.pow_succ_r' in H. lia.
Qed.

Theorem uvc_write_is_spec : forall v, v < two48 -> uvc_write_bits v = uvc_spec_bits v.
Proof.
  intros v Hv. unfold uvc_write_bits, uvc_spec_bits.
  assert (Hv64 : v < two64) by (unfold two48, two64 in *; lia).
  destruct (clz64_spec v Hv64) as [Hup Hc64].
  assert (Hz16 : 16 <= clz64 v).
  { unfold clz64. assert (N.size v <= 48); [|lia].
    destruct (N.eq_dec v 0) as [->|Hn]; [cbn; lia|].
    pose proof (N.size_le v) as H. rewrite N.succ_double_spec in H.
    destruct (N.le_gt_cases (N.size v) 48) as [|Hgt]; [assumption|exfalso].
    assert (2 ^ 49 <= 2 ^ N.size v) by (apply N.pow_le_mono_r; lia).
    unfold two48 in Hv. change (2 ^ 49) with 562949953421312 in *. lia. }
  pose proof (uvc_tables_at (clz64 v) ltac:(lia)) as Ht.
  (* identify the class of clz64 v with the spec class of v *)
  assert (Hcls : uvc_class_of_z (clz64 v) =
                 (N.of_nat (fst (uvc_spec_class v)), N.of_nat (snd (uvc_spec_class v)))).
  { unfold uvc_class_of_z, uvc_spec_class.
    destruct (N.eqb_spec v 0) as [->|Hv0].
    { cbn. reflexivity. }
    assert (Hpos : 0 < v) by lia.
    pose proof (clz64_lower v Hpos) as Hlo.
    assert (Hne64 : clz64 v <> 64).
    { intro E. rewrite E in Hup. cbn in Hup. lia. }
    destruct (N.eqb_spec (clz64 v) 64); [contradiction|].
    change 4 with (2 ^ (64 - 62)). change 32 with (2 ^ (64 - 59)).
    change 4096 with (2 ^ (64 - 52)). change 524288 with (2 ^ (64 - 45)).
    change 67108864 with (2 ^ (64 - 38)). change 8589934592 with (2 ^ (64 - 31)).
    rewrite !(cls_thr v (clz64 v)) by (assumption || lia).
    repeat match goal with |- context [N.leb ?a ?b] => destruct (N.leb a b) end; reflexivity. }
  rewrite Hcls in Ht. destruct (uvc_spec_class v) as [k w]. cbn [fst snd] in Ht.
  destruct Ht as [Hw [_ Hfit]].
  unfold uvc_write_ok in Hw. apply andb_true_iff in Hw. destruct Hw as [Hcnt Hmask].
  apply N.eqb_eq in Hcnt. apply N.eqb_eq in Hmask. rewrite Hcnt, Hmask.
  assert (Hvw : v < 2 ^ N.of_nat w).
  { eapply N.lt_le_trans; [exact Hup|]. apply N.pow_le_mono_r; lia. }
  rewrite lor_disjoint_pow2 by assumption.
  replace (N.to_nat (N.of_nat k + 1 + N.of_nat w)) with (k + 1 + w)%nat by lia.
  apply bits_prefix_form. assumption.
Qed.

(* ---------- reading a compact varint back ---------- *)
Lemma take_ext_app_ge : forall n l rest, (length l <= n)%nat ->
  take_ext n (l ++ rest) = l ++ take_ext (n - length l) rest.
Proof.
  intros n l rest Hn. unfold take_ext.
  rewrite firstn_app. rewrite (firstn_all2 l) by lia.
  rewrite <- app_assoc. f_equal. f_equal. rewrite !app_length. f_equal. lia.
Qed.

Lemma size_of_range : forall x m, 2 ^ m <= x -> x < 2 ^ (m + 1) -> N.size x = m + 1.
Proof.
  intros x m Hlo Hhi.
  assert (0 < x) by (pose proof (N.pow_nonzero 2 m ltac:(lia)); lia).
  rewrite N.size_log2 by lia. rewrite N.add_1_r. f_equal.
  rewrite N.add_1_r, N.pow_succ_r' in Hhi.
  apply (N.log2_unique' x m (x - 2 ^ m)); lia.
Qed.

Lemma uvc_read_class : forall (k w : nat) r v rest,
  uvc_class_ok (N.of_nat k) (N.of_nat w) = true -> (k + 1 + w <= 56)%nat ->
  v < 2 ^ N.of_nat w -> br_wf r ->
  br_rem r = (zeros k ++ [true] ++ bits_of_N w v) ++ rest ->
  exists r', br_read_uvc r = (v, r') /\ br_wf r' /\ br_rem r' = rest.
Proof.
  intros k w r v rest Hok Hc Hv Hwf Hrem.
  set (enc := zeros k ++ [true] ++ bits_of_N w v) in *.
  assert (Hlen : length enc = (k + 1 + w)%nat).
  { unfold enc. rewrite !app_length, length_zeros, length_bits_of_N. cbn. lia. }
  assert (Hne : br_rem r <> []).
  { rewrite Hrem. unfold enc. destruct (zeros k); cbn; discriminate. }
  unfold br_read_uvc. rewrite (br_peek_ext r 56 Hwf Hne ltac:(lia)).
  rewrite Hrem. rewrite take_ext_app_ge by lia.
  set (tail := take_ext (56 - length enc) rest).
  assert (Htl : length tail = (56 - (k + 1 + w))%nat) by (unfold tail; rewrite take_ext_length; lia).
  rewrite N_of_bits_app. rewrite Htl.
  assert (Henc : N_of_bits enc = 2 ^ N.of_nat w + v).
  { unfold enc. rewrite !N_of_bits_app, N_of_bits_zeros, N_of_bits_of_N_small by assumption.
    rewrite length_bits_of_N. change (N_of_bits [true]) with 1. lia. }
  rewrite Henc.
  set (d := N.of_nat (56 - (k + 1 + w))).
  pose proof (N_of_bits_lt tail) as Htlt. rewrite Htl in Htlt. fold d in Htlt.
  set (t := N_of_bits tail) in *.
  set (val := (2 ^ N.of_nat w + v) * 2 ^ d + t).
  assert (Hsize : N.size val = 56 - N.of_nat k).
  { replace (56 - N.of_nat k) with (N.of_nat w + d + 1) by lia.
    apply size_of_range; unfold val.
    - rewrite N.pow_add_r. nia.
    - replace (N.of_nat w + d + 1) with (N.succ (N.of_nat w) + d) by lia.
      rewrite N.pow_add_r, N.pow_succ_r'. nia. }
  unfold clz64. rewrite Hsize. replace (64 - (56 - N.of_nat k)) with (8 + N.of_nat k) by lia.
  unfold uvc_class_ok in Hok.
  apply andb_true_iff in Hok. destruct Hok as [Hok Hcons].
  apply andb_true_iff in Hok. destruct Hok as [Hsh Hmk].
  apply N.eqb_eq in Hcons. apply N.eqb_eq in Hsh. apply N.eqb_eq in Hmk.
  rewrite Hsh, Hmk, Hcons.
  replace (56 - (N.of_nat k + 1 + N.of_nat w)) with d by lia.
  assert (Hret : N.land (N.shiftr val d) (2 ^ N.of_nat w - 1) = v).
  { rewrite N.shiftr_div_pow2. unfold val.
    rewrite N.div_add_l by (apply N.pow_nonzero; lia).
    rewrite (N.div_small t) by assumption. rewrite N.add_0_r.
    replace (2 ^ N.of_nat w - 1) with (N.ones (N.of_nat w)) by (rewrite N.ones_equiv; lia).
    rewrite N.land_ones.
    replace (2 ^ N.of_nat w + v) with (v + 1 * 2 ^ N.of_nat w) by lia.
    rewrite N.mod_add by (apply N.pow_nonzero; lia). apply N.mod_small. assumption. }
  rewrite Hret.
  replace (N.to_nat (N.of_nat k + 1 + N.of_nat w)) with (length enc) by lia.
  destruct (br_consume_wf r enc rest Hwf Hrem) as [Hwf' Hrem'].
  eexists. split; [reflexivity|]. split; assumption.
Qed.

Theorem uvc_read_spec : forall r v rest, v < two48 -> br_wf r ->
  br_rem r = uvc_spec_bits v ++ rest ->
  exists r', br_read_uvc r = (v, r') /\ br_wf r' /\ br_rem r' = rest.
Proof.
  intros r v rest Hv Hwf Hrem. unfold uvc_spec_bits, uvc_spec_class in Hrem.
  unfold two48 in Hv.
  destruct (N.eqb_spec v 0);
    [apply (uvc_read_class 0 0 r v rest); [reflexivity|lia|cbn; lia|assumption|assumption]|].
  destruct (N.ltb_spec v 4);
    [apply (uvc_read_class 1 2 r v rest); [reflexivity|lia|cbn; lia|assumption|assumption]|].
  destruct (N.ltb_spec v 32);
    [apply (uvc_read_class 2 5 r v rest); [reflexivity|lia|cbn; lia|assumption|assumption]|].
  destruct (N.ltb_spec v 4096);
    [apply (uvc_read_class 3 12 r v rest); [reflexivity|lia|cbn; lia|assumption|assumption]|].
  destruct (N.ltb_spec v 524288);
    [apply (uvc_read_class 4 19 r v rest); [reflexivity|lia|cbn; lia|assumption|assumption]|].
  destruct (N.ltb_spec v 67108864);
    [apply (uvc_read_class 5 26 r v rest); [reflexivity|lia|cbn; lia|assumption|assumption]|].
  destruct (N.ltb_spec v 8589934592);
    [apply (uvc_read_class 6 33 r v rest); [reflexivity|lia|cbn; lia|assumption|assumption]|].
  apply (uvc_read_class 7 48 r v rest); [reflexivity|lia|cbn; lia|assumption|assumption].
Qed.

Theorem uvc_roundtrip : forall r v rest, v < two48 -> br_wf r ->
  br_rem r = uvc_write_bits v ++ rest ->
  exists r', br_read_uvc r = (v, r') /\ br_wf r' /\ br_rem r' = rest.
Proof.
  intros r v rest Hv Hwf Hrem. rewrite uvc_write_is_spec in Hrem by assumption.
  apply uvc_read_spec; assumption.
Qed.
