(* Bit strings, MSB first, and their relation to numbers.
   This is the "specification side" of go/pkg/bitstream.go: a bit column is the
   concatenation of the bit strings written to it, zero padded to a byte. *)
From Coq Require Import List NArith ZArith Lia Bool.
Import ListNotations.
Open Scope N_scope.

Definition bits := list bool.

(* value of a bit string read as a big-endian number *)
Fixpoint N_of_bits_acc (acc : N) (l : bits) : N :=
  match l with
  | [] => acc
  | b :: r => N_of_bits_acc (2 * acc + (if b then 1 else 0)) r
  end.
Definition N_of_bits (l : bits) : N := N_of_bits_acc 0 l.

(* the [n] low bits of [v], most significant first *)
Fixpoint bits_of_N (n : nat) (v : N) : bits :=
  match n with
  | O => []
  | S m => bits_of_N m (v / 2) ++ [N.odd v]
  end.

Definition zeros (n : nat) : bits := repeat false n.

(* pad a bit string with zero bits to a multiple of 8 *)
Definition pad8 (l : bits) : bits :=
  l ++ zeros ((8 - length l mod 8) mod 8)%nat.

(* pack bits (length multiple of 8) into bytes *)
Fixpoint bytes_of_bits_fuel (fuel : nat) (l : bits) : list N :=
  match fuel with
  | O => []
  | S f =>
    match l with
    | [] => []
    | _ => N_of_bits (firstn 8 l) :: bytes_of_bits_fuel f (skipn 8 l)
    end
  end.
Definition bytes_of_bits (l : bits) : list N := bytes_of_bits_fuel (length l) l.

Definition bits_of_bytes (bs : list N) : bits := flat_map (bits_of_N 8) bs.

(* what BitsWriter.Close()+Bytes() must return for the bit string [l] *)
Definition column_bytes (l : bits) : list N := bytes_of_bits (pad8 l).
