(* Facts about bit strings and numbers. *)
From Coq Require Import List NArith ZArith Lia Bool.
From Stef Require Import Bits.
Import ListNotations.
Open Scope N_scope.

Lemma N_of_bits_acc_spec : forall l acc,
  N_of_bits_acc acc l = acc * 2 ^ N.of_nat (length l) + N_of_bits l.
Proof.
  unfold N_of_bits.
  induction l as [|b r IH]; intros acc.
  - cbn [N_of_bits_acc length]. change (N.of_nat 0) with 0. rewrite N.pow_0_r. lia.
  - cbn [N_of_bits_acc length]. rewrite IH. rewrite (IH (2 * 0 + _)).
    rewrite Nat2N.inj_succ, N.pow_succ_r'. destruct b; lia.
Qed.

Lemma N_of_bits_cons : forall b r,
  N_of_bits (b :: r) = (if b then 1 else 0) * 2 ^ N.of_nat (length r) + N_of_bits r.
Proof.
  intros. unfold N_of_bits at 1. cbn [N_of_bits_acc]. rewrite N_of_bits_acc_spec.
  destruct b; lia.
Qed.

Lemma N_of_bits_app : forall a b,
  N_of_bits (a ++ b) = N_of_bits a * 2 ^ N.of_nat (length b) + N_of_bits b.
Proof.
  induction a as [|x a IH]; intros b.
  - cbn [app]. unfold N_of_bits at 2. cbn. lia.
  - rewrite <- app_comm_cons. rewrite !N_of_bits_cons, IH, app_length.
    rewrite Nat2N.inj_add, N.pow_add_r. lia.
Qed.

Lemma N_of_bits_lt : forall l, N_of_bits l < 2 ^ N.of_nat (length l).
Proof.
  induction l as [|b r IH].
  - cbn. lia.
  - rewrite N_of_bits_cons. cbn [length]. rewrite Nat2N.inj_succ, N.pow_succ_r'.
    destruct b; lia.
Qed.

Lemma N_of_bits_zeros : forall n, N_of_bits (zeros n) = 0.
Proof.
  induction n as [|n IH]; [reflexivity|].
  unfold zeros in *. cbn [repeat]. rewrite N_of_bits_cons, IH. lia.
Qed.

Lemma length_zeros : forall n, length (zeros n) = n.
Proof. intros; apply repeat_length. Qed.

Lemma length_bits_of_N : forall n v, length (bits_of_N n v) = n.
Proof.
  induction n as [|n IH]; intros v; cbn [bits_of_N]; [reflexivity|].
  rewrite app_length, IH. cbn. lia.
Qed.

Lemma N_of_bits_of_N : forall n v, N_of_bits (bits_of_N n v) = v mod 2 ^ N.of_nat n.
Proof.
  induction n as [|n IH]; intros v.
  - cbn. rewrite N.mod_1_r. reflexivity.
  - cbn [bits_of_N]. rewrite N_of_bits_app, IH. cbn [length].
    change (N.of_nat 1) with 1. rewrite N.pow_1_r.
    rewrite Nat2N.inj_succ, N.pow_succ_r'.
    assert (Hb : N_of_bits [N.odd v] = v mod 2).
    { unfold N_of_bits. cbn. rewrite <- N.bit0_mod. rewrite N.bit0_odd. destruct (N.odd v); reflexivity. }
    rewrite Hb.
    assert (H2 : 2 ^ N.of_nat n <> 0) by (apply N.pow_nonzero; lia).
    rewrite N.mod_mul_r by lia.
    lia.
Qed.

Lemma N_of_bits_of_N_small : forall n v, v < 2 ^ N.of_nat n -> N_of_bits (bits_of_N n v) = v.
Proof. intros. rewrite N_of_bits_of_N. apply N.mod_small. assumption. Qed.

Lemma bits_of_N_of_bits : forall l, bits_of_N (length l) (N_of_bits l) = l.
Proof.
  intros l. induction l as [|b r IH] using rev_ind; [reflexivity|].
  rewrite app_length. cbn [length]. rewrite Nat.add_1_r. cbn [bits_of_N].
  rewrite N_of_bits_app. cbn [length]. change (N.of_nat 1) with 1. rewrite N.pow_1_r.
  assert (Hb : N_of_bits [b] = if b then 1 else 0) by (destruct b; reflexivity).
  rewrite Hb.
  assert (Hd : (N_of_bits r * 2 + (if b then 1 else 0)) / 2 = N_of_bits r).
  { symmetry. apply N.div_unique with (if b then 1 else 0); destruct b; lia. }
  assert (Ho : N.odd (N_of_bits r * 2 + (if b then 1 else 0)) = b).
  { destruct b.
    - replace (N_of_bits r * 2 + 1) with (1 + 2 * N_of_bits r) by lia.
      rewrite N.odd_add_mul_2. reflexivity.
    - rewrite N.add_0_r, N.odd_mul. cbn. apply andb_false_r. }
  rewrite Hd, Ho, IH. reflexivity.
Qed.

(* a number is determined by its n-bit string when it fits *)
Lemma bits_of_N_inj : forall n a b, a < 2 ^ N.of_nat n -> b < 2 ^ N.of_nat n ->
  bits_of_N n a = bits_of_N n b -> a = b.
Proof.
  intros n a b Ha Hb H.
  rewrite <- (N_of_bits_of_N_small n a Ha), <- (N_of_bits_of_N_small n b Hb), H. reflexivity.
Qed.

Lemma firstn_app_exact : forall {A} (a b : list A), firstn (length a) (a ++ b) = a.
Proof. intros. rewrite firstn_app, Nat.sub_diag, firstn_all. cbn. apply app_nil_r. Qed.

Lemma skipn_app_exact : forall {A} (a b : list A), skipn (length a) (a ++ b) = b.
Proof. intros. rewrite skipn_app, Nat.sub_diag, skipn_all. reflexivity. Qed.
