(* LEB128 (encoding/binary Uvarint) and zig-zag, as used by go/pkg/membuffer.go
   BytesWriter.WriteUvarint/WriteVarint and BytesReader.ReadUvarint/ReadVarint,
   plus binary.ReadUvarint over a byte source (frame headers). *)
From Coq Require Import List NArith ZArith Lia Bool.
From Stef Require Import Bits BitIO.
Import ListNotations.
Open Scope N_scope.

(* binary.AppendUvarint *)
Fixpoint leb_enc_fuel (fuel : nat) (v : N) : list N :=
  match fuel with
  | O => []
  | S f => if v <? 128 then [v] else (v mod 128 + 128) :: leb_enc_fuel f (v / 128)
  end.
Definition leb_enc (v : N) : list N := leb_enc_fuel 10 v.

(* binary.Uvarint(buf): Some (value, rest) or None when n <= 0
   (buffer exhausted, more than 10 bytes, or 10th byte > 1). *)
Fixpoint leb_dec_loop (fuel : nat) (i : nat) (x : N) (s : N) (l : list N) : option (N * list N) :=
  match fuel with
  | O => None
  | S f =>
    match l with
    | [] => None
    | b :: r =>
      if (i =? 10)%nat then None
      else if b <? 128 then
        if ((i =? 9)%nat && (1 <? b))%bool then None
        else Some (x + b * 2 ^ s, r)
      else leb_dec_loop f (S i) (x + (b mod 128) * 2 ^ s) (s + 7) r
    end
  end.
Definition leb_dec (l : list N) : option (N * list N) := leb_dec_loop 11 0 0 0 l.

(* int64 <-> uint64 reinterpretation *)
Definition two63 : Z := 9223372036854775808%Z.
Definition to_u64 (x : Z) : N := Z.to_N (x mod Z.of_N two64).
Definition to_i64 (u : N) : Z :=
  let z := Z.of_N (u mod two64) in if (z <? two63)%Z then z else (z - Z.of_N two64)%Z.

(* uint64((x >> 63) ^ (x << 1)) for int64 x *)
Definition zigzag_enc (x : Z) : N :=
  if (0 <=? x)%Z then Z.to_N (2 * x) else Z.to_N (- 2 * x - 1).
(* int64((u >> 1) ^ -(u & 1)) *)
Definition zigzag_dec (u : N) : Z :=
  if N.even u then Z.of_N (u / 2) else (- Z.of_N (u / 2) - 1)%Z.

Definition varint_enc (x : Z) : list N := leb_enc (zigzag_enc x).
Definition varint_dec (l : list N) : option (Z * list N) :=
  match leb_dec l with
  | Some (u, r) => Some (zigzag_dec u, r)
  | None => None
  end.
