(* Round trips of LEB128 and zig-zag over the whole 64-bit domain. *)
From Coq Require Import List NArith ZArith Lia Bool ZifyN ZifyNat ZifyBool.
From Stef Require Import Bits BitIO Varint.
Import ListNotations.
Open Scope N_scope.
Ltac Zify.zify_post_hook ::= Z.div_mod_to_equations.

Definition in_i64 (x : Z) : Prop := (- two63 <= x < two63)%Z.

Lemma two64_val : two64 = 2 ^ 64. Proof. reflexivity. Qed.

Lemma zigzag_enc_lt : forall x, in_i64 x -> zigzag_enc x < two64.
Proof.
  unfold in_i64, zigzag_enc, two63, two64. intros x H.
  destruct (Z.leb_spec 0 x); lia.
Qed.

Lemma zigzag_roundtrip : forall x, zigzag_dec (zigzag_enc x) = x.
Proof.
  intros x. unfold zigzag_enc, zigzag_dec.
  destruct (Z.leb_spec 0 x) as [H|H].
  - assert (He : N.even (Z.to_N (2 * x)) = true).
    { rewrite N.even_spec. exists (Z.to_N x). lia. }
    rewrite He. lia.
  - assert (He : N.even (Z.to_N (- 2 * x - 1)) = false).
    { rewrite <- N.negb_odd. apply negb_false_iff. rewrite N.odd_spec.
      exists (Z.to_N (- x - 1)). lia. }
    rewrite He. lia.
Qed.

Lemma zigzag_dec_enc : forall u, zigzag_enc (zigzag_dec u) = u.
Proof.
  intros u. unfold zigzag_enc, zigzag_dec.
  destruct (N.even u) eqn:He.
  - apply N.even_spec in He. destruct He as [k ->].
    destruct (Z.leb_spec 0 (Z.of_N (2 * k / 2))); lia.
  - rewrite <- N.negb_odd in He. apply negb_false_iff in He. apply N.odd_spec in He.
    destruct He as [k ->].
    destruct (Z.leb_spec 0 (- Z.of_N ((2 * k + 1) / 2) - 1)); lia.
Qed.

Lemma zigzag_dec_in_i64 : forall u, u < two64 -> in_i64 (zigzag_dec u).
Proof.
  unfold in_i64, zigzag_dec, two63, two64. intros u H. destruct (N.even u); lia.
Qed.

Lemma to_i64_to_u64 : forall x, in_i64 x -> to_i64 (to_u64 x) = x.
Proof.
  unfold in_i64, to_i64, to_u64, two63, two64. intros x H.
  rewrite N.mod_small by lia.
  rewrite Z2N.id by lia.
  destruct (Z.ltb_spec (x mod Z.of_N 18446744073709551616) 9223372036854775808); lia.
Qed.

Lemma to_u64_to_i64 : forall u, u < two64 -> to_u64 (to_i64 u) = u.
Proof.
  unfold to_i64, to_u64, two63, two64. intros u H.
  rewrite N.mod_small by lia.
  destruct (Z.ltb_spec (Z.of_N u) 9223372036854775808); lia.
Qed.

Lemma to_u64_lt : forall x, to_u64 x < two64.
Proof. unfold to_u64, two64. intros. lia. Qed.

Lemma to_i64_in : forall u, in_i64 (to_i64 u).
Proof.
  unfold in_i64, to_i64, two63, two64. intros u.
  destruct (Z.ltb_spec (Z.of_N (u mod 18446744073709551616)) 9223372036854775808); lia.
Qed.

(* ---- LEB128 ---- *)
Definition leb_bound (i : nat) : N := 2 ^ (64 - 7 * N.of_nat i).

Lemma leb_bound_step : forall i, (i <= 8)%nat -> leb_bound i = 128 * leb_bound (S i).
Proof.
  intros i Hi. unfold leb_bound.
  replace (64 - 7 * N.of_nat i) with (7 + (64 - 7 * N.of_nat (S i))) by lia.
  rewrite N.pow_add_r. reflexivity.
Qed.

Lemma leb_roundtrip_gen : forall f i, (i + f = 10)%nat -> (1 <= f)%nat ->
  forall fuel v x rest, (f <= fuel)%nat -> v < leb_bound i ->
  leb_dec_loop fuel i x (7 * N.of_nat i) (leb_enc_fuel f v ++ rest)
  = Some (x + v * 2 ^ (7 * N.of_nat i), rest).
Proof.
  induction f as [|f IH]; intros i Hif Hf fuel v x rest Hfuel Hv; [lia|].
  destruct fuel as [|fuel]; [lia|].
  cbn [leb_enc_fuel].
  destruct (N.ltb_spec v 128) as [Hs|Hs].
  - cbn [app leb_dec_loop].
    destruct (Nat.eqb_spec i 10) as [->|_]; [lia|].
    destruct (N.ltb_spec v 128); [|lia].
    destruct (Nat.eqb_spec i 9) as [->|Hn9]; cbn [andb].
    + unfold leb_bound in Hv. change (2 ^ (64 - 7 * N.of_nat 9)) with 2 in Hv.
      destruct (N.ltb_spec 1 v); [lia|]. reflexivity.
    + reflexivity.
  - assert (Hi8 : (i <= 8)%nat).
    { destruct (Nat.eq_dec i 9) as [->|]; [|lia].
      unfold leb_bound in Hv. change (2 ^ (64 - 7 * N.of_nat 9)) with 2 in Hv. lia. }
    cbn [app leb_dec_loop].
    destruct (Nat.eqb_spec i 10) as [->|_]; [lia|].
    destruct (N.ltb_spec (v mod 128 + 128) 128); [lia|].
    replace (7 * N.of_nat i + 7) with (7 * N.of_nat (S i)) by lia.
    rewrite IH; try lia.
    + f_equal. f_equal.
      replace (7 * N.of_nat (S i)) with (7 * N.of_nat i + 7) by lia.
      rewrite N.pow_add_r. change (2 ^ 7) with 128.
      replace ((v mod 128 + 128) mod 128) with (v mod 128).
      2:{ rewrite <- N.add_mod_idemp_r by lia. rewrite N.mod_same by lia.
          rewrite N.add_0_r. rewrite N.mod_mod by lia. reflexivity. }
      pose proof (N.div_mod v 128 ltac:(lia)) as Hdm.
      set (p := 2 ^ (7 * N.of_nat i)).
      rewrite Hdm at 3. lia.
    + rewrite (leb_bound_step i Hi8) in Hv.
      apply N.div_lt_upper_bound; lia.
Qed.

Theorem leb_roundtrip : forall v rest, v < two64 -> leb_dec (leb_enc v ++ rest) = Some (v, rest).
Proof.
  intros v rest Hv. unfold leb_dec, leb_enc.
  pose proof (leb_roundtrip_gen 10 0 eq_refl ltac:(lia) 11 v 0 rest ltac:(lia)) as H.
  change (7 * N.of_nat 0) with 0 in H. rewrite N.pow_0_r, N.mul_1_r, N.add_0_l in H.
  apply H. exact Hv.
Qed.

Lemma leb_enc_fuel_length : forall f v, (length (leb_enc_fuel f v) <= f)%nat.
Proof.
  induction f as [|f IH]; intros v; cbn [leb_enc_fuel]; [cbn; lia|].
  destruct (v <? 128); cbn [length]; [lia|]. specialize (IH (v / 128)). lia.
Qed.

Theorem leb_length : forall v, (length (leb_enc v) <= 10)%nat.
Proof. intros. apply leb_enc_fuel_length. Qed.

Lemma leb_enc_fuel_bytes : forall f v, Forall (fun b => b < 256) (leb_enc_fuel f v).
Proof.
  induction f as [|f IH]; intros v; cbn [leb_enc_fuel]; [constructor|].
  destruct (N.ltb_spec v 128).
  - constructor; [lia|constructor].
  - constructor; [|apply IH]. pose proof (N.mod_lt v 128). lia.
Qed.

Theorem varint_roundtrip : forall x rest, in_i64 x ->
  varint_dec (varint_enc x ++ rest) = Some (x, rest).
Proof.
  intros x rest Hx. unfold varint_dec, varint_enc.
  rewrite leb_roundtrip by (apply zigzag_enc_lt; exact Hx).
  rewrite zigzag_roundtrip. reflexivity.
Qed.
