(* Property C01: write/read round trip. (Being extended: frame layer and record layer theorems
   are added as they are proved; see DESIGN.md for the current coverage.) *)
From Coq Require Import List NArith ZArith Bool.
From Stef Require Import Bits BitsFacts BitIO BitIOFacts Varint VarintFacts Codecs CodecFacts.
Import ListNotations.
Open Scope N_scope.

(* column codecs: decoder ends in the encoder's state after every value (state lockstep),
   for every prior state - the induction step of the per-column part of the Sync invariant *)
Theorem C01_u64_lockstep : forall s v rest, u64_wf s -> v < two64 ->
  let '(s', b) := u64_encode s v in
  u64_decode s (b ++ rest) = Some (s', v, rest) /\ u64_wf s'.
Proof. exact u64_roundtrip. Qed.
Print Assumptions C01_u64_lockstep.

Theorem C01_f64_lockstep : forall s v r rest, f64_wf s -> v < two64 -> br_wf r ->
  let '(s', b) := f64_encode s v in
  br_rem r = b ++ rest ->
  exists r', f64_decode s r = (s', v, r') /\ br_wf r' /\ br_rem r' = rest /\ f64_wf s'.
Proof. exact f64_roundtrip. Qed.
Print Assumptions C01_f64_lockstep.

Theorem C01_strdict_lockstep : forall (d : sdict) (v rest : bytes),
  (Z.of_nat (length v) < two63)%Z -> (Z.of_nat (length d) < two63)%Z ->
  let '(d', b) := strdict_encode d v in
  strdict_decode d (b ++ rest) = inr (d', v, rest).
Proof. exact strdict_roundtrip. Qed.
Print Assumptions C01_strdict_lockstep.
