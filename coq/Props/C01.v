(* Property C01: write/read round trip. (Being extended: frame layer and record layer theorems
   are added as they are proved; see DESIGN.md for the current coverage.) *)
From Coq Require Import List NArith ZArith Bool.
From Stef Require Import Bits BitsFacts BitIO BitIOFacts Varint VarintFacts Codecs CodecFacts.
Import ListNotations.
Open Scope N_scope.

(* column codecs: decoder ends in the encoder's state after every value (state lockstep),
   for every prior state - the induction step of the per-column part of the Sync invariant *)
Theorem C01_u64_lockstep : forall s v rest, u64_wf s -> v < two64 ->
  let '(s', b) := u64_encode s v in
  u64_decode s (b ++ rest) = Some (s', v, rest) /\ u64_wf s'.
Proof. exact u64_roundtrip. Qed.
Print Assumptions C01_u64_lockstep.

Theorem C01_f64_lockstep : forall s v r rest, f64_wf s -> v < two64 -> br_wf r ->
  let '(s', b) := f64_encode s v in
  br_rem r = b ++ rest ->
  exists r', f64_decode s r = (s', v, r') /\ br_wf r' /\ br_rem r' = rest /\ f64_wf s'.
Proof. exact f64_roundtrip. Qed.
Print Assumptions C01_f64_lockstep.

Theorem C01_strdict_lockstep : forall (d : sdict) (v rest : bytes),
  (Z.of_nat (length v) < two63)%Z -> (Z.of_nat (length d) < two63)%Z ->
  let '(d', b) := strdict_encode d v in
  strdict_decode d (b ++ rest) = inr (d', v, rest).
Proof. exact strdict_roundtrip. Qed.
Print Assumptions C01_strdict_lockstep.

(* ---- record layer: one record, any schema tree, any prior state ----
   sync T ws rs: writer state ws and reader state rs agree on every column (the reader has consumed
   exactly what the writer had emitted before this record; T = what the frame will finally hold),
   and on every dictionary.  wire_ok: the wire tree a is a legal encoding step from prev in state ws
   (evaluated by the correspondence check on every record the implementation emits). *)
From Stef Require Import Schema Wire WireOk Writer WireFactsBase WireFacts.

Theorem C01_record_roundtrip : forall sizes a env t prev ws rs T fuel,
  sync T ws rs ->
  wire_ok sizes env t prev a ws (r_alloc rs) = true ->
  extends T (enc env t a ws) ->
  (height a < fuel)%nat ->
  exists rs', dec sizes fuel env t prev rs = Ok (rs', a)
           /\ sync T (enc env t a ws) rs'
           /\ r_alloc rs' = alloc_after sizes env t prev a (r_alloc rs).
Proof. exact wire_roundtrip. Qed.
Print Assumptions C01_record_roundtrip.

(* every record of a frame, in order, decoder state carried from one to the next *)
Theorem C01_records_roundtrip : forall sizes (recs : list (rnode * wire)) env t ws rs T fuel,
  sync T ws rs ->
  records_ok sizes env t recs ws = true ->
  extends T (enc_records env t recs ws) ->
  Forall (fun pa => (height (snd pa) < fuel)%nat) recs ->
  exists rs', dec_records sizes fuel env t (map fst recs) rs = Ok (rs', map snd recs)
           /\ sync T (enc_records env t recs ws) rs'.
Proof. exact wire_roundtrip_records. Qed.
Print Assumptions C01_records_roundtrip.

(* ---- whole stream: var header frame + any number of data frames (any restart flags, empty frames
   included), raw bytes in, every record out, in order, with the values of the apply chain, then a
   clean end.  The only hypotheses: the reader opened on the header, and the boolean stream_ok
   (frame limits, column sizes, wire_ok of every record against the value the reader holds), which the
   correspondence check evaluates on the streams the implementation really emits. *)
From Stef Require Import Frame FrameFacts Reader StreamFactsBase StreamFacts.

Theorem C01_stream_roundtrip_bytes : forall sc root sizes fuel hfl hdr t frames r0 kr k,
  frame_okb hfl hdr = true ->
  reader_open sc root (SrcBytes (emit_frame hfl hdr ++ emit_all (stream_encode t wst0 frames))) = inr r0 ->
  rd_tree r0 = t ->
  stream_ok sizes fuel t frames wst0 RNil (PM.empty _) = true ->
  (length frames < kr)%nat -> (length (concat (map snd frames)) < k)%nat ->
  read_all sizes fuel kr k r0 =
  (concat (map snd frames), stream_values t frames RNil (PM.empty _), Some RdEnd).
Proof. exact stream_roundtrip_open_bytes. Qed.
Print Assumptions C01_stream_roundtrip_bytes.

(* the same over already-split frames (zstd streams are decompressed frame by frame by the harness) *)
Theorem C01_stream_roundtrip_frames : forall sc root sizes fuel hfl hdr t frames trunc r0 kr k,
  reader_open sc root (SrcFrames ((hfl, hdr) :: stream_encode t wst0 frames) trunc) = inr r0 ->
  rd_tree r0 = t ->
  stream_ok sizes fuel t frames wst0 RNil (PM.empty _) = true ->
  (length frames < kr)%nat -> (length (concat (map snd frames)) < k)%nat ->
  read_all sizes fuel kr k r0 = (concat (map snd frames), stream_values t frames RNil (PM.empty _),
                                 Some (if trunc then RdErr true EEof else RdEnd)).
Proof. exact stream_roundtrip_open. Qed.
Print Assumptions C01_stream_roundtrip_frames.
