(* Property C02: emitted bytes are the specified wire format. *)
From Coq Require Import List NArith ZArith Bool.
From Stef Require Import Bits BitsFacts BitIO BitIOFacts Varint VarintFacts Codecs CodecFacts.
Import ListNotations.
Open Scope N_scope.

(* a string/bytes value that is in its dictionary is always written as a reference *)
Theorem C02_ref_when_present : forall d v, In v d ->
  exists ref, strdict_encode d v = (d, varint_enc (- Z.of_N ref - 1)).
Proof. exact strdict_ref_when_present. Qed.
Print Assumptions C02_ref_when_present.

Theorem C02_uvc_is_spec : forall v, v < two48 -> uvc_write_bits v = uvc_spec_bits v.
Proof. exact uvc_write_is_spec. Qed.
Print Assumptions C02_uvc_is_spec.
