(* Property C02: emitted bytes are the specified wire format. *)
From Coq Require Import List NArith ZArith Bool.
From Stef Require Import Bits BitsFacts BitIO BitIOFacts Varint VarintFacts Codecs CodecFacts.
Import ListNotations.
Open Scope N_scope.

(* a string/bytes value that is in its dictionary is always written as a reference *)
Theorem C02_ref_when_present : forall d v, In v d ->
  exists ref, strdict_encode d v = (d, varint_enc (- Z.of_N ref - 1)).
Proof. exact strdict_ref_when_present. Qed.
Print Assumptions C02_ref_when_present.

Theorem C02_uvc_is_spec : forall v, v < two48 -> uvc_write_bits v = uvc_spec_bits v.
Proof. exact uvc_write_is_spec. Qed.
Print Assumptions C02_uvc_is_spec.

(* the encoder only appends: bits and bytes already emitted into a column are a prefix of the
   column after any further record, and a legal step never raises the encoder's error flag *)
From Stef Require Import Schema Wire WireOk Writer WireFactsBase WireFacts.

Theorem C02_enc_appends_only : forall a env t ws, mono ws (enc env t a ws).
Proof. exact mono_enc. Qed.
Print Assumptions C02_enc_appends_only.

Theorem C02_enc_no_error : forall sizes a env t prev ws rs T,
  sync T ws rs -> wire_ok sizes env t prev a ws (r_alloc rs) = true ->
  extends T (enc env t a ws) -> w_err (enc env t a ws) = false.
Proof. exact enc_no_error. Qed.
Print Assumptions C02_enc_no_error.
