(* Property C03: decoding untrusted bytes never panics, hangs or over-allocates.
   The model is total by construction (every function is a terminating Gallina function that
   returns Ok or Err: there is no partial operation left that could correspond to a Go panic;
   the places where Go would index, slice or convert out of range are explicit checks in the
   model: RefNum range, oneof tag range, field counts, lengths).  The theorems below state the
   resource side: every size that is allocated for is bounded by a documented limit BEFORE the
   allocation, and reading frames makes progress on every input. *)
From Coq Require Import List NArith ZArith Bool.
From Stef Require Import Bits BitIO BitIOFacts Varint Codecs CodecFacts Schema Wire Frame FrameFacts SafetyFacts Nesting NestingFacts.
Import ListNotations.
Open Scope N_scope.

Theorem C03_frame_progress : forall bs fl c rest,
  parse_frame bs = inr (fl, c, rest) -> (length rest + 2 <= length bs)%nat.
Proof. exact parse_frame_progress. Qed.
Print Assumptions C03_frame_progress.

Theorem C03_frame_size_bound : forall bs fl c rest,
  parse_frame bs = inr (fl, c, rest) -> N.of_nat (length c) <= frame_size_limit /\ fl < 8.
Proof. exact parse_frame_size_bound. Qed.
Print Assumptions C03_frame_size_bound.

Theorem C03_wire_schema_bound : forall bs l, parse_wire_schema bs = inr l -> N.of_nat (length l) <= max_struct_count.
Proof. exact parse_wire_schema_bound. Qed.
Print Assumptions C03_wire_schema_bound.

Theorem C03_var_header_bounds : forall content schema ud, parse_var_header content = inr (schema, ud) ->
  N.of_nat (length schema) <= max_schema_wire_bytes /\ N.of_nat (length ud) <= max_user_data.
Proof. exact parse_var_header_bounds. Qed.
Print Assumptions C03_var_header_bounds.

Theorem C03_user_data_string_bound : forall bs s r, parse_string bs = inr (s, r) -> N.of_nat (length s) <= max_string_len.
Proof. exact parse_string_bound. Qed.
Print Assumptions C03_user_data_string_bound.

(* column data handed to the decoders never exceeds what the frame holds *)
Theorem C03_columns_within_frame : forall sizes bs acc cols, split_cols sizes bs acc = Some cols ->
  (fold_left (fun a x => a + N.to_nat (snd x)) sizes 0 <= length bs)%nat.
Proof. exact split_cols_total. Qed.
Print Assumptions C03_columns_within_frame.

(* over-reading a column is an error (C20), never data and never a crash *)
Theorem C03_overread_is_error : forall r n, (0 < n)%nat ->
  br_threshold r < br_pos r + N.of_nat n -> br_err (snd (br_peek r n)) = true.
Proof. exact overread_bits. Qed.
Print Assumptions C03_overread_is_error.

(* ---- one record decode, for ALL inputs (any state, tree, previous value): allocation counter, multimap
   sizes, consumption only, depth; the result size is NOT bounded by the input (refuted: elements that
   consume no input), the allocation limit is what bounds it ---- *)
From Stef Require Import Wire WireOk Reader WireFactsBase DecSafetyFactsBase DecSafetyFacts.

Theorem C03_reader_read_alloc_bounded : forall sizes fuel k tef r r' w,
  reader_read sizes fuel k tef r = RdRecord r' w -> r_alloc (rd_st r') <= record_alloc_limit.
Proof. exact reader_read_alloc_bounded. Qed.
Print Assumptions C03_reader_read_alloc_bounded.

Theorem C03_dec_alloc_exact : forall sizes fuel env t prev rs rs' a,
  dec sizes fuel env t prev rs = Ok (rs', a) ->
  r_alloc rs' = alloc_after sizes env t prev a (r_alloc rs).
Proof. exact dec_alloc_exact. Qed.
Print Assumptions C03_dec_alloc_exact.

Theorem C03_reader_read_multimap_bounded : forall sizes fuel k tef r r' w,
  reader_read sizes fuel k tef r = RdRecord r' w -> mm_okb w = true.
Proof. exact reader_read_multimap_bounded. Qed.
Print Assumptions C03_reader_read_multimap_bounded.

Theorem C03_dec_consumes : forall sizes fuel env t prev rs rs' a,
  dec sizes fuel env t prev rs = Ok (rs', a) -> consumes rs rs'.
Proof. exact dec_consumes. Qed.
Print Assumptions C03_dec_consumes.

Theorem C03_reader_read_alloc_exact : forall sizes fuel k tef r r' w,
  reader_read sizes fuel k tef r = RdRecord r' w ->
  r_alloc (rd_st r') = wire_arr_growth sizes [] (rd_tree r) (rd_rec r) w /\
  wire_arr_growth sizes [] (rd_tree r) (rd_rec r) w <= record_alloc_limit.
Proof. exact reader_read_alloc_exact. Qed.
Print Assumptions C03_reader_read_alloc_exact.

Theorem C03_dec_depth_bounded : forall sizes fuel env t prev rs rs' a,
  dec sizes fuel env t prev rs = Ok (rs', a) -> (height a <= 2 * fuel)%nat.
Proof. exact dec_depth_bounded. Qed.
Print Assumptions C03_dec_depth_bounded.

Theorem C03_dec_result_size_refuted : exists rs' a,
  dec zs_sizes 2 [] zs_tree RNil (zs_rs 10000) = Ok (rs', a) /\
  rst_input_bits (zs_rs 10000) = 24 /\ etree_size zs_tree = 2 /\
  wire_size a = 10001 /\ r_alloc rs' = 10000 * elem_size zs_sizes zs_elem.
Proof. exact dec_result_size_refuted. Qed.
Print Assumptions C03_dec_result_size_refuted.

(* Nesting guard (EnterNested / LeaveNested of go/pkg/allocsizechecker.go, limit of go/pkg/limits.go):
   for EVERY value tree the guarded recursion of a record decode succeeds exactly when the counted
   depth fits under the limit, fails before descending further otherwise, and leaves the counter
   where it started (so the per-record reset is not what keeps later records decodable). *)
Theorem C03_nesting_guard : forall t lim d, (d <= lim)%N ->
  walk lim d t = if (d + cdepth t <=? lim)%N then Some d else None.
Proof. exact walk_characterisation. Qed.
Print Assumptions C03_nesting_guard.

Theorem C03_record_nesting_guard : forall w,
  walk record_nesting_limit 0 (vtree_of_wire w) =
  if (wire_nesting w <=? record_nesting_limit)%N then Some 0%N else None.
Proof. exact record_nesting_guard. Qed.
Print Assumptions C03_record_nesting_guard.

(* The guard bounds the recursion depth itself: when uncounted levels (arrays, dictionary indirection)
   come in runs of at most k (a property of the schema's type expressions), an accepted record never
   has more than (k+1) * limit + k + 1 nested decoder calls. *)
Theorem C03_accepted_height_bound : forall t lim k, runs_ok k (S k) t = true -> walk lim 0 t = Some 0%N ->
  (vheight t <= (N.of_nat k + 1) * lim + N.of_nat k + 1)%N.
Proof. exact accepted_height_bound. Qed.
Print Assumptions C03_accepted_height_bound.
