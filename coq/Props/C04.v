(* Property C04: schemas that evolve by appending fields stay interoperable in both directions. *)
From Coq Require Import List NArith ZArith Bool PArith.
From Stef Require Import Schema SchemaFacts Schemas.
Import ListNotations.
Open Scope N_scope.

(* a reader given a descriptor announcing more fields of a struct than it knows refuses it: the
   error flag raised at that struct survives the rest of Init (ErrTooManyFieldsToDecode) *)
Theorem C04_refuse_more_fields : forall sc stack sid st f,
  let sd := get_struct sc sid in
  let own := N.of_nat (length (s_fields sd)) in
  on_stack stack (KStruct sid) = false ->
  own < fst (field_count (snd (fresh_col st)) sid own) ->
  i_err (snd (build sc (S f) stack (TStruct sid) st)) = true.
Proof. exact too_many_fields_refused. Qed.
Print Assumptions C04_refuse_more_fields.

(* struct field counts of the peer are taken in first-encounter order and memoised, so every later
   use of the same struct sees the same count *)
Theorem C04_count_memoised : forall st sid own,
  let '(c, st') := field_count st sid own in field_count st' sid own = (c, st').
Proof. exact field_count_memo. Qed.
Print Assumptions C04_count_memoised.

(* for every checked-in schema and every struct taken as root: the wire schema (counts in Init
   order) fed back as override is accepted, consumed completely and yields the same counts and
   columns (regenerated from the .stef files and re-evaluated on every run) *)
Theorem C04_own_wire_schema_accepted : all_override_ok all_schemas = true.
Proof. exact all_schemas_override_ok. Qed.
Print Assumptions C04_own_wire_schema_accepted.

(* ---- end to end: streams across a version skew (append-only evolution old -> new) ----
   forward: EVERY stream of an older writer (its own encoder tree, any frames/records satisfying
   stream_ok) that announces its wire schema is opened by a newer reader with the older tree and read
   back completely: all records, in order, then a clean end. *)
From Stef Require Import Wire WireOk Frame FrameFacts Reader Writer StreamFactsBase StreamFacts Handshake HandshakeFacts EvolveFactsBase EvolveFacts EvolveCompatible.

(* the reader's own compatibility test never refuses an append-only descendant *)
Theorem C04_evolves_compatible : forall old new root,
  schema_closed old = true -> evolves old new = true ->
  root < N.of_nat (length (structs old)) -> build_ok old root = true ->
  compatible (own_counts new root) (own_counts old root) = true.
Proof. exact evolves_compatible. Qed.
Print Assumptions C04_evolves_compatible.

Theorem C04_forward_read : forall old new root sizes fuel hfl ud frames kr k,
  schema_closed old = true -> evolves old new = true ->
  root < N.of_nat (length (structs old)) -> build_ok old root = true ->
  let t := fst (build_root old root None) in
  let d := Some (own_counts old root) in
  header_okb hfl d ud = true ->
  stream_ok sizes fuel t frames wst0 RNil (PM.empty _) = true ->
  (length frames < kr)%nat -> (length (concat (map snd frames)) < k)%nat ->
  exists r0,
    reader_open new root (SrcBytes (emit_frame hfl (header_content d ud) ++ emit_all (stream_encode t wst0 frames))) = inr r0 /\
    rd_tree r0 = t /\ rd_wire_schema r0 = d /\ rd_user_data r0 = ud /\
    read_all sizes fuel kr k r0 =
    (concat (map snd frames), stream_values t frames RNil (PM.empty _), Some RdEnd).
Proof. exact forward_read_bytes_closed. Qed.
Print Assumptions C04_forward_read.

(* downgrade: a newer writer told to write the older wire schema is created, encodes with the OLDER
   tree and announces the older schema; the older reader reads every such stream completely *)
Theorem C04_downgrade_write_read : forall v old new root md sizes fuel hfl ud frames kr k tw descr,
  schema_closed old = true -> evolves old new = true ->
  root < N.of_nat (length (structs old)) -> build_ok old root = true ->
  is_incompat (compat3 v (own_counts new root) (own_counts old root)) = false ->
  new_writer v new root (mkWopts (Some (own_counts old root)) true md) = Some (tw, descr) ->
  header_okb hfl descr ud = true ->
  stream_ok sizes fuel tw frames wst0 RNil (PM.empty _) = true ->
  (length frames < kr)%nat -> (length (concat (map snd frames)) < k)%nat ->
  tw = fst (build_root old root None) /\ descr = Some (own_counts old root) /\
  exists r0,
    reader_open old root (SrcBytes (emit_frame hfl (header_content descr ud) ++ emit_all (stream_encode tw wst0 frames))) = inr r0 /\
    rd_tree r0 = tw /\ rd_wire_schema r0 = descr /\ rd_user_data r0 = ud /\
    read_all sizes fuel kr k r0 =
    (concat (map snd frames), stream_values tw frames RNil (PM.empty _), Some RdEnd).
Proof. exact downgrade_write_read_bytes. Qed.
Print Assumptions C04_downgrade_write_read.
