(* Property C04: schemas that evolve by appending fields stay interoperable in both directions. *)
From Coq Require Import List NArith ZArith Bool PArith.
From Stef Require Import Schema SchemaFacts Schemas.
Import ListNotations.
Open Scope N_scope.

(* a reader given a descriptor announcing more fields of a struct than it knows refuses it: the
   error flag raised at that struct survives the rest of Init (ErrTooManyFieldsToDecode) *)
Theorem C04_refuse_more_fields : forall sc stack sid st f,
  let sd := get_struct sc sid in
  let own := N.of_nat (length (s_fields sd)) in
  on_stack stack (KStruct sid) = false ->
  own < fst (field_count (snd (fresh_col st)) sid own) ->
  i_err (snd (build sc (S f) stack (TStruct sid) st)) = true.
Proof. exact too_many_fields_refused. Qed.
Print Assumptions C04_refuse_more_fields.

(* struct field counts of the peer are taken in first-encounter order and memoised, so every later
   use of the same struct sees the same count *)
Theorem C04_count_memoised : forall st sid own,
  let '(c, st') := field_count st sid own in field_count st' sid own = (c, st').
Proof. exact field_count_memo. Qed.
Print Assumptions C04_count_memoised.

(* for every checked-in schema and every struct taken as root: the wire schema (counts in Init
   order) fed back as override is accepted, consumed completely and yields the same counts and
   columns (regenerated from the .stef files and re-evaluated on every run) *)
Theorem C04_own_wire_schema_accepted : all_override_ok all_schemas = true.
Proof. exact all_schemas_override_ok. Qed.
Print Assumptions C04_own_wire_schema_accepted.
