(* Property C05: a stream cut at any byte yields exactly the records of its complete frames. *)
From Coq Require Import List NArith ZArith Bool.
From Stef Require Import Bits Codecs Schema Wire Frame FrameFacts.
Import ListNotations.
Open Scope N_scope.

(* a whole frame is parsed back exactly, whatever follows *)
Theorem C05_frame_roundtrip : forall fl content rest, frame_ok fl content ->
  parse_frame (emit_frame fl content ++ rest) = inr (fl, content, rest).
Proof. exact parse_frame_emit. Qed.
Print Assumptions C05_frame_roundtrip.

(* a strict non-empty prefix of a frame is never mistaken for a frame *)
Theorem C05_frame_prefix_rejected : forall fl content k, frame_ok fl content ->
  (0 < k)%nat -> (k < length (emit_frame fl content))%nat ->
  parse_frame (firstn k (emit_frame fl content)) = inl PTrunc.
Proof. exact parse_frame_prefix. Qed.
Print Assumptions C05_frame_prefix_rejected.

(* every cut offset of every frame sequence (uncompressed): exactly the complete frames, in
   order, then end (cut at a boundary) or truncation (cut inside a frame); no frame count bound *)
Theorem C05_cut_anywhere : forall done fl c k fuel,
  Forall (fun f => frame_ok (fst f) (snd f)) done -> frame_ok fl c ->
  (k < length (emit_frame fl c))%nat -> (length done + 1 < fuel)%nat ->
  parse_all fuel (emit_all done ++ firstn k (emit_frame fl c)) =
  (done, if (k =? 0)%nat then PEnd else PTrunc).
Proof. exact parse_all_cut. Qed.
Print Assumptions C05_cut_anywhere.

Theorem C05_complete_stream : forall frames fuel, Forall (fun f => frame_ok (fst f) (snd f)) frames ->
  (length frames < fuel)%nat -> parse_all fuel (emit_all frames) = (frames, PEnd).
Proof. exact parse_all_emit. Qed.
Print Assumptions C05_complete_stream.

(* the same at the record level: a stream cut inside a frame delivers every record of the complete
   frames before it (with the right values), then reports the truncation - never a partial record *)
From Stef Require Import WireOk Reader Writer WireFactsBase WireFacts FrameContentFacts FrameContentInv StreamFactsBase StreamFacts.

Theorem C05_records_of_complete_frames : forall sizes fuel t frames ws0 r0 kr k fl c n,
  rd_tree r0 = t -> rd_left r0 = 0 ->
  frame_ok fl c -> (0 < n)%nat -> (n < length (emit_frame fl c))%nat ->
  rd_src r0 = SrcBytes (emit_all (stream_encode t ws0 frames) ++ firstn n (emit_frame fl c)) ->
  carry ws0 (rd_st r0) -> acc_empty ws0 -> outside_default ws0 t ->
  NoDup (tree_cols t) -> fc_ok t ->
  stream_ok sizes fuel t frames ws0 (rd_rec r0) (rd_td r0) = true ->
  (length frames < kr)%nat -> (length (concat (map snd frames)) < k)%nat ->
  read_all sizes fuel kr k r0 =
  (concat (map snd frames), stream_values t frames (rd_rec r0) (rd_td r0), Some (RdErr true EEof)).
Proof. exact stream_roundtrip_bytes_cut. Qed.
Print Assumptions C05_records_of_complete_frames.
